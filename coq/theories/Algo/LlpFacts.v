(** Proofs of the statements of Algo/LlpStatements.v. *)
From WG Require Import Base.Prelude Algo.Llp Algo.LlpStatements.
From Coq Require Import ZifyBool ZifyN ZifyNat.
Local Open Scope N_scope.

(** * Arrays *)
Lemma nseq_len a n : length (nseq a n) = n.
Proof. revert a; induction n; intros; cbn; [reflexivity|now rewrite IHn]. Qed.

Lemma In_nseq x a n : In x (nseq a n) <-> a <= x < a + N.of_nat n.
Proof.
  revert a; induction n; intros a; cbn [nseq In].
  - lia.
  - rewrite IHn. lia.
Qed.

Lemma NoDup_nseq a n : NoDup (nseq a n).
Proof.
  revert a; induction n; intros a; cbn [nseq]; constructor.
  - rewrite In_nseq. lia.
  - apply IHn.
Qed.

Lemma nth_nseq a n i : (i < n)%nat -> nth i (nseq a n) 0 = a + N.of_nat i.
Proof.
  revert a i; induction n; intros a i Hi; [lia|].
  destruct i; cbn [nseq nth]; [lia|]. rewrite IHn by lia. lia.
Qed.

Lemma ids_length n : length (ids n) = n.
Proof. apply nseq_len. Qed.

Lemma In_ids a n : In a (ids n) <-> a < N.of_nat n.
Proof. unfold ids. rewrite In_nseq. lia. Qed.

Lemma NoDup_ids n : NoDup (ids n).
Proof. apply NoDup_nseq. Qed.

Lemma get_ids n a : a < N.of_nat n -> get (ids n) a = a.
Proof. intros H. unfold get, ids. rewrite nth_nseq by lia. lia. Qed.

Lemma get_in l a : a < nlen l -> In (get l a) l.
Proof. intros H. unfold get. apply nth_In. unfold nlen in H. lia. Qed.

Lemma in_get l x : In x l -> exists a, a < nlen l /\ get l a = x.
Proof.
  intros H. destruct (In_nth l x 0 H) as [i [Hi Hx]].
  exists (N.of_nat i). unfold get, nlen. rewrite Nat2N.id. split; [lia|exact Hx].
Qed.

Lemma get_or_default l a : get l a = 0 \/ In (get l a) l.
Proof. unfold get. destruct (nth_in_or_default (N.to_nat a) l 0); [right|left]; assumption. Qed.

Lemma map_get_ids l : map (get l) (ids (length l)) = l.
Proof.
  apply nth_ext with (d := get l 0) (d' := 0).
  - now rewrite map_length, ids_length.
  - intros i Hi. rewrite map_length, ids_length in Hi.
    rewrite map_nth with (d := 0). unfold ids. rewrite nth_nseq by lia.
    unfold get. f_equal. lia.
Qed.

Lemma list_ext_get l l' :
  length l = length l' -> (forall j, j < nlen l -> get l j = get l' j) -> l = l'.
Proof.
  intros Hl H. apply nth_ext with (d := 0) (d' := 0); [exact Hl|].
  intros i Hi. specialize (H (N.of_nat i)). unfold get, nlen in H. rewrite Nat2N.id in H.
  apply H. lia.
Qed.

Lemma set_nth_length l i v : length (set_nth l i v) = length l.
Proof. revert i; induction l; intros [|i]; cbn; auto. Qed.

Lemma set_length l i v : length (set l i v) = length l.
Proof. apply set_nth_length. Qed.

Lemma nth_set_nth_same l i v : (i < length l)%nat -> nth i (set_nth l i v) 0 = v.
Proof. revert i; induction l; intros [|i] H; cbn in *; try lia; auto. apply IHl. lia. Qed.

Lemma nth_set_nth_other l i j v : i <> j -> nth j (set_nth l i v) 0 = nth j l 0.
Proof.
  revert i j; induction l; intros [|i] [|j] H; cbn; try reflexivity; try lia.
  apply IHl. lia.
Qed.

Lemma get_set_same l a v : a < nlen l -> get (set l a v) a = v.
Proof. intros H. unfold get, set. apply nth_set_nth_same. unfold nlen in H. lia. Qed.

Lemma get_set_other l a b v : a <> b -> get (set l a v) b = get l b.
Proof. intros H. unfold get, set. apply nth_set_nth_other. lia. Qed.

Lemma Forall_set_nth (P : N -> Prop) l i v : Forall P l -> P v -> Forall P (set_nth l i v).
Proof.
  intros Hl Hv. revert i; induction Hl; intros [|i]; cbn; constructor; auto.
Qed.

(** writing a list of (index, value) pairs *)
Definition write_all (zs : list (N * N)) (r : list N) : list N :=
  fold_left (fun r z => set r (fst z) (snd z)) zs r.

Lemma write_all_cons z zs r : write_all (z :: zs) r = write_all zs (set r (fst z) (snd z)).
Proof. reflexivity. Qed.

Lemma write_all_length zs r : length (write_all zs r) = length r.
Proof.
  revert r; induction zs as [|z zs IH]; intros r; [reflexivity|].
  rewrite write_all_cons, IH. apply set_length.
Qed.

Lemma get_write_all_notin zs r a :
  ~ In a (map fst zs) -> get (write_all zs r) a = get r a.
Proof.
  revert r; induction zs as [|z zs IH]; intros r H; [reflexivity|].
  cbn [map In] in H. rewrite write_all_cons, IH by tauto.
  apply get_set_other. tauto.
Qed.

Lemma get_write_all_in zs r a c :
  NoDup (map fst zs) -> In (a, c) zs -> a < nlen r -> get (write_all zs r) a = c.
Proof.
  revert r; induction zs as [|z zs IH]; intros r Hnd Hin Ha; [destruct Hin|].
  cbn [map] in Hnd. inversion Hnd as [|? ? Hnotin Hnd']; subst.
  rewrite write_all_cons. destruct Hin as [Hz|Hin].
  - subst z. cbn [fst snd] in *.
    rewrite get_write_all_notin by exact Hnotin.
    apply get_set_same. exact Ha.
  - apply IH; [exact Hnd'|exact Hin|]. unfold nlen in *. rewrite set_length. exact Ha.
Qed.

Lemma in_combine_exists {A B} (l : list A) (l' : list B) a :
  length l = length l' -> In a l -> exists c, In (a, c) (List.combine l l').
Proof.
  revert l'; induction l as [|x l IH]; intros [|y l'] Hl Hin; cbn in *; try lia; try tauto.
  destruct Hin as [->|Hin]; [exists y; now left|].
  destruct (IH l' ltac:(lia) Hin) as [c Hc]. exists c. now right.
Qed.

Lemma in_combine_exists_r {A B} (l : list A) (l' : list B) c :
  length l = length l' -> In c l' -> exists a, In (a, c) (List.combine l l').
Proof.
  revert l'; induction l as [|x l IH]; intros [|y l'] Hl Hin; cbn in *; try lia; try tauto.
  destruct Hin as [->|Hin]; [exists x; now left|].
  destruct (IH l' ltac:(lia) Hin) as [a Ha]. exists a. now right.
Qed.

Lemma combine_map_l {A B C} (f : A -> C) (l : list A) (l' : list B) :
  List.combine (map f l) l' = map (fun z => (f (fst z), snd z)) (List.combine l l').
Proof.
  revert l'; induction l as [|x l IH]; intros [|y l']; cbn; try reflexivity.
  now rewrite IH.
Qed.

Lemma map_fst_combine {A B} (l : list A) (l' : list B) :
  length l = length l' -> map fst (List.combine l l') = l.
Proof.
  revert l'; induction l as [|x l IH]; intros [|y l'] H; cbn in *; try lia; try reflexivity.
  now rewrite IH by lia.
Qed.

Lemma last_cons {A} (x : A) l d : last (x :: l) d = last l x.
Proof.
  revert x d; induction l as [|y l IH]; intros x d; [reflexivity|].
  change (last (x :: y :: l) d) with (last (y :: l) d).
  rewrite (IH y d), (IH y x). reflexivity.
Qed.

(** * The key order and the sort *)
Definition key_le (x y : key) : Prop :=
  let '(x1, x2, x3, x4) := x in
  let '(y1, y2, y3, y4) := y in
  x1 < y1 \/ (x1 = y1 /\ (x2 < y2 \/ (x2 = y2 /\ (x3 < y3 \/ (x3 = y3 /\ x4 <= y4))))).

Lemma key_leb_spec x y : key_leb x y = true <-> key_le x y.
Proof.
  destruct x as [[[x1 x2] x3] x4], y as [[[y1 y2] y3] y4]. unfold key_leb, key_le.
  destruct (N.ltb_spec x1 y1); [intuition lia|].
  destruct (N.ltb_spec y1 x1); [intuition lia|].
  destruct (N.ltb_spec x2 y2); [intuition lia|].
  destruct (N.ltb_spec y2 x2); [intuition lia|].
  destruct (N.ltb_spec x3 y3); [intuition lia|].
  destruct (N.ltb_spec y3 x3); [intuition lia|].
  rewrite N.leb_le. intuition lia.
Qed.

Lemma key_le_trans x y z : key_le x y -> key_le y z -> key_le x z.
Proof.
  destruct x as [[[x1 x2] x3] x4], y as [[[y1 y2] y3] y4], z as [[[z1 z2] z3] z4].
  unfold key_le. lia.
Qed.

Lemma key_le_antisym x y : key_le x y -> key_le y x -> x = y.
Proof.
  destruct x as [[[x1 x2] x3] x4], y as [[[y1 y2] y3] y4].
  unfold key_le. intros H1 H2.
  assert (x1 = y1 /\ x2 = y2 /\ x3 = y3 /\ x4 = y4) as (-> & -> & -> & ->) by lia.
  reflexivity.
Qed.

Lemma key_leb_trans : Transitive (fun x y => is_true (key_leb x y)).
Proof.
  intros x y z H1 H2. unfold is_true in *. rewrite key_leb_spec in *.
  eapply key_le_trans; eassumption.
Qed.

Lemma sorted_keys_strong l : StronglySorted key_le (KeySort.sort l).
Proof.
  pose proof (KeySort.StronglySorted_sort l key_leb_trans) as H.
  induction H as [|k ks Hs IH Hall]; constructor; [exact IH|].
  eapply Forall_impl; [|exact Hall]. intros k' Hk. apply key_leb_spec. exact Hk.
Qed.

Section SortIds.
  Variable kf : N -> key.
  Hypothesis kf_id : forall a, key_id (kf a) = a.

  Lemma sort_ids_perm l : Permutation (sort_ids kf l) l.
  Proof.
    unfold sort_ids.
    transitivity (map key_id (map kf l)).
    - apply Permutation_map. symmetry. apply KeySort.Permuted_sort.
    - rewrite map_map. rewrite map_ext with (g := fun a => a) by exact kf_id.
      rewrite map_id. reflexivity.
  Qed.

  Lemma sort_ids_keys l : map kf (sort_ids kf l) = KeySort.sort (map kf l).
  Proof.
    unfold sort_ids. rewrite map_map.
    rewrite <- (map_id (KeySort.sort (map kf l))) at 2.
    apply map_ext_in. intros k Hk.
    assert (In k (map kf l)) as Hk'.
    { eapply Permutation_in; [symmetry; apply KeySort.Permuted_sort|exact Hk]. }
    apply in_map_iff in Hk'. destruct Hk' as [a [<- _]]. now rewrite kf_id.
  Qed.

  Lemma sort_ids_sorted l : StronglySorted key_le (map kf (sort_ids kf l)).
  Proof. rewrite sort_ids_keys. apply sorted_keys_strong. Qed.

  Lemma sort_ids_length l : length (sort_ids kf l) = length l.
  Proof. apply Permutation_length, sort_ids_perm. Qed.

  Lemma sort_ids_nodup l : NoDup l -> NoDup (sort_ids kf l).
  Proof. intros H. eapply Permutation_NoDup; [symmetry; apply sort_ids_perm|exact H]. Qed.

  Lemma sort_ids_in l a : In a (sort_ids kf l) <-> In a l.
  Proof.
    split; apply Permutation_in; [|symmetry]; apply sort_ids_perm.
  Qed.
End SortIds.

Lemma strongly_sorted_nth {A} (R : A -> A -> Prop) l d i j :
  StronglySorted R l -> (i < j)%nat -> (j < length l)%nat -> R (nth i l d) (nth j l d).
Proof.
  intros H. revert i j. induction H as [|x l Hs IH Hall]; intros i j Hij Hj; cbn in Hj; [lia|].
  destruct j; [lia|]. destruct i; cbn [nth].
  - rewrite Forall_forall in Hall. apply Hall. apply nth_In. lia.
  - apply IH; lia.
Qed.

(** * The relabelling loop *)
Lemma pair_eqb_spec p q : pair_eqb p q = true <-> p = q.
Proof.
  destruct p as [p1 p2], q as [q1 q2]. unfold pair_eqb. cbn [fst snd].
  rewrite andb_true_iff, !N.eqb_eq. split; [intros [-> ->]; reflexivity|intros [= -> ->]; auto].
Qed.

(** the labels handed out along a list of (result, labels) pairs *)
Fixpoint relabel_from (prev : N * N) (cur : N) (l : list (N * N)) : list N :=
  match l with
  | [] => []
  | x :: l' =>
    let c := if pair_eqb prev x then cur else cur + 1 in
    c :: relabel_from x c l'
  end.

Lemma relabel_from_length prev cur l : length (relabel_from prev cur l) = length l.
Proof. revert prev cur; induction l; intros; cbn; [reflexivity|now rewrite IHl]. Qed.

Definition pairs_of (result labels : list N) (a : N) : N * N := (get result a, get labels a).

Lemma relabel_loop_pure labels perm : forall prev cur result,
  NoDup perm ->
  let cs := relabel_from prev cur (map (pairs_of result labels) perm) in
  relabel_loop perm labels prev cur result =
  (write_all (List.combine perm cs) result, last cs cur).
Proof.
  induction perm as [|a rest IH]; intros prev cur result Hnd; [reflexivity|].
  inversion Hnd as [|? ? Hnotin Hnd']; subst.
  cbn [relabel_loop map relabel_from List.combine].
  change (get result a, get labels a) with (pairs_of result labels a).
  set (p := pairs_of result labels a).
  set (c := if pair_eqb prev p then cur else cur + 1).
  rewrite (IH p c (set result a c) Hnd').
  assert (map (pairs_of (set result a c) labels) rest = map (pairs_of result labels) rest) as ->.
  { apply map_ext_in. intros b Hb. unfold pairs_of. rewrite get_set_other; [reflexivity|].
    intros ->. contradiction. }
  rewrite write_all_cons. cbn [fst snd]. rewrite last_cons. reflexivity.
Qed.

Section Relabel.
  Variable le : N * N -> N * N -> Prop.
  Hypothesis le_antisym : forall x y, le x y -> le y x -> x = y.

  Lemma relabel_from_spec l : forall prev cur,
    StronglySorted le (prev :: l) ->
    let zs := List.combine l (relabel_from prev cur l) in
    (forall x c, In (x, c) zs -> cur <= c /\ (c = cur <-> x = prev)) /\
    (forall x c y d, In (x, c) zs -> In (y, d) zs -> (c = d <-> x = y)).
  Proof.
    induction l as [|x l IH]; intros prev cur Hs; [cbn; split; intros; contradiction|].
    inversion Hs as [|? ? Hs' Hall]; subst.
    inversion Hall as [|? ? Hpx Hall']; subst.
    cbn [relabel_from List.combine].
    set (c0 := if pair_eqb prev x then cur else cur + 1).
    destruct (IH x c0 Hs') as [IHA IHB]. clear IH.
    assert (Hc0 : cur <= c0 /\ (c0 = cur <-> x = prev)).
    { unfold c0. destruct (pair_eqb prev x) eqn:E.
      - apply pair_eqb_spec in E. subst. split; [lia|tauto].
      - split; [lia|]. split; [lia|]. intros ->.
        assert (pair_eqb prev prev = true) as E' by now apply pair_eqb_spec. congruence. }
    destruct Hc0 as [Hc0le [Hc0a Hc0b]].
    assert (HA : forall y d, In (y, d) ((x, c0) :: List.combine l (relabel_from x c0 l)) ->
                             cur <= d /\ (d = cur <-> y = prev)).
    { intros y d [Hhd|Htl].
      - inversion Hhd; subst y d. split; [exact Hc0le|split; assumption].
      - destruct (IHA y d Htl) as [Hge [Hiff1 Hiff2]]. split; [lia|].
        assert (Hxy : le x y).
        { inversion Hs' as [|? ? _ Hallx]; subst. rewrite Forall_forall in Hallx.
          apply Hallx. eapply in_combine_l. exact Htl. }
        split.
        + intros Hd. assert (c0 = cur) as Hc by lia. pose proof (Hc0a Hc) as Hx.
          rewrite <- Hx. apply Hiff1. lia.
        + intros Hy. subst y. assert (x = prev) as Hx by (apply le_antisym; assumption).
          pose proof (Hc0b Hx) as Hc. pose proof (Hiff2 (eq_sym Hx)) as Hd. lia. }
    split; [exact HA|].
    intros y c z d [Hy|Hy] [Hz|Hz].
    - inversion Hy; inversion Hz; subst. tauto.
    - inversion Hy; subst. destruct (IHA z d Hz) as [_ Hiff]. split; intros H; symmetry; apply Hiff; auto.
    - inversion Hz; subst. destruct (IHA y c Hy) as [_ Hiff]. exact Hiff.
    - apply IHB; assumption.
  Qed.
End Relabel.

Lemma relabel_from_dense l : forall prev cur,
  let cs := relabel_from prev cur l in
  let k := last cs cur in
  cur <= k /\ (forall c, In c cs -> cur <= c <= k) /\ (forall v, cur < v <= k -> In v cs).
Proof.
  induction l as [|x l IH]; intros prev cur; cbn [relabel_from].
  - cbn. split; [lia|]. split; [tauto|lia].
  - set (c0 := if pair_eqb prev x then cur else cur + 1).
    assert (Hc0 : c0 = cur \/ c0 = cur + 1) by (unfold c0; destruct (pair_eqb prev x); auto).
    rewrite last_cons. destruct (IH x c0) as (H1 & H2 & H3).
    split; [lia|]. split.
    + intros c [<-|Hc]; [lia|]. specialize (H2 c Hc). lia.
    + intros v Hv. destruct (N.eq_dec v c0) as [->|Hne]; [now left|].
      right. apply H3. lia.
Qed.

(** * [combine] *)
Lemma ckey_id result labels a : key_id (ckey result labels a) = a.
Proof. reflexivity. Qed.

(** the order on (result, labels) pairs by which the sorted sequence is sorted *)
Definition pair_le (result : list N) (p q : N * N) : Prop :=
  get result (snd p) < get result (snd q) \/
  (get result (snd p) = get result (snd q) /\
   (snd p < snd q \/ (snd p = snd q /\ fst p <= fst q))).

Lemma pair_le_antisym result p q : pair_le result p q -> pair_le result q p -> p = q.
Proof.
  destruct p as [p1 p2], q as [q1 q2]. unfold pair_le. cbn [fst snd]. intros H1 H2.
  assert (p2 = q2) as -> by lia. assert (p1 = q1) as -> by lia. reflexivity.
Qed.

Lemma key_le_pair_le result labels a b :
  key_le (ckey result labels a) (ckey result labels b) ->
  pair_le result (pairs_of result labels a) (pairs_of result labels b).
Proof. unfold key_le, ckey, pair_le, pairs_of. cbn [fst snd]. lia. Qed.

Lemma sorted_pairs result labels perm :
  StronglySorted key_le (map (ckey result labels) perm) ->
  StronglySorted (pair_le result) (map (pairs_of result labels) perm).
Proof.
  induction perm as [|a perm IH]; intros H; cbn in *; [constructor|].
  inversion H as [|? ? Hs Hall]; subst. constructor; [apply IH; exact Hs|].
  rewrite Forall_forall in *. intros p Hp. apply in_map_iff in Hp. destruct Hp as [b [<- Hb]].
  apply key_le_pair_le. apply Hall. apply in_map. exact Hb.
Qed.

(** the shape of [llp_combine] on non-empty arrays *)
Lemma llp_combine_shape result labels :
  result <> [] ->
  exists perm cs,
    Permutation perm (ids (length result)) /\
    length cs = length perm /\
    StronglySorted (pair_le result) (map (pairs_of result labels) perm) /\
    cs = relabel_from (hd (0, 0) (map (pairs_of result labels) perm)) 0
           (map (pairs_of result labels) perm) /\
    llp_combine result labels = (write_all (List.combine perm cs) result, last cs 0 + 1).
Proof.
  intros Hne. unfold llp_combine.
  set (kf := ckey result labels).
  pose proof (sort_ids_perm kf (ckey_id result labels) (ids (length result))) as Hperm.
  pose proof (sort_ids_sorted kf (ckey_id result labels) (ids (length result))) as Hsorted.
  pose proof (sort_ids_nodup kf (ckey_id result labels) _ (NoDup_ids (length result))) as Hnd.
  destruct (sort_ids kf (ids (length result))) as [|a0 rest] eqn:E.
  { apply Permutation_length in Hperm. rewrite ids_length in Hperm. cbn in Hperm.
    destruct result; [congruence|discriminate]. }
  inversion Hnd as [|? ? Hnotin Hnd']; subst.
  change (get result a0, get labels a0) with (pairs_of result labels a0).
  set (p0 := pairs_of result labels a0).
  rewrite (relabel_loop_pure labels rest p0 0 (set result a0 0) Hnd').
  assert (map (pairs_of (set result a0 0) labels) rest = map (pairs_of result labels) rest) as ->.
  { apply map_ext_in. intros b Hb. unfold pairs_of. rewrite get_set_other; [reflexivity|].
    intros ->. contradiction. }
  set (cs' := relabel_from p0 0 (map (pairs_of result labels) rest)).
  exists (a0 :: rest), (0 :: cs').
  split; [exact Hperm|]. split.
  { cbn [length]. unfold cs'. now rewrite relabel_from_length, map_length. }
  split; [apply sorted_pairs; exact Hsorted|]. split.
  { cbn [map hd relabel_from]. fold p0.
    assert (pair_eqb p0 p0 = true) as -> by now apply pair_eqb_spec. reflexivity. }
  cbn [List.combine]. rewrite write_all_cons. cbn [fst snd]. rewrite last_cons. reflexivity.
Qed.

Lemma pair_le_refl result p : pair_le result p p.
Proof. unfold pair_le. lia. Qed.

Lemma sorted_with_head {A} (R : A -> A -> Prop) (d : A) l :
  (forall x, R x x) -> StronglySorted R l -> l <> [] -> StronglySorted R (hd d l :: l).
Proof.
  intros Hrefl Hs Hne. destruct l as [|x l]; [congruence|]. cbn [hd].
  constructor; [exact Hs|]. inversion Hs; subst. constructor; [apply Hrefl|assumption].
Qed.

Theorem combine_refinement : S_combine_refinement.
Proof.
  intros result labels a b Hlen Ha Hb r'.
  assert (Hne : result <> []) by (intros ->; unfold nlen in Ha; cbn [length] in Ha; lia).
  destruct (llp_combine_shape result labels Hne) as (perm & cs & Hperm & Hcs & Hsorted & Hcsdef & Heq).
  subst r'. rewrite Heq. cbn [fst].
  split; [apply write_all_length|].
  set (P := pairs_of result labels) in *.
  assert (Hnd : NoDup perm).
  { eapply Permutation_NoDup; [symmetry; exact Hperm|apply NoDup_ids]. }
  assert (Hin : forall x, x < nlen result -> In x perm).
  { intros x Hx. eapply Permutation_in; [symmetry; exact Hperm|]. apply In_ids. exact Hx. }
  destruct (in_combine_exists perm cs a (eq_sym Hcs) (Hin a Ha)) as [ca Hca].
  destruct (in_combine_exists perm cs b (eq_sym Hcs) (Hin b Hb)) as [cb Hcb].
  rewrite (get_write_all_in _ result a ca), (get_write_all_in _ result b cb);
    try assumption; try (rewrite map_fst_combine by (symmetry; exact Hcs); exact Hnd).
  assert (Hne' : map P perm <> []).
  { destruct perm; [destruct (Hin a Ha)|discriminate]. }
  pose proof (sorted_with_head (pair_le result) (0, 0) (map P perm)
                (pair_le_refl result) Hsorted Hne') as Hs.
  destruct (relabel_from_spec (pair_le result) (pair_le_antisym result) (map P perm) _ 0 Hs)
    as [_ HB].
  rewrite <- Hcsdef in HB. rewrite combine_map_l in HB.
  assert (HPa : In (P a, ca) (map (fun z => (P (fst z), snd z)) (List.combine perm cs))).
  { apply in_map_iff. exists (a, ca). split; [reflexivity|exact Hca]. }
  assert (HPb : In (P b, cb) (map (fun z => (P (fst z), snd z)) (List.combine perm cs))).
  { apply in_map_iff. exists (b, cb). split; [reflexivity|exact Hcb]. }
  rewrite (HB _ _ _ _ HPa HPb). unfold P, pairs_of.
  split; [intros [= -> ->]; auto|intros [-> ->]; reflexivity].
Qed.

Theorem combine_dense : S_combine_dense.
Proof.
  intros result labels Hlen Hne v.
  destruct (llp_combine_shape result labels Hne) as (perm & cs & Hperm & Hcs & Hsorted & Hcsdef & Heq).
  rewrite Heq. cbn [fst snd].
  set (P := pairs_of result labels) in *.
  assert (Hnd : NoDup perm).
  { eapply Permutation_NoDup; [symmetry; exact Hperm|apply NoDup_ids]. }
  assert (Hndz : NoDup (map fst (List.combine perm cs))).
  { rewrite map_fst_combine by (symmetry; exact Hcs). exact Hnd. }
  assert (Hlt : forall x, In x perm -> x < nlen result).
  { intros x Hx. apply In_ids. eapply Permutation_in; [exact Hperm|exact Hx]. }
  (* the values handed out are exactly 0..last *)
  assert (Hvals : forall c, In c cs <-> c <= last cs 0).
  { destruct perm as [|a0 rest].
    { apply Permutation_length in Hperm. rewrite ids_length in Hperm.
      destruct result; [congruence|discriminate]. }
    cbn [map hd relabel_from] in Hcsdef.
    assert (pair_eqb (P a0) (P a0) = true) as E by now apply pair_eqb_spec.
    rewrite E in Hcsdef.
    destruct (relabel_from_dense (map P rest) (P a0) 0) as (H1 & H2 & H3).
    rewrite Hcsdef. rewrite last_cons. intros c. split.
    - intros [<-|Hc]; [lia|]. apply H2 in Hc. lia.
    - intros Hc. destruct (N.eq_dec c 0) as [->|Hc0]; [now left|]. right. apply H3. lia. }
  split.
  - intros Hv. assert (In v cs) as Hin by (apply Hvals; lia).
    destruct (in_combine_exists_r perm cs v (eq_sym Hcs) Hin) as [a Ha].
    assert (Ha' : a < nlen result) by (apply Hlt; eapply in_combine_l; exact Ha).
    rewrite <- (get_write_all_in _ result a v Hndz Ha Ha').
    apply get_in. unfold nlen. rewrite write_all_length. exact Ha'.
  - intros Hv. apply in_get in Hv. destruct Hv as [a [Ha Hga]].
    unfold nlen in Ha. rewrite write_all_length in Ha.
    assert (In a perm) as Hin.
    { eapply Permutation_in; [symmetry; exact Hperm|]. apply In_ids. exact Ha. }
    destruct (in_combine_exists perm cs a (eq_sym Hcs) Hin) as [c Hc].
    rewrite (get_write_all_in _ result a c Hndz Hc Ha) in Hga. subst c.
    apply in_combine_r in Hc. apply Hvals in Hc. lia.
Qed.

(** * [combine_labels] *)
Lemma insert_desc_perm x l : Permutation (insert_desc x l) (x :: l).
Proof.
  induction l as [|y l IH]; cbn [insert_desc]; [reflexivity|].
  destruct (fst y <=? fst x)%Z; [reflexivity|].
  rewrite IH. apply perm_swap.
Qed.

Lemma sort_desc_perm l : Permutation (sort_desc l) l.
Proof.
  induction l as [|x l IH]; cbn [sort_desc]; [reflexivity|].
  rewrite insert_desc_perm. now constructor.
Qed.

Lemma llp_combine_length result labels :
  length (fst (llp_combine result labels)) = length result.
Proof.
  destruct (list_eq_dec N.eq_dec result []) as [->|Hne]; [reflexivity|].
  destruct (llp_combine_shape result labels Hne) as (perm & cs & _ & _ & _ & _ & Heq).
  rewrite Heq. apply write_all_length.
Qed.

Definition same_class (l : list N) (a b : N) : Prop := get l a = get l b.

Lemma combine_step_spec best r g n :
  length r = n -> length best = n -> length (snd g) = n ->
  length (combine_step best r g) = n /\
  forall a b, a < N.of_nat n -> b < N.of_nat n ->
    (same_class (combine_step best r g) a b <->
     same_class r a b /\ same_class (snd g) a b /\ same_class best a b).
Proof.
  intros Hr Hb Hg. unfold combine_step.
  set (r1 := fst (llp_combine r (snd g))).
  assert (Hr1 : length r1 = n) by (unfold r1; rewrite llp_combine_length; exact Hr).
  split; [rewrite llp_combine_length; exact Hr1|].
  intros a b Ha Hb'. unfold same_class.
  destruct (combine_refinement r1 best a b) as [_ H2];
    [congruence|unfold nlen; rewrite Hr1; exact Ha|unfold nlen; rewrite Hr1; exact Hb'|].
  destruct (combine_refinement r (snd g) a b) as [_ H1];
    [congruence|unfold nlen; rewrite Hr; exact Ha|unfold nlen; rewrite Hr; exact Hb'|].
  fold r1 in H1. cbv zeta in H1, H2. rewrite H2, H1. tauto.
Qed.

Lemma fold_combine_spec best n : forall S r0,
  length r0 = n -> length best = n -> (forall g, In g S -> length (snd g) = n) ->
  (forall a b, a < N.of_nat n -> b < N.of_nat n -> same_class r0 a b -> same_class best a b) ->
  let r := fold_left (combine_step best) S r0 in
  length r = n /\
  forall a b, a < N.of_nat n -> b < N.of_nat n ->
    (same_class r a b <-> same_class r0 a b /\ forall g, In g S -> same_class (snd g) a b).
Proof.
  induction S as [|g S IH]; intros r0 Hr0 Hb HS Href; cbn [fold_left].
  - split; [exact Hr0|]. intros a b _ _. cbn. tauto.
  - destruct (combine_step_spec best r0 g n Hr0 Hb (HS g (or_introl eq_refl))) as [Hl1 Hs1].
    destruct (IH (combine_step best r0 g) Hl1 Hb (fun g' Hg' => HS g' (or_intror Hg'))) as [Hl Hs].
    { intros a b Ha Hb' Hab. apply (Hs1 a b Ha Hb') in Hab. tauto. }
    split; [exact Hl|]. intros a b Ha Hb'. rewrite (Hs a b Ha Hb'), (Hs1 a b Ha Hb').
    split.
    + intros [(H1 & H2 & H3) H4]. split; [exact H1|]. intros g' [<-|Hg']; auto.
    + intros [H1 H2]. split; [|intros g' Hg'; apply H2; now right].
      split; [exact H1|]. split; [apply H2; now left|]. apply Href; assumption.
Qed.

Lemma llp_combine_labels_inv fam r :
  llp_combine_labels fam = Some r ->
  exists c0 l0 rest,
    fam = (c0, l0) :: rest /\ length l0 <> O /\
    (forall g, In g fam -> labels_ok (length l0) (snd g) = true) /\
    r = fold_left (combine_step (snd (last (sort_desc fam) (0%Z, [])))) (sort_desc fam)
          (snd (last (sort_desc fam) (0%Z, []))).
Proof.
  unfold llp_combine_labels. destruct fam as [|[c0 l0] rest]; [discriminate|].
  destruct (length l0 =? 0)%nat eqn:E0; [discriminate|].
  match goal with |- context [forallb ?f ?l] => destruct (forallb f l) eqn:Eok end.
  2: { cbv [negb]. discriminate. }
  cbv [negb]. intros [= <-]. exists c0, l0, rest. split; [reflexivity|].
  split; [apply Nat.eqb_neq; exact E0|]. split; [|reflexivity].
  rewrite forallb_forall in Eok. exact Eok.
Qed.

Lemma labels_ok_length n l : labels_ok n l = true -> length l = n.
Proof. unfold labels_ok. rewrite andb_true_iff, Nat.eqb_eq. tauto. Qed.

Theorem combine_labels_refinement : S_combine_labels_refinement.
Proof.
  intros fam r Hr.
  destruct (llp_combine_labels_inv fam r Hr) as (c0 & l0 & rest & Hfam & Hn & Hok & Hreq).
  set (n := length l0) in *.
  set (sorted := sort_desc fam) in *.
  set (best := snd (last sorted (0%Z, []))) in *.
  assert (Hperm : Permutation sorted fam) by apply sort_desc_perm.
  assert (Hsne : sorted <> []).
  { intros E. rewrite E in Hperm. apply Permutation_nil in Hperm. subst fam. discriminate. }
  assert (Hlen : forall g, In g sorted -> length (snd g) = n).
  { intros g Hg. apply labels_ok_length, Hok. eapply Permutation_in; eassumption. }
  assert (Hbest_in : In (last sorted (0%Z, [])) sorted).
  { destruct (exists_last Hsne) as (s' & g & E). rewrite E, last_last.
    apply in_or_app. right. now left. }
  assert (Hbest : length best = n) by (apply Hlen; exact Hbest_in).
  destruct (fold_combine_spec best n sorted best Hbest Hbest Hlen (fun _ _ _ _ H => H)) as [Hl Hs].
  rewrite <- Hreq in Hl, Hs.
  assert (Hnl : nlen r = N.of_nat n) by (unfold nlen; now rewrite Hl).
  split.
  { intros g Hg. rewrite Hl. apply labels_ok_length, Hok, Hg. }
  split.
  { intros a b Ha Hb. rewrite Hnl in Ha, Hb. fold (same_class r a b).
    rewrite (Hs a b Ha Hb). split.
    - intros [_ H] g Hg. apply H. eapply Permutation_in; [symmetry; exact Hperm|exact Hg].
    - intros H. split.
      + apply (H (last sorted (0%Z, []))). eapply Permutation_in; eassumption.
      + intros g Hg. apply H. eapply Permutation_in; eassumption. }
  (* dense: the last step is a [combine] *)
  destruct (exists_last Hsne) as (s' & g & E).
  rewrite E, fold_left_app in Hreq. cbn [fold_left] in Hreq.
  unfold combine_step at 1 in Hreq.
  set (x := fst (llp_combine (fold_left (combine_step best) s' best) (snd g))) in Hreq.
  assert (Hx : length x = n).
  { unfold x. rewrite llp_combine_length.
    destruct (fold_combine_spec best n s' best Hbest Hbest) as [Hl' _]; [|auto|exact Hl'].
    intros g' Hg'. apply Hlen. rewrite E. apply in_or_app. now left. }
  exists (snd (llp_combine x best)). rewrite Hreq. apply combine_dense; [congruence|].
  intros ->. cbn in Hx. congruence.
Qed.

Theorem combine_labels_total : S_combine_labels_total.
Proof.
  intros fam n Hne Hn H. unfold llp_combine_labels.
  destruct fam as [|[c0 l0] rest]; [congruence|].
  assert (Hl0 : length l0 = n) by (apply (H (c0, l0)); now left).
  rewrite Hl0. destruct (n =? 0)%nat eqn:E; [apply Nat.eqb_eq in E; congruence|].
  match goal with |- context [forallb ?f ?l] => assert (forallb f l = true) as -> end.
  { apply forallb_forall. intros g Hg. destruct (H g Hg) as [Hlen Hall].
    unfold labels_ok. rewrite Hlen, Nat.eqb_refl. cbn [andb].
    apply orb_true_iff. right. apply forallb_forall. intros v Hv.
    rewrite Forall_forall in Hall. apply N.ltb_lt. apply Hall. exact Hv. }
  cbn [negb]. eexists. reflexivity.
Qed.

(** * [invert_permutation] *)
Lemma is_perm_nodup p : is_perm p -> NoDup p.
Proof. intros H. eapply Permutation_NoDup; [symmetry; exact H|apply NoDup_ids]. Qed.

Lemma is_perm_lt p x : is_perm p -> In x p -> x < nlen p.
Proof. intros H Hx. apply In_ids. eapply Permutation_in; [exact H|exact Hx]. Qed.

Lemma is_perm_in p x : is_perm p -> x < nlen p -> In x p.
Proof. intros H Hx. eapply Permutation_in; [symmetry; exact H|]. apply In_ids. exact Hx. Qed.

Lemma invert_sched_write sched p init :
  invert_sched sched p init = write_all (map (fun i => (get p i, i)) sched) init.
Proof.
  unfold invert_sched, write_all. revert init.
  induction sched as [|i sched IH]; intros init; cbn [fold_left map]; [reflexivity|].
  rewrite IH. reflexivity.
Qed.

Lemma invert_sched_spec p sched init :
  is_perm p -> Permutation sched (ids (length p)) -> length init = length p ->
  let q := invert_sched sched p init in
  length q = length p /\
  (forall i, i < nlen p -> get q (get p i) = i /\ get p (get q i) = i).
Proof.
  intros Hp Hs Hinit q. subst q. rewrite invert_sched_write.
  set (zs := map (fun i => (get p i, i)) sched).
  assert (Hfst : map fst zs = map (get p) sched).
  { unfold zs. rewrite map_map. reflexivity. }
  assert (Hnd : NoDup (map fst zs)).
  { rewrite Hfst. eapply Permutation_NoDup.
    - symmetry. eapply Permutation_map. exact Hs.
    - rewrite map_get_ids. apply is_perm_nodup, Hp. }
  assert (Hlen : length (write_all zs init) = length p) by (rewrite write_all_length; exact Hinit).
  assert (H1 : forall i, i < nlen p -> get (write_all zs init) (get p i) = i).
  { intros i Hi. apply get_write_all_in; [exact Hnd| |].
    - unfold zs. apply in_map_iff. exists i. split; [reflexivity|].
      eapply Permutation_in; [symmetry; exact Hs|]. apply In_ids. exact Hi.
    - unfold nlen. rewrite Hinit. apply is_perm_lt; [exact Hp|]. apply get_in. exact Hi. }
  split; [exact Hlen|]. intros i Hi. split; [apply H1; exact Hi|].
  destruct (in_get p i (is_perm_in p i Hp Hi)) as [j [Hj Hji]].
  rewrite <- Hji at 1. rewrite H1 by exact Hj. exact Hji.
Qed.

Lemma inverse_is_perm p q :
  length q = length p -> (forall i, i < nlen p -> get q (get p i) = i) -> is_perm p -> is_perm q.
Proof.
  intros Hl H Hp. unfold is_perm. rewrite Hl.
  assert (map (get q) p = ids (length p)) as E.
  { rewrite <- (map_get_ids p) at 1. rewrite map_map.
    rewrite <- (map_id (ids (length p))) at 2. apply map_ext_in.
    intros i Hi. apply H. apply In_ids in Hi. exact Hi. }
  rewrite <- E. rewrite <- (map_get_ids q) at 1. rewrite Hl.
  apply Permutation_map. symmetry. exact Hp.
Qed.

Lemma ids_self_perm n : Permutation (ids n) (ids n).
Proof. reflexivity. Qed.

Theorem invert_perm : S_invert_perm.
Proof.
  intros p sched init Hp Hs Hinit q.
  destruct (invert_sched_spec p sched init Hp Hs Hinit) as [Hl Hq]. fold q in Hl, Hq.
  assert (Hrep : length (repeat 0 (length p)) = length p) by apply repeat_length.
  destruct (invert_sched_spec p (ids (length p)) (repeat 0 (length p)) Hp (ids_self_perm _) Hrep)
    as [Hl0 Hq0].
  fold (invert_permutation p) in Hl0, Hq0.
  assert (Hqperm : is_perm q).
  { apply (inverse_is_perm p q Hl); [|exact Hp]. intros i Hi. apply Hq. exact Hi. }
  assert (Heq : q = invert_permutation p).
  { apply list_ext_get; [congruence|]. intros j Hj. unfold nlen in Hj. rewrite Hl in Hj.
    destruct (in_get p j (is_perm_in p j Hp Hj)) as [i [Hi Hij]]. rewrite <- Hij.
    destruct (Hq i Hi) as [-> _]. destruct (Hq0 i Hi) as [-> _]. reflexivity. }
  split; [exact Heq|]. split; [exact Hqperm|]. split; [exact Hl|]. split; [exact Hq|].
  (* the inverse of the inverse *)
  assert (Hrepq : length (repeat 0 (length q)) = length q) by apply repeat_length.
  destruct (invert_sched_spec q (ids (length q)) (repeat 0 (length q)) Hqperm (ids_self_perm _) Hrepq)
    as [Hlq Hqq].
  fold (invert_permutation q) in Hlq, Hqq.
  apply list_ext_get; [congruence|]. intros m Hm. unfold nlen in Hm. rewrite Hlq in Hm.
  destruct (in_get q m (is_perm_in q m Hqperm Hm)) as [j [Hj Hjm]]. rewrite <- Hjm.
  destruct (Hqq j Hj) as [-> _].
  unfold nlen in Hj. rewrite Hl in Hj. destruct (Hq j Hj) as [_ ->]. reflexivity.
Qed.

(** * [labels_to_ranks] *)
Lemma rkey_id labels a : key_id (rkey labels a) = a.
Proof. reflexivity. Qed.

Lemma rank_perm_is_perm labels :
  is_perm (sort_ids (rkey labels) (ids (length labels))) /\
  length (sort_ids (rkey labels) (ids (length labels))) = length labels.
Proof.
  pose proof (sort_ids_perm (rkey labels) (rkey_id labels) (ids (length labels))) as H.
  assert (Hl : length (sort_ids (rkey labels) (ids (length labels))) = length labels).
  { rewrite (Permutation_length H). apply ids_length. }
  split; [|exact Hl]. unfold is_perm. rewrite Hl. exact H.
Qed.

Theorem ranks_perm : S_ranks_perm.
Proof.
  intros labels. destruct (rank_perm_is_perm labels) as [Hp Hl].
  set (perm := sort_ids (rkey labels) (ids (length labels))) in *.
  assert (Hrep : length (repeat 0 (length perm)) = length perm) by apply repeat_length.
  destruct (invert_perm perm (ids (length perm)) (repeat 0 (length perm)) Hp (ids_self_perm _) Hrep)
    as (_ & Hq & Hlq & _).
  unfold labels_to_ranks. fold perm. unfold invert_permutation. split; [exact Hq|congruence].
Qed.

Theorem ranks_monotone : S_ranks_monotone.
Proof.
  intros labels a b Ha Hb rk.
  destruct (rank_perm_is_perm labels) as [Hp Hl].
  pose proof (sort_ids_sorted (rkey labels) (rkey_id labels) (ids (length labels))) as Hsorted.
  set (perm := sort_ids (rkey labels) (ids (length labels))) in *.
  assert (Hrep : length (repeat 0 (length perm)) = length perm) by apply repeat_length.
  destruct (invert_perm perm (ids (length perm)) (repeat 0 (length perm)) Hp (ids_self_perm _) Hrep)
    as (_ & Hq & Hlq & Hinv & _).
  change (invert_sched (ids (length perm)) perm (repeat 0 (length perm))) with rk in *.
  assert (Hnl : nlen perm = nlen labels) by (unfold nlen; now rewrite Hl).
  assert (Hlt : forall x, x < nlen labels -> get rk x < nlen labels /\ get perm (get rk x) = x).
  { intros x Hx. rewrite <- Hnl in Hx. destruct (Hinv x Hx) as [_ H2]. split; [|exact H2].
    assert (In (get rk x) rk) as Hin by (apply get_in; unfold nlen in *; rewrite Hlq; exact Hx).
    apply (is_perm_lt rk _ Hq) in Hin. unfold nlen in *. rewrite Hlq, Hl in Hin. exact Hin. }
  destruct (Hlt a Ha) as [Hra Hpa]. destruct (Hlt b Hb) as [Hrb Hpb].
  (* a strict key inequality forces the positions *)
  assert (Hstrict : key_le (rkey labels a) (rkey labels b) -> a <> b -> get rk a < get rk b).
  { intros Hle Hne.
    destruct (N.lt_trichotomy (get rk a) (get rk b)) as [H|[H|H]]; [exact H| |].
    - exfalso. apply Hne. rewrite <- Hpa, <- Hpb, H. reflexivity.
    - exfalso. apply Hne.
      pose proof (strongly_sorted_nth key_le (map (rkey labels) perm) (rkey labels 0)
                    (N.to_nat (get rk b)) (N.to_nat (get rk a)) Hsorted) as Hs.
      rewrite map_length, Hl in Hs. unfold nlen in *.
      specialize (Hs ltac:(lia) ltac:(lia)).
      rewrite !map_nth in Hs. fold (get perm (get rk b)) in Hs. fold (get perm (get rk a)) in Hs.
      rewrite Hpa, Hpb in Hs.
      pose proof (key_le_antisym _ _ Hle Hs) as E. unfold rkey in E. congruence. }
  split.
  - intros Hlab. apply Hstrict; [unfold key_le, rkey; lia|]. intros ->. lia.
  - intros Hlab Hab. apply Hstrict; [unfold key_le, rkey; lia|lia].
Qed.

(** * Permuting a graph *)
Lemma in_combine_nseq (g : graph) : forall k u s,
  In (u, s) (List.combine (nseq k (length g)) g) <->
  k <= u /\ u < k + nlen g /\ nth (N.to_nat (u - k)) g [] = s.
Proof.
  induction g as [|s0 g IH]; intros k u s; cbn [length nseq List.combine].
  - unfold nlen. cbn. split; [tauto|lia].
  - cbn [In]. rewrite IH. unfold nlen. cbn [length]. split.
    + intros [[= <- <-]|(H1 & H2 & H3)].
      * split; [lia|]. split; [lia|]. replace (k - k) with 0 by lia. reflexivity.
      * split; [lia|]. split; [lia|].
        replace (N.to_nat (u - k)) with (S (N.to_nat (u - (k + 1)))) by lia. exact H3.
    + intros (H1 & H2 & H3). destruct (N.eq_dec u k) as [->|Hne].
      * left. replace (k - k) with 0 in H3 by lia. cbn in H3. now subst.
      * right. split; [lia|]. split; [lia|].
        replace (N.to_nat (u - k)) with (S (N.to_nat (u - (k + 1)))) in H3 by lia. exact H3.
Qed.

Lemma in_arcs_of g u v : In (u, v) (arcs_of g) <-> u < nlen g /\ has_arc g u v.
Proof.
  unfold arcs_of, has_arc. rewrite in_flat_map. split.
  - intros [[u' s] [Hin Hmap]]. cbn [fst snd] in Hmap. apply in_map_iff in Hmap.
    destruct Hmap as [v' [[= <- <-] Hv]].
    apply (in_combine_nseq g 0) in Hin. destruct Hin as (_ & H2 & H3).
    rewrite N.sub_0_r in H3. subst s. split; [lia|exact Hv].
  - intros [Hu Hv]. exists (u, nth (N.to_nat u) g []). split.
    + apply (in_combine_nseq g 0). rewrite N.sub_0_r. split; [lia|]. split; [lia|reflexivity].
    + cbn [fst snd]. apply in_map. exact Hv.
Qed.

Lemma has_arc_graph_of_arcs n A x y :
  has_arc (graph_of_arcs n A) x y <-> x < N.of_nat n /\ In (x, y) A.
Proof.
  unfold has_arc, graph_of_arcs.
  destruct (N.lt_ge_cases x (N.of_nat n)) as [Hx|Hx].
  - set (f := fun x0 => nsort (map snd (filter (fun p => fst p =? x0) A))).
    rewrite nth_indep with (d' := f 0) by (rewrite map_length, ids_length; lia).
    rewrite map_nth. fold (get (ids n) x). rewrite get_ids by exact Hx. unfold f.
    assert (Hperm : forall l, Permutation (nsort l) l) by (intros l; symmetry; apply NSort.Permuted_sort).
    split.
    + intros H. apply (Permutation_in _ (Hperm _)) in H. apply in_map_iff in H.
      destruct H as [[x' y'] [<- H]]. apply filter_In in H. destruct H as [H1 H2].
      cbn [fst snd] in *. apply N.eqb_eq in H2. subst. auto.
    + intros [_ H]. apply (Permutation_in _ (Permutation_sym (Hperm _))).
      apply in_map_iff. exists (x, y). split; [reflexivity|]. apply filter_In.
      split; [exact H|]. cbn [fst]. apply N.eqb_refl.
  - rewrite nth_overflow by (rewrite map_length, ids_length; lia). cbn [In]. split; [tauto|lia].
Qed.

Lemma graph_ok_arc g u v : graph_ok g -> u < nlen g -> has_arc g u v -> v < nlen g.
Proof.
  unfold graph_ok, has_arc. intros Hg Hu Hv. rewrite Forall_forall in Hg.
  assert (In (nth (N.to_nat u) g []) g) as Hin by (apply nth_In; unfold nlen in Hu; lia).
  specialize (Hg _ Hin). rewrite Forall_forall in Hg. apply Hg. exact Hv.
Qed.

Lemma perm_get_inj p u v :
  is_perm p -> u < nlen p -> v < nlen p -> get p u = get p v -> u = v.
Proof.
  intros Hp Hu Hv H. unfold get in H. unfold nlen in *.
  assert (N.to_nat u = N.to_nat v); [|lia].
  apply (proj1 (NoDup_nth p 0) (is_perm_nodup p Hp)); [lia|lia|exact H].
Qed.

Lemma has_arc_permute pi g x y :
  has_arc (permute_graph pi g) x y <->
  x < nlen g /\ exists u v, u < nlen g /\ has_arc g u v /\ x = get pi u /\ y = get pi v.
Proof.
  unfold permute_graph. rewrite has_arc_graph_of_arcs. unfold permute_arcs. rewrite in_map_iff.
  split.
  - intros [Hx [[u v] [[= <- <-] Hin]]]. apply in_arcs_of in Hin. cbn [fst snd] in *.
    split; [exact Hx|]. exists u, v. tauto.
  - intros [Hx (u & v & Hu & Huv & -> & ->)]. split; [exact Hx|].
    exists (u, v). split; [reflexivity|]. apply in_arcs_of. tauto.
Qed.

Theorem permuted_isomorphic : S_permuted_isomorphic.
Proof.
  intros pi g Hpi Hlen Hg h.
  assert (Hnl : nlen pi = nlen g) by (unfold nlen; now rewrite Hlen).
  split; [unfold h, permute_graph, graph_of_arcs; now rewrite map_length, ids_length|].
  split.
  - intros u v Hu Hv. unfold h. rewrite has_arc_permute. split.
    + intros [_ (u' & v' & Hu' & Huv' & E1 & E2)].
      assert (Hv' : v' < nlen g) by (eapply graph_ok_arc; eassumption).
      apply perm_get_inj in E1; [|exact Hpi|lia|lia].
      apply perm_get_inj in E2; [|exact Hpi|lia|lia]. subst. exact Huv'.
    + intros Huv. split.
      * rewrite <- Hnl. apply is_perm_lt; [exact Hpi|]. apply get_in. lia.
      * exists u, v. tauto.
  - intros x y Hxy. unfold h in Hxy. apply has_arc_permute in Hxy.
    destruct Hxy as [_ (u & v & Hu & Huv & -> & ->)]. exists u, v.
    split; [exact Hu|]. split; [eapply graph_ok_arc; eassumption|]. tauto.
Qed.

Theorem llp_order_isomorphic : S_llp_order_isomorphic.
Proof.
  intros labels g Hlen Hg pi h.
  destruct (ranks_perm labels) as [Hp Hl]. fold pi in Hp, Hl.
  destruct (permuted_isomorphic pi g Hp ltac:(congruence) Hg) as (H1 & H2 & _).
  split; [exact Hp|]. split; [exact H1|exact H2].
Qed.

(** * The update rule *)
Definition lp_good (n : nat) (st : lp_state) : Prop :=
  length (lp_labels st) = n /\ Forall (fun l => l < N.of_nat n) (lp_labels st) /\
  length (lp_volumes st) = n /\
  forall l, l < N.of_nat n -> get (lp_volumes st) l = ncount l (lp_labels st).

Lemma ncount_nseq l a n :
  ncount l (nseq a n) = if (a <=? l) && (l <? a + N.of_nat n) then 1 else 0.
Proof.
  revert a; induction n; intros a; cbn [nseq ncount].
  - destruct (N.leb_spec a l), (N.ltb_spec l (a + N.of_nat 0)); cbn; lia.
  - rewrite IHn.
    destruct (N.eqb_spec a l), (N.leb_spec a l), (N.leb_spec (a + 1) l),
      (N.ltb_spec l (a + 1 + N.of_nat n)), (N.ltb_spec l (a + N.of_nat (S n))); cbn; lia.
Qed.

Lemma get_repeat v n a : a < N.of_nat n -> get (repeat v n) a = v.
Proof.
  intros H. unfold get. rewrite nth_indep with (d' := v) by (rewrite repeat_length; lia).
  apply nth_repeat.
Qed.

Lemma lp_init_good n : lp_good n (lp_init n).
Proof.
  unfold lp_good, lp_init. cbn [lp_labels lp_volumes].
  split; [apply ids_length|]. split.
  { apply Forall_forall. intros l Hl. apply In_ids. exact Hl. }
  split; [apply repeat_length|].
  intros l Hl. rewrite get_repeat by exact Hl. unfold ids. rewrite ncount_nseq.
  destruct (N.leb_spec 0 l), (N.ltb_spec l (0 + N.of_nat n)); cbn; lia.
Qed.

Lemma ncount_set_nth l lab : forall i new,
  (i < length lab)%nat ->
  ncount l (set_nth lab i new) + (if nth i lab 0 =? l then 1 else 0) =
  ncount l lab + (if new =? l then 1 else 0).
Proof.
  induction lab as [|x lab IH]; intros i new Hi; cbn [length] in Hi; [lia|].
  destruct i; cbn [set_nth nth ncount].
  - lia.
  - specialize (IH i new ltac:(lia)). lia.
Qed.

Lemma lp_update_good n st node new :
  lp_good n st -> node < N.of_nat n -> new < N.of_nat n -> new <> get (lp_labels st) node ->
  lp_good n (lp_update st node new).
Proof.
  intros (Hl & Hall & Hvl & Hv) Hnode Hnew Hne. unfold lp_good, lp_update. cbn [lp_labels lp_volumes].
  set (old := get (lp_labels st) node) in *.
  assert (Hold : old < N.of_nat n).
  { rewrite Forall_forall in Hall. apply Hall. apply get_in. unfold nlen. rewrite Hl. exact Hnode. }
  split; [rewrite set_length; exact Hl|]. split.
  { unfold set. apply Forall_set_nth; assumption. }
  split; [rewrite !set_length; exact Hvl|].
  intros l Hlt.
  pose proof (ncount_set_nth l (lp_labels st) (N.to_nat node) new ltac:(lia)) as Hc.
  fold (set (lp_labels st) node new) in Hc. fold (get (lp_labels st) node) in Hc. fold old in Hc.
  pose proof (ncount_set_nth old (lp_labels st) (N.to_nat node) new ltac:(lia)) as Hco.
  fold (set (lp_labels st) node new) in Hco. fold (get (lp_labels st) node) in Hco. fold old in Hco.
  rewrite N.eqb_refl in Hco.
  set (v1 := set (lp_volumes st) old (get (lp_volumes st) old - 1)).
  assert (Hv1len : nlen v1 = N.of_nat n) by (unfold nlen, v1; rewrite set_length; now rewrite Hvl).
  assert (Hvlen : nlen (lp_volumes st) = N.of_nat n) by (unfold nlen; now rewrite Hvl).
  destruct (N.eq_dec l new) as [->|Hln].
  - rewrite get_set_same by lia. unfold v1. rewrite get_set_other by exact (not_eq_sym Hne).
    rewrite Hv by exact Hnew. rewrite N.eqb_refl in Hc.
    destruct (N.eqb_spec old new); [congruence|]. lia.
  - rewrite get_set_other by (intros E; apply Hln; now symmetry).
    destruct (N.eqb_spec new l); [congruence|].
    destruct (N.eq_dec l old) as [->|Hlo].
    + unfold v1. rewrite get_set_same by lia. rewrite Hv by exact Hold.
      rewrite N.eqb_refl in Hc. lia.
    + unfold v1. rewrite get_set_other by (intros E; apply Hlo; now symmetry).
      rewrite Hv by exact Hlt. destruct (N.eqb_spec old l); [congruence|]. lia.
Qed.

Lemma lp_step_good g hist e :
  hist <> [] -> Forall (lp_good (length g)) hist ->
  lp_step g hist e <> [] /\ Forall (lp_good (length g)) (lp_step g hist e).
Proof.
  intros Hne Hall. destruct e as [[node src] age]. unfold lp_step.
  destruct hist as [|cur hist']; [congruence|].
  destruct (lp_legal g node src) eqn:Eleg; [|split; [discriminate|exact Hall]].
  set (seen := nth age (cur :: hist') cur).
  destruct (get (lp_labels seen) src =? get (lp_labels cur) node) eqn:Esame;
    [split; [discriminate|exact Hall]|].
  split; [discriminate|]. constructor; [|exact Hall].
  unfold lp_legal in Eleg. apply andb_true_iff in Eleg. destruct Eleg as [Hnode _].
  apply N.ltb_lt in Hnode. unfold nlen in Hnode.
  assert (Hcur : lp_good (length g) cur) by (inversion Hall; assumption).
  assert (Hseen : lp_good (length g) seen).
  { rewrite Forall_forall in Hall. apply Hall. unfold seen.
    destruct (nth_in_or_default age (cur :: hist') cur) as [H|H]; [exact H|rewrite H; now left]. }
  apply lp_update_good; [exact Hcur|exact Hnode| |].
  - destruct Hseen as (_ & Hall' & _). destruct (get_or_default (lp_labels seen) src) as [H|H].
    + rewrite H. lia.
    + rewrite Forall_forall in Hall'. apply Hall'. exact H.
  - apply N.eqb_neq. exact Esame.
Qed.

Lemma lp_run_good g sched :
  lp_run g sched <> [] /\ Forall (lp_good (length g)) (lp_run g sched).
Proof.
  unfold lp_run.
  assert (H0 : [lp_init (length g)] <> [] /\ Forall (lp_good (length g)) [lp_init (length g)]).
  { split; [discriminate|]. constructor; [apply lp_init_good|constructor]. }
  revert H0. generalize [lp_init (length g)] as hist.
  induction sched as [|e sched IH]; intros hist [Hne Hall]; cbn [fold_left]; [auto|].
  apply IH. apply lp_step_good; assumption.
Qed.

Theorem labels_are_nodes : S_labels_are_nodes.
Proof.
  intros g sched st Hin. destruct (lp_run_good g sched) as [_ Hall].
  rewrite Forall_forall in Hall. destruct (Hall st Hin) as (H1 & H2 & _). split; assumption.
Qed.

Theorem volumes_count : S_volumes_count.
Proof.
  intros g sched st l Hin Hl. destruct (lp_run_good g sched) as [_ Hall].
  rewrite Forall_forall in Hall. destruct (Hall st Hin) as (_ & _ & _ & H). apply H. exact Hl.
Qed.

(** * The checkers *)
Theorem check_lt_spec : S_check_lt.
Proof.
  intros n l. unfold check_lt. rewrite forallb_forall, Forall_forall.
  split; intros H v Hv; specialize (H v Hv); apply N.ltb_lt; exact H.
Qed.

Lemma existsb_eqb_in x l : existsb (N.eqb x) l = true <-> In x l.
Proof.
  rewrite existsb_exists. split.
  - intros [y [Hy E]]. apply N.eqb_eq in E. now subst.
  - intros H. exists x. split; [exact H|apply N.eqb_refl].
Qed.

Theorem check_perm_spec : S_check_perm.
Proof.
  intros p. unfold check_perm, is_perm. rewrite forallb_forall. split.
  - intros H. symmetry. apply NoDup_Permutation_bis; [apply NoDup_ids|rewrite ids_length; lia|].
    intros i Hi. apply existsb_eqb_in. apply H. exact Hi.
  - intros H i Hi. apply existsb_eqb_in. eapply Permutation_in; [symmetry; exact H|exact Hi].
Qed.

Definition lmax (l : list N) : N := fold_right N.max 0 l.

Lemma lmax_ge l v : In v l -> v <= lmax l.
Proof.
  induction l as [|x l IH]; [intros []|]. cbn [lmax fold_right]. fold (lmax l).
  intros [->|H]; [lia|]. specialize (IH H). lia.
Qed.

Lemma lmax_in l : l <> [] -> In (lmax l) l.
Proof.
  induction l as [|x l IH]; [congruence|]. intros _. cbn [lmax fold_right]. fold (lmax l).
  destruct l as [|y l'].
  - cbn. left. lia.
  - destruct (N.max_spec x (lmax (y :: l'))) as [[_ ->]|[_ ->]].
    + right. apply IH. discriminate.
    + now left.
Qed.

Lemma check_dense_closed r :
  check_dense r = true <-> (forall v, In v r -> v = 0 \/ In (v - 1) r).
Proof.
  unfold check_dense. rewrite forallb_forall. split; intros H v Hv; specialize (H v Hv).
  - apply orb_true_iff in H. destruct H as [H|H]; [left; now apply N.eqb_eq|right; now apply existsb_eqb_in].
  - apply orb_true_iff. destruct H as [H|H]; [left; now apply N.eqb_eq|right; now apply existsb_eqb_in].
Qed.

Lemma closed_downward r :
  (forall v, In v r -> v = 0 \/ In (v - 1) r) -> forall v, In v r -> forall u, u <= v -> In u r.
Proof.
  intros H v. induction v as [|v IH] using N.peano_ind; intros Hv u Hu.
  - assert (u = 0) as -> by lia. exact Hv.
  - destruct (N.eq_dec u (N.succ v)) as [->|Hne]; [exact Hv|].
    destruct (H _ Hv) as [H0|H1]; [lia|].
    replace (N.succ v - 1) with v in H1 by lia. apply IH; [exact H1|lia].
Qed.

Theorem check_dense_spec : S_check_dense.
Proof.
  intros r. rewrite check_dense_closed. split.
  - intros H. destruct (list_eq_dec N.eq_dec r []) as [->|Hne].
    + exists 0. intros v. cbn. split; [lia|tauto].
    + exists (lmax r + 1). intros v. split.
      * intros Hv. apply (closed_downward r H (lmax r)); [apply lmax_in; exact Hne|lia].
      * intros Hv. apply lmax_ge in Hv. lia.
  - intros [k Hk] v Hv. destruct (N.eq_dec v 0) as [->|Hne]; [now left|right].
    apply Hk. apply Hk in Hv. lia.
Qed.

Lemma list_eqb_maps (fam : list (list N)) a b :
  list_eqb (map (fun l => get l a) fam) (map (fun l => get l b) fam) = true <->
  forall l, In l fam -> get l a = get l b.
Proof.
  induction fam as [|l fam IH]; cbn [map list_eqb].
  - split; [intros _ l []|reflexivity].
  - rewrite andb_true_iff, N.eqb_eq, IH. split.
    + intros [H1 H2] l' [<-|Hl']; auto.
    + intros H. split; [apply H; now left|intros l' Hl'; apply H; now right].
Qed.

Lemma bool_eqb_iff b1 b2 : Bool.eqb b1 b2 = true <-> (b1 = true <-> b2 = true).
Proof. destruct b1, b2; cbn; intuition congruence. Qed.

Theorem check_refinement_spec : S_check_refinement.
Proof.
  intros r fam. unfold check_refinement, rows. rewrite forallb_forall. split.
  - intros H a b Ha Hb.
    set (f := fun a0 => (get r a0, map (fun l => get l a0) fam)) in *.
    assert (Hfa : In (f a) (map f (ids (length r)))) by (apply in_map, In_ids; exact Ha).
    assert (Hfb : In (f b) (map f (ids (length r)))) by (apply in_map, In_ids; exact Hb).
    specialize (H (f a) Hfa). rewrite forallb_forall in H. specialize (H (f b) Hfb).
    unfold f in H. cbn [fst snd] in H. apply bool_eqb_iff in H.
    rewrite N.eqb_eq, list_eqb_maps in H. exact H.
  - intros H x Hx. rewrite forallb_forall. intros y Hy.
    apply in_map_iff in Hx. destruct Hx as [a [<- Ha]].
    apply in_map_iff in Hy. destruct Hy as [b [<- Hb]].
    cbn [fst snd]. apply bool_eqb_iff. rewrite N.eqb_eq, list_eqb_maps.
    apply H; apply In_ids; assumption.
Qed.

Theorem check_monotone_spec : S_check_monotone.
Proof.
  intros labels ranks. unfold check_monotone. rewrite forallb_forall. split.
  - intros H a b Ha Hb. specialize (H a ltac:(apply In_ids; exact Ha)).
    rewrite forallb_forall in H. specialize (H b ltac:(apply In_ids; exact Hb)).
    cbv zeta in H. split.
    + intros Hlt. assert (get labels a <? get labels b = true) as E by now apply N.ltb_lt.
      rewrite E in H. cbn [orb] in H. now apply N.ltb_lt.
    + intros Heq Hab. assert (get labels a =? get labels b = true) as E1 by now apply N.eqb_eq.
      assert (a <? b = true) as E2 by now apply N.ltb_lt.
      rewrite E1, E2, orb_true_r in H. now apply N.ltb_lt.
  - intros H a Ha. rewrite forallb_forall. intros b Hb. apply In_ids in Ha, Hb.
    destruct (H a b Ha Hb) as [H1 H2]. cbv zeta.
    destruct ((get labels a <? get labels b) || ((get labels a =? get labels b) && (a <? b))) eqn:E;
      [|reflexivity].
    apply N.ltb_lt. apply orb_true_iff in E. destruct E as [E|E].
    + apply H1. now apply N.ltb_lt.
    + apply andb_true_iff in E. destruct E as [E1 E2]. apply H2; [now apply N.eqb_eq|now apply N.ltb_lt].
Qed.

Theorem check_inverse_spec : S_check_inverse.
Proof.
  intros p q. unfold check_inverse. rewrite andb_true_iff, Nat.eqb_eq, forallb_forall.
  split; intros [Hl H]; (split; [exact Hl|]).
  - intros i Hi. apply N.eqb_eq. apply H. apply In_ids. exact Hi.
  - intros i Hi. apply N.eqb_eq. apply H. apply In_ids in Hi. exact Hi.
Qed.

Lemma has_arcb_spec g u v : has_arcb g u v = true <-> has_arc g u v.
Proof. unfold has_arcb, has_arc. apply existsb_eqb_in. Qed.

Theorem check_iso_spec : S_check_iso.
Proof.
  intros pi g h Hpi Hlen Hg Hc. unfold check_iso in Hc.
  apply andb_true_iff in Hc. destruct Hc as [Hc H3]. apply andb_true_iff in Hc. destruct Hc as [H1 H2].
  apply Nat.eqb_eq in H1. rewrite forallb_forall in H2, H3.
  split; [congruence|]. intros u v Hu Hv.
  assert (Hnl : nlen pi = nlen g) by (unfold nlen; now rewrite Hlen).
  assert (Hrep : length (repeat 0 (length pi)) = length pi) by apply repeat_length.
  destruct (invert_perm pi (ids (length pi)) (repeat 0 (length pi)) Hpi (ids_self_perm _) Hrep)
    as (_ & _ & _ & Hinv & _).
  fold (invert_permutation pi) in Hinv.
  split.
  - intros Harc.
    assert (Hin : In (get pi u, get pi v) (arcs_of h)).
    { apply in_arcs_of. split; [|exact Harc]. unfold nlen. rewrite <- H1. fold (nlen g).
      rewrite <- Hnl. apply is_perm_lt; [exact Hpi|]. apply get_in. lia. }
    specialize (H3 _ Hin). cbn [fst snd] in H3. apply has_arcb_spec in H3.
    destruct (Hinv u ltac:(lia)) as [E1 _]. destruct (Hinv v ltac:(lia)) as [E2 _].
    rewrite E1, E2 in H3. exact H3.
  - intros Harc. assert (Hin : In (u, v) (arcs_of g)) by (apply in_arcs_of; tauto).
    specialize (H2 _ Hin). cbn [fst snd] in H2. apply has_arcb_spec in H2. exact H2.
Qed.

(** * Uniqueness of the sorted sequence *)
Lemma sorted_perm_unique {A} (R : A -> A -> Prop) :
  (forall x y, R x y -> R y x -> x = y) ->
  forall l1 l2, StronglySorted R l1 -> StronglySorted R l2 -> Permutation l1 l2 -> l1 = l2.
Proof.
  intros Hanti. induction l1 as [|x l1 IH]; intros l2 H1 H2 Hp.
  - apply Permutation_nil in Hp. now subst.
  - destruct l2 as [|y l2]; [symmetry in Hp; apply Permutation_nil in Hp; discriminate|].
    inversion H1 as [|? ? H1' Hall1]; subst. inversion H2 as [|? ? H2' Hall2]; subst.
    rewrite Forall_forall in Hall1, Hall2.
    assert (x = y) as ->.
    { assert (In x (y :: l2)) as Hx by (eapply Permutation_in; [exact Hp|now left]).
      assert (In y (x :: l1)) as Hy by (eapply Permutation_in; [symmetry; exact Hp|now left]).
      destruct Hx as [->|Hx]; [reflexivity|]. destruct Hy as [->|Hy]; [reflexivity|].
      apply Hanti; [apply Hall1; exact Hy|apply Hall2; exact Hx]. }
    f_equal. apply IH; [exact H1'|exact H2'|]. eapply Permutation_cons_inv. exact Hp.
Qed.

Lemma strongly_sorted_of_nth {A} (R : A -> A -> Prop) d l :
  (forall i j, (i < j < length l)%nat -> R (nth i l d) (nth j l d)) -> StronglySorted R l.
Proof.
  induction l as [|x l IH]; intros H; constructor.
  - apply IH. intros i j Hij. apply (H (S i) (S j)). cbn [length]. lia.
  - apply Forall_forall. intros y Hy. destruct (In_nth l y d Hy) as [j [Hj <-]].
    apply (H O (S j)). cbn [length]. lia.
Qed.

Theorem sort_unique : S_sort_unique.
Proof.
  intros kf l p Hid Hperm Hsorted.
  assert (Hinj : forall a b, kf a = kf b -> a = b).
  { intros a b E. rewrite <- (Hid a), <- (Hid b), E. reflexivity. }
  assert (Hkeys : map kf p = map kf (sort_ids kf l)).
  { apply (sorted_perm_unique key_le key_le_antisym).
    - apply (strongly_sorted_of_nth key_le (kf 0)). rewrite map_length. intros i j Hij.
      rewrite !map_nth. apply key_leb_spec. apply Hsorted. exact Hij.
    - apply sort_ids_sorted. exact Hid.
    - apply Permutation_map. rewrite Hperm. symmetry. apply sort_ids_perm. exact Hid. }
  revert Hkeys. generalize (sort_ids kf l) as q. clear - Hinj.
  induction p as [|a p IH]; intros [|b q] E; cbn in E; try discriminate; [reflexivity|].
  inversion E as [[E1 E2]]. f_equal; [apply Hinj; exact E1|apply IH; exact E2].
Qed.
