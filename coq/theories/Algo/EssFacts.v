(** C16 — proofs about the bound-refinement machine. *)
From Coq Require Import List Arith Bool Lia.
Import ListNotations.
From WG Require Import Algo.EssSpec Algo.EssStatements Algo.EssSpecFacts Algo.Ess
  Algo.EssMachineStatements.

(** ---- arrays ---- *)
Lemma tab_length : forall n f, length (tab n f) = n.
Proof. intros. unfold tab. rewrite map_length, seq_length. reflexivity. Qed.

Lemma tab_nth : forall n f v, v < n -> nth v (tab n f) 0 = f v.
Proof. intros. unfold tab. apply nth_map_seq. assumption. Qed.

Lemma upd_length : forall l i x, length (upd l i x) = length l.
Proof. intros. unfold upd. apply tab_length. Qed.

Lemma upd_nth : forall l i x v, v < length l ->
  nth v (upd l i x) 0 = if v =? i then x else nth v l 0.
Proof. intros. unfold upd. rewrite tab_nth by assumption. reflexivity. Qed.

(** ---- distance facts ---- *)
Section Facts.
  Variable g : graph.
  Hypothesis Hwf : wf_graph g = true.
  Hypothesis Hn : 0 < length g.
  Let dm := dist_matrix g.

  Lemma dget_is_dist : forall s v k, s < length g -> v < length g ->
    (dget dm s v = Some k <-> is_dist g s v k).
  Proof.
    intros s v k Hs Hv. unfold dm. rewrite dget_dist by assumption. apply bfs_dist_some; assumption.
  Qed.

  Lemma EF_spec : forall v, v < length g -> is_ecc_f g v (EF g v).
  Proof. intros v Hv. apply ecc_spec; assumption. Qed.
  Lemma EB_spec : forall v, v < length g -> is_ecc_b g v (EB g v).
  Proof. intros v Hv. apply ecc_spec; assumption. Qed.

  Lemma dist_le_EF : forall s v k, s < length g -> v < length g -> dget dm s v = Some k -> k <= EF g s.
  Proof.
    intros s v k Hs Hv H. apply dget_is_dist in H; [|assumption..].
    destruct (EF_spec s Hs) as [_ Hmax]. eapply Hmax. exact H.
  Qed.

  Lemma dist_le_EB : forall s v k, s < length g -> v < length g -> dget dm s v = Some k -> k <= EB g v.
  Proof.
    intros s v k Hs Hv H. apply dget_is_dist in H; [|assumption..].
    destruct (EB_spec v Hv) as [_ Hmax]. eapply Hmax. exact H.
  Qed.

  Lemma EF_le_Dm : forall v, v < length g -> EF g v <= Dm g.
  Proof.
    intros v Hv. destruct (diameter_spec g Hwf Hn) as [_ Hmax]. apply (Hmax v); [exact Hv | apply EF_spec; exact Hv].
  Qed.

  (** ecc-(v) is some d(w,v) <= ecc+(w) *)
  Lemma EB_le_some_EF : forall v, v < length g -> exists w, w < length g /\ EB g v <= EF g w.
  Proof.
    intros v Hv. destruct (EB_spec v Hv) as [[w Hw] _].
    assert (Hwl : w < length g) by (destruct Hw as [Hw _]; eapply walk_src_lt; eassumption).
    exists w. split; [exact Hwl|]. destruct (EF_spec w Hwl) as [_ Hmax]. eapply Hmax. exact Hw.
  Qed.

  Lemma EF_le_some_EB : forall v, v < length g -> exists w, w < length g /\ EF g v <= EB g w.
  Proof.
    intros v Hv. destruct (EF_spec v Hv) as [[w Hw] _].
    assert (Hwl : w < length g) by (eapply is_dist_lt; eassumption).
    exists w. split; [exact Hwl|]. destruct (EB_spec w Hwl) as [_ Hmax]. eapply Hmax. exact Hw.
  Qed.

  Lemma EB_le_Dm : forall v, v < length g -> EB g v <= Dm g.
  Proof.
    intros v Hv. destruct (EB_le_some_EF v Hv) as [w [Hw H]]. pose proof (EF_le_Dm w Hw). lia.
  Qed.

  (** distances are below the number of nodes *)
  Lemma bfs_layers_length : forall fuel seen front, length (bfs_layers g fuel seen front) <= fuel.
  Proof.
    induction fuel as [|fuel IH]; intros seen front; cbn [bfs_layers]; [cbn; lia|].
    destruct front; [cbn; lia|]. cbn [length]. specialize (IH (fresh seen (flat_map (succs g) (n :: front)) ++ seen)
      (fresh seen (flat_map (succs g) (n :: front)))). lia.
  Qed.

  Lemma layer_index_lt : forall v ls d, layer_index v ls = Some d -> d < length ls.
  Proof.
    intros v ls. induction ls as [|l ls IH]; intros d H; cbn in H; [discriminate|].
    destruct (memb v l).
    - injection H as <-. cbn. lia.
    - destruct (layer_index v ls) as [d'|]; [|discriminate]. cbn in H. injection H as <-.
      specialize (IH d' eq_refl). cbn. lia.
  Qed.

  Lemma is_dist_lt_n : forall s v k, s < length g -> is_dist g s v k -> k < length g.
  Proof.
    intros s v k Hs H. apply (bfs_dist_some g s v k Hwf Hs) in H. unfold bfs_dist, bfs in H.
    apply layer_index_lt in H. pose proof (bfs_layers_length (length g) [s] [s]). lia.
  Qed.

  Lemma EF_lt_n : forall v, v < length g -> EF g v <= length g - 1.
  Proof.
    intros v Hv. destruct (EF_spec v Hv) as [[w Hw] _]. pose proof (is_dist_lt_n _ _ _ Hv Hw). lia.
  Qed.

  Lemma EB_lt_n : forall v, v < length g -> EB g v <= length g - 1.
  Proof.
    intros v Hv. destruct (EB_le_some_EF v Hv) as [w [Hw H]]. pose proof (EF_lt_n w Hw). lia.
  Qed.

  Lemma eccs_nth : forall v, v < length g -> nth v (eccs_f dm) 0 = EF g v.
  Proof. intros v Hv. apply eccs_f_nth. exact Hv. Qed.

  (** the specification's radius is the eccentricity of a radial vertex, and at most that of
      every radial vertex *)
  Lemma radius_le_radial : forall radial r v, radius_from (eccs_f dm) radial = Some r ->
    v < length g -> nth v radial false = true -> r <= EF g v.
  Proof.
    intros radial r v Hr Hv Hrad. apply radius_from_some in Hr. destruct Hr as [_ Hmin].
    rewrite <- eccs_nth by exact Hv. apply Hmin; [|exact Hrad]. unfold dm. rewrite eccs_f_length. exact Hv.
  Qed.

  (** ---- initial state ---- *)
  Lemma inv_init : forall radial, inv g radial (init_st (length g) false).
  Proof.
    intros radial. constructor; cbn [init_st lF uF lB uB dL dv rU rv rU_init].
    - rewrite !tab_length. repeat split; reflexivity.
    - intros v Hv. rewrite !tab_nth by exact Hv. pose proof (EF_lt_n v Hv). lia.
    - intros v Hv. rewrite !tab_nth by exact Hv. pose proof (EB_lt_n v Hv). lia.
    - lia.
    - split; [exact Hn | left; reflexivity].
    - intros v Hv. rewrite tab_nth by exact Hv. lia.
    - intros v Hv. rewrite tab_nth by exact Hv. lia.
    - intros r Hr. pose proof Hr as Hr'. apply radius_from_some in Hr'. destruct Hr' as [[i [Hi [Hrad Hnth]]] _].
      unfold dm in Hi. rewrite eccs_f_length in Hi. rewrite eccs_nth in Hnth by exact Hi.
      pose proof (EF_lt_n i Hi). lia.
    - left. reflexivity.
    - intros v Hv _ H. rewrite !tab_nth in H by exact Hv. lia.
  Qed.

  (** ---- the lower-bound update ---- *)
  Lemma low_upd_cases : forall lo hi dist v,
    low_upd lo hi dist v = nth v lo 0 \/
    (exists k, dist v = Some k /\ low_upd lo hi dist v = k /\ nth v lo 0 <> nth v hi 0 /\ nth v lo 0 < k).
  Proof.
    intros lo hi dist v. unfold low_upd. destruct (dist v) as [k|]; [|left; reflexivity].
    destruct (negb (nth v lo 0 =? nth v hi 0) && (nth v lo 0 <? k)) eqn:E; [|left; reflexivity].
    right. apply andb_true_iff in E. destruct E as [E1 E2]. apply negb_true_iff, Nat.eqb_neq in E1.
    apply Nat.ltb_lt in E2. exists k. repeat split; assumption.
  Qed.

  Lemma low_upd_ge : forall lo hi dist v, nth v lo 0 <= low_upd lo hi dist v.
  Proof.
    intros lo hi dist v. destruct (low_upd_cases lo hi dist v) as [H|[k [_ [H [_ Hlt]]]]]; rewrite H; lia.
  Qed.

  (** ---- forward visit ---- *)
  Lemma fwd_step_inv : forall radial s order x, s < length g -> inv g radial x ->
    inv g radial (fwd_step false dm radial s order x).
  Proof.
    intros radial s order x Hs I. destruct I as [[L1 [L2 [L3 L4]]] IF IB IdL Idv IlFd IlBd IrU Irv IR].
    assert (Hdm : length dm = length g) by apply dist_matrix_length.
    assert (He : ecc_f_dm dm s = EF g s) by reflexivity.
    unfold fwd_step. cbn [bl bh fst snd]. rewrite Hdm, He.
    constructor; cbn [lF uF lB uB dL dv rU rv].
    - rewrite !upd_length, tab_length. repeat split; assumption.
    - intros v Hv. rewrite !upd_nth by lia. destruct (v =? s) eqn:E.
      + apply Nat.eqb_eq in E. subst. lia.
      + apply IF. exact Hv.
    - intros v Hv. rewrite tab_nth by exact Hv. split; [|apply IB; exact Hv].
      destruct (low_upd_cases (lB x) (uB x) (fun v0 => dget dm s v0) v) as [H|[k [Hk [H _]]]]; rewrite H.
      + apply IB. exact Hv.
      + eapply dist_le_EB; [exact Hs | exact Hv | exact Hk].
    - destruct (dL x <? EF g s); [apply EF_le_Dm; exact Hs | exact IdL].
    - destruct (dL x <? EF g s) eqn:E; [split; [exact Hs | right; left; reflexivity] | exact Idv].
    - intros v Hv. rewrite upd_nth by lia.
      assert (dL x <= if dL x <? EF g s then EF g s else dL x)
        by (destruct (dL x <? EF g s) eqn:E; [apply Nat.ltb_lt in E; lia | lia]).
      destruct (v =? s) eqn:E.
      + destruct (dL x <? EF g s) eqn:E2; [lia | apply Nat.ltb_ge in E2; lia].
      + specialize (IlFd v Hv). lia.
    - intros v Hv. rewrite tab_nth by exact Hv.
      assert (Hd : dL x <= if dL x <? EF g s then EF g s else dL x)
        by (destruct (dL x <? EF g s) eqn:E; [apply Nat.ltb_lt in E; lia | lia]).
      destruct (low_upd_cases (lB x) (uB x) (fun v0 => dget dm s v0) v) as [H|[k [Hk [H _]]]]; rewrite H.
      + specialize (IlBd v Hv). lia.
      + pose proof (dist_le_EF s v k Hs Hv Hk).
        destruct (dL x <? EF g s) eqn:E2; [lia | apply Nat.ltb_ge in E2; lia].
    - intros r Hr. destruct (nth s radial false && (EF g s <? rU x)) eqn:E; [|apply IrU; exact Hr].
      apply andb_true_iff in E. destruct E as [E1 _]. eapply radius_le_radial; eassumption.
    - destruct (nth s radial false && (EF g s <? rU x)) eqn:E; [|exact Irv].
      apply andb_true_iff in E. destruct E as [E1 _]. right. repeat split; assumption.
    - intros v Hv Hrad. rewrite !upd_nth by lia. destruct (v =? s) eqn:E.
      + apply Nat.eqb_eq in E. subst v. intros _. rewrite Hrad. cbn [andb].
        destruct (EF g s <? rU x) eqn:E2; [lia | apply Nat.ltb_ge in E2; lia].
      + intros Heq. specialize (IR v Hv Hrad Heq).
        destruct (nth s radial false && (EF g s <? rU x)) eqn:E2; [|exact IR].
        apply andb_true_iff in E2. destruct E2 as [_ E2]. apply Nat.ltb_lt in E2. lia.
  Qed.

  (** ---- the radius update of the backward visit ---- *)
  Definition rcond (x : st) (radial : list bool) (dist : nat -> option nat) (v k : nat) : Prop :=
    dist v = Some k /\ nth v (lF x) 0 <> nth v (uF x) 0 /\ nth v (lF x) 0 < k /\
    k = nth v (uF x) 0 /\ nth v radial false = true.

  Lemma rad_visit_cases : forall x radial dist acc v,
    rad_visit x radial dist acc v = acc \/
    (exists k, rcond x radial dist v k /\ k < fst acc /\ rad_visit x radial dist acc v = (k, v)).
  Proof.
    intros x radial dist acc v. unfold rad_visit. destruct (dist v) as [k|] eqn:Ed; [|left; reflexivity].
    destruct (negb (nth v (lF x) 0 =? nth v (uF x) 0) && (nth v (lF x) 0 <? k) && (k =? nth v (uF x) 0)
              && nth v radial false && (k <? fst acc)) eqn:E; [|left; reflexivity].
    right. repeat (apply andb_true_iff in E; destruct E as [E ?]).
    apply negb_true_iff, Nat.eqb_neq in E.
    repeat match goal with H : (_ <? _) = true |- _ => apply Nat.ltb_lt in H
                      | H : (_ =? _) = true |- _ => apply Nat.eqb_eq in H end.
    exists k. unfold rcond. repeat split; assumption.
  Qed.

  Lemma rad_fold_le : forall x radial dist order acc,
    fst (fold_left (rad_visit x radial dist) order acc) <= fst acc.
  Proof.
    intros x radial dist order. induction order as [|v order IH]; intros acc; cbn [fold_left]; [lia|].
    specialize (IH (rad_visit x radial dist acc v)).
    destruct (rad_visit_cases x radial dist acc v) as [H|[k [_ [Hlt H]]]]; rewrite H in *; cbn [fst] in *; lia.
  Qed.

  Lemma rad_fold_covers : forall x radial dist order acc v k, In v order -> rcond x radial dist v k ->
    fst (fold_left (rad_visit x radial dist) order acc) <= k.
  Proof.
    intros x radial dist order. induction order as [|w order IH]; intros acc v k Hin Hc; [destruct Hin|].
    cbn [fold_left]. destruct Hin as [->|Hin]; [|eapply IH; eassumption].
    pose proof (rad_fold_le x radial dist order (rad_visit x radial dist acc v)) as Hle.
    assert (fst (rad_visit x radial dist acc v) <= k); [|lia].
    unfold rad_visit. destruct Hc as [Hd [Hne [Hlt [Heq Hrad]]]]. rewrite Hd.
    destruct (k <? fst acc) eqn:E.
    - replace (negb (nth v (lF x) 0 =? nth v (uF x) 0) && (nth v (lF x) 0 <? k) && (k =? nth v (uF x) 0)
               && nth v radial false && true) with true; [cbn; lia|].
      symmetry. rewrite Hrad. apply Nat.eqb_neq in Hne. rewrite Hne. apply Nat.ltb_lt in Hlt. rewrite Hlt.
      apply Nat.eqb_eq in Heq. rewrite Heq. reflexivity.
    - rewrite andb_false_r. apply Nat.ltb_ge in E. exact E.
  Qed.

  Lemma rad_fold_witness : forall x radial dist order acc,
    fold_left (rad_visit x radial dist) order acc = acc \/
    exists v k, rcond x radial dist v k /\ fold_left (rad_visit x radial dist) order acc = (k, v).
  Proof.
    intros x radial dist order. induction order as [|w order IH]; intros acc; cbn [fold_left]; [left; reflexivity|].
    destruct (IH (rad_visit x radial dist acc w)) as [H|H]; [|right; exact H].
    rewrite H. destruct (rad_visit_cases x radial dist acc w) as [H'|[k [Hc [_ H']]]]; [left; exact H'|].
    right. exists w, k. split; assumption.
  Qed.

  (** ---- backward visit ---- *)
  Lemma bwd_step_inv : forall radial s order x, s < length g ->
    (forall v, v < length g -> dget dm v s <> None -> In v order) ->
    inv g radial x -> inv g radial (bwd_step false dm radial s order x).
  Proof.
    intros radial s order x Hs Hcov I.
    destruct I as [[L1 [L2 [L3 L4]]] IF IB IdL Idv IlFd IlBd IrU Irv IR].
    assert (Hdm : length dm = length g) by apply dist_matrix_length.
    assert (He : becc false dm s = EB g s) by reflexivity.
    unfold bwd_step. rewrite Hdm, He. cbn [bdist andb].
    set (dist := fun v => dget dm v s).
    change (bdist false dm s) with dist.
    set (r := fold_left (rad_visit x radial dist) order (rU x, rv x)).
    assert (Hdmax : dL x <= if dL x <? EB g s then EB g s else dL x)
      by (destruct (dL x <? EB g s) eqn:E; [apply Nat.ltb_lt in E; lia | lia]).
    assert (HeB : EB g s <= if dL x <? EB g s then EB g s else dL x)
      by (destruct (dL x <? EB g s) eqn:E; [lia | apply Nat.ltb_ge in E; lia]).
    (* a node whose forward bounds are closed by this visit *)
    assert (Hclosed : forall v k, v < length g -> rcond x radial dist v k -> EF g v = k).
    { intros v k Hv [Hd [_ [_ [Heq _]]]]. pose proof (dist_le_EF v s k Hv Hs Hd).
      specialize (IF v Hv). lia. }
    constructor; cbn [lF uF lB uB dL dv rU rv].
    - rewrite !upd_length, tab_length. repeat split; assumption.
    - intros v Hv. rewrite tab_nth by exact Hv. split; [|apply IF; exact Hv].
      destruct (low_upd_cases (lF x) (uF x) dist v) as [H|[k [Hk [H _]]]]; rewrite H.
      + apply IF. exact Hv.
      + eapply dist_le_EF; [exact Hv | exact Hs | exact Hk].
    - intros v Hv. rewrite !upd_nth by lia. destruct (v =? s) eqn:E.
      + apply Nat.eqb_eq in E. subst. lia.
      + apply IB. exact Hv.
    - destruct (dL x <? EB g s); [apply EB_le_Dm; exact Hs | exact IdL].
    - destruct (dL x <? EB g s) eqn:E; [split; [exact Hs | right; right; reflexivity] | exact Idv].
    - intros v Hv. rewrite tab_nth by exact Hv.
      destruct (low_upd_cases (lF x) (uF x) dist v) as [H|[k [Hk [H _]]]]; rewrite H.
      + specialize (IlFd v Hv). lia.
      + pose proof (dist_le_EB v s k Hv Hs Hk). lia.
    - intros v Hv. rewrite upd_nth by lia. destruct (v =? s); [lia | specialize (IlBd v Hv); lia].
    - intros r0 Hr0. destruct (rad_fold_witness x radial dist order (rU x, rv x)) as [H|[v [k [Hc H]]]]; fold r in H; rewrite H; cbn [fst].
      + apply IrU. exact Hr0.
      + assert (Hv : v < length g).
        { destruct Hc as [Hd _]. unfold dist, dget in Hd.
          destruct (Nat.lt_ge_cases v (length g)) as [Hv|Hv]; [exact Hv|].
          rewrite (nth_overflow dm) in Hd by (rewrite Hdm; exact Hv). destruct s; discriminate Hd. }
        rewrite <- (Hclosed v k Hv Hc). eapply radius_le_radial; [exact Hr0 | exact Hv | apply Hc].
    - destruct (rad_fold_witness x radial dist order (rU x, rv x)) as [H|[v [k [Hc H]]]]; fold r in H; rewrite H; cbn [fst snd].
      + exact Irv.
      + assert (Hv : v < length g).
        { destruct Hc as [Hd _]. unfold dist, dget in Hd.
          destruct (Nat.lt_ge_cases v (length g)) as [Hv|Hv]; [exact Hv|].
          rewrite (nth_overflow dm) in Hd by (rewrite Hdm; exact Hv). destruct s; discriminate Hd. }
        right. split; [exact Hv|]. split; [apply Hc | apply Hclosed; assumption].
    - intros v Hv Hrad. rewrite tab_nth by exact Hv. intros Heq.
      pose proof (rad_fold_le x radial dist order (rU x, rv x)) as Hle. fold r in Hle. cbn [fst] in Hle.
      destruct (low_upd_cases (lF x) (uF x) dist v) as [H|[k [Hk [H [Hne Hlt]]]]]; rewrite H in *.
      + specialize (IR v Hv Hrad Heq). lia.
      + assert (Hc : rcond x radial dist v k) by (unfold rcond; repeat split; assumption).
        apply (rad_fold_covers x radial dist order (rU x, rv x) v k); [|exact Hc].
        apply Hcov; [exact Hv|]. unfold dist in Hk. rewrite Hk. discriminate.
  Qed.

  Theorem step_invariant_g : forall radial o x, legal_op g o -> inv g radial x ->
    inv g radial (step false dm radial o x).
  Proof.
    intros radial [s order|s order|piv order] x Hl I; cbn [step legal_op] in *.
    - apply fwd_step_inv; assumption.
    - destruct Hl as [Hs Hcov]. apply bwd_step_inv; assumption.
    - destruct Hl.
  Qed.

  Theorem run_invariant_g : forall radial ops x, Forall (legal_op g) ops -> inv g radial x ->
    inv g radial (run_ops false dm radial ops x).
  Proof.
    intros radial ops. induction ops as [|o ops IH]; intros x Hl I; cbn [run_ops fold_left]; [exact I|].
    inversion Hl as [|o' ops' Ho Hops]; subst. apply IH; [exact Hops|]. apply step_invariant_g; assumption.
  Qed.
End Facts.

Theorem step_invariant : S_step_invariant.
Proof. intros g radial o x Hwf Hn Hl I. apply step_invariant_g; assumption. Qed.

Theorem run_invariant : S_run_invariant.
Proof.
  intros g radial ops Hwf Hn Hl. apply run_invariant_g; try assumption. apply inv_init; assumption.
Qed.

(** ---- exit ---- *)
Lemma count_zero : forall n f, count n f = 0 -> forall v, v < n -> f v = false.
Proof.
  unfold count. intros n f H v Hv. apply length_zero_iff_nil in H.
  destruct (f v) eqn:E; [|reflexivity].
  assert (Hin : In v (filter f (seq 0 n))) by (apply filter_In; split; [apply in_seq; lia | exact E]).
  rewrite H in Hin. destruct Hin.
Qed.

Lemma count_zero_intro : forall n f, (forall v, v < n -> f v = false) -> count n f = 0.
Proof.
  unfold count. intros n f H. destruct (filter f (seq 0 n)) as [|v l] eqn:E; [reflexivity|].
  assert (Hin : In v (filter f (seq 0 n))) by (rewrite E; left; reflexivity).
  apply filter_In in Hin. destruct Hin as [Hin Hf]. apply in_seq in Hin. rewrite H in Hf by lia. discriminate.
Qed.

Section Exit.
  Variable g : graph.
  Hypothesis Hwf : wf_graph g = true.
  Hypothesis Hn : 0 < length g.
  Variable radial : list bool.
  Variable x : st.
  Hypothesis I : inv g radial x.
  Let dm := dist_matrix g.
  Let n := length g.
  Let m := find_missing false n radial x.
  Let o := output false n radial x.

  Lemma incF_false : forall v, incF x v = false -> nth v (lF x) 0 = nth v (uF x) 0.
  Proof. intros v H. unfold incF in H. apply negb_false_iff, Nat.eqb_eq in H. exact H. Qed.

  Lemma exit_eccf : m_af m = 0 -> check_eccf dm o = true.
  Proof.
    intros H. unfold check_eccf. apply list_eqb_eq. cbn [o output o_eccf].
    destruct I as [[L1 _] IF _ _ _ _ _ _ _ _].
    apply list_ext_nth; [unfold dm; rewrite eccs_f_length; exact L1|].
    intros v Hv. rewrite L1 in Hv. unfold dm. rewrite eccs_f_nth by exact Hv.
    pose proof (incF_false v (count_zero _ _ H v Hv)). specialize (IF v Hv). unfold EF in IF. lia.
  Qed.

  Lemma exit_eccb : m_ab m = 0 -> check_eccb dm o = true.
  Proof.
    intros H. unfold check_eccb. apply list_eqb_eq. cbn [o output o_eccb].
    destruct I as [[_ [_ [_ L4]]] _ IB _ _ _ _ _ _ _].
    apply list_ext_nth; [unfold dm; rewrite eccs_b_length; exact L4|].
    intros v Hv. rewrite L4 in Hv. unfold dm. rewrite eccs_b_nth by exact Hv.
    pose proof (count_zero _ _ H v Hv) as Hc. cbn [incB bl bh] in Hc. unfold incB in Hc. cbn [bl bh] in Hc.
    apply negb_false_iff, Nat.eqb_eq in Hc. specialize (IB v Hv). unfold EB in IB. lia.
  Qed.

  (** once every eccentricity is known to be at most dL, dL is the diameter and its vertex attains it *)
  Lemma diam_from_bound : Dm g <= dL x -> check_diam dm o = true /\ check_dv dm o = true.
  Proof.
    intros Hle. destruct I as [_ _ _ IdL [Hdv Idv] _ _ _ _ _].
    assert (Heq : dL x = Dm g) by lia.
    unfold check_diam, check_dv. cbn [o output o_diam o_dv]. split; [apply Nat.eqb_eq; exact Heq|].
    apply andb_true_iff. split; [apply Nat.ltb_lt; unfold dm; rewrite dist_matrix_length; exact Hdv|].
    apply orb_true_iff. destruct Idv as [H0|[H|H]].
    - left. apply Nat.eqb_eq. pose proof (EF_le_Dm g Hwf Hn (dv x) Hdv). unfold EF in *. fold dm in H. lia.
    - left. apply Nat.eqb_eq. exact H.
    - right. apply Nat.eqb_eq. exact H.
  Qed.

  Lemma Dm_le_if_all_EF : (forall v, v < n -> EF g v <= dL x) -> Dm g <= dL x.
  Proof.
    intros H. unfold Dm, diameter_of. apply list_max_le. apply Forall_forall. intros e He.
    destruct (In_nth _ _ 0 He) as [v [Hv Hnth]]. rewrite eccs_f_length in Hv.
    rewrite eccs_f_nth in Hnth by exact Hv. subst e. apply H. exact Hv.
  Qed.

  Lemma exit_diam_f : m_df m = 0 -> check_diam dm o = true /\ check_dv dm o = true.
  Proof.
    intros H. apply diam_from_bound. apply Dm_le_if_all_EF. intros v Hv.
    pose proof (count_zero _ _ H v Hv) as Hc. cbn beta in Hc.
    destruct I as [_ IF _ _ _ IlFd _ _ _ _]. specialize (IF v Hv). specialize (IlFd v Hv).
    apply andb_false_iff in Hc. destruct Hc as [Hc|Hc].
    - apply incF_false in Hc. lia.
    - apply Nat.ltb_ge in Hc. lia.
  Qed.

  Lemma exit_diam_b : m_db m = 0 -> check_diam dm o = true /\ check_dv dm o = true.
  Proof.
    intros H. apply diam_from_bound. apply Dm_le_if_all_EF. intros v Hv.
    destruct (EF_le_some_EB g Hwf v Hv) as [w [Hw Hle]].
    pose proof (count_zero _ _ H w Hw) as Hc. cbn beta in Hc. unfold incB in Hc. cbn [bl bh] in Hc.
    destruct I as [_ _ IB _ _ _ IlBd _ _ _]. specialize (IB w Hw). specialize (IlBd w Hw).
    apply andb_false_iff in Hc. destruct Hc as [Hc|Hc].
    - apply negb_false_iff, Nat.eqb_eq in Hc. lia.
    - apply Nat.ltb_ge in Hc. lia.
  Qed.

  Lemma no_radial_iff : no_radial n radial = true <-> radius_from (eccs_f dm) radial = None.
  Proof.
    unfold no_radial. rewrite forallb_forall, radius_from_none. unfold dm. rewrite eccs_f_length. split.
    - intros H i Hi. specialize (H i). rewrite negb_true_iff in H. apply H. apply in_seq. unfold n. lia.
    - intros H i Hi. apply in_seq in Hi. apply negb_true_iff. apply H. unfold n in Hi. lia.
  Qed.

  (** at the exit of a level reporting the radius, rU is at most the radius *)
  Lemma exit_rU_le : m_r m = 0 -> forall r, radius_from (eccs_f dm) radial = Some r -> rU x <= r.
  Proof.
    intros H r Er. destruct I as [_ IF _ _ _ _ _ IrU _ IR].
    pose proof Er as Er'. apply radius_from_some in Er'.
    destruct Er' as [[i [Hi [Hrad Hnth]]] _]. unfold dm in Hi. rewrite eccs_f_length in Hi.
    unfold dm in Hnth. rewrite eccs_f_nth in Hnth by exact Hi.
    pose proof (count_zero _ _ H i Hi) as Hc. cbn beta in Hc. rewrite Hrad in Hc.
    specialize (IF i Hi). unfold EF in IF. fold dm in IF.
    rewrite andb_true_r in Hc. apply andb_false_iff in Hc. destruct Hc as [Hc|Hc].
    - apply incF_false in Hc. specialize (IR i Hi Hrad Hc). fold dm in Hnth. lia.
    - apply Nat.ltb_ge in Hc. fold dm in Hnth. lia.
  Qed.

  Lemma exit_rad : m_r m = 0 -> check_rad dm radial o = true.
  Proof.
    intros H. unfold check_rad. cbn [o output o_rad].
    destruct (no_radial n radial) eqn:En.
    - apply no_radial_iff in En. rewrite En. reflexivity.
    - destruct (radius_from (eccs_f dm) radial) as [r|] eqn:Er.
      + apply Nat.eqb_eq. pose proof (exit_rU_le H r Er). destruct I as [_ _ _ _ _ _ _ IrU _ _].
        pose proof (IrU r Er). lia.
      + apply no_radial_iff in Er. congruence.
  Qed.

  Lemma af_implies : m_af m = 0 -> m_df m = 0 /\ m_r m = 0.
  Proof.
    intros H. split; apply count_zero_intro; intros v Hv; rewrite (count_zero _ _ H v Hv); reflexivity.
  Qed.

  Lemma ab_implies : m_ab m = 0 -> m_db m = 0.
  Proof.
    intros H. apply count_zero_intro; intros v Hv. pose proof (count_zero _ _ H v Hv) as Hc.
    cbn beta in Hc. rewrite Hc. reflexivity.
  Qed.

  Theorem exit_exact_g : forall l, missing_nodes l m = 0 -> check_values dm radial o l = true.
  Proof.
    intros l H. unfold check_values.
    destruct l; cbn [missing_nodes] in H; cbn [wants_eccf wants_eccb wants_diam wants_rad negb orb andb].
    - assert (Haf : m_af m = 0) by lia. assert (Hab : m_ab m = 0) by lia.
      destruct (af_implies Haf) as [Hdf Hr]. destruct (exit_diam_f Hdf) as [H1 H2].
      rewrite (exit_eccf Haf), (exit_eccb Hab), H1, H2, (exit_rad Hr). reflexivity.
    - destruct (af_implies H) as [Hdf Hr]. destruct (exit_diam_f Hdf) as [H1 H2].
      rewrite (exit_eccf H), H1, H2, (exit_rad Hr). reflexivity.
    - assert (Hr : m_r m = 0) by lia.
      assert (Hd : m_df m = 0 \/ m_db m = 0) by lia.
      assert (Hdd : check_diam dm o = true /\ check_dv dm o = true)
        by (destruct Hd as [Hd|Hd]; [apply exit_diam_f | apply exit_diam_b]; exact Hd).
      destruct Hdd as [H1 H2]. rewrite H1, H2, (exit_rad Hr). reflexivity.
    - assert (Hd : m_df m = 0 \/ m_db m = 0) by lia.
      assert (Hdd : check_diam dm o = true /\ check_dv dm o = true)
        by (destruct Hd as [Hd|Hd]; [apply exit_diam_f | apply exit_diam_b]; exact Hd).
      destruct Hdd as [H1 H2]. rewrite H1, H2. reflexivity.
    - rewrite (exit_rad H). reflexivity.
  Qed.

  Lemma wants_rad_mr : forall l, wants_rad l = true -> missing_nodes l m = 0 -> m_r m = 0.
  Proof.
    intros l Hw H. destruct l; cbn [missing_nodes] in H; try discriminate Hw; try lia.
    - assert (Haf : m_af m = 0) by lia. apply af_implies. exact Haf.
    - apply af_implies. exact H.
  Qed.

  Theorem exit_rv_g : m_r m = 0 -> check_rv dm radial o = true.
  Proof.
    intros Hm. unfold check_rv. cbn [o output o_rad o_rv].
    destruct (no_radial n radial) eqn:En; [reflexivity|].
    destruct (radius_from (eccs_f dm) radial) as [r|] eqn:Er; [|apply no_radial_iff in Er; congruence].
    pose proof (exit_rU_le Hm r Er) as Hle.
    pose proof Er as Er'. apply radius_from_some in Er'.
    destruct Er' as [[i [Hi [_ Hnth]]] _]. unfold dm in Hi. rewrite eccs_f_length in Hi.
    unfold dm in Hnth. rewrite eccs_f_nth in Hnth by exact Hi.
    pose proof (EF_lt_n g Hwf Hn i Hi) as Hlt. unfold EF in Hlt.
    destruct I as [_ _ _ _ _ _ _ _ Irv _]. destruct Irv as [H|[Hv [Hrad He]]]; [lia|].
    rewrite Hrad. unfold dm. rewrite dist_matrix_length. apply andb_true_iff. split.
    - apply andb_true_iff. split; [apply Nat.ltb_lt; exact Hv | reflexivity].
    - apply Nat.eqb_eq. exact He.
  Qed.
End Exit.

Theorem exit_exact : S_exit_exact.
Proof. intros g radial l x Hwf Hn I H. apply exit_exact_g; assumption. Qed.

Theorem exit_radial_vertex : S_exit_radial_vertex.
Proof.
  intros g radial l x Hwf Hn I Hw H. apply exit_rv_g; try assumption.
  eapply wants_rad_mr; eassumption.
Qed.

Lemma check_ess_dm_split : forall dm radial o l, check_values dm radial o l = true ->
  (wants_rad l = true -> check_rv dm radial o = true) -> check_ess_dm dm radial o l = true.
Proof.
  intros dm radial o l Hv Hr. unfold check_values in Hv. unfold check_ess_dm.
  destruct (wants_rad l); cbn [negb orb] in *.
  - rewrite (Hr eq_refl), andb_true_r. exact Hv.
  - exact Hv.
Qed.

Theorem machine_exact : S_machine_exact.
Proof.
  intros g radial ops l Hwf Hn Hl Hz. unfold replay in *. cbn [fst snd] in *.
  pose proof (run_invariant g radial ops Hwf Hn Hl) as I. unfold check_ess.
  apply check_ess_dm_split.
  - apply exit_exact_g; assumption.
  - intros Hw. apply exit_rv_g; try assumption. eapply wants_rad_mr; eassumption.
Qed.

(** ---- the two defects, on the model ---- *)
Theorem radial_vertex_refuted : S_radial_vertex_refuted.
Proof.
  exists [[]; [0]], [false; true], [OFwd 1 []; OBwd 0 [0; 1]; OFwd 0 []; OBwd 1 [1]], LRadius.
  split; [reflexivity|]. split.
  - apply Forall_cons; [cbn; lia|]. apply Forall_cons.
    { split; [cbn; lia|]. intros a Ha _.
      destruct a as [|[|w]]; cbn; [left; reflexivity | right; left; reflexivity | cbn in Ha; lia]. }
    apply Forall_cons; [cbn; lia|]. apply Forall_cons; [|constructor].
    split; [cbn; lia|]. intros a Ha H.
    destruct a as [|[|w]]; [exfalso; apply H; vm_compute; reflexivity | left; reflexivity | cbn in Ha; lia].
  - split; vm_compute; reflexivity.
Qed.

Theorem symm_radius_refuted : S_symm_radius_refuted.
Proof.
  exists [[]; [1]], [true; false], [OFwd 1 [1]; OBwd 0 [0]], LRadius.
  split; [reflexivity|]. split.
  - intros u v H. destruct u as [|[|u]]; cbn in H.
    + destruct H.
    + destruct H as [<-|[]]. cbn. left. reflexivity.
    + destruct u; destruct H.
  - split; vm_compute; reflexivity.
Qed.

Theorem witnesses_repaired : S_witnesses_repaired.
Proof. split; cbv zeta; split; vm_compute; reflexivity. Qed.

(** ---- replacing upper bounds by better upper bounds ---- *)
Theorem tighten_step_invariant : S_tighten_step_invariant.
Proof.
  intros g radial x uF' uB' rU' rv' Hwf Hn I LF LB HF HB Hr HR Hw.
  destruct I as [[L1 [L2 [L3 L4]]] IF IB IdL Idv IlFd IlBd IrU Irv IR].
  constructor; cbn [lF uF lB uB dL dv rU rv].
  - repeat split; assumption.
  - intros v Hv. specialize (IF v Hv). specialize (HF v Hv). lia.
  - intros v Hv. specialize (IB v Hv). specialize (HB v Hv). lia.
  - exact IdL.
  - exact Idv.
  - exact IlFd.
  - exact IlBd.
  - intros r Hrs. destruct Hw as [E|[Hv [Hrad [Heq Hval]]]].
    + injection E as -> _. apply IrU. exact Hrs.
    + rewrite Hval. specialize (IF rv' Hv). specialize (HF rv' Hv).
      assert (EF g rv' = nth rv' (lF x) 0) by lia.
      rewrite <- H. eapply radius_le_radial; eassumption.
  - destruct Hw as [E|[Hv [Hrad [Heq Hval]]]].
    + injection E as -> ->. exact Irv.
    + right. split; [exact Hv|]. split; [exact Hrad|].
      specialize (IF rv' Hv). specialize (HF rv' Hv). lia.
  - exact HR.
Qed.
