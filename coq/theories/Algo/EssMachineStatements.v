(** C16 — pinned statements about the bound-refinement machine (statements only). *)
From Coq Require Import List Arith Bool Lia.
Import ListNotations.
From WG Require Import Algo.EssSpec Algo.EssStatements Algo.Ess.

Definition EF (g : graph) (v : nat) : nat := ecc_f_dm (dist_matrix g) v.
Definition EB (g : graph) (v : nat) : nat := ecc_b_dm (dist_matrix g) v.
Definition Dm (g : graph) : nat := diameter_of (eccs_f (dist_matrix g)).

(** the invariant of the directed variant ([Level::run]):
    lF <= ecc+ <= uF, lB <= ecc- <= uB, dL <= D and its vertex attains it (once dL > 0),
    every lower bound is below dL, R <= rU and its vertex attains it (once rU has left its
    initial value n, which no eccentricity reaches), and a radial vertex whose forward bounds
    have met is accounted for in rU *)
Record inv (g : graph) (radial : list bool) (x : st) : Prop := mkInv {
  i_len : length (lF x) = length g /\ length (uF x) = length g /\
          length (lB x) = length g /\ length (uB x) = length g;
  i_F : forall v, v < length g -> nth v (lF x) 0 <= EF g v <= nth v (uF x) 0;
  i_B : forall v, v < length g -> nth v (lB x) 0 <= EB g v <= nth v (uB x) 0;
  i_dL : dL x <= Dm g;
  i_dv : dv x < length g /\ (dL x = 0 \/ EF g (dv x) = dL x \/ EB g (dv x) = dL x);
  i_lFd : forall v, v < length g -> nth v (lF x) 0 <= dL x;
  i_lBd : forall v, v < length g -> nth v (lB x) 0 <= dL x;
  i_rU : forall r, radius_from (eccs_f (dist_matrix g)) radial = Some r -> r <= rU x;
  i_rv : rU x = length g \/
         (rv x < length g /\ nth (rv x) radial false = true /\ EF g (rv x) = rU x);
  i_R : forall v, v < length g -> nth v radial false = true ->
        nth v (lF x) 0 = nth v (uF x) 0 -> rU x <= nth v (lF x) 0 }.

(** an operation is legal when its pivot is a node and, for a backward visit, the visiting
    order contains every node the visit reaches (any order, repetitions harmless); the
    order of a forward visit is irrelevant in the directed variant, and the SCC step (whose
    directed branch is not modelled) is excluded *)
Definition legal_op (g : graph) (o : op) : Prop :=
  match o with
  | OFwd s _ => s < length g
  | OBwd s order => s < length g /\
      forall v, v < length g -> dget (dist_matrix g) v s <> None -> In v order
  | OAll _ _ => False
  end.

(** every visit preserves the invariant: for ANY pivot and any visiting order *)
Definition S_step_invariant : Prop :=
  forall g radial o x, wf_graph g = true -> 0 < length g -> legal_op g o ->
  inv g radial x -> inv g radial (step false (dist_matrix g) radial o x).

(** hence it holds after any sequence of visits from the initial state *)
Definition S_run_invariant : Prop :=
  forall g radial ops, wf_graph g = true -> 0 < length g -> Forall (legal_op g) ops ->
  inv g radial (run_ops false (dist_matrix g) radial ops (init_st (length g) false)).

(** when [find_missing_nodes] returns 0 for the level, the values the level reports are
    exact (the proved checker accepts them) *)
Definition S_exit_exact : Prop :=
  forall g radial l x, wf_graph g = true -> 0 < length g -> inv g radial x ->
  missing_nodes l (find_missing false (length g) radial x) = 0 ->
  check_values (dist_matrix g) radial (output false (length g) radial x) l = true.

(** ... and, at every level that reports a radius, the reported radial vertex is a radial
    vertex attaining it (no side condition any more: the initial bound n is never a radius) *)
Definition S_exit_radial_vertex : Prop :=
  forall g radial l x, wf_graph g = true -> 0 < length g -> inv g radial x ->
  wants_rad l = true ->
  missing_nodes l (find_missing false (length g) radial x) = 0 ->
  check_rv (dist_matrix g) radial (output false (length g) radial x) = true.

(** full property for the machine: any legal sequence of visits that reaches the exit
    condition yields an output accepted by the complete checker *)
Definition S_machine_exact : Prop :=
  forall g radial ops l, wf_graph g = true -> 0 < length g -> Forall (legal_op g) ops ->
  fst (replay false g radial ops l) = 0 ->
  check_ess g radial (snd (replay false g radial ops l)) l = true.

(** DEFECT 1, PRE-REPAIR RULES (initial bound n-1 / strict comparison; repaired by 46b2bda):
    refutation of "the radial vertex attains the radius": when the radius equals the initial
    upper bound the vertex stays 0.  Witness: arcs {1->0}, radial vertices {1}, the visits
    the implementation performed. *)
Definition S_radial_vertex_refuted : Prop :=
  exists g radial ops l, wf_graph g = true /\ Forall (legal_op g) ops /\
    fst (replay_prefix false g radial ops l) = 0 /\
    check_rv (dist_matrix g) radial (snd (replay_prefix false g radial ops l)) = false.

(** DEFECT 2, PRE-REPAIR RULES (repaired by 42ca92a, f9241dd): refutation of exactness of the
    radius for [run_symm]: a visit labelled backward fixes the bounds of its start vertex
    without updating rU.  Witness: two nodes, a loop on node 1, default radial set {0}. *)
Definition S_symm_radius_refuted : Prop :=
  exists g radial ops l, wf_graph g = true /\
    (forall u v, In v (succs g u) -> In u (succs g v)) /\
    fst (replay_prefix true g radial ops l) = 0 /\
    check_rad (dist_matrix g) radial (snd (replay_prefix true g radial ops l)) = false.

(** the same witnesses under the repaired rules: accepted by the complete checker *)
Definition S_witnesses_repaired : Prop :=
  (let g := [[]; [0]] in let radial := [false; true] in
   let ops := [OFwd 1 []; OBwd 0 [0; 1]; OFwd 0 []; OBwd 1 [1]] in
   fst (replay false g radial ops LRadius) = 0 /\
   check_ess g radial (snd (replay false g radial ops LRadius)) LRadius = true) /\
  (let g := [[]; [1]] in let radial := [true; false] in
   let ops := [OFwd 1 [1]; OBwd 0 [0]] in
   fst (replay true g radial ops LRadius) = 0 /\
   check_ess g radial (snd (replay true g radial ops LRadius)) LRadius = true).

(** the SCC-based refinement [all_cc_upper_bound], DIRECTED branch (the symmetric branch is an
    operation of the machine, see EssSymmStatements.v): replacing the upper
    bounds by values that are still upper bounds, and updating rU/rv for the radial
    vertices whose bounds have met, preserves the invariant.  The abstract form below is
    what the invariant needs from that step; that the values computed through the SCC DAG
    are upper bounds is the part left open. *)
Definition S_tighten_step_invariant : Prop :=
  forall g radial x uF' uB' rU' rv',
  wf_graph g = true -> 0 < length g -> inv g radial x ->
  length uF' = length g -> length uB' = length g ->
  (forall v, v < length g -> EF g v <= nth v uF' 0 <= nth v (uF x) 0) ->
  (forall v, v < length g -> EB g v <= nth v uB' 0 <= nth v (uB x) 0) ->
  rU' <= rU x ->
  (forall v, v < length g -> nth v radial false = true -> nth v (lF x) 0 = nth v uF' 0 -> rU' <= nth v (lF x) 0) ->
  ((rU', rv') = (rU x, rv x) \/
   (rv' < length g /\ nth rv' radial false = true /\ nth rv' (lF x) 0 = nth rv' uF' 0 /\ rU' = nth rv' (lF x) 0)) ->
  inv g radial (mkSt (lF x) uF' (lB x) uB' (dL x) (dv x) rU' rv' (iters x + 3)).
