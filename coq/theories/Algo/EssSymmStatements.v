(** C16 — pinned statements for the symmetric variant ([Level::run_symm]) of the
    bound-refinement machine (statements only). *)
From Coq Require Import List Arith Bool Lia.
Import ListNotations.
From WG Require Import Algo.EssSpec Algo.EssStatements Algo.Ess Algo.EssMachineStatements.

Definition symmetric_graph (g : graph) : Prop :=
  forall u v, In v (succs g u) -> In u (succs g v).

(** in a symmetric graph distances are symmetric *)
Definition S_symm_dist : Prop :=
  forall g s v, wf_graph g = true -> symmetric_graph g -> s < length g -> v < length g ->
  dget (dist_matrix g) s v = dget (dist_matrix g) v s.

(** in a symmetric graph backward and forward eccentricities coincide *)
Definition S_symm_ecc : Prop :=
  forall g v, wf_graph g = true -> 0 < length g -> symmetric_graph g -> v < length g ->
  EB g v = EF g v.

(** the invariant of the symmetric variant (the backward arrays alias the forward ones and
    are not used): the full invariant of the directed variant restricted to the forward
    arrays, INCLUDING "a radial vertex whose bounds have met is accounted for in rU" (which
    the pre-repair rules broke: C16_symm_radius_refuted).  The initial value of rU is
    n/2 + 1. *)
Record inv_sym (g : graph) (radial : list bool) (x : st) : Prop := mkInvSym {
  s_len : length (lF x) = length g /\ length (uF x) = length g;
  s_F : forall v, v < length g -> nth v (lF x) 0 <= EF g v <= nth v (uF x) 0;
  s_dL : dL x <= Dm g;
  s_dv : dv x < length g /\ (dL x = 0 \/ EF g (dv x) = dL x);
  s_lFd : forall v, v < length g -> nth v (lF x) 0 <= dL x;
  s_rU : forall r, radius_from (eccs_f (dist_matrix g)) radial = Some r -> r <= rU x;
  s_rv : rU x = length g / 2 + 1 \/
         (rv x < length g /\ nth (rv x) radial false = true /\ EF g (rv x) = rU x);
  s_R : forall v, v < length g -> nth v radial false = true ->
        nth v (lF x) 0 = nth v (uF x) 0 -> rU x <= nth v (lF x) 0 }.

(** legal operations of the symmetric variant: the pivot of a visit is a node and the
    visiting order contains every node the visit reaches (BOTH kinds of visit update the
    radius while visiting); for the SCC step, the pivot assigned to a node is a node of its
    connected component, and the iteration order lists exactly the nodes *)
Definition legal_op_sym (g : graph) (o : op) : Prop :=
  match o with
  | OFwd s order | OBwd s order => s < length g /\
      forall v, v < length g -> dget (dist_matrix g) s v <> None -> In v order
  | OAll piv order =>
      (forall v, v < length g ->
         nth v piv 0 < length g /\ dget (dist_matrix g) (nth v piv 0) v <> None) /\
      (forall v, In v order <-> v < length g)
  end.

(** every operation, the SCC step included, preserves the invariant: for ANY pivots and any
    visiting orders *)
Definition S_symm_step_invariant : Prop :=
  forall g radial o x, wf_graph g = true -> 0 < length g -> symmetric_graph g -> legal_op_sym g o ->
  inv_sym g radial x -> inv_sym g radial (step true (dist_matrix g) radial o x).

(** the bound d(pivot, v) + ecc(pivot) used by the SCC step is an upper bound of ecc(v)
    (triangle inequality + symmetry) *)
Definition S_symm_pivot_bound : Prop :=
  forall g piv v, wf_graph g = true -> 0 < length g -> symmetric_graph g -> v < length g ->
  nth v piv 0 < length g -> dget (dist_matrix g) (nth v piv 0) v <> None ->
  EF g v <= pivot_value (dist_matrix g) piv v.

(** the initial state satisfies the invariant provided the radius is at most n/2 + 1 *)
Definition S_symm_run_invariant : Prop :=
  forall g radial ops, wf_graph g = true -> 0 < length g -> symmetric_graph g ->
  Forall (legal_op_sym g) ops ->
  (forall r, radius_from (eccs_f (dist_matrix g)) radial = Some r -> r <= length g / 2 + 1) ->
  inv_sym g radial (run_ops true (dist_matrix g) radial ops (init_st (length g) true)).

(** at the exit EVERYTHING the level reports is exact: eccentricities, diameter and its
    vertex, radius and a radial vertex attaining it.  The hypothesis "radius <= n/2" is what
    the initial value n/2 + 1 of the bound presupposes; it holds for the radial set
    [run_symm] always uses, the vertices of a largest connected component (a connected graph
    on m nodes has radius <= m/2) -- that graph-theoretic fact is proved in EssRadiusFacts.v (S_component_radius_half), which gives the hypothesis-free versions S_symm_*_closed and S_symm_machine_exact_default. *)
Definition S_symm_exit_exact : Prop :=
  forall g radial l x, wf_graph g = true -> 0 < length g -> symmetric_graph g ->
  inv_sym g radial x ->
  (forall r, radius_from (eccs_f (dist_matrix g)) radial = Some r -> r <= length g / 2) ->
  missing_nodes l (find_missing true (length g) radial x) = 0 ->
  check_ess_dm (dist_matrix g) radial (output true (length g) radial x) l = true.

(** full property for the symmetric machine: any legal sequence of visits and SCC steps that
    reaches the exit condition yields an output accepted by the complete checker *)
Definition S_symm_machine_exact : Prop :=
  forall g radial ops l, wf_graph g = true -> 0 < length g -> symmetric_graph g ->
  Forall (legal_op_sym g) ops ->
  (forall r, radius_from (eccs_f (dist_matrix g)) radial = Some r -> r <= length g / 2) ->
  fst (replay true g radial ops l) = 0 ->
  check_ess g radial (snd (replay true g radial ops l)) l = true.

(** the pivots the model of [find_best_pivot] chooses are legal for the SCC step (whatever
    the tie-break data) *)
Definition S_best_pivots_legal : Prop :=
  forall g use_tot tot x v, wf_graph g = true -> symmetric_graph g -> v < length g ->
  let p := nth v (best_pivots true use_tot (dist_matrix g) (length g) tot x) 0 in
  p < length g /\ dget (dist_matrix g) p v <> None.

(** the boolean test the driver applies to OBSERVED pivots decides exactly the condition
    [legal_op_sym] puts on the pivots of the SCC step *)
Definition S_legal_pivots_symb_spec : Prop :=
  forall g piv,
  legal_pivots_symb (dist_matrix g) (length g) piv = true <->
  (forall v, v < length g ->
     nth v piv 0 < length g /\ dget (dist_matrix g) (nth v piv 0) v <> None).
