(** C16 — pinned statements for the symmetric variant ([Level::run_symm]) of the
    bound-refinement machine (statements only). *)
From Coq Require Import List Arith Bool Lia.
Import ListNotations.
From WG Require Import Algo.EssSpec Algo.EssStatements Algo.Ess Algo.EssMachineStatements.

Definition symmetric_graph (g : graph) : Prop :=
  forall u v, In v (succs g u) -> In u (succs g v).

(** in a symmetric graph distances are symmetric *)
Definition S_symm_dist : Prop :=
  forall g s v, wf_graph g = true -> symmetric_graph g -> s < length g -> v < length g ->
  dget (dist_matrix g) s v = dget (dist_matrix g) v s.

(** the part of the invariant that survives in the symmetric variant (the backward arrays
    alias the forward ones): everything except "a radial vertex whose bounds have met is
    accounted for in rU", which [backwards_step_sum_sweep] breaks (C16_symm_radius_refuted) *)
Record inv_sym (g : graph) (radial : list bool) (x : st) : Prop := mkInvSym {
  s_len : length (lF x) = length g /\ length (uF x) = length g;
  s_F : forall v, v < length g -> nth v (lF x) 0 <= EF g v <= nth v (uF x) 0;
  s_dL : dL x <= Dm g;
  s_dv : dv x < length g /\ (dL x = 0 \/ EF g (dv x) = dL x);
  s_lFd : forall v, v < length g -> nth v (lF x) 0 <= dL x;
  s_rU : forall r, radius_from (eccs_f (dist_matrix g)) radial = Some r -> r <= rU x;
  s_rv : rU x = length g / 2 \/
         (rv x < length g /\ nth (rv x) radial false = true /\ EF g (rv x) = rU x) }.

Definition pivot_lt (g : graph) (o : op) : Prop :=
  match o with OFwd s => s < length g | OBwd s _ => s < length g end.

Definition S_symm_step_invariant : Prop :=
  forall g radial o x, wf_graph g = true -> 0 < length g -> symmetric_graph g -> pivot_lt g o ->
  inv_sym g radial x -> inv_sym g radial (step true (dist_matrix g) radial o x).

(** the initial state satisfies it provided the radius is at most n/2 (true of the default
    radial set of a symmetric graph, the vertices of a largest connected component; not
    proved here) *)
Definition S_symm_run_invariant : Prop :=
  forall g radial ops, wf_graph g = true -> 0 < length g -> symmetric_graph g ->
  Forall (pivot_lt g) ops ->
  (forall r, radius_from (eccs_f (dist_matrix g)) radial = Some r -> r <= length g / 2) ->
  inv_sym g radial (run_ops true (dist_matrix g) radial ops (init_st (length g) true)).

(** at the exit the eccentricities and the diameter (with its vertex) are exact, and the
    radius is never under-estimated *)
Definition check_values_symm (dm : list (list (option nat))) (o : ess_out) (l : level) : bool :=
  (negb (wants_eccf l) || check_eccf dm o) &&
  (negb (wants_diam l) || (check_diam dm o && check_dv dm o)).

Definition S_symm_exit_exact : Prop :=
  forall g radial l x, wf_graph g = true -> 0 < length g -> inv_sym g radial x ->
  missing_nodes l (find_missing true (length g) radial x) = 0 ->
  check_values_symm (dist_matrix g) (output true (length g) radial x) l = true /\
  (forall r, radius_from (eccs_f (dist_matrix g)) radial = Some r -> r <= rU x).
