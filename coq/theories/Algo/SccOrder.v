(** Proofs for C15, continued: the finishing order of the depth-first visit ([top_sort]) has
    the property Kosaraju's second phase needs; hence [kosaraju] is correct. *)
From WG Require Import Base.Prelude Algo.Scc Algo.SccStatements Algo.SccFacts.
Local Open Scope nat_scope.

(** in a list of nodes by decreasing finishing time, an arc [x -> w] towards an earlier
    position is a back arc: [w] is an ancestor of everything between [w] and [x] *)
Definition Bprop (g : graph) (L : list nat) : Prop :=
  forall a w b x c, L = a ++ w :: b ++ x :: c -> arc g x w ->
    forall z, In z (b ++ [x]) -> reachable g w z.

Lemma Bprop_tail : forall g y L, Bprop g (y :: L) -> Bprop g L.
Proof.
  intros g y L H a w b x c Hs Ha z Hz. apply (H (y :: a) w b x c); [cbn; rewrite Hs; reflexivity|exact Ha|exact Hz].
Qed.

Lemma split_prefix : forall (N P b c : list nat) x,
  NoDup (N ++ P) -> N ++ P = b ++ x :: c -> In x N -> incl (b ++ [x]) N.
Proof.
  induction N as [|n0 N IH]; intros P b c x Hnd Hs Hx; [destruct Hx|].
  destruct b as [|b0 b].
  - cbn in Hs. inversion Hs; subst. intros z [Hz|[]]. left. exact Hz.
  - cbn in Hs. inversion Hs as [[H0 H1]]. subst b0. cbn in Hnd. inversion Hnd as [|? ? Hn0 Hnd']; subst.
    destruct Hx as [Hx|Hx].
    + exfalso. apply Hn0. rewrite H1. apply in_or_app. right. left. symmetry. exact Hx.
    + intros z Hz. cbn in Hz. destruct Hz as [Hz|Hz]; [left; exact Hz|right].
      apply (IH P b c x Hnd' H1 Hx). exact Hz.
Qed.

Definition post_ok (g : graph) (vis post : list nat) : Prop :=
  NoDup post /\ Bprop g post /\ (forall x w, In x post -> arc g x w -> In w vis).

Definition order_post (g : graph) (u : nat) (vis0 post : list nat) (st' : dstate) : Prop :=
  exists pn, snd st' = pn ++ post
    /\ In u pn
    /\ (forall x, In x pn -> reachable g u x)
    /\ (forall x, In x pn -> ~ In x vis0)
    /\ incl (snd st') (fst st')
    /\ (forall x, In x (fst st') -> In x (snd st') \/ In x vis0)
    /\ post_ok g (fst st') (snd st').

Lemma dfs_order : forall g, wf_graph g -> forall fuel u vis0 post,
  NoDup (u :: vis0) -> Forall (fun v => v < length g) (u :: vis0) ->
  fuel + length (u :: vis0) >= S (length g) ->
  incl post vis0 -> post_ok g vis0 post ->
  order_post g u vis0 post (dfs fuel g u (u :: vis0, post)).
Proof.
  intros g Hwf. induction fuel as [|f IH]; intros u vis0 post Hnd Hb Hfuel Hincl Hok.
  - pose proof (nodup_bound _ _ Hnd Hb). lia.
  - pose proof (dfs_spec g Hwf (S f) u (u :: vis0) post Hnd Hb (or_introl eq_refl) Hfuel) as Hspec.
    cbn [dfs fst snd] in *.
    unfold order_post. cbn [dfs fst snd].
    remember (fun (st : list nat * list nat) (v : nat) =>
                if memb v (fst st) then st else dfs f g v (v :: fst st, snd st)) as F eqn:HF0.
    assert (Hu0 : ~ In u vis0) by (inversion Hnd; assumption).
    assert (Hfold : forall l st,
      (forall y, In y l -> arc g u y) ->
      NoDup (fst st) -> Forall (fun v => v < length g) (fst st) -> f + length (fst st) >= length g ->
      incl (u :: vis0) (fst st) ->
      (exists N, snd st = N ++ post /\ (forall x, In x N -> reachable g u x)
                 /\ (forall x, In x N -> ~ In x (u :: vis0))) ->
      incl (snd st) (fst st) ->
      (forall x, In x (fst st) -> In x (snd st) \/ In x (u :: vis0)) ->
      post_ok g (fst st) (snd st) ->
      let st' := fold_left F l st in
      (exists N, snd st' = N ++ post /\ (forall x, In x N -> reachable g u x)
                 /\ (forall x, In x N -> ~ In x (u :: vis0)))
      /\ incl (snd st') (fst st')
      /\ (forall x, In x (fst st') -> In x (snd st') \/ In x (u :: vis0))
      /\ post_ok g (fst st') (snd st')).
    { induction l as [|v l IHl]; intros st Harc Hnd1 Hb1 Hf1 Hsup HN Hi1 Hcov Hok1.
      - cbn. split; [exact HN|]. split; [exact Hi1|]. split; [exact Hcov|exact Hok1].
      - cbn [fold_left].
        assert (Harc' : forall y, In y l -> arc g u y) by (intros y Hy; apply Harc; right; exact Hy).
        assert (Huv : arc g u v) by (apply Harc; left; reflexivity).
        assert (HF : F st v = if memb v (fst st) then st else dfs f g v (v :: fst st, snd st)) by (rewrite HF0; reflexivity).
        rewrite HF. clear HF. destruct (memb v (fst st)) eqn:Hm.
        + apply IHl; assumption.
        + apply memb_false in Hm.
          assert (Hv : v < length g) by (apply (wf_succs g u v Hwf Huv)).
          assert (Hndv : NoDup (v :: fst st)) by (constructor; assumption).
          assert (Hbv : Forall (fun v => v < length g) (v :: fst st)) by (constructor; assumption).
          assert (Hfv : f + length (v :: fst st) >= S (length g)) by (cbn [length]; lia).
          destruct (dfs_spec g Hwf f v (v :: fst st) (snd st) Hndv Hbv (or_introl eq_refl) Hfv)
            as [nw1 [V1 [V2 [V3 _]]]].
          destruct (IH v (fst st) (snd st) Hndv Hbv Hfv Hi1 Hok1)
            as [pn [P1 [P2 [P3 [P4 [P5 [P6 P7]]]]]]].
          destruct HN as [N [N1 [N2 N3]]].
          apply IHl; try assumption.
          * rewrite V1, app_length. cbn [length]. lia.
          * intros x Hx. rewrite V1. apply in_or_app. right. right. apply Hsup. exact Hx.
          * exists (pn ++ N). rewrite P1, N1, app_assoc. split; [reflexivity|]. split.
            -- intros x Hx. apply in_app_or in Hx. destruct Hx as [Hx|Hx]; [|apply N2; exact Hx].
               eapply reach_step; [exact Huv|apply P3; exact Hx].
            -- intros x Hx. apply in_app_or in Hx. destruct Hx as [Hx|Hx]; [|apply N3; exact Hx].
               intros Hin. apply (P4 x Hx). apply Hsup. exact Hin.
          * intros x Hx. destruct (P6 x Hx) as [H|H]; [left; exact H|].
            destruct (Hcov x H) as [H'|H']; [left; rewrite P1; apply in_or_app; right; exact H'|right; exact H']. }
    destruct Hspec as [nw [S1 [S2 [S3 [S4 S5]]]]].
    destruct Hok as [O1 [O2 O3]].
    destruct (Hfold (succs g u) (u :: vis0, post)) as [[N [N1 [N2 N3]]] [Hi [Hcov [K1 [K2 K3]]]]].
    + intros y Hy. exact Hy.
    + exact Hnd.
    + exact Hb.
    + cbn [fst length] in *. lia.
    + apply incl_refl.
    + exists []. split; [reflexivity|]. split; intros x [].
    + cbn [fst snd]. intros x Hx. right. apply Hincl. exact Hx.
    + cbn [fst snd]. intros x Hx. right. exact Hx.
    + cbn [fst snd]. split; [exact O1|]. split; [exact O2|].
      intros x w Hx Ha. right. eapply O3; [exact Hx|exact Ha].
    + remember (fold_left F (succs g u) (u :: vis0, post)) as stk eqn:Hstk. clear Hstk.
      assert (HuN : ~ In u (snd stk)).
      { rewrite N1. intros Hin. apply in_app_or in Hin. destruct Hin as [Hin|Hin].
        - apply (N3 u Hin). left. reflexivity.
        - apply Hu0. apply Hincl. exact Hin. }
      exists (u :: N). cbn [fst snd]. rewrite N1. split; [reflexivity|].
      split; [left; reflexivity|]. split.
      * intros x [Hx|Hx]; [subst; apply reach_refl|apply N2; exact Hx].
      * split.
        -- intros x [Hx|Hx]; [subst; exact Hu0|]. intros Hin. apply (N3 x Hx). right. exact Hin.
        -- split.
           ++ intros x [Hx|Hx].
              ** subst x. rewrite S1. apply in_or_app. right. left. reflexivity.
              ** apply Hi. rewrite N1. exact Hx.
           ++ split.
              ** intros x Hx. destruct (Hcov x Hx) as [H|[H|H]].
                 --- left. right. rewrite <- N1. exact H.
                 --- left. left. exact H.
                 --- right. exact H.
              ** rewrite <- N1. split; [constructor; assumption|]. split.
                 --- intros a w b x c Hs Ha z Hz. destruct a as [|a0 a].
                     +++ cbn in Hs. inversion Hs as [[Hw Hs']]. subst w.
                         assert (Hx : In x (snd stk)) by (rewrite Hs'; apply in_or_app; right; left; reflexivity).
                         rewrite N1 in Hx. apply in_app_or in Hx. destruct Hx as [Hx|Hx].
                         *** apply N2. rewrite N1 in Hs', K1. apply (split_prefix N post b c x K1 Hs' Hx). exact Hz.
                         *** exfalso. apply Hu0. eapply O3; [exact Hx|exact Ha].
                     +++ cbn in Hs. inversion Hs as [[Ha0 Hs']]. apply (K2 a w b x c Hs' Ha z Hz).
                 --- intros x w [Hx|Hx] Ha.
                     +++ subst x. eapply S5; [right; reflexivity|exact Ha].
                     +++ eapply K3; [exact Hx|exact Ha].
Qed.

(** the roots loop *)
Definition roots_inv (g : graph) (done : list nat) (st : dstate) : Prop :=
  NoDup (fst st) /\ Forall (fun v => v < length g) (fst st)
  /\ incl (snd st) (fst st) /\ incl (fst st) (snd st) /\ post_ok g (fst st) (snd st)
  /\ incl done (snd st).

Lemma dfs_roots_inv : forall g, wf_graph g -> forall roots done st,
  Forall (fun r => r < length g) roots ->
  roots_inv g done st -> roots_inv g (done ++ roots) (dfs_roots g roots st).
Proof.
  intros g Hwf. induction roots as [|r roots IH]; intros done st Hr Hinv.
  - cbn. rewrite app_nil_r. exact Hinv.
  - cbn [dfs_roots fold_left]. inversion Hr as [|? ? Hr0 Hr']; subst.
    replace (done ++ r :: roots) with ((done ++ [r]) ++ roots) by (rewrite <- app_assoc; reflexivity).
    apply IH; [exact Hr'|].
    destruct Hinv as [I1 [I2 [I3 [I4 [I5 I6]]]]]. unfold dfs_root.
    destruct (memb r (fst st)) eqn:Hm.
    + apply memb_In in Hm. split; [exact I1|]. split; [exact I2|]. split; [exact I3|]. split; [exact I4|].
      split; [exact I5|]. intros x Hx. apply in_app_or in Hx.
      destruct Hx as [Hx|[Hx|[]]]; [apply I6; exact Hx|subst; apply I4; exact Hm].
    + apply memb_false in Hm.
      assert (Hnd : NoDup (r :: fst st)) by (constructor; assumption).
      assert (Hb : Forall (fun v => v < length g) (r :: fst st)) by (constructor; assumption).
      assert (Hf : length g + length (r :: fst st) >= S (length g)) by (cbn [length]; lia).
      destruct (dfs_spec g Hwf (length g) r (r :: fst st) (snd st) Hnd Hb (or_introl eq_refl) Hf)
        as [nw [V1 [V2 [V3 _]]]].
      destruct (dfs_order g Hwf (length g) r (fst st) (snd st) Hnd Hb Hf I3 I5)
        as [pn [P1 [P2 [P3 [P4 [P5 [P6 P7]]]]]]].
      split; [exact V2|]. split; [exact V3|]. split; [exact P5|]. split.
      * intros x Hx. destruct (P6 x Hx) as [H|H]; [exact H|]. rewrite P1. apply in_or_app. right. apply I4. exact H.
      * split; [exact P7|]. intros x Hx. rewrite P1. apply in_app_or in Hx.
        destruct Hx as [Hx|[Hx|[]]]; [apply in_or_app; right; apply I6; exact Hx|subst; apply in_or_app; left; exact P2].
Qed.

Lemma top_sort_props : forall g, wf_graph g ->
  NoDup (top_sort g) /\ Bprop g (top_sort g) /\ (forall u, In u (top_sort g) <-> u < length g).
Proof.
  intros g Hwf. unfold top_sort.
  pose proof (dfs_roots_inv g Hwf (seq 0 (length g)) [] ([], []) (seq_all _)) as H.
  destruct H as [I1 [I2 [I3 [I4 [[O1 [O2 O3]] I6]]]]].
  - split; [constructor|]. split; [constructor|]. split; [apply incl_refl|]. split; [apply incl_refl|].
    split; [|intros x []]. split; [constructor|]. split; [|intros x w []].
    intros a w b x c Hs. destruct a; discriminate.
  - split; [exact O1|]. split; [exact O2|]. intros u. split.
    + intros Hu. rewrite Forall_forall in I2. apply I2. apply I3. exact Hu.
    + intros Hu. apply I6. cbn. apply in_seq. lia.
Qed.

(** * From the back-arc property to the finishing-order property *)
Lemma first_reaches : forall g y0 L, Bprop g (y0 :: L) -> NoDup (y0 :: L) ->
  forall z, reachable g z y0 -> (forall q, reachable g z q -> In q (y0 :: L)) ->
  exists P R, y0 :: L = P ++ R /\ In z P /\ forall q, In q P -> reachable g y0 q.
Proof.
  intros g y0 L HB Hnd z Hre. remember y0 as t eqn:Ht in Hre.
  induction Hre as [u|u w v Ha Hr IH]; intros Hall.
  - subst u. exists [y0], L. split; [reflexivity|]. split; [left; reflexivity|].
    intros q [Hq|[]]. subst. apply reach_refl.
  - subst v. destruct IH as [P [R [Hs [Hw HP]]]]; [reflexivity| |].
    { intros q Hq. apply Hall. eapply reach_step; [exact Ha|exact Hq]. }
    destruct (in_dec Nat.eq_dec u P) as [HuP|HuP].
    + exists P, R. split; [exact Hs|]. split; [exact HuP|exact HP].
    + assert (HuR : In u R).
      { specialize (Hall u (reach_refl g u)). rewrite Hs in Hall. apply in_app_or in Hall.
        destruct Hall as [H|H]; [contradiction|exact H]. }
      destruct (in_split _ _ Hw) as [P1 [P2 HP12]]. destruct (in_split _ _ HuR) as [R1 [R2 HR12]].
      exists (P ++ R1 ++ [u]), R2. split.
      * rewrite Hs, HR12, <- !app_assoc. reflexivity.
      * split; [apply in_or_app; right; apply in_or_app; right; left; reflexivity|].
        intros q Hq. apply in_app_or in Hq. destruct Hq as [Hq|Hq]; [apply HP; exact Hq|].
        eapply reachable_trans; [apply HP; exact Hw|].
        apply (HB P1 w (P2 ++ R1) u R2).
        -- rewrite Hs, HP12, HR12, <- !app_assoc. reflexivity.
        -- exact Ha.
        -- rewrite <- app_assoc. apply in_or_app. right. exact Hq.
Qed.

Lemma Bprop_finish : forall g, wf_graph g -> forall l1 r l2 x,
  Bprop g (l1 ++ r :: l2) -> NoDup (l1 ++ r :: l2) ->
  (forall q, reachable g x q -> In q (l1 ++ r :: l2)) ->
  x < length g -> In x l2 -> reachable g x r ->
  reachable g r x \/ exists y, In y l1 /\ same_scc g y x.
Proof.
  intros g Hwf. induction l1 as [|y1 l1 IH]; intros r l2 x HB Hnd Hall Hx Hxl Hre.
  - left. cbn in *. destruct (first_reaches g r l2 HB Hnd x Hre Hall) as [P [R [Hs [HxP HP]]]].
    apply HP. exact HxP.
  - cbn [app] in *. destruct (in_dec Nat.eq_dec y1 (reach g x)) as [Hin|Hnin].
    + apply (reach_correct g x y1 Hwf Hx) in Hin.
      destruct (first_reaches g y1 _ HB Hnd x Hin Hall) as [P [R [Hs [HxP HP]]]].
      right. exists y1. split; [left; reflexivity|]. split; [apply HP; exact HxP|exact Hin].
    + assert (Hny : ~ reachable g x y1) by (intros H; apply Hnin; apply (reach_correct g x y1 Hwf Hx); exact H).
      destruct (IH r l2 x) as [H|[y [Hy Hs]]]; try assumption.
      * eapply Bprop_tail. exact HB.
      * inversion Hnd; assumption.
      * intros q Hq. destruct (Hall q Hq) as [He|Hin]; [subst; contradiction|exact Hin].
      * left. exact H.
      * right. exists y. split; [right; exact Hy|exact Hs].
Qed.

Lemma reachable_bound : forall g, wf_graph g -> forall x q, reachable g x q -> x < length g -> q < length g.
Proof.
  intros g Hwf x q H. induction H as [u|u w v Ha Hr IH]; intros Hx; [exact Hx|].
  apply IH. apply (wf_succs g u w Hwf Ha).
Qed.

Theorem top_sort_finish_ordered : S_top_sort_finish_ordered.
Proof.
  intros g Hwf. destruct (top_sort_props g Hwf) as [Hnd [HB Hall]]. split; [exact Hall|].
  intros l1 r l2 x Hs Hx Hre. rewrite Hs in *.
  assert (Hxn : x < length g) by (apply Hall; apply in_or_app; right; right; exact Hx).
  apply (Bprop_finish g Hwf l1 r l2 x HB Hnd); try assumption.
  intros q Hq. apply Hall. apply (reachable_bound g Hwf x q Hq Hxn).
Qed.

Theorem kosaraju_correct : S_kosaraju.
Proof.
  intros g gt Hwf Htr. unfold kosaraju.
  destruct (top_sort_finish_ordered g Hwf) as [Hall Hfin].
  apply (kosaraju_phase2 g gt (top_sort g) Hwf Htr Hall Hfin).
Qed.

(** * symm_par does not depend on the schedule: it returns what symm_seq returns *)
Section TwoVisits.
  Variable g : graph.
  Hypothesis Hwf : wf_graph g.
  Hypothesis Hsym : symmetric g.
  Variables visit1 visit2 : nat -> list nat -> list nat.
  Hypothesis Hv1 : visit_spec g visit1.
  Hypothesis Hv2 : visit_spec g visit2.
  Variable roots : list nat.
  Hypothesis Hroots : Forall (fun r => r < length g) roots.

  Let cinv' := cinv g (reachable g).

  Lemma two_step : forall l1 r l2 vis1 vis2 comp k,
    roots = l1 ++ r :: l2 ->
    cinv' vis1 comp k -> cinv' vis2 comp k -> incl l1 vis1 -> incl l1 vis2 ->
    (forall x, In x vis1 <-> In x vis2) ->
    let '(vis1', comp1', k1') := comp_step visit1 (vis1, comp, k) r in
    let '(vis2', comp2', k2') := comp_step visit2 (vis2, comp, k) r in
    cinv' vis1' comp1' k1' /\ cinv' vis2' comp2' k2' /\ incl (l1 ++ [r]) vis1' /\ incl (l1 ++ [r]) vis2'
    /\ (forall x, In x vis1' <-> In x vis2') /\ comp1' = comp2' /\ k1' = k2'.
  Proof.
    intros l1 r l2 vis1 vis2 comp k Hs C1 C2 L1 L2 Heq.
    pose proof (comp_step_inv g (reachable g) visit1 roots Hv1 (reachable_sym g Hsym) (reachable_trans g)
                  (fun r x H => H) Hroots (fun l1 r l2 V _ _ _ _ _ x H _ => H) l1 r l2 vis1 comp k Hs C1 L1) as S1.
    pose proof (comp_step_inv g (reachable g) visit2 roots Hv2 (reachable_sym g Hsym) (reachable_trans g)
                  (fun r x H => H) Hroots (fun l1 r l2 V _ _ _ _ _ x H _ => H) l1 r l2 vis2 comp k Hs C2 L2) as S2.
    unfold comp_step in *.
    assert (Hm : memb r vis1 = memb r vis2).
    { destruct (memb r vis1) eqn:H1; destruct (memb r vis2) eqn:H2; try reflexivity.
      - apply memb_In in H1. apply memb_false in H2. exfalso. apply H2. apply Heq. exact H1.
      - apply memb_In in H2. apply memb_false in H1. exfalso. apply H1. apply Heq. exact H2. }
    rewrite <- Hm in *. destruct (memb r vis1) eqn:Hm1.
    - destruct S1 as [S1 S1']. destruct S2 as [S2 S2'].
      split; [exact S1|]. split; [exact S2|]. split; [exact S1'|]. split; [exact S2'|].
      split; [exact Heq|]. split; reflexivity.
    - destruct S1 as [S1 S1']. destruct S2 as [S2 S2'].
      split; [exact S1|]. split; [exact S2|]. split; [exact S1'|]. split; [exact S2'|].
      apply memb_false in Hm1. assert (Hm2 : ~ In r vis2) by (intros H; apply Hm1; apply Heq; exact H).
      assert (Hr : r < length g).
      { rewrite Forall_forall in Hroots. apply Hroots. rewrite Hs. apply in_or_app. right. left. reflexivity. }
      destruct C1 as [A1 [A2 [A3 [A4 _]]]]. destruct C2 as [B1 [B2 [B3 [B4 _]]]].
      pose proof (visit_spec_reach g visit1 Hv1 r vis1 Hr Hm1 A1 A2 A3) as R1.
      pose proof (visit_spec_reach g visit2 Hv2 r vis2 Hr Hm2 B1 B2 B3) as R2.
      assert (Heq' : forall x, In x (visit1 r vis1) <-> In x (visit2 r vis2)).
      { intros x. rewrite R1, R2, Heq. reflexivity. }
      split; [exact Heq'|]. split; [|reflexivity].
      destruct (Hv1 r vis1 Hr Hm1 A1 A2 A3) as [N1 [_ [[nw1 E1] _]]].
      destruct (Hv2 r vis2 Hr Hm2 B1 B2 B3) as [N2 [_ [[nw2 E2] _]]].
      rewrite E1, E2 in *. rewrite !assign_new_app.
      apply (nth_ext _ _ 0 0); [rewrite !assign_length; reflexivity|].
      intros v Hv. rewrite assign_length in Hv. rewrite !assign_nth by exact Hv.
      assert (Hnw : memb v nw1 = memb v nw2).
      { assert (Hiff : In v nw1 <-> In v nw2).
        { split; intros Hin.
          - assert (H : In v (nw2 ++ vis2)) by (apply Heq'; apply in_or_app; left; exact Hin).
            apply in_app_or in H. destruct H as [H|H]; [exact H|].
            exfalso. apply (nodup_app_disj _ _ v N1 Hin). apply Heq. exact H.
          - assert (H : In v (nw1 ++ vis1)) by (apply Heq'; apply in_or_app; left; exact Hin).
            apply in_app_or in H. destruct H as [H|H]; [exact H|].
            exfalso. apply (nodup_app_disj _ _ v N2 Hin). apply Heq. exact H. }
        destruct (memb v nw1) eqn:H1; destruct (memb v nw2) eqn:H2; try reflexivity.
        - apply memb_In in H1. apply memb_false in H2. exfalso. apply H2. apply Hiff. exact H1.
        - apply memb_In in H2. apply memb_false in H1. exfalso. apply H1. apply Hiff. exact H2. }
      rewrite Hnw. reflexivity.
  Qed.

  Lemma two_fold : forall l2 l1 vis1 vis2 comp k,
    roots = l1 ++ l2 ->
    cinv' vis1 comp k -> cinv' vis2 comp k -> incl l1 vis1 -> incl l1 vis2 ->
    (forall x, In x vis1 <-> In x vis2) ->
    let '(_, comp1', k1') := fold_left (comp_step visit1) l2 (vis1, comp, k) in
    let '(_, comp2', k2') := fold_left (comp_step visit2) l2 (vis2, comp, k) in
    comp1' = comp2' /\ k1' = k2'.
  Proof.
    induction l2 as [|r l2 IH]; intros l1 vis1 vis2 comp k Hs C1 C2 L1 L2 Heq.
    - cbn. split; reflexivity.
    - cbn [fold_left].
      pose proof (two_step l1 r l2 vis1 vis2 comp k Hs C1 C2 L1 L2 Heq) as H.
      destruct (comp_step visit1 (vis1, comp, k) r) as [[vis1' comp1'] k1'].
      destruct (comp_step visit2 (vis2, comp, k) r) as [[vis2' comp2'] k2'].
      destruct H as [D1 [D2 [M1 [M2 [Heq' [Hc Hk]]]]]]. subst comp2' k2'.
      apply (IH (l1 ++ [r])); try assumption. rewrite <- app_assoc. exact Hs.
  Qed.
End TwoVisits.

Theorem symm_par_eq_seq : S_symm_par_eq_seq.
Proof.
  intros sched g Hs Hwf Hsym. unfold symm_par, symm_seq, comp_loop.
  assert (Hinit : cinv g (reachable g) [] (repeat 0 (length g)) 0).
  { split; [constructor|]. split; [constructor|]. split; [intros x y []|].
    split; [apply repeat_length|]. split; [intros u []|]. split; [intros c Hc; lia|].
    split; [intros u v []|intros u v []]. }
  pose proof (two_fold g Hsym (bfs_visit sched g) (dfs_visit g) (bfs_visit_spec sched g Hs Hwf)
                (dfs_visit_spec g Hwf) (seq 0 (length g)) (seq_all _) (seq 0 (length g)) []
                [] [] (repeat 0 (length g)) 0 eq_refl Hinit Hinit (incl_nil_l _) (incl_nil_l _)
                (fun x => iff_refl _)) as H.
  destruct (fold_left (comp_step (bfs_visit sched g)) (seq 0 (length g)) ([], repeat 0 (length g), 0)) as [[v1 c1] k1].
  destruct (fold_left (comp_step (dfs_visit g)) (seq 0 (length g)) ([], repeat 0 (length g), 0)) as [[v2 c2] k2].
  destruct H as [Hc Hk]. subst. reflexivity.
Qed.
