(** C16 — the Tarjan model's numbering satisfies the hypotheses of the directed SCC step. *)
From WG Require Import Base.Prelude Algo.Scc Algo.SccStatements Algo.SccFacts Algo.SccTarjan.
From Coq Require Import List Arith Bool Lia.
Import ListNotations.
From WG Require Algo.EssSpec Algo.EssStatements Algo.EssSpecFacts Algo.Ess
  Algo.EssMachineStatements Algo.EssScc Algo.EssSccStatements Algo.EssSccGraphFacts
  Algo.EssSccFacts Algo.EssSccTarjanStatements.
Local Open Scope nat_scope.

(** * Bridge 1: the boolean well-formedness implies the propositional one *)
Lemma wf_bridge : forall g : list (list nat),
  EssSpec.EssSpecM.wf_graph g = true -> SccM.wf_graph g.
Proof.
  intros g Hwf. unfold EssSpec.EssSpecM.wf_graph in Hwf. unfold SccM.wf_graph.
  rewrite forallb_forall in Hwf. apply Forall_forall. intros l Hl.
  pose proof (Hwf l Hl) as Hb. rewrite forallb_forall in Hb.
  apply Forall_forall. intros v Hv. apply Nat.ltb_lt. apply Hb. exact Hv.
Qed.

(** * Bridge 2: the two reachability relations coincide *)
Lemma walk_one : forall (g : list (list nat)) u w,
  In w (EssSpec.EssSpecM.succs g u) -> EssStatements.walk g u w 1.
Proof.
  intros g u w Hin. eapply EssStatements.walk_step; [apply EssStatements.walk_nil|exact Hin].
Qed.

Lemma reach_to_walk : forall (g : list (list nat)) u v,
  SccM.reachable g u v -> EssStatements.reachable g u v.
Proof.
  intros g u v Hr. induction Hr as [u|u w v Ha Hr IH].
  - exists 0. apply EssStatements.walk_nil.
  - destruct IH as [k Hk]. exists (1 + k).
    eapply EssSpecFacts.walk_app; [apply walk_one; exact Ha|exact Hk].
Qed.

Lemma reach_snoc : forall (g : list (list nat)) u w v,
  SccM.reachable g u w -> SccM.arc g w v -> SccM.reachable g u v.
Proof.
  intros g u w v Hr Ha. induction Hr as [x|x y z Hxy Hr IH].
  - eapply SccM.reach_step; [exact Ha|apply SccM.reach_refl].
  - eapply SccM.reach_step; [exact Hxy|apply IH; exact Ha].
Qed.

Lemma walk_to_reach : forall (g : list (list nat)) u v k,
  EssStatements.walk g u v k -> SccM.reachable g u v.
Proof.
  intros g u v k Hw. induction Hw as [|x y k Hw IH Hin].
  - apply SccM.reach_refl.
  - eapply reach_snoc; [exact IH|exact Hin].
Qed.

Lemma reach_bridge : forall (g : list (list nat)) u v,
  SccM.reachable g u v <-> EssStatements.reachable g u v.
Proof.
  intros g u v. split; [apply reach_to_walk|].
  intros [k Hk]. eapply walk_to_reach; exact Hk.
Qed.

(** * Parts (1) and (2): from [tarjan_correct] *)
Lemma tarjan_scc_ok_partial : forall g : list (list nat),
  EssSpec.EssSpecM.wf_graph g = true ->
  EssSccStatements.scc_ok g (fst (SccM.tarjan g)) (snd (SccM.tarjan g)) /\
  (forall c, c < snd (SccM.tarjan g) ->
     exists u, u < length g /\ nth u (fst (SccM.tarjan g)) 0 = c).
Proof.
  intros g Hwf. pose proof (tarjan_correct g (wf_bridge g Hwf)) as [Hlen [Hlt [Hsurj Hscc]]].
  split; [|exact Hsurj]. split; [exact Hlen|]. split; [exact Hlt|].
  intros u v Hu Hv. rewrite (Hscc u v Hu Hv). unfold SccM.same_scc.
  rewrite !reach_bridge. reflexivity.
Qed.

(** * Part (3): reverse topological numbering, from the global invariant *)
Lemma tarjan_topo : forall g : list (list nat),
  EssSpec.EssSpecM.wf_graph g = true ->
  EssSccStatements.topo_ok g (fst (SccM.tarjan g)).
Proof.
  intros g Hwfb. pose proof (wf_bridge g Hwfb) as Hwf.
  unfold SccM.tarjan. destruct (SccM.tarjan_run g) as [st brk] eqn:Hrun.
  unfold SccM.tarjan_run in Hrun. cbv zeta in Hrun.
  set (n := length g) in *.
  set (st_init := SccM.mkT (repeat false n) (repeat 0 n) [true] [] n 0 0) in Hrun.
  assert (HG0 : G g st_init (fun _ => 0) [] []).
  { unfold G, st_init.
    cbn [SccM.t_known SccM.t_high SccM.t_cstack SccM.t_index SccM.t_root_high SccM.t_noc].
    constructor; cbn [length map seq In]; try (intros; contradiction); try constructor; try lia.
    - apply repeat_length.
    - apply repeat_length.
    - intros [_ H]. rewrite nth_repeat in H. discriminate. }
  assert (Hl : SccM.t_lead st_init <> []) by discriminate.
  assert (Hr : forall r, In r (seq 0 n) -> r < n) by (intros r H; apply in_seq in H; lia).
  pose proof (roots_spec g Hwf (seq 0 n) st_init _ [] HG0 Hl Hr _ _ Hrun) as H.
  cbn [fst snd]. intros u v Hu Hin.
  assert (Hvn : v < n) by (eapply EssSpecFacts.succs_lt; eassumption).
  destruct brk.
  - destruct H as [Ppos Plen Pnoc Pall Phi]. fold n in Ppos, Plen, Pall, Phi.
    assert (H0 : forall x, x < n -> nth x (SccM.t_high st) 0 = 0).
    { intros x Hx. destruct (Phi x Hx) as [E|[[] _]]. exact E. }
    rewrite (H0 u Hu), (H0 v Hvn). lia.
  - destruct H as [ts' [vis' [HG [_ Hall]]]]. unfold G in HG.
    assert (Huv : In u vis') by (apply Hall, in_seq; lia).
    destruct (g_closed HG u v Huv (fun H => H) Hin) as [_ [_ Hle]]. exact Hle.
Qed.

Theorem tarjan_scc_topo : EssSccTarjanStatements.S_tarjan_scc_topo.
Proof.
  intros g Hwf. cbv zeta.
  destruct (tarjan_scc_ok_partial g Hwf) as [H1 H2].
  split; [exact H1|]. split; [exact H2|]. apply tarjan_topo. exact Hwf.
Qed.


Theorem machine_exact_tarjan : EssSccTarjanStatements.S_machine_exact_tarjan.
Proof.
  intros g gt radial ops l Hwf Hn. cbv zeta. intros Hl Hz.
  destruct (tarjan_scc_topo g Hwf) as [H1 [_ H3]].
  apply EssSccFacts.machine_exact_dir; assumption.
Qed.

Theorem tarjan_pivots_legal : EssSccTarjanStatements.S_tarjan_pivots_legal.
Proof.
  intros g use_tot tot x Hwf. cbv zeta.
  destruct (tarjan_scc_topo g Hwf) as [[Hlen _] [H2 _]].
  apply EssSccGraphFacts.best_pivots_dir_legal; assumption.
Qed.
