(** C16 — proofs about the component DAG of scc_graph.rs and the directed find_best_pivot. *)
From Coq Require Import List Arith Bool Lia.
Import ListNotations.
From WG Require Import Algo.EssSpec Algo.EssStatements Algo.EssSpecFacts Algo.Ess
  Algo.EssMachineStatements Algo.EssFacts Algo.EssScc Algo.EssSccStatements.

(** ---- [offer] ---- *)

Lemma offer_in : forall g gt t s e l x,
  In x (offer g gt t s e l) -> In x l \/ x = (t, (s, e)).
Proof.
  intros g gt t s e l. induction l as [|[t' [s' e']] r IH]; intros x Hx; simpl in Hx.
  - destruct Hx as [Hx|[]]. right. symmetry. exact Hx.
  - destruct (t' =? t) eqn:Et.
    + destruct (arc_value g gt s' e' <? arc_value g gt s e).
      * destruct Hx as [Hx|Hx]; [right; symmetry; exact Hx | left; right; exact Hx].
      * left. exact Hx.
    + destruct Hx as [Hx|Hx].
      * left. left. exact Hx.
      * destruct (IH x Hx) as [H|H]; [left; right; exact H | right; exact H].
Qed.

Lemma offer_targets : forall g gt t s e l x,
  x = t \/ In x (map fst l) -> In x (map fst (offer g gt t s e l)).
Proof.
  intros g gt t s e l. induction l as [|[t' [s' e']] r IH]; intros x Hx; simpl.
  - destruct Hx as [Hx|[]]. left. symmetry. exact Hx.
  - destruct (t' =? t) eqn:Et.
    + apply Nat.eqb_eq in Et. subst t'.
      destruct (arc_value g gt s' e' <? arc_value g gt s e); simpl.
      * destruct Hx as [Hx|[Hx|Hx]]; [left; symmetry; exact Hx | left; exact Hx | right; exact Hx].
      * destruct Hx as [Hx|[Hx|Hx]]; [left; symmetry; exact Hx | left; exact Hx | right; exact Hx].
    + simpl. destruct Hx as [Hx|[Hx|Hx]].
      * right. apply IH. left. exact Hx.
      * left. exact Hx.
      * right. apply IH. right. exact Hx.
Qed.

(** ---- [scan_node] ---- *)

Lemma scan_node_sound : forall g gt comp c v (Q : conn -> Prop) ws l,
  (forall cn, In cn l -> Q cn) ->
  (forall w, In w ws -> nth w comp 0 <> c -> Q (nth w comp 0, (v, w))) ->
  forall cn,
  In cn (fold_left (fun l w => let t := nth w comp 0 in if c =? t then l else offer g gt t v w l) ws l) ->
  Q cn.
Proof.
  intros g gt comp c v Q ws. induction ws as [|w ws IH]; intros l Hl Hw cn Hcn; simpl in Hcn.
  - apply Hl. exact Hcn.
  - revert Hcn. apply IH.
    + intros cn' Hcn'. destruct (c =? nth w comp 0) eqn:Ec.
      * apply Hl. exact Hcn'.
      * apply Nat.eqb_neq in Ec. apply offer_in in Hcn'. destruct Hcn' as [H|H].
        -- apply Hl. exact H.
        -- subst cn'. apply Hw. left. reflexivity. intro H. apply Ec. symmetry. exact H.
    + intros w' Hw'. apply Hw. right. exact Hw'.
Qed.

Lemma scan_node_keeps : forall g gt comp c v ws l x,
  In x (map fst l) ->
  In x (map fst (fold_left (fun l w => let t := nth w comp 0 in if c =? t then l else offer g gt t v w l) ws l)).
Proof.
  intros g gt comp c v ws. induction ws as [|w ws IH]; intros l x Hx; simpl.
  - exact Hx.
  - apply IH. destruct (c =? nth w comp 0).
    + exact Hx.
    + apply offer_targets. right. exact Hx.
Qed.

Lemma scan_node_adds : forall g gt comp c v ws l w,
  In w ws -> nth w comp 0 <> c ->
  In (nth w comp 0)
     (map fst (fold_left (fun l w => let t := nth w comp 0 in if c =? t then l else offer g gt t v w l) ws l)).
Proof.
  intros g gt comp c v ws. induction ws as [|w0 ws IH]; intros l w Hw Hne; simpl.
  - destruct Hw.
  - destruct Hw as [Hw|Hw].
    + subst w0. apply scan_node_keeps.
      destruct (c =? nth w comp 0) eqn:Ec.
      * apply Nat.eqb_eq in Ec. exfalso. apply Hne. symmetry. exact Ec.
      * apply offer_targets. left. reflexivity.
    + apply IH; assumption.
Qed.

(** ---- the outer fold ---- *)

Lemma conns_sound : forall g gt comp c (Q : conn -> Prop) vs l,
  (forall cn, In cn l -> Q cn) ->
  (forall v w, In v vs -> In w (succs g v) -> nth w comp 0 <> c -> Q (nth w comp 0, (v, w))) ->
  forall cn, In cn (fold_left (fun l v => scan_node g gt comp c v l) vs l) -> Q cn.
Proof.
  intros g gt comp c Q vs. induction vs as [|v vs IH]; intros l Hl Hv cn Hcn; simpl in Hcn.
  - apply Hl. exact Hcn.
  - revert Hcn. apply IH.
    + unfold scan_node. apply scan_node_sound.
      * exact Hl.
      * intros w Hw Hne. apply Hv; [left; reflexivity | exact Hw | exact Hne].
    + intros v' w Hv' Hw Hne. apply Hv; [right; exact Hv' | exact Hw | exact Hne].
Qed.

Lemma conns_keeps : forall g gt comp c vs l x,
  In x (map fst l) ->
  In x (map fst (fold_left (fun l v => scan_node g gt comp c v l) vs l)).
Proof.
  intros g gt comp c vs. induction vs as [|v vs IH]; intros l x Hx; simpl.
  - exact Hx.
  - apply IH. unfold scan_node. apply scan_node_keeps. exact Hx.
Qed.

Lemma conns_adds : forall g gt comp c vs l v w,
  In v vs -> In w (succs g v) -> nth w comp 0 <> c ->
  In (nth w comp 0) (map fst (fold_left (fun l v => scan_node g gt comp c v l) vs l)).
Proof.
  intros g gt comp c vs. induction vs as [|v0 vs IH]; intros l v w Hv Hw Hne; simpl.
  - destruct Hv.
  - destruct Hv as [Hv|Hv].
    + subst v0. apply conns_keeps. unfold scan_node. apply scan_node_adds; assumption.
    + apply IH with (v := v); assumption.
Qed.

Lemma nodes_of_in : forall comp c v,
  In v (nodes_of comp c) <-> v < length comp /\ nth v comp 0 = c.
Proof.
  intros comp c v. unfold nodes_of. rewrite filter_In, in_seq, Nat.eqb_eq. lia.
Qed.

Lemma in_map_fst_conn : forall (l : list conn) t,
  In t (map fst l) -> exists s e, In (t, (s, e)) l.
Proof.
  intros l t H. apply in_map_iff in H. destruct H as [[t' [s e]] [H1 H2]].
  simpl in H1. subst t'. exists s, e. exact H2.
Qed.

Theorem scc_graph_sound : S_scc_graph_sound.
Proof.
  unfold S_scc_graph_sound. intros g gt comp k c Hlen Hc.
  unfold scc_graph. rewrite (nth_map_seq (scc_conns g gt comp) k c [] Hc).
  unfold scc_conns. split.
  - intros t s e Hin.
    apply (conns_sound g gt comp c
             (fun cn => fst (snd cn) < length g /\ In (snd (snd cn)) (succs g (fst (snd cn))) /\
                        nth (fst (snd cn)) comp 0 = c /\ nth (snd (snd cn)) comp 0 = fst cn /\
                        fst cn <> c)
             (nodes_of comp c) []) in Hin.
    + simpl in Hin. exact Hin.
    + intros cn [].
    + intros v w Hv Hw Hne. apply nodes_of_in in Hv. destruct Hv as [Hv1 Hv2]. simpl.
      repeat split; try assumption. lia.
  - intros u v Hu Hv Hcu Hne. apply in_map_fst_conn.
    apply conns_adds with (v := u).
    + apply nodes_of_in. split; [lia | exact Hcu].
    + exact Hv.
    + exact Hne.
Qed.

(** ---- [find_best_pivot], directed ---- *)

Lemma fold_pick_from_some : forall bt l q,
  exists w, fold_left (pick bt) l (Some q) = Some w /\ (w = q \/ In w l).
Proof.
  intros bt l. induction l as [|a l IH]; intros q; simpl.
  - exists q. split; [reflexivity | left; reflexivity].
  - destruct (bt a q).
    + destruct (IH a) as [w [H1 H2]]. exists w. split; [exact H1|].
      right. destruct H2 as [H2|H2]; [left; symmetry; exact H2 | right; exact H2].
    + destruct (IH q) as [w [H1 H2]]. exists w. split; [exact H1|].
      destruct H2 as [H2|H2]; [left; exact H2 | right; right; exact H2].
Qed.

Lemma fold_pick_none : forall bt l, l <> [] ->
  exists w, fold_left (pick bt) l None = Some w /\ In w l.
Proof.
  intros bt l Hl. destruct l as [|a l]; [contradiction Hl; reflexivity|].
  simpl. destruct (fold_pick_from_some bt l a) as [w [H1 H2]].
  exists w. split; [exact H1|]. destruct H2 as [H2|H2]; [left; symmetry; exact H2 | right; exact H2].
Qed.

Theorem best_pivots_dir_legal : S_best_pivots_dir_legal.
Proof.
  unfold S_best_pivots_dir_legal, legal_pivots.
  intros g comp k use_tot tot x Hlen Hall. unfold best_pivots_dir. split.
  - apply tab_length.
  - intros c Hc. rewrite tab_nth by exact Hc.
    destruct (Hall c Hc) as [u [Hu1 Hu2]].
    assert (Hin : In u (filter (fun w => nth w comp 0 =? c) (rev (seq 0 (length g))))).
    { apply filter_In. split.
      - apply in_rev. rewrite rev_involutive. apply in_seq. lia.
      - apply Nat.eqb_eq. exact Hu2. }
    destruct (fold_pick_none
                (better_dir use_tot (tab (length g) (pivot_score false (length g) x)) tot)
                (filter (fun w => nth w comp 0 =? c) (rev (seq 0 (length g)))))
      as [w [H1 H2]].
    { intro He. rewrite He in Hin. destruct Hin. }
    rewrite H1. simpl. apply filter_In in H2. destruct H2 as [H2 H3].
    apply in_rev in H2. apply in_seq in H2. apply Nat.eqb_eq in H3. split; [lia | exact H3].
Qed.

