(** C16 — the DIRECTED branch of [all_cc_upper_bound]
    (algo/src/distances/exact_sum_sweep/mod.rs) and the graph of strongly connected
    components it walks (scc_graph.rs): [SccGraph::new] / [find_edges_through_scc] /
    [arc_value]; [find_best_pivot] (directed rule); [compute_dist_pivot] (forward and
    backward, filtered to the pivot's component); the two propagation loops over the
    component DAG; the per-node refinement with the radius update.

    As in Algo/Ess.v the results of breadth-first visits are taken from the specification's
    all-pairs matrix; the visits of [compute_dist_pivot] are FILTERED to the component of the
    pivot, so they are visits of the subgraph induced by that component: their distances are
    read from the matrix of [induced g comp] (same node numbering, only the arcs whose two
    ends carry the same component index).  The parallel per-node loop shares only the radius
    (value, vertex) under a lock with a strict comparison: the order in which it meets the
    nodes is the argument [order] of [OAll].  In the directed machine the list [piv] of
    [OAll piv order] is indexed by COMPONENT (as the array [pivot] of the code).
    Definitions only. *)
From Coq Require Import List Arith Bool Lia.
Import ListNotations.
From WG Require Import Algo.EssSpec Algo.Ess.

Module EssSccM.

(** ---- scc_graph.rs ---- *)

(** a connection of a component: (target component, (start node, end node)) *)
Definition conn := (nat * (nat * nat))%type.

(** [arc_value]: indegree of the start node (outdegree in the transpose) + outdegree of the
    end node *)
Definition arc_value (g gt : graph) (s e : nat) : nat :=
  length (succs gt s) + length (succs g e).

(** one arc s -> e into the component [t], offered to the connections gathered so far for the
    current component ([child_components] in push order with [best_start]/[best_end] of each
    child): a new child is appended with this arc; a known child changes its arc only when the
    value is STRICTLY larger (the first arc of maximum value, in scanning order, is kept) *)
Fixpoint offer (g gt : graph) (t s e : nat) (l : list conn) : list conn :=
  match l with
  | [] => [(t, (s, e))]
  | (t', (s', e')) :: r =>
    if t' =? t then
      (if arc_value g gt s' e' <? arc_value g gt s e then (t, (s, e)) else (t', (s', e'))) :: r
    else (t', (s', e')) :: offer g gt t s e r
  end.

(** [for succ in graph.successors(v)] for a node [v] of component [c] *)
Definition scan_node (g gt : graph) (comp : list nat) (c v : nat) (l : list conn) : list conn :=
  fold_left (fun l w => let t := nth w comp 0 in if c =? t then l else offer g gt t v w l)
            (succs g v) l.

(** the nodes of component [c] in increasing order ([vertices_in_scc[c]]) *)
Definition nodes_of (comp : list nat) (c : nat) : list nat :=
  filter (fun v => nth v comp 0 =? c) (seq 0 (length comp)).

Definition scc_conns (g gt : graph) (comp : list nat) (c : nat) : list conn :=
  fold_left (fun l v => scan_node g gt comp c v l) (nodes_of comp c) [].

(** [SccGraph::new]: [successors(c)] is the c-th list *)
Definition scc_graph (g gt : graph) (comp : list nat) (k : nat) : list (list conn) :=
  map (scc_conns g gt comp) (seq 0 k).

(** ---- [compute_dist_pivot] ---- *)

(** the subgraph induced by the components: the arcs whose ends have the same component *)
Definition induced (g : graph) (comp : list nat) : graph :=
  map (fun v => filter (fun w => nth w comp 0 =? nth v comp 0) (succs g v)) (seq 0 (length g)).

(** everything [all_cc_upper_bound] reads that does not change during a run: the components
    ([sccs::tarjan]), their number, the distances inside the components, the component DAG *)
Record sdata := mkSD {
  sd_comp : list nat; sd_k : nat;
  sd_dmi : list (list (option nat));
  sd_sg : list (list conn) }.

Definition mk_sdata (g gt : graph) (comp : list nat) (k : nat) : sdata :=
  mkSD comp k (dist_matrix (induced g comp)) (scc_graph g gt comp k).

(** the four arrays: distance from the pivot of its component to every node / from every
    node to the pivot of its component (0 for a node the filtered visit does not reach, the
    initial value of the array), and the eccentricities of the pivots inside their
    components (the distance of the last level of the filtered visit) *)
Definition dist_pivot_f (sd : sdata) (piv : list nat) (n : nat) : list nat :=
  tab n (fun v => odef (dget (sd_dmi sd) (nth (nth v (sd_comp sd) 0) piv 0) v)).
Definition dist_pivot_b (sd : sdata) (piv : list nat) (n : nat) : list nat :=
  tab n (fun v => odef (dget (sd_dmi sd) v (nth (nth v (sd_comp sd) 0) piv 0))).
Definition ecc_pivot_f0 (sd : sdata) (piv : list nat) : list nat :=
  tab (sd_k sd) (fun c => ecc_f_dm (sd_dmi sd) (nth c piv 0)).
Definition ecc_pivot_b0 (sd : sdata) (piv : list nat) : list nat :=
  tab (sd_k sd) (fun c => ecc_b_dm (sd_dmi sd) (nth c piv 0)).

(** ---- the propagation loops ---- *)
Definition conn_len (dpf dpb : list nat) (cn : conn) : nat :=
  nth (fst (snd cn)) dpf 0 + 1 + nth (snd (snd cn)) dpb 0.

(** [for connection in scc_graph.successors(c)] of the forward loop, with the clamp to
    forward_high[p] and the [break] *)
Fixpoint prop_f_conns (dpf dpb : list nat) (hi c : nat) (l : list conn) (ecc : list nat) : list nat :=
  match l with
  | [] => ecc
  | cn :: r =>
    let v := Nat.max (nth c ecc 0) (conn_len dpf dpb cn + nth (fst cn) ecc 0) in
    if hi <=? v then upd ecc c hi else prop_f_conns dpf dpb hi c r (upd ecc c v)
  end.

(** [for (c, &p) in pivot.iter().enumerate()] *)
Definition prop_f (sg : list (list conn)) (dpf dpb uFx piv : list nat) (ecc0 : list nat) : list nat :=
  fold_left (fun ecc c => prop_f_conns dpf dpb (nth (nth c piv 0) uFx 0) c (nth c sg []) ecc)
            (seq 0 (length piv)) ecc0.

(** one connection of the backward loop: the TARGET's value is raised and clamped to
    bw_high[pivot[next_c]]; no break *)
Definition prop_b_conn (dpf dpb uBx piv : list nat) (c : nat) (ecc : list nat) (cn : conn) : list nat :=
  let t := fst cn in
  let v := Nat.max (nth t ecc 0) (conn_len dpf dpb cn + nth c ecc 0) in
  let h := nth (nth t piv 0) uBx 0 in
  upd ecc t (if h <=? v then h else v).

(** [for c in (0..num_components).rev()] *)
Definition prop_b (sg : list (list conn)) (dpf dpb uBx piv : list nat) (k : nat) (ecc0 : list nat) : list nat :=
  fold_left (fun ecc c => fold_left (prop_b_conn dpf dpb uBx piv c) (nth c sg []) ecc)
            (rev (seq 0 k)) ecc0.

(** ---- the whole directed branch ---- *)
Definition ecc_pivot_f (sd : sdata) (piv : list nat) (n : nat) (x : st) : list nat :=
  prop_f (sd_sg sd) (dist_pivot_f sd piv n) (dist_pivot_b sd piv n) (uF x) piv (ecc_pivot_f0 sd piv).
Definition ecc_pivot_b (sd : sdata) (piv : list nat) (n : nat) (x : st) : list nat :=
  prop_b (sd_sg sd) (dist_pivot_f sd piv n) (dist_pivot_b sd piv n) (uB x) piv (sd_k sd) (ecc_pivot_b0 sd piv).

(** the candidate upper bounds of a node *)
Definition node_val_f (sd : sdata) (piv : list nat) (n : nat) (x : st) : nat -> nat :=
  let dpb := dist_pivot_b sd piv n in let ef := ecc_pivot_f sd piv n x in
  fun v => nth v dpb 0 + nth (nth v (sd_comp sd) 0) ef 0.
Definition node_val_b (sd : sdata) (piv : list nat) (n : nat) (x : st) : nat -> nat :=
  let dpf := dist_pivot_f sd piv n in let eb := ecc_pivot_b sd piv n x in
  fun v => nth v dpf 0 + nth (nth v (sd_comp sd) 0) eb 0.

(** the per-node loop: forward_high[v] = min(.., value), a radial vertex whose forward
    bounds (have) met competes for the radius in the order [order] (this is [allcc_visit] of
    the symmetric branch with the directed value), backward_high[v] = min(.., value) *)
Definition allcc_dir_step (n : nat) (sd : sdata) (radial : list bool) (piv order : list nat) (x : st) : st :=
  let pf := node_val_f sd piv n x in
  let pb := node_val_b sd piv n x in
  let r := fold_left (allcc_visit x radial pf) order (rU x, rv x) in
  mkSt (lF x) (tab n (fun v => Nat.min (pf v) (nth v (uF x) 0)))
       (lB x) (tab n (fun v => Nat.min (nth v (uB x) 0) (pb v)))
       (dL x) (dv x) (fst r) (snd r) (iters x + 3).

(** the directed machine with the SCC step: visits as in [step false] *)
Definition step_dir (dm : list (list (option nat))) (sd : sdata) (radial : list bool) (o : op) (x : st) : st :=
  match o with
  | OAll piv ord => allcc_dir_step (length dm) sd radial piv ord x
  | _ => step false dm radial o x
  end.

Definition run_ops_dir dm sd radial (ops : list op) (x : st) : st :=
  fold_left (fun y o => step_dir dm sd radial o y) ops x.

(** replay of a run: the operations, then the exit test and the outputs *)
Definition replay_dir (g gt : graph) (comp : list nat) (k : nat) (radial : list bool)
    (ops : list op) (l : level) : nat * ess_out :=
  let dm := dist_matrix g in
  let n := length g in
  let x := run_ops_dir dm (mk_sdata g gt comp k) radial ops (init_st n false) in
  (missing_nodes l (find_missing false n radial x), output false n radial x).

(** ---- [find_best_pivot], directed case: in every component the node minimising
    backward_low + forward_low + (n if forward-complete) + (n if backward-complete)
    ([pivot_score false]); the nodes are scanned from the last to the first and replaced on a
    strict improvement or, with [USE_TOT], on a tie with forward_tot + backward_tot not
    larger.  A forward visit from s adds d(s,v) to backward_tot[v] for the nodes v it
    reaches, a backward visit from s adds d(v,s) to forward_tot[v]: the totals are computed
    from the visits so far, (true, s) = forward visit from s ---- *)
Definition visit_pivots_dir (ops : list op) : list (bool * nat) :=
  flat_map (fun o => match o with OFwd s _ => [(true, s)] | OBwd s _ => [(false, s)] | OAll _ _ => [] end) ops.

Definition tot_dir (dm : list (list (option nat))) (n : nat) (vis : list (bool * nat)) : list nat :=
  tab n (fun v => list_sum (map (fun fs : bool * nat => odef (if fst fs then dget dm (snd fs) v else dget dm v (snd fs))) vis)).

Definition better_dir (use_tot : bool) (score tot : list nat) (w q : nat) : bool :=
  (nth w score 0 <? nth q score 0) ||
  (use_tot && (nth w score 0 =? nth q score 0) && (nth w tot 0 <=? nth q tot 0)).

Definition best_pivots_dir (use_tot : bool) (n : nat) (comp : list nat) (k : nat)
    (tot : list nat) (x : st) : list nat :=
  let score := tab n (pivot_score false n x) in
  tab k (fun c => odef (fold_left (pick (better_dir use_tot score tot))
                                  (filter (fun w => nth w comp 0 =? c) (rev (seq 0 n))) None)).

Definition resolve_dir (use_tot : bool) dm (n : nat) (sd : sdata) (vis : list (bool * nat)) (x : st) (l : lop) : op :=
  match l with
  | LO o => o
  | LA ord => OAll (best_pivots_dir use_tot n (sd_comp sd) (sd_k sd) (tot_dir dm n vis) x) ord
  end.

(** the main loop of [compute] on a logged run, as [loop_ops] *)
Fixpoint loop_ops_dir (use_tot : bool) dm (n : nat) (sd : sdata) radial (l : level) (ops : list lop)
    (vis : list (bool * nat)) (x : st) (c : counters) (ok : bool) : bool * (counters * st) :=
  match ops with
  | [] => (ok && (missing_nodes l (find_missing false n radial x) =? 0), (c, x))
  | o :: r =>
    let ok' := ok && negb (missing_nodes l (find_missing false n radial x) =? 0) in
    let o' := resolve_dir use_tot dm n sd vis x o in
    let x' := step_dir dm sd radial o' x in
    loop_ops_dir use_tot dm n sd radial l r (visit_pivots_dir [o'] ++ vis) x'
                 (upd_counters (find_missing false n radial x') (iters x') c) ok'
  end.

Definition run_logged_dir (use_tot : bool) (dm : list (list (option nat))) (n : nat) (sd : sdata)
    (radial : list bool) (heur : list op) (loop : list lop) (l : level)
    : bool * (counters * ess_out) :=
  let x0 := run_ops false dm radial heur (init_st n false) in
  let c0 := upd_counters (find_missing false n radial x0) (iters x0) (mkC None None None None) in
  match loop_ops_dir use_tot dm n sd radial l loop (visit_pivots_dir heur) x0 c0 true with
  | (ok, (c, x)) => (ok, (c, output false n radial x))
  end.

(** the number of SCC steps of a logged loop (statistics of the driver) *)
Definition count_la (loop : list lop) : nat :=
  length (filter (fun o => match o with LA _ => true | LO _ => false end) loop).

(** ---- observed runs (steps and pivots reported by a guarded call-out of the code) ---- *)

(** boolean form of [legal_pivots] (Algo/EssSccStatements.v): one pivot per component, a node
    of that component *)
Definition legal_pivotsb (n : nat) (comp : list nat) (k : nat) (piv : list nat) : bool :=
  (length piv =? k) &&
  forallb (fun c => (nth c piv 0 <? n) && (nth (nth c piv 0) comp 0 =? c)) (seq 0 k).

(** an observed directed run, as [run_observed_dm] *)
Definition run_observed_dir (dm : list (list (option nat))) (n : nat) (sd : sdata)
    (radial : list bool) (ops : list op) (l : level) : bool * (counters * ess_out) :=
  let h := split_heur false dm n radial ops in
  run_logged_dir false dm n sd radial (firstn h ops) (map LO (skipn h ops)) l.

(** information: the pivots the model of [find_best_pivot] would choose at every SCC step *)
Fixpoint model_pivots_dir (use_tot : bool) dm (n : nat) (sd : sdata) radial (ops : list op)
    (vis : list (bool * nat)) (x : st) : list (list nat) :=
  match ops with
  | [] => []
  | o :: r =>
    let rest := model_pivots_dir use_tot dm n sd radial r (visit_pivots_dir [o] ++ vis) (step_dir dm sd radial o x) in
    match o with
    | OAll _ _ => best_pivots_dir use_tot n (sd_comp sd) (sd_k sd) (tot_dir dm n vis) x :: rest
    | _ => rest
    end
  end.

End EssSccM.
Export EssSccM.
