(** C16a — pinned statements: a connected component on m nodes has radius <= m/2, hence the
    initial value n/2 + 1 of the radius bound of [run_symm] (new_symm / _new in
    algo/src/distances/exact_sum_sweep/mod.rs) is sound for every radial set that contains a
    whole connected component -- in particular for the default radial set, the nodes of a
    largest connected component ([compute_radial_vertices]: a visit from a node of the first
    largest component, i.e. [radial_of dm c] for a [c] of [largest_scc_nodes dm]).
    Statements only. *)
From Coq Require Import List Arith Bool Lia.
Import ListNotations.
From WG Require Import Algo.EssSpec Algo.EssStatements Algo.Ess Algo.EssMachineStatements
  Algo.EssSymmStatements.

(** [radial] contains a whole connected component: a radial node [v0] all of whose reachable
    nodes are radial *)
Definition contains_component (g : graph) (radial : list bool) : Prop :=
  exists v0, v0 < length g /\ nth v0 radial false = true /\
    forall v, v < length g -> dget (dist_matrix g) v0 v <> None -> nth v radial false = true.

(** the structural hypothesis of the closed theorems: no radial node at all (the radius is
    then undefined and [run_symm] reports none), or a whole component *)
Definition radial_closed (g : graph) (radial : list bool) : Prop :=
  (forall v, v < length g -> nth v radial false = false) \/ contains_component g radial.

(** in a symmetric graph every node reaches a node whose eccentricity is at most half the
    size of its connected component (for a symmetric graph [scc_size] counts the connected
    component) *)
Definition S_component_center : Prop :=
  forall g v0, wf_graph g = true -> symmetric_graph g -> v0 < length g ->
  exists c, c < length g /\ dget (dist_matrix g) v0 c <> None /\
            2 * EF g c <= scc_size (dist_matrix g) v0.

(** radius over a radial set containing the whole component of [v0] <= half the size of that
    component *)
Definition S_component_radius_half_size : Prop :=
  forall g radial v0 r, wf_graph g = true -> symmetric_graph g ->
  v0 < length g -> nth v0 radial false = true ->
  (forall v, v < length g -> dget (dist_matrix g) v0 v <> None -> nth v radial false = true) ->
  radius_from (eccs_f (dist_matrix g)) radial = Some r ->
  r <= scc_size (dist_matrix g) v0 / 2.

(** ... hence <= n/2 *)
Definition S_component_radius_half : Prop :=
  forall g radial r, wf_graph g = true -> symmetric_graph g ->
  contains_component g radial ->
  radius_from (eccs_f (dist_matrix g)) radial = Some r ->
  r <= length g / 2.

(** the hypothesis of [S_symm_exit_exact] / [S_symm_machine_exact] follows from the
    structural one *)
Definition S_radial_closed_radius_half : Prop :=
  forall g radial, wf_graph g = true -> symmetric_graph g -> radial_closed g radial ->
  forall r, radius_from (eccs_f (dist_matrix g)) radial = Some r -> r <= length g / 2.

(** [S_symm_run_invariant], [S_symm_exit_exact], [S_symm_machine_exact] with the hypothesis
    "radius <= n/2" replaced by the structural hypothesis on [radial] *)
Definition S_symm_run_invariant_closed : Prop :=
  forall g radial ops, wf_graph g = true -> 0 < length g -> symmetric_graph g ->
  Forall (legal_op_sym g) ops ->
  radial_closed g radial ->
  inv_sym g radial (run_ops true (dist_matrix g) radial ops (init_st (length g) true)).

Definition S_symm_exit_exact_closed : Prop :=
  forall g radial l x, wf_graph g = true -> 0 < length g -> symmetric_graph g ->
  inv_sym g radial x ->
  radial_closed g radial ->
  missing_nodes l (find_missing true (length g) radial x) = 0 ->
  check_ess_dm (dist_matrix g) radial (output true (length g) radial x) l = true.

Definition S_symm_machine_exact_closed : Prop :=
  forall g radial ops l, wf_graph g = true -> 0 < length g -> symmetric_graph g ->
  Forall (legal_op_sym g) ops ->
  radial_closed g radial ->
  fst (replay true g radial ops l) = 0 ->
  check_ess g radial (snd (replay true g radial ops l)) l = true.

(** the default radial set of the symmetric case -- the nodes that reach [c], i.e. the
    connected component of [c] -- contains a whole component, for EVERY node [c] (largest
    component or not) *)
Definition S_symm_default_radial_closed : Prop :=
  forall g c, wf_graph g = true -> symmetric_graph g -> c < length g ->
  contains_component g (radial_of (dist_matrix g) c).

(** hence, for the default radial set, no side hypothesis at all *)
Definition S_symm_machine_exact_default : Prop :=
  forall g c ops l, wf_graph g = true -> symmetric_graph g -> c < length g ->
  Forall (legal_op_sym g) ops ->
  fst (replay true g (radial_of (dist_matrix g) c) ops l) = 0 ->
  check_ess g (radial_of (dist_matrix g) c)
            (snd (replay true g (radial_of (dist_matrix g) c) ops l)) l = true.

(** ... and when [c] designates a largest component, as in [compute_radial_vertices], the
    output is accepted by the default-radial checker used as the oracle of the harness *)
Definition S_symm_machine_exact_default_checker : Prop :=
  forall g c ops l, wf_graph g = true -> symmetric_graph g ->
  In c (largest_scc_nodes (dist_matrix g)) ->
  Forall (legal_op_sym g) ops ->
  fst (replay true g (radial_of (dist_matrix g) c) ops l) = 0 ->
  check_ess_default g (snd (replay true g (radial_of (dist_matrix g) c) ops l)) l = true.
