(** Proofs for C15: reachability closure, visits, the checker, the component loop,
    symm_seq / symm_par, Kosaraju's second phase, sort_by_size. *)
From WG Require Import Base.Prelude Algo.Scc Algo.SccStatements.
Local Open Scope nat_scope.

(** * Basics *)
Lemma memb_In : forall x l, memb x l = true <-> In x l.
Proof.
  intros x l. unfold memb. rewrite existsb_exists. split.
  - intros [y [Hy He]]. apply Nat.eqb_eq in He. subst. exact Hy.
  - intros H. exists x. split; [exact H|apply Nat.eqb_refl].
Qed.

Lemma memb_false : forall x l, memb x l = false <-> ~ In x l.
Proof.
  intros x l. destruct (memb x l) eqn:E.
  - apply memb_In in E. split; [discriminate|intro H; contradiction].
  - split; [intros _ H; apply memb_In in H; congruence|reflexivity].
Qed.

Lemma upd_length : forall A (l : list A) i x, length (upd l i x) = length l.
Proof. induction l as [|y l IH]; intros [|i] x; cbn; auto. Qed.

Lemma nth_upd : forall A (l : list A) i x j d,
  nth j (upd l i x) d = if (j =? i) && (i <? length l) then x else nth j l d.
Proof.
  induction l as [|y l IH]; intros i x j d.
  - cbn. destruct i, j; cbn; try reflexivity. rewrite andb_false_r. reflexivity.
  - destruct i as [|i], j as [|j]; cbn [upd nth length]; try reflexivity.
    rewrite IH. change (S j =? S i) with (j =? i).
    change (S i <? S (length l)) with (i <? length l). reflexivity.
Qed.

Lemma reachable_trans : forall g u v w, reachable g u v -> reachable g v w -> reachable g u w.
Proof.
  intros g u v w H. induction H as [u|u x v Ha Hr IH]; intro H2; [exact H2|].
  eapply reach_step; [exact Ha|apply IH; exact H2].
Qed.

Lemma reachable_step_r : forall g u v w, reachable g u v -> arc g v w -> reachable g u w.
Proof.
  intros g u v w H Ha. eapply reachable_trans; [exact H|].
  eapply reach_step; [exact Ha|apply reach_refl].
Qed.

Lemma reachable_sym : forall g, symmetric g -> forall u v, reachable g u v -> reachable g v u.
Proof.
  intros g Hs u v H. induction H as [u|u x v Ha Hr IH]; [apply reach_refl|].
  eapply reachable_step_r; [exact IH|apply Hs; exact Ha].
Qed.

Definition closed (g : graph) (V : list nat) : Prop := forall x y, In x V -> arc g x y -> In y V.

Lemma closed_reachable : forall g V, closed g V -> forall x y, reachable g x y -> In x V -> In y V.
Proof.
  intros g V Hc x y H. induction H as [u|u w v Ha Hr IH]; intro Hin; [exact Hin|].
  apply IH. eapply Hc; [exact Hin|exact Ha].
Qed.

Lemma wf_succs : forall g u v, wf_graph g -> arc g u v -> u < length g /\ v < length g.
Proof.
  intros g u v Hwf Ha. unfold arc, succs in Ha.
  destruct (Nat.lt_ge_cases u (length g)) as [Hlt|Hge].
  - split; [exact Hlt|]. unfold wf_graph in Hwf. rewrite Forall_forall in Hwf.
    specialize (Hwf (nth u g []) (nth_In g [] Hlt)). rewrite Forall_forall in Hwf. apply Hwf. exact Ha.
  - rewrite nth_overflow in Ha by exact Hge. destruct Ha.
Qed.

Lemma wf_graphb_spec : forall g, wf_graphb g = true <-> wf_graph g.
Proof.
  intros g. unfold wf_graphb, wf_graph. rewrite forallb_forall, Forall_forall.
  split; intros H l Hl; specialize (H l Hl).
  - rewrite forallb_forall in H. rewrite Forall_forall. intros v Hv. apply Nat.ltb_lt. apply H. exact Hv.
  - rewrite Forall_forall in H. rewrite forallb_forall. intros v Hv. apply Nat.ltb_lt. apply H. exact Hv.
Qed.

Lemma nodup_bound : forall n l, NoDup l -> Forall (fun v => v < n) l -> length l <= n.
Proof.
  intros n l Hnd Hf. rewrite <- (seq_length n 0). apply NoDup_incl_length; [exact Hnd|].
  intros x Hx. rewrite Forall_forall in Hf. apply in_seq. specialize (Hf x Hx). lia.
Qed.

(** * One level of the parallel visit *)
Lemma claim_spec : forall cand vis next next' vis',
  claim cand vis next = (next', vis') ->
  exists nw, vis' = nw ++ vis /\ next' = nw ++ next
    /\ (NoDup vis -> NoDup vis')
    /\ (forall x, In x nw <-> In x cand /\ ~ In x vis).
Proof.
  induction cand as [|v c IH]; intros vis next next' vis' H; cbn in H.
  - inversion H; subst. exists []. split; [reflexivity|]. split; [reflexivity|]. split; [auto|].
    intros x. cbn. tauto.
  - destruct (memb v vis) eqn:Hm.
    + apply memb_In in Hm. destruct (IH _ _ _ _ H) as [nw [H1 [H2 [H3 H4]]]].
      exists nw. split; [exact H1|]. split; [exact H2|]. split; [exact H3|].
      intros x. rewrite H4. cbn. split; [tauto|]. intros [[He|Hc] Hn]; [subst; contradiction|tauto].
    + apply memb_false in Hm. destruct (IH _ _ _ _ H) as [nw [H1 [H2 [H3 H4]]]].
      exists (nw ++ [v]). rewrite <- !app_assoc. cbn. split; [exact H1|]. split; [exact H2|]. split.
      * intros Hnd. apply H3. constructor; assumption.
      * intros x. rewrite in_app_iff, H4. cbn. split.
        -- intros [[Hc Hn]|[He|[]]]; [split; [right; exact Hc|tauto]|subst; split; [left; reflexivity|exact Hm]].
        -- intros [[He|Hc] Hn]; [right; left; exact He|].
           destruct (Nat.eq_dec v x) as [He|Hne]; [right; left; exact He|].
           left. split; [exact Hc|]. intros [He|Hin]; [contradiction|contradiction].
Qed.

(** * The breadth-first visit *)
Section Bfs.
  Variable sched : nat -> list nat -> list nat.
  Hypothesis sched_perm : forall i l, Permutation (sched i l) l.
  Variable g : graph.
  Hypothesis Hwf : wf_graph g.
  Variable V0 : list nat.
  Hypothesis V0closed : closed g V0.
  Variable root : nat.

  Definition bfs_inv (frontier vis : list nat) : Prop :=
    NoDup vis /\ Forall (fun v => v < length g) vis /\ incl frontier vis
    /\ (exists nw, vis = nw ++ V0)
    /\ (forall x, In x vis -> In x V0 \/ reachable g root x)
    /\ (forall x y, In x vis -> ~ In x frontier -> arc g x y -> In y vis).

  Lemma bfs_spec : forall fuel frontier vis,
    bfs_inv frontier vis ->
    (frontier = [] \/ fuel + length vis >= S (length g)) ->
    bfs_inv [] (bfs sched fuel g frontier vis) /\ incl vis (bfs sched fuel g frontier vis).
  Proof.
    induction fuel as [|f IH]; intros frontier vis Hinv Hfuel.
    - destruct Hinv as [Hnd [Hb Hrest]]. destruct Hfuel as [He|Hf].
      + subst. cbn. split; [split; [exact Hnd|split; [exact Hb|exact Hrest]]|apply incl_refl].
      + pose proof (nodup_bound _ _ Hnd Hb). lia.
    - destruct frontier as [|f0 fr].
      + cbn. split; [exact Hinv|apply incl_refl].
      + cbn [bfs]. set (frontier := f0 :: fr) in *.
        destruct (claim (sched (length vis) (flat_map (succs g) frontier)) vis []) as [next vis'] eqn:Hc.
        destruct (claim_spec _ _ _ _ _ Hc) as [nw [Hv' [Hn [Hndp Hnw]]]].
        rewrite app_nil_r in Hn. subst next.
        destruct Hinv as [Hnd [Hb [Hincl [[nw0 Hpre] [Hsound Hcl]]]]].
        assert (Hcand : forall x, In x (sched (length vis) (flat_map (succs g) frontier)) <->
                                  exists w, In w frontier /\ arc g w x).
        { intros x. split.
          - intros Hx. apply (Permutation_in _ (sched_perm _ _)) in Hx.
            apply in_flat_map in Hx. exact Hx.
          - intros Hx. apply (Permutation_in _ (Permutation_sym (sched_perm _ _))).
            apply in_flat_map. exact Hx. }
        assert (Hinv' : bfs_inv nw vis').
        { subst vis'. split; [apply Hndp; exact Hnd|]. split.
          - apply Forall_app. split; [|exact Hb]. apply Forall_forall. intros x Hx.
            apply Hnw in Hx. destruct Hx as [Hx _]. apply Hcand in Hx. destruct Hx as [w [Hw Ha]].
            apply (wf_succs _ _ _ Hwf Ha).
          - split; [intros x Hx; apply in_or_app; left; exact Hx|].
            split; [exists (nw ++ nw0); rewrite Hpre, app_assoc; reflexivity|]. split.
            + intros x Hx. apply in_app_or in Hx. destruct Hx as [Hx|Hx]; [|apply Hsound; exact Hx].
              apply Hnw in Hx. destruct Hx as [Hx Hnv]. apply Hcand in Hx. destruct Hx as [w [Hw Ha]].
              destruct (Hsound w (Hincl w Hw)) as [HV|Hr].
              * exfalso. apply Hnv. rewrite Hpre. apply in_or_app. right. eapply V0closed; [exact HV|exact Ha].
              * right. eapply reachable_step_r; [exact Hr|exact Ha].
            + intros x y Hx Hnf Ha. apply in_app_or in Hx. destruct Hx as [Hx|Hx]; [contradiction|].
              destruct (in_dec Nat.eq_dec x frontier) as [Hfr|Hnfr].
              * destruct (in_dec Nat.eq_dec y vis) as [Hy|Hy]; [apply in_or_app; right; exact Hy|].
                apply in_or_app. left. apply Hnw. split; [|exact Hy]. apply Hcand. exists x. split; assumption.
              * apply in_or_app. right. eapply Hcl; [exact Hx|exact Hnfr|exact Ha]. }
        assert (Hfuel' : nw = [] \/ f + length vis' >= S (length g)).
        { destruct nw as [|a nw']; [left; reflexivity|right].
          subst vis'. rewrite app_length. cbn [length].
          destruct Hfuel as [He|Hf]; [discriminate|]. lia. }
        destruct (IH nw vis' Hinv' Hfuel') as [H1 H2]. split; [exact H1|].
        intros x Hx. apply H2. subst vis'. apply in_or_app. right. exact Hx.
  Qed.
End Bfs.

(** what a visit from an unvisited root must do to a closed visited set *)
Definition visit_spec (g : graph) (visit : nat -> list nat -> list nat) : Prop :=
  forall r V, r < length g -> ~ In r V -> NoDup V -> Forall (fun v => v < length g) V -> closed g V ->
    let V' := visit r V in
    NoDup V' /\ Forall (fun v => v < length g) V' /\ (exists nw, V' = nw ++ V) /\ closed g V' /\ In r V'
    /\ (forall x, In x V' -> In x V \/ reachable g r x).

Lemma bfs_visit_spec : forall sched g, (forall i l, Permutation (sched i l) l) -> wf_graph g ->
  visit_spec g (bfs_visit sched g).
Proof.
  intros sched g Hs Hwf r V Hr HnV Hnd Hb Hcl. cbv zeta. unfold bfs_visit.
  assert (Hinv : bfs_inv g V r [r] (r :: V)).
  { split; [constructor; assumption|]. split; [constructor; assumption|].
    split; [intros x [Hx|[]]; left; exact Hx|]. split; [exists [r]; reflexivity|]. split.
    - intros x [Hx|Hx]; [right; subst; apply reach_refl|left; exact Hx].
    - intros x y [Hx|Hx] Hnf Ha; [exfalso; apply Hnf; left; exact Hx|].
      right. eapply Hcl; [exact Hx|exact Ha]. }
  destruct (bfs_spec sched Hs g Hwf V Hcl r (S (length g)) [r] (r :: V) Hinv) as [Hfin Hincl].
  { right. cbn [length]. lia. }
  destruct Hfin as [H1 [H2 [_ [H4 [H5 H6]]]]].
  split; [exact H1|]. split; [exact H2|]. split.
  - destruct H4 as [nw Hnw]. exact (ex_intro _ nw Hnw).
  - split; [intros x y Hx Ha; eapply H6; [exact Hx|intros []|exact Ha]|].
    split; [apply Hincl; left; reflexivity|exact H5].
Qed.

Lemma visit_spec_reach : forall g visit, visit_spec g visit ->
  forall r V, r < length g -> ~ In r V -> NoDup V -> Forall (fun v => v < length g) V -> closed g V ->
  forall x, In x (visit r V) <-> In x V \/ reachable g r x.
Proof.
  intros g visit Hv r V Hr HnV Hnd Hb Hcl x.
  destruct (Hv r V Hr HnV Hnd Hb Hcl) as [_ [_ [[nw Hnw] [Hc [Hin Hs]]]]]. split; [apply Hs|].
  intros [Hx|Hx]; [rewrite Hnw; apply in_or_app; right; exact Hx|].
  eapply closed_reachable; [exact Hc|exact Hx|exact Hin].
Qed.

Theorem reach_correct : S_reach_correct.
Proof.
  intros g u v Hwf Hu. unfold reach.
  rewrite (visit_spec_reach g _ (bfs_visit_spec id_sched g (fun _ l => Permutation_refl l) Hwf) u []
             Hu (fun H => H) (NoDup_nil _) (Forall_nil _)).
  - cbn. tauto.
  - intros x y [].
Qed.
