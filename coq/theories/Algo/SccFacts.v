(** Proofs for C15: reachability closure, visits, the checker, the component loop,
    symm_seq / symm_par, Kosaraju's second phase, sort_by_size. *)
From WG Require Import Base.Prelude Algo.Scc Algo.SccStatements.
Local Open Scope nat_scope.

(** * Basics *)
Lemma memb_In : forall x l, memb x l = true <-> In x l.
Proof.
  intros x l. unfold memb. rewrite existsb_exists. split.
  - intros [y [Hy He]]. apply Nat.eqb_eq in He. subst. exact Hy.
  - intros H. exists x. split; [exact H|apply Nat.eqb_refl].
Qed.

Lemma memb_false : forall x l, memb x l = false <-> ~ In x l.
Proof.
  intros x l. destruct (memb x l) eqn:E.
  - apply memb_In in E. split; [discriminate|intro H; contradiction].
  - split; [intros _ H; apply memb_In in H; congruence|reflexivity].
Qed.

Lemma upd_length : forall A (l : list A) i x, length (upd l i x) = length l.
Proof. induction l as [|y l IH]; intros [|i] x; cbn; auto. Qed.

Lemma nth_upd : forall A (l : list A) i x j d,
  nth j (upd l i x) d = if (j =? i) && (i <? length l) then x else nth j l d.
Proof.
  induction l as [|y l IH]; intros i x j d.
  - cbn. destruct i, j; cbn; try reflexivity. rewrite andb_false_r. reflexivity.
  - destruct i as [|i], j as [|j]; cbn [upd nth length]; try reflexivity.
    rewrite IH. change (S j =? S i) with (j =? i).
    change (S i <? S (length l)) with (i <? length l). reflexivity.
Qed.

Lemma reachable_trans : forall g u v w, reachable g u v -> reachable g v w -> reachable g u w.
Proof.
  intros g u v w H. induction H as [u|u x v Ha Hr IH]; intro H2; [exact H2|].
  eapply reach_step; [exact Ha|apply IH; exact H2].
Qed.

Lemma reachable_step_r : forall g u v w, reachable g u v -> arc g v w -> reachable g u w.
Proof.
  intros g u v w H Ha. eapply reachable_trans; [exact H|].
  eapply reach_step; [exact Ha|apply reach_refl].
Qed.

Lemma reachable_sym : forall g, symmetric g -> forall u v, reachable g u v -> reachable g v u.
Proof.
  intros g Hs u v H. induction H as [u|u x v Ha Hr IH]; [apply reach_refl|].
  eapply reachable_step_r; [exact IH|apply Hs; exact Ha].
Qed.

Definition closed (g : graph) (V : list nat) : Prop := forall x y, In x V -> arc g x y -> In y V.

Lemma closed_reachable : forall g V, closed g V -> forall x y, reachable g x y -> In x V -> In y V.
Proof.
  intros g V Hc x y H. induction H as [u|u w v Ha Hr IH]; intro Hin; [exact Hin|].
  apply IH. eapply Hc; [exact Hin|exact Ha].
Qed.

Lemma wf_succs : forall g u v, wf_graph g -> arc g u v -> u < length g /\ v < length g.
Proof.
  intros g u v Hwf Ha. unfold arc, succs in Ha.
  destruct (Nat.lt_ge_cases u (length g)) as [Hlt|Hge].
  - split; [exact Hlt|]. unfold wf_graph in Hwf. rewrite Forall_forall in Hwf.
    specialize (Hwf (nth u g []) (nth_In g [] Hlt)). rewrite Forall_forall in Hwf. apply Hwf. exact Ha.
  - rewrite nth_overflow in Ha by exact Hge. destruct Ha.
Qed.

Lemma wf_graphb_spec : forall g, wf_graphb g = true <-> wf_graph g.
Proof.
  intros g. unfold wf_graphb, wf_graph. rewrite forallb_forall, Forall_forall.
  split; intros H l Hl; specialize (H l Hl).
  - rewrite forallb_forall in H. rewrite Forall_forall. intros v Hv. apply Nat.ltb_lt. apply H. exact Hv.
  - rewrite Forall_forall in H. rewrite forallb_forall. intros v Hv. apply Nat.ltb_lt. apply H. exact Hv.
Qed.

Lemma nodup_bound : forall n l, NoDup l -> Forall (fun v => v < n) l -> length l <= n.
Proof.
  intros n l Hnd Hf. rewrite <- (seq_length n 0). apply NoDup_incl_length; [exact Hnd|].
  intros x Hx. rewrite Forall_forall in Hf. apply in_seq. specialize (Hf x Hx). lia.
Qed.

(** * One level of the parallel visit *)
Lemma claim_spec : forall cand vis next next' vis',
  claim cand vis next = (next', vis') ->
  exists nw, vis' = nw ++ vis /\ next' = nw ++ next
    /\ (NoDup vis -> NoDup vis')
    /\ (forall x, In x nw <-> In x cand /\ ~ In x vis).
Proof.
  induction cand as [|v c IH]; intros vis next next' vis' H; cbn in H.
  - inversion H; subst. exists []. split; [reflexivity|]. split; [reflexivity|]. split; [auto|].
    intros x. cbn. tauto.
  - destruct (memb v vis) eqn:Hm.
    + apply memb_In in Hm. destruct (IH _ _ _ _ H) as [nw [H1 [H2 [H3 H4]]]].
      exists nw. split; [exact H1|]. split; [exact H2|]. split; [exact H3|].
      intros x. rewrite H4. cbn. split; [tauto|]. intros [[He|Hc] Hn]; [subst; contradiction|tauto].
    + apply memb_false in Hm. destruct (IH _ _ _ _ H) as [nw [H1 [H2 [H3 H4]]]].
      exists (nw ++ [v]). rewrite <- !app_assoc. cbn. split; [exact H1|]. split; [exact H2|]. split.
      * intros Hnd. apply H3. constructor; assumption.
      * intros x. rewrite in_app_iff, H4. cbn. split.
        -- intros [[Hc Hn]|[He|[]]]; [split; [right; exact Hc|tauto]|subst; split; [left; reflexivity|exact Hm]].
        -- intros [[He|Hc] Hn]; [right; left; exact He|].
           destruct (Nat.eq_dec v x) as [He|Hne]; [right; left; exact He|].
           left. split; [exact Hc|]. intros [He|Hin]; [contradiction|contradiction].
Qed.

(** * The breadth-first visit *)
Section Bfs.
  Variable sched : nat -> list nat -> list nat.
  Hypothesis sched_perm : forall i l, Permutation (sched i l) l.
  Variable g : graph.
  Hypothesis Hwf : wf_graph g.
  Variable V0 : list nat.
  Hypothesis V0closed : closed g V0.
  Variable root : nat.

  Definition bfs_inv (frontier vis : list nat) : Prop :=
    NoDup vis /\ Forall (fun v => v < length g) vis /\ incl frontier vis
    /\ (exists nw, vis = nw ++ V0)
    /\ (forall x, In x vis -> In x V0 \/ reachable g root x)
    /\ (forall x y, In x vis -> ~ In x frontier -> arc g x y -> In y vis).

  Lemma bfs_spec : forall fuel frontier vis,
    bfs_inv frontier vis ->
    (frontier = [] \/ fuel + length vis >= S (length g)) ->
    bfs_inv [] (bfs sched fuel g frontier vis) /\ incl vis (bfs sched fuel g frontier vis).
  Proof.
    induction fuel as [|f IH]; intros frontier vis Hinv Hfuel.
    - destruct Hinv as [Hnd [Hb Hrest]]. destruct Hfuel as [He|Hf].
      + subst. cbn. split; [split; [exact Hnd|split; [exact Hb|exact Hrest]]|apply incl_refl].
      + pose proof (nodup_bound _ _ Hnd Hb). lia.
    - destruct frontier as [|f0 fr].
      + cbn. split; [exact Hinv|apply incl_refl].
      + cbn [bfs]. set (frontier := f0 :: fr) in *.
        destruct (claim (sched (length vis) (flat_map (succs g) frontier)) vis []) as [next vis'] eqn:Hc.
        destruct (claim_spec _ _ _ _ _ Hc) as [nw [Hv' [Hn [Hndp Hnw]]]].
        rewrite app_nil_r in Hn. subst next.
        destruct Hinv as [Hnd [Hb [Hincl [[nw0 Hpre] [Hsound Hcl]]]]].
        assert (Hcand : forall x, In x (sched (length vis) (flat_map (succs g) frontier)) <->
                                  exists w, In w frontier /\ arc g w x).
        { intros x. split.
          - intros Hx. apply (Permutation_in _ (sched_perm _ _)) in Hx.
            apply in_flat_map in Hx. exact Hx.
          - intros Hx. apply (Permutation_in _ (Permutation_sym (sched_perm _ _))).
            apply in_flat_map. exact Hx. }
        assert (Hinv' : bfs_inv nw vis').
        { subst vis'. split; [apply Hndp; exact Hnd|]. split.
          - apply Forall_app. split; [|exact Hb]. apply Forall_forall. intros x Hx.
            apply Hnw in Hx. destruct Hx as [Hx _]. apply Hcand in Hx. destruct Hx as [w [Hw Ha]].
            apply (wf_succs _ _ _ Hwf Ha).
          - split; [intros x Hx; apply in_or_app; left; exact Hx|].
            split; [exists (nw ++ nw0); rewrite Hpre, app_assoc; reflexivity|]. split.
            + intros x Hx. apply in_app_or in Hx. destruct Hx as [Hx|Hx]; [|apply Hsound; exact Hx].
              apply Hnw in Hx. destruct Hx as [Hx Hnv]. apply Hcand in Hx. destruct Hx as [w [Hw Ha]].
              destruct (Hsound w (Hincl w Hw)) as [HV|Hr].
              * exfalso. apply Hnv. rewrite Hpre. apply in_or_app. right. eapply V0closed; [exact HV|exact Ha].
              * right. eapply reachable_step_r; [exact Hr|exact Ha].
            + intros x y Hx Hnf Ha. apply in_app_or in Hx. destruct Hx as [Hx|Hx]; [contradiction|].
              destruct (in_dec Nat.eq_dec x frontier) as [Hfr|Hnfr].
              * destruct (in_dec Nat.eq_dec y vis) as [Hy|Hy]; [apply in_or_app; right; exact Hy|].
                apply in_or_app. left. apply Hnw. split; [|exact Hy]. apply Hcand. exists x. split; assumption.
              * apply in_or_app. right. eapply Hcl; [exact Hx|exact Hnfr|exact Ha]. }
        assert (Hfuel' : nw = [] \/ f + length vis' >= S (length g)).
        { destruct nw as [|a nw']; [left; reflexivity|right].
          subst vis'. rewrite app_length. cbn [length].
          destruct Hfuel as [He|Hf]; [discriminate|]. lia. }
        destruct (IH nw vis' Hinv' Hfuel') as [H1 H2]. split; [exact H1|].
        intros x Hx. apply H2. subst vis'. apply in_or_app. right. exact Hx.
  Qed.
End Bfs.

(** what a visit from an unvisited root must do to a closed visited set *)
Definition visit_spec (g : graph) (visit : nat -> list nat -> list nat) : Prop :=
  forall r V, r < length g -> ~ In r V -> NoDup V -> Forall (fun v => v < length g) V -> closed g V ->
    let V' := visit r V in
    NoDup V' /\ Forall (fun v => v < length g) V' /\ (exists nw, V' = nw ++ V) /\ closed g V' /\ In r V'
    /\ (forall x, In x V' -> In x V \/ reachable g r x).

Lemma bfs_visit_spec : forall sched g, (forall i l, Permutation (sched i l) l) -> wf_graph g ->
  visit_spec g (bfs_visit sched g).
Proof.
  intros sched g Hs Hwf r V Hr HnV Hnd Hb Hcl. cbv zeta. unfold bfs_visit.
  assert (Hinv : bfs_inv g V r [r] (r :: V)).
  { split; [constructor; assumption|]. split; [constructor; assumption|].
    split; [intros x [Hx|[]]; left; exact Hx|]. split; [exists [r]; reflexivity|]. split.
    - intros x [Hx|Hx]; [right; subst; apply reach_refl|left; exact Hx].
    - intros x y [Hx|Hx] Hnf Ha; [exfalso; apply Hnf; left; exact Hx|].
      right. eapply Hcl; [exact Hx|exact Ha]. }
  destruct (bfs_spec sched Hs g Hwf V Hcl r (S (length g)) [r] (r :: V) Hinv) as [Hfin Hincl].
  { right. cbn [length]. lia. }
  destruct Hfin as [H1 [H2 [_ [H4 [H5 H6]]]]].
  split; [exact H1|]. split; [exact H2|]. split.
  - destruct H4 as [nw Hnw]. exact (ex_intro _ nw Hnw).
  - split; [intros x y Hx Ha; eapply H6; [exact Hx|intros []|exact Ha]|].
    split; [apply Hincl; left; reflexivity|exact H5].
Qed.

Lemma visit_spec_reach : forall g visit, visit_spec g visit ->
  forall r V, r < length g -> ~ In r V -> NoDup V -> Forall (fun v => v < length g) V -> closed g V ->
  forall x, In x (visit r V) <-> In x V \/ reachable g r x.
Proof.
  intros g visit Hv r V Hr HnV Hnd Hb Hcl x.
  destruct (Hv r V Hr HnV Hnd Hb Hcl) as [_ [_ [[nw Hnw] [Hc [Hin Hs]]]]]. split; [apply Hs|].
  intros [Hx|Hx]; [rewrite Hnw; apply in_or_app; right; exact Hx|].
  eapply closed_reachable; [exact Hc|exact Hx|exact Hin].
Qed.

Theorem reach_correct : S_reach_correct.
Proof.
  intros g u v Hwf Hu. unfold reach.
  rewrite (visit_spec_reach g _ (bfs_visit_spec id_sched g (fun _ l => Permutation_refl l) Hwf) u []
             Hu (fun H => H) (NoDup_nil _) (Forall_nil _)).
  - cbn. tauto.
  - intros x y [].
Qed.

(** * The checker *)
Lemma forallb_seq : forall (f : nat -> bool) n,
  forallb f (seq 0 n) = true <-> forall u, u < n -> f u = true.
Proof.
  intros f n. rewrite forallb_forall. split.
  - intros H u Hu. apply H. apply in_seq. lia.
  - intros H u Hu. apply in_seq in Hu. apply H. lia.
Qed.

Lemma nth_map_seq : forall A (f : nat -> A) n u d, u < n -> nth u (map f (seq 0 n)) d = f u.
Proof.
  intros A f n u d Hu. rewrite (nth_indep _ d (f 0)) by (rewrite map_length, seq_length; lia).
  rewrite map_nth. rewrite seq_nth by lia. reflexivity.
Qed.

Lemma reach_table_nth : forall g u, u < length g -> nth u (reach_table g) [] = reach g u.
Proof. intros g u Hu. unfold reach_table. apply nth_map_seq. exact Hu. Qed.

Lemma pair_test_spec : forall g comp u v, wf_graph g -> u < length g -> v < length g ->
  Bool.eqb (nth u comp 0 =? nth v comp 0)
           (memb v (nth u (reach_table g) []) && memb u (nth v (reach_table g) [])) = true
  <-> (nth u comp 0 = nth v comp 0 <-> same_scc g u v).
Proof.
  intros g comp u v Hwf Hu Hv. rewrite !reach_table_nth by assumption.
  rewrite eqb_true_iff. unfold same_scc.
  rewrite <- (reach_correct g u v Hwf Hu), <- (reach_correct g v u Hwf Hv), <- !memb_In.
  rewrite <- (Nat.eqb_eq (nth u comp 0) (nth v comp 0)).
  destruct (nth u comp 0 =? nth v comp 0), (memb v (reach g u)), (memb u (reach g v)); cbn;
    intuition congruence.
Qed.

Theorem checker_sound_complete : S_checker_sound_complete.
Proof.
  intros g comp k. unfold check_scc, check_scc_tab, is_scc_partition.
  rewrite !andb_true_iff, wf_graphb_spec, Nat.eqb_eq, forallb_forall, !forallb_seq.
  split.
  - intros [[[[Hwf Hlen] Hlt] Hused] Hpairs]. split; [exact Hwf|]. split; [exact Hlen|]. split.
    + intros u Hu. apply Nat.ltb_lt. apply Hlt. apply nth_In. lia.
    + split.
      * intros c Hc. specialize (Hused c Hc). apply memb_In in Hused.
        destruct (In_nth _ _ 0 Hused) as [u [Hu He]]. exists u. split; [lia|exact He].
      * intros u v Hu Hv. specialize (Hpairs u Hu). rewrite forallb_seq in Hpairs.
        apply (pair_test_spec g comp u v Hwf Hu Hv). apply Hpairs. exact Hv.
  - intros [Hwf [Hlen [Hlt [Hused Hpairs]]]].
    split; [split; [split; [split; [exact Hwf|exact Hlen]|]|]|].
    + intros c Hc. destruct (In_nth _ _ 0 Hc) as [u [Hu He]]. subst c. apply Nat.ltb_lt. apply Hlt. lia.
    + intros c Hc. destruct (Hused c Hc) as [u [Hu He]]. apply memb_In. subst c. apply nth_In. lia.
    + intros u Hu. rewrite forallb_seq. intros v Hv.
      apply (pair_test_spec g comp u v Hwf Hu Hv). apply Hpairs; assumption.
Qed.

(** * The depth-first visit *)
Definition dfs_post (g : graph) (u : nat) (vis vis' : list nat) : Prop :=
  exists nw, vis' = nw ++ vis /\ NoDup vis' /\ Forall (fun v => v < length g) vis'
    /\ (forall x, In x nw -> reachable g u x)
    /\ (forall x y, In x nw \/ x = u -> arc g x y -> In y vis').

Lemma dfs_spec : forall g, wf_graph g -> forall fuel u vis post,
  NoDup vis -> Forall (fun v => v < length g) vis -> In u vis ->
  fuel + length vis >= S (length g) ->
  dfs_post g u vis (fst (dfs fuel g u (vis, post))).
Proof.
  intros g Hwf. induction fuel as [|f IH]; intros u vis post Hnd Hb Hu Hfuel.
  - pose proof (nodup_bound _ _ Hnd Hb). lia.
  - cbn [dfs fst].
    set (F := fun (st : dstate) (v : nat) =>
                if memb v (fst st) then st else dfs f g v (v :: fst st, snd st)).
    assert (Hfold : forall l st,
      (forall y, In y l -> arc g u y) ->
      NoDup (fst st) -> Forall (fun v => v < length g) (fst st) -> f + length (fst st) >= length g ->
      exists nw, fst (fold_left F l st) = nw ++ fst st /\ NoDup (fst (fold_left F l st))
        /\ Forall (fun v => v < length g) (fst (fold_left F l st))
        /\ (forall x, In x nw -> reachable g u x)
        /\ (forall x y, In x nw -> arc g x y -> In y (fst (fold_left F l st)))
        /\ (forall y, In y l -> In y (fst (fold_left F l st)))).
    { induction l as [|v l IHl]; intros st Harc Hnd1 Hb1 Hf1.
      - exists []. cbn. repeat split; try assumption; intros; contradiction.
      - cbn [fold_left].
        assert (Harc' : forall y, In y l -> arc g u y) by (intros y Hy; apply Harc; right; exact Hy).
        assert (Hst1 : exists nw1, fst (F st v) = nw1 ++ fst st /\ NoDup (fst (F st v))
                  /\ Forall (fun v => v < length g) (fst (F st v))
                  /\ (forall x, In x nw1 -> reachable g u x)
                  /\ (forall x y, In x nw1 -> arc g x y -> In y (fst (F st v)))
                  /\ In v (fst (F st v))).
        { unfold F. destruct (memb v (fst st)) eqn:Hm.
          - apply memb_In in Hm. exists []. cbn. repeat split; try assumption; intros; contradiction.
          - apply memb_false in Hm.
            assert (Hv : v < length g) by (apply (wf_succs g u v Hwf); apply Harc; left; reflexivity).
            destruct (IH v (v :: fst st) (snd st)) as [nw1 [H1 [H2 [H3 [H4 H5]]]]].
            + constructor; assumption.
            + constructor; assumption.
            + left; reflexivity.
            + cbn [length]. lia.
            + exists (nw1 ++ [v]). rewrite <- app_assoc. cbn [app]. split; [exact H1|].
              split; [exact H2|]. split; [exact H3|]. split.
              * intros x Hx. apply in_app_or in Hx.
                assert (Huv : arc g u v) by (apply Harc; left; reflexivity).
                destruct Hx as [Hx|[Hx|[]]].
                -- eapply reach_step; [exact Huv|apply H4; exact Hx].
                -- subst x. eapply reach_step; [exact Huv|apply reach_refl].
              * split.
                -- intros x y Hx Ha. apply in_app_or in Hx. destruct Hx as [Hx|[Hx|[]]].
                   ++ eapply H5; [left; exact Hx|exact Ha].
                   ++ eapply H5; [right; symmetry; exact Hx|exact Ha].
                -- rewrite H1. apply in_or_app. right. left. reflexivity. }
        destruct Hst1 as [nw1 [H1 [H2 [H3 [H4 [H5 H6]]]]]].
        destruct (IHl (F st v) Harc' H2 H3) as [nw2 [G1 [G2 [G3 [G4 [G5 G6]]]]]].
        { rewrite H1, app_length. lia. }
        exists (nw2 ++ nw1). rewrite G1, H1, app_assoc. split; [reflexivity|].
        rewrite G1 in G2, G3, G5, G6. rewrite H1 in G2, G3, G5, G6. rewrite app_assoc in G2, G3, G5, G6.
        split; [exact G2|]. split; [exact G3|]. split.
        + intros x Hx. apply in_app_or in Hx. destruct Hx as [Hx|Hx]; [apply G4|apply H4]; exact Hx.
        + split.
          * intros x y Hx Ha. apply in_app_or in Hx. destruct Hx as [Hx|Hx].
            -- eapply G5; [exact Hx|exact Ha].
            -- specialize (H5 x y Hx Ha). rewrite H1 in H5. rewrite <- app_assoc. apply in_or_app. right. exact H5.
          * intros y [Hy|Hy].
            -- subst y. rewrite H1 in H6. rewrite <- app_assoc. apply in_or_app. right. exact H6.
            -- apply G6. exact Hy. }
    destruct (Hfold (succs g u) (vis, post)) as [nw [G1 [G2 [G3 [G4 [G5 G6]]]]]].
    + intros y Hy. exact Hy.
    + exact Hnd.
    + exact Hb.
    + cbn [fst]. lia.
    + cbn [fst] in G1. exists nw. split; [exact G1|]. split; [exact G2|]. split; [exact G3|].
      split; [exact G4|]. intros x y [Hx|Hx] Ha.
      * eapply G5; [exact Hx|exact Ha].
      * subst x. apply G6. exact Ha.
Qed.

Lemma dfs_visit_spec : forall g, wf_graph g -> visit_spec g (dfs_visit g).
Proof.
  intros g Hwf r V Hr HnV Hnd Hb Hcl. cbv zeta. unfold dfs_visit.
  destruct (dfs_spec g Hwf (length g) r (r :: V) []) as [nw [H1 [H2 [H3 [H4 H5]]]]].
  - constructor; assumption.
  - constructor; assumption.
  - left; reflexivity.
  - cbn [length]. lia.
  - split; [exact H2|]. split; [exact H3|]. split.
    + exists (nw ++ [r]). rewrite <- app_assoc. exact H1.
    + split.
      * intros x y Hx Ha. rewrite H1 in Hx. apply in_app_or in Hx. destruct Hx as [Hx|[Hx|Hx]].
        -- eapply H5; [left; exact Hx|exact Ha].
        -- eapply H5; [right; symmetry; exact Hx|exact Ha].
        -- rewrite H1. apply in_or_app. right. right. eapply Hcl; [exact Hx|exact Ha].
      * split; [rewrite H1; apply in_or_app; right; left; reflexivity|].
        intros x Hx. rewrite H1 in Hx. apply in_app_or in Hx. destruct Hx as [Hx|[Hx|Hx]].
        -- right. apply H4. exact Hx.
        -- right. subst x. apply reach_refl.
        -- left. exact Hx.
Qed.

(** * The component loop *)
Lemma assign_length : forall nodes comp c, length (assign comp nodes c) = length comp.
Proof.
  unfold assign. induction nodes as [|a nodes IH]; intros comp c; cbn; [reflexivity|].
  rewrite IH. apply upd_length.
Qed.

Lemma assign_nth : forall nodes comp c v, v < length comp ->
  nth v (assign comp nodes c) 0 = if memb v nodes then c else nth v comp 0.
Proof.
  unfold assign. induction nodes as [|a nodes IH]; intros comp c v Hv; cbn [fold_left]; [reflexivity|].
  rewrite IH by (rewrite upd_length; exact Hv). rewrite nth_upd.
  unfold memb. cbn [existsb]. fold (memb v nodes).
  destruct (memb v nodes); [rewrite orb_true_r; reflexivity|]. rewrite orb_false_r.
  destruct (Nat.eqb_spec v a) as [He|Hne]; cbn [andb]; [|reflexivity].
  subst a. apply Nat.ltb_lt in Hv. rewrite Hv. reflexivity.
Qed.

Lemma assign_new_app : forall comp vis nw c, assign_new comp vis (nw ++ vis) c = assign comp nw c.
Proof.
  intros comp vis nw c. unfold assign_new. rewrite app_length.
  replace (length nw + length vis - length vis) with (length nw + 0) by lia.
  rewrite firstn_app_2. cbn. rewrite app_nil_r. reflexivity.
Qed.

Lemma nodup_app_disj : forall (a b : list nat) x, NoDup (a ++ b) -> In x a -> ~ In x b.
Proof.
  induction a as [|y a IH]; intros b x Hnd Hx; [destruct Hx|].
  cbn in Hnd. inversion Hnd as [|? ? Hny Hnd']; subst. destruct Hx as [Hx|Hx].
  - subst y. intro Hb. apply Hny. apply in_or_app. right. exact Hb.
  - apply IH; assumption.
Qed.

Section CompLoop.
  Variable gv : graph.
  Variable E : nat -> nat -> Prop.
  Variable visit : nat -> list nat -> list nat.
  Variable roots : list nat.
  Hypothesis Hvisit : visit_spec gv visit.
  Hypothesis Esym : forall u v, E u v -> E v u.
  Hypothesis Etrans : forall u v w, E u v -> E v w -> E u w.
  Hypothesis Hreach : forall r x, E r x -> reachable gv r x.
  Hypothesis Hroots : Forall (fun r => r < length gv) roots.
  Hypothesis Hcover : forall l1 r l2 V, roots = l1 ++ r :: l2 -> incl l1 V -> ~ In r V ->
    closed gv V -> (forall u v, In u V -> E u v -> In v V) ->
    forall x, reachable gv r x -> ~ In x V -> E r x.

  Definition cinv (vis comp : list nat) (k : nat) : Prop :=
    NoDup vis /\ Forall (fun v => v < length gv) vis /\ closed gv vis /\ length comp = length gv
    /\ (forall u, In u vis -> nth u comp 0 < k)
    /\ (forall c, c < k -> exists u, In u vis /\ nth u comp 0 = c)
    /\ (forall u v, In u vis -> In v vis -> (nth u comp 0 = nth v comp 0 <-> E u v))
    /\ (forall u v, In u vis -> E u v -> In v vis).

  Lemma comp_step_inv : forall l1 r l2 vis comp k,
    roots = l1 ++ r :: l2 -> cinv vis comp k -> incl l1 vis ->
    let '(vis', comp', k') := comp_step visit (vis, comp, k) r in
    cinv vis' comp' k' /\ incl (l1 ++ [r]) vis'.
  Proof.
    intros l1 r l2 vis comp k Hsplit Hinv Hl1. unfold comp_step.
    destruct (memb r vis) eqn:Hm.
    - apply memb_In in Hm. split; [exact Hinv|].
      intros x Hx. apply in_app_or in Hx. destruct Hx as [Hx|[Hx|[]]]; [apply Hl1; exact Hx|subst; exact Hm].
    - apply memb_false in Hm.
      destruct Hinv as [Hnd [Hb [Hcl [Hlen [Hlt [Hused [Heq Hcomplete]]]]]]].
      assert (Hr : r < length gv).
      { rewrite Forall_forall in Hroots. apply Hroots. rewrite Hsplit. apply in_or_app. right. left. reflexivity. }
      destruct (Hvisit r vis Hr Hm Hnd Hb Hcl) as [Hnd' [Hb' [[nw Hnw] [Hcl' [Hrin Hsound]]]]].
      rewrite Hnw in *. rewrite assign_new_app.
      assert (Hchar : forall x, In x nw <-> E r x).
      { intros x. split.
        - intros Hx. pose proof (nodup_app_disj _ _ _ Hnd' Hx) as Hnx.
          destruct (Hsound x (in_or_app _ _ _ (or_introl Hx))) as [Hv|Hre]; [contradiction|].
          eapply Hcover; eauto.
        - intros He. pose proof (closed_reachable _ _ Hcl' _ _ (Hreach _ _ He) Hrin) as Hx.
          apply in_app_or in Hx. destruct Hx as [Hx|Hx]; [exact Hx|].
          exfalso. apply Hm. eapply Hcomplete; [exact Hx|apply Esym; exact He]. }
      assert (Hrnw : In r nw).
      { apply in_app_or in Hrin. destruct Hrin as [H|H]; [exact H|contradiction]. }
      assert (Hcomp' : forall v, v < length gv ->
                nth v (assign comp nw k) 0 = if memb v nw then k else nth v comp 0).
      { intros v Hv. apply assign_nth. rewrite Hlen. exact Hv. }
      assert (Hbn : forall x, In x (nw ++ vis) -> x < length gv).
      { intros x Hx. rewrite Forall_forall in Hb'. apply Hb'. exact Hx. }
      assert (Hold : forall v, In v vis -> nth v (assign comp nw k) 0 = nth v comp 0).
      { intros v Hv. rewrite Hcomp' by (apply Hbn; apply in_or_app; right; exact Hv).
        destruct (memb v nw) eqn:Hmv; [|reflexivity]. apply memb_In in Hmv.
        exfalso. exact (nodup_app_disj _ _ _ Hnd' Hmv Hv). }
      assert (Hnew : forall v, In v nw -> nth v (assign comp nw k) 0 = k).
      { intros v Hv. rewrite Hcomp' by (apply Hbn; apply in_or_app; left; exact Hv).
        apply memb_In in Hv. rewrite Hv. reflexivity. }
      split.
      + split; [exact Hnd'|]. split; [exact Hb'|]. split; [exact Hcl'|].
        split; [rewrite assign_length; exact Hlen|]. split.
        * intros u Hu. apply in_app_or in Hu. destruct Hu as [Hu|Hu].
          -- rewrite Hnew by exact Hu. lia.
          -- rewrite Hold by exact Hu. specialize (Hlt u Hu). lia.
        * split.
          -- intros c Hc. destruct (Nat.eq_dec c k) as [He|Hne].
             ++ subst c. exists r. split; [apply in_or_app; left; exact Hrnw|apply Hnew; exact Hrnw].
             ++ destruct (Hused c) as [u [Hu He]]; [lia|]. exists u.
                split; [apply in_or_app; right; exact Hu|rewrite Hold by exact Hu; exact He].
          -- split.
             ++ intros u v Hu Hv. apply in_app_or in Hu. apply in_app_or in Hv.
                destruct Hu as [Hu|Hu], Hv as [Hv|Hv].
                ** rewrite (Hnew u Hu), (Hnew v Hv). split; [intros _|reflexivity].
                   eapply Etrans; [apply Esym; apply Hchar; exact Hu|apply Hchar; exact Hv].
                ** rewrite (Hnew u Hu), (Hold v Hv). specialize (Hlt v Hv). split; [lia|].
                   intros He. exfalso. apply (nodup_app_disj _ _ v Hnd'); [|exact Hv].
                   apply Hchar. eapply Etrans; [apply Hchar; exact Hu|exact He].
                ** rewrite (Hnew v Hv), (Hold u Hu). specialize (Hlt u Hu). split; [lia|].
                   intros He. exfalso. apply (nodup_app_disj _ _ u Hnd'); [|exact Hu].
                   apply Hchar. eapply Etrans; [apply Hchar; exact Hv|apply Esym; exact He].
                ** rewrite (Hold u Hu), (Hold v Hv). apply Heq; assumption.
             ++ intros u v Hu He. apply in_app_or in Hu. destruct Hu as [Hu|Hu].
                ** apply in_or_app. left. apply Hchar. eapply Etrans; [apply Hchar; exact Hu|exact He].
                ** apply in_or_app. right. eapply Hcomplete; [exact Hu|exact He].
      + intros x Hx. apply in_app_or in Hx. destruct Hx as [Hx|[Hx|[]]].
        * apply in_or_app. right. apply Hl1. exact Hx.
        * subst x. apply in_or_app. left. exact Hrnw.
  Qed.

  Lemma comp_fold_inv : forall l2 l1 vis comp k,
    roots = l1 ++ l2 -> cinv vis comp k -> incl l1 vis ->
    let '(vis', comp', k') := fold_left (comp_step visit) l2 (vis, comp, k) in
    cinv vis' comp' k' /\ incl roots vis'.
  Proof.
    induction l2 as [|r l2 IH]; intros l1 vis comp k Hsplit Hinv Hl1.
    - cbn. rewrite app_nil_r in Hsplit. subst l1. split; assumption.
    - cbn [fold_left].
      pose proof (comp_step_inv l1 r l2 vis comp k Hsplit Hinv Hl1) as Hstep.
      destruct (comp_step visit (vis, comp, k) r) as [[vis1 comp1] k1]. destruct Hstep as [Hinv1 Hl1'].
      apply (IH (l1 ++ [r])); [rewrite <- app_assoc; exact Hsplit|exact Hinv1|exact Hl1'].
  Qed.

  Lemma comp_loop_partition :
    (forall u, u < length gv -> In u roots) ->
    let r := comp_loop visit roots (length gv) in
    length (fst r) = length gv
    /\ (forall u, u < length gv -> nth u (fst r) 0 < snd r)
    /\ (forall c, c < snd r -> exists u, u < length gv /\ nth u (fst r) 0 = c)
    /\ (forall u v, u < length gv -> v < length gv -> (nth u (fst r) 0 = nth v (fst r) 0 <-> E u v)).
  Proof.
    intros Hall. cbv zeta. unfold comp_loop.
    pose proof (comp_fold_inv roots [] [] (repeat 0 (length gv)) 0 eq_refl) as H.
    destruct (fold_left (comp_step visit) roots ([], repeat 0 (length gv), 0)) as [[vis comp] k].
    destruct H as [[Hnd [Hb [Hcl [Hlen [Hlt [Hused [Heq Hcomplete]]]]]]] Hincl].
    - split; [constructor|]. split; [constructor|]. split; [intros x y []|].
      split; [apply repeat_length|]. split; [intros u []|]. split; [intros c Hc; lia|].
      split; [intros u v []|intros u v []].
    - intros x [].
    - cbn [fst snd]. split; [exact Hlen|].
      assert (Hin : forall u, u < length gv -> In u vis) by (intros u Hu; apply Hincl; apply Hall; exact Hu).
      split; [intros u Hu; apply Hlt; apply Hin; exact Hu|]. split.
      + intros c Hc. destruct (Hused c Hc) as [u [Hu He]]. exists u. split; [|exact He].
        rewrite Forall_forall in Hb. apply Hb. exact Hu.
      + intros u v Hu Hv. apply Heq; apply Hin; assumption.
  Qed.
End CompLoop.

(** * Connected components of symmetric graphs *)
Lemma seq_all : forall n, Forall (fun r => r < n) (seq 0 n).
Proof. intros n. apply Forall_forall. intros x Hx. apply in_seq in Hx. lia. Qed.

Lemma symm_loop : forall g visit, wf_graph g -> symmetric g -> visit_spec g visit ->
  let r := comp_loop visit (seq 0 (length g)) (length g) in
  is_cc_partition g (fst r) (snd r) /\ is_scc_partition g (fst r) (snd r).
Proof.
  intros g visit Hwf Hsym Hv. cbv zeta.
  pose proof (comp_loop_partition g (reachable g) visit (seq 0 (length g)) Hv
                (reachable_sym g Hsym) (reachable_trans g) (fun r x H => H) (seq_all _)
                (fun l1 r l2 V _ _ _ _ _ x H _ => H)) as H.
  cbv zeta in H. destruct H as [H1 [H2 [H3 H4]]].
  { intros u Hu. apply in_seq. lia. }
  split; [split; [exact H1|split; [exact H2|split; [exact H3|exact H4]]]|].
  split; [exact H1|]. split; [exact H2|]. split; [exact H3|].
  intros u v Hu Hv'. rewrite (H4 u v Hu Hv'). unfold same_scc. split.
  - intros H. split; [exact H|apply reachable_sym; assumption].
  - intros [H _]. exact H.
Qed.

Theorem symm_seq_correct : S_symm_seq.
Proof.
  intros g Hwf Hsym. unfold symm_seq. apply symm_loop; [exact Hwf|exact Hsym|].
  apply dfs_visit_spec. exact Hwf.
Qed.

Theorem symm_par_correct : S_symm_par.
Proof.
  intros sched g Hs Hwf Hsym. unfold symm_par. apply symm_loop; [exact Hwf|exact Hsym|].
  apply bfs_visit_spec; assumption.
Qed.

(** * Kosaraju's second phase *)
Lemma transpose_wf : forall g gt, wf_graph g -> is_transpose g gt -> wf_graph gt.
Proof.
  intros g gt Hwf [Hlen Ht]. unfold wf_graph. apply Forall_forall. intros l Hl.
  apply Forall_forall. intros u Hu. destruct (In_nth _ _ [] Hl) as [v [Hv He]].
  assert (Ha : arc gt v u) by (unfold arc, succs; rewrite He; exact Hu).
  apply Ht in Ha. rewrite Hlen. apply (wf_succs g u v Hwf Ha).
Qed.

Lemma transpose_reach : forall g gt, is_transpose g gt ->
  forall r x, reachable gt r x <-> reachable g x r.
Proof.
  intros g gt [_ Ht] r x. split; intro H.
  - induction H as [u|u w v Ha Hr IH]; [apply reach_refl|].
    eapply reachable_step_r; [exact IH|apply Ht; exact Ha].
  - induction H as [u|u w v Ha Hr IH]; [apply reach_refl|].
    eapply reachable_step_r; [exact IH|apply Ht; exact Ha].
Qed.

Lemma same_scc_sym : forall g u v, same_scc g u v -> same_scc g v u.
Proof. intros g u v [H1 H2]. split; assumption. Qed.

Lemma same_scc_trans : forall g u v w, same_scc g u v -> same_scc g v w -> same_scc g u w.
Proof. intros g u v w [H1 H2] [H3 H4]. split; eapply reachable_trans; eassumption. Qed.

Theorem kosaraju_phase2 : S_kosaraju_phase2.
Proof.
  intros g gt order Hwf Htr Hall Hfin. cbv zeta.
  pose proof (transpose_wf g gt Hwf Htr) as Hwft.
  assert (Hlen : length gt = length g) by (destruct Htr; assumption).
  rewrite <- Hlen.
  pose proof (comp_loop_partition gt (same_scc g) (dfs_visit gt) order (dfs_visit_spec gt Hwft)
                (same_scc_sym g) (same_scc_trans g)) as H.
  cbv zeta in H. rewrite Hlen in H. rewrite Hlen. unfold is_scc_partition. apply H; clear H.
  - intros r x [_ H]. apply (transpose_reach g gt Htr). exact H.
  - apply Forall_forall. intros r Hr. apply Hall. exact Hr.
  - intros l1 r l2 V Hsplit Hl1 HrV Hcl Hcomplete x Hre HxV.
    apply (transpose_reach g gt Htr) in Hre.
    destruct (Nat.eq_dec x r) as [He|Hne]; [subst; split; apply reach_refl|].
    assert (Hx : x < length g).
    { inversion Hre as [|? w ? Ha Hr']; subst; [contradiction|]. apply (wf_succs g x w Hwf Ha). }
    apply Hall in Hx. rewrite Hsplit in Hx. apply in_app_or in Hx.
    destruct Hx as [Hx|[Hx|Hx]]; [exfalso; apply HxV; apply Hl1; exact Hx|exfalso; apply Hne; symmetry; exact Hx|].
    destruct (Hfin l1 r l2 x Hsplit Hx Hre) as [Hrx|[y [Hy Hs]]].
    + split; assumption.
    + exfalso. apply HxV. eapply Hcomplete; [apply Hl1; exact Hy|exact Hs].
  - intros u Hu. apply Hall. exact Hu.
Qed.

(** * Renumbering by size *)
Lemma index_of_nth : forall x l, In x l -> index_of x l < length l /\ nth (index_of x l) l 0 = x.
Proof.
  induction l as [|y l IH]; intros Hx; [destruct Hx|]. cbn [index_of].
  destruct (Nat.eqb_spec x y) as [He|Hne].
  - subst. cbn. split; [lia|reflexivity].
  - destruct Hx as [Hx|Hx]; [exfalso; apply Hne; symmetry; exact Hx|].
    destruct (IH Hx) as [H1 H2]. cbn. split; [lia|exact H2].
Qed.

Lemma index_of_inj : forall x y l, In x l -> In y l -> index_of x l = index_of y l -> x = y.
Proof.
  intros x y l Hx Hy He. destruct (index_of_nth x l Hx) as [_ H1]. destruct (index_of_nth y l Hy) as [_ H2].
  rewrite <- H1, <- H2, He. reflexivity.
Qed.

Lemma nth_index_of : forall l i, NoDup l -> i < length l -> index_of (nth i l 0) l = i.
Proof.
  induction l as [|y l IH]; intros i Hnd Hi; [cbn in Hi; lia|].
  inversion Hnd as [|? ? Hny Hnd']; subst. destruct i as [|i]; cbn [nth index_of].
  - rewrite Nat.eqb_refl. reflexivity.
  - cbn in Hi. destruct (Nat.eqb_spec (nth i l 0) y) as [He|Hne].
    + exfalso. apply Hny. rewrite <- He. apply nth_In. lia.
    + rewrite IH by (assumption || lia). reflexivity.
Qed.

Lemma map_nth_seq_id : forall (l : list nat), map (fun c => nth c l 0) (seq 0 (length l)) = l.
Proof.
  intros l. apply (nth_ext _ _ 0 0).
  - rewrite map_length, seq_length. reflexivity.
  - intros i Hi. rewrite map_length, seq_length in Hi. rewrite nth_map_seq by exact Hi. reflexivity.
Qed.

Lemma sorted_leb_ge : forall l, Sorted (fun x y => is_true (y <=? x)) l -> Sorted ge l.
Proof.
  induction l as [|a l IH]; intros H; [constructor|].
  inversion H as [|? ? Hs Hh]; subst. constructor; [apply IH; exact Hs|].
  inversion Hh as [|b l' Hb]; subst; constructor. apply Nat.leb_le in Hb. unfold ge. exact Hb.
Qed.

Lemma sorted_ge_unique : forall l1 l2, Sorted ge l1 -> Sorted ge l2 -> Permutation l1 l2 -> l1 = l2.
Proof.
  assert (Htr : Relations_1.Transitive ge) by (intros x y z H1 H2; unfold ge in *; lia).
  induction l1 as [|a l1 IH]; intros l2 H1 H2 Hp.
  - apply Permutation_nil in Hp. subst. reflexivity.
  - destruct l2 as [|b l2]; [apply Permutation_sym in Hp; apply Permutation_nil in Hp; discriminate|].
    apply (Sorted_StronglySorted Htr) in H1. apply (Sorted_StronglySorted Htr) in H2.
    apply StronglySorted_inv in H1. apply StronglySorted_inv in H2.
    destruct H1 as [H1 Ha]. destruct H2 as [H2 Hb]. rewrite Forall_forall in Ha, Hb.
    assert (Hab : a = b).
    { assert (Hin1 : In a (b :: l2)) by (apply (Permutation_in _ Hp); left; reflexivity).
      assert (Hin2 : In b (a :: l1)) by (apply (Permutation_in _ (Permutation_sym Hp)); left; reflexivity).
      destruct Hin1 as [He|Hin1]; [symmetry; exact He|]. destruct Hin2 as [He|Hin2]; [exact He|].
      specialize (Ha b Hin2). specialize (Hb a Hin1). unfold ge in *. lia. }
    subst b. f_equal. apply IH.
    + apply StronglySorted_Sorted. exact H1.
    + apply StronglySorted_Sorted. exact H2.
    + eapply Permutation_cons_inv. exact Hp.
Qed.

Lemma count_occ_renumber : forall perm k comp i,
  NoDup perm -> length perm = k -> (forall c, In c perm <-> c < k) ->
  Forall (fun c => c < k) comp -> i < k ->
  count_occ Nat.eq_dec (map (fun c => index_of c perm) comp) i = count_occ Nat.eq_dec comp (nth i perm 0).
Proof.
  intros perm k comp i Hnd Hlen Hin Hf Hi. induction comp as [|c comp IH]; [reflexivity|].
  inversion Hf as [|? ? Hc Hf']; subst. cbn [map]. specialize (IH Hf').
  destruct (Nat.eq_dec (index_of c perm) i) as [He|Hne].
  - rewrite count_occ_cons_eq by exact He.
    destruct (index_of_nth c perm (proj2 (Hin c) Hc)) as [_ H]. rewrite He in H.
    rewrite (count_occ_cons_eq _ _ (eq_sym H)). rewrite IH. reflexivity.
  - rewrite count_occ_cons_neq by exact Hne. rewrite count_occ_cons_neq; [exact IH|].
    intros He. apply Hne. rewrite He. apply nth_index_of; [exact Hnd|lia].
Qed.

Theorem sort_by_size_correct : S_sort_by_size.
Proof.
  intros comp k perm Hf [Hperm Hsorted]. cbv zeta. unfold sort_by_size. cbn [fst snd].
  assert (Hk : length (compute_sizes comp k) = k) by (unfold compute_sizes; rewrite map_length, seq_length; reflexivity).
  rewrite Hk in Hperm.
  assert (Hnd : NoDup perm) by (eapply Permutation_NoDup; [apply Permutation_sym; exact Hperm|apply seq_NoDup]).
  assert (Hlen : length perm = k) by (rewrite (Permutation_length Hperm); apply seq_length).
  assert (Hin : forall c, In c perm <-> c < k).
  { intros c. split; intro H.
    - apply (Permutation_in _ Hperm) in H. apply in_seq in H. lia.
    - apply (Permutation_in _ (Permutation_sym Hperm)). apply in_seq. lia. }
  assert (Hnth : forall u, u < length comp ->
            nth u (renumber perm comp) 0 = index_of (nth u comp 0) perm).
  { intros u Hu. unfold renumber.
    rewrite (nth_indep _ 0 (index_of 0 perm)) by (rewrite map_length; exact Hu).
    apply (map_nth (fun c => index_of c perm)). }
  assert (Hc : forall u, u < length comp -> nth u comp 0 < k).
  { intros u Hu. rewrite Forall_forall in Hf. apply Hf. apply nth_In. exact Hu. }
  assert (Hpart : forall u v, u < length comp -> v < length comp ->
            (nth u (renumber perm comp) 0 = nth v (renumber perm comp) 0 <-> nth u comp 0 = nth v comp 0)).
  { intros u v Hu Hv. rewrite !Hnth by assumption. split; [|intros He; rewrite He; reflexivity].
    apply index_of_inj; apply Hin; apply Hc; assumption. }
  assert (Hf' : Forall (fun c => c < k) (renumber perm comp)).
  { unfold renumber. apply Forall_forall. intros c Hcin. apply in_map_iff in Hcin.
    destruct Hcin as [c0 [He Hc0]]. subst c. rewrite <- Hlen. apply index_of_nth. apply Hin.
    rewrite Forall_forall in Hf. apply Hf. exact Hc0. }
  assert (Hsizes : compute_sizes (renumber perm comp) k = map (fun c => nth c (compute_sizes comp k) 0) perm).
  { apply (nth_ext _ _ 0 0).
    - unfold compute_sizes. rewrite !map_length, seq_length, Hlen. reflexivity.
    - intros i Hi. unfold compute_sizes in Hi. rewrite map_length, seq_length in Hi. unfold compute_sizes at 1. rewrite nth_map_seq by exact Hi.
      rewrite (nth_indep _ 0 (nth 0 (compute_sizes comp k) 0)) by (rewrite map_length; lia).
      rewrite (map_nth (fun c => nth c (compute_sizes comp k) 0)).
      unfold compute_sizes. rewrite nth_map_seq.
      + unfold renumber. apply (count_occ_renumber perm k); assumption.
      + apply Hin. apply nth_In. lia. }
  assert (Hsort : NatDescSort.sort (compute_sizes comp k) = compute_sizes (renumber perm comp) k).
  { apply sorted_ge_unique.
    - apply sorted_leb_ge. apply NatDescSort.Sorted_sort.
    - rewrite Hsizes. exact Hsorted.
    - eapply Permutation_trans; [apply Permutation_sym; apply NatDescSort.Permuted_sort|].
      rewrite Hsizes. pose proof (map_nth_seq_id (compute_sizes comp k)) as Hid. rewrite Hk in Hid.
      apply (Permutation_trans (l' := map (fun c => nth c (compute_sizes comp k) 0) (seq 0 k))).
      + rewrite Hid. apply Permutation_refl.
      + apply Permutation_map. apply Permutation_sym. exact Hperm. }
  split; [unfold renumber; apply map_length|]. split; [exact Hpart|]. split; [exact Hf'|].
  split; [exact Hsort|]. split; [rewrite Hsort, Hsizes; exact Hsorted|].
  intros g [G1 [G2 [G3 G4]]]. split; [unfold renumber; rewrite map_length; exact G1|].
  split.
  - intros u Hu. rewrite Forall_forall in Hf'. apply Hf'. apply nth_In. unfold renumber. rewrite map_length. lia.
  - split.
    + intros c Hcl. destruct (G3 (nth c perm 0)) as [u [Hu He]]; [apply Hin; apply nth_In; lia|].
      exists u. split; [exact Hu|]. rewrite Hnth by lia. rewrite He. apply nth_index_of; [exact Hnd|lia].
    + intros u v Hu Hv. rewrite Hpart by lia. apply G4; assumption.
Qed.

Lemma non_increasing_sorted : forall l, non_increasing l = true -> Sorted ge l.
Proof.
  induction l as [|x l IH]; intros H; [constructor|].
  cbn [non_increasing] in H. destruct l as [|y l']; [constructor; constructor|].
  apply andb_true_iff in H. destruct H as [H1 H2]. constructor; [apply IH; exact H2|].
  constructor. apply Nat.leb_le in H1. unfold ge. exact H1.
Qed.

Theorem sorts_by_sizeb_sound : S_sorts_by_sizeb_sound.
Proof.
  intros sizes perm H. unfold sorts_by_sizeb in H. rewrite !andb_true_iff in H.
  destruct H as [[Hlen Hall] Hs]. apply Nat.eqb_eq in Hlen. rewrite forallb_forall in Hall.
  split; [|apply non_increasing_sorted; exact Hs].
  apply Permutation_sym. apply NoDup_Permutation_bis.
  - apply seq_NoDup.
  - rewrite seq_length. lia.
  - intros c Hc. apply memb_In. apply Hall. exact Hc.
Qed.

(** * The finishing-order test *)
Lemma finish_orderedb_aux_sound : forall g, wf_graph g -> forall order l0,
  Forall (fun u => u < length g) l0 -> Forall (fun u => u < length g) order ->
  finish_orderedb_aux (reach_table g) l0 order = true ->
  forall l1 r l2 x, order = l1 ++ r :: l2 -> In x l2 -> reachable g x r ->
    reachable g r x \/ exists y, In y (l0 ++ l1) /\ same_scc g y x.
Proof.
  intros g Hwf. induction order as [|a order IH]; intros l0 Hl0 Hord Hb l1 r l2 x Hsplit Hx Hre.
  - destruct l1; discriminate.
  - cbn [finish_orderedb_aux] in Hb. apply andb_true_iff in Hb. destruct Hb as [Hb1 Hb2].
    inversion Hord as [|? ? Ha Hord']; subst.
    destruct l1 as [|b l1].
    + cbn in Hsplit. inversion Hsplit; subst. rewrite forallb_forall in Hb1. specialize (Hb1 x Hx).
      rewrite Forall_forall in Hord'. pose proof (Hord' x Hx) as Hxn.
      rewrite !reach_table_nth in Hb1 by assumption.
      rewrite !orb_true_iff in Hb1. destruct Hb1 as [[Hb1|Hb1]|Hb1].
      * apply negb_true_iff in Hb1. apply memb_false in Hb1. exfalso. apply Hb1.
        apply (reach_correct g x r Hwf Hxn). exact Hre.
      * left. apply memb_In in Hb1. apply (reach_correct g r x Hwf Ha). exact Hb1.
      * right. apply existsb_exists in Hb1. destruct Hb1 as [y [Hy Hb1]].
        rewrite Forall_forall in Hl0. pose proof (Hl0 y Hy) as Hyn.
        rewrite reach_table_nth in Hb1 by assumption.
        apply andb_true_iff in Hb1. destruct Hb1 as [H1 H2]. apply memb_In in H1, H2.
        exists y. split; [rewrite app_nil_r; exact Hy|]. split.
        -- apply (reach_correct g y x Hwf Hyn). exact H1.
        -- apply (reach_correct g x y Hwf Hxn). exact H2.
    + cbn in Hsplit. inversion Hsplit; subst.
      destruct (IH (l0 ++ [b])) with (l1 := l1) (r := r) (l2 := l2) (x := x) as [H|[y [Hy Hs]]]; try assumption; try reflexivity.
      * apply Forall_app. split; [exact Hl0|constructor; [exact Ha|constructor]].
      * left. exact H.
      * right. exists y. split; [|exact Hs]. rewrite <- app_assoc in Hy. exact Hy.
Qed.

Theorem finish_orderedb_sound : S_finish_orderedb_sound.
Proof.
  intros g order Hwf Hord Hb l1 r l2 x Hsplit Hx Hre.
  apply (finish_orderedb_aux_sound g Hwf order [] (Forall_nil _) Hord Hb l1 r l2 x Hsplit Hx Hre).
Qed.

(** * Bounded exhaustive instances *)
Lemma pairb_sound : forall f g, pairb f g = true -> is_scc_partition g (fst (f g)) (snd (f g)).
Proof.
  intros f g H. unfold pairb in H. destruct (f g) as [comp k]. apply checker_sound_complete in H. apply H.
Qed.

Lemma upto4 : forall (P : nat -> Prop), P 0 -> P 1 -> P 2 -> P 3 -> P 4 -> forall n, n <= 4 -> P n.
Proof.
  intros P H0 H1 H2 H3 H4 n Hn.
  destruct n as [|[|[|[|[|n]]]]]; try assumption. lia.
Qed.

Theorem tarjan_upto4 : S_tarjan_upto4.
Proof.
  intros n g Hn. revert g. pattern n. revert n Hn.
  apply upto4; intros g Hg; apply (pairb_sound tarjan);
    (eapply (proj1 (forallb_forall (pairb tarjan) _)); [|exact Hg]); vm_compute; reflexivity.
Qed.

Theorem kosaraju_upto4 : S_kosaraju_upto4.
Proof.
  intros n g Hn. revert g. pattern n. revert n Hn.
  apply upto4; intros g Hg; apply (pairb_sound (fun g => kosaraju g (transpose g)));
    (eapply (proj1 (forallb_forall (pairb (fun g => kosaraju g (transpose g))) _)); [|exact Hg]); vm_compute; reflexivity.
Qed.

Lemma transpose_is_transpose : forall g, wf_graph g -> is_transpose g (transpose g).
Proof.
  intros g Hwf. split; [unfold transpose; rewrite map_length, seq_length; reflexivity|].
  intros u v. unfold arc at 1. unfold succs at 1. unfold transpose.
  destruct (Nat.lt_ge_cases v (length g)) as [Hv|Hv].
  - rewrite nth_map_seq by exact Hv. rewrite filter_In, in_seq, memb_In. split.
    + intros [_ H]. exact H.
    + intros H. split; [|exact H]. pose proof (wf_succs g u v Hwf H). lia.
  - rewrite nth_overflow by (rewrite map_length, seq_length; exact Hv). split; [intros []|].
    intros H. pose proof (wf_succs g u v Hwf H). lia.
Qed.
