(** C16 — proofs about the directed branch of all_cc_upper_bound: the values propagated
    through the component DAG are upper bounds of the eccentricities, hence the step
    preserves the invariant of the machine, hence the machine with SCC steps is exact. *)
From Coq Require Import List Arith Bool Lia.
Import ListNotations.
From WG Require Import Algo.EssSpec Algo.EssStatements Algo.EssSpecFacts Algo.Ess
  Algo.EssMachineStatements Algo.EssFacts Algo.EssSymmStatements Algo.EssSymmFacts
  Algo.EssScc Algo.EssSccStatements Algo.EssSccGraphFacts.

(** ---- distances as a (partial, asymmetric) metric ---- *)
Definition Rch (g : graph) (s v : nat) : Prop := dget (dist_matrix g) s v <> None.
Definition Dst (g : graph) (s v : nat) : nat := odef (dget (dist_matrix g) s v).

Section Metric.
  Variable g : graph.
  Hypothesis Hwf : wf_graph g = true.
  Notation n := (length g).

  Lemma Rch_dist : forall s v, s < n -> v < n -> Rch g s v -> is_dist g s v (Dst g s v).
  Proof.
    intros s v Hs Hv H. unfold Rch, Dst in *. destruct (dget (dist_matrix g) s v) as [d|] eqn:E; [|congruence].
    cbn [odef]. apply (dget_is_dist g Hwf s v d Hs Hv). exact E.
  Qed.

  Lemma walk_Rch : forall s v k, s < n -> walk g s v k -> Rch g s v /\ Dst g s v <= k.
  Proof.
    intros s v k Hs W. assert (Hv : v < n) by (eapply walk_lt; eassumption).
    destruct (walk_min g s v k W) as [d Hd]. pose proof Hd as Hd'.
    apply (dget_is_dist g Hwf s v d Hs Hv) in Hd'. unfold Rch, Dst. rewrite Hd'. cbn [odef].
    split; [discriminate|]. destruct Hd as [_ Hmin]. apply Hmin. exact W.
  Qed.

  Lemma Rch_reachable : forall s v, s < n -> v < n -> (Rch g s v <-> reachable g s v).
  Proof.
    intros s v Hs Hv. split.
    - intros H. destruct (Rch_dist s v Hs Hv H) as [W _]. eexists. exact W.
    - intros [k W]. apply (walk_Rch s v k Hs W).
  Qed.

  Lemma Rch_refl : forall s, s < n -> Rch g s s /\ Dst g s s = 0.
  Proof.
    intros s Hs. destruct (walk_Rch s s 0 Hs (walk_nil g s)) as [H1 H2]. split; [exact H1 | lia].
  Qed.

  Lemma Rch_trans : forall s u v, s < n -> u < n -> v < n -> Rch g s u -> Rch g u v ->
    Rch g s v /\ Dst g s v <= Dst g s u + Dst g u v.
  Proof.
    intros s u v Hs Hu Hv H1 H2.
    destruct (Rch_dist s u Hs Hu H1) as [W1 _]. destruct (Rch_dist u v Hu Hv H2) as [W2 _].
    apply (walk_Rch s v _ Hs). eapply walk_app; eassumption.
  Qed.

  Lemma arc_Rch : forall u v, u < n -> In v (succs g u) -> Rch g u v /\ Dst g u v <= 1.
  Proof.
    intros u v Hu Ha. apply (walk_Rch u v 1 Hu). eapply walk_step; [apply walk_nil | exact Ha].
  Qed.

  Lemma Dst_le_EF : forall s v, s < n -> v < n -> Rch g s v -> Dst g s v <= EF g s.
  Proof.
    intros s v Hs Hv H. unfold Rch, Dst in *. destruct (dget (dist_matrix g) s v) as [d|] eqn:E; [|congruence].
    cbn [odef]. exact (dist_le_EF g Hwf s v d Hs Hv E).
  Qed.

  Lemma Dst_le_EB : forall s v, s < n -> v < n -> Rch g s v -> Dst g s v <= EB g v.
  Proof.
    intros s v Hs Hv H. unfold Rch, Dst in *. destruct (dget (dist_matrix g) s v) as [d|] eqn:E; [|congruence].
    cbn [odef]. exact (dist_le_EB g Hwf s v d Hs Hv E).
  Qed.

  Lemma EF_le_intro : forall s b, s < n -> (forall w, w < n -> Rch g s w -> Dst g s w <= b) -> EF g s <= b.
  Proof.
    intros s b Hs H. destruct (EF_spec g Hwf s Hs) as [[w Hw] _].
    assert (Hwn : w < n) by (eapply is_dist_lt; eassumption).
    pose proof Hw as Hw'. apply (dget_is_dist g Hwf s w _ Hs Hwn) in Hw'.
    specialize (H w Hwn). unfold Rch, Dst in H. rewrite Hw' in H. cbn [odef] in H. apply H. discriminate.
  Qed.

  Lemma EB_le_intro : forall v b, v < n -> (forall w, w < n -> Rch g w v -> Dst g w v <= b) -> EB g v <= b.
  Proof.
    intros v b Hv H. destruct (EB_spec g Hwf v Hv) as [[w Hw] _].
    assert (Hwn : w < n) by (destruct Hw as [W _]; eapply walk_src_lt; eassumption).
    pose proof Hw as Hw'. apply (dget_is_dist g Hwf w v _ Hwn Hv) in Hw'.
    specialize (H w Hwn). unfold Rch, Dst in H. rewrite Hw' in H. cbn [odef] in H. apply H. discriminate.
  Qed.
End Metric.

(** ---- the subgraph induced by the components ---- *)
Lemma induced_length : forall g comp, length (induced g comp) = length g.
Proof. intros. unfold induced. rewrite map_length, seq_length. reflexivity. Qed.

Lemma induced_succs : forall g comp v w,
  In w (succs (induced g comp) v) <-> In w (succs g v) /\ nth w comp 0 = nth v comp 0.
Proof.
  intros g comp v w. unfold succs at 1. unfold induced.
  destruct (Nat.lt_ge_cases v (length g)) as [Hv|Hv].
  - rewrite nth_map_seq by exact Hv. rewrite filter_In, Nat.eqb_eq. reflexivity.
  - rewrite nth_overflow by (rewrite map_length, seq_length; exact Hv).
    unfold succs. rewrite (nth_overflow g) by exact Hv. cbn. tauto.
Qed.

Lemma induced_wf : forall g comp, wf_graph g = true -> wf_graph (induced g comp) = true.
Proof.
  intros g comp Hwf. unfold wf_graph. apply forallb_forall. intros l Hl. apply forallb_forall. intros w Hw.
  apply Nat.ltb_lt. rewrite induced_length.
  destruct (In_nth _ _ [] Hl) as [v [Hv E]]. subst l.
  assert (Hin : In w (succs (induced g comp) v)) by exact Hw.
  apply induced_succs in Hin. destruct Hin as [Hin _]. eapply succs_lt; eassumption.
Qed.

Lemma walk_induced_sub : forall g comp s v j, walk (induced g comp) s v j -> walk g s v j.
Proof.
  intros g comp s v j W. induction W as [|u v j W IH Ha]; [apply walk_nil|].
  apply induced_succs in Ha. destruct Ha as [Ha _]. eapply walk_step; eassumption.
Qed.

Section Induced.
  Variable g : graph.
  Hypothesis Hwf : wf_graph g = true.
  Variables (comp : list nat) (k : nat).
  Hypothesis Hscc : scc_ok g comp k.
  Notation n := (length g).
  Notation gi := (induced g comp).
  Notation cmp := (fun v => nth v comp 0).

  Lemma same_comp_iff : forall u v, u < n -> v < n ->
    (cmp u = cmp v <-> Rch g u v /\ Rch g v u).
  Proof.
    intros u v Hu Hv. destruct Hscc as [_ [_ H]]. rewrite (H u v Hu Hv).
    rewrite (Rch_reachable g Hwf u v Hu Hv), (Rch_reachable g Hwf v u Hv Hu). reflexivity.
  Qed.

  Lemma comp_lt : forall u, u < n -> cmp u < k.
  Proof. intros u Hu. destruct Hscc as [_ [H _]]. apply H. exact Hu. Qed.

  (** a walk between two nodes of a strongly connected component stays inside it *)
  Lemma walk_in_scc : forall s v j, s < n -> walk g s v j -> reachable g v s -> walk gi s v j.
  Proof.
    intros s v j Hs W. induction W as [|u v j W IH Ha]; intros Hback; [apply walk_nil|].
    assert (Hu : u < n) by (eapply walk_lt; eassumption).
    assert (Hv : v < n) by (eapply succs_lt; eassumption).
    assert (Huv : walk g u v 1) by (eapply walk_step; [apply walk_nil | exact Ha]).
    destruct Hback as [b Wb].
    assert (Hus : reachable g u s) by (exists (1 + b); eapply walk_app; eassumption).
    eapply walk_step; [apply IH; exact Hus|].
    apply induced_succs. split; [exact Ha|].
    symmetry. apply (same_comp_iff u v Hu Hv). split.
    - apply (Rch_reachable g Hwf u v Hu Hv). exists 1. exact Huv.
    - apply (Rch_reachable g Hwf v u Hv Hu). exists (b + j). eapply walk_app; eassumption.
  Qed.

  (** hence the visit filtered to the component sees the distances of the whole graph *)
  Lemma induced_same : forall s v, s < n -> v < n -> cmp s = cmp v ->
    Rch g s v /\ Rch gi s v /\ Dst gi s v = Dst g s v.
  Proof.
    intros s v Hs Hv Hc. apply (same_comp_iff s v Hs Hv) in Hc. destruct Hc as [Hsv Hvs].
    split; [exact Hsv|].
    pose proof (induced_wf g comp Hwf) as Hwfi.
    assert (Hsi : s < length gi) by (rewrite induced_length; exact Hs).
    assert (Hvi : v < length gi) by (rewrite induced_length; exact Hv).
    destruct (Rch_dist g Hwf s v Hs Hv Hsv) as [W _].
    assert (Wi : walk gi s v (Dst g s v)).
    { apply walk_in_scc; [exact Hs | exact W | apply (Rch_reachable g Hwf v s Hv Hs); exact Hvs]. }
    destruct (walk_Rch gi Hwfi s v _ Hsi Wi) as [Hr Hle]. split; [exact Hr|].
    destruct (Rch_dist gi Hwfi s v Hsi Hvi Hr) as [W2 _]. apply walk_induced_sub in W2.
    destruct (walk_Rch g Hwf s v _ Hs W2) as [_ Hle2]. lia.
  Qed.

  (** ---- the arrays of [compute_dist_pivot] ---- *)
  Variable gt : graph.
  Variable piv : list nat.
  Hypothesis Hpiv : legal_pivots g comp k piv.
  Notation sd := (mk_sdata g gt comp k).
  Notation p := (fun c => nth c piv 0).

  Lemma piv_lt : forall c, c < k -> p c < n.
  Proof. intros c Hc. destruct Hpiv as [_ H]. apply H. exact Hc. Qed.
  Lemma piv_comp : forall c, c < k -> cmp (p c) = c.
  Proof. intros c Hc. destruct Hpiv as [_ H]. apply H. exact Hc. Qed.

  Lemma dpf_nth : forall v, v < n -> nth v (dist_pivot_f sd piv n) 0 = Dst g (p (cmp v)) v.
  Proof.
    intros v Hv. unfold dist_pivot_f. rewrite tab_nth by exact Hv. cbn [sd_dmi sd_comp mk_sdata].
    pose proof (comp_lt v Hv) as Hc.
    destruct (induced_same (p (cmp v)) v (piv_lt _ Hc) Hv (piv_comp _ Hc)) as [_ [_ E]]. exact E.
  Qed.

  Lemma dpb_nth : forall v, v < n -> nth v (dist_pivot_b sd piv n) 0 = Dst g v (p (cmp v)).
  Proof.
    intros v Hv. unfold dist_pivot_b. rewrite tab_nth by exact Hv. cbn [sd_dmi sd_comp mk_sdata].
    pose proof (comp_lt v Hv) as Hc.
    destruct (induced_same v (p (cmp v)) Hv (piv_lt _ Hc) (eq_sym (piv_comp _ Hc))) as [_ [_ E]]. exact E.
  Qed.

  Lemma ecc0f_ge : forall c v, c < k -> v < n -> cmp v = c ->
    Dst g (p c) v <= nth c (ecc_pivot_f0 sd piv) 0.
  Proof.
    intros c v Hc Hv E. unfold ecc_pivot_f0. cbn [sd_k sd_dmi mk_sdata]. rewrite tab_nth by exact Hc.
    pose proof (induced_wf g comp Hwf) as Hwfi.
    assert (Hpc : cmp (p c) = cmp v) by (rewrite E; apply piv_comp; exact Hc).
    destruct (induced_same (p c) v (piv_lt _ Hc) Hv Hpc) as [_ [Hr Ed]]. rewrite <- Ed.
    change (ecc_f_dm (dist_matrix gi) (p c)) with (EF gi (p c)).
    apply (Dst_le_EF gi Hwfi); [rewrite induced_length; apply piv_lt; exact Hc | rewrite induced_length; exact Hv | exact Hr].
  Qed.

  Lemma ecc0b_ge : forall c v, c < k -> v < n -> cmp v = c ->
    Dst g v (p c) <= nth c (ecc_pivot_b0 sd piv) 0.
  Proof.
    intros c v Hc Hv E. unfold ecc_pivot_b0. cbn [sd_k sd_dmi mk_sdata]. rewrite tab_nth by exact Hc.
    pose proof (induced_wf g comp Hwf) as Hwfi.
    assert (Hpc : cmp v = cmp (p c)) by (rewrite E; symmetry; apply piv_comp; exact Hc).
    destruct (induced_same v (p c) Hv (piv_lt _ Hc) Hpc) as [_ [Hr Ed]]. rewrite <- Ed.
    change (ecc_b_dm (dist_matrix gi) (p c)) with (EB gi (p c)).
    apply (Dst_le_EB gi Hwfi); [rewrite induced_length; exact Hv | rewrite induced_length; apply piv_lt; exact Hc | exact Hr].
  Qed.
End Induced.

(** ---- the two propagation loops, as array programs ---- *)
Lemma upd_nth_ne : forall l i x j, j <> i -> nth j (upd l i x) 0 = nth j l 0.
Proof.
  intros l i x j Hne. destruct (Nat.lt_ge_cases j (length l)) as [Hj|Hj].
  - rewrite upd_nth by exact Hj. apply Nat.eqb_neq in Hne. rewrite Hne. reflexivity.
  - rewrite !nth_overflow; [reflexivity | exact Hj | rewrite upd_length; exact Hj].
Qed.

Lemma upd_nth_eq : forall l i x, i < length l -> nth i (upd l i x) 0 = x.
Proof. intros l i x Hi. rewrite upd_nth by exact Hi. rewrite Nat.eqb_refl. reflexivity. Qed.

Section Loops.
  Variables (dpf dpb : list nat) (sg : list (list conn)) (k : nat) (piv : list nat).
  Hypothesis Hlt : forall c cn, c < k -> In cn (nth c sg []) -> fst cn < c.
  Hypothesis Hpl : length piv = k.

  (** forward loop, one component *)
  Lemma pfc_length : forall hi c l ecc, length (prop_f_conns dpf dpb hi c l ecc) = length ecc.
  Proof.
    intros hi c l. induction l as [|cn r IH]; intros ecc; cbn [prop_f_conns]; [reflexivity|].
    destruct (hi <=? _); [apply upd_length | rewrite IH; apply upd_length].
  Qed.

  Lemma pfc_other : forall hi c l ecc c', c' <> c ->
    nth c' (prop_f_conns dpf dpb hi c l ecc) 0 = nth c' ecc 0.
  Proof.
    intros hi c l. induction l as [|cn r IH]; intros ecc c' Hne; cbn [prop_f_conns]; [reflexivity|].
    destruct (hi <=? _); [apply upd_nth_ne; exact Hne | rewrite IH by exact Hne; apply upd_nth_ne; exact Hne].
  Qed.

  Lemma pfc_spec : forall hi c l ecc, c < length ecc -> (forall cn, In cn l -> fst cn <> c) ->
    nth c (prop_f_conns dpf dpb hi c l ecc) 0 = hi \/
    (nth c ecc 0 <= nth c (prop_f_conns dpf dpb hi c l ecc) 0 /\
     forall cn, In cn l -> conn_len dpf dpb cn + nth (fst cn) ecc 0 <= nth c (prop_f_conns dpf dpb hi c l ecc) 0).
  Proof.
    intros hi c l. induction l as [|cn r IH]; intros ecc Hc Hne; cbn [prop_f_conns].
    - right. split; [lia | intros cn []].
    - set (v := Nat.max (nth c ecc 0) (conn_len dpf dpb cn + nth (fst cn) ecc 0)).
      destruct (hi <=? v) eqn:E; [left; apply upd_nth_eq; exact Hc|].
      assert (Hc1 : c < length (upd ecc c v)) by (rewrite upd_length; exact Hc).
      destruct (IH (upd ecc c v) Hc1 (fun cn' H => Hne cn' (or_intror H))) as [H|[H1 H2]]; [left; exact H|].
      right. rewrite upd_nth_eq in H1 by exact Hc. split; [lia|].
      intros cn' [<-|Hin]; [lia|].
      specialize (H2 cn' Hin). rewrite upd_nth_ne in H2 by (apply Hne; right; exact Hin). exact H2.
  Qed.

  (** what the forward loop guarantees for a component: clamped, or at least the initial
      value and every contribution *)
  Variables (uFx ecc0 : list nat).
  Notation hiF := (fun c => nth (nth c piv 0) uFx 0).
  Definition FP (ecc : list nat) (c : nat) : Prop :=
    nth c ecc 0 = hiF c \/
    (nth c ecc0 0 <= nth c ecc 0 /\
     forall cn, In cn (nth c sg []) -> conn_len dpf dpb cn + nth (fst cn) ecc 0 <= nth c ecc 0).

  Lemma prop_f_inv : forall m j ecc, j + m = k -> length ecc = k ->
    (forall c, c < j -> FP ecc c) -> (forall c, j <= c -> nth c ecc 0 = nth c ecc0 0) ->
    forall c, c < k ->
    FP (fold_left (fun ecc c => prop_f_conns dpf dpb (hiF c) c (nth c sg []) ecc) (seq j m) ecc) c.
  Proof.
    induction m as [|m IH]; intros j ecc Hjm Hlen Hdone Hrest c Hc; cbn [seq fold_left].
    - apply Hdone. lia.
    - set (ecc1 := prop_f_conns dpf dpb (hiF j) j (nth j sg []) ecc).
      assert (Hj : j < k) by lia.
      assert (Hne : forall cn, In cn (nth j sg []) -> fst cn <> j)
        by (intros cn Hin; pose proof (Hlt j cn Hj Hin); lia).
      apply IH; [lia | unfold ecc1; rewrite pfc_length; exact Hlen | | | exact Hc].
      + intros c' Hc'. destruct (Nat.eq_dec c' j) as [->|Hcj].
        * assert (Hjl : j < length ecc) by lia.
          pose proof (pfc_spec (hiF j) j (nth j sg []) ecc Hjl Hne) as Hs. fold ecc1 in Hs.
          destruct Hs as [H|[H1 H2]].
          -- left. exact H.
          -- right. rewrite Hrest in H1 by lia. split; [exact H1|].
             intros cn Hin. specialize (H2 cn Hin). unfold ecc1 at 1.
             rewrite pfc_other by (apply Hne; exact Hin). exact H2.
        * assert (Hlt' : c' < j) by lia.
          assert (Hsame : nth c' ecc1 0 = nth c' ecc 0) by (apply pfc_other; exact Hcj).
          destruct (Hdone c' Hlt') as [H|[H1 H2]].
          -- left. rewrite Hsame. exact H.
          -- right. rewrite Hsame. split; [exact H1|]. intros cn Hin.
             assert (fst cn <> j) by (pose proof (Hlt c' cn ltac:(lia) Hin); lia).
             unfold ecc1. rewrite pfc_other by assumption. apply H2. exact Hin.
      + intros c' Hc'. unfold ecc1. rewrite pfc_other by lia. apply Hrest. lia.
  Qed.

  Lemma prop_f_spec : length ecc0 = k -> forall c, c < k -> FP (prop_f sg dpf dpb uFx piv ecc0) c.
  Proof.
    intros Hlen c Hc. unfold prop_f. rewrite Hpl.
    apply (prop_f_inv k 0 ecc0); [lia | exact Hlen | intros c' Hc'; lia | reflexivity | exact Hc].
  Qed.

  (** backward loop *)
  Variable uBx : list nat.
  Variable ecb0 : list nat.
  Notation hiB := (fun t => nth (nth t piv 0) uBx 0).
  Definition PB (ecc : list nat) (t X : nat) : Prop := hiB t <= nth t ecc 0 \/ X <= nth t ecc 0.

  Lemma pbc_length : forall c ecc cn, length (prop_b_conn dpf dpb uBx piv c ecc cn) = length ecc.
  Proof. intros. unfold prop_b_conn. apply upd_length. Qed.

  Lemma pbc_other : forall c ecc cn t, t <> fst cn -> nth t (prop_b_conn dpf dpb uBx piv c ecc cn) 0 = nth t ecc 0.
  Proof. intros c ecc cn t Hne. unfold prop_b_conn. apply upd_nth_ne. exact Hne. Qed.

  Lemma pbc_pres : forall c ecc cn t X, t < length ecc -> PB ecc t X -> PB (prop_b_conn dpf dpb uBx piv c ecc cn) t X.
  Proof.
    intros c ecc cn t X Ht H. unfold PB in *. destruct (Nat.eq_dec t (fst cn)) as [E|Hne].
    - unfold prop_b_conn. rewrite <- E. rewrite upd_nth_eq by exact Ht.
      destruct (hiB t <=? _) eqn:E2; [left; lia|]. apply Nat.leb_gt in E2. lia.
    - rewrite pbc_other by exact Hne. exact H.
  Qed.

  Lemma pbc_new : forall c ecc cn, fst cn < length ecc -> fst cn <> c ->
    PB (prop_b_conn dpf dpb uBx piv c ecc cn) (fst cn)
       (conn_len dpf dpb cn + nth c (prop_b_conn dpf dpb uBx piv c ecc cn) 0).
  Proof.
    intros c ecc cn Ht Hne. rewrite (pbc_other c ecc cn c) by (intro E; apply Hne; symmetry; exact E).
    unfold PB, prop_b_conn. rewrite upd_nth_eq by exact Ht.
    destruct (hiB (fst cn) <=? _) eqn:E2; [left; lia|]. right. lia.
  Qed.

  Lemma pbfold_length : forall c l ecc, length (fold_left (prop_b_conn dpf dpb uBx piv c) l ecc) = length ecc.
  Proof.
    intros c l. induction l as [|cn r IH]; intros ecc; cbn [fold_left]; [reflexivity|].
    rewrite IH. apply pbc_length.
  Qed.

  Lemma pbfold_other : forall c l ecc t, (forall cn, In cn l -> fst cn <> t) ->
    nth t (fold_left (prop_b_conn dpf dpb uBx piv c) l ecc) 0 = nth t ecc 0.
  Proof.
    intros c l. induction l as [|cn r IH]; intros ecc t Hne; cbn [fold_left]; [reflexivity|].
    rewrite IH by (intros cn' H; apply Hne; right; exact H).
    apply pbc_other. intro E. apply (Hne cn); [left; reflexivity | symmetry; exact E].
  Qed.

  Lemma pbfold_pres : forall c l ecc t X, t < length ecc -> PB ecc t X ->
    PB (fold_left (prop_b_conn dpf dpb uBx piv c) l ecc) t X.
  Proof.
    intros c l. induction l as [|cn r IH]; intros ecc t X Ht H; cbn [fold_left]; [exact H|].
    apply IH; [rewrite pbc_length; exact Ht | apply pbc_pres; assumption].
  Qed.

  Lemma pbfold_new : forall c l ecc, (forall cn, In cn l -> fst cn < length ecc /\ fst cn <> c) ->
    forall cn, In cn l ->
    PB (fold_left (prop_b_conn dpf dpb uBx piv c) l ecc) (fst cn)
       (conn_len dpf dpb cn + nth c (fold_left (prop_b_conn dpf dpb uBx piv c) l ecc) 0).
  Proof.
    intros c l. induction l as [|cn0 r IH]; intros ecc Hl cn Hin; [destruct Hin|]. cbn [fold_left].
    assert (Hr : forall cn', In cn' r -> fst cn' < length (prop_b_conn dpf dpb uBx piv c ecc cn0) /\ fst cn' <> c)
      by (intros cn' H; rewrite pbc_length; apply Hl; right; exact H).
    destruct Hin as [<-|Hin]; [|apply IH; assumption].
    destruct (Hl cn0 (or_introl eq_refl)) as [H1 H2].
    rewrite (pbfold_other c r _ c) by (intros cn' H; apply Hr; exact H).
    apply pbfold_pres; [rewrite pbc_length; exact H1 | apply pbc_new; assumption].
  Qed.

  Definition InvB (j : nat) (ecc : list nat) : Prop :=
    length ecc = k /\
    (forall t, t < k -> PB ecc t (nth t ecb0 0)) /\
    (forall c cn, j <= c -> c < k -> In cn (nth c sg []) ->
       PB ecc (fst cn) (conn_len dpf dpb cn + nth c ecc 0)).

  Lemma prop_b_inv : forall m ecc, m <= k -> InvB m ecc ->
    InvB 0 (fold_left (fun ecc c => fold_left (prop_b_conn dpf dpb uBx piv c) (nth c sg []) ecc) (rev (seq 0 m)) ecc).
  Proof.
    induction m as [|m IH]; intros ecc Hm I; [exact I|].
    rewrite seq_S, rev_app_distr. cbn [rev app fold_left plus].
    destruct I as [Hlen [Hini Hcon]].
    assert (Hmk : m < k) by lia.
    assert (Htg : forall cn, In cn (nth m sg []) -> fst cn < m) by (intros cn H; apply Hlt; assumption).
    set (ecc1 := fold_left (prop_b_conn dpf dpb uBx piv m) (nth m sg []) ecc).
    apply IH; [lia|]. split; [unfold ecc1; rewrite pbfold_length; exact Hlen|]. split.
    - intros t Ht. apply pbfold_pres; [lia | apply Hini; exact Ht].
    - intros c cn Hmc Hck Hin. destruct (Nat.eq_dec c m) as [->|Hne].
      + apply pbfold_new; [|exact Hin]. intros cn' H. specialize (Htg cn' H). lia.
      + assert (Hc : nth c ecc1 0 = nth c ecc 0)
          by (apply pbfold_other; intros cn' H; specialize (Htg cn' H); lia).
        rewrite Hc. apply pbfold_pres.
        * pose proof (Hlt c cn Hck Hin). lia.
        * apply Hcon; [lia | exact Hck | exact Hin].
  Qed.

  Lemma prop_b_spec : length ecb0 = k -> InvB 0 (prop_b sg dpf dpb uBx piv k ecb0).
  Proof.
    intros Hlen. unfold prop_b. apply prop_b_inv; [lia|]. split; [exact Hlen|]. split.
    - intros t Ht. right. lia.
    - intros c cn H1 H2. lia.
  Qed.
End Loops.

(** ---- leaving / entering a component along a walk ---- *)
Lemma first_exit : forall g (comp : list nat) s w j, walk g s w j -> nth w comp 0 <> nth s comp 0 ->
  exists a b, In b (succs g a) /\ nth a comp 0 = nth s comp 0 /\ nth b comp 0 <> nth s comp 0 /\
              reachable g s a /\ reachable g b w.
Proof.
  intros g comp s w j W. induction W as [|u w j W IH Ha]; intros Hne; [congruence|].
  destruct (Nat.eq_dec (nth u comp 0) (nth s comp 0)) as [E|E].
  - exists u, w. repeat split; try assumption; [exists j; exact W | exists 0; apply walk_nil].
  - destruct (IH E) as [a [b [H1 [H2 [H3 [H4 [i Wi]]]]]]]. exists a, b. repeat split; try assumption.
    exists (S i). eapply walk_step; eassumption.
Qed.

Lemma last_entry : forall g (comp : list nat) w v j, walk g w v j -> nth w comp 0 <> nth v comp 0 ->
  exists a b, In b (succs g a) /\ nth b comp 0 = nth v comp 0 /\ nth a comp 0 <> nth v comp 0 /\
              reachable g w a.
Proof.
  intros g comp w v j W. induction W as [|u v j W IH Ha]; intros Hne; [congruence|].
  destruct (Nat.eq_dec (nth u comp 0) (nth v comp 0)) as [E|E].
  - rewrite <- E in Hne. destruct (IH Hne) as [a [b [H1 [H2 [H3 H4]]]]]. exists a, b.
    rewrite <- E. repeat split; assumption.
  - exists u, v. repeat split; try assumption. exists j. exact W.
Qed.

(** ---- the propagated values are upper bounds ---- *)
Section Bounds.
  Variable g : graph.
  Hypothesis Hwf : wf_graph g = true.
  Hypothesis Hn : 0 < length g.
  Variables (gt : graph) (comp : list nat) (k : nat).
  Hypothesis Hscc : scc_ok g comp k.
  Hypothesis Htopo : topo_ok g comp.
  Variable piv : list nat.
  Hypothesis Hpiv : legal_pivots g comp k piv.
  Variables (radial : list bool) (x : st).
  Hypothesis I : inv g radial x.
  Notation n := (length g).
  Notation cmp := (fun v => nth v comp 0).
  Notation sd := (mk_sdata g gt comp k).
  Notation p := (fun c => nth c piv 0).
  Notation sg := (scc_graph g gt comp k).
  Notation dpf := (dist_pivot_f sd piv n).
  Notation dpb := (dist_pivot_b sd piv n).

  Lemma Hcl : length comp = n.
  Proof. destruct Hscc as [H _]. exact H. Qed.

  Lemma sg_sound : forall c t s e, c < k -> In (t, (s, e)) (nth c sg []) ->
    s < n /\ e < n /\ In e (succs g s) /\ cmp s = c /\ cmp e = t /\ t < c.
  Proof.
    intros c t s e Hc Hin. destruct (scc_graph_sound g gt comp k c Hcl Hc) as [Hs _].
    destruct (Hs t s e Hin) as [H1 [H2 [H3 [H4 H5]]]].
    assert (He : e < n) by (eapply succs_lt; eassumption).
    pose proof (Htopo s e H1 H2) as Hle. cbn beta in *. repeat split; try assumption. lia.
  Qed.

  Lemma sg_lt : forall c cn, c < k -> In cn (nth c sg []) -> fst cn < c.
  Proof.
    intros c [t [s e]] Hc Hin. cbn [fst]. apply (sg_sound c t s e Hc Hin).
  Qed.

  Lemma sg_complete : forall u v, u < n -> In v (succs g u) -> cmp v <> cmp u ->
    exists s e, In (cmp v, (s, e)) (nth (cmp u) sg []).
  Proof.
    intros u v Hu Ha Hne. pose proof (comp_lt g comp k Hscc u Hu) as Hc.
    destruct (scc_graph_sound g gt comp k (cmp u) Hcl Hc) as [_ Hco].
    apply (Hco u v Hu Ha eq_refl Hne).
  Qed.

  Lemma piv_len : length piv = k.
  Proof. destruct Hpiv as [H _]. exact H. Qed.

  (** nodes of one component reach each other *)
  Lemma same_Rch : forall u v, u < n -> v < n -> cmp u = cmp v -> Rch g u v.
  Proof. intros u v Hu Hv E. apply (same_comp_iff g Hwf comp k Hscc u v Hu Hv) in E. apply E. Qed.

  (** the length of the path pivot(c) ~> s -> e ~> pivot(t) through a connection *)
  Lemma conn_path : forall c t s e, c < k -> In (t, (s, e)) (nth c sg []) ->
    t < k /\ t < c /\ Rch g (p c) (p t) /\ Dst g (p c) (p t) <= conn_len dpf dpb (t, (s, e)).
  Proof.
    intros c t s e Hc Hin. destruct (sg_sound c t s e Hc Hin) as [Hs [He [Ha [Cs [Ce Htc]]]]].
    assert (Ht : t < k) by lia.
    pose proof (piv_lt g comp k piv Hpiv c Hc) as Hpc. pose proof (piv_lt g comp k piv Hpiv t Ht) as Hpt.
    pose proof (piv_comp g comp k piv Hpiv c Hc) as Cpc. pose proof (piv_comp g comp k piv Hpiv t Ht) as Cpt.
    cbn beta in *.
    assert (R1 : Rch g (p c) s) by (apply same_Rch; [exact Hpc | exact Hs | congruence]).
    destruct (arc_Rch g Hwf s e Hs Ha) as [R2 D2].
    assert (R3 : Rch g e (p t)) by (apply same_Rch; [exact He | exact Hpt | congruence]).
    destruct (Rch_trans g Hwf (p c) s e Hpc Hs He R1 R2) as [R12 D12].
    destruct (Rch_trans g Hwf (p c) e (p t) Hpc He Hpt R12 R3) as [R123 D123].
    split; [exact Ht|]. split; [exact Htc|]. split; [exact R123|].
    unfold conn_len. cbn [fst snd].
    rewrite (dpf_nth g Hwf comp k Hscc gt piv Hpiv s Hs), (dpb_nth g Hwf comp k Hscc gt piv Hpiv e He).
    cbn beta. rewrite Cs, Ce. lia.
  Qed.

  Theorem ecc_pivot_f_bound_g : forall c, c < k ->
    EF g (p c) <= nth c (ecc_pivot_f sd piv n x) 0.
  Proof.
    intros c. induction c as [c IH] using lt_wf_ind. intros Hc.
    assert (Hl0 : length (ecc_pivot_f0 sd piv) = k) by (unfold ecc_pivot_f0; apply tab_length).
    pose proof (prop_f_spec dpf dpb sg k piv sg_lt piv_len (uF x) (ecc_pivot_f0 sd piv) Hl0 c Hc) as HFP.
    change (prop_f sg dpf dpb (uF x) piv (ecc_pivot_f0 sd piv)) with (ecc_pivot_f sd piv n x) in HFP.
    pose proof (piv_lt g comp k piv Hpiv c Hc) as Hpc.
    pose proof (piv_comp g comp k piv Hpiv c Hc) as Cpc. cbn beta in *.
    destruct HFP as [Hcl|[H0 Hcon]].
    - rewrite Hcl. destruct I as [_ IF _ _ _ _ _ _ _ _]. apply IF. exact Hpc.
    - apply (EF_le_intro g Hwf); [exact Hpc|]. intros w Hw Rw.
      destruct (Nat.eq_dec (cmp w) c) as [E|E].
      + pose proof (ecc0f_ge g Hwf comp k Hscc gt piv Hpiv c w Hc Hw E). lia.
      + destruct (Rch_dist g Hwf (p c) w Hpc Hw Rw) as [W _].
        destruct (first_exit g comp (p c) w _ W) as [a [b [Ha [Ca [Cb [Ra Rb]]]]]]; [rewrite Cpc; exact E|].
        rewrite Cpc in Ca, Cb.
        assert (Han : a < n) by (destruct Ra as [i Wi]; exact (walk_lt g (p c) a i Hwf Hpc Wi)).
        assert (Hbn : b < n) by (exact (succs_lt g a b Hwf Ha)).
        destruct (sg_complete a b Han Ha) as [s [e Hin]]; [congruence|]. rewrite Ca in Hin.
        destruct (conn_path c (cmp b) s e Hc Hin) as [Ht [Htc [Rpp Dpp]]].
        specialize (Hcon _ Hin). cbn [fst] in Hcon.
        pose proof (IH (cmp b) Htc Ht) as IHt.
        pose proof (piv_lt g comp k piv Hpiv _ Ht) as Hpt.
        pose proof (piv_comp g comp k piv Hpiv _ Ht) as Cpt. cbn beta in *.
        assert (R4 : Rch g (p (cmp b)) b) by (apply same_Rch; [exact Hpt | exact Hbn | exact Cpt]).
        assert (R5 : Rch g b w) by (apply (Rch_reachable g Hwf b w Hbn Hw); exact Rb).
        destruct (Rch_trans g Hwf _ b w Hpt Hbn Hw R4 R5) as [R45 _].
        pose proof (Dst_le_EF g Hwf _ w Hpt Hw R45) as D45.
        destruct (Rch_trans g Hwf (p c) _ w Hpc Hpt Hw Rpp R45) as [_ Dall]. lia.
  Qed.

  Theorem ecc_pivot_b_bound_g : forall t, t < k ->
    EB g (p t) <= nth t (ecc_pivot_b sd piv n x) 0.
  Proof.
    assert (Hl0 : length (ecc_pivot_b0 sd piv) = k) by (unfold ecc_pivot_b0; apply tab_length).
    pose proof (prop_b_spec dpf dpb sg k piv sg_lt piv_len (uB x) (ecc_pivot_b0 sd piv) Hl0) as HI.
    change (prop_b sg dpf dpb (uB x) piv k (ecc_pivot_b0 sd piv)) with (ecc_pivot_b sd piv n x) in HI.
    destruct HI as [_ [Hini Hcon]].
    assert (Hhi : forall t, t < k -> EB g (p t) <= nth (p t) (uB x) 0).
    { intros t Ht. destruct I as [_ _ IB _ _ _ _ _ _ _]. apply IB. apply (piv_lt g comp k piv Hpiv t Ht). }
    assert (Hall : forall m t, t < k -> k - t <= m -> EB g (p t) <= nth t (ecc_pivot_b sd piv n x) 0).
    { induction m as [|m IH]; intros t Ht Hm; [lia|].
      pose proof (piv_lt g comp k piv Hpiv t Ht) as Hpt.
      pose proof (piv_comp g comp k piv Hpiv t Ht) as Cpt. cbn beta in *.
      destruct (Hini t Ht) as [Hc|H0]; [specialize (Hhi t Ht); cbn beta in *; lia|].
      apply (EB_le_intro g Hwf); [exact Hpt|]. intros w Hw Rw.
      pose proof (Dst_le_EB g Hwf w (p t) Hw Hpt Rw) as DwEB.
      destruct (Nat.eq_dec (cmp w) t) as [E|E].
      - pose proof (ecc0b_ge g Hwf comp k Hscc gt piv Hpiv t w Ht Hw E). lia.
      - destruct (Rch_dist g Hwf w (p t) Hw Hpt Rw) as [W _].
        destruct (last_entry g comp w (p t) _ W) as [a [b [Ha [Cb [Ca Ra]]]]]; [rewrite Cpt; exact E|].
        rewrite Cpt in Ca, Cb.
        assert (Han : a < n) by (destruct Ra as [i Wi]; exact (walk_lt g w a i Hwf Hw Wi)).
        pose proof (comp_lt g comp k Hscc a Han) as Hck. cbn beta in Hck.
        destruct (sg_complete a b Han Ha) as [s [e Hin]]; [congruence|]. rewrite Cb in Hin.
        destruct (conn_path (cmp a) t s e Hck Hin) as [_ [Htc [Rpp Dpp]]].
        destruct (Hcon (cmp a) _ ltac:(lia) Hck Hin) as [Hc|Hv]; cbn [fst] in *;
          [specialize (Hhi t Ht); cbn beta in *; lia|].
        pose proof (IH (cmp a) Hck ltac:(lia)) as IHc.
        pose proof (piv_lt g comp k piv Hpiv _ Hck) as Hpc.
        pose proof (piv_comp g comp k piv Hpiv _ Hck) as Cpc. cbn beta in *.
        assert (R1 : Rch g w a) by (apply (Rch_reachable g Hwf w a Hw Han); exact Ra).
        assert (R2 : Rch g a (p (cmp a))) by (apply same_Rch; [exact Han | exact Hpc | symmetry; exact Cpc]).
        destruct (Rch_trans g Hwf w a _ Hw Han Hpc R1 R2) as [R12 _].
        pose proof (Dst_le_EB g Hwf w _ Hw Hpc R12) as D12.
        destruct (Rch_trans g Hwf w _ (p t) Hw Hpc Hpt R12 Rpp) as [_ Dall]. lia. }
    intros t Ht. apply (Hall (k - t) t Ht). lia.
  Qed.

  Theorem node_bounds_g : forall v, v < n ->
    EF g v <= node_val_f sd piv n x v /\ EB g v <= node_val_b sd piv n x v.
  Proof.
    intros v Hv. pose proof (comp_lt g comp k Hscc v Hv) as Hc. cbn beta in Hc.
    pose proof (piv_lt g comp k piv Hpiv _ Hc) as Hpc.
    pose proof (piv_comp g comp k piv Hpiv _ Hc) as Cpc. cbn beta in *.
    assert (Rvp : Rch g v (p (cmp v))) by (apply same_Rch; [exact Hv | exact Hpc | symmetry; exact Cpc]).
    assert (Rpv : Rch g (p (cmp v)) v) by (apply same_Rch; [exact Hpc | exact Hv | exact Cpc]).
    unfold node_val_f, node_val_b. cbn [sd_comp mk_sdata].
    rewrite (dpf_nth g Hwf comp k Hscc gt piv Hpiv v Hv), (dpb_nth g Hwf comp k Hscc gt piv Hpiv v Hv).
    cbn beta. split.
    - pose proof (ecc_pivot_f_bound_g _ Hc) as Hb. cbn beta in Hb.
      apply (EF_le_intro g Hwf); [exact Hv|]. intros w Hw Rw.
      destruct (Rch_trans g Hwf _ v w Hpc Hv Hw Rpv Rw) as [Rpw _].
      pose proof (Dst_le_EF g Hwf _ w Hpc Hw Rpw).
      destruct (Rch_trans g Hwf v _ w Hv Hpc Hw Rvp Rpw) as [_ Dall]. lia.
    - pose proof (ecc_pivot_b_bound_g _ Hc) as Hb. cbn beta in Hb.
      apply (EB_le_intro g Hwf); [exact Hv|]. intros w Hw Rw.
      destruct (Rch_trans g Hwf w v _ Hw Hv Hpc Rw Rvp) as [Rwp _].
      pose proof (Dst_le_EB g Hwf w _ Hw Hpc Rwp).
      destruct (Rch_trans g Hwf w _ v Hw Hpc Hv Rwp Rpv) as [_ Dall]. lia.
  Qed.
End Bounds.

(** ---- the pinned statements ---- *)
Theorem ecc_pivot_f_bound : S_ecc_pivot_f_bound.
Proof.
  intros g gt comp k radial piv x c Hwf Hn Hscc Htopo Hpiv I Hc.
  exact (ecc_pivot_f_bound_g g Hwf Hn gt comp k Hscc Htopo piv Hpiv radial x I c Hc).
Qed.

Theorem ecc_pivot_b_bound : S_ecc_pivot_b_bound.
Proof.
  intros g gt comp k radial piv x c Hwf Hn Hscc Htopo Hpiv I Hc.
  exact (ecc_pivot_b_bound_g g Hwf Hn gt comp k Hscc Htopo piv Hpiv radial x I c Hc).
Qed.

Theorem scc_node_bounds : S_scc_node_bounds.
Proof.
  intros g gt comp k radial piv x v Hwf Hn Hscc Htopo Hpiv I Hv.
  exact (node_bounds_g g Hwf Hn gt comp k Hscc Htopo piv Hpiv radial x I v Hv).
Qed.

(** the SCC step is an instance of the abstract tightening step *)
Lemma allcc_dir_step_inv : forall g gt comp k radial piv order x,
  wf_graph g = true -> 0 < length g -> scc_ok g comp k -> topo_ok g comp ->
  legal_pivots g comp k piv -> (forall v, In v order <-> v < length g) -> inv g radial x ->
  inv g radial (allcc_dir_step (length g) (mk_sdata g gt comp k) radial piv order x).
Proof.
  intros g gt comp k radial piv order x Hwf Hn Hscc Htopo Hpiv Hcov I.
  unfold allcc_dir_step.
  set (pf := node_val_f (mk_sdata g gt comp k) piv (length g) x).
  set (pb := node_val_b (mk_sdata g gt comp k) piv (length g) x).
  set (r := fold_left (allcc_visit x radial pf) order (rU x, rv x)).
  assert (Hb : forall v, v < length g -> EF g v <= pf v /\ EB g v <= pb v)
    by (intros v Hv; apply (scc_node_bounds g gt comp k radial piv x v); assumption).
  pose proof I as I'. destruct I' as [_ IF IB _ _ _ _ _ _ _].
  apply tighten_step_invariant; try assumption.
  - apply tab_length.
  - apply tab_length.
  - intros v Hv. rewrite tab_nth by exact Hv. destruct (Hb v Hv) as [H1 _]. specialize (IF v Hv). lia.
  - intros v Hv. rewrite tab_nth by exact Hv. destruct (Hb v Hv) as [_ H2]. specialize (IB v Hv). lia.
  - pose proof (allcc_fold_le g Hn x radial pf order (rU x, rv x)) as H. exact H.
  - intros v Hv Hrad Heq. rewrite tab_nth in Heq by exact Hv.
    apply (allcc_fold_covers g Hn x radial pf order (rU x, rv x) v); [apply Hcov; exact Hv|].
    split; [symmetry; exact Heq | exact Hrad].
  - destruct (allcc_fold_witness x radial pf order (rU x, rv x)) as [H|[v [Hin [[Hmin Hrad] H]]]]; fold r in H.
    + left. rewrite <- H. destruct r; reflexivity.
    + right. apply Hcov in Hin. rewrite H. cbn [fst snd]. split; [exact Hin|]. split; [exact Hrad|].
      rewrite tab_nth by exact Hin. split; [symmetry; exact Hmin | reflexivity].
Qed.

Theorem scc_step_invariant : S_scc_step_invariant.
Proof.
  intros g gt comp k radial o x Hwf Hn Hscc Htopo Hl I.
  assert (Hdm : length (dist_matrix g) = length g) by apply dist_matrix_length.
  destruct o as [s order|s order|piv order]; cbn [step_dir legal_op_dir] in *.
  - apply step_invariant; assumption.
  - apply step_invariant; assumption.
  - rewrite Hdm. destruct Hl as [Hpiv Hcov]. apply allcc_dir_step_inv; assumption.
Qed.

Lemma scc_run_from : forall g gt comp k radial ops x, wf_graph g = true -> 0 < length g ->
  scc_ok g comp k -> topo_ok g comp -> Forall (legal_op_dir g comp k) ops -> inv g radial x ->
  inv g radial (run_ops_dir (dist_matrix g) (mk_sdata g gt comp k) radial ops x).
Proof.
  intros g gt comp k radial ops. induction ops as [|o ops IH]; intros x Hwf Hn Hscc Htopo Hl I;
    cbn [run_ops_dir fold_left]; [exact I|].
  inversion Hl as [|o' ops' Ho Hops]; subst. apply IH; try assumption.
  apply scc_step_invariant; assumption.
Qed.

Theorem scc_run_invariant : S_scc_run_invariant.
Proof.
  intros g gt comp k radial ops Hwf Hn Hscc Htopo Hl. apply scc_run_from; try assumption.
  apply inv_init; assumption.
Qed.

Theorem machine_exact_dir : S_machine_exact_dir.
Proof.
  intros g gt comp k radial ops l Hwf Hn Hscc Htopo Hl Hz. unfold replay_dir in *. cbn [fst snd] in *.
  pose proof (scc_run_invariant g gt comp k radial ops Hwf Hn Hscc Htopo Hl) as I. unfold check_ess.
  apply check_ess_dm_split.
  - apply exit_exact_g; assumption.
  - intros Hw. apply exit_rv_g; try assumption. eapply wants_rad_mr; eassumption.
Qed.

(** ---- the boolean legality test of observed pivots ---- *)
Theorem legal_pivotsb_spec : S_legal_pivotsb_spec.
Proof.
  intros g comp k piv. unfold legal_pivotsb, legal_pivots.
  rewrite andb_true_iff, Nat.eqb_eq, forallb_forall. split.
  - intros [Hl H]. split; [exact Hl|]. intros c Hc.
    specialize (H c (proj2 (in_seq _ _ _) (conj (Nat.le_0_l _) Hc))).
    apply andb_true_iff in H. destruct H as [H1 H2]. apply Nat.ltb_lt in H1. apply Nat.eqb_eq in H2.
    split; assumption.
  - intros [Hl H]. split; [exact Hl|]. intros c Hc. apply in_seq in Hc. destruct (H c (proj2 Hc)) as [H1 H2].
    apply andb_true_iff. split; [apply Nat.ltb_lt; exact H1 | apply Nat.eqb_eq; exact H2].
Qed.
