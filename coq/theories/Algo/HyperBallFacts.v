(** Proofs of the C19 statements. *)
From WG Require Import Base.Prelude Algo.HyperBall Algo.HyperBallStatements.
From Coq Require Import ZifyBool ZifyN ZifyNat.

(** ** Lists *)
Lemma tab_length {A} n (f : nat -> A) : length (tab n f) = n.
Proof. unfold tab. rewrite map_length, seq_length. reflexivity. Qed.

Lemma tab_nth {A} n (f : nat -> A) d v : v < n -> nth v (tab n f) d = f v.
Proof.
  intros Hv. unfold tab.
  rewrite (nth_indep _ d (f 0)) by (rewrite map_length, seq_length; exact Hv).
  rewrite map_nth. rewrite seq_nth by exact Hv. reflexivity.
Qed.

Lemma tab_nth_over {A} n (f : nat -> A) d v : n <= v -> nth v (tab n f) d = d.
Proof. intros Hv. apply nth_overflow. rewrite tab_length. exact Hv. Qed.

Lemma tab_ext {A} n (f h : nat -> A) : (forall v, v < n -> f v = h v) -> tab n f = tab n h.
Proof.
  intros H. unfold tab. apply map_ext_in. intros v Hv. apply in_seq in Hv. apply H. lia.
Qed.

Lemma tab_self {A} (l : list A) d : tab (length l) (fun v => nth v l d) = l.
Proof.
  apply nth_ext with (d := d) (d' := d).
  - apply tab_length.
  - intros v Hv. rewrite tab_length in Hv. rewrite tab_nth by exact Hv. reflexivity.
Qed.

Section Lattice.
  Variable L : Type.
  Variable join : L -> L -> L.
  Variable dflt : L.
  Hypothesis SL : semilattice join.

  Let jassoc : forall a b c, join a (join b c) = join (join a b) c := proj1 SL.
  Let jcomm : forall a b, join a b = join b a := proj1 (proj2 SL).
  Let jidem : forall a, join a a = a := proj2 (proj2 SL).

  Definition le (a b : L) : Prop := join a b = b.

  Lemma le_refl a : le a a.
  Proof. apply jidem. Qed.
  Lemma le_trans a b c : le a b -> le b c -> le a c.
  Proof. unfold le. intros H1 H2. rewrite <- H2. rewrite jassoc. rewrite H1. reflexivity. Qed.
  Lemma le_antisym a b : le a b -> le b a -> a = b.
  Proof. unfold le. intros H1 H2. transitivity (join a b); [rewrite jcomm; symmetry; exact H2 | exact H1]. Qed.
  Lemma le_join_l a b : le a (join a b).
  Proof. unfold le. rewrite jassoc. rewrite jidem. reflexivity. Qed.
  Lemma le_join_r a b : le b (join a b).
  Proof. unfold le. rewrite (jcomm a b). rewrite jassoc. rewrite jidem. reflexivity. Qed.
  Lemma join_lub a b u : le a u -> le b u -> le (join a b) u.
  Proof. unfold le. intros H1 H2. rewrite <- jassoc. rewrite H2. exact H1. Qed.

  Lemma bigjoin_ge_acc l a : le a (bigjoin L join a l).
  Proof.
    revert a. induction l as [|x l IH]; intros a; cbn.
    - apply le_refl.
    - eapply le_trans; [apply le_join_l | apply IH].
  Qed.
  Lemma bigjoin_ge_in l a x : In x l -> le x (bigjoin L join a l).
  Proof.
    revert a. induction l as [|y l IH]; intros a Hin; cbn; [destruct Hin|].
    destruct Hin as [->|Hin].
    - eapply le_trans; [apply le_join_r | apply bigjoin_ge_acc].
    - apply IH. exact Hin.
  Qed.
  Lemma bigjoin_lub l a u : le a u -> (forall x, In x l -> le x u) -> le (bigjoin L join a l) u.
  Proof.
    revert a. induction l as [|y l IH]; intros a Ha Hl; cbn; [exact Ha|].
    apply IH.
    - apply join_lub; [exact Ha | apply Hl; left; reflexivity].
    - intros x Hx. apply Hl. right. exact Hx.
  Qed.

  (** dropping absorbed elements does not change a join *)
  Lemma bigjoin_filter (f : nat -> L) (keep : nat -> bool) l a :
    (forall w, In w l -> keep w = false -> join a (f w) = a) ->
    bigjoin L join a (map f (filter keep l)) = bigjoin L join a (map f l).
  Proof.
    revert a. induction l as [|x l IH]; intros a H; cbn; [reflexivity|].
    destruct (keep x) eqn:Hk; cbn.
    - apply IH. intros w Hw Hkw.
      rewrite <- jassoc. rewrite (jcomm (f x) (f w)). rewrite jassoc.
      rewrite (H w (or_intror Hw) Hkw). reflexivity.
    - rewrite (H x (or_introl eq_refl) Hk). apply IH.
      intros w Hw Hkw. apply H; [right; exact Hw | exact Hkw].
  Qed.

  Notation get := (get L dflt).
  Notation sstep := (sync_step L join dflt).
  Notation siter := (sync_iter L join dflt).
  Notation snode := (sync_node L join dflt).

  Lemma sstep_length g c : length (sstep g c) = length c.
  Proof. apply tab_length. Qed.
  Lemma siter_length g t c : length (siter g t c) = length c.
  Proof. induction t; cbn; [reflexivity|]. rewrite sstep_length. exact IHt. Qed.
  Lemma sstep_get g c v : v < length c -> get (sstep g c) v = snode g c v.
  Proof. intros Hv. unfold HBallM.get, sync_step. apply tab_nth. exact Hv. Qed.
  Lemma sstep_get_over g c v : length c <= v -> get (sstep g c) v = dflt.
  Proof. intros Hv. unfold HBallM.get, sync_step. apply tab_nth_over. exact Hv. Qed.
  Lemma get_over c v : length c <= v -> get c v = dflt.
  Proof. intros Hv. unfold HBallM.get. apply nth_overflow. exact Hv. Qed.

  Lemma snode_ge_self g c v : le (get c v) (snode g c v).
  Proof. apply bigjoin_ge_acc. Qed.
  Lemma snode_ge_succ g c v w : In w (succs g v) -> le (get c w) (snode g c v).
  Proof. intros Hw. apply bigjoin_ge_in. apply in_map. exact Hw. Qed.
  Lemma snode_lub g c v u :
    le (get c v) u -> (forall w, In w (succs g v) -> le (get c w) u) -> le (snode g c v) u.
  Proof.
    intros H1 H2. apply bigjoin_lub; [exact H1|].
    intros x Hx. apply in_map_iff in Hx. destruct Hx as [w [<- Hw]]. apply H2. exact Hw.
  Qed.

  Lemma siter_shift g t c : siter g (S t) c = siter g t (sstep g c).
  Proof. induction t; cbn; [reflexivity|]. cbn in IHt. rewrite IHt. reflexivity. Qed.

  (** ** The ball characterisation *)
  Lemma within_mono g t v w : within g t v w -> within g (S t) v w.
  Proof.
    induction 1.
    - apply within_refl.
    - eapply within_step; eassumption.
  Qed.
  Lemma within_0 g v w : within g 0 v w -> w = v.
  Proof. inversion 1. reflexivity. Qed.
  Lemma within_S g t v w :
    within g (S t) v w -> w = v \/ exists u, In u (succs g v) /\ within g t u w.
  Proof. inversion 1; subst; [left; reflexivity | right; eauto]. Qed.

  Lemma ball_lub g c0 : wf_graph g (length c0) ->
    forall t v, v < length c0 ->
      (forall w, within g t v w -> le (get c0 w) (get (siter g t c0) v)) /\
      (forall u, (forall w, within g t v w -> le (get c0 w) u) -> le (get (siter g t c0) v) u).
  Proof.
    intros [Hlen Hwf]. induction t as [|t IH]; intros v Hv.
    - cbn. split.
      + intros w Hw. apply within_0 in Hw. subst. apply le_refl.
      + intros u Hu. apply Hu. apply within_refl.
    - cbn [sync_iter]. rewrite sstep_get by (rewrite siter_length; exact Hv). split.
      + intros w Hw. apply within_S in Hw. destruct Hw as [->|[u [Hu Hw]]].
        * eapply le_trans; [|apply snode_ge_self]. apply (proj1 (IH v Hv)). apply within_refl.
        * eapply le_trans; [|apply snode_ge_succ; exact Hu].
          apply (proj1 (IH u (Hwf _ _ Hu))). exact Hw.
      + intros u Hu. apply snode_lub.
        * apply (proj2 (IH v Hv)). intros w Hw. apply Hu. apply within_mono. exact Hw.
        * intros x Hx. apply (proj2 (IH x (Hwf _ _ Hx))).
          intros w Hw. apply Hu. eapply within_step; eassumption.
  Qed.

  Lemma ball_thm g c0 t v l :
    wf_graph g (length c0) -> v < length c0 ->
    (forall w, In w l <-> within g t v w) ->
    get (siter g t c0) v = bigjoin L join (get c0 v) (map (get c0) l).
  Proof.
    intros Hwf Hv Hl. destruct (ball_lub g c0 Hwf t v Hv) as [Hub Hleast].
    apply le_antisym.
    - apply Hleast. intros w Hw. apply bigjoin_ge_in. apply in_map. apply Hl. exact Hw.
    - apply bigjoin_lub.
      + apply Hub. apply within_refl.
      + intros x Hx. apply in_map_iff in Hx. destruct Hx as [w [<- Hw]]. apply Hub. apply Hl. exact Hw.
  Qed.

  (** ** Growth *)
  Lemma siter_grows g c0 t v : le (get (siter g t c0) v) (get (siter g (S t) c0) v).
  Proof.
    cbn [sync_iter]. destruct (Nat.lt_ge_cases v (length (siter g t c0))) as [Hv|Hv].
    - rewrite sstep_get by exact Hv. apply snode_ge_self.
    - rewrite sstep_get_over by exact Hv. rewrite get_over by exact Hv. apply le_refl.
  Qed.
End Lattice.

Lemma sumZ_cons x l : sumZ (x :: l) = (x + sumZ l)%Z.
Proof. reflexivity. Qed.

Lemma sumZ_le (size1 size2 : nat -> Z) n :
  (forall v, v < n -> (size1 v <= size2 v)%Z) ->
  (sumZ (map size1 (seq 0 n)) <= sumZ (map size2 (seq 0 n)))%Z.
Proof.
  intros H. assert (G : forall l, (forall v, In v l -> v < n) ->
                       (sumZ (map size1 l) <= sumZ (map size2 l))%Z).
  { induction l as [|x l IH]; intros Hl; [cbn; lia|]. rewrite !map_cons, !sumZ_cons.
    specialize (H x (Hl x (or_introl eq_refl))).
    assert (sumZ (map size1 l) <= sumZ (map size2 l))%Z by (apply IH; intros; apply Hl; right; assumption).
    lia. }
  apply G. intros v Hv. apply in_seq in Hv. lia.
Qed.

Lemma map_as_tab {A B} (f : A -> B) (l : list A) d :
  map f l = map (fun v => f (nth v l d)) (seq 0 (length l)).
Proof.
  apply nth_ext with (d := f d) (d' := f d).
  - rewrite !map_length, seq_length. reflexivity.
  - intros v Hv. rewrite map_length in Hv. rewrite map_nth.
    rewrite (nth_indep _ (f d) (f (nth 0 l d))) by (rewrite map_length, seq_length; exact Hv).
    rewrite (map_nth (fun v => f (nth v l d))). rewrite seq_nth by exact Hv. reflexivity.
Qed.

Theorem ball : S_ball.
Proof. intros L join dflt g c0 t v l SL Hwf Hv Hl. apply ball_thm; assumption. Qed.

Theorem nf_monotone : S_nf_monotone.
Proof.
  intros L join dflt size g c0 t SL Hsize. split.
  - intros v. apply (siter_grows L join dflt SL).
  - rewrite (map_as_tab size (sync_iter L join dflt g t c0) dflt).
    rewrite (map_as_tab size (sync_iter L join dflt g (S t) c0) dflt).
    rewrite !siter_length. apply sumZ_le. intros v Hv. apply Hsize.
    apply (siter_grows L join dflt SL).
Qed.

Theorem stable_fixpoint : S_stable_fixpoint.
Proof.
  intros L join dflt g c H k. induction k; cbn; [reflexivity|]. rewrite IHk. exact H.
Qed.

Theorem hom : S_hom.
Proof.
  intros L L' join join' d d' h Hh Hd g t c0.
  induction t as [|t IH]; cbn; [reflexivity|].
  rewrite <- IH. set (c := sync_iter L join d g t c0).
  unfold sync_step, tab. rewrite map_length. rewrite map_map. apply map_ext.
  intros v. unfold sync_node, HBallM.get.
  assert (Hget : forall w, nth w (map h c) d' = h (nth w c d)).
  { intros w. rewrite <- Hd. apply map_nth. }
  rewrite Hget. generalize (nth v c d) as a. unfold bigjoin.
  induction (succs g v) as [|w l IHl]; intros a; cbn; [reflexivity|].
  rewrite IHl. rewrite Hh. rewrite Hget. reflexivity.
Qed.

Theorem ball_mem : S_ball_mem.
Proof.
  intros L join dflt P g c0 HP [Hlen Hwf].
  assert (Hbig : forall l a, P (bigjoin L join a l) <-> P a \/ exists x, In x l /\ P x).
  { induction l as [|y l IH]; intros a.
    - cbn. split; [intros H; left; exact H | intros [H|[x [[] _]]]; exact H].
    - change (bigjoin L join a (y :: l)) with (bigjoin L join (join a y) l).
      rewrite IH. rewrite HP. split.
      + intros [[H|H]|[x [Hx Hp]]]; [left; exact H | right; exists y; split; [left; reflexivity|exact H]
                                   | right; exists x; split; [right; exact Hx|exact Hp]].
      + intros [H|[x [[->|Hx] Hp]]]; [left; left; exact H | left; right; exact Hp | right; exists x; split; assumption]. }
  induction t as [|t IH]; intros v Hv.
  - cbn. split.
    + intros H. exists v. split; [apply within_refl | exact H].
    + intros [w [Hw H]]. apply within_0 in Hw. subst. exact H.
  - cbn [sync_iter]. unfold HBallM.get at 1, sync_step.
    rewrite tab_nth by (rewrite siter_length; exact Hv).
    unfold sync_node. rewrite Hbig. split.
    + intros [H|[x [Hx Hp]]].
      * apply (IH v Hv) in H. destruct H as [w [Hw H]]. exists w. split; [|exact H].
        clear -Hw. induction Hw; [apply within_refl | eapply within_step; eassumption].
      * apply in_map_iff in Hx. destruct Hx as [u [<- Hu]].
        apply (IH u (Hwf _ _ Hu)) in Hp. destruct Hp as [w [Hw H]].
        exists w. split; [eapply within_step; eassumption | exact H].
    + intros [w [Hw H]]. apply within_S in Hw. destruct Hw as [->|[u [Hu Hw]]].
      * left. apply (IH v Hv). exists v. split; [apply within_refl | exact H].
      * right. exists (HBallM.get L dflt (sync_iter L join dflt g t c0) u). split.
        -- apply (in_map (HBallM.get L dflt (sync_iter L join dflt g t c0))). exact Hu.
        -- apply (IH u (Hwf _ _ Hu)). exists w. split; assumption.
Qed.

(** ** One iteration of the code *)
Lemma nth_repeat_lt {A} (x d : A) n v : v < n -> nth v (repeat x n) d = x.
Proof. revert v. induction n; intros v Hv; [lia|]. destruct v; cbn; [reflexivity|]. apply IHn. lia. Qed.

Lemma existsb_false_filter {A} (f : A -> bool) l : existsb f l = false -> filter f l = [].
Proof.
  induction l as [|x l IH]; cbn; [reflexivity|].
  destruct (f x); cbn; [discriminate|exact IH].
Qed.

Lemma memb_In v l : memb v l = true <-> In v l.
Proof.
  unfold memb. rewrite existsb_exists. split.
  - intros [x [Hx He]]. apply Nat.eqb_eq in He. subst. exact Hx.
  - intros H. exists v. split; [exact H | apply Nat.eqb_refl].
Qed.

Section Step.
  Variable L : Type.
  Variable join : L -> L -> L.
  Variable eqb : L -> L -> bool.
  Variable dflt : L.
  Hypothesis SL : semilattice join.
  Hypothesis EQ : eqb_spec eqb.

  Notation get := (get L dflt).
  Notation snode := (sync_node L join dflt).
  Notation sstep := (sync_step L join dflt).

  Lemma merged_eq_snode g c md v :
    (forall w, In w (succs g v) -> getb md w = false -> join (get c v) (get c w) = get c v) ->
    merged L join dflt g c md v = snode g c v.
  Proof.
    intros H. unfold merged, sync_node. apply (bigjoin_filter L join SL).
    intros w Hw Hk. unfold live in Hk. destruct (Nat.eqb w v) eqn:E.
    - apply Nat.eqb_eq in E. subst. apply (proj2 (proj2 SL)).
    - cbn in Hk. apply H; assumption.
  Qed.

  Lemma merged_nolive g c md v : anylive g md v = false -> merged L join dflt g c md v = get c v.
  Proof.
    intros H. unfold merged. unfold anylive in H. rewrite (existsb_false_filter _ _ H). reflexivity.
  Qed.

  Lemma eqb_refl a : eqb a a = true.
  Proof. apply EQ. reflexivity. Qed.

  Lemma step_nodes ext g s c scan chk :
    ainv join dflt ext g s c -> skip_ok ext g (a_mod L s) scan chk ->
    forall v, v < length c ->
      node_value L join eqb dflt ext g s scan chk v = snode g c v /\
      node_mod L join eqb dflt g s scan chk v = negb (eqb (snode g c v) (get c v)).
  Proof.
    intros [Hc [Hml [Hpp Habs]]] [Hsk1 Hsk2] v Hv.
    assert (Hm : merged L join dflt g c (a_mod L s) v = snode g c v)
      by (apply merged_eq_snode; intros w Hw Hmw; apply (Habs v w Hv Hw Hmw)).
    assert (Hstale : (if ext then get c v else get (a_next L s) v) = get c v
                     \/ (ext = false /\ getb (a_mod L s) v = true)).
    { destruct ext; [left; reflexivity|].
      destruct (getb (a_mod L s) v) eqn:Hmv; [right; split; reflexivity|].
      left. apply Hpp; [reflexivity | exact Hv | exact Hmv]. }
    unfold node_value, node_mod, emod. rewrite Hc. rewrite Hm.
    destruct (scan v && chk v) eqn:Hsc.
    - apply andb_prop in Hsc. destruct Hsc as [Hs Hk]. rewrite Hs, Hk. cbn [andb].
      destruct (eqb (snode g c v) (get c v)) eqn:He.
      + apply EQ in He. rewrite andb_false_r. cbn [orb negb]. split; [|reflexivity].
        destruct Hstale as [Hst|[-> Hmv]].
        * destruct (negb ext && getb (a_mod L s) v); [reflexivity | rewrite Hst; symmetry; exact He].
        * rewrite Hmv. reflexivity.
      + assert (Hal : anylive g (a_mod L s) v = true).
        { destruct (anylive g (a_mod L s) v) eqn:Hal; [reflexivity|].
          rewrite <- Hm in He. rewrite (merged_nolive g c _ v Hal) in He.
          rewrite eqb_refl in He. discriminate. }
        rewrite Hal. cbn. split; reflexivity.
    - assert (Hal := Hsk1 v Hsc).
      assert (Hsn : snode g c v = get c v) by (rewrite <- Hm; apply merged_nolive; exact Hal).
      rewrite Hsn. rewrite eqb_refl. cbn [negb]. split; [|reflexivity].
      destruct (scan v) eqn:Hs.
      + cbn in Hsc. rewrite Hsc.
        destruct Hstale as [Hst|[-> Hmv]].
        * destruct (negb ext && getb (a_mod L s) v); [reflexivity | exact Hst].
        * rewrite Hmv. reflexivity.
      + destruct Hstale as [Hst|[He Hmv]]; [exact Hst|].
        rewrite (Hsk2 He v Hs) in Hmv. discriminate.
  Qed.

  Lemma skip_sound_lemma ext g s c scan chk :
    wf_graph g (length c) ->
    ainv join dflt ext g s c -> skip_ok ext g (a_mod L s) scan chk ->
    ainv join dflt ext g (astep L join eqb dflt ext g s scan chk) (sstep g c) /\
    (forall v, v < length c ->
       getb (a_mod L (astep L join eqb dflt ext g s scan chk)) v
       = negb (eqb (get (sstep g c) v) (get c v))).
  Proof.
    intros [Hlen Hwf] Hinv Hsk.
    pose proof (step_nodes ext g s c scan chk Hinv Hsk) as Hn.
    destruct Hinv as [Hc [Hml [Hpp Habs]]].
    assert (Hmod : forall v, v < length c ->
               getb (a_mod L (astep L join eqb dflt ext g s scan chk)) v
               = negb (eqb (get (sstep g c) v) (get c v))).
    { intros v Hv. cbn [astep a_mod]. unfold getb. rewrite Hc. rewrite tab_nth by exact Hv.
      rewrite (sstep_get L join dflt g c v Hv). apply (proj2 (Hn v Hv)). }
    assert (Hcurr : a_curr L (astep L join eqb dflt ext g s scan chk) = sstep g c).
    { cbn [astep a_curr]. rewrite Hc. unfold sync_step. apply tab_ext. intros v Hv. apply (proj1 (Hn v Hv)). }
    split; [|exact Hmod].
    split; [exact Hcurr|]. split.
    { cbn [astep a_mod]. rewrite tab_length. rewrite Hc. symmetry. apply sstep_length. }
    rewrite (sstep_length L join dflt g c). split.
    - intros _ v Hv Hmv. cbn [astep a_next]. rewrite Hc.
      rewrite (Hmod v Hv) in Hmv. apply negb_false_iff in Hmv. apply EQ in Hmv. symmetry. exact Hmv.
    - intros v w Hv Hw Hmw.
      assert (Hwn : w < length c) by (apply (Hwf v w Hw)).
      rewrite (Hmod w Hwn) in Hmw. apply negb_false_iff in Hmw. apply EQ in Hmw.
      rewrite Hmw. rewrite (sstep_get L join dflt g c v Hv).
      rewrite (proj1 (proj2 SL)). apply (snode_ge_succ L join dflt SL). exact Hw.
  Qed.

  Lemma init_ainv ext g c0 :
    wf_graph g (length c0) ->
    ainv join dflt ext g (mkA L c0 (repeat dflt (length c0)) (repeat true (length c0))) c0.
  Proof.
    intros [Hlen Hwf]. split; [reflexivity|]. split; [apply repeat_length|]. split.
    - intros _ v Hv Hmv. cbn [a_mod] in Hmv. unfold getb in Hmv.
      rewrite nth_repeat_lt in Hmv by exact Hv. discriminate.
    - intros v w Hv Hw Hmw. cbn [a_mod] in Hmw. unfold getb in Hmw.
      rewrite nth_repeat_lt in Hmw by (apply (Hwf v w Hw)). discriminate.
  Qed.

  Lemma arun_correct ext g ds : forall s c,
    wf_graph g (length c) -> ainv join dflt ext g s c -> legal join eqb dflt ext g s ds ->
    a_curr L (arun join eqb dflt ext g s ds) = sync_iter L join dflt g (length ds) c.
  Proof.
    induction ds as [|d r IH]; intros s c Hwf Hinv Hleg.
    - cbn. apply Hinv.
    - cbn [arun length]. destruct Hleg as [Hsk Hleg].
      destruct (skip_sound_lemma ext g s c (fst d) (snd d) Hwf Hinv Hsk) as [Hinv' _].
      rewrite (siter_shift L join dflt g (length r) c).
      apply IH; [rewrite (sstep_length L join dflt g c); exact Hwf | exact Hinv' | exact Hleg].
  Qed.

  Lemma stable_code_lemma ext g s c scan chk :
    ainv join dflt ext g s c -> (forall v, getb (a_mod L s) v = false) ->
    a_curr L (astep L join eqb dflt ext g s scan chk) = c /\
    (forall v, getb (a_mod L (astep L join eqb dflt ext g s scan chk)) v = false).
  Proof.
    intros [Hc [Hml [Hpp Habs]]] Hall.
    assert (Hal : forall v, anylive g (a_mod L s) v = false).
    { intros v. unfold anylive. destruct (existsb (live (a_mod L s) v) (succs g v)) eqn:E; [|reflexivity].
      apply existsb_exists in E. destruct E as [w [_ Hl]]. unfold live in Hl. rewrite Hall in Hl.
      rewrite andb_false_r in Hl. discriminate. }
    assert (Hem : forall v, emod L join eqb dflt g (a_curr L s) (a_mod L s) v = false)
      by (intros v; unfold emod; rewrite Hal; reflexivity).
    split.
    - cbn [astep a_curr]. rewrite Hc.
      transitivity (tab (length c) (fun v => nth v c dflt)); [|apply tab_self].
      apply tab_ext. intros v Hv.
      unfold node_value. rewrite Hem, Hall. rewrite andb_false_r. cbn [orb].
      assert (Hst : (if ext then get (a_curr L s) v else get (a_next L s) v) = nth v c dflt).
      { destruct ext; [rewrite Hc; reflexivity|]. apply Hpp; [reflexivity | exact Hv | apply Hall]. }
      rewrite Hst. destruct (scan v); [destruct (chk v)|]; reflexivity.
    - intros v. cbn [astep a_mod]. unfold getb.
      destruct (Nat.lt_ge_cases v (length (a_curr L s))) as [Hv|Hv].
      + rewrite tab_nth by exact Hv. unfold node_mod. rewrite Hem. apply andb_false_r.
      + apply tab_nth_over. exact Hv.
  Qed.
End Step.

Theorem skip_sound : S_skip_sound.
Proof.
  intros L join eqb dflt ext g s c scan chk SL EQ Hwf Hinv Hsk. cbv zeta.
  apply skip_sound_lemma; assumption.
Qed.

Theorem mode_independent : S_mode_independent.
Proof.
  intros L join eqb dflt ext g c0 ds SL EQ Hwf. cbv zeta. intros Hleg.
  apply (arun_correct L join eqb dflt SL EQ ext g ds _ c0 Hwf); [|exact Hleg].
  apply init_ainv. exact Hwf.
Qed.

Theorem stable_code : S_stable_code.
Proof.
  intros L join eqb dflt ext g s c scan chk SL EQ Hwf Hinv Hall. cbv zeta.
  apply stable_code_lemma; assumption.
Qed.

(** ** Legal decisions from the bookkeeping *)
Lemma anylive_true g md v :
  anylive g md v = true -> exists w, In w (succs g v) /\ getb md w = true.
Proof.
  unfold anylive. intros H. apply existsb_exists in H. destruct H as [w [Hw Hl]].
  unfold live in Hl. apply andb_prop in Hl. exists w. split; [exact Hw | apply Hl].
Qed.

Theorem systolic_legal : S_systolic_legal.
Proof.
  intros ext g gt md mbc [_ Htr] Hmark. split.
  - intros v Hc. cbn in Hc. destruct (anylive g md v) eqn:Hal; [|reflexivity].
    apply anylive_true in Hal. destruct Hal as [w [Hw Hmw]].
    rewrite (Hmark w v Hmw) in Hc; [discriminate|]. apply Htr. exact Hw.
  - intros _ v Hs. discriminate.
Qed.

Theorem local_legal : S_local_legal.
Proof.
  intros ext g gt md check [_ Htr] Hin. split.
  - intros v Hc. rewrite andb_true_r in Hc. destruct (anylive g md v) eqn:Hal; [|reflexivity].
    apply anylive_true in Hal. destruct Hal as [w [Hw Hmw]].
    destruct (Hin w Hmw) as [_ Hp].
    assert (Hv : In v check) by (apply Hp; apply Htr; exact Hw).
    apply memb_In in Hv. rewrite Hv in Hc. discriminate.
  - intros _ v Hs. destruct (getb md v) eqn:Hmv; [|reflexivity].
    destruct (Hin v Hmv) as [Hv _]. apply memb_In in Hv. rewrite Hv in Hs. discriminate.
Qed.

(** ** Schedules *)
Lemma upd_length {A} (l : list A) v x : length (upd l v x) = length l.
Proof. revert v. induction l as [|y l IH]; intros v; cbn; [reflexivity|]. destruct v; cbn; [reflexivity|]. rewrite IH. reflexivity. Qed.

Lemma upd_nth {A} (l : list A) v x d u :
  nth u (upd l v x) d = if Nat.eqb u v && Nat.ltb v (length l) then x else nth u l d.
Proof.
  revert v u. induction l as [|y l IH]; intros v u.
  - cbn. rewrite andb_false_r. reflexivity.
  - destruct v; destruct u; cbn [upd nth length]; try reflexivity.
    rewrite IH. change (Nat.eqb (S u) (S v)) with (Nat.eqb u v).
    change (Nat.ltb (S v) (S (length l))) with (Nat.ltb v (length l)). reflexivity.
Qed.

Lemma sched_write_length {A} wr (f : nat -> A) order arr :
  length (sched_write wr f order arr) = length arr.
Proof.
  unfold sched_write. revert arr. induction order as [|v r IH]; intros arr; cbn; [reflexivity|].
  rewrite IH. destruct (wr v); [apply upd_length|reflexivity].
Qed.

Lemma sched_write_nth {A} wr (f : nat -> A) d order : forall arr u,
  nth u (sched_write wr f order arr) d
  = if existsb (Nat.eqb u) order && wr u && Nat.ltb u (length arr) then f u else nth u arr d.
Proof.
  unfold sched_write. induction order as [|v r IH]; intros arr u; [reflexivity|].
  cbn [fold_left existsb]. rewrite IH.
  assert (Hl : length (if wr v then upd arr v (f v) else arr) = length arr)
    by (destruct (wr v); [apply upd_length|reflexivity]).
  rewrite Hl.
  destruct (Nat.eqb u v) eqn:E.
  - apply Nat.eqb_eq in E. subst v. cbn [orb].
    destruct (wr u) eqn:Hw.
    + rewrite upd_nth. rewrite Nat.eqb_refl. cbn [andb].
      destruct (existsb (Nat.eqb u) r); cbn [andb]; destruct (Nat.ltb u (length arr)); reflexivity.
    + rewrite andb_false_r. reflexivity.
  - cbn [orb]. destruct (wr v); [|reflexivity].
    rewrite upd_nth. rewrite E. reflexivity.
Qed.

Theorem schedule : S_schedule.
Proof.
  intros A d wr f order arr Hperm.
  apply nth_ext with (d := d) (d' := d).
  - rewrite sched_write_length, tab_length. reflexivity.
  - intros u Hu. rewrite sched_write_length in Hu.
    rewrite sched_write_nth. rewrite tab_nth by exact Hu.
    assert (Hin : existsb (Nat.eqb u) order = true).
    { apply existsb_exists. exists u. split; [|apply Nat.eqb_refl].
      apply (Permutation_in u (Permutation_sym Hperm)). apply in_seq. lia. }
    rewrite Hin. apply Nat.ltb_lt in Hu. rewrite Hu. rewrite andb_true_r. reflexivity.
Qed.

(** ** The exact instance *)
Lemma bits_join_nth a b w : nth w (bits_join a b) false = nth w a false || nth w b false.
Proof.
  revert b w. induction a as [|x a IH]; intros b w.
  - cbn. destruct w; reflexivity.
  - destruct b as [|y b]; [cbn [bits_join]; destruct w; cbn; rewrite orb_false_r; reflexivity|].
    destruct w; cbn; [reflexivity | apply IH].
Qed.

Lemma bits_semilattice : semilattice bits_join.
Proof.
  split; [|split].
  - induction a as [|x a IH]; intros b c; [reflexivity|].
    destruct b as [|y b]; [reflexivity|]. destruct c as [|z c]; [reflexivity|].
    cbn. rewrite IH. rewrite orb_assoc. reflexivity.
  - induction a as [|x a IH]; intros b; destruct b as [|y b]; try reflexivity.
    cbn. rewrite IH. rewrite orb_comm. reflexivity.
  - induction a as [|x a IH]; [reflexivity|]. cbn. rewrite IH. rewrite orb_diag. reflexivity.
Qed.

Lemma bits_size_mono a b : bits_join a b = b -> (bits_size a <= bits_size b)%Z.
Proof.
  unfold bits_size, count_true. intros H. apply inj_le. revert b H.
  induction a as [|x a IH]; intros b H; [cbn; lia|].
  destruct b as [|y b]; [discriminate|].
  cbn in H. injection H as Hxy Hab. specialize (IH b Hab).
  cbn [filter]. destruct x; destruct y; cbn in Hxy; try discriminate; cbn [length]; lia.
Qed.

Theorem nf_monotone_exact : S_nf_monotone_exact.
Proof.
  intros g n t.
  apply (nf_monotone (list bool) bits_join [] bits_size g (singletons n) t bits_semilattice bits_size_mono).
Qed.

Theorem ball_exact : S_ball_exact.
Proof.
  intros g n t v w Hwf Hv Hw.
  assert (Hlen : length (singletons n) = n) by apply tab_length.
  assert (HP : forall a b, nth w (bits_join a b) false = true <-> nth w a false = true \/ nth w b false = true).
  { intros a b. rewrite bits_join_nth. apply orb_true_iff. }
  pose proof (ball_mem (list bool) bits_join [] (fun a => nth w a false = true) g (singletons n) HP) as H.
  rewrite Hlen in H. rewrite (H Hwf t v Hv). clear H. split.
  - intros [w' [Hwi Hb]]. unfold HBallM.get, singletons in Hb.
    destruct (Nat.lt_ge_cases w' n) as [Hw'|Hw'].
    + rewrite tab_nth in Hb by exact Hw'. unfold singleton in Hb. rewrite tab_nth in Hb by exact Hw.
      apply Nat.eqb_eq in Hb. subst. exact Hwi.
    + rewrite tab_nth_over in Hb by exact Hw'. destruct w; discriminate.
  - intros Hwi. exists w. split; [exact Hwi|]. unfold HBallM.get, singletons.
    rewrite tab_nth by exact Hw. unfold singleton. rewrite tab_nth by exact Hw. apply Nat.eqb_refl.
Qed.

(** ** The repaired defect: refutation of the pre-repair rule for the local flag *)
Definition bs (n : nat) (l : list nat) : list bool := tab n (fun i => memb i l).
Definition wit_g : graph := [[1];[2];[];[0];[0];[0];[0];[0];[0];[3];[];[];[];[]].
Definition wit_gt : graph := [[3;4;5;6;7;8];[0];[1];[9];[];[];[];[];[];[];[];[];[];[]].
Definition wit_c0 : list (list bool) :=
  [bs 14 [0]; bs 14 []; bs 14 [2]; bs 14 [3;0]; bs 14 [4;0]; bs 14 [5;0]; bs 14 [6;0]; bs 14 [7;0]; bs 14 [8;0];
   bs 14 [9;3;0]; bs 14 [10]; bs 14 [11]; bs 14 [12]; bs 14 [13]].

(** about [hb_run_prefix], the model of the code BEFORE the repair *)
Theorem nf_refuted : S_nf_refuted.
Proof.
  exists wit_g, wit_gt, wit_c0.
  split; [vm_compute; reflexivity|]. split; [reflexivity|].
  cbv zeta. split; [vm_compute; reflexivity|]. split; [vm_compute; reflexivity|].
  vm_compute. discriminate.
Qed.

(** the same witness under both rules *)
Theorem nf_witness_repaired : S_nf_witness_repaired.
Proof.
  exists wit_g, wit_gt, wit_c0.
  split; [vm_compute; reflexivity|]. split; [reflexivity|]. split.
  - cbv zeta. vm_compute. discriminate.
  - cbv zeta. split; [vm_compute; reflexivity|]. split; vm_compute; reflexivity.
Qed.

(** ** The concrete bookkeeping of [iterate] refines the abstract step *)
Lemma insert_nat_In x y l : In y (insert_nat x l) <-> y = x \/ In y l.
Proof.
  induction l as [|z l IH].
  - simpl. intuition congruence.
  - simpl. destruct (Nat.ltb x z) eqn:E1.
    + simpl. intuition congruence.
    + destruct (Nat.eqb x z) eqn:E2.
      * apply Nat.eqb_eq in E2. subst. simpl. intuition congruence.
      * simpl. rewrite IH. intuition congruence.
Qed.

Lemma sort_dedup_In y l : In y (sort_dedup l) <-> In y l.
Proof.
  induction l as [|x l IH]; [reflexivity|].
  unfold sort_dedup in *. simpl. rewrite insert_nat_In. rewrite IH. intuition congruence.
Qed.

Lemma getb_tab n f v : getb (tab n f) v = if Nat.ltb v n then f v else false.
Proof.
  unfold getb. destruct (Nat.ltb v n) eqn:E.
  - apply Nat.ltb_lt in E. apply tab_nth. exact E.
  - apply Nat.ltb_ge in E. apply tab_nth_over. exact E.
Qed.

Lemma getb_repeat b n v : getb (repeat b n) v = if Nat.ltb v n then b else false.
Proof.
  unfold getb. destruct (Nat.ltb v n) eqn:E.
  - apply Nat.ltb_lt in E. apply nth_repeat_lt. exact E.
  - apply Nat.ltb_ge in E. apply nth_overflow. rewrite repeat_length. exact E.
Qed.

Lemma succs_nonempty_lt (g : graph) u x : In x (succs g u) -> u < length g.
Proof.
  intros H. destruct (Nat.lt_ge_cases u (length g)) as [Hu|Hu]; [exact Hu|].
  unfold succs in H. rewrite nth_overflow in H by exact Hu. destruct H.
Qed.

(** ** Sums *)
Lemma sumZ_app l1 l2 : sumZ (l1 ++ l2) = (sumZ l1 + sumZ l2)%Z.
Proof. induction l1 as [|x l1 IH]; [reflexivity|]. cbn [app]. rewrite !sumZ_cons, IH. lia. Qed.

Lemma sumZ_filter0 {A} (f : A -> Z) (p : A -> bool) l :
  (forall x, In x l -> p x = false -> f x = 0%Z) ->
  sumZ (map f (filter p l)) = sumZ (map f l).
Proof.
  induction l as [|x l IH]; intros H; [reflexivity|].
  cbn [filter map]. assert (IH' := IH (fun y Hy => H y (or_intror Hy))).
  destruct (p x) eqn:E.
  - cbn [map]. rewrite !sumZ_cons, IH'. reflexivity.
  - rewrite sumZ_cons, IH'. rewrite (H x (or_introl eq_refl) E). lia.
Qed.

Lemma sumZ_sub {A} (f h : A -> Z) l :
  sumZ (map (fun x => f x - h x)%Z l) = (sumZ (map f l) - sumZ (map h l))%Z.
Proof. induction l as [|x l IH]; [reflexivity|]. cbn [map]. rewrite !sumZ_cons, IH. lia. Qed.

Lemma sumZ_ones {A} (f : A -> Z) l :
  (forall x, In x l -> f x = 1%Z) -> sumZ (map f l) = Z.of_nat (length l).
Proof.
  induction l as [|x l IH]; intros H; [reflexivity|].
  cbn [map length]. rewrite sumZ_cons, (H x (or_introl eq_refl)), (IH (fun y Hy => H y (or_intror Hy))). lia.
Qed.

Lemma filter_all {A} (p : A -> bool) l : (forall x, In x l -> p x = true) -> filter p l = l.
Proof.
  induction l as [|x l IH]; intros H; [reflexivity|].
  cbn [filter]. rewrite (H x (or_introl eq_refl)), (IH (fun y Hy => H y (or_intror Hy))). reflexivity.
Qed.

Section Concrete.
  Variable L : Type.
  Variable join : L -> L -> L.
  Variable eqb : L -> L -> bool.
  Variable dflt : L.
  Variable size : L -> Z.
  Hypothesis SL : semilattice join.
  Hypothesis EQ : eqb_spec eqb.
  Variable ext : bool.
  Variables g gt : graph.

  Notation sstep := (sync_step L join dflt).

  (** the local flag of the repaired code: [pre_local && systolic] *)
  Definition k_local (s : cstate L) (sys : bool) := c_prelocal L s && sys.
  Definition k_check (s : cstate L) (sys : bool) :=
    if k_local s sys then sort_dedup (c_buf L s) else c_check L s.
  Definition k_mbc0 (s : cstate L) (sys : bool) :=
    if negb (k_local s sys) && sys && negb (c_sys L s)
    then repeat true (length (a_curr L (c_arr L s))) else c_mbc L s.
  Definition k_scan (s : cstate L) (sys : bool) := fun v => if k_local s sys then memb v (k_check s sys) else true.
  Definition k_chk (s : cstate L) (sys : bool) := fun v => negb sys || k_local s sys || getb (k_mbc0 s sys) v.
  Definition k_nmod0 (s : cstate L) :=
    let n := length (a_curr L (c_arr L s)) in
    if c_local L s then tab n (fun v => getb (c_nmod L s) v && negb (memb v (c_check L s))) else repeat false n.
  Definition k_modified (s : cstate L) (sys : bool) :=
    filter (fun v => node_mod L join eqb dflt g (c_arr L s) (k_scan s sys) (k_chk s sys) v)
           (seq 0 (length (a_curr L (c_arr L s)))).

  Definition cinv (s : cstate L) (c : list L) : Prop :=
    ainv join dflt ext g (c_arr L s) c /\
    (c_prelocal L s = true -> forall v, getb (a_mod L (c_arr L s)) v = true ->
        In v (c_buf L s) /\ forall u, In u (succs gt v) -> In u (c_buf L s)) /\
    (c_sys L s = true -> c_prelocal L s = false ->
        forall v u, getb (a_mod L (c_arr L s)) v = true -> In u (succs gt v) -> getb (c_mbc L s) u = true) /\
    (c_local L s = true -> forall v, getb (c_nmod L s) v = true -> In v (c_check L s)).

  Lemma cstep_fields s sys pl :
    let s' := cstep L join eqb dflt size ext g gt s sys pl in
    let a' := astep L join eqb dflt ext g (c_arr L s) (k_scan s sys) (k_chk s sys) in
    let n := length (a_curr L (c_arr L s)) in
    c_arr L s' = mkA L (a_curr L a') (a_next L a')
                     (tab n (fun v => getb (k_nmod0 s) v
                                      || node_mod L join eqb dflt g (c_arr L s) (k_scan s sys) (k_chk s sys) v)) /\
    c_nmod L s' = a_mod L (c_arr L s) /\
    c_sys L s' = sys /\ c_local L s' = k_local s sys /\ c_prelocal L s' = pl /\
    c_check L s' = k_check s sys /\
    c_buf L s' = (if pl then flat_map (fun v => v :: succs gt v) (k_modified s sys) else []) /\
    c_iter L s' = S (c_iter L s) /\
    (sys = true -> pl = false ->
       c_mbc L s' = tab n (fun u => getb (if negb (k_local s sys) && sys then repeat false n else c_nmbc L s) u
                                    || existsb (fun v => memb u (succs gt v)) (k_modified s sys))) /\
    c_last L s' =
      (if sys
       then (c_last L s + sumZ (map (fun v => size (get L dflt (a_curr L a') v)
                                              - size (get L dflt (a_curr L (c_arr L s)) v)) (k_modified s sys)))%Z
       else sumZ (map (fun v => size (merged L join dflt g (a_curr L (c_arr L s)) (a_mod L (c_arr L s)) v))
                      (filter (fun v => k_scan s sys v && k_chk s sys v) (seq 0 n)))) /\
    c_nf L s' = Z.max (c_last L s') (hd 0%Z (c_nf L s)) :: c_nf L s.
  Proof.
    cbv zeta. repeat split.
    intros -> ->. reflexivity.
  Qed.

  Lemma k_nmod0_false s c : cinv s c -> forall v, getb (k_nmod0 s) v = false.
  Proof.
    intros [_ [_ [_ Hc]]] v. unfold k_nmod0. destruct (c_local L s) eqn:El.
    - rewrite getb_tab. destruct (Nat.ltb v _); [|reflexivity].
      destruct (getb (c_nmod L s) v) eqn:E; [|reflexivity].
      cbn. apply (Hc eq_refl) in E. apply memb_In in E. rewrite E. reflexivity.
    - rewrite getb_repeat. destruct (Nat.ltb v _); reflexivity.
  Qed.

  Lemma k_skip_ok s c sys :
    wf_graph g (length c) -> cinv s c ->
    (sys = true \/ c_prelocal L s = true -> is_transpose g gt) ->
    skip_ok ext g (a_mod L (c_arr L s)) (k_scan s sys) (k_chk s sys).
  Proof.
    intros [Hlen Hwf] [Hainv [Ha [Hb _]]] Htr.
    unfold k_scan, k_chk. destruct (k_local s sys) eqn:Eloc.
    - (* local (hence systolic) *)
      pose proof Eloc as Eloc'. unfold k_local in Eloc'. apply andb_prop in Eloc'. destruct Eloc' as [Epl Es].
      assert (Hloc := local_legal ext g gt (a_mod L (c_arr L s)) (k_check s sys) (Htr (or_intror Epl))).
      assert (Hin : forall v, getb (a_mod L (c_arr L s)) v = true ->
                     In v (k_check s sys) /\ (forall u, In u (succs gt v) -> In u (k_check s sys))).
      { intros v Hv. unfold k_check. rewrite Eloc. destruct (Ha Epl v Hv) as [H1 H2].
        split; [apply sort_dedup_In; exact H1 | intros u Hu; apply sort_dedup_In; apply H2; exact Hu]. }
      specialize (Hloc Hin). destruct Hloc as [H1 H2]. split.
      + intros v Hv. apply H1. rewrite orb_true_r in Hv. rewrite andb_true_r in *. exact Hv.
      + exact H2.
    - destruct sys eqn:Es.
      + (* systolic, not local: the last iteration was not pre-local *)
        assert (Epl : c_prelocal L s = false) by (unfold k_local in Eloc; rewrite andb_true_r in Eloc; exact Eloc).
        cbn [negb orb]. unfold k_mbc0. rewrite Eloc. cbn [negb andb].
        destruct (c_sys L s) eqn:Eps; cbn [negb].
        * apply (systolic_legal ext g gt _ _ (Htr (or_introl eq_refl))).
          intros v u Hv Hu. apply (Hb eq_refl Epl v u Hv Hu).
        * split; [|intros _ v Hv; discriminate].
          intros v Hv. cbn [andb] in Hv. rewrite getb_repeat in Hv.
          destruct (Nat.ltb v _) eqn:Ev; [discriminate|]. apply Nat.ltb_ge in Ev.
          destruct Hainv as [Hc _]. rewrite Hc in Ev.
          unfold anylive, succs. rewrite nth_overflow by lia. reflexivity.
      + (* standard: every node is scanned and checked *)
        split; [intros v Hv; discriminate | intros _ v Hv; discriminate].
  Qed.

  Lemma cstep_inv s c sys pl :
    wf_graph g (length c) -> cinv s c -> (pl = true -> sys = true) ->
    (sys = true \/ c_prelocal L s = true -> is_transpose g gt) ->
    cinv (cstep L join eqb dflt size ext g gt s sys pl) (sstep g c).
  Proof.
    intros Hwf Hinv Hpl Htr.
    pose proof (k_skip_ok s c sys Hwf Hinv Htr) as Hsk.
    pose proof (k_nmod0_false s c Hinv) as Hnm.
    destruct (cstep_fields s sys pl) as [Farr [Fnmod [Fsys [Floc [Fpl [Fchk [Fbuf [_ [Fmbc _]]]]]]]]].
    destruct Hinv as [Hainv [Ha [Hb Hc]]].
    destruct (skip_sound_lemma L join eqb dflt SL EQ ext g (c_arr L s) c (k_scan s sys) (k_chk s sys) Hwf Hainv Hsk)
      as [Hainv' Hmod'].
    assert (Hcn : length (a_curr L (c_arr L s)) = length c) by (destruct Hainv as [-> _]; reflexivity).
    assert (Hmd : tab (length (a_curr L (c_arr L s)))
                    (fun v => getb (k_nmod0 s) v || node_mod L join eqb dflt g (c_arr L s) (k_scan s sys) (k_chk s sys) v)
                  = a_mod L (astep L join eqb dflt ext g (c_arr L s) (k_scan s sys) (k_chk s sys))).
    { cbn [astep a_mod]. apply tab_ext. intros v _. rewrite Hnm. reflexivity. }
    rewrite Hmd in Farr.
    assert (Farr' : c_arr L (cstep L join eqb dflt size ext g gt s sys pl)
                    = astep L join eqb dflt ext g (c_arr L s) (k_scan s sys) (k_chk s sys)).
    { rewrite Farr. reflexivity. }
    assert (Hmodin : forall v, getb (a_mod L (astep L join eqb dflt ext g (c_arr L s) (k_scan s sys) (k_chk s sys))) v = true ->
                      In v (k_modified s sys)).
    { intros v Hv. cbn [astep a_mod] in Hv. rewrite getb_tab in Hv.
      destruct (Nat.ltb v _) eqn:Ev; [|discriminate]. apply Nat.ltb_lt in Ev.
      unfold k_modified. apply filter_In. split; [apply in_seq; lia | exact Hv]. }
    unfold cinv. rewrite Farr', Fnmod, Fsys, Floc, Fpl, Fchk, Fbuf.
    split; [exact Hainv'|]. split; [|split].
    - intros -> v Hv. apply Hmodin in Hv. split.
      + apply in_flat_map. exists v. split; [exact Hv | left; reflexivity].
      + intros u Hu. apply in_flat_map. exists v. split; [exact Hv | right; exact Hu].
    - intros -> -> v u Hv Hu. rewrite (Fmbc eq_refl eq_refl). rewrite getb_tab.
      assert (Hun : u < length (a_curr L (c_arr L s))).
      { rewrite Hcn. destruct Hwf as [Hlen _]. rewrite <- Hlen.
        destruct (Htr (or_introl eq_refl)) as [_ Ht]. apply (proj1 (Ht u v)) in Hu. apply (succs_nonempty_lt g u v Hu). }
      apply Nat.ltb_lt in Hun. rewrite Hun. apply orb_true_iff. right.
      apply existsb_exists. exists v. split; [apply Hmodin; exact Hv | apply memb_In; exact Hu].
    - intros Hl v Hv. unfold k_check. rewrite Hl. apply sort_dedup_In.
      unfold k_local in Hl. apply andb_prop in Hl. apply (proj1 (Ha (proj1 Hl) v Hv)).
  Qed.

  (** the value of the neighbourhood function computed by an iteration ([self.last]): a
      standard iteration scans every node; a systolic one (local or not) compensates the
      previous value with the differences of the modified counters, and a counter that is
      not flagged modified did not change *)
  Lemma cstep_last s c sys pl :
    wf_graph g (length c) -> cinv s c ->
    (sys = true \/ c_prelocal L s = true -> is_transpose g gt) ->
    (sys = true -> c_last L s = sumZ (map size c)) ->
    c_last L (cstep L join eqb dflt size ext g gt s sys pl) = sumZ (map size (sstep g c)).
  Proof.
    intros Hwf Hinv Htr Hlast.
    pose proof (k_skip_ok s c sys Hwf Hinv Htr) as Hsk.
    destruct (cstep_fields s sys pl) as [_ [_ [_ [_ [_ [_ [_ [_ [_ [Flast _]]]]]]]]]].
    destruct Hinv as [Hainv _].
    pose proof (step_nodes L join eqb dflt SL EQ ext g (c_arr L s) c (k_scan s sys) (k_chk s sys) Hainv Hsk) as Hn.
    destruct (skip_sound_lemma L join eqb dflt SL EQ ext g (c_arr L s) c (k_scan s sys) (k_chk s sys) Hwf Hainv Hsk)
      as [[Hc' _] _].
    destruct Hainv as [Hc [_ [_ Habs]]].
    rewrite Flast. clear Flast. destruct sys.
    - rewrite (Hlast eq_refl). rewrite Hc'. unfold k_modified. rewrite Hc.
      rewrite sumZ_filter0.
      + rewrite (sumZ_sub (fun v => size (get L dflt (sstep g c) v)) (fun v => size (get L dflt c v))).
        rewrite (map_as_tab size c dflt). rewrite (map_as_tab size (sstep g c) dflt).
        rewrite (sstep_length L join dflt g c). unfold HBallM.get. lia.
      + intros v Hv Hm. apply in_seq in Hv. assert (Hvl : v < length c) by lia.
        rewrite (proj2 (Hn v Hvl)) in Hm. apply negb_false_iff in Hm. apply EQ in Hm.
        rewrite (sstep_get L join dflt g c v Hvl). rewrite Hm. lia.
    - rewrite filter_all.
      + rewrite Hc. unfold sync_step, tab. rewrite map_map. f_equal. apply map_ext_in.
        intros v Hv. apply in_seq in Hv. f_equal. apply (merged_eq_snode L join dflt SL).
        intros w Hw Hmw. apply (Habs v w); [lia | exact Hw | exact Hmw].
      + intros v _. unfold k_scan, k_chk, k_local. rewrite andb_false_r. reflexivity.
  Qed.

  Variable has_tr : bool.
  Hypothesis Htr : has_tr = true -> is_transpose g gt.
  Variable c0 : list L.
  Hypothesis Hwf : wf_graph g (length c0).

  Notation nf := (nf_at join dflt size g c0).

  Definition rinv (s : cstate L) : Prop :=
    cinv s (sync_iter L join dflt g (c_iter L s) c0) /\ (c_prelocal L s = true -> has_tr = true) /\
    (c_iter L s <> 0 -> c_last L s = nf (c_iter L s)) /\
    ((forall a b, join a b = b -> (size a <= size b)%Z) -> sumZ (map size c0) = Z.of_nat (length c0) ->
     rev (c_nf L s) = map nf (seq 0 (S (c_iter L s)))).

  Lemma decide_props n m it cnt sys pl :
    decide has_tr n m it cnt = (sys, pl) ->
    (pl = true -> sys = true) /\ (sys = true -> has_tr = true) /\ (sys = true -> it <> 0).
  Proof.
    unfold decide. intros H. injection H as Hs Hp. subst sys pl. split; [|split].
    - intros H. apply andb_prop in H. apply H.
    - intros H. destruct has_tr; [reflexivity | discriminate H].
    - intros H Hit. subst it. destruct has_tr; discriminate H.
  Qed.

  Lemma rinv_step s sys pl :
    rinv s -> decide has_tr (length (a_curr L (c_arr L s))) (num_arcs g) (c_iter L s) (c_count L s) = (sys, pl) ->
    rinv (cstep L join eqb dflt size ext g gt s sys pl).
  Proof.
    intros [Hc [Hp [Hl Hh]]] Hd. destruct (decide_props _ _ _ _ _ _ Hd) as [Hpl [Hsys Hit]].
    destruct (cstep_fields s sys pl) as [_ [_ [_ [_ [Fpl [_ [_ [Fit [_ [_ Fnf]]]]]]]]]].
    assert (Hwf' : wf_graph g (length (sync_iter L join dflt g (c_iter L s) c0)))
      by (rewrite (siter_length L join dflt); exact Hwf).
    assert (Htr' : sys = true \/ c_prelocal L s = true -> is_transpose g gt)
      by (intros [H|H]; apply Htr; [apply Hsys; exact H | apply Hp; exact H]).
    assert (Hlast' : c_last L (cstep L join eqb dflt size ext g gt s sys pl) = nf (S (c_iter L s))).
    { unfold nf_at. cbn [sync_iter]. apply cstep_last; [exact Hwf' | exact Hc | exact Htr' |].
      intros Hs. apply Hl. apply Hit. exact Hs. }
    unfold rinv. rewrite Fit, Fpl. split; [|split; [|split]].
    - cbn [sync_iter]. apply cstep_inv; [exact Hwf' | exact Hc | exact Hpl | exact Htr'].
    - intros H. apply Hsys. apply Hpl. exact H.
    - intros _. exact Hlast'.
    - intros Hmono Hinit. specialize (Hh Hmono Hinit).
      rewrite Fnf. rewrite Hlast'. cbn [rev]. rewrite Hh.
      assert (Hhd : hd 0%Z (c_nf L s) = nf (c_iter L s)).
      { rewrite <- (rev_involutive (c_nf L s)). rewrite Hh. rewrite seq_S, map_app, rev_app_distr. reflexivity. }
      rewrite Hhd.
      assert (Hle : (nf (c_iter L s) <= nf (S (c_iter L s)))%Z)
        by (apply (proj2 (nf_monotone L join dflt size g c0 (c_iter L s) SL Hmono))).
      rewrite Z.max_l by exact Hle.
      rewrite (seq_S (S (c_iter L s)) 0). rewrite map_app. reflexivity.
  Qed.

  Lemma crun_inv fuel : forall s, rinv s ->
    forall s', In s' (crun L join eqb dflt size ext has_tr g gt fuel s) -> rinv s'.
  Proof.
    unfold crun. induction fuel as [|f IH]; intros s Hs s' Hin; [destruct Hin|].
    cbn [crun_gen] in Hin.
    destruct (decide has_tr (length (a_curr L (c_arr L s))) (num_arcs g) (c_iter L s) (c_count L s)) as [sys pl] eqn:Hd.
    pose proof (rinv_step s sys pl Hs Hd) as Hs1.
    destruct Hin as [<-|Hin]; [exact Hs1|].
    destruct (Nat.eqb _ 0); [destruct Hin|]. apply (IH _ Hs1 s' Hin).
  Qed.

  Lemma init_rinv : rinv (init_state L dflt c0).
  Proof.
    split; [|split; [intros H; discriminate | split]].
    - cbn [init_state c_iter sync_iter]. split; [|split; [|split]].
      + apply (init_ainv L join dflt ext g c0 Hwf).
      + intros H; discriminate.
      + intros H; discriminate.
      + intros H; discriminate.
    - intros H. exfalso. apply H. reflexivity.
    - intros _ Hinit. cbn [init_state c_nf c_iter rev app seq map]. unfold nf_at. cbn [sync_iter].
      rewrite Hinit. reflexivity.
  Qed.

  (** the repaired code: local only when systolic *)
  Lemma crun_local_sys fuel : forall s s',
    In s' (crun L join eqb dflt size ext has_tr g gt fuel s) -> c_local L s' = true -> c_sys L s' = true.
  Proof.
    unfold crun. induction fuel as [|f IH]; intros s s' Hin; [destruct Hin|].
    cbn [crun_gen] in Hin.
    destruct (decide has_tr (length (a_curr L (c_arr L s))) (num_arcs g) (c_iter L s) (c_count L s)) as [sys pl].
    destruct Hin as [<-|Hin].
    - destruct (cstep_fields s sys pl) as [_ [_ [Fsys [Floc _]]]].
      fold (cstep L join eqb dflt size ext g gt s sys pl). rewrite Fsys, Floc.
      unfold k_local. intros H. apply andb_prop in H. apply H.
    - destruct (Nat.eqb _ 0); [destruct Hin|]. apply (IH _ s' Hin).
  Qed.
End Concrete.

Theorem concrete_full : S_concrete_full.
Proof.
  intros L join eqb dflt size ext has_tr g gt ub c0 SL EQ Hwf Htr. cbv zeta. intros s Hin.
  unfold hb_run, hb_run_gen in Hin.
  pose proof (crun_inv L join eqb dflt size SL EQ ext g gt has_tr Htr c0 Hwf _ _
                (init_rinv L join dflt size ext g gt has_tr c0 Hwf) s Hin) as [[[Hc _] _] _].
  exact Hc.
Qed.

Theorem nf_exact : S_nf_exact.
Proof.
  intros L join eqb dflt size ext has_tr g gt ub c0 SL EQ Hwf Htr. cbv zeta. intros s Hin.
  unfold hb_run, hb_run_gen in Hin.
  assert (Hit : c_iter L s <> 0).
  { clear -Hin. revert Hin. generalize (init_state L dflt c0). generalize (Nat.min ub (length c0)).
    induction n as [|f IH]; intros s0 Hin; [destruct Hin|].
    cbn [crun_gen] in Hin. destruct (decide _ _ _ _ _) as [sys pl].
    destruct Hin as [<-|Hin]; [cbn; discriminate|].
    destruct (Nat.eqb _ 0); [destruct Hin|]. apply (IH _ Hin). }
  pose proof (crun_inv L join eqb dflt size SL EQ ext g gt has_tr Htr c0 Hwf _ _
                (init_rinv L join dflt size ext g gt has_tr c0 Hwf) s Hin) as [[[Hc _] _] [_ [Hl Hh]]].
  split; [apply Hl; exact Hit|]. split; [|exact Hh].
  rewrite Hc. apply Hl. exact Hit.
Qed.

Theorem local_systolic : S_local_systolic.
Proof.
  intros L join eqb dflt size ext has_tr g gt ub c0 s Hin.
  apply (crun_local_sys L join eqb dflt size ext g gt has_tr _ _ s Hin).
Qed.

(** ** The exact instance of the neighbourhood function *)
Lemma bits_eqb_spec : eqb_spec bits_eqb.
Proof.
  intros a. induction a as [|x a IH]; intros b; destruct b as [|y b]; cbn [bits_eqb];
    try (split; [discriminate | discriminate]); [split; reflexivity|].
  rewrite andb_true_iff, IH, Bool.eqb_true_iff. split.
  - intros [-> ->]. reflexivity.
  - intros H. injection H as -> ->. split; reflexivity.
Qed.

Lemma count_eqb_seq v k : forall a,
  count_true (map (Nat.eqb v) (seq a k)) = if Nat.leb a v && Nat.ltb v (a + k) then 1 else 0.
Proof.
  unfold count_true. induction k as [|k IH]; intros a.
  - cbn [seq map filter length]. destruct (Nat.leb a v && Nat.ltb v (a + 0)) eqn:E; [lia | reflexivity].
  - cbn [seq map filter]. specialize (IH (S a)).
    destruct (Nat.eqb v a) eqn:E1; cbn [length]; rewrite IH;
      destruct (Nat.leb (S a) v && Nat.ltb v (S a + k)) eqn:E2;
      destruct (Nat.leb a v && Nat.ltb v (a + S k)) eqn:E3; lia.
Qed.

Lemma singletons_size n : sumZ (map bits_size (singletons n)) = Z.of_nat (length (singletons n)).
Proof.
  apply sumZ_ones. intros x Hx. unfold singletons, tab in Hx. apply in_map_iff in Hx.
  destruct Hx as [v [<- Hv]]. apply in_seq in Hv. unfold bits_size, singleton, tab.
  rewrite count_eqb_seq.
  destruct (Nat.leb 0 v && Nat.ltb v (0 + n)) eqn:E; lia.
Qed.

Theorem nf_exact_bits : S_nf_exact_bits.
Proof.
  intros ext has_tr g gt n ub Hwf Htr. cbv zeta. intros s Hin.
  assert (Hlen : length (singletons n) = n) by apply tab_length.
  assert (Hwf' : wf_graph g (length (singletons n))) by (rewrite Hlen; exact Hwf).
  destruct (nf_exact (list bool) bits_join bits_eqb [] bits_size ext has_tr g gt ub (singletons n)
              bits_semilattice bits_eqb_spec Hwf' Htr s Hin) as [H1 [_ H3]].
  specialize (H3 bits_size_mono (singletons_size n)).
  split; [exact H1|]. split; [|exact H3].
  rewrite <- (rev_involutive (c_nf _ s)). rewrite H3. rewrite seq_S, map_app, rev_app_distr. reflexivity.
Qed.
