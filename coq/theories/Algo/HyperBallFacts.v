(** Proofs of the C19 statements. *)
From WG Require Import Base.Prelude Algo.HyperBall Algo.HyperBallStatements.
From Coq Require Import ZifyBool ZifyN ZifyNat.

(** ** Lists *)
Lemma tab_length {A} n (f : nat -> A) : length (tab n f) = n.
Proof. unfold tab. rewrite map_length, seq_length. reflexivity. Qed.

Lemma tab_nth {A} n (f : nat -> A) d v : v < n -> nth v (tab n f) d = f v.
Proof.
  intros Hv. unfold tab.
  rewrite (nth_indep _ d (f 0)) by (rewrite map_length, seq_length; exact Hv).
  rewrite map_nth. rewrite seq_nth by exact Hv. reflexivity.
Qed.

Lemma tab_nth_over {A} n (f : nat -> A) d v : n <= v -> nth v (tab n f) d = d.
Proof. intros Hv. apply nth_overflow. rewrite tab_length. exact Hv. Qed.

Lemma tab_ext {A} n (f h : nat -> A) : (forall v, v < n -> f v = h v) -> tab n f = tab n h.
Proof.
  intros H. unfold tab. apply map_ext_in. intros v Hv. apply in_seq in Hv. apply H. lia.
Qed.

Lemma tab_self {A} (l : list A) d : tab (length l) (fun v => nth v l d) = l.
Proof.
  apply nth_ext with (d := d) (d' := d).
  - apply tab_length.
  - intros v Hv. rewrite tab_length in Hv. rewrite tab_nth by exact Hv. reflexivity.
Qed.

Section Lattice.
  Variable L : Type.
  Variable join : L -> L -> L.
  Variable dflt : L.
  Hypothesis SL : semilattice join.

  Let jassoc : forall a b c, join a (join b c) = join (join a b) c := proj1 SL.
  Let jcomm : forall a b, join a b = join b a := proj1 (proj2 SL).
  Let jidem : forall a, join a a = a := proj2 (proj2 SL).

  Definition le (a b : L) : Prop := join a b = b.

  Lemma le_refl a : le a a.
  Proof. apply jidem. Qed.
  Lemma le_trans a b c : le a b -> le b c -> le a c.
  Proof. unfold le. intros H1 H2. rewrite <- H2. rewrite jassoc. rewrite H1. reflexivity. Qed.
  Lemma le_antisym a b : le a b -> le b a -> a = b.
  Proof. unfold le. intros H1 H2. transitivity (join a b); [rewrite jcomm; symmetry; exact H2 | exact H1]. Qed.
  Lemma le_join_l a b : le a (join a b).
  Proof. unfold le. rewrite jassoc. rewrite jidem. reflexivity. Qed.
  Lemma le_join_r a b : le b (join a b).
  Proof. unfold le. rewrite (jcomm a b). rewrite jassoc. rewrite jidem. reflexivity. Qed.
  Lemma join_lub a b u : le a u -> le b u -> le (join a b) u.
  Proof. unfold le. intros H1 H2. rewrite <- jassoc. rewrite H2. exact H1. Qed.

  Lemma bigjoin_ge_acc l a : le a (bigjoin L join a l).
  Proof.
    revert a. induction l as [|x l IH]; intros a; cbn.
    - apply le_refl.
    - eapply le_trans; [apply le_join_l | apply IH].
  Qed.
  Lemma bigjoin_ge_in l a x : In x l -> le x (bigjoin L join a l).
  Proof.
    revert a. induction l as [|y l IH]; intros a Hin; cbn; [destruct Hin|].
    destruct Hin as [->|Hin].
    - eapply le_trans; [apply le_join_r | apply bigjoin_ge_acc].
    - apply IH. exact Hin.
  Qed.
  Lemma bigjoin_lub l a u : le a u -> (forall x, In x l -> le x u) -> le (bigjoin L join a l) u.
  Proof.
    revert a. induction l as [|y l IH]; intros a Ha Hl; cbn; [exact Ha|].
    apply IH.
    - apply join_lub; [exact Ha | apply Hl; left; reflexivity].
    - intros x Hx. apply Hl. right. exact Hx.
  Qed.

  (** dropping absorbed elements does not change a join *)
  Lemma bigjoin_filter (f : nat -> L) (keep : nat -> bool) l a :
    (forall w, In w l -> keep w = false -> join a (f w) = a) ->
    bigjoin L join a (map f (filter keep l)) = bigjoin L join a (map f l).
  Proof.
    revert a. induction l as [|x l IH]; intros a H; cbn; [reflexivity|].
    destruct (keep x) eqn:Hk; cbn.
    - apply IH. intros w Hw Hkw.
      rewrite <- jassoc. rewrite (jcomm (f x) (f w)). rewrite jassoc.
      rewrite (H w (or_intror Hw) Hkw). reflexivity.
    - rewrite (H x (or_introl eq_refl) Hk). apply IH.
      intros w Hw Hkw. apply H; [right; exact Hw | exact Hkw].
  Qed.

  Notation get := (get L dflt).
  Notation sstep := (sync_step L join dflt).
  Notation siter := (sync_iter L join dflt).
  Notation snode := (sync_node L join dflt).

  Lemma sstep_length g c : length (sstep g c) = length c.
  Proof. apply tab_length. Qed.
  Lemma siter_length g t c : length (siter g t c) = length c.
  Proof. induction t; cbn; [reflexivity|]. rewrite sstep_length. exact IHt. Qed.
  Lemma sstep_get g c v : v < length c -> get (sstep g c) v = snode g c v.
  Proof. intros Hv. unfold HyperBall.get, sync_step. apply tab_nth. exact Hv. Qed.
  Lemma sstep_get_over g c v : length c <= v -> get (sstep g c) v = dflt.
  Proof. intros Hv. unfold HyperBall.get, sync_step. apply tab_nth_over. exact Hv. Qed.
  Lemma get_over c v : length c <= v -> get c v = dflt.
  Proof. intros Hv. unfold HyperBall.get. apply nth_overflow. exact Hv. Qed.

  Lemma snode_ge_self g c v : le (get c v) (snode g c v).
  Proof. apply bigjoin_ge_acc. Qed.
  Lemma snode_ge_succ g c v w : In w (succs g v) -> le (get c w) (snode g c v).
  Proof. intros Hw. apply bigjoin_ge_in. apply in_map. exact Hw. Qed.
  Lemma snode_lub g c v u :
    le (get c v) u -> (forall w, In w (succs g v) -> le (get c w) u) -> le (snode g c v) u.
  Proof.
    intros H1 H2. apply bigjoin_lub; [exact H1|].
    intros x Hx. apply in_map_iff in Hx. destruct Hx as [w [<- Hw]]. apply H2. exact Hw.
  Qed.

  Lemma siter_shift g t c : siter g (S t) c = siter g t (sstep g c).
  Proof. induction t; cbn; [reflexivity|]. cbn in IHt. rewrite IHt. reflexivity. Qed.

  (** ** The ball characterisation *)
  Lemma within_mono g t v w : within g t v w -> within g (S t) v w.
  Proof.
    induction 1.
    - apply within_refl.
    - eapply within_step; eassumption.
  Qed.
  Lemma within_0 g v w : within g 0 v w -> w = v.
  Proof. inversion 1. reflexivity. Qed.
  Lemma within_S g t v w :
    within g (S t) v w -> w = v \/ exists u, In u (succs g v) /\ within g t u w.
  Proof. inversion 1; subst; [left; reflexivity | right; eauto]. Qed.

  Lemma ball_lub g c0 : wf_graph g (length c0) ->
    forall t v, v < length c0 ->
      (forall w, within g t v w -> le (get c0 w) (get (siter g t c0) v)) /\
      (forall u, (forall w, within g t v w -> le (get c0 w) u) -> le (get (siter g t c0) v) u).
  Proof.
    intros [Hlen Hwf]. induction t as [|t IH]; intros v Hv.
    - cbn. split.
      + intros w Hw. apply within_0 in Hw. subst. apply le_refl.
      + intros u Hu. apply Hu. apply within_refl.
    - cbn [sync_iter]. rewrite sstep_get by (rewrite siter_length; exact Hv). split.
      + intros w Hw. apply within_S in Hw. destruct Hw as [->|[u [Hu Hw]]].
        * eapply le_trans; [|apply snode_ge_self]. apply (proj1 (IH v Hv)). apply within_refl.
        * eapply le_trans; [|apply snode_ge_succ; exact Hu].
          apply (proj1 (IH u (Hwf _ _ Hu))). exact Hw.
      + intros u Hu. apply snode_lub.
        * apply (proj2 (IH v Hv)). intros w Hw. apply Hu. apply within_mono. exact Hw.
        * intros x Hx. apply (proj2 (IH x (Hwf _ _ Hx))).
          intros w Hw. apply Hu. eapply within_step; eassumption.
  Qed.

  Lemma ball_thm g c0 t v l :
    wf_graph g (length c0) -> v < length c0 ->
    (forall w, In w l <-> within g t v w) ->
    get (siter g t c0) v = bigjoin L join (get c0 v) (map (get c0) l).
  Proof.
    intros Hwf Hv Hl. destruct (ball_lub g c0 Hwf t v Hv) as [Hub Hleast].
    apply le_antisym.
    - apply Hleast. intros w Hw. apply bigjoin_ge_in. apply in_map. apply Hl. exact Hw.
    - apply bigjoin_lub.
      + apply Hub. apply within_refl.
      + intros x Hx. apply in_map_iff in Hx. destruct Hx as [w [<- Hw]]. apply Hub. apply Hl. exact Hw.
  Qed.

  (** ** Growth *)
  Lemma siter_grows g c0 t v : le (get (siter g t c0) v) (get (siter g (S t) c0) v).
  Proof.
    cbn [sync_iter]. destruct (Nat.lt_ge_cases v (length (siter g t c0))) as [Hv|Hv].
    - rewrite sstep_get by exact Hv. apply snode_ge_self.
    - rewrite sstep_get_over by exact Hv. rewrite get_over by exact Hv. apply le_refl.
  Qed.
End Lattice.

Lemma sumZ_cons x l : sumZ (x :: l) = (x + sumZ l)%Z.
Proof. reflexivity. Qed.

Lemma sumZ_le (size1 size2 : nat -> Z) n :
  (forall v, v < n -> (size1 v <= size2 v)%Z) ->
  (sumZ (map size1 (seq 0 n)) <= sumZ (map size2 (seq 0 n)))%Z.
Proof.
  intros H. assert (G : forall l, (forall v, In v l -> v < n) ->
                       (sumZ (map size1 l) <= sumZ (map size2 l))%Z).
  { induction l as [|x l IH]; intros Hl; [cbn; lia|]. rewrite !map_cons, !sumZ_cons.
    specialize (H x (Hl x (or_introl eq_refl))).
    assert (sumZ (map size1 l) <= sumZ (map size2 l))%Z by (apply IH; intros; apply Hl; right; assumption).
    lia. }
  apply G. intros v Hv. apply in_seq in Hv. lia.
Qed.

Lemma map_as_tab {A B} (f : A -> B) (l : list A) d :
  map f l = map (fun v => f (nth v l d)) (seq 0 (length l)).
Proof.
  apply nth_ext with (d := f d) (d' := f d).
  - rewrite !map_length, seq_length. reflexivity.
  - intros v Hv. rewrite map_length in Hv. rewrite map_nth.
    rewrite (nth_indep _ (f d) (f (nth 0 l d))) by (rewrite map_length, seq_length; exact Hv).
    rewrite (map_nth (fun v => f (nth v l d))). rewrite seq_nth by exact Hv. reflexivity.
Qed.

Theorem ball : S_ball.
Proof. intros L join dflt g c0 t v l SL Hwf Hv Hl. apply ball_thm; assumption. Qed.

Theorem nf_monotone : S_nf_monotone.
Proof.
  intros L join dflt size g c0 t SL Hsize. split.
  - intros v. apply (siter_grows L join dflt SL).
  - rewrite (map_as_tab size (sync_iter L join dflt g t c0) dflt).
    rewrite (map_as_tab size (sync_iter L join dflt g (S t) c0) dflt).
    rewrite !siter_length. apply sumZ_le. intros v Hv. apply Hsize.
    apply (siter_grows L join dflt SL).
Qed.

Theorem stable_fixpoint : S_stable_fixpoint.
Proof.
  intros L join dflt g c H k. induction k; cbn; [reflexivity|]. rewrite IHk. exact H.
Qed.

Theorem hom : S_hom.
Proof.
  intros L L' join join' d d' h Hh Hd g t c0.
  induction t as [|t IH]; cbn; [reflexivity|].
  rewrite <- IH. set (c := sync_iter L join d g t c0).
  unfold sync_step, tab. rewrite map_length. rewrite map_map. apply map_ext.
  intros v. unfold sync_node, HyperBall.get.
  assert (Hget : forall w, nth w (map h c) d' = h (nth w c d)).
  { intros w. rewrite <- Hd. apply map_nth. }
  rewrite Hget. generalize (nth v c d) as a. unfold bigjoin.
  induction (succs g v) as [|w l IHl]; intros a; cbn; [reflexivity|].
  rewrite IHl. rewrite Hh. rewrite Hget. reflexivity.
Qed.

Theorem ball_mem : S_ball_mem.
Proof.
  intros L join dflt P g c0 HP [Hlen Hwf].
  assert (Hbig : forall l a, P (bigjoin L join a l) <-> P a \/ exists x, In x l /\ P x).
  { induction l as [|y l IH]; intros a.
    - cbn. split; [intros H; left; exact H | intros [H|[x [[] _]]]; exact H].
    - change (bigjoin L join a (y :: l)) with (bigjoin L join (join a y) l).
      rewrite IH. rewrite HP. split.
      + intros [[H|H]|[x [Hx Hp]]]; [left; exact H | right; exists y; split; [left; reflexivity|exact H]
                                   | right; exists x; split; [right; exact Hx|exact Hp]].
      + intros [H|[x [[->|Hx] Hp]]]; [left; left; exact H | left; right; exact Hp | right; exists x; split; assumption]. }
  induction t as [|t IH]; intros v Hv.
  - cbn. split.
    + intros H. exists v. split; [apply within_refl | exact H].
    + intros [w [Hw H]]. apply within_0 in Hw. subst. exact H.
  - cbn [sync_iter]. unfold HyperBall.get at 1, sync_step.
    rewrite tab_nth by (rewrite siter_length; exact Hv).
    unfold sync_node. rewrite Hbig. split.
    + intros [H|[x [Hx Hp]]].
      * apply (IH v Hv) in H. destruct H as [w [Hw H]]. exists w. split; [|exact H].
        clear -Hw. induction Hw; [apply within_refl | eapply within_step; eassumption].
      * apply in_map_iff in Hx. destruct Hx as [u [<- Hu]].
        apply (IH u (Hwf _ _ Hu)) in Hp. destruct Hp as [w [Hw H]].
        exists w. split; [eapply within_step; eassumption | exact H].
    + intros [w [Hw H]]. apply within_S in Hw. destruct Hw as [->|[u [Hu Hw]]].
      * left. apply (IH v Hv). exists v. split; [apply within_refl | exact H].
      * right. exists (HyperBall.get L dflt (sync_iter L join dflt g t c0) u). split.
        -- apply (in_map (HyperBall.get L dflt (sync_iter L join dflt g t c0))). exact Hu.
        -- apply (IH u (Hwf _ _ Hu)). exists w. split; assumption.
Qed.
