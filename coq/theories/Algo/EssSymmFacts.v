(** C16 — proofs for the symmetric variant of the bound-refinement machine. *)
From Coq Require Import List Arith Bool Lia.
Import ListNotations.
From WG Require Import Algo.EssSpec Algo.EssStatements Algo.EssSpecFacts Algo.Ess
  Algo.EssMachineStatements Algo.EssFacts Algo.EssSymmStatements.

Lemma walk_rev : forall g s v k, symmetric_graph g -> walk g s v k -> walk g v s k.
Proof.
  intros g s v k Hsym H. induction H as [|u v k H IH Hin]; [constructor|].
  apply Hsym in Hin.
  change (S k) with (1 + k). eapply walk_app; [|exact IH].
  eapply walk_step; [constructor | exact Hin].
Qed.

Lemma is_dist_rev : forall g s v k, symmetric_graph g -> is_dist g s v k -> is_dist g v s k.
Proof.
  intros g s v k Hsym [H Hmin]. split; [apply walk_rev; assumption|].
  intros j Hj. apply Hmin. apply walk_rev; assumption.
Qed.

Theorem symm_dist : S_symm_dist.
Proof.
  intros g s v Hwf Hsym Hs Hv.
  destruct (dget (dist_matrix g) s v) as [k|] eqn:E1; destruct (dget (dist_matrix g) v s) as [j|] eqn:E2; try reflexivity.
  - apply (proj1 (dget_is_dist g Hwf s v k Hs Hv)) in E1. apply (proj1 (dget_is_dist g Hwf v s j Hv Hs)) in E2.
    f_equal. eapply is_dist_unique; [apply is_dist_rev; [exact Hsym | exact E1] | exact E2].
  - apply (proj1 (dget_is_dist g Hwf s v k Hs Hv)) in E1. apply is_dist_rev in E1; [|exact Hsym].
    apply (proj2 (dget_is_dist g Hwf v s k Hv Hs)) in E1. congruence.
  - apply (proj1 (dget_is_dist g Hwf v s j Hv Hs)) in E2. apply is_dist_rev in E2; [|exact Hsym].
    apply (proj2 (dget_is_dist g Hwf s v j Hs Hv)) in E2. congruence.
Qed.

Section Symm.
  Variable g : graph.
  Hypothesis Hwf : wf_graph g = true.
  Hypothesis Hn : 0 < length g.
  Hypothesis Hsym : symmetric_graph g.
  Let dm := dist_matrix g.

  (** d(s,v) bounds the eccentricity of v as well *)
  Lemma dist_le_EF_sym : forall s v k, s < length g -> v < length g -> dget dm s v = Some k -> k <= EF g v.
  Proof.
    intros s v k Hs Hv H. unfold dm in H. rewrite (symm_dist g s v Hwf Hsym Hs Hv) in H.
    exact (dist_le_EF g Hwf v s k Hv Hs H).
  Qed.

  Lemma EB_EF_sym : forall v, v < length g -> EB g v = EF g v.
  Proof.
    intros v Hv. apply Nat.le_antisymm.
    - destruct (EB_spec g Hwf v Hv) as [[w Hw] _]. apply is_dist_rev in Hw; [|exact Hsym].
      destruct (EF_spec g Hwf v Hv) as [_ Hmax]. eapply Hmax. exact Hw.
    - destruct (EF_spec g Hwf v Hv) as [[w Hw] _]. apply is_dist_rev in Hw; [|exact Hsym].
      destruct (EB_spec g Hwf v Hv) as [_ Hmax]. eapply Hmax. exact Hw.
  Qed.

  (** triangle inequality through a pivot of the same component *)
  Lemma pivot_bound : forall piv v, v < length g -> nth v piv 0 < length g ->
    dget dm (nth v piv 0) v <> None -> EF g v <= pivot_value dm piv v.
  Proof.
    intros piv v Hv Hp Hd. unfold pivot_value. set (p := nth v piv 0) in *.
    destruct (dget dm p v) as [a|] eqn:Ea; [|congruence]. cbn [odef].
    apply (proj1 (dget_is_dist g Hwf p v a Hp Hv)) in Ea.
    pose proof (is_dist_rev g p v a Hsym Ea) as Evp.
    destruct (EF_spec g Hwf v Hv) as [[w Hw] _].
    destruct Ea as [Wpv _]. destruct Evp as [Wvp _]. destruct Hw as [Wvw Hmin].
    destruct (walk_min g p w _ (walk_app _ _ _ _ _ _ Wpv Wvw)) as [b Hb].
    destruct (EF_spec g Hwf p Hp) as [_ Hmax]. pose proof (Hmax w b Hb) as Hle.
    destruct Hb as [Wpw _].
    pose proof (Hmin _ (walk_app _ _ _ _ _ _ Wvp Wpw)) as Htri.
    change (ecc_f_dm dm p) with (EF g p). lia.
  Qed.

  (** the arrays after a visit from [s], common to both kinds of visit *)
  Lemma sym_arrays : forall radial x s, s < length g -> inv_sym g radial x ->
    let lF' := upd (tab (length g) (low_upd (lF x) (uF x) (fun v => dget dm s v))) s (EF g s) in
    let uF' := upd (uF x) s (EF g s) in
    let dL' := if dL x <? EF g s then EF g s else dL x in
    (length lF' = length g /\ length uF' = length g) /\
    (forall v, v < length g -> nth v lF' 0 <= EF g v <= nth v uF' 0) /\
    (forall v, v < length g -> nth v lF' 0 <= dL').
  Proof.
    intros radial x s Hs I. destruct I as [[L1 L2] IF IdL Idv IlFd IrU Irv IR]. cbv zeta.
    assert (Hd : dL x <= if dL x <? EF g s then EF g s else dL x)
      by (destruct (dL x <? EF g s) eqn:E; [apply Nat.ltb_lt in E; lia | lia]).
    assert (He : EF g s <= if dL x <? EF g s then EF g s else dL x)
      by (destruct (dL x <? EF g s) eqn:E; [lia | apply Nat.ltb_ge in E; lia]).
    split; [rewrite !upd_length, tab_length; split; [reflexivity | exact L2]|]. split.
    - intros v Hv. rewrite !upd_nth by (rewrite ?tab_length; lia). destruct (v =? s) eqn:E.
      + apply Nat.eqb_eq in E. subst. lia.
      + rewrite tab_nth by exact Hv. split; [|apply IF; exact Hv].
        destruct (low_upd_cases (lF x) (uF x) (fun v0 => dget dm s v0) v) as [H|[k [Hk [H _]]]]; rewrite H.
        * apply IF. exact Hv.
        * eapply dist_le_EF_sym; [exact Hs | exact Hv | exact Hk].
    - intros v Hv. rewrite upd_nth by (rewrite tab_length; lia). destruct (v =? s); [lia|].
      rewrite tab_nth by exact Hv.
      destruct (low_upd_cases (lF x) (uF x) (fun v0 => dget dm s v0) v) as [H|[k [Hk [H _]]]]; rewrite H.
      + specialize (IlFd v Hv). lia.
      + pose proof (dist_le_EF g Hwf s v k Hs Hv Hk). lia.
  Qed.

  (** in the symmetric variant the two kinds of visit are the same operation *)
  Lemma bwd_fwd_sym : forall radial s order x,
    bwd_step true dm radial s order x = fwd_step true dm radial s order x.
  Proof. reflexivity. Qed.

  Lemma fwd_step_inv_sym : forall radial s order x, s < length g ->
    (forall v, v < length g -> dget dm s v <> None -> In v order) ->
    inv_sym g radial x -> inv_sym g radial (fwd_step true dm radial s order x).
  Proof.
    intros radial s order x Hs Hcov I. pose proof (sym_arrays radial x s Hs I) as [HL [HF Hd]].
    destruct I as [[L1 L2] IF IdL Idv IlFd IrU Irv IR].
    assert (Hdm : length dm = length g) by apply dist_matrix_length.
    assert (He : ecc_f_dm dm s = EF g s) by reflexivity.
    unfold fwd_step. cbn [bl bh]. rewrite Hdm, He.
    set (dist := fun v => dget dm s v).
    set (r := fold_left (rad_visit x radial dist) order (rU x, rv x)).
    assert (Hclosed : forall v k, rcond x radial dist v k -> v < length g /\ EF g v = k).
    { intros v k [Hk [_ [_ [Heq _]]]].
      assert (Hv : v < length g).
      { unfold dist, dget in Hk. destruct (Nat.lt_ge_cases v (length g)) as [Hv|Hv]; [exact Hv|].
        rewrite (nth_overflow (nth s dm [])) in Hk; [discriminate|].
        unfold dm. rewrite dist_row_nth by exact Hs. rewrite dist_row_length. exact Hv. }
      split; [exact Hv|]. pose proof (dist_le_EF_sym s v k Hs Hv Hk). specialize (IF v Hv). lia. }
    assert (Hrle : fst r <= rU x) by (apply (rad_fold_le g Hn x radial dist order (rU x, rv x))).
    assert (HrR : forall r0, radius_from (eccs_f (dist_matrix g)) radial = Some r0 -> r0 <= fst r).
    { intros r0 Hr0. unfold r.
      destruct (rad_fold_witness x radial dist order (rU x, rv x)) as [H|[v [k [Hc H]]]]; rewrite H; cbn [fst].
      - apply IrU. exact Hr0.
      - destruct (Hclosed v k Hc) as [Hv Hk]. rewrite <- Hk.
        eapply radius_le_radial; [exact Hr0 | exact Hv | apply Hc]. }
    assert (Hrv : fst r = length g / 2 + 1 \/
                  (snd r < length g /\ nth (snd r) radial false = true /\ EF g (snd r) = fst r)).
    { unfold r.
      destruct (rad_fold_witness x radial dist order (rU x, rv x)) as [H|[v [k [Hc H]]]]; rewrite H; cbn [fst snd].
      - exact Irv.
      - destruct (Hclosed v k Hc) as [Hv Hk]. right. split; [exact Hv|]. split; [apply Hc | exact Hk]. }
    constructor; cbn [lF uF lB uB dL dv rU rv].
    - exact HL.
    - exact HF.
    - destruct (dL x <? EF g s); [apply EF_le_Dm; assumption | exact IdL].
    - destruct (dL x <? EF g s) eqn:E; [split; [exact Hs | right; reflexivity] | exact Idv].
    - exact Hd.
    - intros r0 Hr0. destruct (nth s radial false && (EF g s <? fst r)) eqn:E; [|apply HrR; exact Hr0].
      apply andb_true_iff in E. destruct E as [E1 _]. eapply radius_le_radial; eassumption.
    - destruct (nth s radial false && (EF g s <? fst r)) eqn:E; [|exact Hrv].
      apply andb_true_iff in E. destruct E as [E1 _]. right. repeat split; assumption.
    - intros v Hv Hrad.
      assert (Hnew : (if nth s radial false && (EF g s <? fst r) then EF g s else fst r) <= fst r).
      { destruct (nth s radial false && (EF g s <? fst r)) eqn:E; [|lia].
        apply andb_true_iff in E. destruct E as [_ E]. apply Nat.ltb_lt in E. lia. }
      rewrite !upd_nth by (rewrite ?tab_length; lia). destruct (v =? s) eqn:E.
      + apply Nat.eqb_eq in E. subst v. intros _. rewrite Hrad. cbn [andb].
        destruct (EF g s <? fst r) eqn:E2; [lia | apply Nat.ltb_ge in E2; lia].
      + rewrite tab_nth by exact Hv. intros Heq.
        destruct (low_upd_cases (lF x) (uF x) dist v) as [H|[k [Hk [H [Hne Hlt]]]]]; rewrite H in *.
        * specialize (IR v Hv Hrad Heq). lia.
        * assert (Hc : rcond x radial dist v k) by (unfold rcond; repeat split; assumption).
          assert (fst r <= k); [|lia].
          apply (rad_fold_covers g Hn x radial dist order (rU x, rv x) v k); [|exact Hc].
          apply Hcov; [exact Hv|]. unfold dist in Hk. rewrite Hk. discriminate.
  Qed.

  (** ---- the SCC step ---- *)
  Definition acond (x : st) (radial : list bool) (pv : nat -> nat) (v : nat) : Prop :=
    Nat.min (pv v) (nth v (uF x) 0) = nth v (lF x) 0 /\ nth v radial false = true.

  Lemma allcc_visit_cases : forall x radial pv acc v,
    allcc_visit x radial pv acc v = acc \/
    (acond x radial pv v /\ allcc_visit x radial pv acc v = (nth v (lF x) 0, v)).
  Proof.
    intros x radial pv acc v. unfold allcc_visit.
    destruct ((Nat.min (pv v) (nth v (uF x) 0) =? nth v (lF x) 0) && nth v radial false &&
              (Nat.min (pv v) (nth v (uF x) 0) <? fst acc)) eqn:E; [|left; reflexivity].
    right. apply andb_true_iff in E. destruct E as [E _]. apply andb_true_iff in E. destruct E as [E1 E2].
    apply Nat.eqb_eq in E1. split; [split; assumption|]. rewrite E1. reflexivity.
  Qed.

  Lemma allcc_fold_le : forall x radial pv order acc,
    fst (fold_left (allcc_visit x radial pv) order acc) <= fst acc.
  Proof.
    intros x radial pv order. induction order as [|v order IH]; intros acc; cbn [fold_left]; [lia|].
    specialize (IH (allcc_visit x radial pv acc v)).
    assert (fst (allcc_visit x radial pv acc v) <= fst acc); [|lia].
    unfold allcc_visit.
    destruct ((Nat.min (pv v) (nth v (uF x) 0) =? nth v (lF x) 0) && nth v radial false &&
              (Nat.min (pv v) (nth v (uF x) 0) <? fst acc)) eqn:E; [|lia].
    apply andb_true_iff in E. destruct E as [_ E]. apply Nat.ltb_lt in E. cbn [fst]. lia.
  Qed.

  Lemma allcc_fold_covers : forall x radial pv order acc v, In v order -> acond x radial pv v ->
    fst (fold_left (allcc_visit x radial pv) order acc) <= nth v (lF x) 0.
  Proof.
    intros x radial pv order. induction order as [|w order IH]; intros acc v Hin Hc; [destruct Hin|].
    cbn [fold_left]. destruct Hin as [->|Hin]; [|eapply IH; eassumption].
    pose proof (allcc_fold_le x radial pv order (allcc_visit x radial pv acc v)) as Hle.
    assert (fst (allcc_visit x radial pv acc v) <= nth v (lF x) 0); [|lia].
    unfold allcc_visit. destruct Hc as [Hmin Hrad]. rewrite Hmin, Hrad, Nat.eqb_refl. cbn [andb].
    destruct (nth v (lF x) 0 <? fst acc) eqn:E; [cbn [fst]; lia | apply Nat.ltb_ge in E; exact E].
  Qed.

  Lemma allcc_fold_witness : forall x radial pv order acc,
    fold_left (allcc_visit x radial pv) order acc = acc \/
    exists v, In v order /\ acond x radial pv v /\
              fold_left (allcc_visit x radial pv) order acc = (nth v (lF x) 0, v).
  Proof.
    intros x radial pv order. induction order as [|w order IH]; intros acc; cbn [fold_left]; [left; reflexivity|].
    destruct (IH (allcc_visit x radial pv acc w)) as [H|[v [Hin H]]].
    - rewrite H. destruct (allcc_visit_cases x radial pv acc w) as [H'|[Hc H']]; [left; exact H'|].
      right. exists w. split; [left; reflexivity|]. split; assumption.
    - right. exists v. split; [right; exact Hin | exact H].
  Qed.

  Lemma allcc_step_inv_sym : forall radial piv order x,
    (forall v, v < length g -> nth v piv 0 < length g /\ dget dm (nth v piv 0) v <> None) ->
    (forall v, In v order <-> v < length g) ->
    inv_sym g radial x -> inv_sym g radial (allcc_sym_step dm radial piv order x).
  Proof.
    intros radial piv order x Hpiv Hcov I.
    destruct I as [[L1 L2] IF IdL Idv IlFd IrU Irv IR].
    assert (Hdm : length dm = length g) by apply dist_matrix_length.
    unfold allcc_sym_step. rewrite Hdm.
    set (pv := pivot_value dm piv).
    set (r := fold_left (allcc_visit x radial pv) order (rU x, rv x)).
    assert (Hub : forall v, v < length g -> EF g v <= Nat.min (pv v) (nth v (uF x) 0)).
    { intros v Hv. destruct (Hpiv v Hv) as [Hp Hd]. pose proof (pivot_bound piv v Hv Hp Hd).
      specialize (IF v Hv). unfold pv. lia. }
    (* a radial vertex whose bounds meet here has its eccentricity known *)
    assert (Hclosed : forall v, v < length g -> acond x radial pv v -> EF g v = nth v (lF x) 0).
    { intros v Hv [Hmin _]. specialize (Hub v Hv). specialize (IF v Hv). lia. }
    constructor; cbn [lF uF lB uB dL dv rU rv].
    - rewrite tab_length. split; [exact L1 | reflexivity].
    - intros v Hv. rewrite tab_nth by exact Hv. split; [apply IF; exact Hv | apply Hub; exact Hv].
    - exact IdL.
    - exact Idv.
    - exact IlFd.
    - intros r0 Hr0. unfold r.
      destruct (allcc_fold_witness x radial pv order (rU x, rv x)) as [H|[v [Hin [Hc H]]]]; rewrite H; cbn [fst].
      + apply IrU. exact Hr0.
      + apply Hcov in Hin. rewrite <- (Hclosed v Hin Hc).
        eapply radius_le_radial; [exact Hr0 | exact Hin | apply Hc].
    - unfold r.
      destruct (allcc_fold_witness x radial pv order (rU x, rv x)) as [H|[v [Hin [Hc H]]]]; rewrite H; cbn [fst snd].
      + exact Irv.
      + apply Hcov in Hin. right. split; [exact Hin|]. split; [apply Hc | apply Hclosed; assumption].
    - intros v Hv Hrad. rewrite tab_nth by exact Hv. intros Heq.
      apply (allcc_fold_covers x radial pv order (rU x, rv x) v); [apply Hcov; exact Hv|].
      split; [symmetry; exact Heq | exact Hrad].
  Qed.
End Symm.

Theorem symm_ecc : S_symm_ecc.
Proof. intros g v Hwf Hn Hsym Hv. apply EB_EF_sym; assumption. Qed.

Theorem symm_pivot_bound : S_symm_pivot_bound.
Proof. intros g piv v Hwf Hn Hsym Hv Hp Hd. apply pivot_bound; assumption. Qed.

Theorem symm_step_invariant : S_symm_step_invariant.
Proof.
  intros g radial [s order|s order|piv order] x Hwf Hn Hsym Hl I; cbn [step legal_op_sym] in *.
  - destruct Hl as [Hs Hcov]. apply fwd_step_inv_sym; assumption.
  - destruct Hl as [Hs Hcov]. rewrite bwd_fwd_sym. apply fwd_step_inv_sym; assumption.
  - destruct Hl as [Hp Hcov]. apply allcc_step_inv_sym; assumption.
Qed.

Lemma symm_run_from : forall g radial ops x, wf_graph g = true -> 0 < length g -> symmetric_graph g ->
  Forall (legal_op_sym g) ops -> inv_sym g radial x ->
  inv_sym g radial (run_ops true (dist_matrix g) radial ops x).
Proof.
  intros g radial ops x Hwf Hn Hsym Hl. revert x.
  induction ops as [|o ops IH]; intros x I; cbn [run_ops fold_left]; [exact I|].
  inversion Hl as [|o' ops' Ho Hops]; subst. apply IH; [exact Hops|].
  apply symm_step_invariant; assumption.
Qed.

Theorem symm_run_invariant : S_symm_run_invariant.
Proof.
  intros g radial ops Hwf Hn Hsym Hl Hr. apply symm_run_from; try assumption.
  constructor; cbn [init_st lF uF lB uB dL dv rU rv rU_init].
  - rewrite !tab_length. split; reflexivity.
  - intros v Hv. rewrite !tab_nth by exact Hv. pose proof (EF_lt_n g Hwf Hn v Hv). lia.
  - lia.
  - split; [exact Hn | left; reflexivity].
  - intros v Hv. rewrite tab_nth by exact Hv. lia.
  - exact Hr.
  - left. reflexivity.
  - intros v Hv _ H. rewrite !tab_nth in H by exact Hv. lia.
Qed.

(** the forward part of the symmetric invariant is an instance of the directed one, with the
    forward arrays standing for the backward ones *)
Theorem symm_exit_exact : S_symm_exit_exact.
Proof.
  intros g radial l x Hwf Hn Hsym I HR H.
  set (n := length g) in *. set (m := find_missing true n radial x) in *.
  set (o := output true n radial x). set (dm := dist_matrix g).
  destruct I as [[L1 L2] IF IdL [Hdv Idv] IlFd IrU Irv IR].
  assert (Heccf : m_af m = 0 -> check_eccf dm o = true).
  { intros Ha. unfold check_eccf. apply list_eqb_eq. cbn [o output o_eccf].
    apply list_ext_nth; [unfold dm; rewrite eccs_f_length; exact L1|].
    intros v Hv. rewrite L1 in Hv. unfold dm. rewrite eccs_f_nth by exact Hv.
    pose proof (incF_false x v (count_zero _ _ Ha v Hv)). specialize (IF v Hv). unfold EF in IF. lia. }
  assert (Heccb : m_af m = 0 -> check_eccb dm o = true).
  { intros Ha. unfold check_eccb. apply list_eqb_eq. cbn [o output o_eccb].
    apply list_ext_nth; [unfold dm; rewrite eccs_b_length; exact L1|].
    intros v Hv. rewrite L1 in Hv. unfold dm. rewrite eccs_b_nth by exact Hv.
    pose proof (incF_false x v (count_zero _ _ Ha v Hv)). specialize (IF v Hv).
    pose proof (symm_ecc g v Hwf Hn Hsym Hv) as Heb. unfold EF, EB in *. lia. }
  assert (Hdiam : m_df m = 0 -> check_diam dm o = true /\ check_dv dm o = true).
  { intros Hd.
    assert (Hle : Dm g <= dL x).
    { unfold Dm, diameter_of. apply list_max_le. apply Forall_forall. intros e He.
      destruct (In_nth _ _ 0 He) as [v [Hv Hnth]]. rewrite eccs_f_length in Hv.
      rewrite eccs_f_nth in Hnth by exact Hv. subst e.
      pose proof (count_zero _ _ Hd v Hv) as Hc. cbn beta in Hc.
      specialize (IF v Hv). specialize (IlFd v Hv). unfold EF in IF.
      apply andb_false_iff in Hc. destruct Hc as [Hc|Hc].
      - apply incF_false in Hc. lia.
      - apply Nat.ltb_ge in Hc. lia. }
    assert (Heq : dL x = Dm g) by lia.
    unfold check_diam, check_dv. cbn [o output o_diam o_dv]. split; [apply Nat.eqb_eq; exact Heq|].
    apply andb_true_iff. split; [apply Nat.ltb_lt; unfold dm; rewrite dist_matrix_length; exact Hdv|].
    apply orb_true_iff. left. apply Nat.eqb_eq. destruct Idv as [H0|H1]; [|exact H1].
    pose proof (EF_le_Dm g Hwf Hn (dv x) Hdv). unfold EF, dm in *. lia. }
  (* the radius *)
  assert (HrUle : m_r m = 0 -> forall r, radius_from (eccs_f dm) radial = Some r -> rU x <= r).
  { intros Hm r Er. pose proof Er as Er'. apply radius_from_some in Er'.
    destruct Er' as [[i [Hi [Hrad Hnth]]] _]. unfold dm in Hi. rewrite eccs_f_length in Hi.
    unfold dm in Hnth. rewrite eccs_f_nth in Hnth by exact Hi.
    pose proof (count_zero _ _ Hm i Hi) as Hc. cbn beta in Hc. rewrite Hrad in Hc.
    specialize (IF i Hi). unfold EF in IF.
    rewrite andb_true_r in Hc. apply andb_false_iff in Hc. destruct Hc as [Hc|Hc].
    - apply incF_false in Hc. specialize (IR i Hi Hrad Hc). lia.
    - apply Nat.ltb_ge in Hc. lia. }
  assert (Hnorad : no_radial n radial = true <-> radius_from (eccs_f dm) radial = None).
  { unfold no_radial. rewrite forallb_forall, radius_from_none. unfold dm. rewrite eccs_f_length. split.
    - intros Hx i Hi. specialize (Hx i). rewrite negb_true_iff in Hx. apply Hx. apply in_seq. unfold n. lia.
    - intros Hx i Hi. apply in_seq in Hi. apply negb_true_iff. apply Hx. unfold n in Hi. lia. }
  assert (Hrad : m_r m = 0 -> check_rad dm radial o = true /\ check_rv dm radial o = true).
  { intros Hm. unfold check_rad, check_rv. cbn [o output o_rad o_rv].
    destruct (no_radial n radial) eqn:En.
    - rewrite (proj1 Hnorad eq_refl). split; reflexivity.
    - destruct (radius_from (eccs_f dm) radial) as [r|] eqn:Er; [|discriminate (proj2 Hnorad eq_refl)].
      pose proof (HrUle Hm r eq_refl) as Hle. pose proof (IrU r Er) as Hge. pose proof (HR r Er) as Hhalf.
      split; [apply Nat.eqb_eq; lia|].
      destruct Irv as [Hi|[Hv [Hrd He]]]; [fold n in Hi; lia|].
      rewrite Hrd. unfold dm. rewrite dist_matrix_length. apply andb_true_iff. split.
      + apply andb_true_iff. split; [apply Nat.ltb_lt; exact Hv | reflexivity].
      + apply Nat.eqb_eq. exact He. }
  assert (Hdb : m_db m = m_df m) by reflexivity.
  assert (Hab : m_ab m = m_af m) by reflexivity.
  assert (Haf_df : m_af m = 0 -> m_df m = 0).
  { intros Ha. apply count_zero_intro. intros v Hv. rewrite (count_zero _ _ Ha v Hv). reflexivity. }
  assert (Haf_r : m_af m = 0 -> m_r m = 0).
  { intros Ha. apply count_zero_intro. intros v Hv. rewrite (count_zero _ _ Ha v Hv). reflexivity. }
  unfold check_ess_dm.
  destruct l; cbn [missing_nodes] in H; cbn [wants_eccf wants_eccb wants_diam wants_rad negb orb andb].
  - assert (Ha : m_af m = 0) by lia. destruct (Hdiam (Haf_df Ha)) as [H1 H2]. destruct (Hrad (Haf_r Ha)) as [H3 H4].
    rewrite (Heccf Ha), (Heccb Ha), H1, H2, H3, H4. reflexivity.
  - destruct (Hdiam (Haf_df H)) as [H1 H2]. destruct (Hrad (Haf_r H)) as [H3 H4].
    rewrite (Heccf H), H1, H2, H3, H4. reflexivity.
  - rewrite Hdb, Nat.min_id in H. assert (Hd : m_df m = 0) by lia. assert (Hm : m_r m = 0) by lia.
    destruct (Hdiam Hd) as [H1 H2]. destruct (Hrad Hm) as [H3 H4]. rewrite H1, H2, H3, H4. reflexivity.
  - rewrite Hdb, Nat.min_id in H. destruct (Hdiam H) as [H1 H2]. rewrite H1, H2. reflexivity.
  - destruct (Hrad H) as [H3 H4]. rewrite H3, H4. reflexivity.
Qed.

Theorem symm_machine_exact : S_symm_machine_exact.
Proof.
  intros g radial ops l Hwf Hn Hsym Hl HR Hz. unfold replay in *. cbn [fst snd] in *.
  unfold check_ess. apply symm_exit_exact; try assumption.
  apply symm_run_invariant; try assumption.
  intros r Hr. specialize (HR r Hr). lia.
Qed.

(** ---- the pivots of the model of [find_best_pivot] ---- *)
Lemma pick_fold_in : forall bt l p,
  match fold_left (pick bt) l p with
  | Some q => In q l \/ p = Some q
  | None => l = [] /\ p = None
  end.
Proof.
  intros bt l. induction l as [|w l IH]; intros p; cbn [fold_left].
  - destruct p; [right; reflexivity | split; reflexivity].
  - specialize (IH (pick bt p w)). destruct (fold_left (pick bt) l (pick bt p w)) as [q|].
    + destruct IH as [IH|IH]; [left; right; exact IH|].
      unfold pick in IH. destruct p as [q0|].
      * destruct (bt w q0); injection IH as <-; [left; left; reflexivity | right; reflexivity].
      * injection IH as <-. left. left. reflexivity.
    + destruct IH as [_ IH]. unfold pick in IH. destruct p as [q0|]; [|discriminate].
      destruct (bt w q0); discriminate.
Qed.

Theorem best_pivots_legal : S_best_pivots_legal.
Proof.
  intros g use_tot tot x v Hwf Hsym Hv. cbv zeta. unfold best_pivots. rewrite tab_nth by exact Hv.
  set (L := filter (fun w => reaches (dist_matrix g) v w) (rev (seq 0 (length g)))).
  assert (HvL : In v L).
  { apply filter_In. split; [apply in_rev; rewrite rev_involutive; apply in_seq; lia|].
    unfold reaches.
    rewrite (proj2 (dget_is_dist g Hwf v v 0 Hv Hv) (is_dist_self g v)). reflexivity. }
  set (bt := better use_tot (tab (length g) (pivot_score true (length g) x)) tot).
  pose proof (pick_fold_in bt L None) as Hp.
  destruct (fold_left (pick bt) L None) as [q|].
  - cbn [odef]. destruct Hp as [Hp|Hp]; [|discriminate].
    apply filter_In in Hp. destruct Hp as [Hq Hr]. apply in_rev in Hq. rewrite ?rev_involutive in Hq.
    apply in_seq in Hq. assert (Hql : q < length g) by lia. split; [exact Hql|].
    rewrite <- (symm_dist g v q Hwf Hsym Hv Hql). unfold reaches in Hr.
    destruct (dget (dist_matrix g) v q); [discriminate | discriminate Hr].
  - destruct Hp as [Hp _]. rewrite Hp in HvL. destruct HvL.
Qed.

(** ---- the boolean legality test of observed pivots ---- *)
Theorem legal_pivots_symb_spec : S_legal_pivots_symb_spec.
Proof.
  intros g piv. unfold legal_pivots_symb. rewrite forallb_forall. split.
  - intros H v Hv. specialize (H v (proj2 (in_seq _ _ _) (conj (Nat.le_0_l _) Hv))).
    apply andb_true_iff in H. destruct H as [H1 H2]. apply Nat.ltb_lt in H1. split; [exact H1|].
    unfold reaches in H2. destruct (dget (dist_matrix g) (nth v piv 0) v); [discriminate | discriminate H2].
  - intros H v Hv. apply in_seq in Hv. destruct (H v (proj2 Hv)) as [H1 H2].
    apply andb_true_iff. split; [apply Nat.ltb_lt; exact H1|].
    unfold reaches. destruct (dget (dist_matrix g) (nth v piv 0) v); [reflexivity | contradiction H2; reflexivity].
Qed.
