(** C16 — proofs for the symmetric variant of the bound-refinement machine. *)
From Coq Require Import List Arith Bool Lia.
Import ListNotations.
From WG Require Import Algo.EssSpec Algo.EssStatements Algo.EssSpecFacts Algo.Ess
  Algo.EssMachineStatements Algo.EssFacts Algo.EssSymmStatements.

Lemma walk_rev : forall g s v k, symmetric_graph g -> walk g s v k -> walk g v s k.
Proof.
  intros g s v k Hsym H. induction H as [|u v k H IH Hin]; [constructor|].
  apply Hsym in Hin.
  change (S k) with (1 + k). eapply walk_app; [|exact IH].
  eapply walk_step; [constructor | exact Hin].
Qed.

Lemma is_dist_rev : forall g s v k, symmetric_graph g -> is_dist g s v k -> is_dist g v s k.
Proof.
  intros g s v k Hsym [H Hmin]. split; [apply walk_rev; assumption|].
  intros j Hj. apply Hmin. apply walk_rev; assumption.
Qed.

Theorem symm_dist : S_symm_dist.
Proof.
  intros g s v Hwf Hsym Hs Hv.
  destruct (dget (dist_matrix g) s v) as [k|] eqn:E1; destruct (dget (dist_matrix g) v s) as [j|] eqn:E2; try reflexivity.
  - apply (proj1 (dget_is_dist g Hwf s v k Hs Hv)) in E1. apply (proj1 (dget_is_dist g Hwf v s j Hv Hs)) in E2.
    f_equal. eapply is_dist_unique; [apply is_dist_rev; [exact Hsym | exact E1] | exact E2].
  - apply (proj1 (dget_is_dist g Hwf s v k Hs Hv)) in E1. apply is_dist_rev in E1; [|exact Hsym].
    apply (proj2 (dget_is_dist g Hwf v s k Hv Hs)) in E1. congruence.
  - apply (proj1 (dget_is_dist g Hwf v s j Hv Hs)) in E2. apply is_dist_rev in E2; [|exact Hsym].
    apply (proj2 (dget_is_dist g Hwf s v j Hs Hv)) in E2. congruence.
Qed.

Section Symm.
  Variable g : graph.
  Hypothesis Hwf : wf_graph g = true.
  Hypothesis Hn : 0 < length g.
  Hypothesis Hsym : symmetric_graph g.
  Let dm := dist_matrix g.

  (** d(s,v) bounds the eccentricity of v as well *)
  Lemma dist_le_EF_sym : forall s v k, s < length g -> v < length g -> dget dm s v = Some k -> k <= EF g v.
  Proof.
    intros s v k Hs Hv H. unfold dm in H. rewrite (symm_dist g s v Hwf Hsym Hs Hv) in H.
    exact (dist_le_EF g Hwf v s k Hv Hs H).
  Qed.

  (** the arrays after a visit from [s], common to both kinds of visit *)
  Lemma sym_arrays : forall radial x s, s < length g -> inv_sym g radial x ->
    let lF' := upd (tab (length g) (low_upd (lF x) (uF x) (fun v => dget dm s v))) s (EF g s) in
    let uF' := upd (uF x) s (EF g s) in
    let dL' := if dL x <? EF g s then EF g s else dL x in
    (length lF' = length g /\ length uF' = length g) /\
    (forall v, v < length g -> nth v lF' 0 <= EF g v <= nth v uF' 0) /\
    (forall v, v < length g -> nth v lF' 0 <= dL').
  Proof.
    intros radial x s Hs I. destruct I as [[L1 L2] IF IdL Idv IlFd IrU Irv]. cbv zeta.
    assert (Hd : dL x <= if dL x <? EF g s then EF g s else dL x)
      by (destruct (dL x <? EF g s) eqn:E; [apply Nat.ltb_lt in E; lia | lia]).
    assert (He : EF g s <= if dL x <? EF g s then EF g s else dL x)
      by (destruct (dL x <? EF g s) eqn:E; [lia | apply Nat.ltb_ge in E; lia]).
    split; [rewrite !upd_length, tab_length; split; [reflexivity | exact L2]|]. split.
    - intros v Hv. rewrite !upd_nth by (rewrite ?tab_length; lia). destruct (v =? s) eqn:E.
      + apply Nat.eqb_eq in E. subst. lia.
      + rewrite tab_nth by exact Hv. split; [|apply IF; exact Hv].
        destruct (low_upd_cases (lF x) (uF x) (fun v0 => dget dm s v0) v) as [H|[k [Hk [H _]]]]; rewrite H.
        * apply IF. exact Hv.
        * eapply dist_le_EF_sym; [exact Hs | exact Hv | exact Hk].
    - intros v Hv. rewrite upd_nth by (rewrite tab_length; lia). destruct (v =? s); [lia|].
      rewrite tab_nth by exact Hv.
      destruct (low_upd_cases (lF x) (uF x) (fun v0 => dget dm s v0) v) as [H|[k [Hk [H _]]]]; rewrite H.
      + specialize (IlFd v Hv). lia.
      + pose proof (dist_le_EF g Hwf s v k Hs Hv Hk). lia.
  Qed.

  Lemma fwd_step_inv_sym : forall radial s x, s < length g -> inv_sym g radial x ->
    inv_sym g radial (fwd_step true dm radial s x).
  Proof.
    intros radial s x Hs I. pose proof (sym_arrays radial x s Hs I) as [HL [HF Hd]].
    destruct I as [[L1 L2] IF IdL Idv IlFd IrU Irv].
    assert (Hdm : length dm = length g) by apply dist_matrix_length.
    assert (He : ecc_f_dm dm s = EF g s) by reflexivity.
    unfold fwd_step. cbn [bl bh]. rewrite Hdm, He.
    constructor; cbn [lF uF lB uB dL dv rU rv].
    - exact HL.
    - exact HF.
    - destruct (dL x <? EF g s); [apply EF_le_Dm; assumption | exact IdL].
    - destruct (dL x <? EF g s) eqn:E; [split; [exact Hs | right; reflexivity] | exact Idv].
    - exact Hd.
    - intros r Hr. destruct (nth s radial false && (EF g s <? rU x)) eqn:E; [|apply IrU; exact Hr].
      apply andb_true_iff in E. destruct E as [E1 _]. eapply radius_le_radial; eassumption.
    - destruct (nth s radial false && (EF g s <? rU x)) eqn:E; [|exact Irv].
      apply andb_true_iff in E. destruct E as [E1 _]. right. repeat split; assumption.
  Qed.

  Lemma bwd_step_inv_sym : forall radial s order x, s < length g -> inv_sym g radial x ->
    inv_sym g radial (bwd_step true dm radial s order x).
  Proof.
    intros radial s order x Hs I. pose proof (sym_arrays radial x s Hs I) as [HL [HF Hd]].
    destruct I as [[L1 L2] IF IdL Idv IlFd IrU Irv].
    assert (Hdm : length dm = length g) by apply dist_matrix_length.
    assert (He : becc true dm s = EF g s) by reflexivity.
    unfold bwd_step. rewrite Hdm, He.
    set (dist := fun v => dget dm s v).
    change (bdist true dm s) with dist.
    assert (Hclosed : forall v k, rcond x radial dist v k -> v < length g /\ EF g v = k).
    { intros v k [Hk [_ [_ [Heq _]]]].
      assert (Hv : v < length g).
      { unfold dist, dget in Hk. destruct (Nat.lt_ge_cases v (length g)) as [Hv|Hv]; [exact Hv|].
        rewrite (nth_overflow (nth s dm [])) in Hk; [discriminate|].
        unfold dm. rewrite dist_row_nth by exact Hs. rewrite dist_row_length. exact Hv. }
      split; [exact Hv|]. pose proof (dist_le_EF_sym s v k Hs Hv Hk). specialize (IF v Hv). lia. }
    constructor; cbn [lF uF lB uB dL dv rU rv].
    - exact HL.
    - exact HF.
    - destruct (dL x <? EF g s); [apply EF_le_Dm; assumption | exact IdL].
    - destruct (dL x <? EF g s) eqn:E; [split; [exact Hs | right; reflexivity] | exact Idv].
    - exact Hd.
    - intros r0 Hr0. destruct (rad_fold_witness x radial dist order (rU x, rv x)) as [H|[v [k [Hc H]]]]; rewrite H; cbn [fst].
      + apply IrU. exact Hr0.
      + destruct (Hclosed v k Hc) as [Hv Hk]. rewrite <- Hk.
        eapply radius_le_radial; [exact Hr0 | exact Hv | apply Hc].
    - destruct (rad_fold_witness x radial dist order (rU x, rv x)) as [H|[v [k [Hc H]]]]; rewrite H; cbn [fst snd].
      + exact Irv.
      + destruct (Hclosed v k Hc) as [Hv Hk]. right. split; [exact Hv|]. split; [apply Hc | exact Hk].
  Qed.
End Symm.

Theorem symm_step_invariant : S_symm_step_invariant.
Proof.
  intros g radial [s|s order] x Hwf Hn Hsym Hl I; cbn [step pivot_lt] in *.
  - apply fwd_step_inv_sym; assumption.
  - apply bwd_step_inv_sym; assumption.
Qed.

Theorem symm_run_invariant : S_symm_run_invariant.
Proof.
  intros g radial ops Hwf Hn Hsym Hl Hr.
  assert (I0 : inv_sym g radial (init_st (length g) true)).
  { constructor; cbn [init_st lF uF lB uB dL dv rU rv rU_init].
    - rewrite !tab_length. split; reflexivity.
    - intros v Hv. rewrite !tab_nth by exact Hv. pose proof (EF_lt_n g Hwf Hn v Hv). lia.
    - lia.
    - split; [exact Hn | left; reflexivity].
    - intros v Hv. rewrite tab_nth by exact Hv. lia.
    - exact Hr.
    - left. reflexivity. }
  revert I0. generalize (init_st (length g) true).
  induction ops as [|o ops IH]; intros x I; cbn [run_ops fold_left]; [exact I|].
  inversion Hl as [|o' ops' Ho Hops]; subst. apply IH; [exact Hops|].
  apply symm_step_invariant; assumption.
Qed.

Theorem symm_exit_exact : S_symm_exit_exact.
Proof.
  intros g radial l x Hwf Hn I H. split; [|apply I].
  set (n := length g) in *. set (m := find_missing true n radial x) in *.
  set (o := output true n radial x). set (dm := dist_matrix g).
  destruct I as [[L1 L2] IF IdL [Hdv Idv] IlFd IrU Irv].
  assert (Heccf : m_af m = 0 -> check_eccf dm o = true).
  { intros Ha. unfold check_eccf. apply list_eqb_eq. cbn [o output o_eccf].
    apply list_ext_nth; [unfold dm; rewrite eccs_f_length; exact L1|].
    intros v Hv. rewrite L1 in Hv. unfold dm. rewrite eccs_f_nth by exact Hv.
    pose proof (incF_false x v (count_zero _ _ Ha v Hv)). specialize (IF v Hv). unfold EF in IF. lia. }
  assert (Hdiam : m_df m = 0 -> check_diam dm o = true /\ check_dv dm o = true).
  { intros Hd.
    assert (Hle : Dm g <= dL x).
    { unfold Dm, diameter_of. apply list_max_le. apply Forall_forall. intros e He.
      destruct (In_nth _ _ 0 He) as [v [Hv Hnth]]. rewrite eccs_f_length in Hv.
      rewrite eccs_f_nth in Hnth by exact Hv. subst e.
      pose proof (count_zero _ _ Hd v Hv) as Hc. cbn beta in Hc.
      specialize (IF v Hv). specialize (IlFd v Hv). unfold EF in IF.
      apply andb_false_iff in Hc. destruct Hc as [Hc|Hc].
      - apply incF_false in Hc. lia.
      - apply Nat.ltb_ge in Hc. lia. }
    assert (Heq : dL x = Dm g) by lia.
    unfold check_diam, check_dv. cbn [o output o_diam o_dv]. split; [apply Nat.eqb_eq; exact Heq|].
    apply andb_true_iff. split; [apply Nat.ltb_lt; unfold dm; rewrite dist_matrix_length; exact Hdv|].
    apply orb_true_iff. left. apply Nat.eqb_eq. destruct Idv as [H0|H1]; [|exact H1].
    pose proof (EF_le_Dm g Hwf Hn (dv x) Hdv). unfold EF, dm in *. lia. }
  assert (Hdb : m_db m = m_df m) by reflexivity.
  assert (Hab : m_ab m = m_af m) by reflexivity.
  assert (Haf_df : m_af m = 0 -> m_df m = 0).
  { intros Ha. apply count_zero_intro. intros v Hv. rewrite (count_zero _ _ Ha v Hv). reflexivity. }
  unfold check_values_symm.
  destruct l; cbn [missing_nodes] in H; cbn [wants_eccf wants_diam negb orb andb].
  - assert (Ha : m_af m = 0) by lia. destruct (Hdiam (Haf_df Ha)) as [H1 H2]. rewrite (Heccf Ha), H1, H2. reflexivity.
  - destruct (Hdiam (Haf_df H)) as [H1 H2]. rewrite (Heccf H), H1, H2. reflexivity.
  - rewrite Hdb, Nat.min_id in H. assert (Hd : m_df m = 0) by lia. destruct (Hdiam Hd) as [H1 H2]. rewrite H1, H2. reflexivity.
  - rewrite Hdb, Nat.min_id in H. destruct (Hdiam H) as [H1 H2]. rewrite H1, H2. reflexivity.
  - reflexivity.
Qed.
