(** Pinned statements of property C17 (layered label propagation always yields a valid,
    refinement-consistent ordering).  Statements only. *)
From WG Require Import Base.Prelude Algo.Llp.
Local Open Scope N_scope.

(** [p] is a permutation of 0..n *)
Definition is_perm (p : list N) : Prop := Permutation p (ids (length p)).

(** the values of [r] are exactly [0, k) *)
Definition dense (r : list N) (k : N) : Prop := forall v, v < k <-> In v r.

(** ** The update rule keeps labels inside the node set, under every schedule and every
    staleness of the reads; volumes count the carriers of each label *)
Definition S_labels_are_nodes : Prop :=
  forall (g : graph) (sched : list (N * N * nat)) (st : lp_state),
  In st (lp_run g sched) ->
  length (lp_labels st) = length g /\ Forall (fun l => l < nlen g) (lp_labels st).

Definition S_volumes_count : Prop :=
  forall (g : graph) (sched : list (N * N * nat)) (st : lp_state) (l : N),
  In st (lp_run g sched) -> l < nlen g ->
  get (lp_volumes st) l = ncount l (lp_labels st).

(** ** The sorts: the comparators of [combine] (key [ckey]) and of [labels_to_ranks] (a
    stable sort, key [rkey]) are total orders without ties on node identifiers, so ANY
    correct sorting algorithm (parallel, unstable) returns the sequence of the model *)
Definition S_sort_unique : Prop :=
  forall (kf : N -> key) (l p : list N),
  (forall a, key_id (kf a) = a) ->
  Permutation p l ->
  (forall i j, (i < j < length p)%nat ->
     key_leb (kf (nth i p 0)) (kf (nth j p 0)) = true) ->
  p = sort_ids kf l.

(** ** [combine] *)
Definition S_combine_refinement : Prop :=
  forall (result labels : list N) (a b : N),
  length labels = length result -> a < nlen result -> b < nlen result ->
  let r' := fst (llp_combine result labels) in
  length r' = length result /\
  (get r' a = get r' b <-> get result a = get result b /\ get labels a = get labels b).

Definition S_combine_dense : Prop :=
  forall (result labels : list N),
  length labels = length result -> result <> [] ->
  dense (fst (llp_combine result labels)) (snd (llp_combine result labels)).

(** ** [combine_labels]: common refinement of all stored labelings, dense *)
Definition S_combine_labels_refinement : Prop :=
  forall (fam : list stored) (r : list N),
  llp_combine_labels fam = Some r ->
  (forall g, In g fam -> length (snd g) = length r) /\
  (forall a b, a < nlen r -> b < nlen r ->
     (get r a = get r b <-> forall g, In g fam -> get (snd g) a = get (snd g) b)) /\
  exists k, dense r k.

(** it succeeds on every non-empty family of labelings by node identifiers *)
Definition S_combine_labels_total : Prop :=
  forall (fam : list stored) (n : nat),
  fam <> [] -> n <> O ->
  (forall g, In g fam -> length (snd g) = n /\ Forall (fun l => l < N.of_nat n) (snd g)) ->
  exists r, llp_combine_labels fam = Some r.

(** ** [invert_permutation]: whatever the order of the writes *)
Definition S_invert_perm : Prop :=
  forall (p sched init : list N),
  is_perm p -> Permutation sched (ids (length p)) -> length init = length p ->
  let q := invert_sched sched p init in
  q = invert_permutation p /\ is_perm q /\ length q = length p /\
  (forall i, i < nlen p -> get q (get p i) = i /\ get p (get q i) = i) /\
  invert_permutation q = p.

(** ** [labels_to_ranks] *)
Definition S_ranks_perm : Prop :=
  forall labels : list N,
  is_perm (labels_to_ranks labels) /\ length (labels_to_ranks labels) = length labels.

Definition S_ranks_monotone : Prop :=
  forall (labels : list N) (a b : N),
  a < nlen labels -> b < nlen labels ->
  let rk := labels_to_ranks labels in
  (get labels a < get labels b -> get rk a < get rk b) /\
  (get labels a = get labels b -> a < b -> get rk a < get rk b).

(** ** Permuting by a permutation gives an isomorphic graph *)
Definition graph_ok (g : graph) : Prop :=
  Forall (fun s => Forall (fun v => v < nlen g) s) g.

Definition S_permuted_isomorphic : Prop :=
  forall (pi : list N) (g : graph),
  is_perm pi -> length pi = length g -> graph_ok g ->
  let h := permute_graph pi g in
  length h = length g /\
  (forall u v, u < nlen g -> v < nlen g ->
     (has_arc h (get pi u) (get pi v) <-> has_arc g u v)) /\
  (forall x y, has_arc h x y ->
     exists u v, u < nlen g /\ v < nlen g /\ x = get pi u /\ y = get pi v /\ has_arc g u v).

(** the end-to-end statement: whatever labels come out of [combine_labels] (or anywhere
    else), permuting by their ranks gives an isomorphic graph *)
Definition S_llp_order_isomorphic : Prop :=
  forall (labels : list N) (g : graph),
  length labels = length g -> graph_ok g ->
  let pi := labels_to_ranks labels in
  let h := permute_graph pi g in
  is_perm pi /\ length h = length g /\
  (forall u v, u < nlen g -> v < nlen g ->
     (has_arc h (get pi u) (get pi v) <-> has_arc g u v)).

(** ** The checkers used as oracles on the implementation's output *)
Definition S_check_lt : Prop :=
  forall n l, check_lt n l = true <-> Forall (fun v => v < n) l.

Definition S_check_perm : Prop :=
  forall p, check_perm p = true <-> is_perm p.

Definition S_check_dense : Prop :=
  forall r, check_dense r = true <-> exists k, dense r k.

Definition S_check_refinement : Prop :=
  forall (r : list N) (fam : list (list N)),
  check_refinement r fam = true <->
  (forall a b, a < nlen r -> b < nlen r ->
     (get r a = get r b <-> forall l, In l fam -> get l a = get l b)).

Definition S_check_monotone : Prop :=
  forall labels ranks : list N,
  check_monotone labels ranks = true <->
  (forall a b, a < nlen labels -> b < nlen labels ->
     (get labels a < get labels b -> get ranks a < get ranks b) /\
     (get labels a = get labels b -> a < b -> get ranks a < get ranks b)).

Definition S_check_inverse : Prop :=
  forall p q : list N,
  check_inverse p q = true <->
  length q = length p /\ forall i, i < nlen p -> get q (get p i) = i.

Definition S_check_iso : Prop :=
  forall (pi : list N) (g h : graph),
  is_perm pi -> length pi = length g -> graph_ok g ->
  check_iso pi g h = true ->
  length h = length g /\
  (forall u v, u < nlen g -> v < nlen g ->
     (has_arc h (get pi u) (get pi v) <-> has_arc g u v)).
