(** C16 — algorithm side of ExactSumSweep as an abstract state machine
    (algo/src/distances/exact_sum_sweep/mod.rs): the bound arrays lF,uF,lB,uB, the diameter
    lower bound dL with its vertex, the radius upper bound rU with its vertex, the iteration
    counter; one operation per breadth-first visit ([forward_step_sum_sweep],
    [backwards_step_sum_sweep]) and one for the symmetric branch of [all_cc_upper_bound];
    [find_missing_nodes] and the per-level termination counts; the outputs of every level.
    The pivot of every visit and the order in which a parallel visit / iteration meets the
    nodes are ARGUMENTS.  Distances come from the all-pairs matrix of the specification
    (the visits are the subject of C13); [sym] selects the [run_symm] variant, where the
    backward arrays alias the forward ones.  The machine follows the code AFTER the repairs
    of the radius bookkeeping; the earlier rules are kept as [*_prefix].
    Definitions only. *)
From Coq Require Import List Arith Bool Lia.
Import ListNotations.
From WG Require Import Algo.EssSpec.

Module EssM.

Definition tab (n : nat) (f : nat -> nat) : list nat := map f (seq 0 n).
Definition upd (l : list nat) (i x : nat) : list nat :=
  tab (length l) (fun j => if j =? i then x else nth j l 0).

Record st := mkSt {
  lF : list nat; uF : list nat; lB : list nat; uB : list nat;
  dL : nat; dv : nat; rU : nat; rv : nat; iters : nat }.

(** [_new]: lows 0, highs n, diameter_low 0, radius_high n (n/2 + 1 when symmetric: one more
    than the largest possible radius, so that the first radial vertex attaining the radius
    is always recorded), both vertices 0 *)
Definition rU_init (n : nat) (sym : bool) : nat := if sym then n / 2 + 1 else n.
Definition init_st (n : nat) (sym : bool) : st :=
  mkSt (tab n (fun _ => 0)) (tab n (fun _ => n)) (tab n (fun _ => 0)) (tab n (fun _ => n))
       0 0 (rU_init n sym) 0 0.

(** [bw_low] / [bw_high] *)
Definition bl (sym : bool) (s : st) : list nat := if sym then lF s else lB s.
Definition bh (sym : bool) (s : st) : list nat := if sym then uF s else uB s.

(** the per-node update of a lower bound during a visit:
    [if low != high && low < distance { low = distance }] *)
Definition low_upd (lo hi : list nat) (dist : nat -> option nat) (v : nat) : nat :=
  let l := nth v lo 0 in
  match dist v with
  | Some k => if negb (l =? nth v hi 0) && (l <? k) then k else l
  | None => l
  end.

(** the radius update inside a visit that raises FORWARD lower bounds (the backward visit,
    and in the symmetric case also the forward one), node by node in visiting order:
    [if low != high && low < d { low = d; if d == high && radial && d < radius { radius = (d, node) } }] *)
Definition rad_visit (x : st) (radial : list bool) (dist : nat -> option nat)
    (acc : nat * nat) (v : nat) : nat * nat :=
  match dist v with
  | Some k =>
    let l := nth v (lF x) 0 in let h := nth v (uF x) 0 in
    if negb (l =? h) && (l <? k) && (k =? h) && nth v radial false && (k <? fst acc)
    then (k, v) else acc
  | None => acc
  end.

(** [forward_step_sum_sweep] from [s]; [order]: the order in which the visit meets the nodes
    (it matters in the symmetric case only, where the visit raises forward lower bounds and a
    radial vertex completed by it competes for the radius) *)
Definition fwd_step (sym : bool) (dm : list (list (option nat))) (radial : list bool)
    (s : nat) (order : list nat) (x : st) : st :=
  let n := length dm in
  let e := ecc_f_dm dm s in
  let dist := fun v => dget dm s v in
  let nb := tab n (low_upd (bl sym x) (bh sym x) dist) in
  let lF1 := if sym then nb else lF x in
  let lB1 := if sym then lB x else nb in
  let r := if sym then fold_left (rad_visit x radial dist) order (rU x, rv x) else (rU x, rv x) in
  let ud := dL x <? e in
  let ur := nth s radial false && (e <? fst r) in
  mkSt (upd lF1 s e) (upd (uF x) s e) lB1 (uB x)
       (if ud then e else dL x) (if ud then s else dv x)
       (if ur then e else fst r) (if ur then s else snd r) (S (iters x)).

(** distances seen by a visit of the transpose from [s] (of the graph itself when
    symmetric), and the eccentricity it measures *)
Definition bdist (sym : bool) (dm : list (list (option nat))) (s v : nat) : option nat :=
  if sym then dget dm s v else dget dm v s.
Definition becc (sym : bool) (dm : list (list (option nat))) (s : nat) : nat :=
  if sym then ecc_f_dm dm s else ecc_b_dm dm s.

(** [backwards_step_sum_sweep] from [s]; [order]: the order in which the visit meets the
    nodes.  In the symmetric case the visit has determined the forward eccentricity of [s],
    which competes for the radius. *)
Definition bwd_step (sym : bool) (dm : list (list (option nat))) (radial : list bool)
    (s : nat) (order : list nat) (x : st) : st :=
  let n := length dm in
  let e := becc sym dm s in
  let dist := bdist sym dm s in
  let nf := tab n (low_upd (lF x) (uF x) dist) in
  let r := fold_left (rad_visit x radial dist) order (rU x, rv x) in
  let ud := dL x <? e in
  let ur := sym && nth s radial false && (e <? fst r) in
  mkSt (if sym then upd nf s e else nf) (if sym then upd (uF x) s e else uF x)
       (if sym then lB x else upd (lB x) s e) (if sym then uB x else upd (uB x) s e)
       (if ud then e else dL x) (if ud then s else dv x)
       (if ur then e else fst r) (if ur then s else snd r) (S (iters x)).

(** the SYMMETRIC branch of [all_cc_upper_bound]: [piv] gives for every node the pivot of its
    connected component; the new upper bound of [v] is d(pivot, v) + ecc(pivot) when that is
    smaller; a radial vertex whose bounds meet competes for the radius, node by node in the
    order [order] of the parallel iteration *)
Definition pivot_value (dm : list (list (option nat))) (piv : list nat) (v : nat) : nat :=
  odef (dget dm (nth v piv 0) v) + ecc_f_dm dm (nth v piv 0).

Definition allcc_visit (x : st) (radial : list bool) (pv : nat -> nat)
    (acc : nat * nat) (v : nat) : nat * nat :=
  let c := Nat.min (pv v) (nth v (uF x) 0) in
  if (c =? nth v (lF x) 0) && nth v radial false && (c <? fst acc) then (c, v) else acc.

Definition allcc_sym_step (dm : list (list (option nat))) (radial : list bool)
    (piv order : list nat) (x : st) : st :=
  let n := length dm in
  let pv := pivot_value dm piv in
  let r := fold_left (allcc_visit x radial pv) order (rU x, rv x) in
  mkSt (lF x) (tab n (fun v => Nat.min (pv v) (nth v (uF x) 0))) (lB x) (uB x)
       (dL x) (dv x) (fst r) (snd r) (iters x + 3).

(** [OAll] is the symmetric SCC step here; the directed branch (propagation through the
    component DAG) is the operation [OAll] of the machine [step_dir] of Algo/EssScc.v, which
    delegates the visits to [step false] *)
Inductive op :=
| OFwd (s : nat) (order : list nat)
| OBwd (s : nat) (order : list nat)
| OAll (piv : list nat) (order : list nat).

Definition step (sym : bool) dm radial (o : op) (x : st) : st :=
  match o with
  | OFwd s ord => fwd_step sym dm radial s ord x
  | OBwd s ord => bwd_step sym dm radial s ord x
  | OAll piv ord => allcc_sym_step dm radial piv ord x
  end.

Definition run_ops (sym : bool) dm radial (ops : list op) (x : st) : st :=
  fold_left (fun y o => step sym dm radial o y) ops x.

(** ---- the rules BEFORE the repairs 42ca92a / 46b2bda / f9241dd of the code: initial radius
    bound n-1 (n/2 when symmetric); no radius update for the start vertex of a backward
    visit; no radius update in a forward visit of the symmetric variant.  Kept for the two
    refutation theorems. ---- *)
Definition rU_init_prefix (n : nat) (sym : bool) : nat := if sym then n / 2 else n - 1.
Definition init_st_prefix (n : nat) (sym : bool) : st :=
  mkSt (tab n (fun _ => 0)) (tab n (fun _ => n)) (tab n (fun _ => 0)) (tab n (fun _ => n))
       0 0 (rU_init_prefix n sym) 0 0.

Definition fwd_step_prefix (sym : bool) (dm : list (list (option nat))) (radial : list bool)
    (s : nat) (x : st) : st :=
  let n := length dm in
  let e := ecc_f_dm dm s in
  let nb := tab n (low_upd (bl sym x) (bh sym x) (fun v => dget dm s v)) in
  let lF1 := if sym then nb else lF x in
  let lB1 := if sym then lB x else nb in
  let ud := dL x <? e in
  let ur := nth s radial false && (e <? rU x) in
  mkSt (upd lF1 s e) (upd (uF x) s e) lB1 (uB x)
       (if ud then e else dL x) (if ud then s else dv x)
       (if ur then e else rU x) (if ur then s else rv x) (S (iters x)).

Definition bwd_step_prefix (sym : bool) (dm : list (list (option nat))) (radial : list bool)
    (s : nat) (order : list nat) (x : st) : st :=
  let n := length dm in
  let e := becc sym dm s in
  let dist := bdist sym dm s in
  let nf := tab n (low_upd (lF x) (uF x) dist) in
  let r := fold_left (rad_visit x radial dist) order (rU x, rv x) in
  let ud := dL x <? e in
  mkSt (if sym then upd nf s e else nf) (if sym then upd (uF x) s e else uF x)
       (if sym then lB x else upd (lB x) s e) (if sym then uB x else upd (uB x) s e)
       (if ud then e else dL x) (if ud then s else dv x) (fst r) (snd r) (S (iters x)).

Definition step_prefix (sym : bool) dm radial (o : op) (x : st) : st :=
  match o with
  | OFwd s _ => fwd_step_prefix sym dm radial s x
  | OBwd s ord => bwd_step_prefix sym dm radial s ord x
  | OAll piv ord => allcc_sym_step dm radial piv ord x
  end.

Definition run_ops_prefix (sym : bool) dm radial (ops : list op) (x : st) : st :=
  fold_left (fun y o => step_prefix sym dm radial o y) ops x.

(** ---- [find_missing_nodes] ---- *)
Definition count (n : nat) (f : nat -> bool) : nat := length (filter f (seq 0 n)).

Definition incF (x : st) (v : nat) : bool := negb (nth v (lF x) 0 =? nth v (uF x) 0).
Definition incB (sym : bool) (x : st) (v : nat) : bool :=
  negb (nth v (bl sym x) 0 =? nth v (bh sym x) 0).

Record missing := mkMissing { m_r : nat; m_df : nat; m_db : nat; m_af : nat; m_ab : nat }.

Definition find_missing (sym : bool) (n : nat) (radial : list bool) (x : st) : missing :=
  mkMissing
    (count n (fun v => incF x v && nth v radial false && (nth v (lF x) 0 <? rU x)))
    (count n (fun v => incF x v && (dL x <? nth v (uF x) 0)))
    (count n (fun v => incB sym x v && (dL x <? nth v (bh sym x) 0)))
    (count n (incF x))
    (count n (incB sym x)).

(** [Level::missing_nodes] *)
Definition missing_nodes (l : level) (m : missing) : nat :=
  match l with
  | LAll => m_af m + m_ab m
  | LAllForward => m_af m
  | LRadiusDiameter => m_r m + Nat.min (m_df m) (m_db m)
  | LDiameter => Nat.min (m_df m) (m_db m)
  | LRadius => m_r m
  end.

Definition no_radial (n : nat) (radial : list bool) : bool :=
  forallb (fun v => negb (nth v radial false)) (seq 0 n).

(** the output structures of level.rs: forward_low, backward_high, diameter_low,
    radius_high (usize::MAX, here [None], when there is no radial vertex), the two vertices *)
Definition output (sym : bool) (n : nat) (radial : list bool) (x : st) : ess_out :=
  mkOut (lF x) (if sym then lF x else uB x) (dL x) (dv x)
        (if no_radial n radial then None else Some (rU x)) (rv x).

(** the value part of the checker (everything but the radial vertex) *)
Definition check_values (dm : list (list (option nat))) (radial : list bool) (o : ess_out) (l : level) : bool :=
  (negb (wants_eccf l) || check_eccf dm o) &&
  (negb (wants_eccb l) || check_eccb dm o) &&
  (negb (wants_diam l) || (check_diam dm o && check_dv dm o)) &&
  (negb (wants_rad l) || check_rad dm radial o).

(** replay of a logged run: the operations, then the exit test and the outputs *)
Definition replay (sym : bool) (g : graph) (radial : list bool) (ops : list op) (l : level)
    : nat * ess_out :=
  let dm := dist_matrix g in
  let n := length g in
  let x := run_ops sym dm radial ops (init_st n sym) in
  (missing_nodes l (find_missing sym n radial x), output sym n radial x).

(** the same under the pre-repair rules *)
Definition replay_prefix (sym : bool) (g : graph) (radial : list bool) (ops : list op) (l : level)
    : nat * ess_out :=
  let dm := dist_matrix g in
  let n := length g in
  let x := run_ops_prefix sym dm radial ops (init_st_prefix n sym) in
  (missing_nodes l (find_missing sym n radial x), output sym n radial x).

(** ---- [find_best_pivot], symmetric case: in every connected component the node minimising
    bw_low + forward_low + (n if forward-complete) + (n if backward-complete);
    the nodes are scanned from the last to the first and replaced on a strict improvement
    or, with [USE_TOT], on a tie with forward_tot + bw_tot not larger.  In the symmetric
    variant both totals are the array forward_tot, to which every visit from s adds d(s,v)
    for the nodes v it reaches: [tot_sym] computes it from the pivots of the visits so far ---- *)
Definition pivot_score (sym : bool) (n : nat) (x : st) (v : nat) : nat :=
  nth v (bl sym x) 0 + nth v (lF x) 0 + (if incF x v then 0 else n) + (if incB sym x v then 0 else n).

Definition visit_pivots (ops : list op) : list nat :=
  flat_map (fun o => match o with OFwd s _ | OBwd s _ => [s] | OAll _ _ => [] end) ops.

Definition tot_sym (dm : list (list (option nat))) (n : nat) (vis : list nat) : list nat :=
  tab n (fun v => list_sum (map (fun s => odef (dget dm s v)) vis)).

Definition better (use_tot : bool) (score tot : list nat) (w q : nat) : bool :=
  (nth w score 0 <? nth q score 0) ||
  (use_tot && (nth w score 0 =? nth q score 0) &&
   (nth w tot 0 + nth w tot 0 <=? nth q tot 0 + nth q tot 0)).

Definition pick (bt : nat -> nat -> bool) (p : option nat) (w : nat) : option nat :=
  match p with
  | None => Some w
  | Some q => if bt w q then Some w else p
  end.

Definition best_pivots (sym use_tot : bool) (dm : list (list (option nat))) (n : nat)
    (tot : list nat) (x : st) : list nat :=
  let score := tab n (pivot_score sym n x) in
  tab n (fun v => odef (fold_left (pick (better use_tot score tot))
                                  (filter (fun w => reaches dm v w) (rev (seq 0 n))) None)).

(** a logged step: a visit, or an SCC step whose pivots are those [find_best_pivot] chooses
    in the current state *)
Inductive lop := LO (o : op) | LA (order : list nat).
Definition resolve (sym use_tot : bool) dm (n : nat) (vis : list nat) (x : st) (l : lop) : op :=
  match l with
  | LO o => o
  | LA ord => OAll (best_pivots sym use_tot dm n (tot_sym dm n vis) x) ord
  end.

(** ---- the iteration counters of [find_missing_nodes] and the main loop of [compute] ---- *)
Record counters := mkC { c_ri : option nat; c_di : option nat; c_fi : option nat; c_ai : option nat }.

Definition first_time (c : option nat) (b : bool) (it : nat) : option nat :=
  match c with Some _ => c | None => if b then Some it else None end.

(** radius_iterations, diameter_iterations, forward_iter are set once; all_iter is
    overwritten whenever everything is complete *)
Definition upd_counters (m : missing) (it : nat) (c : counters) : counters :=
  mkC (first_time (c_ri c) (m_r m =? 0) it)
      (first_time (c_di c) ((m_df m =? 0) || (m_db m =? 0)) it)
      (first_time (c_fi c) (m_af m =? 0) it)
      (if (m_af m =? 0) && (m_ab m =? 0) then Some it else c_ai c).

(** [while missing_nodes > 0 { step; find_missing_nodes }]: [ok] records that the loop was
    entered only with missing nodes and left with none; [vis]: the pivots of the visits so far *)
Fixpoint loop_ops (sym use_tot : bool) dm (n : nat) radial (l : level) (ops : list lop)
    (vis : list nat) (x : st) (c : counters) (ok : bool) : bool * (counters * st) :=
  match ops with
  | [] => (ok && (missing_nodes l (find_missing sym n radial x) =? 0), (c, x))
  | o :: r =>
    let ok' := ok && negb (missing_nodes l (find_missing sym n radial x) =? 0) in
    let o' := resolve sym use_tot dm n vis x o in
    let x' := step sym dm radial o' x in
    loop_ops sym use_tot dm n radial l r (visit_pivots [o'] ++ vis) x'
             (upd_counters (find_missing sym n radial x') (iters x') c) ok'
  end.

(** a logged run: the visits of the initial SumSweep heuristic, one [find_missing_nodes],
    then the steps of the main loop *)
Definition run_logged_dm (sym use_tot : bool) (dm : list (list (option nat))) (n : nat)
    (radial : list bool) (heur : list op) (loop : list lop) (l : level)
    : bool * (counters * ess_out) :=
  let x0 := run_ops sym dm radial heur (init_st n sym) in
  let c0 := upd_counters (find_missing sym n radial x0) (iters x0) (mkC None None None None) in
  match loop_ops sym use_tot dm n radial l loop (visit_pivots heur) x0 c0 true with
  | (ok, (c, x)) => (ok, (c, output sym n radial x))
  end.
Definition run_logged (sym use_tot : bool) (g : graph) (radial : list bool) (heur : list op)
    (loop : list lop) (l : level) : bool * (counters * ess_out) :=
  run_logged_dm sym use_tot (dist_matrix g) (length g) radial heur loop l.

(** ---- observed runs: the steps (direction and start vertex of every visit, pivots of every
    SCC step) are reported by a guarded call-out of the code, not derived from a model of
    the choice heuristics ---- *)

(** boolean form of the condition [legal_op_sym] puts on the pivots of the SCC step: the
    pivot assigned to a node is a node and reaches it *)
Definition legal_pivots_symb (dm : list (list (option nat))) (n : nat) (piv : list nat) : bool :=
  forallb (fun v => (nth v piv 0 <? n) && reaches dm (nth v piv 0) v) (seq 0 n).

(** the code's pivot array has one entry per connected component; the machine's [piv] is
    indexed by node: the pivot of a node is the one that reaches it.  [one_pivot_each]: every
    node is reached by exactly one of the pivots (so the conversion does not depend on how
    the components are numbered); a node no pivot reaches gets the non-node [n] *)
Definition one_pivot_each (dm : list (list (option nat))) (n : nat) (pivots : list nat) : bool :=
  forallb (fun v => length (filter (fun p => reaches dm p v) pivots) =? 1) (seq 0 n).
Definition pivots_by_node (dm : list (list (option nat))) (n : nat) (pivots : list nat) : list nat :=
  tab n (fun v => match find (fun p => reaches dm p v) pivots with Some p => p | None => n end).

(** [sum_sweep_heuristic(start, 6)]: a forward visit from [start], then for i = 2..5 a backward
    (i even) or forward (i odd) visit, SKIPPED when no node is incomplete in that direction
    ([argmax_filtered] returns [None]).  [heur_len]: how many of the leading visits of an
    observed run belong to the heuristic ([fwds]: the directions of the iterations left);
    the main loop starts with a [find_missing_nodes] after them *)
Fixpoint heur_len (sym : bool) dm (n : nat) radial (fwds : list bool) (ops : list op) (x : st) : nat :=
  match fwds with
  | [] => 0
  | f :: fr =>
    if 0 <? count n (if f then incF x else incB sym x) then
      match ops with
      | (OFwd _ _ as o) :: r | (OBwd _ _ as o) :: r => S (heur_len sym dm n radial fr r (step sym dm radial o x))
      | _ => 0
      end
    else heur_len sym dm n radial fr ops x
  end.
Definition heur_dirs : list bool := [false; true; false; true].
Definition split_heur (sym : bool) dm (n : nat) radial (ops : list op) : nat :=
  match ops with
  | (OFwd _ _ as o) :: r => S (heur_len sym dm n radial heur_dirs r (step sym dm radial o (init_st n sym)))
  | _ => 0
  end.

(** an observed run: the heuristic's visits, one [find_missing_nodes], the main loop; no
    step is resolved by the model ([LO]) *)
Definition run_observed_dm (sym : bool) (dm : list (list (option nat))) (n : nat)
    (radial : list bool) (ops : list op) (l : level) : bool * (counters * ess_out) :=
  let h := split_heur sym dm n radial ops in
  run_logged_dm sym false dm n radial (firstn h ops) (map LO (skipn h ops)) l.

(** information: the pivots the model of [find_best_pivot] would choose at every SCC step of
    an observed run ([vis]: the pivots of the visits so far) *)
Fixpoint model_pivots (sym use_tot : bool) dm (n : nat) radial (ops : list op) (vis : list nat) (x : st)
    : list (list nat) :=
  match ops with
  | [] => []
  | o :: r =>
    let rest := model_pivots sym use_tot dm n radial r (visit_pivots [o] ++ vis) (step sym dm radial o x) in
    match o with
    | OAll _ _ => best_pivots sym use_tot dm n (tot_sym dm n vis) x :: rest
    | _ => rest
    end
  end.

End EssM.
Export EssM.
