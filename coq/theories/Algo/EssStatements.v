(** C16 — declarative definitions and pinned statements for the specification side
    (statements only). *)
From Coq Require Import List Arith Bool Lia.
Import ListNotations.
From WG Require Import Algo.EssSpec.

(** [walk g s v k]: there is a walk with [k] arcs from [s] to [v] *)
Inductive walk (g : graph) (s : nat) : nat -> nat -> Prop :=
| walk_nil : walk g s s 0
| walk_step : forall u v k, walk g s u k -> In v (succs g u) -> walk g s v (S k).

Definition reachable (g : graph) (s v : nat) : Prop := exists k, walk g s v k.

(** d(s,v) = k: the number of arcs of a shortest path *)
Definition is_dist (g : graph) (s v k : nat) : Prop :=
  walk g s v k /\ forall j, walk g s v j -> k <= j.

(** ecc+(v) = max { d(v,w) : w reachable from v } *)
Definition is_ecc_f (g : graph) (v e : nat) : Prop :=
  (exists w, is_dist g v w e) /\ forall w k, is_dist g v w k -> k <= e.
(** ecc-(v) = max { d(w,v) : w reaches v } *)
Definition is_ecc_b (g : graph) (v e : nat) : Prop :=
  (exists w, is_dist g w v e) /\ forall w k, is_dist g w v k -> k <= e.

(** diameter = max ecc+ *)
Definition is_diameter (g : graph) (d : nat) : Prop :=
  (exists v, v < length g /\ is_ecc_f g v d) /\
  forall v e, v < length g -> is_ecc_f g v e -> e <= d.

(** radius = min ecc+ over the radial vertices *)
Definition is_radial (radial : list bool) (v : nat) : Prop := nth v radial false = true.
Definition is_radius (g : graph) (radial : list bool) (r : nat) : Prop :=
  (exists v, v < length g /\ is_radial radial v /\ is_ecc_f g v r) /\
  forall v e, v < length g -> is_radial radial v -> is_ecc_f g v e -> r <= e.

(** what "the output of level [l] is exact" means *)
Definition ess_correct (g : graph) (radial : list bool) (o : ess_out) (l : level) : Prop :=
  (wants_eccf l = true ->
     length (o_eccf o) = length g /\
     forall v, v < length g -> is_ecc_f g v (nth v (o_eccf o) 0)) /\
  (wants_eccb l = true ->
     length (o_eccb o) = length g /\
     forall v, v < length g -> is_ecc_b g v (nth v (o_eccb o) 0)) /\
  (wants_diam l = true ->
     is_diameter g (o_diam o) /\ o_dv o < length g /\
     (is_ecc_f g (o_dv o) (o_diam o) \/ is_ecc_b g (o_dv o) (o_diam o))) /\
  (wants_rad l = true ->
     match o_rad o with
     | Some r => is_radius g radial r /\ o_rv o < length g /\ is_radial radial (o_rv o) /\
                 is_ecc_f g (o_rv o) r
     | None => forall v, v < length g -> ~ is_radial radial v
     end).

(** level-iteration BFS computes shortest-path distances, and [None] exactly for the
    unreachable nodes *)
Definition S_bfs_dist : Prop :=
  forall g s v, wf_graph g = true -> s < length g ->
  (forall k, bfs_dist g s v = Some k <-> is_dist g s v k) /\
  (bfs_dist g s v = None <-> ~ reachable g s v).

(** the executable eccentricities are the documented ones *)
Definition S_ecc_spec : Prop :=
  forall g v, wf_graph g = true -> v < length g ->
  is_ecc_f g v (ecc_f_dm (dist_matrix g) v) /\ is_ecc_b g v (ecc_b_dm (dist_matrix g) v).

(** the checker accepts exactly the exact outputs *)
Definition S_spec_checker_sound : Prop :=
  forall g radial o l, wf_graph g = true -> 0 < length g ->
  (check_ess g radial o l = true <-> ess_correct g radial o l).

(** the default radial set: the vertices that reach the component of [c] *)
Definition S_radial_of_spec : Prop :=
  forall g c v, wf_graph g = true -> c < length g -> v < length g ->
  (is_radial (radial_of (dist_matrix g) c) v <-> reachable g v c).

(** [scc_size] counts the strongly connected component of [c] *)
Definition S_scc_size_spec : Prop :=
  forall g c, wf_graph g = true -> c < length g ->
  exists l, NoDup l /\ (forall w, In w l <-> reachable g c w /\ reachable g w c) /\
            length l = scc_size (dist_matrix g) c.

(** the default-radial checker: exact for the radial set of some largest component *)
Definition S_default_checker_sound : Prop :=
  forall g o l, wf_graph g = true -> 0 < length g ->
  (check_ess_default g o l = true <->
   exists c, c < length g /\
     (forall c', c' < length g -> scc_size (dist_matrix g) c' <= scc_size (dist_matrix g) c) /\
     ess_correct g (radial_of (dist_matrix g) c) o l).
