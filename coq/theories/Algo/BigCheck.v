(** Checkers for the large-n probes of C15 ([Sccs::sort_by_size] / [par_sort_by_size] on
    component arrays of several hundred thousand nodes) and C17 ([invert_permutation] and
    [labels_to_ranks] around and above the minimum task length of the parallel loops).

    The specification checkers of Algo/Llp.v ([check_perm], [check_inverse],
    [check_monotone]) and the model of Algo/Scc.v read arrays with [nth] inside double
    loops: quadratic or worse, unusable above a few thousand elements.  The checkers below
    decide the same specifications with a merge sort on lists of (key, payload) pairs and
    linear scans: O(n log n) comparisons of [N]s, no [nth].  Definitions only. *)
From WG Require Import Base.Prelude Algo.Llp.

Module BigCheckM.
Local Open Scope N_scope.

(** * Merge sort by the first component
    Bottom-up: the list is cut into singletons, and adjacent runs are merged pairwise until
    one run is left; each pass halves the number of runs, so [length l] passes (the fuel)
    are far more than enough.  Should the fuel run out, the remaining runs are merged one
    by one: the result is correct whatever the fuel. *)
Section KSort.
  Context {A : Type}.

  Fixpoint kmerge (l1 : list (N * A)) : list (N * A) -> list (N * A) :=
    fix aux (l2 : list (N * A)) : list (N * A) :=
      match l1, l2 with
      | [], _ => l2
      | _, [] => l1
      | x1 :: r1, x2 :: r2 =>
        if fst x1 <=? fst x2 then x1 :: kmerge r1 l2 else x2 :: aux r2
      end.

  Fixpoint kmerge_pairs (ls : list (list (N * A))) : list (list (N * A)) :=
    match ls with
    | a :: b :: r => kmerge a b :: kmerge_pairs r
    | _ => ls
    end.

  Fixpoint kmerge_all (fuel : nat) (ls : list (list (N * A))) : list (N * A) :=
    match ls with
    | [] => []
    | [l] => l
    | _ =>
      match fuel with
      | O => fold_right kmerge [] ls
      | S f => kmerge_all f (kmerge_pairs ls)
      end
    end.

  Definition ksort (l : list (N * A)) : list (N * A) :=
    kmerge_all (length l) (map (fun x => [x]) l).
End KSort.

(** * Linear scans *)
(** strictly increasing in the lexicographic order of pairs *)
Definition lex_ltb (x y : N * N) : bool :=
  (fst x <? fst y) || ((fst x =? fst y) && (snd x <? snd y)).

Fixpoint lex_inc_from (x : N * N) (l : list (N * N)) : bool :=
  match l with [] => true | y :: l' => lex_ltb x y && lex_inc_from y l' end.
Definition lex_inc (l : list (N * N)) : bool :=
  match l with [] => true | x :: l' => lex_inc_from x l' end.

(** adjacent pairs with the same key have the same payload *)
Fixpoint fun_from (x : N * N) (l : list (N * N)) : bool :=
  match l with
  | [] => true
  | y :: l' => (negb (fst x =? fst y) || (snd x =? snd y)) && fun_from y l'
  end.
Definition fun_adj (l : list (N * N)) : bool :=
  match l with [] => true | x :: l' => fun_from x l' end.

Fixpoint non_incr_from (x : N) (l : list N) : bool :=
  match l with [] => true | y :: l' => (y <=? x) && non_incr_from y l' end.
Definition non_incr (l : list N) : bool :=
  match l with [] => true | x :: l' => non_incr_from x l' end.

(** [sizes[0]] times the value [c], then [sizes[1]] times [c + 1], ... *)
Fixpoint expand (c : N) (sizes : list N) : list N :=
  match sizes with
  | [] => []
  | s :: r => repeat c (N.to_nat s) ++ expand (c + 1) r
  end.

(** * The three checkers *)
(** [p] is a permutation of 0..n-1 and [q] its inverse: the pairs (p[i], i) sorted by
    their first component are (0, q[0]), (1, q[1]), ... *)
Definition big_check_inverse (p q : list N) : bool :=
  let n := length p in
  let s := ksort (List.combine p (ids n)) in
  list_eqb (map fst s) (ids n) && list_eqb (map snd s) q.

(** [ranks] is a permutation of 0..n-1, and along increasing rank the pairs (label, node)
    increase strictly in the lexicographic order: ranks are monotone in the label, ties
    between equal labels broken by node identifier (the sort of [labels_to_ranks] is
    stable) *)
Definition big_check_ranks (labels ranks : list N) : bool :=
  let n := length labels in
  (length ranks =? n)%nat &&
  (let s := ksort (List.combine ranks (List.combine labels (ids n))) in
   list_eqb (map fst s) (ids n) && lex_inc (map snd s)).

(** [old], [new]: the component of every node before and after [sort_by_size]; [k]: the
    number of components; [sizes]: the returned sizes.  Same partition = the relation
    { (old[i], new[i]) } is functional in both directions; [sizes] counts the new
    components = the sorted new array is [sizes[0]] zeros, [sizes[1]] ones, ... (the test
    on the sum comes first: it bounds the work of [expand] by the number of nodes) *)
Definition big_check_sort_by_size (k : N) (old new sizes : list N) : bool :=
  (length new =? length old)%nat &&
  forallb (fun c => c <? k) old &&
  (nlen sizes =? k) &&
  non_incr sizes &&
  (if nsum sizes =? nlen new
   then list_eqb (map fst (ksort (map (fun c => (c, 0)) new))) (expand 0 sizes)
   else false) &&
  fun_adj (ksort (List.combine old new)) &&
  fun_adj (ksort (List.combine new old)).

End BigCheckM.
Export BigCheckM.
