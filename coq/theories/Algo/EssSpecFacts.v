(** C16 — proofs about the specification side: level-iteration BFS computes shortest
    distances; the executable eccentricities / diameter / radius are the documented ones;
    the checker accepts exactly the exact outputs. *)
From Coq Require Import List Arith Bool Lia Wf_nat.
Import ListNotations.
From WG Require Import Algo.EssSpec Algo.EssStatements.

(** ---- small list facts ---- *)
Lemma memb_In : forall x l, memb x l = true <-> In x l.
Proof.
  intros x l. unfold memb. rewrite existsb_exists. split.
  - intros [y [Hy He]]. apply Nat.eqb_eq in He. subst. exact Hy.
  - intros H. exists x. split; [exact H | apply Nat.eqb_refl].
Qed.

Lemma memb_false : forall x l, memb x l = false <-> ~ In x l.
Proof.
  intros x l. rewrite <- memb_In. destruct (memb x l); split; intros H; try discriminate; auto.
  exfalso. apply H. reflexivity.
Qed.

Lemma fresh_In : forall l seen x, In x (fresh seen l) <-> In x l /\ ~ In x seen.
Proof.
  induction l as [|y r IH]; intros seen x; cbn [fresh].
  - split; [intros [] | intros [[] _]].
  - destruct (memb y seen) eqn:Hm.
    + apply memb_In in Hm. rewrite IH. split.
      * intros [H1 H2]. split; [right; exact H1 | exact H2].
      * intros [[H1|H1] H2]; [subst; contradiction | split; assumption].
    + apply memb_false in Hm. cbn [In]. rewrite IH. cbn [In]. split.
      * intros [H|[H1 H2]]; [subst; split; [left; reflexivity | exact Hm] |].
        split; [right; exact H1 | intros H; apply H2; right; exact H].
      * intros [[H1|H1] H2]; [left; exact H1 |].
        destruct (Nat.eq_dec y x) as [E|E]; [left; exact E | right].
        split; [exact H1 | intros [H|H]; [contradiction | contradiction]].
Qed.

Lemma fresh_NoDup : forall l seen, NoDup (fresh seen l).
Proof.
  induction l as [|y r IH]; intros seen; cbn [fresh]; [constructor|].
  destruct (memb y seen); [apply IH|].
  constructor; [|apply IH]. rewrite fresh_In. intros [_ H]. apply H. left. reflexivity.
Qed.

Lemma NoDup_app_iff_local : forall (a b : list nat),
  NoDup a -> NoDup b -> (forall y, In y a -> ~ In y b) -> NoDup (a ++ b).
Proof.
  induction a as [|x a IH]; intros b Ha Hb Hd; cbn; [exact Hb|].
  inversion Ha as [|x' a' Hx Ha']; subst. constructor.
  - rewrite in_app_iff. intros [H|H]; [contradiction|]. apply (Hd x); [left; reflexivity | exact H].
  - apply IH; [exact Ha' | exact Hb |]. intros y Hy. apply Hd. right. exact Hy.
Qed.

Lemma list_max_ge : forall l x, In x l -> x <= list_max l.
Proof.
  induction l as [|y r IH]; intros x H; [destruct H|].
  change (list_max (y :: r)) with (Nat.max y (list_max r)).
  destruct H as [H|H]; [subst; lia | apply IH in H; lia].
Qed.

Lemma list_max_attained : forall l, 0 < list_max l -> In (list_max l) l.
Proof.
  induction l as [|y r IH]; [cbn; lia|].
  change (list_max (y :: r)) with (Nat.max y (list_max r)). intros H.
  destruct (Nat.max_spec y (list_max r)) as [[H1 H2]|[H1 H2]]; rewrite H2 in *.
  - right. apply IH. lia.
  - left. reflexivity.
Qed.

Lemma nth_map_seq : forall {A} (f : nat -> A) n v d, v < n -> nth v (map f (seq 0 n)) d = f v.
Proof.
  intros A f n v d H. rewrite (nth_indep _ d (f 0)) by (rewrite map_length, seq_length; exact H).
  rewrite map_nth. rewrite seq_nth by exact H. reflexivity.
Qed.

Lemma list_eqb_refl : forall a, list_eqb a a = true.
Proof.
  unfold list_eqb. intros a. rewrite Nat.eqb_refl. cbn.
  induction a as [|x a IH]; cbn; [reflexivity|]. rewrite Nat.eqb_refl. exact IH.
Qed.

Lemma list_eqb_eq : forall a b, list_eqb a b = true <-> a = b.
Proof.
  intros a b. split; [|intros ->; apply list_eqb_refl].
  unfold list_eqb. revert b. induction a as [|x a IH]; intros [|y b] H; cbn in H; try reflexivity; try discriminate.
  apply andb_true_iff in H. destruct H as [H1 H2]. apply andb_true_iff in H2. destruct H2 as [H2 H3].
  apply Nat.eqb_eq in H2. subst. f_equal. apply IH. apply andb_true_iff. split; assumption.
Qed.

(** ---- walks ---- *)
Lemma walk_app : forall g s u v a b, walk g s u a -> walk g u v b -> walk g s v (a + b).
Proof.
  intros g s u v a b Ha Hb. induction Hb as [|x y k Hb IH Hin].
  - rewrite Nat.add_0_r. exact Ha.
  - rewrite Nat.add_succ_r. eapply walk_step; eassumption.
Qed.

Lemma walk_split : forall g s v a b, walk g s v (a + b) -> exists u, walk g s u a /\ walk g u v b.
Proof.
  intros g s v a b. revert v. induction b as [|b IH]; intros v H.
  - rewrite Nat.add_0_r in H. exists v. split; [exact H | constructor].
  - rewrite Nat.add_succ_r in H. inversion H as [|u v' k Hw Hin]; subst.
    destruct (IH u Hw) as [x [H1 H2]]. exists x. split; [exact H1 | eapply walk_step; eassumption].
Qed.

Lemma walk_0 : forall g s v, walk g s v 0 -> v = s.
Proof. intros g s v H. inversion H. reflexivity. Qed.

Lemma succs_lt : forall g u v, wf_graph g = true -> In v (succs g u) -> v < length g.
Proof.
  intros g u v Hwf Hin. unfold succs in Hin. unfold wf_graph in Hwf.
  rewrite forallb_forall in Hwf.
  destruct (Nat.lt_ge_cases u (length g)) as [Hu|Hu].
  - specialize (Hwf (nth u g []) (nth_In g [] Hu)). rewrite forallb_forall in Hwf.
    apply Hwf in Hin. apply Nat.ltb_lt in Hin. exact Hin.
  - rewrite nth_overflow in Hin by exact Hu. destruct Hin.
Qed.

Lemma walk_lt : forall g s v k, wf_graph g = true -> s < length g -> walk g s v k -> v < length g.
Proof.
  intros g s v k Hwf Hs H. induction H as [|u v k H IH Hin]; [exact Hs|].
  eapply succs_lt; eassumption.
Qed.

(** the nodes at the end of a walk with exactly [k] arcs, computably *)
Fixpoint ends (g : graph) (s k : nat) : list nat :=
  match k with O => [s] | S k' => flat_map (succs g) (ends g s k') end.

Lemma ends_walk : forall g s k v, In v (ends g s k) <-> walk g s v k.
Proof.
  intros g s k. induction k as [|k IH]; intros v; cbn [ends].
  - split; [intros [H|[]]; subst; constructor | intros H; apply walk_0 in H; left; symmetry; exact H].
  - rewrite in_flat_map. split.
    + intros [u [Hu Hin]]. apply IH in Hu. eapply walk_step; eassumption.
    + intros H. inversion H as [|u v' k' Hw Hin]; subst. exists u. split; [apply IH; exact Hw | exact Hin].
Qed.

Lemma walk_dec : forall g s v k, walk g s v k \/ ~ walk g s v k.
Proof.
  intros g s v k. destruct (in_dec Nat.eq_dec v (ends g s k)) as [H|H].
  - left. apply ends_walk. exact H.
  - right. intros W. apply H. apply ends_walk. exact W.
Qed.

Lemma walk_min : forall g s v k, walk g s v k -> exists d, is_dist g s v d.
Proof.
  intros g s v k H.
  destruct (dec_inh_nat_subset_has_unique_least_element (fun j => walk g s v j)
              (fun j => walk_dec g s v j) (ex_intro _ k H)) as [d [[Hd Hmin] _]].
  exists d. split; [exact Hd | exact Hmin].
Qed.

Lemma is_dist_unique : forall g s v a b, is_dist g s v a -> is_dist g s v b -> a = b.
Proof.
  intros g s v a b [Ha Hamin] [Hb Hbmin]. apply Hamin in Hb. apply Hbmin in Ha. lia.
Qed.

Lemma is_dist_self : forall g s, is_dist g s s 0.
Proof. intros g s. split; [constructor | intros; lia]. Qed.

(** the node at position [a] of a shortest walk is at distance [a] *)
Lemma is_dist_prefix : forall g s v a b, is_dist g s v (a + b) ->
  exists u, is_dist g s u a /\ walk g u v b.
Proof.
  intros g s v a b [Hw Hmin]. destruct (walk_split g s v a b Hw) as [u [H1 H2]].
  exists u. split; [|exact H2]. split; [exact H1|].
  intros j Hj. pose proof (Hmin _ (walk_app _ _ _ _ _ _ Hj H2)). lia.
Qed.

(** ---- the level iteration ---- *)
Section Bfs.
  Variable g : graph.
  Variable s : nat.
  Hypothesis Hwf : wf_graph g = true.
  Hypothesis Hs : s < length g.

  Definition seen_ok (seen : list nat) (k : nat) : Prop :=
    forall v, In v seen <-> exists j, j <= k /\ walk g s v j.
  Definition front_ok (front : list nat) (k : nat) : Prop :=
    forall v, In v front <-> is_dist g s v k.

  Lemma no_front_no_further : forall k, (forall v, ~ is_dist g s v k) ->
    forall v d, ~ is_dist g s v (k + d).
  Proof.
    intros k Hnone v d H. destruct (is_dist_prefix _ _ _ _ _ H) as [u [Hu _]].
    exact (Hnone u Hu).
  Qed.

  Lemma next_ok : forall seen front k, seen_ok seen k -> front_ok front k ->
    front_ok (fresh seen (flat_map (succs g) front)) (S k).
  Proof.
    intros seen front k Hseen Hfront v. rewrite fresh_In, in_flat_map. split.
    - intros [[u [Hu Hin]] Hns]. apply Hfront in Hu. destruct Hu as [Hu _].
      split; [eapply walk_step; eassumption|].
      intros j Hj. destruct (Nat.le_gt_cases j k) as [Hle|Hgt]; [|lia].
      exfalso. apply Hns. apply Hseen. exists j. split; assumption.
    - intros [Hw Hmin]. inversion Hw as [|u v' k' Hu Hin]; subst. split.
      + exists u. split; [|exact Hin]. apply Hfront. split; [exact Hu|].
        intros j Hj. pose proof (Hmin _ (walk_step _ _ _ _ _ Hj Hin)). lia.
      + intros Hin'. apply Hseen in Hin'. destruct Hin' as [j [Hj Hwj]]. apply Hmin in Hwj. lia.
  Qed.

  Lemma seen_next_ok : forall seen front k, seen_ok seen k -> front_ok front k ->
    seen_ok (fresh seen (flat_map (succs g) front) ++ seen) (S k).
  Proof.
    intros seen front k Hseen Hfront v. pose proof (next_ok _ _ _ Hseen Hfront) as Hnext.
    rewrite in_app_iff. split.
    - intros [H|H].
      + apply Hnext in H. exists (S k). split; [lia | apply H].
      + apply Hseen in H. destruct H as [j [Hj Hw]]. exists j. split; [lia | exact Hw].
    - intros [j [Hj Hw]]. destruct (in_dec Nat.eq_dec v seen) as [Hin|Hnin]; [right; exact Hin|].
      left. apply Hnext. assert (Hno : forall i, walk g s v i -> S k <= i).
      { intros i Hi. destruct (Nat.le_gt_cases i k) as [Hle|Hgt]; [|lia].
        exfalso. apply Hnin. apply Hseen. exists i. split; assumption. }
      assert (j = S k) by (apply Hno in Hw; lia). subst j. split; [exact Hw | exact Hno].
  Qed.

  Lemma seen_bound : forall seen, NoDup seen -> (forall v, In v seen -> v < length g) ->
    length seen <= length g.
  Proof.
    intros seen Hnd Hlt. rewrite <- (seq_length (length g) 0).
    apply NoDup_incl_length; [exact Hnd|]. intros v Hv. apply in_seq. specialize (Hlt v Hv). lia.
  Qed.

  Lemma bfs_layers_spec : forall fuel seen front k,
    seen_ok seen k -> front_ok front k -> NoDup seen -> (forall v, In v seen -> v < length g) ->
    (front = [] \/ length g + 1 <= length seen + fuel) ->
    forall v d, layer_index v (bfs_layers g fuel seen front) = Some d <-> is_dist g s v (k + d).
  Proof.
    induction fuel as [|fuel IH]; intros seen front k Hseen Hfront Hnd Hlt Hfuel v d.
    - assert (front = []) as ->.
      { destruct Hfuel as [H|H]; [exact H|]. pose proof (seen_bound _ Hnd Hlt). lia. }
      cbn. split; [discriminate|]. intros H. exfalso.
      eapply no_front_no_further; [|exact H]. intros u Hu. apply Hfront in Hu. destruct Hu.
    - destruct front as [|x front'].
      + cbn. split; [discriminate|]. intros H. exfalso.
        eapply no_front_no_further; [|exact H]. intros u Hu. apply Hfront in Hu. destruct Hu.
      + cbn [bfs_layers]. set (front := x :: front') in *.
        set (next := fresh seen (flat_map (succs g) front)).
        pose proof (next_ok _ _ _ Hseen Hfront) as Hnext. fold next in Hnext.
        pose proof (seen_next_ok _ _ _ Hseen Hfront) as Hseen'. fold next in Hseen'.
        assert (Hnd' : NoDup (next ++ seen)).
        { apply NoDup_app_iff_local. - apply fresh_NoDup. - exact Hnd.
          - intros y Hy. apply fresh_In in Hy. apply Hy. }
        assert (Hlt' : forall y, In y (next ++ seen) -> y < length g).
        { intros y Hy. apply in_app_iff in Hy. destruct Hy as [Hy|Hy]; [|apply Hlt; exact Hy].
          apply Hnext in Hy. destruct Hy as [Hy _]. eapply walk_lt; eassumption. }
        assert (Hfuel' : next = [] \/ length g + 1 <= length (next ++ seen) + fuel).
        { destruct next as [|y next'] eqn:En; [left; reflexivity | right].
          rewrite app_length. cbn [length].
          destruct Hfuel as [H|H]; [discriminate H | lia]. }
        specialize (IH (next ++ seen) next (S k) Hseen' Hnext Hnd' Hlt' Hfuel' v).
        cbn [layer_index]. destruct (memb v front) eqn:Hm.
        * apply memb_In in Hm. apply Hfront in Hm. split.
          -- intros H. injection H as <-. rewrite Nat.add_0_r. exact Hm.
          -- intros H. f_equal. pose proof (is_dist_unique _ _ _ _ _ Hm H). lia.
        * apply memb_false in Hm. split.
          -- intros H. destruct (layer_index v (bfs_layers g fuel (next ++ seen) next)) as [d'|] eqn:El; [|discriminate].
             cbn in H. injection H as <-. rewrite Nat.add_succ_r.
             change (is_dist g s v (S k + d')). apply (IH d'). reflexivity.
          -- intros H. destruct d as [|d'].
             ++ exfalso. apply Hm. apply Hfront. rewrite Nat.add_0_r in H. exact H.
             ++ rewrite Nat.add_succ_r in H. change (is_dist g s v (S k + d')) in H.
                apply IH in H. rewrite H. reflexivity.
  Qed.
End Bfs.

Lemma bfs_dist_some : forall g s v k, wf_graph g = true -> s < length g ->
  (bfs_dist g s v = Some k <-> is_dist g s v k).
Proof.
  intros g s v k Hwf Hs. unfold bfs_dist, bfs.
  apply (bfs_layers_spec g s Hwf Hs (length g) [s] [s] 0).
  - intros u. cbn [In]. split.
    + intros [H|[]]. subst. exists 0. split; [lia | constructor].
    + intros [j [Hj Hw]]. assert (j = 0) by lia. subst. apply walk_0 in Hw. left. symmetry. exact Hw.
  - intros u. cbn [In]. split.
    + intros [H|[]]. subst. apply is_dist_self.
    + intros [Hw _]. apply walk_0 in Hw. left. symmetry. exact Hw.
  - constructor; [intros [] | constructor].
  - intros u [H|[]]. subst. exact Hs.
  - right. cbn [length]. lia.
Qed.

Theorem bfs_dist_correct : S_bfs_dist.
Proof.
  intros g s v Hwf Hs. split; [intros k; apply bfs_dist_some; assumption|].
  split.
  - intros Hn [k Hk]. destruct (walk_min _ _ _ _ Hk) as [d Hd].
    apply (bfs_dist_some g s v d Hwf Hs) in Hd. congruence.
  - intros Hn. destruct (bfs_dist g s v) as [k|] eqn:E; [|reflexivity].
    exfalso. apply Hn. apply (bfs_dist_some g s v k Hwf Hs) in E. exists k. apply E.
Qed.

(** ---- the matrix ---- *)
Lemma dist_matrix_length : forall g, length (dist_matrix g) = length g.
Proof. intros g. unfold dist_matrix. rewrite map_length, seq_length. reflexivity. Qed.

Lemma dist_row_nth : forall g s, s < length g -> nth s (dist_matrix g) [] = dist_row g s.
Proof. intros g s Hs. unfold dist_matrix. apply nth_map_seq. exact Hs. Qed.

Lemma dget_dist : forall g s v, s < length g -> v < length g ->
  dget (dist_matrix g) s v = bfs_dist g s v.
Proof.
  intros g s v Hs Hv. unfold dget. rewrite dist_row_nth by exact Hs.
  unfold dist_row. rewrite nth_map_seq by exact Hv. reflexivity.
Qed.

Lemma dist_row_length : forall g s, length (dist_row g s) = length g.
Proof. intros g s. unfold dist_row. rewrite map_length, seq_length. reflexivity. Qed.

Lemma is_dist_lt : forall g s v k, wf_graph g = true -> s < length g -> is_dist g s v k -> v < length g.
Proof. intros g s v k Hwf Hs [H _]. eapply walk_lt; eassumption. Qed.

(** a walk to a node of the graph starts in the graph, or is empty *)
Lemma walk_src_lt : forall g s v k, walk g s v k -> v < length g -> s < length g.
Proof.
  intros g s v k H. induction H as [|u v k H IH Hin]; intros Hv; [exact Hv|].
  apply IH. unfold succs in Hin. destruct (Nat.lt_ge_cases u (length g)) as [Hu|Hu]; [exact Hu|].
  rewrite nth_overflow in Hin by exact Hu. destruct Hin.
Qed.

Theorem ecc_spec : S_ecc_spec.
Proof.
  intros g v Hwf Hv. split.
  - (* forward *)
    unfold ecc_f_dm. rewrite dist_row_nth by exact Hv.
    set (row := dist_row g v). set (e := list_max (map odef row)).
    assert (Hrow : forall w k, w < length g -> (nth w row None = Some k <-> is_dist g v w k)).
    { intros w k Hw. unfold row, dist_row. rewrite nth_map_seq by exact Hw.
      apply (bfs_dist_some g v w k Hwf Hv). }
    split.
    + destruct (Nat.eq_0_gt_0_cases e) as [He|He].
      * exists v. rewrite He. apply is_dist_self.
      * pose proof (list_max_attained _ He) as Hin. fold e in Hin.
        apply in_map_iff in Hin. destruct Hin as [o [Ho Hin]].
        destruct (In_nth _ _ None Hin) as [w [Hw Hnth]].
        unfold row in Hw. rewrite dist_row_length in Hw.
        destruct o as [k|]; cbn in Ho; [|lia]. subst k.
        exists w. apply Hrow; assumption.
    + intros w k Hd. pose proof (is_dist_lt _ _ _ _ Hwf Hv Hd) as Hw.
      apply Hrow in Hd; [|exact Hw]. apply list_max_ge. apply in_map_iff.
      exists (Some k). split; [reflexivity|]. rewrite <- Hd. apply nth_In.
      unfold row. rewrite dist_row_length. exact Hw.
  - (* backward *)
    unfold ecc_b_dm. set (dm := dist_matrix g).
    set (e := list_max (map (fun row => odef (nth v row None)) dm)).
    assert (Hcol : forall w k, w < length g -> (nth v (nth w dm []) None = Some k <-> is_dist g w v k)).
    { intros w k Hw. change (dget dm w v = Some k <-> is_dist g w v k). unfold dm.
      rewrite dget_dist by assumption. apply (bfs_dist_some g w v k Hwf Hw). }
    split.
    + destruct (Nat.eq_0_gt_0_cases e) as [He|He].
      * exists v. rewrite He. apply is_dist_self.
      * pose proof (list_max_attained _ He) as Hin. fold e in Hin.
        apply in_map_iff in Hin. destruct Hin as [row [Ho Hin]].
        destruct (In_nth _ _ [] Hin) as [w [Hw Hnth]].
        unfold dm in Hw. rewrite dist_matrix_length in Hw. subst row.
        destruct (nth v (nth w dm []) None) as [k|] eqn:E; cbn in Ho; [|lia]. subst k.
        exists w. apply Hcol; assumption.
    + intros w k Hd.
      assert (Hw : w < length g) by (destruct Hd as [Hd _]; eapply walk_src_lt; eassumption).
      apply Hcol in Hd; [|exact Hw]. apply list_max_ge. apply in_map_iff.
      exists (nth w dm []). split; [rewrite Hd; reflexivity|]. apply nth_In.
      unfold dm. rewrite dist_matrix_length. exact Hw.
Qed.

Lemma is_ecc_f_unique : forall g v a b, is_ecc_f g v a -> is_ecc_f g v b -> a = b.
Proof.
  intros g v a b [[w Hw] Ha] [[w' Hw'] Hb]. apply Hb in Hw. apply Ha in Hw'. lia.
Qed.

Lemma is_ecc_b_unique : forall g v a b, is_ecc_b g v a -> is_ecc_b g v b -> a = b.
Proof.
  intros g v a b [[w Hw] Ha] [[w' Hw'] Hb]. apply Hb in Hw. apply Ha in Hw'. lia.
Qed.

Lemma eccs_f_nth : forall g v, v < length g -> nth v (eccs_f (dist_matrix g)) 0 = ecc_f_dm (dist_matrix g) v.
Proof. intros g v Hv. unfold eccs_f. rewrite dist_matrix_length. apply nth_map_seq. exact Hv. Qed.
Lemma eccs_b_nth : forall g v, v < length g -> nth v (eccs_b (dist_matrix g)) 0 = ecc_b_dm (dist_matrix g) v.
Proof. intros g v Hv. unfold eccs_b. rewrite dist_matrix_length. apply nth_map_seq. exact Hv. Qed.
Lemma eccs_f_length : forall g, length (eccs_f (dist_matrix g)) = length g.
Proof. intros g. unfold eccs_f. rewrite map_length, seq_length. apply dist_matrix_length. Qed.
Lemma eccs_b_length : forall g, length (eccs_b (dist_matrix g)) = length g.
Proof. intros g. unfold eccs_b. rewrite map_length, seq_length. apply dist_matrix_length. Qed.

Lemma list_ext_nth : forall (a b : list nat), length a = length b ->
  (forall i, i < length a -> nth i a 0 = nth i b 0) -> a = b.
Proof.
  induction a as [|x a IH]; intros [|y b] Hl H; cbn in Hl; try reflexivity; try discriminate.
  f_equal.
  - apply (H 0). cbn. lia.
  - apply IH; [lia|]. intros i Hi. apply (H (S i)). cbn. lia.
Qed.

(** a list equals the forward eccentricities iff it has the right length and entries *)
Lemma eccf_list_iff : forall g l, wf_graph g = true ->
  (l = eccs_f (dist_matrix g) <->
   length l = length g /\ forall v, v < length g -> is_ecc_f g v (nth v l 0)).
Proof.
  intros g l Hwf. split.
  - intros ->. split; [apply eccs_f_length|]. intros v Hv. rewrite eccs_f_nth by exact Hv.
    apply ecc_spec; assumption.
  - intros [Hl H]. apply list_ext_nth; [rewrite eccs_f_length; exact Hl|].
    intros i Hi. rewrite Hl in Hi. rewrite eccs_f_nth by exact Hi.
    eapply is_ecc_f_unique; [apply H; exact Hi | apply ecc_spec; assumption].
Qed.

Lemma eccb_list_iff : forall g l, wf_graph g = true ->
  (l = eccs_b (dist_matrix g) <->
   length l = length g /\ forall v, v < length g -> is_ecc_b g v (nth v l 0)).
Proof.
  intros g l Hwf. split.
  - intros ->. split; [apply eccs_b_length|]. intros v Hv. rewrite eccs_b_nth by exact Hv.
    apply ecc_spec; assumption.
  - intros [Hl H]. apply list_ext_nth; [rewrite eccs_b_length; exact Hl|].
    intros i Hi. rewrite Hl in Hi. rewrite eccs_b_nth by exact Hi.
    eapply is_ecc_b_unique; [apply H; exact Hi | apply ecc_spec; assumption].
Qed.

Lemma diameter_spec : forall g, wf_graph g = true -> 0 < length g ->
  is_diameter g (diameter_of (eccs_f (dist_matrix g))).
Proof.
  intros g Hwf Hn. unfold diameter_of. set (ef := eccs_f (dist_matrix g)). split.
  - destruct (Nat.eq_0_gt_0_cases (list_max ef)) as [He|He].
    + exists 0. split; [exact Hn|].
      assert (H0 : ecc_f_dm (dist_matrix g) 0 = list_max ef); [|rewrite <- H0; apply ecc_spec; assumption].
      assert (H0 : ecc_f_dm (dist_matrix g) 0 = 0); [|lia].
      { assert (ecc_f_dm (dist_matrix g) 0 <= list_max ef); [|lia].
        apply list_max_ge. unfold ef. rewrite <- eccs_f_nth by exact Hn. apply nth_In.
        rewrite eccs_f_length. exact Hn. }
    + pose proof (list_max_attained _ He) as Hin. destruct (In_nth _ _ 0 Hin) as [v [Hv Hnth]].
      unfold ef in Hv. rewrite eccs_f_length in Hv. exists v. split; [exact Hv|].
      rewrite <- Hnth. unfold ef. rewrite eccs_f_nth by exact Hv. apply ecc_spec; assumption.
  - intros v e Hv He.
    assert (e = ecc_f_dm (dist_matrix g) v) as ->
      by (eapply is_ecc_f_unique; [exact He | apply ecc_spec; assumption]).
    apply list_max_ge. unfold ef. rewrite <- eccs_f_nth by exact Hv. apply nth_In.
    rewrite eccs_f_length. exact Hv.
Qed.

Lemma is_diameter_unique : forall g a b, is_diameter g a -> is_diameter g b -> a = b.
Proof.
  intros g a b [[v [Hv Ha]] Hamax] [[w [Hw Hb]] Hbmax].
  pose proof (Hbmax _ _ Hv Ha). pose proof (Hamax _ _ Hw Hb). lia.
Qed.

(** radius over lists *)
Lemma radius_from_some : forall ef radial r,
  radius_from ef radial = Some r <->
  (exists i, i < length ef /\ nth i radial false = true /\ nth i ef 0 = r) /\
  (forall i, i < length ef -> nth i radial false = true -> r <= nth i ef 0).
Proof.
  induction ef as [|e ef IH]; intros radial r.
  - cbn. split; [discriminate | intros [[i [Hi _]] _]; lia].
  - destruct radial as [|b radial].
    + cbn. split; [discriminate|]. intros [[i [_ [H _]]] _]. destruct i; discriminate.
    + cbn [radius_from]. destruct b.
      * destruct (radius_from ef radial) as [m|] eqn:E.
        -- pose proof (proj1 (IH radial m) E) as [[i [Hi [Hr Hn]]] Hmin]. split.
           ++ intros H. injection H as <-. split.
              ** destruct (Nat.min_spec e m) as [[H1 H2]|[H1 H2]]; rewrite H2.
                 --- exists 0. cbn. split; [lia | split; reflexivity].
                 --- exists (S i). cbn. split; [lia | split; [exact Hr | exact Hn]].
              ** intros [|j] Hj Hrj; cbn [nth length] in *; [lia|].
                 assert (m <= nth j ef 0) by (apply Hmin; [lia | exact Hrj]). lia.
           ++ intros [[j [Hj [Hrj Hnj]]] Hmin']. f_equal.
              assert (r <= e) by (apply (Hmin' 0); cbn; [lia | reflexivity]).
              assert (r <= m) by (rewrite <- Hn; apply (Hmin' (S i)); cbn; [lia | exact Hr]).
              destruct j as [|j]; cbn [nth length] in *; [lia|].
              assert (m <= nth j ef 0) by (apply Hmin; [lia | exact Hrj]). lia.
        -- assert (Hnone : forall i, i < length ef -> nth i radial false = false).
           { intros i Hi. destruct (nth i radial false) eqn:En; [|reflexivity].
             assert (X : exists r', radius_from ef radial = Some r').
             { clear - Hi En. revert radial i Hi En. induction ef as [|e' ef IH']; intros radial i Hi En; [cbn in Hi; lia|].
               destruct radial as [|b radial]; [destruct i; discriminate|]. cbn [radius_from].
               destruct b; [eexists; reflexivity|]. destruct i as [|i]; [discriminate|].
               cbn in Hi, En. apply (IH' radial i); [lia | exact En]. }
             destruct X as [r' X]. congruence. }
           split.
           ++ intros H. injection H as <-. split.
              ** exists 0. cbn. split; [lia | split; reflexivity].
              ** intros [|j] Hj Hrj; cbn [nth length] in *; [lia|]. rewrite Hnone in Hrj by lia. discriminate.
           ++ intros [[j [Hj [Hrj Hnj]]] Hmin']. f_equal.
              destruct j as [|j]; cbn [nth length] in *; [lia|]. rewrite Hnone in Hrj by lia. discriminate.
      * rewrite IH. split.
        -- intros [[i [Hi [Hr Hn]]] Hmin]. split.
           ++ exists (S i). cbn. split; [lia | split; [exact Hr | exact Hn]].
           ++ intros [|j] Hj Hrj; cbn [nth length] in *; [discriminate|]. apply Hmin; [lia | exact Hrj].
        -- intros [[i [Hi [Hr Hn]]] Hmin]. split.
           ++ destruct i as [|i]; cbn [nth length] in *; [discriminate|]. exists i. split; [lia | split; [exact Hr | exact Hn]].
           ++ intros j Hj Hrj. apply (Hmin (S j)); cbn; [lia | exact Hrj].
Qed.

Lemma radius_from_none : forall ef radial,
  radius_from ef radial = None <-> forall i, i < length ef -> nth i radial false = false.
Proof.
  induction ef as [|e ef IH]; intros radial.
  - cbn. split; [intros _ i Hi; lia | reflexivity].
  - destruct radial as [|b radial].
    + cbn. split; [intros _ i _; destruct i; reflexivity | reflexivity].
    + cbn [radius_from]. destruct b.
      * split; [discriminate|]. intros H. specialize (H 0). cbn in H. discriminate H. lia.
      * rewrite IH. split.
        -- intros H [|i] Hi; cbn; [reflexivity | apply H; cbn in Hi; lia].
        -- intros H i Hi. apply (H (S i)). cbn. lia.
Qed.

Lemma radius_spec : forall g radial r, wf_graph g = true ->
  (radius_from (eccs_f (dist_matrix g)) radial = Some r <-> is_radius g radial r).
Proof.
  intros g radial r Hwf. rewrite radius_from_some. rewrite eccs_f_length. unfold is_radius, is_radial. split.
  - intros [[i [Hi [Hr Hn]]] Hmin]. split.
    + exists i. split; [exact Hi | split; [exact Hr |]]. rewrite <- Hn. rewrite eccs_f_nth by exact Hi.
      apply ecc_spec; assumption.
    + intros v e Hv Hrv He. specialize (Hmin v Hv Hrv). rewrite eccs_f_nth in Hmin by exact Hv.
      assert (e = ecc_f_dm (dist_matrix g) v) as ->
        by (eapply is_ecc_f_unique; [exact He | apply ecc_spec; assumption]). exact Hmin.
  - intros [[v [Hv [Hrv He]]] Hmin]. split.
    + exists v. split; [exact Hv | split; [exact Hrv |]]. rewrite eccs_f_nth by exact Hv.
      eapply is_ecc_f_unique; [apply ecc_spec; assumption | exact He].
    + intros i Hi Hri. rewrite eccs_f_nth by exact Hi. apply (Hmin i); [exact Hi | exact Hri |].
      apply ecc_spec; assumption.
Qed.

Lemma is_radius_unique : forall g radial a b, is_radius g radial a -> is_radius g radial b -> a = b.
Proof.
  intros g radial a b [[v [Hv [Hr Ha]]] Hamin] [[w [Hw [Hr' Hb]]] Hbmin].
  pose proof (Hbmin _ _ Hv Hr Ha). pose proof (Hamin _ _ Hw Hr' Hb). lia.
Qed.

Lemma check_ess_dm_iff : forall g radial o l, wf_graph g = true -> 0 < length g ->
  (check_ess_dm (dist_matrix g) radial o l = true <-> ess_correct g radial o l).
Proof.
  intros g radial o l Hwf Hn. unfold check_ess_dm, ess_correct.
  rewrite !andb_true_iff, !orb_true_iff, !negb_true_iff, !andb_true_iff.
  assert (HF : check_eccf (dist_matrix g) o = true <->
               length (o_eccf o) = length g /\ forall v, v < length g -> is_ecc_f g v (nth v (o_eccf o) 0)).
  { unfold check_eccf. rewrite list_eqb_eq. apply eccf_list_iff. exact Hwf. }
  assert (HB : check_eccb (dist_matrix g) o = true <->
               length (o_eccb o) = length g /\ forall v, v < length g -> is_ecc_b g v (nth v (o_eccb o) 0)).
  { unfold check_eccb. rewrite list_eqb_eq. apply eccb_list_iff. exact Hwf. }
  assert (HD : check_diam (dist_matrix g) o = true /\ check_dv (dist_matrix g) o = true <->
               is_diameter g (o_diam o) /\ o_dv o < length g /\
               (is_ecc_f g (o_dv o) (o_diam o) \/ is_ecc_b g (o_dv o) (o_diam o))).
  { unfold check_diam, check_dv. rewrite Nat.eqb_eq, andb_true_iff, orb_true_iff, Nat.ltb_lt, !Nat.eqb_eq.
    rewrite dist_matrix_length. split.
    - intros [Hd [Hv He]]. split; [rewrite Hd; apply diameter_spec; assumption|]. split; [exact Hv|].
      destruct He as [He|He]; [left | right]; rewrite <- He; apply ecc_spec; assumption.
    - intros [Hd [Hv He]]. split; [eapply is_diameter_unique; [exact Hd | apply diameter_spec; assumption]|].
      split; [exact Hv|]. destruct He as [He|He]; [left | right].
      + eapply is_ecc_f_unique; [apply ecc_spec; assumption | exact He].
      + eapply is_ecc_b_unique; [apply ecc_spec; assumption | exact He]. }
  assert (HR : check_rad (dist_matrix g) radial o = true /\ check_rv (dist_matrix g) radial o = true <->
               match o_rad o with
               | Some r => is_radius g radial r /\ o_rv o < length g /\ is_radial radial (o_rv o) /\ is_ecc_f g (o_rv o) r
               | None => forall v, v < length g -> ~ is_radial radial v
               end).
  { unfold check_rad, check_rv. destruct (o_rad o) as [r|].
    - rewrite !andb_true_iff, Nat.ltb_lt, Nat.eqb_eq, dist_matrix_length. unfold is_radial. split.
      + intros [Hr [[Hv Hrv] He]]. destruct (radius_from (eccs_f (dist_matrix g)) radial) as [r'|] eqn:E; [|discriminate].
        apply Nat.eqb_eq in Hr. subst r'. apply radius_spec in E; [|exact Hwf].
        split; [exact E|]. split; [exact Hv|]. split; [exact Hrv|].
        rewrite <- He. apply ecc_spec; assumption.
      + intros [Hr [Hv [Hrv He]]]. apply radius_spec in Hr; [|exact Hwf]. rewrite Hr. rewrite Nat.eqb_refl.
        split; [reflexivity|]. split; [split; [exact Hv | exact Hrv]|].
        eapply is_ecc_f_unique; [apply ecc_spec; assumption | exact He].
    - destruct (radius_from (eccs_f (dist_matrix g)) radial) as [r'|] eqn:E.
      + split; [intros [H _]; discriminate|]. intros H. exfalso.
        apply radius_spec in E; [|exact Hwf]. destruct E as [[v [Hv [Hr _]]] _]. exact (H v Hv Hr).
      + split; [|intros _; split; reflexivity]. intros _ v Hv Hr.
        rewrite radius_from_none in E. rewrite eccs_f_length in E. unfold is_radial in Hr.
        rewrite (E v Hv) in Hr. discriminate. }
  assert (W : forall (w : bool) (C P : Prop), (C <-> P) -> ((w = false \/ C) <-> (w = true -> P))).
  { intros w C P H. destruct w; split; intros X.
    - intros _. destruct X as [X|X]; [discriminate X | apply H; exact X].
    - right. apply H. apply X. reflexivity.
    - intros E. discriminate E.
    - left. reflexivity. }
  rewrite (W _ _ _ HF), (W _ _ _ HB), (W _ _ _ HD), (W _ _ _ HR). tauto.
Qed.

Theorem spec_checker_sound : S_spec_checker_sound.
Proof. intros g radial o l Hwf Hn. unfold check_ess. apply check_ess_dm_iff; assumption. Qed.

(** ---- the default radial set ---- *)
Lemma reaches_iff : forall g v w, wf_graph g = true -> v < length g -> w < length g ->
  (reaches (dist_matrix g) v w = true <-> reachable g v w).
Proof.
  intros g v w Hwf Hv Hw. unfold reaches. rewrite dget_dist by assumption.
  destruct (bfs_dist g v w) as [k|] eqn:E.
  - split; [|reflexivity]. intros _. apply (bfs_dist_some g v w k Hwf Hv) in E. exists k. apply E.
  - split; [discriminate|]. intros H. exfalso. apply (bfs_dist_correct g v w Hwf Hv) in E. exact (E H).
Qed.

Theorem radial_of_spec : S_radial_of_spec.
Proof.
  intros g c v Hwf Hc Hv. unfold is_radial, radial_of. rewrite dist_matrix_length.
  rewrite nth_map_seq by exact Hv. apply reaches_iff; assumption.
Qed.

Theorem scc_size_spec : S_scc_size_spec.
Proof.
  intros g c Hwf Hc. unfold scc_size. rewrite dist_matrix_length.
  exists (filter (fun w => reaches (dist_matrix g) c w && reaches (dist_matrix g) w c) (seq 0 (length g))).
  split; [apply NoDup_filter; apply seq_NoDup|]. split; [|reflexivity].
  intros w. rewrite filter_In, in_seq, andb_true_iff. split.
  - intros [Hw [H1 H2]]. assert (w < length g) by lia.
    split; [apply (reaches_iff g c w) | apply (reaches_iff g w c)]; assumption.
  - intros [[k H1] H2]. assert (Hw : w < length g) by (eapply walk_lt; eassumption).
    split; [lia|]. split; [apply (reaches_iff g c w) | apply (reaches_iff g w c)]; try assumption.
    exists k. exact H1.
Qed.

Theorem default_checker_sound : S_default_checker_sound.
Proof.
  intros g o l Hwf Hn. unfold check_ess_default, largest_scc_nodes, max_scc_size.
  rewrite existsb_exists. rewrite dist_matrix_length.
  set (dm := dist_matrix g).
  assert (Hmax : forall c, c < length g ->
            (scc_size dm c = list_max (map (scc_size dm) (seq 0 (length g))) <->
             forall c', c' < length g -> scc_size dm c' <= scc_size dm c)).
  { intros c Hc. split.
    - intros E c' Hc'. rewrite E. apply list_max_ge. apply in_map. apply in_seq. lia.
    - intros H. apply Nat.le_antisymm.
      + apply list_max_ge. apply in_map. apply in_seq. lia.
      + apply list_max_le. apply Forall_forall. intros x Hx. apply in_map_iff in Hx.
        destruct Hx as [c' [<- Hc']]. apply in_seq in Hc'. apply H. lia. }
  split.
  - intros [c [Hc Hck]]. apply filter_In in Hc. destruct Hc as [Hc Hsz]. apply in_seq in Hc.
    apply Nat.eqb_eq in Hsz. exists c. split; [lia|]. split; [apply Hmax; [lia | exact Hsz]|].
    apply check_ess_dm_iff; assumption.
  - intros [c [Hc [Hsz Hok]]]. exists c. split.
    + apply filter_In. split; [apply in_seq; lia|]. apply Nat.eqb_eq. apply Hmax; assumption.
    + apply check_ess_dm_iff; assumption.
Qed.
