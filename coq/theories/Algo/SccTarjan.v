(** General correctness of the Tarjan model (C15): [tarjan g] is the partition into strongly
    connected components, for every well-formed graph (no size bound).

    The proof works directly on the event-handler model of Algo/Scc.v with ghost state:
    [act] (the nodes visited and not yet emitted, latest first), [vis] (all visited nodes)
    and [ts] (the timestamp assigned at the previsit).  [G] is the global invariant;
    [LI] the invariant of the successors loop of a node; [Post]/[PB] the postconditions of a
    completed / interrupted visit of a subtree. *)
From WG Require Import Base.Prelude Algo.Scc Algo.SccStatements Algo.SccFacts.
Local Open Scope nat_scope.

(** * The successors loop as a top-level function *)
Definition brk_mark (st2 : tstate) (curr : nat) : tstate :=
  mkT (t_known st2) (upd (t_high st2) curr (t_noc st2)) (t_lead st2) (t_cstack st2)
      (t_index st2) (t_root_high st2) (t_noc st2).

Fixpoint t_loop (rec : nat -> tstate -> tstate * bool) (curr : nat) (l : list nat) (st : tstate)
  : tstate * bool :=
  match l with
  | [] => (st, false)
  | s :: rest =>
    if nth s (t_known st) false then
      let '(st1, brk) := t_revisit st s curr in
      if brk then (st1, true) else t_loop rec curr rest st1
    else
      let '(st2, brk) := rec s (t_previsit st s) in
      if brk then (brk_mark st2 curr, true) else t_loop rec curr rest st2
  end.

Lemma t_visit_unfold : forall f g curr parent st,
  t_visit (S f) g curr parent st =
  let '(st', brk) := t_loop (fun s st => t_visit f g s curr st) curr (succs g curr) st in
  if brk then (st', true) else (t_postvisit st' curr parent, false).
Proof.
  intros f g curr parent st. cbn [t_visit].
  match goal with |- (let '(_, _) := ?F _ _ in _) = _ =>
    assert (E : forall l s, F l s = t_loop (fun s st => t_visit f g s curr st) curr l s) end.
  { induction l as [|x l IH]; intro s; [reflexivity|]. cbn [t_loop].
    destruct (nth x (t_known s) false).
    - destruct (t_revisit s x curr) as [s1 [|]]; [reflexivity|apply IH].
    - destruct (t_visit f g x curr (t_previsit s x)) as [s2 [|]]; [reflexivity|apply IH]. }
  rewrite E. reflexivity.
Qed.

(** * List utilities *)
Lemma app_eq_len : forall A (a c b d : list A), length a = length c -> a ++ b = c ++ d -> a = c /\ b = d.
Proof.
  induction a as [|x a IH]; intros [|y c] b d Hl H; cbn in *; try discriminate; [tauto|].
  injection H as -> H. injection Hl as Hl. destruct (IH _ _ _ Hl H). subst. tauto.
Qed.

Lemma map_seq_split : forall (ts : nat -> nat) l1 l2 a,
  map ts (l1 ++ l2) = seq a (length (l1 ++ l2)) ->
  map ts l1 = seq a (length l1) /\ map ts l2 = seq (a + length l1) (length l2).
Proof.
  intros ts l1 l2 a H. rewrite map_app, app_length, seq_app in H.
  apply app_eq_len in H; [exact H|]. rewrite map_length, seq_length. reflexivity.
Qed.

Lemma map_seq_range : forall (ts : nat -> nat) l a x,
  map ts l = seq a (length l) -> In x l -> a <= ts x < a + length l.
Proof.
  intros ts l a x H Hx. apply (in_map ts) in Hx. rewrite H in Hx. apply in_seq in Hx. exact Hx.
Qed.

Lemma nodup_equiv_length : forall (a b : list nat), NoDup a -> NoDup b ->
  (forall x, In x a <-> In x b) -> length a = length b.
Proof.
  intros a b Ha Hb H. apply Nat.le_antisymm; apply NoDup_incl_length; try assumption;
    intros x Hx; apply H; exact Hx.
Qed.

Lemma nodup_full : forall n l, NoDup l -> (forall x, In x l -> x < n) -> length l = n ->
  forall x, x < n -> In x l.
Proof.
  intros n l Hnd Hb Hl x Hx.
  assert (Hi : incl (seq 0 n) l).
  { apply NoDup_length_incl; [exact Hnd|rewrite seq_length; lia|].
    intros y Hy. apply in_seq. specialize (Hb y Hy). lia. }
  apply Hi. apply in_seq. lia.
Qed.

Lemma fold_upd_length : forall (l : list nat) (h : list nat) c,
  length (fold_left (fun h x => upd h x c) l h) = length h.
Proof. induction l as [|x l IH]; intros h c; cbn; [reflexivity|]. rewrite IH. apply upd_length. Qed.

Lemma fold_upd_nth : forall (l : list nat) (h : list nat) c x, x < length h ->
  nth x (fold_left (fun h x => upd h x c) l h) 0 = if memb x l then c else nth x h 0.
Proof.
  induction l as [|y l IH]; intros h c x Hx; cbn [fold_left]; [reflexivity|].
  rewrite IH by (rewrite upd_length; exact Hx).
  change (memb x (y :: l)) with ((x =? y) || memb x l).
  destruct (memb x l) eqn:E; [rewrite orb_true_r; reflexivity|]. rewrite orb_false_r.
  rewrite nth_upd. destruct (x =? y) eqn:E2; [|reflexivity].
  apply Nat.eqb_eq in E2. subst y. apply Nat.ltb_lt in Hx. rewrite Hx. reflexivity.
Qed.

Lemma nth_upd_same : forall A (l : list A) i x d, i < length l -> nth i (upd l i x) d = x.
Proof. intros. rewrite nth_upd, Nat.eqb_refl. apply Nat.ltb_lt in H. rewrite H. reflexivity. Qed.

Lemma nth_upd_other : forall A (l : list A) i x j d, j <> i -> nth j (upd l i x) d = nth j l d.
Proof. intros. rewrite nth_upd. apply Nat.eqb_neq in H. rewrite H. reflexivity. Qed.

Lemma t_pop_spec : forall hn noc l1 l2 high idx,
  NoDup (l1 ++ l2) -> (forall c, In c l1 -> nth c high 0 <= hn) ->
  (forall c, In c l2 -> hn < nth c high 0) ->
  t_pop hn noc (l1 ++ l2) high idx = (l2, fold_left (fun h x => upd h x noc) l1 high, idx + length l1).
Proof.
  induction l1 as [|c l1 IH]; intros l2 high idx Hnd H1 H2.
  - cbn [app fold_left length]. rewrite Nat.add_0_r. destruct l2 as [|c cs]; [reflexivity|].
    cbn [t_pop]. specialize (H2 c (or_introl eq_refl)). apply Nat.ltb_lt in H2. rewrite H2. reflexivity.
  - cbn [app t_pop fold_left length]. pose proof (H1 c (or_introl eq_refl)) as Hc.
    apply Nat.ltb_ge in Hc. rewrite Hc. cbn [app] in Hnd. inversion Hnd as [|? ? Hni Hnd']; subst.
    rewrite IH; [f_equal; lia|exact Hnd'| |].
    + intros c' Hc'. rewrite nth_upd_other; [apply H1; right; exact Hc'|].
      intro; subst c'. apply Hni. apply in_or_app. left. exact Hc'.
    + intros c' Hc'. rewrite nth_upd_other; [apply H2; exact Hc'|].
      intro; subst c'. apply Hni. apply in_or_app. right. exact Hc'.
Qed.

Lemma NoDup_app_l : forall (a b : list nat), NoDup (a ++ b) -> NoDup a.
Proof.
  induction a as [|x a IH]; intros b H; [constructor|]. cbn in H. inversion H; subst.
  constructor; [intro; apply H2; apply in_or_app; left; assumption|eapply IH; eassumption].
Qed.

Lemma NoDup_app_r : forall (a b : list nat), NoDup (a ++ b) -> NoDup b.
Proof. induction a as [|x a IH]; intros b H; [exact H|]. cbn in H. inversion H; subst. apply IH. assumption. Qed.

Definition tsu (ts : nat -> nat) (s v : nat) : nat -> nat := fun x => if x =? s then v else ts x.

Section Tarjan.
Variable g : graph.
Hypothesis Hwf : wf_graph g.
Notation n := (length g).

(** * The global invariant (on the components of the state other than the lead stack) *)
Record GI (kn : list bool) (high cs : list nat) (idx rh noc : nat)
          (ts : nat -> nat) (act vis : list nat) : Prop := mkGI {
  g_lenk : length kn = n;
  g_lenh : length high = n;
  g_nodup : NoDup act;
  g_act : forall x, In x act -> In x vis;
  g_vnodup : NoDup vis;
  g_vis : forall x, In x vis <-> (x < n /\ nth x kn false = true);
  g_idx : idx + length act = n;
  g_ts : map ts act = seq (S idx) (length act);
  g_noc : noc + length act <= length vis;
  g_em : forall x, In x vis -> ~ In x act -> nth x high 0 < noc;
  g_hi : forall x, In x act ->
         ts x <= nth x high 0 /\ exists y, In y act /\ ts y = nth x high 0 /\ reachable g x y;
  g_old : forall x y, In x act -> In y act -> ts y <= ts x -> reachable g x y;
  g_closed : forall x y, In x vis -> ~ In x act -> arc g x y ->
             In y vis /\ ~ In y act /\ nth y high 0 <= nth x high 0;
  g_sound : forall x y, In x vis -> ~ In x act -> In y vis -> ~ In y act ->
            nth x high 0 = nth y high 0 -> same_scc g x y;
  g_surj : forall c, c < noc -> exists x, In x vis /\ ~ In x act /\ nth x high 0 = c;
  g_csnd : NoDup cs;
  g_cs : forall c, In c cs ->
         In c act /\ forall y, arc g c y -> In y vis /\ (In y act -> ts y <= nth c high 0);
  g_root : act <> [] -> rh = n
}.

Arguments g_lenk {kn high cs idx rh noc ts act vis} _.
Arguments g_lenh {kn high cs idx rh noc ts act vis} _.
Arguments g_nodup {kn high cs idx rh noc ts act vis} _.
Arguments g_act {kn high cs idx rh noc ts act vis} _.
Arguments g_vnodup {kn high cs idx rh noc ts act vis} _.
Arguments g_vis {kn high cs idx rh noc ts act vis} _.
Arguments g_idx {kn high cs idx rh noc ts act vis} _.
Arguments g_ts {kn high cs idx rh noc ts act vis} _.
Arguments g_noc {kn high cs idx rh noc ts act vis} _.
Arguments g_em {kn high cs idx rh noc ts act vis} _.
Arguments g_hi {kn high cs idx rh noc ts act vis} _.
Arguments g_old {kn high cs idx rh noc ts act vis} _.
Arguments g_closed {kn high cs idx rh noc ts act vis} _.
Arguments g_sound {kn high cs idx rh noc ts act vis} _.
Arguments g_surj {kn high cs idx rh noc ts act vis} _.
Arguments g_csnd {kn high cs idx rh noc ts act vis} _.
Arguments g_cs {kn high cs idx rh noc ts act vis} _.
Arguments g_root {kn high cs idx rh noc ts act vis} _.

Definition G (st : tstate) : (nat -> nat) -> list nat -> list nat -> Prop :=
  GI (t_known st) (t_high st) (t_cstack st) (t_index st) (t_root_high st) (t_noc st).

Lemma vis_lt {kn high cs idx rh noc ts act vis} x :
  GI kn high cs idx rh noc ts act vis -> In x vis -> x < n.
Proof. intros H H0. apply (g_vis H) in H0. tauto. Qed.

Lemma act_lt {kn high cs idx rh noc ts act vis} x :
  GI kn high cs idx rh noc ts act vis -> In x act -> x < n.
Proof. intros H H0. eapply vis_lt; [exact H|]. eapply g_act; eauto. Qed.

Lemma vis_bound {kn high cs idx rh noc ts act vis} :
  GI kn high cs idx rh noc ts act vis -> length vis <= n.
Proof.
  intros H. apply nodup_bound; [eapply g_vnodup; eauto|]. apply Forall_forall.
  intros x Hx. eapply vis_lt; eauto.
Qed.

Lemma GI_previsit : forall kn high cs idx rh noc ts act vis s,
  GI kn high cs idx rh noc ts act vis -> s < n -> nth s kn false = false ->
  (forall x, In x act -> reachable g x s) -> rh = n ->
  GI (upd kn s true) (upd high s idx) cs (idx - 1) rh noc (tsu ts s idx) (s :: act) (s :: vis)
  /\ 1 <= idx /\ ~ In s vis.
Proof.
  intros kn high cs idx rh noc ts act vis s HG Hs Hk Hr Hrh.
  pose proof (vis_bound HG) as Hvb.
  pose proof (fun x => vis_lt x HG) as Hvl.
  destruct HG as [Hlk Hlh Hnd Hact Hvnd Hvis Hidx Hts Hnoc Hem Hhi Hold Hcl Hso Hsu Hcsnd Hcs Hroot].
  assert (Hsv : ~ In s vis). { intro Hin. apply Hvis in Hin. destruct Hin as [_ Hin]. congruence. }
  assert (Hsa : ~ In s act). { intro Hin. apply Hsv. apply Hact. exact Hin. }
  assert (Hi1 : 1 <= idx).
  { assert (length (s :: vis) <= n).
    { apply nodup_bound; [constructor; assumption|]. constructor; [exact Hs|].
      apply Forall_forall. exact Hvl. }
    cbn [length] in H. lia. }
  assert (Hne : forall x, In x vis -> x <> s). { intros x Hx E. subst. contradiction. }
  assert (Hts' : map (tsu ts s idx) act = map ts act).
  { apply map_ext_in. intros x Hx. unfold tsu. destruct (x =? s) eqn:E; [|reflexivity].
    apply Nat.eqb_eq in E. subst. contradiction. }
  assert (Htsa : forall x, In x act -> tsu ts s idx x = ts x).
  { intros x Hx. unfold tsu. destruct (x =? s) eqn:E; [|reflexivity].
    apply Nat.eqb_eq in E. subst. contradiction. }
  assert (Htss : tsu ts s idx s = idx). { unfold tsu. rewrite Nat.eqb_refl. reflexivity. }
  split; [|split; assumption]. constructor.
  - rewrite upd_length. exact Hlk.
  - rewrite upd_length. exact Hlh.
  - constructor; assumption.
  - intros x [->|Hx]; [left; reflexivity|right; apply Hact; exact Hx].
  - constructor; assumption.
  - intros x. cbn [In]. rewrite Hvis, nth_upd. split.
    + intros [->|[Hx Hk']]; [split; [exact Hs|]|].
      * rewrite Nat.eqb_refl. rewrite Hlk. apply Nat.ltb_lt in Hs. rewrite Hs. reflexivity.
      * split; [exact Hx|]. destruct ((x =? s) && (s <? length kn)); [reflexivity|exact Hk'].
    + intros [Hx Hk']. destruct (x =? s) eqn:E; [left; apply Nat.eqb_eq in E; auto|].
      right. cbn [andb] in Hk'. tauto.
  - cbn [length]. lia.
  - cbn [map length seq]. rewrite Htss, Hts'. replace (S (idx - 1)) with idx by lia.
    rewrite Hts. reflexivity.
  - cbn [length]. lia.
  - intros x [->|Hx] Hn; [exfalso; apply Hn; left; reflexivity|].
    rewrite nth_upd_other by (apply Hne; exact Hx). apply Hem; [exact Hx|].
    intro; apply Hn; right; assumption.
  - intros x [->|Hx].
    + rewrite Htss, nth_upd_same by lia. split; [lia|]. exists x.
      split; [left; reflexivity|]. split; [exact Htss|apply reach_refl].
    + assert (x <> s) by (intro; subst; contradiction).
      rewrite nth_upd_other by assumption. rewrite Htsa by assumption.
      destruct (Hhi x Hx) as [H1 [y [Hy [Hty Hry]]]]. split; [exact H1|].
      exists y. split; [right; exact Hy|]. split; [rewrite Htsa; assumption|exact Hry].
  - intros x y [->|Hx] [->|Hy] Hle.
    + apply reach_refl.
    + rewrite Htss, (Htsa _ Hy) in Hle.
      pose proof (map_seq_range ts act (S idx) y Hts Hy). lia.
    + apply Hr. exact Hx.
    + rewrite (Htsa _ Hx), (Htsa _ Hy) in Hle. apply Hold; assumption.
  - intros x y [->|Hx] Hn Ha; [exfalso; apply Hn; left; reflexivity|].
    assert (Hna : ~ In x act) by (intro; apply Hn; right; assumption).
    destruct (Hcl x y Hx Hna Ha) as [Hyv [Hya Hle]].
    split; [right; exact Hyv|]. split.
    + intros [E|E]; [apply (Hne y Hyv); auto|contradiction].
    + rewrite !nth_upd_other by (apply Hne; assumption). exact Hle.
  - intros x y [->|Hx] Hnx [->|Hy] Hny He; try (exfalso; (apply Hnx + apply Hny); left; reflexivity).
    rewrite !nth_upd_other in He by (apply Hne; assumption).
    apply Hso; try assumption; intro; [apply Hnx|apply Hny]; right; assumption.
  - intros c Hc. destruct (Hsu c Hc) as [x [Hx [Hnx He]]]. exists x.
    split; [right; exact Hx|]. split.
    + intros [E|E]; [apply (Hne x Hx); auto|contradiction].
    + rewrite nth_upd_other by (apply Hne; assumption). exact He.
  - exact Hcsnd.
  - intros c Hc. destruct (Hcs c Hc) as [Hca Hcy]. split; [right; exact Hca|].
    intros y Ha. destruct (Hcy y Ha) as [Hyv Hyt]. split; [right; exact Hyv|].
    intros [E|Hya]; [exfalso; apply (Hne y Hyv); auto|].
    rewrite (Htsa _ Hya). rewrite nth_upd_other by (intro; subst; contradiction). apply Hyt. exact Hya.
  - intros _. exact Hrh.
Qed.

Lemma GI_raise : forall kn high cs idx rh noc ts act vis p h y,
  GI kn high cs idx rh noc ts act vis -> In p act -> nth p high 0 <= h ->
  In y act -> ts y = h -> reachable g p y ->
  GI kn (upd high p h) cs idx rh noc ts act vis.
Proof.
  intros kn high cs idx rh noc ts act vis p h y HG Hp Hle Hy Hty Hry.
  pose proof (act_lt p HG Hp) as Hpn.
  destruct HG as [Hlk Hlh Hnd Hact Hvnd Hvis Hidx Hts Hnoc Hem Hhi Hold Hcl Hso Hsu Hcsnd Hcs Hroot].
  assert (Hne : forall x, ~ In x act -> x <> p). { intros x Hx E. subst. contradiction. }
  assert (Hmono : forall x, nth x high 0 <= nth x (upd high p h) 0).
  { intros x. destruct (Nat.eq_dec x p) as [->|E].
    - rewrite nth_upd_same by lia. exact Hle.
    - rewrite nth_upd_other by exact E. lia. }
  constructor; try assumption.
  - rewrite upd_length. exact Hlh.
  - intros x Hx Hn. rewrite nth_upd_other by (apply Hne; exact Hn). apply Hem; assumption.
  - intros x Hx. destruct (Nat.eq_dec x p) as [->|E].
    + rewrite nth_upd_same by lia. destruct (Hhi p Hx) as [H1 _]. split; [lia|].
      exists y. tauto.
    + rewrite nth_upd_other by exact E. apply Hhi. exact Hx.
  - intros x z Hx Hn Ha. destruct (Hcl x z Hx Hn Ha) as [Hzv [Hza Hl]].
    split; [exact Hzv|]. split; [exact Hza|].
    rewrite !nth_upd_other by (apply Hne; assumption). exact Hl.
  - intros x z Hx Hnx Hz Hnz He. rewrite !nth_upd_other in He by (apply Hne; assumption).
    apply Hso; assumption.
  - intros c Hc. destruct (Hsu c Hc) as [x [Hx [Hnx He]]]. exists x.
    split; [exact Hx|]. split; [exact Hnx|]. rewrite nth_upd_other by (apply Hne; assumption). exact He.
  - intros c Hc. destruct (Hcs c Hc) as [Hca Hcy]. split; [exact Hca|].
    intros z Ha. destruct (Hcy z Ha) as [Hzv Hzt]. split; [exact Hzv|].
    intros Hza. specialize (Hzt Hza). specialize (Hmono c). lia.
Qed.

Lemma GI_push : forall kn high cs idx rh noc ts act vis c,
  GI kn high cs idx rh noc ts act vis -> In c act -> ~ In c cs ->
  (forall y, arc g c y -> In y vis /\ (In y act -> ts y <= nth c high 0)) ->
  GI kn high (c :: cs) idx rh noc ts act vis.
Proof.
  intros kn high cs idx rh noc ts act vis c HG Hc Hn Hy.
  destruct HG as [Hlk Hlh Hnd Hact Hvnd Hvis Hidx Hts Hnoc Hem Hhi Hold Hcl Hso Hsu Hcsnd Hcs Hroot].
  constructor; try assumption.
  - constructor; assumption.
  - intros c' [<-|Hc']; [split; assumption|apply Hcs; exact Hc'].
Qed.

(** emission of the component of the leader [curr]: the nodes [new] discovered after [curr]
    and still active (= the segment [new'] on top of the component stack) and [curr] *)
Lemma GI_emit : forall kn high cs0 idx rh noc ts vis new new' curr act0,
  GI kn high (new' ++ cs0) idx rh noc ts (new ++ curr :: act0) vis ->
  (forall x, In x new <-> In x new') ->
  (forall c, In c cs0 -> In c act0) ->
  nth curr high 0 = ts curr ->
  (forall c, In c new' -> nth c high 0 <= nth curr high 0) ->
  (forall x, In x (new ++ curr :: act0) -> reachable g x curr) ->
  (forall y, arc g curr y -> In y vis /\ (In y (new ++ curr :: act0) -> ts y <= nth curr high 0)) ->
  GI kn (upd (fold_left (fun h x => upd h x noc) new' high) curr noc) cs0
     (S (idx + length new')) rh (S noc) ts act0 vis.
Proof.
  intros kn high cs0 idx rh noc ts vis new new' curr act0 HG Hnn Hcs0 Hlead Hnh Hrc Hcurr.
  pose proof (fun x => vis_lt x HG) as Hvl.
  destruct HG as [Hlk Hlh Hnd Hact Hvnd Hvis Hidx Hts Hnoc Hem Hhi Hold Hcl Hso Hsu Hcsnd Hcs Hroot].
  set (act := new ++ curr :: act0) in *.
  set (high' := upd (fold_left (fun h x => upd h x noc) new' high) curr noc).
  pose (S_ := fun x => x = curr \/ In x new).
  assert (classic_S : forall x, S_ x \/ ~ S_ x).
  { intros x. unfold S_. destruct (Nat.eq_dec x curr); [tauto|].
    destruct (in_dec Nat.eq_dec x new); tauto. }
  assert (Hact_split : forall x, In x act <-> S_ x \/ In x act0).
  { intros x. unfold act, S_. rewrite in_app_iff. cbn [In]. intuition. }
  (* no duplicates *)
  pose proof (NoDup_remove _ _ _ Hnd) as [Hnd2 Hcn].
  assert (Hndn : NoDup new) by (eapply NoDup_app_l; exact Hnd2).
  assert (Hnd0 : NoDup act0) by (eapply NoDup_app_r; exact Hnd2).
  assert (Hndn' : NoDup new') by (eapply NoDup_app_l; exact Hcsnd).
  assert (Hndc0 : NoDup cs0) by (eapply NoDup_app_r; exact Hcsnd).
  assert (Hlen : length new' = length new).
  { apply nodup_equiv_length; try assumption. intro x. symmetry. apply Hnn. }
  (* timestamps *)
  destruct (map_seq_split ts new (curr :: act0) (S idx) Hts) as [Htn Ht0].
  cbn [map length seq] in Ht0. injection Ht0 as Htc Ht0.
  assert (Hlt_new : forall x, In x new -> ts x < ts curr).
  { intros x Hx. pose proof (map_seq_range ts new (S idx) x Htn Hx). lia. }
  assert (Hlt_0 : forall x, In x act0 -> ts curr < ts x).
  { intros x Hx. pose proof (map_seq_range ts act0 _ x Ht0 Hx). lia. }
  assert (HS_le : forall x, S_ x -> ts x <= ts curr).
  { intros x [->|Hx]; [lia|]. apply Nat.lt_le_incl. apply Hlt_new. exact Hx. }
  assert (HS0 : forall x, S_ x -> ~ In x act0).
  { intros x Hs H0. specialize (HS_le x Hs). specialize (Hlt_0 x H0). lia. }
  assert (HSact : forall x, S_ x -> In x act). { intros x Hs. apply Hact_split. left. exact Hs. }
  (* the new high_link array *)
  assert (HcurrN : curr < n). { apply Hvl. apply Hact. apply HSact. left. reflexivity. }
  assert (hS : forall x, S_ x -> nth x high' 0 = noc).
  { intros x Hs. assert (Hxn : x < n) by (apply Hvl, Hact, HSact, Hs). unfold high'.
    destruct (Nat.eq_dec x curr) as [->|E].
    - rewrite nth_upd_same; [reflexivity|]. rewrite fold_upd_length. lia.
    - rewrite nth_upd_other by exact E. rewrite fold_upd_nth by lia.
      destruct Hs as [Hs|Hs]; [contradiction|]. apply Hnn in Hs. apply memb_In in Hs. rewrite Hs. reflexivity. }
  assert (hN : forall x, x < n -> ~ S_ x -> nth x high' 0 = nth x high 0).
  { intros x Hxn Hs. unfold high'. rewrite nth_upd_other by (intro; apply Hs; left; assumption).
    rewrite fold_upd_nth by lia. destruct (memb x new') eqn:E; [|reflexivity].
    apply memb_In in E. apply Hnn in E. exfalso. apply Hs. right. exact E. }
  assert (HnS : forall x, In x vis -> ~ In x act0 -> ~ S_ x -> ~ In x act).
  { intros x _ H0 Hs Ha. apply Hact_split in Ha. tauto. }
  (* arcs leaving the emitted nodes *)
  assert (Harc : forall x, S_ x -> forall y, arc g x y -> In y vis /\ (In y act -> ts y <= ts curr)).
  { intros x [->|Hx] y Ha.
    - destruct (Hcurr y Ha) as [H1 H2]. split; [exact H1|]. intro Hy. specialize (H2 Hy). lia.
    - apply Hnn in Hx. destruct (Hcs x (in_or_app _ _ _ (or_introl Hx))) as [_ Hxy].
      destruct (Hxy y Ha) as [H1 H2]. split; [exact H1|]. intro Hy. specialize (H2 Hy).
      specialize (Hnh x Hx). lia. }
  constructor.
  - exact Hlk.
  - unfold high'. rewrite upd_length, fold_upd_length. exact Hlh.
  - exact Hnd0.
  - intros x Hx. apply Hact. apply Hact_split. right. exact Hx.
  - exact Hvnd.
  - exact Hvis.
  - unfold act in Hidx. rewrite app_length in Hidx. cbn [length] in Hidx. lia.
  - rewrite Ht0. f_equal. lia.
  - unfold act in Hnoc. rewrite app_length in Hnoc. cbn [length] in Hnoc. lia.
  - intros x Hx H0. destruct (classic_S x) as [Hs|Hs].
    + rewrite hS by exact Hs. lia.
    + rewrite hN by (try apply Hvl; assumption).
      specialize (Hem x Hx (HnS x Hx H0 Hs)). lia.
  - intros x Hx. assert (Hs : ~ S_ x) by (intro Hs; exact (HS0 x Hs Hx)).
    assert (Hxa : In x act) by (apply Hact_split; right; exact Hx).
    rewrite hN by (try apply Hvl, Hact; assumption).
    destruct (Hhi x Hxa) as [H1 [y [Hy [Hty Hry]]]]. split; [exact H1|].
    exists y. split; [|tauto]. apply Hact_split in Hy. destruct Hy as [Hy|Hy]; [|exact Hy].
    specialize (HS_le y Hy). specialize (Hlt_0 x Hx). lia.
  - intros x y Hx Hy. apply Hold; apply Hact_split; right; assumption.
  - intros x y Hx H0 Ha. destruct (classic_S x) as [Hs|Hs].
    + destruct (Harc x Hs y Ha) as [Hyv Hyt]. split; [exact Hyv|].
      destruct (in_dec Nat.eq_dec y act) as [Hya|Hya].
      * specialize (Hyt Hya). apply Hact_split in Hya. destruct Hya as [Hys|Hy0].
        -- split; [apply HS0; exact Hys|]. rewrite (hS x Hs), (hS y Hys). lia.
        -- specialize (Hlt_0 y Hy0). lia.
      * assert (Hy0 : ~ In y act0) by (intro; apply Hya, Hact_split; right; assumption).
        assert (Hys : ~ S_ y) by (intro; apply Hya, HSact; assumption).
        split; [exact Hy0|]. rewrite (hS x Hs), hN by (try apply Hvl; assumption).
        specialize (Hem y Hyv Hya). lia.
    + pose proof (HnS x Hx H0 Hs) as Hxa. destruct (Hcl x y Hx Hxa Ha) as [Hyv [Hya Hle]].
      assert (Hy0 : ~ In y act0) by (intro; apply Hya, Hact_split; right; assumption).
      assert (Hys : ~ S_ y) by (intro; apply Hya, HSact; assumption).
      split; [exact Hyv|]. split; [exact Hy0|].
      rewrite !hN by (try apply Hvl; assumption). exact Hle.
  - intros x y Hx Hx0 Hy Hy0 He.
    destruct (classic_S x) as [Hsx|Hsx]; destruct (classic_S y) as [Hsy|Hsy].
    + split.
      * eapply reachable_trans; [apply Hrc, HSact, Hsx|].
        apply Hold; [apply HSact; left; reflexivity|apply HSact, Hsy|apply HS_le, Hsy].
      * eapply reachable_trans; [apply Hrc, HSact, Hsy|].
        apply Hold; [apply HSact; left; reflexivity|apply HSact, Hsx|apply HS_le, Hsx].
    + rewrite (hS x Hsx), hN in He by (try apply Hvl; assumption).
      specialize (Hem y Hy (HnS y Hy Hy0 Hsy)). lia.
    + rewrite (hS y Hsy), hN in He by (try apply Hvl; assumption).
      specialize (Hem x Hx (HnS x Hx Hx0 Hsx)). lia.
    + rewrite !hN in He by (try apply Hvl; assumption).
      apply Hso; try assumption; apply HnS; assumption.
  - intros c Hc. destruct (Nat.eq_dec c noc) as [->|E].
    + exists curr. assert (Hsc : S_ curr) by (left; reflexivity).
      split; [apply Hact, HSact, Hsc|]. split; [apply HS0, Hsc|apply hS, Hsc].
    + destruct (Hsu c ltac:(lia)) as [x [Hx [Hxa He]]]. exists x.
      assert (Hs : ~ S_ x) by (intro; apply Hxa, HSact; assumption).
      split; [exact Hx|]. split; [intro; apply Hxa, Hact_split; right; assumption|].
      rewrite hN by (try apply Hvl; assumption). exact He.
  - exact Hndc0.
  - intros c Hc. split; [apply Hcs0; exact Hc|]. intros y Ha.
    destruct (Hcs c (in_or_app _ _ _ (or_intror Hc))) as [_ Hcy].
    destruct (Hcy y Ha) as [Hyv Hyt]. split; [exact Hyv|]. intro Hy0.
    assert (Hcn' : ~ S_ c) by (intro Hs; exact (HS0 c Hs (Hcs0 c Hc))).
    rewrite hN by (try apply Hvl, Hact, Hact_split; try right; try apply Hcs0; assumption).
    apply Hyt. apply Hact_split. right. exact Hy0.
  - intros Hne. apply Hroot. unfold act. destruct new; discriminate.
Qed.

Lemma GI_rh : forall kn high cs idx rh rh' noc ts vis,
  GI kn high cs idx rh noc ts [] vis -> GI kn high cs idx rh' noc ts [] vis.
Proof.
  intros kn high cs idx rh rh' noc ts vis HG.
  destruct HG as [Hlk Hlh Hnd Hact Hvnd Hvis Hidx Hts Hnoc Hem Hhi Hold Hcl Hso Hsu Hcsnd Hcs Hroot].
  constructor; try assumption. intro H. exfalso. apply H. reflexivity.
Qed.

Lemma ts_order {kn high cs idx rh noc ts vis new curr act0} :
  GI kn high cs idx rh noc ts (new ++ curr :: act0) vis ->
  (forall x, In x new -> ts x < ts curr) /\ (forall x, In x act0 -> ts curr < ts x)
  /\ ts curr = S idx + length new /\ (forall x, In x (new ++ curr :: act0) -> idx < ts x <= n).
Proof.
  intros HG.
  pose proof (g_ts HG) as Hts. pose proof (g_idx HG) as Hidx.
  destruct (map_seq_split ts new (curr :: act0) (S idx) Hts) as [Htn Ht0].
  cbn [map length seq] in Ht0. injection Ht0 as Htc Ht0.
  split; [|split; [|split]].
  - intros x Hx. pose proof (map_seq_range ts new (S idx) x Htn Hx). lia.
  - intros x Hx. pose proof (map_seq_range ts act0 _ x Ht0 Hx). lia.
  - exact Htc.
  - intros x Hx. pose proof (map_seq_range ts _ (S idx) x Hts Hx). lia.
Qed.

Lemma act_disj : forall (new : list nat) curr act0, NoDup (new ++ curr :: act0) ->
  ~ In curr new /\ ~ In curr act0 /\ (forall x, In x new -> ~ In x act0).
Proof.
  intros new curr act0 H. pose proof (NoDup_remove _ _ _ H) as [H1 H2].
  split; [intro; apply H2, in_or_app; left; assumption|].
  split; [intro; apply H2, in_or_app; right; assumption|].
  intros x Hx. eapply nodup_app_disj; eassumption.
Qed.

(** * Postconditions of the visit of a subtree *)
(** [sp] is the state just before the previsit of the root [s] of the subtree *)
Record Post (sp st' : tstate) (ts0 : nat -> nat) (act0 vis0 : list nat) (parent s : nat)
            (ts' : nat -> nat) (vis' new new' : list nat) : Prop := mkPost {
  po_G : G st' ts' (new ++ act0) vis';
  po_cs : t_cstack st' = new' ++ t_cstack sp;
  po_nn : forall x, In x new <-> In x new';
  po_lead : (t_lead st' = t_lead sp /\
             (In parent act0 -> nth parent (t_high st') 0 = nth parent (t_high sp) 0))
            \/ (In parent act0 /\ t_lead st' = set_top (t_lead sp) false /\
                nth parent (t_high sp) 0 < nth parent (t_high st') 0);
  po_frame : forall x, In x act0 -> x <> parent -> nth x (t_high st') 0 = nth x (t_high sp) 0;
  po_newhi : forall c, In c new' -> nth c (t_high st') 0 <= nth parent (t_high st') 0;
  po_reach : forall x, In x new -> reachable g x parent;
  po_ts : forall x, In x act0 -> ts' x = ts0 x;
  po_vis : incl vis0 vis' /\ In s vis';
  po_root : act0 = [] -> new = []
}.

Record PB (st' : tstate) (act0 cs0 : list nat) : Prop := mkPB {
  pb_pos : 0 < n;
  pb_len : length (t_high st') = n;
  pb_noc : t_noc st' = 0;
  pb_all : forall x y, x < n -> y < n -> reachable g x y;
  pb_hi : forall x, x < n -> nth x (t_high st') 0 = 0 \/ (In x act0 /\ ~ In x cs0)
}.

Definition par_ok (parent s : nat) (act0 : list nat) : Prop :=
  act0 = [] \/ (In parent act0 /\ arc g parent s /\ forall x, In x act0 -> reachable g x parent).

Definition visit_spec_at (F : nat) : Prop :=
  forall sp ts0 act0 vis0 s parent,
    G sp ts0 act0 vis0 -> s < n -> nth s (t_known sp) false = false ->
    n <= F + length vis0 -> par_ok parent s act0 -> t_lead sp <> [] -> t_root_high sp = n ->
    forall st' brk, t_visit F g s parent (t_previsit sp s) = (st', brk) ->
    if brk then PB st' act0 (t_cstack sp)
    else exists ts' vis' new new', Post sp st' ts0 act0 vis0 parent s ts' vis' new new'.

(** * The invariant of the successors loop of [curr] *)
Record LI (sp : tstate) (ts0 : nat -> nat) (act0 vis0 : list nat) (curr f : nat)
          (st : tstate) (ts : nat -> nat) (new new' vis done : list nat) : Prop := mkLI {
  li_G : G st ts (new ++ curr :: act0) vis;
  li_cs : t_cstack st = new' ++ t_cstack sp;
  li_nn : forall x, In x new <-> In x new';
  li_cs0 : forall c, In c (t_cstack sp) -> In c act0;
  li_lead : exists b, t_lead st = b :: t_lead sp
            /\ (b = true -> nth curr (t_high st) 0 = ts curr)
            /\ (b = false -> ts curr < nth curr (t_high st) 0);
  li_newhi : forall c, In c new' -> nth c (t_high st) 0 <= nth curr (t_high st) 0;
  li_reach : forall x, In x (new ++ curr :: act0) -> reachable g x curr;
  li_ts : forall x, In x act0 -> ts x = ts0 x;
  li_frame : forall x, In x act0 -> nth x (t_high st) 0 = nth x (t_high sp) 0;
  li_done : forall y, In y done ->
            In y vis /\ (In y (new ++ curr :: act0) -> ts y <= nth curr (t_high st) 0);
  li_vis : incl vis0 vis;
  li_fuel : n <= f + length vis
}.

Lemma LI_init : forall sp ts0 act0 vis0 s parent f,
  G sp ts0 act0 vis0 -> s < n -> nth s (t_known sp) false = false ->
  n <= S f + length vis0 -> par_ok parent s act0 -> t_root_high sp = n ->
  LI sp ts0 act0 vis0 s f (t_previsit sp s) (tsu ts0 s (t_index sp)) [] [] (s :: vis0) [].
Proof.
  intros sp ts0 act0 vis0 s parent f HG Hs Hk Hf Hpar Hrh.
  assert (Hr : forall x, In x act0 -> reachable g x s).
  { destruct Hpar as [->|[Hp [Ha Hr]]]; [intros x []|].
    intros x Hx. eapply reachable_step_r; [apply Hr; exact Hx|exact Ha]. }
  destruct (GI_previsit _ _ _ _ _ _ _ _ _ s HG Hs Hk Hr Hrh) as [HG' [Hi1 Hsv]].
  assert (Hsa : ~ In s act0). { intro H. apply Hsv. eapply g_act; eauto. }
  constructor.
  - exact HG'.
  - reflexivity.
  - tauto.
  - intros c Hc. apply (g_cs HG c Hc).
  - exists true. split; [reflexivity|]. split; [|discriminate]. intros _.
    cbn [t_previsit t_high]. unfold tsu. rewrite Nat.eqb_refl. apply nth_upd_same.
    rewrite (g_lenh HG). exact Hs.
  - intros c [].
  - intros x [->|Hx]; [apply reach_refl|apply Hr; exact Hx].
  - intros x Hx. unfold tsu. destruct (x =? s) eqn:E; [|reflexivity].
    apply Nat.eqb_eq in E. subst. contradiction.
  - intros x Hx. cbn [t_previsit t_high]. apply nth_upd_other. intro; subst; contradiction.
  - intros y [].
  - intros x Hx. right. exact Hx.
  - cbn [length]. lia.
Qed.

Lemma LI_revisit : forall sp ts0 act0 vis0 curr f st ts new new' vis done s,
  LI sp ts0 act0 vis0 curr f st ts new new' vis done ->
  arc g curr s -> nth s (t_known st) false = true ->
  forall st1 brk, t_revisit st s curr = (st1, brk) ->
  if brk then PB st1 act0 (t_cstack sp)
  else LI sp ts0 act0 vis0 curr f st1 ts new new' vis (done ++ [s]).
Proof.
  intros sp ts0 act0 vis0 curr f st ts new new' vis done s HLI Harc Hks st1 brk Hrv.
  destruct HLI as [HG Hcs Hnn Hcs0 [b [Hlead [Hb1 Hb2]]] Hnh Hrc Hts0 Hfr Hdone Hvis Hfuel].
  unfold G in HG.
  set (act := new ++ curr :: act0) in *.
  assert (Hsn : s < n) by (eapply wf_succs; eauto).
  assert (Hsv : In s vis) by (apply (g_vis HG); split; assumption).
  assert (Hca : In curr act) by (apply in_or_app; right; left; reflexivity).
  assert (Hcn : curr < n) by (apply (act_lt curr HG Hca)).
  destruct (ts_order HG) as [Hlt_new [Hlt_0 [Htc Hrange]]].
  destruct (act_disj _ _ _ (g_nodup HG)) as [Hcnew [Hc0 Hdisj]].
  destruct (g_hi HG curr Hca) as [Hc1 _].
  unfold t_revisit in Hrv.
  destruct (nth curr (t_high st) 0 <? nth s (t_high st) 0) eqn:E1.
  2: { injection Hrv as <- <-. apply Nat.ltb_ge in E1. constructor; try assumption.
       - exists b. tauto.
       - intros y Hy. apply in_app_or in Hy. destruct Hy as [Hy|[<-|[]]]; [apply Hdone; exact Hy|].
         split; [exact Hsv|]. intro Hsa. destruct (g_hi HG s Hsa) as [H1 _]. lia. }
  apply Nat.ltb_lt in E1.
  assert (Hsa : In s act).
  { destruct (in_dec Nat.eq_dec s act) as [H|H]; [exact H|]. exfalso.
    pose proof (g_em HG s Hsv H). pose proof (g_noc HG). pose proof (vis_bound HG).
    pose proof (g_idx HG). pose proof (Hrange curr Hca). lia. }
  destruct (g_hi HG s Hsa) as [Hs1 [y [Hya [Hty Hry]]]].
  assert (HG1 : GI (t_known st) (upd (t_high st) curr (nth s (t_high st) 0)) (t_cstack st)
                   (t_index st) (t_root_high st) (t_noc st) ts act vis).
  { eapply GI_raise with (y := y); try eassumption; [lia|]. eapply reach_step; eassumption. }
  assert (Hlenh : length (t_high st) = n) by (apply (g_lenh HG)).
  destruct ((nth s (t_high st) 0 =? t_root_high st) && (t_index st =? 0)) eqn:E2.
  - (* early exit *)
    injection Hrv as <- <-. apply andb_true_iff in E2. destruct E2 as [E2 E3].
    apply Nat.eqb_eq in E2, E3.
    assert (Hrh : t_root_high st = n). { apply (g_root HG). unfold act. destruct new; discriminate. }
    pose proof (g_idx HG) as Hidx. rewrite E3 in Hidx. cbn [Nat.add] in Hidx.
    assert (Hall : forall x, x < n -> In x act).
    { apply nodup_full; [apply (g_nodup HG)|intros x Hx; apply (act_lt x HG Hx)|exact Hidx]. }
    assert (Hnoc0 : t_noc st = 0).
    { pose proof (g_noc HG). pose proof (vis_bound HG). lia. }
    constructor; cbn [t_high t_noc].
    + lia.
    + rewrite fold_upd_length, !upd_length. exact Hlenh.
    + exact Hnoc0.
    + intros x z Hx Hz. eapply reachable_trans; [apply Hrc, Hall, Hx|].
      eapply reach_step; [exact Harc|]. eapply reachable_trans; [exact Hry|].
      apply (g_old HG); [exact Hya|apply Hall, Hz|]. pose proof (Hrange z (Hall z Hz)). lia.
    + intros x Hx. rewrite fold_upd_nth by (rewrite !upd_length; lia). rewrite Hnoc0.
      destruct (memb x (rev (t_cstack st))) eqn:Em; [left; reflexivity|].
      apply memb_false in Em. rewrite <- in_rev, Hcs in Em.
      destruct (Nat.eq_dec x curr) as [->|Hxc].
      * left. apply nth_upd_same. rewrite upd_length. lia.
      * right. specialize (Hall x Hx). unfold act in Hall. apply in_app_or in Hall.
        destruct Hall as [Hxn|[Hxn|Hx0]].
        -- exfalso. apply Em, in_or_app. left. apply Hnn. exact Hxn.
        -- congruence.
        -- split; [exact Hx0|]. intro. apply Em, in_or_app. right. assumption.
  - injection Hrv as <- <-.
    assert (Hhc : nth curr (upd (t_high st) curr (nth s (t_high st) 0)) 0 = nth s (t_high st) 0).
    { apply nth_upd_same. lia. }
    constructor; cbn [t_high t_cstack t_lead t_known t_index t_root_high t_noc]; try assumption.
    + exists false. rewrite Hlead. split; [reflexivity|]. split; [discriminate|]. intros _.
      rewrite Hhc. lia.
    + intros c Hc. rewrite Hhc. rewrite nth_upd_other.
      * specialize (Hnh c Hc). lia.
      * intro; subst c. apply Hcnew, Hnn. exact Hc.
    + intros x Hx. rewrite nth_upd_other; [apply Hfr; exact Hx|]. intro; subst; contradiction.
    + intros z Hz. rewrite Hhc. apply in_app_or in Hz. destruct Hz as [Hz|[<-|[]]].
      * destruct (Hdone z Hz) as [H1 H2]. split; [exact H1|]. intro H3. specialize (H2 H3). lia.
      * split; [exact Hsv|]. intros _. exact Hs1.
Qed.

Lemma LI_child_post : forall sp ts0 act0 vis0 curr f st ts new new' vis done s st2 ts2 vis2 nw nw',
  LI sp ts0 act0 vis0 curr f st ts new new' vis done ->
  nth s (t_known st) false = false ->
  Post st st2 ts (new ++ curr :: act0) vis curr s ts2 vis2 nw nw' ->
  LI sp ts0 act0 vis0 curr f st2 ts2 (nw ++ new) (nw' ++ new') vis2 (done ++ [s]).
Proof.
  intros sp ts0 act0 vis0 curr f st ts new new' vis done s st2 ts2 vis2 nw nw' HLI Hks HP.
  destruct HLI as [HG Hcs Hnn Hcs0 [b [Hlead [Hb1 Hb2]]] Hnh Hrc Hts0 Hfr Hdone Hvis Hfuel].
  destruct HP as [PG Pcs Pnn Plead Pfr Pnh Prc Pts [Pvis Psv] _].
  unfold G in HG, PG.
  set (act := new ++ curr :: act0) in *.
  assert (Hca : In curr act) by (apply in_or_app; right; left; reflexivity).
  destruct (act_disj _ _ _ (g_nodup HG)) as [Hcnew [Hc0 Hdisj]].
  assert (Ha0 : forall x, In x act0 -> In x act /\ x <> curr).
  { intros x Hx. split; [apply in_or_app; right; right; exact Hx|intro; subst; contradiction]. }
  assert (Hmono : nth curr (t_high st) 0 <= nth curr (t_high st2) 0).
  { destruct Plead as [[_ H]|[_ [_ H]]]; [rewrite (H Hca)|]; lia. }
  assert (Hnw : forall y, In y nw -> ts2 y <= nth curr (t_high st2) 0).
  { intros y Hy. destruct (g_hi PG y (in_or_app _ _ _ (or_introl Hy))) as [H1 _].
    specialize (Pnh y (proj1 (Pnn y) Hy)). lia. }
  assert (Hold' : forall y, In y act -> ts y <= nth curr (t_high st) 0 -> ts2 y <= nth curr (t_high st2) 0).
  { intros y Hy Hle. rewrite (Pts y Hy). lia. }
  constructor.
  - unfold G. rewrite <- app_assoc. exact PG.
  - rewrite Pcs, Hcs, app_assoc. reflexivity.
  - intros x. rewrite !in_app_iff, Pnn, Hnn. tauto.
  - exact Hcs0.
  - destruct Plead as [[Hl Hh]|[_ [Hl Hh]]].
    + exists b. rewrite Hl, Hlead. split; [reflexivity|]. rewrite (Hh Hca), (Pts curr Hca). tauto.
    + exists false. rewrite Hl, Hlead. split; [reflexivity|]. split; [discriminate|]. intros _.
      rewrite (Pts curr Hca). destruct (g_hi HG curr Hca) as [H1 _]. lia.
  - intros c Hc. apply in_app_or in Hc. destruct Hc as [Hc|Hc]; [apply Pnh; exact Hc|].
    assert (Hcn : In c new) by (apply Hnn; exact Hc).
    rewrite (Pfr c); [specialize (Hnh c Hc); lia|apply in_or_app; left; exact Hcn|].
    intro; subst; contradiction.
  - intros x Hx. rewrite <- app_assoc in Hx. apply in_app_or in Hx.
    destruct Hx as [Hx|Hx]; [apply Prc; exact Hx|apply Hrc; exact Hx].
  - intros x Hx. destruct (Ha0 x Hx) as [H1 H2]. rewrite (Pts x H1). apply Hts0. exact Hx.
  - intros x Hx. destruct (Ha0 x Hx) as [H1 H2]. rewrite (Pfr x H1 H2). apply Hfr. exact Hx.
  - intros y Hy. apply in_app_or in Hy. destruct Hy as [Hy|[<-|[]]].
    + destruct (Hdone y Hy) as [H1 H2]. split; [apply Pvis; exact H1|].
      intros H3. rewrite <- app_assoc in H3. apply in_app_or in H3.
      destruct H3 as [H3|H3]; [apply Hnw; exact H3|]. apply Hold'; [exact H3|apply H2; exact H3].
    + split; [exact Psv|]. intros H3. rewrite <- app_assoc in H3. apply in_app_or in H3.
      destruct H3 as [H3|H3]; [apply Hnw; exact H3|]. exfalso.
      apply (g_act HG) in H3. apply (g_vis HG) in H3. destruct H3 as [_ H3]. congruence.
  - intros x Hx. apply Pvis, Hvis, Hx.
  - assert (length vis <= length vis2) by (apply NoDup_incl_length; [apply (g_vnodup HG)|exact Pvis]).
    lia.
Qed.

Lemma LI_child_break : forall sp ts0 act0 vis0 curr f st ts new new' vis done st2,
  LI sp ts0 act0 vis0 curr f st ts new new' vis done ->
  PB st2 (new ++ curr :: act0) (t_cstack st) ->
  PB (brk_mark st2 curr) act0 (t_cstack sp).
Proof.
  intros sp ts0 act0 vis0 curr f st ts new new' vis done st2 HLI HP.
  destruct HLI as [HG Hcs Hnn Hcs0 _ Hnh Hrc Hts0 Hfr Hdone Hvis Hfuel].
  destruct HP as [Ppos Plen Pnoc Pall Phi]. unfold G in HG.
  constructor; cbn [brk_mark t_high t_noc]; try assumption.
  - rewrite upd_length. exact Plen.
  - intros x Hx. destruct (Nat.eq_dec x curr) as [->|E].
    + left. rewrite nth_upd_same by lia. exact Pnoc.
    + rewrite nth_upd_other by exact E. destruct (Phi x Hx) as [H|[H1 H2]]; [left; exact H|].
      right. rewrite Hcs in H2. apply in_app_or in H1. destruct H1 as [H1|[H1|H1]].
      * exfalso. apply H2, in_or_app. left. apply Hnn. exact H1.
      * congruence.
      * split; [exact H1|]. intro. apply H2, in_or_app. right. assumption.
Qed.

Lemma LI_postvisit : forall sp ts0 act0 vis0 curr parent f st ts new new' vis,
  LI sp ts0 act0 vis0 curr f st ts new new' vis (succs g curr) ->
  par_ok parent curr act0 ->
  exists ts' vis' nw nw',
    Post sp (t_postvisit st curr parent) ts0 act0 vis0 parent curr ts' vis' nw nw'.
Proof.
  intros sp ts0 act0 vis0 curr parent f st ts new new' vis HLI Hpar.
  destruct HLI as [HG Hcs Hnn Hcs0 [b [Hlead [Hb1 Hb2]]] Hnh Hrc Hts0 Hfr Hdone Hvis Hfuel].
  unfold G in HG.
  set (act := new ++ curr :: act0) in *.
  assert (Hca : In curr act) by (apply in_or_app; right; left; reflexivity).
  assert (Hcn : curr < n) by (apply (act_lt curr HG Hca)).
  assert (Hcv : In curr vis) by (apply (g_act HG), Hca).
  destruct (ts_order HG) as [Hlt_new [Hlt_0 [Htc Hrange]]].
  destruct (act_disj _ _ _ (g_nodup HG)) as [Hcnew [Hc0 Hdisj]].
  assert (Hlenh : length (t_high st) = n) by (apply (g_lenh HG)).
  assert (Ha0 : forall x, In x act0 -> In x act).
  { intros x Hx. apply in_or_app; right; right; exact Hx. }
  assert (Hcurr : forall y, arc g curr y -> In y vis /\ (In y act -> ts y <= nth curr (t_high st) 0)).
  { intros y Hy. apply Hdone. exact Hy. }
  exists ts, vis. unfold t_postvisit. rewrite Hlead. destruct b.
  - (* leader *)
    specialize (Hb1 eq_refl). clear Hb2.
    rewrite Hcs. rewrite Hcs in HG.
    rewrite (t_pop_spec _ _ new' (t_cstack sp)).
    + exists [], [].
      assert (Hoth : forall x, In x act0 ->
         nth x (upd (fold_left (fun h x => upd h x (t_noc st)) new' (t_high st)) curr (t_noc st)) 0
         = nth x (t_high st) 0).
      { intros x Hx. rewrite nth_upd_other by (intro; subst; contradiction).
        rewrite fold_upd_nth by (rewrite Hlenh; apply (act_lt x HG (Ha0 x Hx))).
        destruct (memb x new') eqn:E; [|reflexivity]. apply memb_In in E. apply Hnn in E.
        exfalso. exact (Hdisj x E Hx). }
      constructor; cbn [t_high t_cstack t_lead app].
      * unfold G. cbn [t_high t_cstack t_known t_index t_root_high t_noc].
        eapply GI_emit; eassumption.
      * reflexivity.
      * tauto.
      * left. split; [reflexivity|]. intros Hp. rewrite (Hoth _ Hp). apply Hfr. exact Hp.
      * intros x Hx _. rewrite (Hoth _ Hx). apply Hfr. exact Hx.
      * intros c [].
      * intros x [].
      * exact Hts0.
      * split; [exact Hvis|exact Hcv].
      * reflexivity.
    + apply (g_csnd HG).
    + exact Hnh.
    + intros c Hc. specialize (Hcs0 c Hc). specialize (Hlt_0 c Hcs0).
      destruct (g_hi HG c (Ha0 c Hcs0)) as [H1 _]. lia.
  - (* not a leader *)
    specialize (Hb2 eq_refl). clear Hb1.
    destruct (g_hi HG curr Hca) as [_ [y [Hya [Hty Hry]]]].
    destruct Hpar as [->|[Hp [Hparc Hpr]]].
    { exfalso. pose proof (Hrange y Hya). pose proof (g_idx HG) as Hidx. unfold act in Hidx.
      rewrite app_length in Hidx. cbn [length] in Hidx. lia. }
    assert (Hy0 : In y act0).
    { unfold act in Hya. apply in_app_or in Hya. destruct Hya as [H|[H|H]]; [| |exact H].
      - specialize (Hlt_new y H). lia.
      - subst y. lia. }
    assert (Hpc : parent <> curr) by (intro; subst; contradiction).
    assert (HGp : GI (t_known st) (t_high st) (curr :: t_cstack st) (t_index st) (t_root_high st)
                     (t_noc st) ts act vis).
    { apply GI_push; try assumption. rewrite Hcs. intro H. apply in_app_or in H.
      destruct H as [H|H]; [apply Hcnew, Hnn, H|apply Hc0, Hcs0, H]. }
    assert (Hnn' : forall x, In x (new ++ [curr]) <-> In x (curr :: new')).
    { intros x. rewrite in_app_iff. cbn [In]. rewrite Hnn. tauto. }
    assert (Hreach : forall x, In x (new ++ [curr]) -> reachable g x parent).
    { intros x Hx. eapply reachable_trans; [apply Hrc|].
      - apply in_app_or in Hx. destruct Hx as [Hx|[<-|[]]]; [apply in_or_app; left; exact Hx|exact Hca].
      - eapply reachable_trans; [exact Hry|apply Hpr; exact Hy0]. }
    exists (new ++ [curr]), (curr :: new').
    destruct (nth parent (t_high st) 0 <? nth curr (t_high st) 0) eqn:E.
    + apply Nat.ltb_lt in E.
      assert (Hhp : nth parent (upd (t_high st) parent (nth curr (t_high st) 0)) 0
                    = nth curr (t_high st) 0).
      { apply nth_upd_same. rewrite Hlenh. apply (act_lt parent HG (Ha0 _ Hp)). }
      constructor; cbn [t_high t_cstack t_lead]; try assumption.
      * unfold G. cbn [t_high t_cstack t_known t_index t_root_high t_noc].
        rewrite <- app_assoc. cbn [app].
        eapply GI_raise with (y := y); try eassumption; [apply Ha0; exact Hp|lia|].
        eapply reach_step; eassumption.
      * rewrite Hcs. reflexivity.
      * right. split; [exact Hp|]. split; [reflexivity|]. rewrite Hhp, <- (Hfr _ Hp). exact E.
      * intros x Hx Hne. rewrite nth_upd_other by exact Hne. apply Hfr. exact Hx.
      * intros c Hc. rewrite Hhp. destruct Hc as [<-|Hc].
        -- rewrite nth_upd_other by (intro; subst; contradiction). lia.
        -- rewrite nth_upd_other; [apply Hnh; exact Hc|]. intro; subst c.
           apply Hnn in Hc. exact (Hdisj _ Hc Hp).
      * split; [exact Hvis|exact Hcv].
      * intros ->. destruct Hp.
    + apply Nat.ltb_ge in E.
      constructor; cbn [t_high t_cstack t_lead]; try assumption.
      * unfold G. cbn [t_high t_cstack t_known t_index t_root_high t_noc].
        rewrite <- app_assoc. cbn [app]. exact HGp.
      * rewrite Hcs. reflexivity.
      * left. split; [reflexivity|]. intros _. apply Hfr. exact Hp.
      * intros x Hx _. apply Hfr. exact Hx.
      * intros c [<-|Hc]; [exact E|]. specialize (Hnh c Hc). lia.
      * split; [exact Hvis|exact Hcv].
      * intros ->. destruct Hp.
Qed.

(** * The visit of a subtree *)
Lemma loop_spec : forall f, visit_spec_at f ->
  forall sp ts0 act0 vis0 curr rest done st ts new new' vis,
  succs g curr = done ++ rest ->
  LI sp ts0 act0 vis0 curr f st ts new new' vis done ->
  forall st' brk, t_loop (fun s st => t_visit f g s curr st) curr rest st = (st', brk) ->
  if brk then PB st' act0 (t_cstack sp)
  else exists ts' new2 new2' vis',
         LI sp ts0 act0 vis0 curr f st' ts' new2 new2' vis' (succs g curr).
Proof.
  intros f IHf sp ts0 act0 vis0 curr.
  induction rest as [|s rest IH]; intros done st ts new new' vis Hsucc HLI st' brk Hrun.
  - cbn in Hrun. injection Hrun as <- <-. rewrite app_nil_r in Hsucc. rewrite Hsucc. eauto.
  - cbn [t_loop] in Hrun.
    assert (Harc : arc g curr s).
    { unfold arc. rewrite Hsucc. apply in_or_app; right; left; reflexivity. }
    assert (Hsucc' : succs g curr = (done ++ [s]) ++ rest) by (rewrite <- app_assoc; exact Hsucc).
    destruct (nth s (t_known st) false) eqn:Hk.
    + destruct (t_revisit st s curr) as [st1 b1] eqn:Hrv.
      pose proof (LI_revisit _ _ _ _ _ _ _ _ _ _ _ _ _ HLI Harc Hk _ _ Hrv) as H1.
      destruct b1.
      * injection Hrun as <- <-. exact H1.
      * eapply IH; eassumption.
    + destruct (t_visit f g s curr (t_previsit st s)) as [st2 b2] eqn:Hv.
      pose proof HLI as HLI'.
      destruct HLI' as [HG Hcs Hnn Hcs0 [b [Hlead _]] Hnh Hrc Hts0 Hfr Hdone Hvis Hfuel].
      assert (Hsn : s < n) by (eapply wf_succs; eauto).
      assert (Hca : In curr (new ++ curr :: act0)) by (apply in_or_app; right; left; reflexivity).
      assert (Hpar : par_ok curr s (new ++ curr :: act0)).
      { right. split; [exact Hca|]. split; [exact Harc|exact Hrc]. }
      assert (Hl : t_lead st <> []) by (rewrite Hlead; discriminate).
      assert (Hrh : t_root_high st = n).
      { apply (g_root HG). destruct new; discriminate. }
      pose proof (IHf st ts _ vis s curr HG Hsn Hk Hfuel Hpar Hl Hrh _ _ Hv) as H2.
      destruct b2.
      * injection Hrun as <- <-. eapply LI_child_break; eassumption.
      * destruct H2 as [ts2 [vis2 [nw [nw' HP]]]].
        eapply IH; [exact Hsucc'| |exact Hrun]. eapply LI_child_post; eassumption.
Qed.

Lemma visit_spec : forall F, visit_spec_at F.
Proof.
  induction F as [|f IHf];
    intros sp ts0 act0 vis0 s parent HG Hs Hk Hfuel Hpar Hlead Hrh st' brk Hrun.
  - exfalso. unfold G in HG.
    assert (Hsv : ~ In s vis0).
    { intro H. apply (g_vis HG) in H. destruct H as [_ H]. congruence. }
    assert (length (s :: vis0) <= n).
    { apply nodup_bound; [constructor; [exact Hsv|apply (g_vnodup HG)]|].
      constructor; [exact Hs|]. apply Forall_forall. intros x Hx. apply (vis_lt x HG Hx). }
    cbn [length] in H. lia.
  - rewrite t_visit_unfold in Hrun.
    destruct (t_loop (fun s0 st => t_visit f g s0 s st) s (succs g s) (t_previsit sp s))
      as [st1 b1] eqn:Hloop.
    pose proof (LI_init sp ts0 act0 vis0 s parent f HG Hs Hk Hfuel Hpar Hrh) as HLI0.
    pose proof (loop_spec f IHf sp ts0 act0 vis0 s (succs g s) [] _ _ _ _ _ eq_refl HLI0 _ _ Hloop) as H1.
    destruct b1; injection Hrun as <- <-.
    + exact H1.
    + destruct H1 as [ts' [new2 [new2' [vis' HLI]]]]. eapply LI_postvisit; eassumption.
Qed.

(** * The loop over the roots *)
Lemma roots_spec : forall roots st ts vis,
  G st ts [] vis -> t_lead st <> [] -> (forall r, In r roots -> r < n) ->
  forall st' brk, t_roots g roots st = (st', brk) ->
  if brk then PB st' [] []
  else exists ts' vis', G st' ts' [] vis' /\ incl vis vis' /\ forall r, In r roots -> In r vis'.
Proof.
  induction roots as [|r roots IH]; intros st ts vis HG Hl Hr st' brk Hrun.
  - cbn in Hrun. injection Hrun as <- <-. exists ts, vis. split; [exact HG|].
    split; [intros x Hx; exact Hx|intros r []].
  - cbn [t_roots] in Hrun.
    assert (Hrn : r < n) by (apply Hr; left; reflexivity).
    assert (Hr' : forall r0, In r0 roots -> r0 < n) by (intros; apply Hr; right; assumption).
    destruct (nth r (t_known st) false) eqn:Hk.
    + pose proof (IH st ts vis HG Hl Hr' _ _ Hrun) as Hres. destruct brk; [exact Hres|].
      destruct Hres as [ts' [vis' [HG' [Hincl Hin]]]]. exists ts', vis'.
      split; [exact HG'|]. split; [exact Hincl|]. intros r0 [<-|H0]; [|apply Hin; exact H0].
      apply Hincl. apply (g_vis HG). split; assumption.
    + set (st0 := mkT (t_known st) (t_high st) (t_lead st) (t_cstack st) (t_index st) (t_index st)
                      (t_noc st)) in *.
      destruct (t_visit (length g) g r r (t_previsit st0 r)) as [st1 b1] eqn:Hv.
      assert (HG0 : G st0 ts [] vis).
      { unfold G, st0. cbn [t_known t_high t_cstack t_index t_root_high t_noc].
        eapply GI_rh. exact HG. }
      assert (Hcs : t_cstack st0 = []).
      { destruct (t_cstack st0) as [|c cs] eqn:E; [reflexivity|].
        destruct (g_cs HG0 c) as [[] _]. rewrite E. left. reflexivity. }
      assert (Hidx : t_root_high st0 = n).
      { unfold st0. cbn [t_root_high]. pose proof (g_idx HG) as H. cbn [length] in H. lia. }
      pose proof (visit_spec (length g) st0 ts [] vis r r HG0 Hrn Hk ltac:(lia)
                    (or_introl eq_refl) Hl Hidx _ _ Hv) as H1.
      destruct b1.
      * injection Hrun as <- <-. rewrite Hcs in H1. exact H1.
      * destruct H1 as [ts1 [vis1 [nw [nw' HP]]]].
        destruct HP as [PG Pcs Pnn Plead Pfr Pnh Prc Pts [Pvis Psv] Proot].
        rewrite (Proot eq_refl) in PG. cbn [app] in PG.
        assert (Hl1 : t_lead st1 <> []).
        { destruct Plead as [[-> _]|[[] _]]. exact Hl. }
        pose proof (IH st1 ts1 vis1 PG Hl1 Hr' _ _ Hrun) as Hres. destruct brk; [exact Hres|].
        destruct Hres as [ts' [vis' [HG' [Hincl Hin]]]]. exists ts', vis'.
        split; [exact HG'|]. split; [intros x Hx; apply Hincl, Pvis, Hx|].
        intros r0 [<-|H0]; [apply Hincl, Psv|apply Hin; exact H0].
Qed.

End Tarjan.

(** * The theorem *)
Arguments g_closed {g kn high cs idx rh noc ts act vis} _.
Arguments g_lenh {g kn high cs idx rh noc ts act vis} _.
Arguments g_em {g kn high cs idx rh noc ts act vis} _.
Arguments g_surj {g kn high cs idx rh noc ts act vis} _.
Arguments g_sound {g kn high cs idx rh noc ts act vis} _.
Arguments vis_lt {g kn high cs idx rh noc ts act vis} x _ _.
Lemma closed_hi_le : forall g kn high cs idx rh noc ts vis,
  GI g kn high cs idx rh noc ts [] vis ->
  forall x y, reachable g x y -> In x vis -> In y vis /\ nth y high 0 <= nth x high 0.
Proof.
  intros g kn high cs idx rh noc ts vis HG x y Hr.
  induction Hr as [u|u w v Ha Hr IH]; intro Hu; [split; [exact Hu|lia]|].
  destruct (g_closed HG u w Hu (fun H => H) Ha) as [Hw [_ Hle]].
  destruct (IH Hw) as [Hv Hle2]. split; [exact Hv|lia].
Qed.

Theorem tarjan_correct : S_tarjan.
Proof.
  intros g Hwf. unfold tarjan. destruct (tarjan_run g) as [st brk] eqn:Hrun.
  unfold tarjan_run in Hrun. cbv zeta in Hrun.
  set (n := length g) in *.
  set (st_init := mkT (repeat false n) (repeat 0 n) [true] [] n 0 0) in Hrun.
  assert (HG0 : G g st_init (fun _ => 0) [] []).
  { unfold G, st_init. cbn [t_known t_high t_cstack t_index t_root_high t_noc].
    constructor; cbn [length map seq In]; try (intros; contradiction); try constructor; try lia.
    - apply repeat_length.
    - apply repeat_length.
    - intros [_ H]. rewrite nth_repeat in H. discriminate. }
  assert (Hl : t_lead st_init <> []) by discriminate.
  assert (Hr : forall r, In r (seq 0 n) -> r < n) by (intros r H; apply in_seq in H; lia).
  pose proof (roots_spec g Hwf (seq 0 n) st_init _ [] HG0 Hl Hr _ _ Hrun) as H.
  cbn [fst snd]. destruct brk.
  - destruct H as [Ppos Plen Pnoc Pall Phi]. fold n in Ppos, Plen, Pall, Phi.
    assert (H0 : forall x, x < n -> nth x (t_high st) 0 = 0).
    { intros x Hx. destruct (Phi x Hx) as [E|[[] _]]. exact E. }
    rewrite Pnoc. split; [exact Plen|]. split; [|split].
    + intros u Hu. rewrite (H0 u Hu). lia.
    + intros c Hc. exists 0. split; [exact Ppos|]. rewrite (H0 0 Ppos). lia.
    + intros u v Hu Hv. rewrite (H0 u Hu), (H0 v Hv). split; [|reflexivity].
      intros _. split; apply Pall; assumption.
  - destruct H as [ts' [vis' [HG [_ Hall]]]]. unfold G in HG.
    assert (Hv : forall x, x < n -> In x vis') by (intros x Hx; apply Hall, in_seq; lia).
    split; [apply (g_lenh HG)|]. split; [|split].
    + intros u Hu. apply (g_em HG u (Hv u Hu)). intros [].
    + intros c Hc. destruct (g_surj HG c Hc) as [x [Hx [_ He]]]. exists x.
      split; [apply (vis_lt x HG Hx)|exact He].
    + intros u v Hu Hvn. split.
      * intros He. apply (g_sound HG u v); auto.
      * intros [H1 H2].
        destruct (closed_hi_le g _ _ _ _ _ _ _ _ HG u v H1 (Hv u Hu)) as [_ L1].
        destruct (closed_hi_le g _ _ _ _ _ _ _ _ HG v u H2 (Hv v Hvn)) as [_ L2]. lia.
Qed.
