(** Pinned statements for C19 (HyperBall).  Statements only. *)
From WG Require Import Base.Prelude Algo.HyperBall.

Definition semilattice {L} (join : L -> L -> L) : Prop :=
  (forall a b c, join a (join b c) = join (join a b) c) /\
  (forall a b, join a b = join b a) /\
  (forall a, join a a = a).

Definition eqb_spec {L} (eqb : L -> L -> bool) : Prop := forall a b, eqb a b = true <-> a = b.

(** [n] nodes, every successor is a node *)
Definition wf_graph (g : graph) (n : nat) : Prop :=
  length g = n /\ forall v w, In w (succs g v) -> w < n.

(** After [t] synchronous rounds the counter of [v] is the join of the initial counters of
    the nodes within distance [t] of [v] ([l] is any enumeration of that ball). *)
Definition S_ball : Prop :=
  forall (L : Type) (join : L -> L -> L) (dflt : L) (g : graph) (c0 : list L) (t v : nat) (l : list nat),
    semilattice join -> wf_graph g (length c0) -> v < length c0 ->
    (forall w, In w l <-> within g t v w) ->
    get L dflt (sync_iter L join dflt g t c0) v
    = bigjoin L join (get L dflt c0 v) (map (get L dflt c0) l).

(** Element-wise reading: for a property [P] of counters that distributes over joins
    ("contains element x"), the counter of [v] after [t] rounds has it iff the initial
    counter of some node of the ball has it. *)
Definition S_ball_mem : Prop :=
  forall (L : Type) (join : L -> L -> L) (dflt : L) (P : L -> Prop) (g : graph) (c0 : list L),
    (forall a b, P (join a b) <-> P a \/ P b) ->
    wf_graph g (length c0) ->
    forall t v, v < length c0 ->
      (P (get L dflt (sync_iter L join dflt g t c0) v) <->
       exists w, within g t v w /\ P (get L dflt c0 w)).

(** With singletons as initial counters the iteration computes the balls exactly. *)
Definition S_ball_exact : Prop :=
  forall (g : graph) (n t v w : nat),
    wf_graph g n -> v < n -> w < n ->
    (nth w (get (list bool) [] (sync_iter (list bool) bits_join [] g t (singletons n)) v) false = true
     <-> within g t v w).

(** A join-homomorphism commutes with the iteration: the HyperLogLog registers of the
    balls are what the iteration on registers computes. *)
Definition S_hom : Prop :=
  forall (L L' : Type) (join : L -> L -> L) (join' : L' -> L' -> L') (d : L) (d' : L') (h : L -> L'),
    (forall a b, h (join a b) = join' (h a) (h b)) -> h d = d' ->
    forall (g : graph) (t : nat) (c0 : list L),
      map h (sync_iter L join d g t c0) = sync_iter L' join' d' g t (map h c0).

(** Counters only grow, hence every monotone size, and the neighbourhood function (the sum
    of the sizes), is non-decreasing in the number of rounds. *)
Definition S_nf_monotone : Prop :=
  forall (L : Type) (join : L -> L -> L) (dflt : L) (size : L -> Z) (g : graph) (c0 : list L) (t : nat),
    semilattice join ->
    (forall a b, join a b = b -> (size a <= size b)%Z) ->
    (forall v, join (get L dflt (sync_iter L join dflt g t c0) v)
                    (get L dflt (sync_iter L join dflt g (S t) c0) v)
               = get L dflt (sync_iter L join dflt g (S t) c0) v) /\
    (sumZ (map size (sync_iter L join dflt g t c0))
     <= sumZ (map size (sync_iter L join dflt g (S t) c0)))%Z.

(** ... in particular the exact neighbourhood function (sum of the ball sizes). *)
Definition S_nf_monotone_exact : Prop :=
  forall (g : graph) (n t : nat),
    (sumZ (map bits_size (sync_iter (list bool) bits_join [] g t (singletons n)))
     <= sumZ (map bits_size (sync_iter (list bool) bits_join [] g (S t) (singletons n))))%Z.

(** If a round changes nothing, no later round does. *)
Definition S_stable_fixpoint : Prop :=
  forall (L : Type) (join : L -> L -> L) (dflt : L) (g : graph) (c : list L),
    sync_step L join dflt g c = c -> forall k, sync_iter L join dflt g k c = c.

(** The invariant linking the arrays of the implementation to the counters [c] of the
    synchronous iteration: the read array is [c]; (ping-pong) the other array agrees with
    it on every node not modified in the last round; a node has already absorbed every
    successor that was not modified in the last round. *)
Definition ainv {L} (join : L -> L -> L) (dflt : L) (ext : bool) (g : graph) (s : astate L) (c : list L) : Prop :=
  a_curr L s = c /\ length (a_mod L s) = length c /\
  (ext = false -> forall v, v < length c -> getb (a_mod L s) v = false ->
                  get L dflt (a_next L s) v = get L dflt c v) /\
  (forall v w, v < length c -> In w (succs g v) -> getb (a_mod L s) w = false ->
               join (get L dflt c v) (get L dflt c w) = get L dflt c v).

(** One iteration of the code with ANY legal scanning / checking decisions (standard,
    systolic, local) on either store performs exactly one synchronous round, flags exactly
    the counters that changed, and re-establishes the invariant. *)
Definition S_skip_sound : Prop :=
  forall (L : Type) (join : L -> L -> L) (eqb : L -> L -> bool) (dflt : L) (ext : bool) (g : graph)
         (s : astate L) (c : list L) (scan chk : nat -> bool),
    semilattice join -> eqb_spec eqb -> wf_graph g (length c) ->
    ainv join dflt ext g s c ->
    skip_ok ext g (a_mod L s) scan chk ->
    let s' := astep L join eqb dflt ext g s scan chk in
    ainv join dflt ext g s' (sync_step L join dflt g c) /\
    (forall v, v < length c ->
       getb (a_mod L s') v = negb (eqb (get L dflt (sync_step L join dflt g c) v) (get L dflt c v))).

(** a sequence of iterations with their decisions *)
Fixpoint arun {L} join eqb dflt (ext : bool) (g : graph) (s : astate L)
    (ds : list ((nat -> bool) * (nat -> bool))) : astate L :=
  match ds with
  | [] => s
  | d :: r => arun join eqb dflt ext g (astep L join eqb dflt ext g s (fst d) (snd d)) r
  end.
Fixpoint legal {L} join eqb dflt (ext : bool) (g : graph) (s : astate L)
    (ds : list ((nat -> bool) * (nat -> bool))) : Prop :=
  match ds with
  | [] => True
  | d :: r => skip_ok ext g (a_mod L s) (fst d) (snd d) /\
              legal join eqb dflt ext g (astep L join eqb dflt ext g s (fst d) (snd d)) r
  end.

(** Mode independence: from the initial state of [init] (all counters flagged modified),
    every sequence of legal decisions, on either store, yields after [k] iterations the
    counters of [k] synchronous rounds. *)
Definition S_mode_independent : Prop :=
  forall (L : Type) (join : L -> L -> L) (eqb : L -> L -> bool) (dflt : L) (ext : bool) (g : graph)
         (c0 : list L) (ds : list ((nat -> bool) * (nat -> bool))),
    semilattice join -> eqb_spec eqb -> wf_graph g (length c0) ->
    let s0 := mkA L c0 (repeat dflt (length c0)) (repeat true (length c0)) in
    legal join eqb dflt ext g s0 ds ->
    a_curr L (arun join eqb dflt ext g s0 ds) = sync_iter L join dflt g (length ds) c0.

(** Once an iteration modifies nothing, no later iteration modifies anything, whatever its
    mode: the termination test of [run] is sound. *)
Definition S_stable_code : Prop :=
  forall (L : Type) (join : L -> L -> L) (eqb : L -> L -> bool) (dflt : L) (ext : bool) (g : graph)
         (s : astate L) (c : list L) (scan chk : nat -> bool),
    semilattice join -> eqb_spec eqb -> wf_graph g (length c) ->
    ainv join dflt ext g s c ->
    (forall v, getb (a_mod L s) v = false) ->
    let s' := astep L join eqb dflt ext g s scan chk in
    a_curr L s' = c /\ (forall v, getb (a_mod L s') v = false).

(** Schedule independence: the per-node writes of an iteration, performed in any order
    (any assignment of blocks to threads, any interleaving), produce the same array. *)
Definition S_schedule : Prop :=
  forall (A : Type) (d : A) (wr : nat -> bool) (f : nat -> A) (order : list nat) (arr : list A),
    Permutation order (seq 0 (length arr)) ->
    sched_write wr f order arr
    = tab (length arr) (fun v => if wr v then f v else nth v arr d).

(** The systolic bookkeeping is a legal decision: if [mbc] marks every predecessor (read
    off the transpose) of every node modified in the last round, then checking only the
    marked nodes is legal. *)
Definition S_systolic_legal : Prop :=
  forall (ext : bool) (g gt : graph) (md mbc : list bool),
    is_transpose g gt ->
    (forall v u, getb md v = true -> In u (succs gt v) -> getb mbc u = true) ->
    skip_ok ext g md (fun _ => true) (fun v => getb mbc v).

(** ... and so is the local one: scanning only a check list that contains every node
    modified in the last round and all their predecessors. *)
Definition S_local_legal : Prop :=
  forall (ext : bool) (g gt : graph) (md : list bool) (check : list nat),
    is_transpose g gt ->
    (forall v, getb md v = true -> In v check /\ forall u, In u (succs gt v) -> In u check) ->
    skip_ok ext g md (fun v => memb v check) (fun _ => true).

(** boolean well-formedness checks for the witness below *)
Definition wfb (g : graph) (n : nat) : bool :=
  Nat.eqb (length g) n && forallb (forallb (fun w => Nat.ltb w n)) g.
Definition transposeb (g gt : graph) : bool :=
  let n := length g in
  wfb g n && wfb gt n &&
  forallb (fun u => forallb (fun v => Bool.eqb (memb u (succs gt v)) (memb v (succs g u))) (seq 0 n)) (seq 0 n).

(** REPAIRED DEFECT (refutation of the PRE-repair behaviour).  Before its repair the code
    set [ic.local = ic.pre_local] (model: [hb_run_prefix], i.e. [cstep_gen false]); the
    code now sets [ic.local = ic.pre_local && ic.systolic] (model: [hb_run]).  With the old
    rule the concrete model of [iterate] (flags decided as the code does) reaches an
    iteration that is local but not systolic; the counters are right but the neighbourhood
    function it records is not the sum of the sizes.  The statement is about the old rule
    only; for the code as it is now the opposite is proved ([S_nf_exact]). *)
Definition S_nf_refuted : Prop :=
  exists (g gt : graph) (c0 : list (list bool)),
    transposeb g gt = true /\ length g = length c0 /\
    let states := hb_run_prefix (list bool) bits_join bits_eqb [] bits_size false true g gt (length c0) c0 in
    let final := last states (init_state (list bool) [] c0) in
    a_curr _ (c_arr _ final) = sync_iter (list bool) bits_join [] g (length states) c0 /\
    existsb (fun s => c_local _ s && negb (c_sys _ s)) states = true /\
    hd 0%Z (c_nf _ final) <> sumZ (map bits_size (a_curr _ (c_arr _ final))).

(** ... and on the same witness the repaired rule records the exact value (so the witness
    separates the two rules, and no iteration is local without being systolic). *)
Definition S_nf_witness_repaired : Prop :=
  exists (g gt : graph) (c0 : list (list bool)),
    transposeb g gt = true /\ length g = length c0 /\
    (let states := hb_run_prefix (list bool) bits_join bits_eqb [] bits_size false true g gt (length c0) c0 in
     let final := last states (init_state (list bool) [] c0) in
     hd 0%Z (c_nf _ final) <> sumZ (map bits_size (a_curr _ (c_arr _ final)))) /\
    (let states := hb_run (list bool) bits_join bits_eqb [] bits_size false true g gt (length c0) c0 in
     let final := last states (init_state (list bool) [] c0) in
     existsb (fun s => c_prelocal _ s) states = true /\
     existsb (fun s => c_local _ s && negb (c_sys _ s)) states = false /\
     hd 0%Z (c_nf _ final) = sumZ (map bits_size (a_curr _ (c_arr _ final)))).

(** The concrete bookkeeping ([curr_modified], [next_modified] and its partial clearing,
    [must_be_checked] / [next_must_be_checked] and their swap, the local check list built
    from the per-thread buffers, the systolic / local / pre-local flags decided from the
    number of modified counters as the code does, on either store, with or without the
    transpose, for every iteration bound): after every iteration of [run] the counters are
    those of the synchronous iteration.  This includes the wake-up invariants of the
    systolic and local modes and the local-but-not-systolic iterations. *)
Definition S_concrete_full : Prop :=
  forall (L : Type) (join : L -> L -> L) (eqb : L -> L -> bool) (dflt : L) (size : L -> Z)
         (ext has_tr : bool) (g gt : graph) (ub : nat) (c0 : list L),
    semilattice join -> eqb_spec eqb -> wf_graph g (length c0) -> (has_tr = true -> is_transpose g gt) ->
    let states := hb_run L join eqb dflt size ext has_tr g gt ub c0 in
    forall s, In s states ->
      a_curr L (c_arr L s) = sync_iter L join dflt g (c_iter L s) c0.

(** the neighbourhood function of the synchronous iteration at round [t]: the sum over all
    nodes of the size of the counter *)
Definition nf_at {L} (join : L -> L -> L) (dflt : L) (size : L -> Z) (g : graph) (c0 : list L) (t : nat) : Z :=
  sumZ (map size (sync_iter L join dflt g t c0)).

(** The neighbourhood function of the repaired code is exact (with an exact [size] in
    place of the floating-point estimate): in the concrete model of [iterate]/[run] as the
    code is now, with the modes decided as the code decides them, on either store, with or
    without transpose, for every iteration bound and ANY initial counters,

    - after every iteration the value [self.last] (the value of this iteration BEFORE the
      monotone clamp) is the sum over all nodes of the size of the counter of round
      [c_iter] of the synchronous iteration: the scan of a standard iteration and the
      systolic compensation [last + sum over modified v of (size (new v) - size (old v))]
      (in systolic, local and pre-local iterations) are exact.  No hypothesis on [size].

    - if moreover [size] is monotone and the initial counters have total size [n] (what
      [init] records as the first entry), the clamp is the identity and the recorded
      sequence [neighborhood_function] is exactly [nf_at 0, nf_at 1, ..., nf_at c_iter]. *)
Definition S_nf_exact : Prop :=
  forall (L : Type) (join : L -> L -> L) (eqb : L -> L -> bool) (dflt : L) (size : L -> Z)
         (ext has_tr : bool) (g gt : graph) (ub : nat) (c0 : list L),
    semilattice join -> eqb_spec eqb -> wf_graph g (length c0) -> (has_tr = true -> is_transpose g gt) ->
    let states := hb_run L join eqb dflt size ext has_tr g gt ub c0 in
    forall s, In s states ->
      c_last L s = nf_at join dflt size g c0 (c_iter L s) /\
      c_last L s = sumZ (map size (a_curr L (c_arr L s))) /\
      ((forall a b, join a b = b -> (size a <= size b)%Z) ->
       sumZ (map size c0) = Z.of_nat (length c0) ->
       rev (c_nf L s) = map (nf_at join dflt size g c0) (seq 0 (S (c_iter L s)))).

(** Instance without hypotheses on [size]: node sets as bit vectors with their exact
    cardinality, singletons as initial counters.  The recorded neighbourhood function is
    the exact one: entry [t] is the number of pairs (v, w) with w within distance t of v
    (by [S_ball_exact] the counter of v at round t is the ball of radius t around v). *)
Definition S_nf_exact_bits : Prop :=
  forall (ext has_tr : bool) (g gt : graph) (n ub : nat),
    wf_graph g n -> (has_tr = true -> is_transpose g gt) ->
    let c0 := singletons n in
    let states := hb_run (list bool) bits_join bits_eqb [] bits_size ext has_tr g gt ub c0 in
    forall s, In s states ->
      c_last _ s = nf_at bits_join [] bits_size g c0 (c_iter _ s) /\
      hd 0%Z (c_nf _ s) = nf_at bits_join [] bits_size g c0 (c_iter _ s) /\
      rev (c_nf _ s) = map (nf_at bits_join [] bits_size g c0) (seq 0 (S (c_iter _ s))).

(** The repaired code never runs an iteration that is local but not systolic. *)
Definition S_local_systolic : Prop :=
  forall (L : Type) (join : L -> L -> L) (eqb : L -> L -> bool) (dflt : L) (size : L -> Z)
         (ext has_tr : bool) (g gt : graph) (ub : nat) (c0 : list L),
    forall s, In s (hb_run L join eqb dflt size ext has_tr g gt ub c0) ->
      c_local L s = true -> c_sys L s = true.
