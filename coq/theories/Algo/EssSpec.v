(** C16 — specification side of ExactSumSweep
    (algo/src/distances/exact_sum_sweep/mod.rs, module documentation, "Definitions"):
    breadth-first distances by level iteration, forward / backward eccentricities
    restricted to reachable nodes, diameter, radius over a set of radial vertices, the
    documented default radial set (the vertices that reach the largest strongly connected
    component), and an executable checker of an output structure at a given level.
    Definitions only; nodes and distances are [nat] (they are bounded by the number of
    nodes, a list length). *)
From Coq Require Import List Arith Bool Lia.

Module EssSpecM.
Import ListNotations.

Definition graph := list (list nat).

Definition succs (g : graph) (v : nat) : list nat := nth v g [].

(** every successor is a node *)
Definition wf_graph (g : graph) : bool :=
  forallb (forallb (fun w => w <? length g)) g.

Definition memb (x : nat) (l : list nat) : bool := existsb (Nat.eqb x) l.

(** the elements of [l] that are not in [seen], each once, in order of first occurrence *)
Fixpoint fresh (seen l : list nat) : list nat :=
  match l with
  | [] => []
  | x :: r => if memb x seen then fresh seen r else x :: fresh (x :: seen) r
  end.

(** level iteration: [front] is the current level, [seen] everything met so far; the
    result lists the levels from the current one on.  Fuel: the number of nodes. *)
Fixpoint bfs_layers (g : graph) (fuel : nat) (seen front : list nat) : list (list nat) :=
  match fuel with
  | O => []
  | S f =>
    match front with
    | [] => []
    | _ :: _ =>
      let next := fresh seen (flat_map (succs g) front) in
      front :: bfs_layers g f (next ++ seen) next
    end
  end.

Definition bfs (g : graph) (s : nat) : list (list nat) := bfs_layers g (length g) [s] [s].

Fixpoint layer_index (v : nat) (ls : list (list nat)) : option nat :=
  match ls with
  | [] => None
  | l :: r => if memb v l then Some 0 else option_map S (layer_index v r)
  end.

(** distance from [s] to [v]; [None] = unreachable *)
Definition bfs_dist (g : graph) (s v : nat) : option nat := layer_index v (bfs g s).

(** all-pairs matrix, row = source *)
Definition dist_row (g : graph) (s : nat) : list (option nat) :=
  let ls := bfs g s in map (fun v => layer_index v ls) (seq 0 (length g)).
Definition dist_matrix (g : graph) : list (list (option nat)) :=
  map (dist_row g) (seq 0 (length g)).

Definition dget (dm : list (list (option nat))) (s v : nat) : option nat :=
  nth v (nth s dm []) None.

Definition odef (o : option nat) : nat := match o with Some k => k | None => 0 end.

(** ecc+(v) = max d(v,w) over the w reachable from v; ecc-(v) = max d(w,v) over the w that
    reach v *)
Definition ecc_f_dm (dm : list (list (option nat))) (v : nat) : nat :=
  list_max (map odef (nth v dm [])).
Definition ecc_b_dm (dm : list (list (option nat))) (v : nat) : nat :=
  list_max (map (fun row => odef (nth v row None)) dm).

Definition eccs_f (dm : list (list (option nat))) : list nat :=
  map (ecc_f_dm dm) (seq 0 (length dm)).
Definition eccs_b (dm : list (list (option nat))) : list nat :=
  map (ecc_b_dm dm) (seq 0 (length dm)).

(** diameter = max ecc+ *)
Definition diameter_of (ef : list nat) : nat := list_max ef.

(** radius = min ecc+ over the radial vertices; [None] when there is none *)
Fixpoint radius_from (ef : list nat) (radial : list bool) : option nat :=
  match ef, radial with
  | e :: ef', b :: radial' =>
    let r := radius_from ef' radial' in
    if b then Some (match r with Some m => Nat.min e m | None => e end) else r
  | _, _ => None
  end.

(** strongly connected component of [c]: mutual reachability *)
Definition reaches (dm : list (list (option nat))) (v w : nat) : bool :=
  match dget dm v w with Some _ => true | None => false end.
Definition scc_size (dm : list (list (option nat))) (c : nat) : nat :=
  length (filter (fun w => reaches dm c w && reaches dm w c) (seq 0 (length dm))).
Definition max_scc_size (dm : list (list (option nat))) : nat :=
  list_max (map (scc_size dm) (seq 0 (length dm))).
(** the documented default radial set, for a largest component designated by one of its
    nodes [c] *)
Definition radial_of (dm : list (list (option nat))) (c : nat) : list bool :=
  map (fun v => reaches dm v c) (seq 0 (length dm)).

(** ---- outputs and checker ---- *)
Inductive level := LAll | LAllForward | LRadiusDiameter | LDiameter | LRadius.

Definition wants_eccf (l : level) : bool :=
  match l with LAll | LAllForward => true | _ => false end.
Definition wants_eccb (l : level) : bool :=
  match l with LAll => true | _ => false end.
Definition wants_diam (l : level) : bool :=
  match l with LRadius => false | _ => true end.
Definition wants_rad (l : level) : bool :=
  match l with LDiameter => false | _ => true end.

(** what a run reports (fields a level does not report are ignored); the radius is
    [None] when the implementation reports "no radial vertex" (usize::MAX) *)
Record ess_out := mkOut {
  o_eccf : list nat; o_eccb : list nat;
  o_diam : nat; o_dv : nat;
  o_rad : option nat; o_rv : nat }.

Definition list_eqb (a b : list nat) : bool :=
  (length a =? length b) && forallb (fun p => fst p =? snd p) (combine a b).

Definition check_eccf (dm : list (list (option nat))) (o : ess_out) : bool :=
  list_eqb (o_eccf o) (eccs_f dm).
Definition check_eccb (dm : list (list (option nat))) (o : ess_out) : bool :=
  list_eqb (o_eccb o) (eccs_b dm).
Definition check_diam (dm : list (list (option nat))) (o : ess_out) : bool :=
  o_diam o =? diameter_of (eccs_f dm).
(** the diametral vertex attains the diameter with its forward or backward eccentricity *)
Definition check_dv (dm : list (list (option nat))) (o : ess_out) : bool :=
  (o_dv o <? length dm) &&
  ((ecc_f_dm dm (o_dv o) =? o_diam o) || (ecc_b_dm dm (o_dv o) =? o_diam o)).
Definition check_rad (dm : list (list (option nat))) (radial : list bool) (o : ess_out) : bool :=
  match o_rad o, radius_from (eccs_f dm) radial with
  | Some r, Some r' => r =? r'
  | None, None => true
  | _, _ => false
  end.
(** the radial vertex is a radial vertex whose forward eccentricity is the reported radius *)
Definition check_rv (dm : list (list (option nat))) (radial : list bool) (o : ess_out) : bool :=
  match o_rad o with
  | Some r => (o_rv o <? length dm) && nth (o_rv o) radial false && (ecc_f_dm dm (o_rv o) =? r)
  | None => true
  end.

Definition check_ess_dm (dm : list (list (option nat))) (radial : list bool) (o : ess_out) (l : level) : bool :=
  (negb (wants_eccf l) || check_eccf dm o) &&
  (negb (wants_eccb l) || check_eccb dm o) &&
  (negb (wants_diam l) || (check_diam dm o && check_dv dm o)) &&
  (negb (wants_rad l) || (check_rad dm radial o && check_rv dm radial o)).

Definition check_ess (g : graph) (radial : list bool) (o : ess_out) (l : level) : bool :=
  check_ess_dm (dist_matrix g) radial o l.

(** default radial set: correct for some largest strongly connected component *)
Definition largest_scc_nodes (dm : list (list (option nat))) : list nat :=
  filter (fun c => scc_size dm c =? max_scc_size dm) (seq 0 (length dm)).
Definition check_ess_default (g : graph) (o : ess_out) (l : level) : bool :=
  let dm := dist_matrix g in
  existsb (fun c => check_ess_dm dm (radial_of dm c) o l) (largest_scc_nodes dm).


End EssSpecM.
Export EssSpecM.
