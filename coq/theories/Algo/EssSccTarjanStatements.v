(** C16 — the component numbering the directed SCC step relies on is the one the model of
    [sccs::tarjan] (Algo/Scc.v, proved in Algo/SccTarjan.v) produces.  Statements only. *)
From Coq Require Import List Arith Bool Lia.
Import ListNotations.
From WG Require Import Algo.EssSpec Algo.EssStatements Algo.Ess Algo.EssMachineStatements
  Algo.EssScc Algo.EssSccStatements.
From WG Require Algo.Scc.

(** the output of the model of Tarjan's algorithm labels the strongly connected components
    (in the sense of the ExactSumSweep specification), leaves no index unused, and numbers
    the components in reverse topological order *)
Definition S_tarjan_scc_topo : Prop :=
  forall g, wf_graph g = true ->
  let ck := WG.Algo.Scc.SccM.tarjan g in
  scc_ok g (fst ck) (snd ck) /\
  (forall c, c < snd ck -> exists u, u < length g /\ nth u (fst ck) 0 = c) /\
  topo_ok g (fst ck).

(** the closed forms: with the components of the Tarjan model the hypotheses on the
    numbering are theorems.  Any legal run of the directed machine with SCC steps that
    reaches the exit condition is accepted by the complete checker ... *)
Definition S_machine_exact_tarjan : Prop :=
  forall g gt radial ops l, wf_graph g = true -> 0 < length g ->
  let ck := WG.Algo.Scc.SccM.tarjan g in
  Forall (legal_op_dir g (fst ck) (snd ck)) ops ->
  fst (replay_dir g gt (fst ck) (snd ck) radial ops l) = 0 ->
  check_ess g radial (snd (replay_dir g gt (fst ck) (snd ck) radial ops l)) l = true.

(** ... and the pivots of the model of [find_best_pivot] are legal in every state *)
Definition S_tarjan_pivots_legal : Prop :=
  forall g use_tot tot x, wf_graph g = true ->
  let ck := WG.Algo.Scc.SccM.tarjan g in
  legal_pivots g (fst ck) (snd ck) (best_pivots_dir use_tot (length g) (fst ck) (snd ck) tot x).
