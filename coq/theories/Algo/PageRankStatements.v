(** C18 — pinned statements about PageRank (statements only). *)
From WG Require Import Algo.PageRankQ.
From Coq Require Import Permutation.
Local Open Scope Q_scope.

(** well-formed input: simple graph on [0..n), alpha in [0,1), stochastic preference *)
Definition wf_input (n : nat) (pred : nat -> list nat) (alpha : Q) (v : nat -> Q) : Prop :=
  wf_graph n pred /\ wf_alpha alpha /\ stochastic n v.

(** the certificate checker accepts only exact solutions of the documented system
    x (I - alpha (P + d^T u)) = (1 - alpha) v  (dense matrix form [solves]) *)
Definition S_exact_certificate : Prop :=
  forall gt alpha v md xs,
  wf_graphb gt = true -> residual_zero gt alpha v md xs = true ->
  solves (length gt) (predf gt) alpha (vecf v) md (vecf xs).

(** a-posteriori error bound: for ANY vector x, the l1 distance from a solution is at most
    the l1 norm of the fixed-point residual over (1 - alpha) *)
Definition S_residual_bound : Prop :=
  forall n pred alpha v md x y,
  wf_input n pred alpha v -> solves n pred alpha v md y ->
  (1 - alpha) * sumn n (fun i => Qabs (x i - y i)) <= l1 n (resid n pred alpha v md x).

(** the documented system has at most one solution *)
Definition S_unique : Prop :=
  forall n pred alpha v md x y,
  wf_input n pred alpha v ->
  solves n pred alpha v md x -> solves n pred alpha v md y ->
  forall i, (i < n)%nat -> x i == y i.

(** a vector left unchanged by the per-node update of [run_with_logging] (with the dangling
    rank computed from it) solves the documented system: all modes, dangling nodes,
    loops, isolated nodes *)
Definition S_fixed_point_is_solution : Prop :=
  forall n pred alpha v md x,
  wf_input n pred alpha v ->
  fixedpt n pred alpha v md x -> solves n pred alpha v md x.

(** and conversely, so the fixed point of the update is exactly the documented solution *)
Definition S_solution_is_fixed_point : Prop :=
  forall n pred alpha v md x,
  wf_input n pred alpha v ->
  solves n pred alpha v md x -> fixedpt n pred alpha v md x.

Definition S_nonneg : Prop :=
  forall n pred alpha v md x,
  wf_input n pred alpha v -> solves n pred alpha v md x ->
  forall i, (i < n)%nat -> 0 <= x i.

Definition S_stochastic : Prop :=
  forall n pred alpha v md x,
  wf_input n pred alpha v -> md <> PseudoRank -> solves n pred alpha v md x ->
  sumn n x == 1.

(** the pseudorank is the strongly preferential PageRank up to its (positive) l1 norm *)
Definition S_pseudorank_proportional : Prop :=
  forall n pred alpha v x y,
  wf_input n pred alpha v ->
  solves n pred alpha v StronglyPreferential x -> solves n pred alpha v PseudoRank y ->
  0 < sumn n y /\ forall i, (i < n)%nat -> x i == y i / sumn n y.

(** everything the oracle of the correspondence run relies on, at the level of the
    extracted functions: an accepted certificate is THE solution, it is non-negative and
    in the stochastic modes sums to one *)
Definition certified (gt : list (list nat)) (alpha : Q) (v : list Q) (md : prmode)
    (xs : list Q) : bool :=
  wf_graphb gt && wf_alphab alpha && stochasticb v && Nat.eqb (length v) (length gt)
  && residual_zero gt alpha v md xs.
Definition S_certified_oracle : Prop :=
  forall gt alpha v md xs,
  certified gt alpha v md xs = true ->
  let n := length gt in
  solves n (predf gt) alpha (vecf v) md (vecf xs)
  /\ (forall y, solves n (predf gt) alpha (vecf v) md y -> forall i, (i < n)%nat -> y i == vecf xs i)
  /\ (forall i, (i < n)%nat -> 0 <= vecf xs i)
  /\ (md <> PseudoRank -> sumn n (vecf xs) == 1).

(** the stopping quantity bounds the error, for every asynchronous iteration given as
    equations (Jacobi, Gauss-Seidel, any mixture of old and new reads):
    |x' - x*|_1 <= alpha/(1-alpha) |x' - x|_1, i.e. the documented "norm delta" *)
Definition S_async_error_bound : Prop :=
  forall n pred alpha v md x x' y,
  wf_input n pred alpha v ->
  async_step n pred alpha v md x x' -> solves n pred alpha v md y ->
  (1 - alpha) * sumn n (fun i => Qabs (x' i - y i)) <= alpha * sumn n (fun i => Qabs (x' i - x i)).

(** the same bound for the executable list-level [sweep]: for every write order (a
    permutation of the nodes), every staleness choice and every start vector with its
    consistent dangling rank, after one sweep the l1 distance from the certified solution
    is at most alpha/(1-alpha) times the l1 change of the sweep, which is what the code
    reports as norm delta.  (f64 rounding is outside the model.) *)
Definition S_error_bound : Prop :=
  forall gt alpha v md order stale xs sol,
  certified gt alpha v md sol = true ->
  Permutation order (seq 0 (length gt)) -> length xs = length gt ->
  let '(xs', _, nrm) := sweep gt alpha v md order stale xs
                              (dangling_rank (length gt) (predf gt) (vecf xs)) in
  (1 - alpha) * l1dist xs' sol <= alpha * nrm.
