(** Proofs of the pinned statements of Flags/Statements.v (C12). *)
From Coq Require Import String Ascii DecimalString ZifyBool ZifyN ZifyNat.
From WG Require Import Base.Prelude Codes.Codes BV.Model BV.RefSel.
From WG Require Import Flags.Props Flags.Statements Flags.PropsStr.
Local Open Scope string_scope.
Local Open Scope N_scope.

(** * Java agreement and the refutation of the pre-repair reading *)

Theorem props_java : S_props_java.
Proof. intros m. reflexivity. Qed.

Theorem props_prefix_refuted : S_props_prefix_refuted.
Proof.
  exists [("zetak", "5")]. vm_compute. discriminate.
Qed.

(** * Codes *)

Lemma code_eqb_eq a b : code_eqb a b = true -> a = b.
Proof.
  destruct a, b; cbn; intros H; try discriminate; try reflexivity;
    apply N.eqb_eq in H; now subst.
Qed.

Lemma code_eqb_refl a : code_eqb a a = true.
Proof. destruct a; cbn; try reflexivity; apply N.eqb_refl. Qed.

Lemma no_char_cons c a s : no_char c (String a s) = negb (Ascii.eqb a c) && no_char c s.
Proof. reflexivity. Qed.

Lemma code_str_chars v c s :
  code_str v c = Some s ->
  no_char "_"%char s = true /\ no_char "|"%char s = true /\ no_char nlc s = true.
Proof.
  unfold code_str. destruct (v =? 0).
  - destruct c; intros [= <-]; repeat split; reflexivity.
  - destruct c as [| | | |k|k]; try (intros [= <-]; repeat split; reflexivity).
    + destruct ((1 <=? k) && (k <=? 7)); [|discriminate]. intros [= <-].
      rewrite ?no_char_app, ?no_char_cons, !show_N_no_char by reflexivity. repeat split; reflexivity.
    + destruct ((1 <=? k) && (k <=? 4)); [|discriminate]. intros [= <-].
      rewrite ?no_char_app, ?no_char_cons, !show_N_no_char by reflexivity. repeat split; reflexivity.
Qed.

Lemma code_of_str_back v c s k :
  code_str v c = Some s ->
  (v = 0 -> forall j, c = Zeta j -> j = k) ->
  code_of_str s k = Some c.
Proof.
  unfold code_str. destruct (v =? 0) eqn:Ev.
  - apply N.eqb_eq in Ev.
    destruct c as [| | | |j|j]; intros [= <-] Hk; try reflexivity.
    rewrite (Hk Ev j eq_refl). reflexivity.
  - destruct c as [| | | |j|j]; try (intros [= <-] _; reflexivity).
    + destruct ((1 <=? j) && (j <=? 7)) eqn:E; [|discriminate]. intros [= <-] _.
      assert (Hj : j = 1 \/ j = 2 \/ j = 3 \/ j = 4 \/ j = 5 \/ j = 6 \/ j = 7) by lia.
      destruct Hj as [-> | [-> | [-> | [-> | [-> | [-> | ->]]]]]]; vm_compute; reflexivity.
    + destruct ((1 <=? j) && (j <=? 4)) eqn:E; [|discriminate]. intros [= <-] _.
      assert (Hj : j = 1 \/ j = 2 \/ j = 3 \/ j = 4) by lia.
      destruct Hj as [-> | [-> | [-> | ->]]]; vm_compute; reflexivity.
Qed.

(** * The component flags *)

Definition part (v : N) (name : string) (emit : bool) (c : code) : option (list string) :=
  if emit then match code_str v c with Some s => Some [(name ++ "_" ++ s)%string] | None => None end
  else Some [].

Lemma flag_parts_eq v cs :
  flag_parts v cs =
  (a <- part v "OUTDEGREES" (negb (code_eqb (cd_outdeg cs) Gamma)) (cd_outdeg cs) ;;
   b <- part v "REFERENCES" (negb (code_eqb (cd_ref cs) Unary)) (cd_ref cs) ;;
   c <- part v "BLOCKS" (negb (code_eqb (cd_block cs) Gamma)) (cd_block cs) ;;
   d <- part v "INTERVALS" (negb (code_eqb (cd_int cs) Gamma)) (cd_int cs) ;;
   e <- part v "RESIDUALS"
         (((v =? 0) && negb (is_zeta (cd_res cs))) || negb (code_eqb (cd_res cs) (Zeta 3)))
         (cd_res cs) ;;
   Some (a ++ b ++ c ++ d ++ e)%list).
Proof. reflexivity. Qed.

Definition flag_ok (p : string) : bool :=
  no_char "|"%char p && no_char nlc p && negb (String.eqb p "").

Lemma part_ok v name emit c l :
  part v name emit c = Some l -> flag_ok name = true -> forallb flag_ok l = true.
Proof.
  unfold part. destruct emit; [|intros [= <-]; reflexivity].
  destruct (code_str v c) as [s|] eqn:Es; [|discriminate]. intros [= <-] Hn.
  destruct (code_str_chars _ _ _ Es) as (_ & Hbar & Hnl).
  unfold flag_ok in *. cbn [forallb].
  apply andb_true_iff in Hn. destruct Hn as [Hn Hne].
  apply andb_true_iff in Hn. destruct Hn as [Hn1 Hn2].
  rewrite ?no_char_app, ?no_char_cons, ?no_char_app, Hn1, Hn2, Hbar, Hnl.
  destruct name; [discriminate|]. reflexivity.
Qed.

Lemma apply_flags_app k cs l1 l2 :
  apply_flags k cs (l1 ++ l2) = (cs' <- apply_flags k cs l1 ;; apply_flags k cs' l2).
Proof.
  revert cs. induction l1 as [|p l1 IH]; intros cs; [reflexivity|].
  cbn [app apply_flags].
  destruct (split_on "_"%char p) as [|name [|cstr ws]]; try reflexivity.
  destruct (code_of_str cstr k) as [c|]; cbn [obind]; [|reflexivity].
  destruct (set_component cs name c) as [cs'|]; cbn [obind]; [|reflexivity].
  apply IH.
Qed.

Lemma apply_part v name emit c l k cs0 cs1 :
  part v name emit c = Some l ->
  no_char "_"%char name = true ->
  (v = 0 -> forall j, c = Zeta j -> j = k) ->
  (if emit then set_component cs0 name c = Some cs1 else cs0 = cs1) ->
  apply_flags k cs0 l = Some cs1.
Proof.
  unfold part. destruct emit.
  - destruct (code_str v c) as [s|] eqn:Es; [|discriminate].
    intros [= <-] Hname Hk Hset. cbn [apply_flags].
    destruct (code_str_chars _ _ _ Es) as (Hus & _ & _).
    change ("_" ++ s)%string with (String "_"%char s).
    rewrite split_on_app by exact Hname.
    rewrite (split_on_no_char _ _ Hus).
    rewrite (code_of_str_back _ _ _ k Es Hk). cbn [obind].
    rewrite Hset. reflexivity.
  - intros [= <-] _ _ ->. reflexivity.
Qed.

Lemma flag_parts_ok v cs parts :
  flag_parts v cs = Some parts -> forallb flag_ok parts = true.
Proof.
  rewrite flag_parts_eq.
  destruct (part v "OUTDEGREES" _ _) as [pa|] eqn:Ea; cbn [obind]; [|discriminate].
  destruct (part v "REFERENCES" _ _) as [pb|] eqn:Eb; cbn [obind]; [|discriminate].
  destruct (part v "BLOCKS" _ _) as [pc|] eqn:Ec; cbn [obind]; [|discriminate].
  destruct (part v "INTERVALS" _ _) as [pd|] eqn:Ed; cbn [obind]; [|discriminate].
  destruct (part v "RESIDUALS" _ _) as [pe|] eqn:Ee; cbn [obind]; [|discriminate].
  intros [= <-]. rewrite !forallb_app.
  rewrite (part_ok _ _ _ _ _ Ea eq_refl), (part_ok _ _ _ _ _ Eb eq_refl),
    (part_ok _ _ _ _ _ Ec eq_refl), (part_ok _ _ _ _ _ Ed eq_refl),
    (part_ok _ _ _ _ _ Ee eq_refl). reflexivity.
Qed.

Lemma flag_parts_read v cs parts k :
  flag_parts v cs = Some parts ->
  (v = 0 -> forall j, In (Zeta j) (all_codes cs) -> j = k) ->
  (v <> 0 -> k = 3) ->
  apply_flags k (default_codes (Zeta k)) parts = Some cs.
Proof.
  rewrite flag_parts_eq. destruct cs as [o r b i z]. unfold all_codes, default_codes.
  cbn [cd_outdeg cd_ref cd_block cd_int cd_res].
  destruct (part v "OUTDEGREES" _ o) as [pa|] eqn:Ea; cbn [obind]; [|discriminate].
  destruct (part v "REFERENCES" _ r) as [pb|] eqn:Eb; cbn [obind]; [|discriminate].
  destruct (part v "BLOCKS" _ b) as [pc|] eqn:Ec; cbn [obind]; [|discriminate].
  destruct (part v "INTERVALS" _ i) as [pd|] eqn:Ed; cbn [obind]; [|discriminate].
  destruct (part v "RESIDUALS" _ z) as [pe|] eqn:Ee; cbn [obind]; [|discriminate].
  intros [= <-] Hk0 Hk1.
  - rewrite apply_flags_app.
    rewrite (apply_part _ _ _ _ _ k _ (mkCodes o Unary Gamma Gamma (Zeta k)) Ea eq_refl).
    2:{ intros Hv j ->. apply (Hk0 Hv). cbn. auto. }
    2:{ destruct (code_eqb o Gamma) eqn:E; cbn [negb]; [|reflexivity].
        apply code_eqb_eq in E. now subst. }
    cbn [obind]. rewrite apply_flags_app.
    rewrite (apply_part _ _ _ _ _ k _ (mkCodes o r Gamma Gamma (Zeta k)) Eb eq_refl).
    2:{ intros Hv j ->. apply (Hk0 Hv). cbn. auto. }
    2:{ destruct (code_eqb r Unary) eqn:E; cbn [negb]; [|reflexivity].
        apply code_eqb_eq in E. now subst. }
    cbn [obind]. rewrite apply_flags_app.
    rewrite (apply_part _ _ _ _ _ k _ (mkCodes o r b Gamma (Zeta k)) Ec eq_refl).
    2:{ intros Hv j ->. apply (Hk0 Hv). cbn. auto. }
    2:{ destruct (code_eqb b Gamma) eqn:E; cbn [negb]; [|reflexivity].
        apply code_eqb_eq in E. now subst. }
    cbn [obind]. rewrite apply_flags_app.
    rewrite (apply_part _ _ _ _ _ k _ (mkCodes o r b i (Zeta k)) Ed eq_refl).
    2:{ intros Hv j ->. apply (Hk0 Hv). cbn. auto 6. }
    2:{ destruct (code_eqb i Gamma) eqn:E; cbn [negb]; [|reflexivity].
        apply code_eqb_eq in E. now subst. }
    cbn [obind].
    apply (apply_part _ _ _ _ _ k _ _ Ee eq_refl).
    + intros Hv j ->. apply (Hk0 Hv). cbn. auto 6.
    + destruct (((v =? 0) && negb (is_zeta z)) || negb (code_eqb z (Zeta 3))) eqn:E;
        [reflexivity|].
      apply orb_false_iff in E. destruct E as [_ E].
      apply negb_false_iff in E. apply code_eqb_eq in E. subst z.
      f_equal. f_equal.
      destruct (N.eq_dec v 0) as [Hv|Hv].
      * symmetry. apply (Hk0 Hv). cbn. auto 6.
      * apply (Hk1 Hv).
Qed.

Lemma flag_ok_forall (P : string -> bool) l :
  (forall p, flag_ok p = true -> P p = true) ->
  forallb flag_ok l = true -> forallb P l = true.
Proof.
  intros HP. induction l as [|p l IH]; [reflexivity|]. cbn [forallb].
  intros H. apply andb_true_iff in H. destruct H as [Hp Hl].
  rewrite (HP _ Hp), (IH Hl). reflexivity.
Qed.

Lemma flag_ok_bar p : flag_ok p = true -> no_char "|"%char p = true.
Proof. unfold flag_ok. intros H. apply andb_true_iff in H. destruct H as [H _].
       apply andb_true_iff in H. tauto. Qed.

Lemma flag_ok_nl p : flag_ok p = true -> no_char nlc p = true.
Proof. unfold flag_ok. intros H. apply andb_true_iff in H. destruct H as [H _].
       apply andb_true_iff in H. tauto. Qed.

Lemma flag_ok_nonempty p : flag_ok p = true -> p <> "".
Proof. unfold flag_ok. intros H. apply andb_true_iff in H. destruct H as [_ H].
       intros ->. discriminate. Qed.

(** reading back the compressionflags value *)
Lemma flags_value_read k d parts :
  forallb flag_ok parts = true ->
  (if String.eqb (join "|" parts) "" then Some d
   else apply_flags k d (split_on "|"%char (join "|" parts)))
  = apply_flags k d parts.
Proof.
  intros Hok. destruct parts as [|p parts]; [reflexivity|].
  assert (Hne : join "|" (p :: parts) <> "").
  { apply join_nonempty. apply flag_ok_nonempty.
    cbn [forallb] in Hok. apply andb_true_iff in Hok. tauto. }
  apply String.eqb_neq in Hne. rewrite Hne.
  change "|"%string with (String "|"%char "").
  rewrite split_join; [reflexivity | discriminate |].
  apply (flag_ok_forall _ _ flag_ok_bar Hok).
Qed.

(** * common_k *)

Lemma common_k_all l : forall k0 r,
  common_k l k0 = Some r ->
  (forall j, In (Zeta j) l -> r = Some j) /\ (forall j, k0 = Some j -> r = Some j).
Proof.
  induction l as [|c l IH]; intros k0 r H; cbn [common_k] in H.
  - injection H as <-. split; [intros j []| auto].
  - destruct c as [| | | |j|j];
      try (destruct (IH _ _ H) as [H1 H2]; split; [intros j' [Hj|Hj]; [discriminate | auto] | exact H2]).
    + destruct k0 as [k0|].
      * destruct (k0 =? j) eqn:E; [|discriminate]. apply N.eqb_eq in E. subst k0.
        destruct (IH _ _ H) as [H1 H2]. split.
        -- intros j' [Hj|Hj]; [injection Hj as <-; auto | auto].
        -- exact H2.
      * destruct (IH _ _ H) as [H1 H2]. split.
        -- intros j' [Hj|Hj]; [injection Hj as <-; auto | auto].
        -- discriminate.
Qed.

Lemma common_k_from l : forall k0 j,
  common_k l k0 = Some (Some j) -> k0 = Some j \/ In (Zeta j) l.
Proof.
  induction l as [|c l IH]; intros k0 j H; cbn [common_k] in H.
  - injection H as ->. auto.
  - destruct c as [| | | |i|i]; try (destruct (IH _ _ H); [auto | right; right; assumption]).
    destruct k0 as [k0|].
    + destruct (k0 =? i) eqn:E; [|discriminate].
      destruct (IH _ _ H) as [Hj|Hj]; [injection Hj as <-; right; left; reflexivity | right; right; exact Hj].
    + destruct (IH _ _ H) as [Hj|Hj]; [injection Hj as <-; right; left; reflexivity | right; right; exact Hj].
Qed.

Definition kdef (ok : option N) : N := match ok with Some k => k | None => 3 end.

Lemma version0 le cs :
  version le cs = 0 -> le = false /\ forallb is_old (all_codes cs) = true.
Proof.
  unfold version. destruct le; cbn [orb]; [discriminate|].
  destruct (forallb is_old (all_codes cs)); cbn [negb]; [auto | discriminate].
Qed.

Lemma version_cases le cs : version le cs = 0 \/ version le cs = 1.
Proof. unfold version. destruct (le || _); auto. Qed.

Lemma version0_kdef le cs ok :
  version le cs = 0 -> common_k (all_codes cs) None = Some ok ->
  (forall j, In (Zeta j) (all_codes cs) -> j = kdef ok)
  /\ (1 <=? kdef ok) && (kdef ok <=? 7) = true.
Proof.
  intros Hv Hc. destruct (version0 _ _ Hv) as [_ Hold]. split.
  - intros j Hj. destruct (common_k_all _ _ _ Hc) as [H1 _].
    rewrite (H1 j Hj). reflexivity.
  - destruct ok as [j|]; [|reflexivity]. cbn [kdef].
    destruct (common_k_from _ _ _ Hc) as [Hj|Hj]; [discriminate|].
    rewrite forallb_forall in Hold. apply (Hold _ Hj).
Qed.

(** * The parsed map *)

Definition pmap (ver e n a l r w len fl : string) (zkm : list (string * string))
  : list (string * string) :=
  [("graphclass", "it.unimi.dsi.webgraph.BVGraph"); ("version", ver); ("endianness", e);
   ("nodes", n); ("arcs", a); ("minintervallength", l); ("maxrefcount", r);
   ("windowsize", w); ("length", len); ("compressionflags", fl)] ++ zkm.

Definition zk_ok (zkm : list (string * string)) (oz : option string) : Prop :=
  match oz with Some z => zkm = [("zetak", z)] | None => zkm = [] end.

Lemma pmap_lookups ver e n a l r w len fl zkm oz :
  zk_ok zkm oz ->
  let m := pmap ver e n a l r w len fl zkm in
  lookup m "version" = Some ver /\ lookup m "endianness" = Some e
  /\ lookup m "nodes" = Some n /\ lookup m "arcs" = Some a
  /\ lookup m "minintervallength" = Some l /\ lookup m "maxrefcount" = Some r
  /\ lookup m "windowsize" = Some w /\ lookup m "length" = Some len
  /\ lookup m "compressionflags" = Some fl /\ lookup m "zetak" = oz.
Proof.
  destruct oz as [z|]; cbn [zk_ok]; intros ->; repeat split; reflexivity.
Qed.

Lemma parse_lines_line_last k v :
  good_key k = true -> no_char nlc v = true -> parse_lines (line k v) = [(k, v)].
Proof.
  intros Hk Hv. rewrite <- (sapp_nil_r (line k v)).
  rewrite parse_lines_line by assumption. reflexivity.
Qed.

Definition zk_of (v : N) (cs : codes) (oz : option string) : Prop :=
  (v = 0 /\ exists ok, common_k (all_codes cs) None = Some ok /\ oz = Some (show_N (kdef ok)))
  \/ (v = 1 /\ oz = None).

Lemma some_inj {A} (a b : A) : Some a = Some b -> a = b.
Proof. congruence. Qed.

Lemma to_props_parse le st f text :
  to_props le st f = Some text ->
  exists parts zkm oz,
    flag_parts (version le (fl_codes f)) (fl_codes f) = Some parts
    /\ zk_of (version le (fl_codes f)) (fl_codes f) oz
    /\ zk_ok zkm oz
    /\ parse_lines text =
       pmap (show_N (version le (fl_codes f))) (if le then "little" else "big")
            (show_N (s_nodes st)) (show_N (s_arcs st)) (show_N (fl_minlen f))
            (show_N (fl_maxref f)) (show_N (fl_window f)) (show_N (s_bits st))
            (join "|" parts) zkm.
Proof.
  unfold to_props. cbv zeta.
  remember (version le (fl_codes f)) as v eqn:Hv.
  destruct (flag_parts v (fl_codes f)) as [parts|] eqn:Ep; cbn [obind]; [|discriminate].
  assert (Hparts : forallb flag_ok parts = true) by (apply (flag_parts_ok _ _ _ Ep)).
  assert (Hjoin : no_char nlc (join "|" parts) = true).
  { apply no_char_join; [reflexivity|]. apply (flag_ok_forall _ _ flag_ok_nl Hparts). }
  assert (Hend : no_char nlc (if le then "little" else "big") = true)
    by (destruct le; reflexivity).
  assert (Hnum : forall n, no_char nlc (show_N n) = true)
    by (intros n; apply show_N_no_char; reflexivity).
  destruct (v =? 0) eqn:Ev.
  - apply N.eqb_eq in Ev.
    destruct (common_k (all_codes (fl_codes f)) None) as [ok|] eqn:Ec; cbn [obind]; [|discriminate].
    intros Heq. apply some_inj in Heq. subst text.
    exists parts, [("zetak", show_N (kdef ok))], (Some (show_N (kdef ok))).
    split; [reflexivity|]. split; [left; split; [exact Ev|]; exists ok; auto|].
    split; [reflexivity|].
    rewrite parse_lines_comment by reflexivity.
    rewrite !parse_lines_line by (reflexivity || assumption || apply Hnum).
    rewrite parse_lines_line_last by (reflexivity || apply Hnum).
    reflexivity.
  - cbn [obind]. intros Heq. apply some_inj in Heq. subst text.
    exists parts, [], None.
    split; [reflexivity|]. split.
    { right. split; [|reflexivity].
      destruct (version_cases le (fl_codes f)) as [H0|H1]; [|congruence].
      rewrite <- Hv in H0. rewrite H0 in Ev. discriminate. }
    split; [reflexivity|].
    rewrite parse_lines_comment by reflexivity.
    rewrite !parse_lines_line by (reflexivity || assumption || apply Hnum).
    rewrite parse_lines_empty. reflexivity.
Qed.

(** * Reading the written map *)

Lemma from_props_written le f parts zkm oz n a len :
  flag_parts (version le (fl_codes f)) (fl_codes f) = Some parts ->
  zk_of (version le (fl_codes f)) (fl_codes f) oz ->
  zk_ok zkm oz ->
  from_props le
    (pmap (show_N (version le (fl_codes f))) (if le then "little" else "big")
          n a (show_N (fl_minlen f)) (show_N (fl_maxref f)) (show_N (fl_window f)) len
          (join "|" parts) zkm) = Some f.
Proof.
  intros Hp Hz Hzk.
  destruct (pmap_lookups (show_N (version le (fl_codes f))) (if le then "little" else "big")
              n a (show_N (fl_minlen f)) (show_N (fl_maxref f)) (show_N (fl_window f)) len
              (join "|" parts) zkm oz Hzk)
    as (Lv & Le & _ & _ & Ll & Lr & Lw & _ & Lf & Lz).
  unfold from_props, from_props_gen.
  rewrite Lv, Le, Ll, Lr, Lw, Lf, Lz. clear Lv Le Ll Lr Lw Lf Lz.
  rewrite String.eqb_refl. cbn [negb].
  rewrite !read_show_N.
  assert (Hver : le && negb (match version le (fl_codes f) with 1 => true | _ => false end) = false).
  { destruct le; [reflexivity | reflexivity]. }
  rewrite Hver. clear Hver.
  destruct Hz as [(Hv0 & ok & Hc & ->) | (Hv1 & ->)].
  - destruct (version0_kdef _ _ _ Hv0 Hc) as [Hall Hrange].
    rewrite read_show_N, Hrange. cbn [obind].
    rewrite flags_value_read by (apply (flag_parts_ok _ _ _ Hp)).
    rewrite (flag_parts_read _ _ _ (kdef ok) Hp).
    + cbn [obind]. destruct f; reflexivity.
    + intros _. exact Hall.
    + intros Hne. congruence.
  - cbn [obind].
    rewrite flags_value_read by (apply (flag_parts_ok _ _ _ Hp)).
    rewrite (flag_parts_read _ _ _ 3 Hp).
    + cbn [obind]. destruct f; reflexivity.
    + intros H0. rewrite Hv1 in H0. discriminate.
    + reflexivity.
Qed.

Theorem props_roundtrip : S_props_roundtrip.
Proof.
  intros le st f text H.
  destruct (to_props_parse _ _ _ _ H) as (parts & zkm & oz & Hp & Hz & Hzk & Hm).
  unfold parse_properties, props_length. rewrite Hm.
  destruct (pmap_lookups (show_N (version le (fl_codes f))) (if le then "little" else "big")
              (show_N (s_nodes st)) (show_N (s_arcs st))
              (show_N (fl_minlen f)) (show_N (fl_maxref f)) (show_N (fl_window f))
              (show_N (s_bits st)) (join "|" parts) zkm oz Hzk)
    as (_ & _ & Ln & La & _ & _ & _ & Llen & _ & _).
  rewrite Ln, La, Llen, !read_show_N. cbn [obind].
  rewrite (from_props_written _ _ _ _ _ _ _ _ Hp Hz Hzk). cbn [obind].
  split; reflexivity.
Qed.

Theorem props_endianness : S_props_endianness.
Proof.
  intros le st f text H.
  destruct (to_props_parse _ _ _ _ H) as (parts & zkm & oz & Hp & Hz & Hzk & Hm).
  unfold parse_properties. rewrite Hm.
  destruct (pmap_lookups (show_N (version le (fl_codes f))) (if le then "little" else "big")
              (show_N (s_nodes st)) (show_N (s_arcs st))
              (show_N (fl_minlen f)) (show_N (fl_maxref f)) (show_N (fl_window f))
              (show_N (s_bits st)) (join "|" parts) zkm oz Hzk)
    as (_ & Le & Ln & La & _).
  rewrite Ln, La, !read_show_N. cbn [obind].
  unfold from_props, from_props_gen. rewrite Le.
  destruct le; reflexivity.
Qed.

(** * Refusal *)

Definition isSome {A} (o : option A) : bool := match o with Some _ => true | None => false end.

Lemma code_str1_some c : isSome (code_str 1 c) = nameable c.
Proof.
  unfold code_str. change (1 =? 0) with false. cbv iota.
  destruct c as [| | | |k|k]; try reflexivity; cbn [nameable];
    destruct (_ && _); reflexivity.
Qed.

Lemma old_nameable c : is_old c = true -> nameable c = true.
Proof. destruct c; cbn; intros H; try discriminate; auto. Qed.

Lemma part_some1 name c d :
  nameable d = true -> isSome (part 1 name (negb (code_eqb c d)) c) = nameable c.
Proof.
  intros Hd. unfold part. destruct (code_eqb c d) eqn:E; cbn [negb].
  - apply code_eqb_eq in E. subst c. rewrite Hd. reflexivity.
  - rewrite <- code_str1_some. destruct (code_str 1 c); reflexivity.
Qed.

Lemma part_some0 name emit c : is_old c = true -> isSome (part 0 name emit c) = true.
Proof.
  unfold part. destruct emit; [|reflexivity].
  destruct c; cbn [is_old]; intros H; try discriminate; reflexivity.
Qed.

Lemma flag_parts_some v cs :
  isSome (flag_parts v cs) =
  isSome (part v "OUTDEGREES" (negb (code_eqb (cd_outdeg cs) Gamma)) (cd_outdeg cs))
  && (isSome (part v "REFERENCES" (negb (code_eqb (cd_ref cs) Unary)) (cd_ref cs))
  && (isSome (part v "BLOCKS" (negb (code_eqb (cd_block cs) Gamma)) (cd_block cs))
  && (isSome (part v "INTERVALS" (negb (code_eqb (cd_int cs) Gamma)) (cd_int cs))
  && (isSome (part v "RESIDUALS"
         (((v =? 0) && negb (is_zeta (cd_res cs))) || negb (code_eqb (cd_res cs) (Zeta 3)))
         (cd_res cs)) && true)))).
Proof.
  rewrite flag_parts_eq.
  destruct (part v "OUTDEGREES" _ _); cbn [obind isSome andb]; [|reflexivity].
  destruct (part v "REFERENCES" _ _); cbn [obind isSome andb]; [|reflexivity].
  destruct (part v "BLOCKS" _ _); cbn [obind isSome andb]; [|reflexivity].
  destruct (part v "INTERVALS" _ _); cbn [obind isSome andb]; [|reflexivity].
  destruct (part v "RESIDUALS" _ _); reflexivity.
Qed.

Lemma flag_parts_nameable le cs :
  isSome (flag_parts (version le cs) cs) = forallb nameable (all_codes cs).
Proof.
  rewrite flag_parts_some. destruct (version_cases le cs) as [H0|H1].
  - destruct (version0 _ _ H0) as [_ Hold]. rewrite H0.
    unfold all_codes in *. cbn [forallb] in *.
    repeat (apply andb_true_iff in Hold; destruct Hold as [? Hold]).
    rewrite !part_some0, !old_nameable by assumption. reflexivity.
  - rewrite H1. change (1 =? 0) with false. cbn [andb orb].
    rewrite !part_some1 by reflexivity. reflexivity.
Qed.

Lemma to_props_some le st f :
  isSome (to_props le st f) = representable le (fl_codes f).
Proof.
  unfold representable. rewrite <- (flag_parts_nameable le).
  unfold to_props. cbv zeta.
  destruct (flag_parts _ _); cbn [obind isSome andb]; [|reflexivity].
  destruct (version le (fl_codes f) =? 0); [|reflexivity].
  destruct (common_k _ _); reflexivity.
Qed.

Theorem props_refusal : S_props_refusal.
Proof.
  intros le st f. rewrite <- (to_props_some le st f).
  destruct (to_props le st f); cbn [isSome]; split; congruence.
Qed.

Print Assumptions props_roundtrip.
Print Assumptions props_refusal.
Print Assumptions props_endianness.
Print Assumptions props_java.
Print Assumptions props_prefix_refuted.
