(** The .properties file of a BV graph ([CompFlags::to_properties] / [from_properties] of
    comp/flags.rs and [parse_properties] of load.rs) on Coq strings.  Float-valued,
    informational keys (avgref, avgdist, bitsperlink, bitspernode, compratio) are not part
    of the model; the correspondence check drops them from the implementation's text.
    Definitions only. *)
From Coq Require Import String Ascii DecimalString.
From WG Require Import Base.Prelude Codes.Codes BV.Model BV.RefSel.
Local Open Scope string_scope.
Local Open Scope N_scope.

Record stats := mkStats { s_nodes : N; s_arcs : N; s_bits : N }.
(** [fl_maxref] is the raw [usize] (unbounded = 2^64-1). *)
Record flags := mkFlags { fl_codes : codes; fl_window : N; fl_maxref : N; fl_minlen : N }.

Definition show_N (n : N) : string := NilZero.string_of_uint (N.to_uint n).
Definition read_N (s : string) : option N :=
  match NilZero.uint_of_string s with Some u => Some (N.of_uint u) | None => None end.

Definition is_zeta (c : code) : bool := match c with Zeta _ => true | _ => false end.

(** OLD_CODES of flags.rs *)
Definition is_old (c : code) : bool :=
  match c with
  | Unary | Gamma | Delta => true
  | Zeta k => (1 <=? k) && (k <=? 7)
  | _ => false
  end.

Definition all_codes (cs : codes) : list code :=
  [cd_outdeg cs; cd_ref cs; cd_block cs; cd_int cs; cd_res cs].

Definition version (le : bool) (cs : codes) : N :=
  if le || negb (forallb is_old (all_codes cs)) then 1 else 0.

Definition code_str (v : N) (c : code) : option string :=
  if v =? 0 then
    match c with
    | Unary => Some "UNARY" | Gamma => Some "GAMMA" | Delta => Some "DELTA"
    | Omega => Some "OMEGA" | Zeta _ => Some "ZETA" | _ => None
    end
  else
    match c with
    | Unary => Some "UNARY" | Gamma => Some "GAMMA" | Delta => Some "DELTA"
    | Omega => Some "OMEGA"
    | Zeta k => if (1 <=? k) && (k <=? 7) then Some ("ZETA" ++ show_N k)%string else None
    | Pi k => if (1 <=? k) && (k <=? 4) then Some ("PI" ++ show_N k)%string else None
    end.

(** the component flags, in the order they are written; [None] = code not expressible *)
Definition flag_parts (v : N) (cs : codes) : option (list string) :=
  let part (name : string) (emit : bool) (c : code) : option (list string) :=
    if emit then match code_str v c with Some s => Some [(name ++ "_" ++ s)%string] | None => None end
    else Some [] in
  a <- part "OUTDEGREES" (negb (code_eqb (cd_outdeg cs) Gamma)) (cd_outdeg cs) ;;
  b <- part "REFERENCES" (negb (code_eqb (cd_ref cs) Unary)) (cd_ref cs) ;;
  c <- part "BLOCKS" (negb (code_eqb (cd_block cs) Gamma)) (cd_block cs) ;;
  d <- part "INTERVALS" (negb (code_eqb (cd_int cs) Gamma)) (cd_int cs) ;;
  e <- part "RESIDUALS"
        (((v =? 0) && negb (is_zeta (cd_res cs))) || negb (code_eqb (cd_res cs) (Zeta 3)))
        (cd_res cs) ;;
  Some (a ++ b ++ c ++ d ++ e)%list.

(** version 0: all ζ codes must share one k; returns that k (default 3) *)
Fixpoint common_k (l : list code) (k : option N) : option (option N) :=
  match l with
  | [] => Some k
  | Zeta j :: l' =>
      match k with
      | Some k0 => if k0 =? j then common_k l' (Some j) else None
      | None => common_k l' (Some j)
      end
  | _ :: l' => common_k l' k
  end.

Fixpoint join (sep : string) (l : list string) : string :=
  match l with
  | [] => ""
  | [s] => s
  | s :: l' => (s ++ sep ++ join sep l')%string
  end.

Definition nl : string := String (ascii_of_nat 10) EmptyString.

Definition line (k v : string) : string := (k ++ "=" ++ v ++ nl)%string.

Definition to_props (le : bool) (st : stats) (f : flags) : option string :=
  let cs := fl_codes f in
  let v := version le cs in
  parts <- flag_parts v cs ;;
  zk <- (if v =? 0
         then match common_k (all_codes cs) None with
              | Some k => Some (line "zetak" (show_N (match k with Some k => k | None => 3 end)))
              | None => None
              end
         else Some "") ;;
  Some (("#BVGraph properties" ++ nl)
        ++ line "graphclass" "it.unimi.dsi.webgraph.BVGraph"
        ++ line "version" (show_N v)
        ++ line "endianness" (if le then "little" else "big")
        ++ line "nodes" (show_N (s_nodes st))
        ++ line "arcs" (show_N (s_arcs st))
        ++ line "minintervallength" (show_N (fl_minlen f))
        ++ line "maxrefcount" (show_N (fl_maxref f))
        ++ line "windowsize" (show_N (fl_window f))
        ++ line "length" (show_N (s_bits st))
        ++ line "compressionflags" (join "|" parts)
        ++ zk)%string.

(** * Reading *)

(** split at every occurrence of [c] *)
Fixpoint split_on (c : ascii) (s : string) : list string :=
  match s with
  | EmptyString => [EmptyString]
  | String a s' =>
      if Ascii.eqb a c then EmptyString :: split_on c s'
      else match split_on c s' with
           | [] => [String a EmptyString]
           | w :: ws => String a w :: ws
           end
  end.

(** split at the first occurrence of [c] *)
Fixpoint split_first (c : ascii) (s : string) : option (string * string) :=
  match s with
  | EmptyString => None
  | String a s' =>
      if Ascii.eqb a c then Some (EmptyString, s')
      else match split_first c s' with
           | Some (k, v) => Some (String a k, v)
           | None => None
           end
  end.

Definition parse_lines (s : string) : list (string * string) :=
  flat_map (fun l =>
    match l with
    | EmptyString => []
    | String a _ =>
        if Ascii.eqb a "#"%char then []
        else match split_first "="%char l with Some kv => [kv] | None => [] end
    end) (split_on (ascii_of_nat 10) s).

(** later bindings win, as in a hash map filled in file order *)
Fixpoint lookup (m : list (string * string)) (k : string) : option string :=
  match m with
  | [] => None
  | (k', v) :: m' =>
      match lookup m' k with
      | Some v' => Some v'
      | None => if String.eqb k k' then Some v else None
      end
  end.

Definition code_of_str (s : string) (k : N) : option code :=
  if String.eqb s "UNARY" then Some Unary
  else if String.eqb s "GAMMA" then Some Gamma
  else if String.eqb s "DELTA" then Some Delta
  else if String.eqb s "ZETA" then Some (Zeta k)
  else if String.eqb s "OMEGA" then Some Omega
  else if String.eqb s "PI1" then Some (Pi 1)
  else if String.eqb s "PI2" then Some (Pi 2)
  else if String.eqb s "PI3" then Some (Pi 3)
  else if String.eqb s "PI4" then Some (Pi 4)
  else if String.eqb s "ZETA1" then Some (Zeta 1)
  else if String.eqb s "ZETA2" then Some (Zeta 2)
  else if String.eqb s "ZETA3" then Some (Zeta 3)
  else if String.eqb s "ZETA4" then Some (Zeta 4)
  else if String.eqb s "ZETA5" then Some (Zeta 5)
  else if String.eqb s "ZETA6" then Some (Zeta 6)
  else if String.eqb s "ZETA7" then Some (Zeta 7)
  else None.

Definition set_component (cs : codes) (name : string) (c : code) : option codes :=
  if String.eqb name "OUTDEGREES" then Some (mkCodes c (cd_ref cs) (cd_block cs) (cd_int cs) (cd_res cs))
  else if String.eqb name "REFERENCES" then Some (mkCodes (cd_outdeg cs) c (cd_block cs) (cd_int cs) (cd_res cs))
  else if String.eqb name "BLOCKS" then Some (mkCodes (cd_outdeg cs) (cd_ref cs) c (cd_int cs) (cd_res cs))
  else if String.eqb name "INTERVALS" then Some (mkCodes (cd_outdeg cs) (cd_ref cs) (cd_block cs) c (cd_res cs))
  else if String.eqb name "RESIDUALS" then Some (mkCodes (cd_outdeg cs) (cd_ref cs) (cd_block cs) (cd_int cs) c)
  else if String.eqb name "OFFSETS" then (if code_eqb c Gamma then Some cs else None)
  else None.

Fixpoint apply_flags (k : N) (cs : codes) (fl : list string) : option codes :=
  match fl with
  | [] => Some cs
  | f :: fl' =>
      match split_on "_"%char f with
      | name :: cstr :: _ =>
          c <- code_of_str cstr k ;;
          cs' <- set_component cs name c ;;
          apply_flags k cs' fl'
      | _ => None
      end
  end.

Definition default_codes (res : code) : codes := mkCodes Gamma Unary Gamma Gamma res.

(** [zeta_default]: what the residual code defaults to, given the file's zetak.  The
    implementation (after the repair of the zetak defect) and Java both use [Zeta k]. *)
Definition from_props_gen (zeta_default : N -> code) (le : bool) (m : list (string * string))
  : option flags :=
  let endian := match lookup m "endianness" with Some e => e | None => "big" end in
  if negb (String.eqb endian (if le then "little" else "big")) then None else
  if le && negb (match lookup m "version" with
                 | Some v => match read_N v with Some 1 => true | _ => false end
                 | None => false end) then None else
  k <- (match lookup m "zetak" with
        | Some s => match read_N s with
                    | Some k => if (1 <=? k) && (k <=? 7) then Some k else None
                    | None => None end
        | None => Some 3 end) ;;
  cs <- (match lookup m "compressionflags" with
         | Some fl => if String.eqb fl "" then Some (default_codes (zeta_default k))
                      else apply_flags k (default_codes (zeta_default k)) (split_on "|"%char fl)
         | None => Some (default_codes (zeta_default k)) end) ;;
  w <- (match lookup m "windowsize" with Some s => read_N s | None => Some 7 end) ;;
  l <- (match lookup m "minintervallength" with Some s => read_N s | None => Some 4 end) ;;
  r <- (match lookup m "maxrefcount" with Some s => read_N s | None => Some 3 end) ;;
  Some (mkFlags cs w r l).

Definition from_props := from_props_gen (fun k => Zeta k).

(** [parse_properties]: nodes, arcs and the flags *)
Definition parse_properties (le : bool) (text : string) : option (N * N * flags) :=
  let m := parse_lines text in
  n <- (match lookup m "nodes" with Some s => read_N s | None => None end) ;;
  a <- (match lookup m "arcs" with Some s => read_N s | None => None end) ;;
  f <- from_props le m ;;
  Some (n, a, f).

Definition props_length (text : string) : option N :=
  match lookup (parse_lines text) "length" with Some s => read_N s | None => None end.

(** * Specification side *)

(** a code assignment the file format can express for the given endianness *)
Definition representable (le : bool) (cs : codes) : bool :=
  forallb nameable (all_codes cs)
  && (if version le cs =? 0
      then match common_k (all_codes cs) None with Some _ => true | None => false end
      else true).

(** Java's reading of a version-0 file: every ζ, including the default residual code,
    uses the file's zetak. *)
Definition java_from_props (m : list (string * string)) : option flags :=
  from_props_gen (fun k => Zeta k) false m.

(** the reading that ignores zetak for the default residual code (the code before the
    repair), kept to state the refutation *)
Definition from_props_prefix := from_props_gen (fun _ => Zeta 3).
