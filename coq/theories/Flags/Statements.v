(** Pinned statements about the properties file (C12).  Statements only. *)
From Coq Require Import String.
From WG Require Import Base.Prelude Codes.Codes BV.Model BV.RefSel Flags.Props.
Local Open Scope N_scope.

(** Whatever is written parses back to exactly the node count, arc count, bit length,
    window, max ref count, min interval length and the five codes — for every window,
    ref count, interval length (unbounded), both endiannesses, every code assignment that
    is accepted. *)
Definition S_props_roundtrip : Prop := forall le st f text,
  to_props le st f = Some text ->
  parse_properties le text = Some (s_nodes st, s_arcs st, f)
  /\ props_length text = Some (s_bits st).

(** A configuration is refused exactly when the format cannot express it. *)
Definition S_props_refusal : Prop := forall le st f,
  to_props le st f = None <-> representable le (fl_codes f) = false.

(** A text written for one endianness is rejected when read with the other. *)
Definition S_props_endianness : Prop := forall le st f text,
  to_props le st f = Some text -> parse_properties (negb le) text = None.

(** Java semantics for version-0 files: the reading agrees with Java's on every map. *)
Definition S_props_java : Prop := forall m, from_props false m = java_from_props m.

(** The reading that ignores zetak for the default residual code (the implementation
    before the repair) disagrees with Java: zetak=5 and no flags. *)
Definition S_props_prefix_refuted : Prop :=
  exists m, from_props_prefix false m <> java_from_props m.
