(** String-level facts used by Flags/PropsFacts.v: characters of a string, splitting,
    decimal printing and reading, line parsing. *)
From Coq Require Import String Ascii DecimalString DecimalN DecimalPos DecimalFacts.
From WG Require Import Base.Prelude Codes.Codes BV.Model BV.RefSel Flags.Props.
Local Open Scope string_scope.
Local Open Scope N_scope.

(** * Append *)

Lemma sapp_assoc (a b c : string) : ((a ++ b) ++ c = a ++ (b ++ c))%string.
Proof. induction a as [|x a IH]; cbn; [reflexivity | now rewrite IH]. Qed.

Lemma sapp_nil_r (a : string) : (a ++ "" = a)%string.
Proof. induction a as [|x a IH]; cbn; [reflexivity | now rewrite IH]. Qed.

(** * Characters of a string *)

Fixpoint all_chars (P : ascii -> bool) (s : string) : bool :=
  match s with
  | EmptyString => true
  | String a s' => P a && all_chars P s'
  end.

Definition no_char (c : ascii) (s : string) : bool :=
  all_chars (fun a => negb (Ascii.eqb a c)) s.

Lemma all_chars_app P a b :
  all_chars P (a ++ b) = all_chars P a && all_chars P b.
Proof.
  induction a as [|x a IH]; cbn; [reflexivity|]. rewrite IH. now rewrite andb_assoc.
Qed.

Lemma no_char_app c a b : no_char c (a ++ b) = no_char c a && no_char c b.
Proof. apply all_chars_app. Qed.

Lemma all_chars_impl (P Q : ascii -> bool) s :
  (forall a, P a = true -> Q a = true) -> all_chars P s = true -> all_chars Q s = true.
Proof.
  intros HPQ. induction s as [|x s IH]; cbn; [reflexivity|].
  intros H. apply andb_true_iff in H. destruct H as [Hx Hs].
  rewrite (HPQ _ Hx), (IH Hs). reflexivity.
Qed.

Definition is_digit (a : ascii) : bool :=
  (Ascii.eqb a "0" || Ascii.eqb a "1" || Ascii.eqb a "2" || Ascii.eqb a "3"
   || Ascii.eqb a "4" || Ascii.eqb a "5" || Ascii.eqb a "6" || Ascii.eqb a "7"
   || Ascii.eqb a "8" || Ascii.eqb a "9")%char.

Definition digits_only (s : string) : bool := all_chars is_digit s.

Lemma digits_no_char c s :
  is_digit c = false -> digits_only s = true -> no_char c s = true.
Proof.
  intros Hc. apply all_chars_impl. intros a Ha.
  destruct (Ascii.eqb a c) eqn:E; [|reflexivity].
  apply Ascii.eqb_eq in E. subst a. congruence.
Qed.

(** * Splitting *)

Lemma split_on_no_char c a : no_char c a = true -> split_on c a = [a].
Proof.
  induction a as [|x a IH]; cbn; [reflexivity|].
  intros H. apply andb_true_iff in H. destruct H as [Hx Ha].
  apply negb_true_iff in Hx. rewrite Hx, (IH Ha). reflexivity.
Qed.

Lemma split_on_app c a b :
  no_char c a = true -> split_on c (a ++ String c b) = a :: split_on c b.
Proof.
  induction a as [|x a IH]; cbn.
  - intros _. now rewrite Ascii.eqb_refl.
  - intros H. apply andb_true_iff in H. destruct H as [Hx Ha].
    apply negb_true_iff in Hx. rewrite Hx, (IH Ha). reflexivity.
Qed.

Lemma split_first_app c a b :
  no_char c a = true -> split_first c (a ++ String c b) = Some (a, b).
Proof.
  induction a as [|x a IH]; cbn.
  - intros _. now rewrite Ascii.eqb_refl.
  - intros H. apply andb_true_iff in H. destruct H as [Hx Ha].
    apply negb_true_iff in Hx. rewrite Hx, (IH Ha). reflexivity.
Qed.

(** * Numbers *)

Lemma read_show_N n : read_N (show_N n) = Some n.
Proof.
  unfold read_N, show_N.
  rewrite NilZero.usu.
  - now rewrite DecimalN.Unsigned.of_to.
  - destruct n as [|p]; cbn; [discriminate | apply DecimalPos.Unsigned.to_uint_nonnil].
Qed.

Lemma digits_nilempty d : digits_only (NilEmpty.string_of_uint d) = true.
Proof. induction d; cbn; auto. Qed.

Lemma digits_show_N n : digits_only (show_N n) = true.
Proof.
  unfold show_N, NilZero.string_of_uint.
  destruct (N.to_uint n) eqn:E; try (rewrite <- E); try apply digits_nilempty.
  reflexivity.
Qed.

Lemma show_N_nonempty n : show_N n <> "".
Proof.
  unfold show_N, NilZero.string_of_uint.
  destruct (N.to_uint n); cbn; discriminate.
Qed.

Lemma show_N_no_char c n : is_digit c = false -> no_char c (show_N n) = true.
Proof. intros Hc. apply digits_no_char; [exact Hc | apply digits_show_N]. Qed.

(** * Lines *)

Definition nlc : ascii := ascii_of_nat 10.

Lemma nl_eq : nl = String nlc "".
Proof. reflexivity. Qed.

Definition line_fn (l : string) : list (string * string) :=
  match l with
  | EmptyString => []
  | String a _ =>
      if Ascii.eqb a "#"%char then []
      else match split_first "="%char l with Some kv => [kv] | None => [] end
  end.

Lemma parse_lines_eq s : parse_lines s = flat_map line_fn (split_on nlc s).
Proof. reflexivity. Qed.

Lemma parse_lines_empty : parse_lines "" = [].
Proof. reflexivity. Qed.

(** a key: non-empty, does not start with '#', no '=' and no newline *)
Definition good_key (k : string) : bool :=
  match k with
  | EmptyString => false
  | String a _ => negb (Ascii.eqb a "#"%char)
  end && no_char "="%char k && no_char nlc k.

Lemma line_shape k v rest :
  (line k v ++ rest = (k ++ String "="%char v) ++ String nlc rest)%string.
Proof.
  unfold line. rewrite nl_eq.
  rewrite !sapp_assoc. cbn. rewrite ?sapp_assoc. reflexivity.
Qed.

Lemma parse_lines_line k v rest :
  good_key k = true -> no_char nlc v = true ->
  parse_lines (line k v ++ rest) = (k, v) :: parse_lines rest.
Proof.
  intros Hk Hv. unfold good_key in Hk.
  apply andb_true_iff in Hk. destruct Hk as [Hk Hknl].
  apply andb_true_iff in Hk. destruct Hk as [Hk0 Hkeq].
  rewrite line_shape, !parse_lines_eq.
  rewrite split_on_app.
  2:{ rewrite no_char_app, Hknl. cbn. exact Hv. }
  cbn [flat_map]. f_equal.
  destruct k as [|a k']; [discriminate|].
  unfold line_fn. cbn [append]. apply negb_true_iff in Hk0. rewrite Hk0.
  change (String a (k' ++ String "="%char v))%string with (String a k' ++ String "="%char v)%string.
  rewrite split_first_app by exact Hkeq. reflexivity.
Qed.

Lemma parse_lines_comment c rest :
  no_char nlc c = true ->
  parse_lines ((String "#"%char c ++ nl) ++ rest) = parse_lines rest.
Proof.
  intros Hc. rewrite nl_eq, sapp_assoc. cbn [append].
  change (String "#"%char (c ++ String nlc rest))%string
    with (String "#"%char c ++ String nlc rest)%string.
  rewrite !parse_lines_eq, split_on_app.
  - reflexivity.
  - exact Hc.
Qed.

(** * Joining *)

Lemma join_cons sep a b l : join sep (a :: b :: l) = (a ++ sep ++ join sep (b :: l))%string.
Proof. reflexivity. Qed.

Lemma no_char_join c sep l :
  no_char c sep = true -> forallb (no_char c) l = true -> no_char c (join sep l) = true.
Proof.
  intros Hsep. induction l as [|a l IH]; [reflexivity|].
  intros H. cbn [forallb] in H. apply andb_true_iff in H. destruct H as [Ha Hl].
  destruct l as [|b l]; [exact Ha|].
  rewrite join_cons, !no_char_app, Ha, Hsep, (IH Hl). reflexivity.
Qed.

Lemma split_join c l :
  l <> [] -> forallb (no_char c) l = true ->
  split_on c (join (String c "") l) = l.
Proof.
  induction l as [|a l IH]; [congruence|].
  intros _ H. cbn [forallb] in H. apply andb_true_iff in H. destruct H as [Ha Hl].
  destruct l as [|b l].
  - cbn [join]. now apply split_on_no_char.
  - rewrite join_cons. cbn [append].
    rewrite split_on_app by exact Ha. f_equal. apply IH; [discriminate | exact Hl].
Qed.

Lemma join_nonempty sep a l : a <> "" -> join sep (a :: l) <> "".
Proof.
  intros Ha. destruct l as [|b l]; [exact Ha|].
  rewrite join_cons. destruct a; [congruence | discriminate].
Qed.

(** * Lookup in a map *)

Lemma lookup_cons k v m k' :
  lookup ((k, v) :: m) k' =
  match lookup m k' with Some v' => Some v' | None => if String.eqb k' k then Some v else None end.
Proof. reflexivity. Qed.
