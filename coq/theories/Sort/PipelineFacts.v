(** The whole sort: for every split, capacity, admissible batch sort, codec and tie-break
    the partitions are the specified ones. *)
From WG Require Import Base.Prelude Sort.Pipeline Sort.Statements Sort.OrderFacts
  Sort.SortedFacts Sort.CodecFacts Sort.KMergeFacts Sort.ProducerFacts.
From Coq Require Import ZifyBool ZifyN ZifyNat.
Local Open Scope N_scope.

(** * Lists *)
Lemma perm_concat_map_in {A B} (g h : B -> list A) (l : list B) :
  (forall i, In i l -> Permutation (g i) (h i)) ->
  Permutation (concat (map g l)) (concat (map h l)).
Proof.
  induction l as [|i l IH]; intros H; cbn [map concat]; [constructor|].
  apply Permutation_app; [apply H; left; reflexivity|].
  apply IH. intros j Hj. apply H. right. exact Hj.
Qed.

Lemma perm_concat_map_id {A} (f : list A -> list A) (B : list (list A)) :
  (forall b, Permutation (f b) b) -> Permutation (concat (map f B)) (concat B).
Proof.
  intros H. induction B as [|b B IH]; cbn [map concat]; [constructor|].
  apply Permutation_app; [apply H|exact IH].
Qed.

Lemma filter_all {A} (P : A -> bool) (l : list A) :
  (forall x, In x l -> P x = true) -> filter P l = l.
Proof.
  induction l as [|x l IH]; intros H; cbn [filter]; [reflexivity|].
  rewrite (H x (or_introl eq_refl)). f_equal. apply IH. intros y Hy. apply H. right. exact Hy.
Qed.

Lemma filter_none {A} (P : A -> bool) (l : list A) :
  (forall x, P x = false) -> filter P l = [].
Proof.
  intros H. induction l as [|x l IH]; cbn [filter]; [reflexivity|]. rewrite H. exact IH.
Qed.

Lemma filter_split_perm {A} (P Q R : A -> bool) (l : list A) :
  (forall x, R x = P x || Q x) -> (forall x, P x && Q x = false) ->
  Permutation (filter P l ++ filter Q l) (filter R l).
Proof.
  intros HR HPQ. induction l as [|x l IH]; cbn [filter app]; [constructor|].
  specialize (HR x). specialize (HPQ x).
  destruct (P x) eqn:EP, (Q x) eqn:EQ; cbn [orb andb] in HR, HPQ; rewrite HR; try discriminate.
  - cbn [app]. constructor. exact IH.
  - apply Permutation_sym. apply Permutation_cons_app. apply Permutation_sym. exact IH.
  - exact IH.
Qed.

Lemma partition_perm {A} (f : A -> nat) (l : list A) (p : nat) :
  Permutation (concat (map (fun i => filter (fun x => Nat.eqb i (f x)) l) (seq 0 p)))
              (filter (fun x => Nat.ltb (f x) p) l).
Proof.
  induction p as [|p IH].
  - cbn [seq map concat]. rewrite filter_none by (intros x; apply Nat.ltb_ge; lia). constructor.
  - rewrite seq_S, map_app, concat_app. cbn [Nat.add map concat]. rewrite app_nil_r.
    eapply perm_trans; [apply Permutation_app_tail; exact IH|].
    apply filter_split_perm; intros x.
    + destruct (Nat.ltb_spec (f x) (S p)), (Nat.ltb_spec (f x) p), (Nat.eqb_spec p (f x));
        cbn [orb]; try reflexivity; lia.
    + destruct (Nat.ltb_spec (f x) p), (Nat.eqb_spec p (f x)); cbn [andb]; try reflexivity; lia.
Qed.

Lemma ssorted_app {A} (R : A -> A -> Prop) (l1 l2 : list A) :
  StronglySorted R l1 -> StronglySorted R l2 ->
  (forall x y, In x l1 -> In y l2 -> R x y) -> StronglySorted R (l1 ++ l2).
Proof.
  intros H1 H2 H. induction l1 as [|a l1 IH]; cbn [app]; [exact H2|].
  apply StronglySorted_inv in H1. destruct H1 as [Hs Ha]. constructor.
  - apply IH; [exact Hs|]. intros x y Hx Hy. apply H; [right; exact Hx|exact Hy].
  - apply Forall_app. split; [exact Ha|].
    apply Forall_forall. intros y Hy. apply H; [left; reflexivity|exact Hy].
Qed.

Lemma ssorted_concat_seq {A} (R : A -> A -> Prop) (g : nat -> list A) (k : nat) : forall a,
  (forall i, StronglySorted R (g i)) ->
  (forall i j x y, (a <= i)%nat -> (i < j)%nat -> (j < a + k)%nat ->
                   In x (g i) -> In y (g j) -> R x y) ->
  StronglySorted R (concat (map g (seq a k))).
Proof.
  induction k as [|k IH]; intros a Hs Hc; cbn [seq map concat]; [constructor|].
  apply ssorted_app; [apply Hs| |].
  - apply IH; [exact Hs|]. intros i j x y Hi Hij Hj. apply Hc; lia.
  - intros x y Hx Hy. apply in_concat in Hy. destruct Hy as [l [Hl Hy]].
    apply in_map_iff in Hl. destruct Hl as [j [<- Hj]]. apply in_seq in Hj.
    apply (Hc a j); try lia; assumption.
Qed.

Lemma nth_map_seq {A} (g : nat -> list A) (p i : nat) :
  (i < p)%nat -> nth i (map g (seq 0 p)) [] = g i.
Proof.
  intros Hi. rewrite (nth_indep _ [] (g O)) by (rewrite map_length, seq_length; exact Hi).
  rewrite map_nth. rewrite seq_nth by exact Hi. reflexivity.
Qed.

(** * Partitions cover the valid keys, in order *)
Lemma parts_perm {A} (key : A -> skey) (n : N) (p : nat) (l : list A) :
  (0 < p)%nat -> (forall x, In x l -> fst (key x) < n) ->
  Permutation (concat (map (fun i => filter (fun x => in_part n p i (key x)) l) (seq 0 p))) l.
Proof.
  intros Hp Hv.
  rewrite (map_ext_in _ (fun i => filter (fun x => Nat.eqb i (part_id n p (fst (key x)))) l)).
  - eapply perm_trans; [apply partition_perm|].
    rewrite filter_all; [apply Permutation_refl|].
    intros x Hx. apply Nat.ltb_lt. apply part_id_range; [exact Hp|apply Hv; exact Hx].
  - intros i Hi. apply in_seq in Hi. apply filter_ext_in. intros x Hx.
    apply in_part_unique; [exact Hp|apply Hv; exact Hx|lia].
Qed.

Lemma part_id_lt (n : N) (p : nat) (a b : N) :
  (part_id n p a < part_id n p b)%nat -> a < b.
Proof.
  unfold part_id. intros H.
  destruct (N.lt_ge_cases a b) as [Hlt|Hge]; [exact Hlt|exfalso].
  destruct (N.eq_dec (nodes_per_part n p) 0) as [E|E].
  - rewrite E in H. destruct a, b; cbn in H; lia.
  - pose proof (N.div_le_mono b a (nodes_per_part n p) E Hge). lia.
Qed.

Lemma concat_filter_parts (n : N) (p : nat) (X : list skey) :
  (0 < p)%nat -> ksorted X -> (forall x, In x X -> fst x < n) ->
  concat (map (fun i => filter (in_part n p i) X) (seq 0 p)) = X.
Proof.
  intros Hp Hs Hv. apply ksorted_perm_eq; [|exact Hs|].
  - apply ssorted_concat_seq.
    + intros i. apply ksorted_filter. exact Hs.
    + intros i j x y _ Hij Hj Hx Hy. apply filter_In in Hx, Hy.
      destruct Hx as [Hx Hpx], Hy as [Hy Hpy].
      rewrite in_part_unique in Hpx by (try apply Hv; try assumption; lia).
      rewrite in_part_unique in Hpy by (try apply Hv; try assumption; lia).
      apply Nat.eqb_eq in Hpx, Hpy.
      assert (Hlt : fst x < fst y) by (apply (part_id_lt n p); lia).
      unfold kle. apply kleb_spec. left. exact Hlt.
  - apply (parts_perm (fun x => x)); assumption.
Qed.

Lemma kstrict_ksorted (l : list skey) : kstrict l -> ksorted l.
Proof.
  induction 1 as [|a l Hs IH Ha]; constructor; [exact IH|].
  eapply Forall_impl; [|exact Ha]. intros b [Hb _]. exact Hb.
Qed.

(** * Key sets *)
Lemma sdedup_keys {L} (dd : bool) (b : list (triple L)) (x : skey) :
  In x (map fst (sdedup dd b)) <-> In x (map fst b).
Proof.
  destruct dd; cbn [sdedup]; [|reflexivity].
  rewrite sdedup_from_map_fst. apply kdedup_from_in.
Qed.

Lemma keys_concat_map {L} (f : list (triple L) -> list (triple L)) (B : list (list (triple L))) x :
  (forall b y, In y (map fst (f b)) <-> In y (map fst b)) ->
  In x (map fst (concat (map f B))) <-> In x (map fst (concat B)).
Proof.
  intros H. induction B as [|b B IH]; cbn [map concat]; [reflexivity|].
  rewrite !map_app, !in_app_iff, IH, H. reflexivity.
Qed.

Lemma incl_concat_map {A} (f : list A -> list A) (B : list (list A)) :
  (forall b, incl (f b) b) -> incl (concat (map f B)) (concat B).
Proof.
  intros H. induction B as [|b B IH]; cbn [map concat]; [apply incl_refl|].
  apply incl_app; [apply incl_appl; apply H|apply incl_appr; exact IH].
Qed.

Lemma all_input_valid_keys {L} (n : N) (input : list (triple L)) :
  Forall (fun t => src_of t < n) input -> forall x, In x (map fst input) -> fst x < n.
Proof.
  intros H x Hx. apply in_map_iff in Hx. destruct Hx as [t [<- Ht]].
  rewrite Forall_forall in H. apply (H t Ht).
Qed.

(** * The flushed batches *)
Section Flush.
Context {L : Type}.
Variable sort : list (triple L) -> list (triple L).
Hypothesis Hsort : sort_ok sort.
Variable k : codec_kind.

Lemma flush_eq (cd : bool) (b : list (triple L)) :
  flush_batch sort (codec_rt k) cd b = sdedup cd (sort b).
Proof. unfold flush_batch. apply codec_roundtrip. apply Hsort. Qed.

Lemma flush_sorted (cd : bool) (b : list (triple L)) :
  tsorted (flush_batch sort (codec_rt k) cd b).
Proof.
  rewrite flush_eq. destruct cd; cbn [sdedup]; [apply sdedup_from_sorted|]; apply Hsort.
Qed.

Lemma flush_perm (b : list (triple L)) :
  Permutation (flush_batch sort (codec_rt k) false b) b.
Proof. rewrite flush_eq. cbn [sdedup]. apply Hsort. Qed.

Lemma flush_incl (cd : bool) (b : list (triple L)) :
  incl (flush_batch sort (codec_rt k) cd b) b.
Proof.
  rewrite flush_eq. intros x Hx. apply (Permutation_in x (proj1 (Hsort b))).
  destruct cd; cbn [sdedup] in Hx; [apply sdedup_from_incl in Hx|]; exact Hx.
Qed.

Lemma flush_keys (cd : bool) (b : list (triple L)) (x : skey) :
  In x (map fst (flush_batch sort (codec_rt k) cd b)) <-> In x (map fst b).
Proof.
  rewrite flush_eq, sdedup_keys. split; intros H.
  - eapply Permutation_in; [apply Permutation_map; apply (proj1 (Hsort b))|exact H].
  - eapply Permutation_in; [apply Permutation_map; apply Permutation_sym; apply (proj1 (Hsort b))|exact H].
Qed.

Lemma flush_all_sorted (cd : bool) (B : list (list (triple L))) :
  Forall tsorted (map (flush_batch sort (codec_rt k) cd) B).
Proof. apply Forall_forall. intros l Hl. apply in_map_iff in Hl. destruct Hl as [b [<- _]]. apply flush_sorted. Qed.
End Flush.

(** * The theorems *)
Theorem sort_spec_ok : S_sort_spec.
Proof.
  intros L sort k n p prods ties Hsort Hp Hvalid.
  destruct (run_producers_done_part n p prods Hp Hvalid) as [outs [Hrun Hparts]].
  set (input := all_input prods) in *.
  set (G := fun i => kmerge false (nth i ties [])
                       (map (flush_batch sort (codec_rt k) false) (batches_of outs i))).
  assert (HG : forall i, (i < p)%nat ->
            tsorted (G i) /\ Permutation (G i) (filter (fun t => in_part n p i (fst t)) input)).
  { intros i Hi. unfold G.
    destruct (kmerge_sorted_perm L (nth i ties []) _ (flush_all_sorted sort Hsort k false (batches_of outs i)))
      as [Hs Hperm].
    split; [exact Hs|].
    eapply perm_trans; [exact Hperm|]. rewrite <- (Hparts i Hi).
    apply perm_concat_map_id. intros b. apply flush_perm. exact Hsort. }
  assert (Hkeys : forall i, (i < p)%nat ->
            map fst (G i) = filter (in_part n p i) (ksort (map fst input))).
  { intros i Hi. destruct (HG i Hi) as [Hs Hperm].
    apply ksorted_perm_eq.
    - apply tsorted_map_fst. exact Hs.
    - apply ksorted_filter. apply ksort_sorted.
    - eapply perm_trans; [apply Permutation_map; exact Hperm|].
      rewrite map_fst_filter. apply perm_filter. apply Permutation_sym. apply ksort_perm. }
  exists (map G (seq 0 p)).
  split; [unfold sort_pipeline_gen; rewrite Hrun; reflexivity|].
  split; [rewrite map_length, seq_length; reflexivity|].
  split.
  - intros i Hi. rewrite nth_map_seq by exact Hi. destruct (HG i Hi) as [Hs Hperm].
    split; [exact Hs|]. split; [exact Hperm|].
    unfold sort_spec. cbn [kdedup]. apply Hkeys. exact Hi.
  - split.
    + eapply perm_trans.
      * apply perm_concat_map_in. intros i Hi. apply in_seq in Hi. apply HG. lia.
      * apply (parts_perm fst); [exact Hp|].
        intros x Hx. rewrite Forall_forall in Hvalid. apply (Hvalid x Hx).
    + rewrite concat_map, map_map.
      rewrite (map_ext_in _ (fun i => filter (in_part n p i) (ksort (map fst input)))).
      * apply concat_filter_parts; [exact Hp|apply ksort_sorted|].
        intros x Hx. apply (all_input_valid_keys n input Hvalid).
        eapply Permutation_in; [apply ksort_perm|exact Hx].
      * intros i Hi. apply in_seq in Hi. apply Hkeys. lia.
Qed.

Theorem sort_spec_dedup_ok : S_sort_spec_dedup.
Proof.
  intros L sort k n p cd prods ties Hsort Hp Hvalid.
  destruct (run_producers_done_part n p prods Hp Hvalid) as [outs [Hrun Hparts]].
  set (input := all_input prods) in *.
  set (G := fun i => kmerge true (nth i ties [])
                       (map (flush_batch sort (codec_rt k) cd) (batches_of outs i))).
  set (X := kdedup true (ksort (map fst input))).
  assert (HXs : kstrict X) by (apply kdedup_from_strict; apply ksort_sorted).
  assert (HXin : forall x, In x X <-> In x (map fst input)).
  { intros x. unfold X. cbn [kdedup]. rewrite kdedup_from_in. split; intros H.
    - eapply Permutation_in; [apply ksort_perm|exact H].
    - eapply Permutation_in; [apply Permutation_sym; apply ksort_perm|exact H]. }
  assert (HG : forall i, (i < p)%nat ->
            map fst (G i) = filter (in_part n p i) X /\ incl (G i) input).
  { intros i Hi. unfold G.
    destruct (kmerge_dedup L (nth i ties []) _ (flush_all_sorted sort Hsort k cd (batches_of outs i)))
      as [Hk Hincl].
    split.
    - rewrite Hk. apply kstrict_same_set_eq.
      + apply kdedup_from_strict. apply ksort_sorted.
      + apply kstrict_filter. exact HXs.
      + intros x. cbn [kdedup]. rewrite kdedup_from_in.
        rewrite filter_In, HXin.
        assert (E : In x (ksort (map fst (concat (map (flush_batch sort (codec_rt k) cd) (batches_of outs i)))))
                    <-> In x (map fst (concat (batches_of outs i)))).
        { rewrite <- (keys_concat_map (flush_batch sort (codec_rt k) cd) (batches_of outs i) x)
            by (intros b y; apply flush_keys; exact Hsort).
          split; intros H.
          - eapply Permutation_in; [apply ksort_perm|exact H].
          - eapply Permutation_in; [apply Permutation_sym; apply ksort_perm|exact H]. }
        rewrite E, (Hparts i Hi), map_fst_filter, filter_In. tauto.
    - intros t Ht. apply Hincl in Ht.
      apply (incl_concat_map (flush_batch sort (codec_rt k) cd)) in Ht;
        [|intros b; apply flush_incl; exact Hsort].
      rewrite (Hparts i Hi) in Ht. apply filter_In in Ht. apply Ht. }
  exists (map G (seq 0 p)).
  split; [unfold sort_pipeline_gen; rewrite Hrun; reflexivity|].
  split; [rewrite map_length, seq_length; reflexivity|].
  split.
  - intros i Hi. rewrite nth_map_seq by exact Hi. unfold sort_spec. apply HG. exact Hi.
  - rewrite concat_map, map_map.
    rewrite (map_ext_in _ (fun i => filter (in_part n p i) X)).
    + apply concat_filter_parts; [exact Hp|apply kstrict_ksorted; exact HXs|].
      intros x Hx. apply (all_input_valid_keys n input Hvalid). apply HXin. exact Hx.
    + intros i Hi. apply in_seq in Hi. apply HG. lia.
Qed.
