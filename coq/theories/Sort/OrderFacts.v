(** The lexicographic order on keys is a decidable total order. *)
From WG Require Import Base.Prelude Sort.Pipeline Sort.Statements.
From Coq Require Import ZifyBool ZifyN ZifyNat.
Local Open Scope N_scope.

Lemma kleb_spec (a b : skey) :
  kleb a b = true <-> (fst a < fst b \/ (fst a = fst b /\ snd a <= snd b)).
Proof. unfold kleb. destruct a as [a1 a2], b as [b1 b2]; cbn [fst snd]. lia. Qed.

Lemma keqb_eq (a b : skey) : keqb a b = true <-> a = b.
Proof.
  unfold keqb. destruct a as [a1 a2], b as [b1 b2]; cbn [fst snd].
  split; intros H.
  - f_equal; lia.
  - inversion H; subst. lia.
Qed.

Lemma keqb_refl (a : skey) : keqb a a = true.
Proof. apply keqb_eq. reflexivity. Qed.

Lemma keqb_neq (a b : skey) : keqb a b = false <-> a <> b.
Proof.
  split; intros H.
  - intros E. apply keqb_eq in E. congruence.
  - destruct (keqb a b) eqn:E; [apply keqb_eq in E; contradiction|reflexivity].
Qed.

Lemma kleb_refl (a : skey) : kleb a a = true.
Proof. apply kleb_spec. lia. Qed.

Lemma kleb_total (a b : skey) : kleb a b = true \/ kleb b a = true.
Proof. rewrite !kleb_spec. lia. Qed.

Lemma kleb_trans (a b c : skey) : kleb a b = true -> kleb b c = true -> kleb a c = true.
Proof. rewrite !kleb_spec. lia. Qed.

Lemma kleb_antisym (a b : skey) : kleb a b = true -> kleb b a = true -> a = b.
Proof.
  rewrite !kleb_spec. destruct a as [a1 a2], b as [b1 b2]; cbn [fst snd].
  intros H1 H2. f_equal; lia.
Qed.

Lemma kleb_false (a b : skey) : kleb a b = false -> kleb b a = true /\ a <> b.
Proof.
  intros H. split.
  - destruct (kleb_total a b) as [E|E]; [congruence|exact E].
  - intros ->. rewrite kleb_refl in H. discriminate.
Qed.

Lemma kle_zero (a : skey) : kleb (0, 0) a = true.
Proof. apply kleb_spec. cbn [fst snd]. lia. Qed.
