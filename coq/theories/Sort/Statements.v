(** Pinned statements for C08 (external sorting).  Statements only. *)
From WG Require Import Base.Prelude Sort.Pipeline.
Local Open Scope N_scope.

Definition kle (a b : skey) : Prop := kleb a b = true.
Definition ksorted (l : list skey) : Prop := StronglySorted kle l.
Definition tle {L} (a b : triple L) : Prop := kleb (fst a) (fst b) = true.
Definition tsorted {L} (l : list (triple L)) : Prop := StronglySorted tle l.
(** what is assumed of the batch sort (radix sort on the key, unstable) *)
Definition sort_ok {L} (sort : list (triple L) -> list (triple L)) : Prop :=
  forall l, Permutation (sort l) l /\ tsorted (sort l).
Definition src_of {L} (t : triple L) : N := fst (fst t).
(** everything the producers receive *)
Definition all_input {L} (prods : list (nat * list (triple L))) : list (triple L) :=
  concat (map snd prods).

(** ** Codecs: decoding the file written for a key-sorted batch gives the batch back
    (its first-of-each-key subsequence when the codec deduplicates) *)
Definition S_gaps_roundtrip : Prop :=
  forall (L : Type) (cd : bool) (b : list (triple L)),
    tsorted b -> gaps_decode (gaps_encode cd b) = sdedup cd b.
Definition S_grouped_roundtrip : Prop :=
  forall (L : Type) (cd : bool) (b : list (triple L)),
    tsorted b -> grouped_decode (grouped_encode cd b) = sdedup cd b.
Definition S_codec_roundtrip : Prop :=
  forall (L : Type) (k : codec_kind) (cd : bool) (b : list (triple L)),
    tsorted b -> codec_rt k cd b = sdedup cd b.

(** ** k-way merge, every tie-break *)
Definition S_kmerge_sorted_perm : Prop :=
  forall (L : Type) (ties : list nat) (its : list (list (triple L))),
    Forall tsorted its ->
    tsorted (kmerge false ties its) /\ Permutation (kmerge false ties its) (concat its).
Definition S_kmerge_dedup : Prop :=
  forall (L : Type) (ties : list nat) (its : list (list (triple L))),
    Forall tsorted its ->
    map fst (kmerge true ties its) = kdedup true (ksort (map fst (concat its)))
    /\ incl (kmerge true ties its) (concat its).

(** ** Partitioning *)
Definition S_boundaries : Prop :=
  forall (n : N) (p : nat), (0 < p)%nat ->
    length (boundaries n p) = S p
    /\ nth 0 (boundaries n p) 0 = 0
    /\ nth p (boundaries n p) 0 = n
    /\ StronglySorted N.le (boundaries n p).
Definition S_part_id_range : Prop :=
  forall (n : N) (p : nat) (src : N), (0 < p)%nat -> src < n ->
    (part_id n p src < p)%nat
    /\ nth (part_id n p src) (boundaries n p) 0 <= src
    /\ src < nth (S (part_id n p src)) (boundaries n p) 0.
(** every valid key belongs to exactly one partition *)
Definition S_in_part_unique : Prop :=
  forall (n : N) (p : nat) (k : skey) (i : nat), (0 < p)%nat -> fst k < n -> (i < p)%nat ->
    in_part n p i k = Nat.eqb i (part_id n p (fst k)).

(** ** The pipeline *)
(** an out-of-range source anywhere makes the sort return the error; never a panic *)
Definition S_sort_error : Prop :=
  forall (L : Type) sort rt (n : N) (p : nat) (cd md : bool)
         (prods : list (nat * list (triple L))) ties,
    (0 < p)%nat ->
    (exists t, In t (all_input prods) /\ n <= src_of t) ->
    sort_pipeline_gen sort rt n p cd md prods ties = SErr.
Definition S_sort_no_panic : Prop :=
  forall (L : Type) sort rt (n : N) (p : nat) (cd md : bool)
         (prods : list (nat * list (triple L))) ties,
    (0 < p)%nat -> sort_pipeline_gen sort rt n p cd md prods ties <> SPanic.

(** without deduplication: for every split among producers, every buffer capacity, every
    admissible batch sort, both codecs and every tie-break, partition [i] is a key-sorted
    permutation of the input triples whose source lies in [boundary i, boundary i+1), its
    keys are exactly the specified ones, and the concatenation of the partitions is a
    key-sorted permutation of the whole input *)
Definition S_sort_spec : Prop :=
  forall (L : Type) sort (k : codec_kind) (n : N) (p : nat)
         (prods : list (nat * list (triple L))) ties,
    sort_ok sort -> (0 < p)%nat ->
    Forall (fun t => src_of t < n) (all_input prods) ->
    exists parts,
      sort_pipeline_gen sort (codec_rt k) n p false false prods ties
        = SDone (boundaries n p, parts)
      /\ length parts = p
      /\ (forall i, (i < p)%nat ->
            tsorted (nth i parts [])
            /\ Permutation (nth i parts [])
                 (filter (fun t => in_part n p i (fst t)) (all_input prods))
            /\ map fst (nth i parts []) = sort_spec false n p i (map fst (all_input prods)))
      /\ Permutation (concat parts) (all_input prods)
      /\ map fst (concat parts) = ksort (map fst (all_input prods)).

(** with deduplication in the merge (and with or without it in the codec): the keys of
    partition [i] are the distinct keys of its range in increasing order, every returned
    triple is an input triple (labels stay attached), and the concatenation lists the
    distinct keys of the input in increasing order *)
Definition S_sort_spec_dedup : Prop :=
  forall (L : Type) sort (k : codec_kind) (n : N) (p : nat) (cd : bool)
         (prods : list (nat * list (triple L))) ties,
    sort_ok sort -> (0 < p)%nat ->
    Forall (fun t => src_of t < n) (all_input prods) ->
    exists parts,
      sort_pipeline_gen sort (codec_rt k) n p cd true prods ties
        = SDone (boundaries n p, parts)
      /\ length parts = p
      /\ (forall i, (i < p)%nat ->
            map fst (nth i parts []) = sort_spec true n p i (map fst (all_input prods))
            /\ incl (nth i parts []) (all_input prods))
      /\ map fst (concat parts) = kdedup true (ksort (map fst (all_input prods))).

(** the concrete insertion sort is an admissible batch sort *)
Definition S_isort_ok : Prop := forall (L : Type), sort_ok (@isort L).
