(** Round trip of the batch codecs on key-sorted batches. *)
From WG Require Import Base.Prelude Sort.Pipeline Sort.Statements Sort.OrderFacts.
From Coq Require Import ZifyBool ZifyN ZifyNat.
Local Open Scope N_scope.

Section Codec.
Context {L : Type}.
Implicit Types (b : list (triple L)) (t : triple L).

(** what the decoder must return for the rest [b] of a batch, [prev] being the key of the
    last written triple *)
Definition dres (cd : bool) (prev : option skey) b : list (triple L) :=
  if cd then sdedup_from prev b else b.

Lemma dres_none cd b : dres cd None b = sdedup cd b.
Proof. reflexivity. Qed.

Lemma dres_nil cd prev : dres cd prev [] = [].
Proof. destruct cd; reflexivity. Qed.

Lemma dres_skip cd prev t b :
  cd && okeqb prev (fst t) = true -> dres cd prev (t :: b) = dres cd prev b.
Proof.
  intros H. apply andb_true_iff in H. destruct H as [Hcd Hk]. subst cd.
  unfold dres. cbn [sdedup_from]. rewrite Hk. reflexivity.
Qed.

Lemma dres_keep cd prev t b :
  cd && okeqb prev (fst t) = false ->
  dres cd prev (t :: b) = t :: dres cd (Some (fst t)) b.
Proof.
  intros H. destruct cd; cbn [andb] in H.
  - unfold dres. cbn [sdedup_from]. rewrite H. reflexivity.
  - reflexivity.
Qed.

Lemma nlen_cons_eqb {A} (x : A) (l : list A) : (nlen (x :: l) =? 0) = false.
Proof. unfold nlen. cbn [length]. lia. Qed.

Lemma nlen_cons_pred {A} (x : A) (l : list A) : nlen (x :: l) - 1 = nlen l.
Proof. unfold nlen. cbn [length]. lia. Qed.

Lemma count_changes_cons2 t1 t2 b :
  count_changes (t1 :: t2 :: b)
  = (if keqb (fst t1) (fst t2) then 0 else 1) + count_changes (t2 :: b).
Proof. reflexivity. Qed.

(** [count_changes] counts the triples kept after the first one; no sortedness needed *)
Lemma count_changes_sdedup b : forall t,
  count_changes (t :: b) = nlen (sdedup_from (Some (fst t)) b).
Proof.
  induction b as [|t2 b IH]; intros t.
  - reflexivity.
  - rewrite count_changes_cons2. cbn [sdedup_from okeqb].
    destruct (keqb (fst t) (fst t2)) eqn:E.
    + apply keqb_eq in E. rewrite E. rewrite IH. lia.
    + rewrite IH. unfold nlen. cbn [length]. lia.
Qed.

Lemma batch_len_sdedup cd b : batch_len cd b = nlen (sdedup cd b).
Proof.
  destruct cd; [|reflexivity].
  destruct b as [|t b]; [reflexivity|].
  unfold batch_len, sdedup. cbn [sdedup_from okeqb].
  rewrite count_changes_sdedup. unfold nlen. cbn [length]. lia.
Qed.

(** every key of [b] is at least [k] *)
Definition kbound (k : skey) b : Prop := Forall (fun t => kleb k (fst t) = true) b.

Lemma tsorted_inv t b : tsorted (t :: b) -> tsorted b /\ kbound (fst t) b.
Proof. intros H. apply StronglySorted_inv in H. exact H. Qed.

(** * [GapsCodec] *)
Lemma gaps_body_roundtrip cd b : forall prev ps pd,
  tsorted b -> kbound (ps, pd) b -> prev = None \/ prev = Some (ps, pd) ->
  gaps_dec_body (nlen (dres cd prev b)) ps pd (gaps_enc_body cd prev ps pd b)
  = dres cd prev b.
Proof.
  induction b as [|t b IH]; intros prev ps pd Hs Hb Hp.
  - rewrite dres_nil. reflexivity.
  - apply tsorted_inv in Hs. destruct Hs as [Hs Hbt].
    pose proof (Forall_inv Hb) as Ht. pose proof (Forall_inv_tail Hb) as Hb'.
    destruct t as [[s d] l]. cbn [fst] in Ht, Hbt.
    cbn [gaps_enc_body].
    destruct (cd && okeqb prev (s, d)) eqn:E.
    + rewrite !dres_skip by exact E.
      apply IH; assumption.
    + rewrite !dres_keep by exact E. cbn [fst].
      cbn [gaps_dec_body]. rewrite nlen_cons_eqb, nlen_cons_pred.
      apply kleb_spec in Ht. cbn [fst snd] in Ht.
      assert (Es : ps + (s - ps) = s) by lia.
      assert (Ed : (if s - ps =? 0 then pd else 0) + (d - (if s =? ps then pd else 0)) = d).
      { destruct (s =? ps) eqn:E1; destruct (s - ps =? 0) eqn:E2; lia. }
      rewrite Es, Ed. f_equal.
      apply IH; [assumption|assumption|right; reflexivity].
Qed.

Lemma gaps_roundtrip_L cd b : tsorted b -> gaps_decode (gaps_encode cd b) = sdedup cd b.
Proof.
  intros Hs. unfold gaps_encode, gaps_decode.
  rewrite batch_len_sdedup, <- dres_none.
  apply gaps_body_roundtrip.
  - exact Hs.
  - apply Forall_forall. intros t _. apply kle_zero.
  - left. reflexivity.
Qed.

(** * [GroupedGapsCodec] *)
(** number of triples the encoder still writes in the group of source [src], [ld] being
    the last written destination *)
Fixpoint grem (cd : bool) (src ld : N) b : N :=
  match b with
  | [] => 0
  | ((s, d), _) :: b' =>
      if s =? src then
        if cd && (ld =? d) then grem cd src ld b' else 1 + grem cd src d b'
      else 0
  end.

Lemma grem_false_run_len src b : forall ld, grem false src ld b = run_len src b.
Proof.
  induction b as [|[[s d] l] b IH]; intros ld.
  - reflexivity.
  - cbn [grem run_len andb]. destruct (s =? src); [|reflexivity].
    rewrite IH. reflexivity.
Qed.

Lemma run_changes_cons2 s s1 d1 l1 s2 d2 l2 b :
  run_changes s (((s1, d1), l1) :: ((s2, d2), l2) :: b)
  = if (s1 =? s) && (s2 =? s)
    then (if d1 =? d2 then 0 else 1) + run_changes s (((s2, d2), l2) :: b) else 0.
Proof. reflexivity. Qed.

Lemma run_changes_grem s b : forall d l,
  run_changes s (((s, d), l) :: b) = grem true s d b.
Proof.
  induction b as [|[[s2 d2] l2] b IH]; intros d l.
  - reflexivity.
  - rewrite run_changes_cons2. cbn [grem andb].
    rewrite N.eqb_refl. cbn [andb].
    destruct (s2 =? s) eqn:E; [|reflexivity].
    apply N.eqb_eq in E. subst s2. rewrite IH.
    destruct (d =? d2) eqn:E2.
    + apply N.eqb_eq in E2. subst d2. lia.
    + reflexivity.
Qed.

Lemma group_outdeg_grem cd s d l b :
  group_outdeg cd s (((s, d), l) :: b) = 1 + grem cd s d b.
Proof.
  destruct cd; unfold group_outdeg.
  - rewrite run_changes_grem. reflexivity.
  - cbn [run_len]. rewrite N.eqb_refl, grem_false_run_len. reflexivity.
Qed.

Lemma okeqb_same_src s p d : okeqb (Some (s, p)) (s, d) = (p =? d).
Proof. unfold okeqb, keqb. cbn [fst snd]. rewrite N.eqb_refl. reflexivity. Qed.

Lemma okeqb_diff_src s p s' d : (s =? s') = false -> okeqb (Some (s, p)) (s', d) = false.
Proof. intros H. unfold okeqb, keqb. cbn [fst snd]. rewrite H. reflexivity. Qed.

Lemma succ_eqb_0 x : (1 + x =? 0) = false.
Proof. lia. Qed.

Lemma succ_pred x : 1 + x - 1 = x.
Proof. lia. Qed.

(** in the middle of the group of source [src], [pd] being the last written destination *)
Lemma grouped_mid_roundtrip cd b : forall src pd fuel,
  tsorted b -> kbound (src, pd) b ->
  (length (grouped_enc_body cd (Some src) (Some pd) pd b) <= fuel)%nat ->
  grouped_dec_body fuel (nlen (dres cd (Some (src, pd)) b)) src (grem cd src pd b) pd
    (grouped_enc_body cd (Some src) (Some pd) pd b)
  = dres cd (Some (src, pd)) b.
Proof.
  induction b as [|t b IH]; intros src pd fuel Hs Hb Hf.
  - rewrite dres_nil. destruct fuel; reflexivity.
  - apply tsorted_inv in Hs. destruct Hs as [Hs Hbt].
    pose proof (Forall_inv Hb) as Ht. pose proof (Forall_inv_tail Hb) as Hb'.
    destruct t as [[s d] l]. cbn [fst] in Ht, Hbt.
    apply kleb_spec in Ht. cbn [fst snd] in Ht.
    revert Hf. cbn [grouped_enc_body grem]. rewrite (N.eqb_sym s src).
    destruct (src =? s) eqn:E1.
    + apply N.eqb_eq in E1. subst s.
      destruct (cd && (pd =? d)) eqn:E2; intros Hf.
      * rewrite !dres_skip by (cbn [fst]; rewrite okeqb_same_src; exact E2).
        apply IH; assumption.
      * rewrite !dres_keep by (cbn [fst]; rewrite okeqb_same_src; exact E2).
        cbn [fst].
        destruct fuel as [|fuel]; [cbn [length] in Hf; lia|].
        cbn [grouped_dec_body].
        rewrite nlen_cons_eqb, nlen_cons_pred, succ_eqb_0, succ_pred.
        replace (pd + (d - pd)) with d by lia.
        f_equal. apply IH; [assumption|assumption|cbn [length] in Hf; lia].
    + intros Hf.
      rewrite !dres_keep
        by (cbn [fst]; rewrite okeqb_diff_src by exact E1; apply andb_false_r).
      cbn [fst]. rewrite group_outdeg_grem.
      destruct fuel as [|fuel]; [cbn [length] in Hf; lia|].
      cbn [grouped_dec_body].
      rewrite nlen_cons_eqb, nlen_cons_pred, N.eqb_refl, succ_pred, N.add_0_l.
      apply N.eqb_neq in E1.
      replace (src + (s - src)) with s by lia.
      f_equal. apply IH; [assumption|assumption|cbn [length] in Hf; lia].
Qed.

Lemma grouped_roundtrip_L cd b :
  tsorted b -> grouped_decode (grouped_encode cd b) = sdedup cd b.
Proof.
  intros Hs. unfold grouped_encode, grouped_decode.
  rewrite batch_len_sdedup, <- dres_none.
  destruct b as [|[[s d] l] b].
  - rewrite dres_nil. reflexivity.
  - apply tsorted_inv in Hs. destruct Hs as [Hs Hbt]. cbn [fst] in Hbt.
    rewrite !dres_keep by (cbn [okeqb]; apply andb_false_r).
    cbn [fst grouped_enc_body length]. rewrite group_outdeg_grem.
    remember (S (S (S (length (grouped_enc_body cd (Some s) (Some d) d b))))) as f eqn:Ef.
    cbn [grouped_dec_body].
    rewrite nlen_cons_eqb, nlen_cons_pred, N.eqb_refl, succ_pred, !N.add_0_l, N.sub_0_r.
    f_equal. apply grouped_mid_roundtrip; [assumption|assumption|lia].
Qed.

End Codec.

Theorem gaps_roundtrip : S_gaps_roundtrip.
Proof. intros L cd b Hs. apply gaps_roundtrip_L. exact Hs. Qed.

Theorem grouped_roundtrip : S_grouped_roundtrip.
Proof. intros L cd b Hs. apply grouped_roundtrip_L. exact Hs. Qed.

Theorem codec_roundtrip : S_codec_roundtrip.
Proof.
  intros L k cd b Hs. unfold codec_rt.
  destruct k; cbn [codec_encode codec_decode].
  - apply gaps_roundtrip. exact Hs.
  - apply grouped_roundtrip. exact Hs.
Qed.
