From WG Require Import Base.Prelude Sort.Pipeline Sort.Statements Sort.OrderFacts.
From Coq Require Import ZifyBool ZifyN ZifyNat.
Local Open Scope N_scope.

(** * Arithmetic of [div_ceil] *)
Lemma div_ceil_mul_ge (a b : N) : 0 < b -> a <= div_ceil a b * b.
Proof.
  intros Hb. unfold div_ceil.
  pose proof (N.div_mod a b ltac:(lia)) as Hdm.
  pose proof (N.mod_lt a b ltac:(lia)) as Hlt.
  revert Hdm Hlt. generalize (a / b) (a mod b). intros d r Hdm Hlt.
  destruct (r =? 0) eqn:E; cbn iota; lia.
Qed.

Lemma div_ceil_pos (a b : N) : 0 < b -> 0 < a -> 1 <= div_ceil a b.
Proof.
  intros Hb Ha. unfold div_ceil.
  pose proof (N.div_mod a b ltac:(lia)) as Hdm.
  revert Hdm. generalize (a / b) (a mod b). intros d r Hdm.
  destruct (r =? 0) eqn:E; cbn iota; [|lia].
  apply N.eqb_eq in E. subst r.
  destruct (N.eq_dec d 0) as [Z|Z]; [subst d; lia|lia].
Qed.

Lemma div_ceil_zero (b : N) : 0 < b -> div_ceil 0 b = 0.
Proof.
  intros Hb. unfold div_ceil. rewrite N.div_0_l, N.mod_0_l by lia. reflexivity.
Qed.

(** * [nth] of the boundaries *)
Lemma nth_map_nseq (f : N -> N) (k : nat) : forall (a : N) (i : nat),
  (i < k)%nat -> nth i (map f (nseq a k)) 0 = f (a + N.of_nat i).
Proof.
  induction k as [|k IH]; intros a i Hi; [lia|].
  cbn [nseq map]. destruct i as [|i]; cbn [nth].
  - f_equal. lia.
  - rewrite IH by lia. f_equal. lia.
Qed.

Lemma nth_boundaries (n : N) (p i : nat) : (i <= p)%nat ->
  nth i (boundaries n p) 0 = N.min (N.of_nat i * nodes_per_part n p) n.
Proof.
  intros Hi. unfold boundaries. rewrite nth_map_nseq by lia. f_equal.
Qed.

Lemma length_nseq (k : nat) : forall a, length (nseq a k) = k.
Proof. induction k as [|k IH]; intros a; cbn [nseq length]; [reflexivity|now rewrite IH]. Qed.

Lemma in_nseq (k : nat) : forall a x, In x (nseq a k) -> a <= x.
Proof.
  induction k as [|k IH]; intros a x Hx; cbn [nseq In] in Hx; [contradiction|].
  destruct Hx as [<-|Hx]; [lia|]. apply IH in Hx. lia.
Qed.

Lemma sorted_map_nseq (f : N -> N) (k : nat) :
  (forall x y, x <= y -> f x <= f y) ->
  forall a, StronglySorted N.le (map f (nseq a k)).
Proof.
  intros Hf. induction k as [|k IH]; intros a; cbn [nseq map]; constructor.
  - apply IH.
  - apply Forall_forall. intros y Hy. apply in_map_iff in Hy.
    destruct Hy as [x [<- Hx]]. apply Hf. apply in_nseq in Hx. lia.
Qed.

Theorem boundaries_ok : S_boundaries.
Proof.
  intros n p Hp.
  assert (Hq : n <= nodes_per_part n p * N.of_nat p)
    by (apply div_ceil_mul_ge; lia).
  split; [|split; [|split]].
  - unfold boundaries. rewrite map_length, length_nseq. reflexivity.
  - rewrite nth_boundaries by lia. lia.
  - rewrite nth_boundaries by lia. lia.
  - unfold boundaries. apply sorted_map_nseq. intros x y Hxy.
    pose proof (N.mul_le_mono_r x y (nodes_per_part n p) Hxy). lia.
Qed.

Lemma part_id_facts (n : N) (p : nat) (src : N) : (0 < p)%nat -> src < n ->
  let q := nodes_per_part n p in
  1 <= q /\ src / q < N.of_nat p /\ (src / q) * q <= src /\ src < (src / q + 1) * q.
Proof.
  intros Hp Hs q.
  assert (Hq : n <= q * N.of_nat p) by (apply div_ceil_mul_ge; lia).
  assert (Hq1 : 1 <= q) by (apply div_ceil_pos; lia).
  pose proof (N.div_mod src q ltac:(lia)) as Hdm.
  pose proof (N.mod_lt src q ltac:(lia)) as Hlt.
  split; [exact Hq1|]. split; [apply N.div_lt_upper_bound; lia|].
  revert Hdm Hlt. generalize (src / q) (src mod q). intros d r Hdm Hlt. lia.
Qed.

Theorem part_id_range : S_part_id_range.
Proof.
  intros n p src Hp Hs.
  destruct (part_id_facts n p src Hp Hs) as [Hq1 [Hlt [Hlo Hhi]]].
  unfold part_id.
  split; [lia|].
  rewrite !nth_boundaries by lia.
  split; [lia|].
  replace (N.of_nat (S (N.to_nat (src / nodes_per_part n p)))) with (src / nodes_per_part n p + 1) by lia.
  lia.
Qed.

Theorem in_part_unique : S_in_part_unique.
Proof.
  intros n p k i Hp Hs Hi.
  destruct (part_id_facts n p (fst k) Hp Hs) as [Hq1 [Hlt [Hlo Hhi]]].
  unfold in_part, part_id. rewrite !nth_boundaries by lia.
  set (q := nodes_per_part n p) in *. set (s := fst k) in *. set (d := s / q) in *.
  replace (N.of_nat (S i)) with (N.of_nat i + 1) by lia.
  destruct (Nat.eqb i (N.to_nat d)) eqn:E.
  - apply Nat.eqb_eq in E. replace (N.of_nat i) with d by lia. lia.
  - apply Nat.eqb_neq in E.
    destruct (N.lt_ge_cases (N.of_nat i) d) as [Hlt'|Hge].
    + assert (H1 : (N.of_nat i + 1) * q <= d * q) by (apply N.mul_le_mono_r; lia). lia.
    + assert (H1 : (d + 1) * q <= N.of_nat i * q) by (apply N.mul_le_mono_r; lia). lia.
Qed.

(** * Producers *)
Lemma length_upd_at {A} (f : A -> A) (l : list A) : forall i, length (upd_at i f l) = length l.
Proof.
  induction l as [|x l IH]; intros i; destruct i as [|i]; cbn [upd_at length]; try reflexivity.
  now rewrite IH.
Qed.

Lemma nth_upd_at_eq {A} (f : A -> A) (d : A) (l : list A) : forall i,
  (i < length l)%nat -> nth i (upd_at i f l) d = f (nth i l d).
Proof.
  induction l as [|x l IH]; intros i Hi; cbn [length] in Hi; [lia|].
  destruct i as [|i]; cbn [upd_at nth]; [reflexivity|]. apply IH. lia.
Qed.

Lemma nth_upd_at_neq {A} (f : A -> A) (d : A) (l : list A) : forall i j,
  i <> j -> nth j (upd_at i f l) d = nth j l d.
Proof.
  induction l as [|x l IH]; intros i j Hij; destruct i as [|i]; cbn [upd_at]; try reflexivity;
    destruct j as [|j]; cbn [nth]; try reflexivity; try congruence.
  apply IH. congruence.
Qed.

Section Prod.
Context {L : Type}.
Notation pst := (list (triple L) * list (list (triple L)))%type.

(** everything a partition slot holds: spilled batches, then the buffer *)
Definition flat_of (s : pst) : list (triple L) := concat (snd s) ++ fst s.
Definition pid_is (n : N) (p : nat) (i : nat) (t : triple L) : bool :=
  Nat.eqb (part_id n p (src_of t)) i.

Lemma flat_push_buf (cap : nat) (t : triple L) (s : pst) :
  flat_of (push_buf cap t s) = flat_of s ++ [t].
Proof.
  unfold flat_of, push_buf. destruct s as [buf bs].
  destruct (cap <=? length buf)%nat eqn:E; cbn [fst snd].
  - rewrite concat_app. cbn [concat]. rewrite app_nil_r. reflexivity.
  - rewrite app_assoc. reflexivity.
Qed.

Lemma pstep_done (n : N) (p cap : nat) (st : list pst) (t : triple L) :
  (0 < p)%nat -> src_of t < n ->
  pstep n p cap st t = SDone (upd_at (part_id n p (src_of t)) (push_buf cap t) st).
Proof.
  intros Hp Hs. unfold pstep. fold (src_of t).
  destruct (n <=? src_of t) eqn:E; [apply N.leb_le in E; lia|].
  destruct (part_id_range n p (src_of t) Hp Hs) as [Hlt _].
  destruct (p <=? part_id n p (src_of t))%nat eqn:E2; [apply Nat.leb_le in E2; lia|].
  reflexivity.
Qed.

Lemma feed_done (n : N) (p cap : nat) : (0 < p)%nat ->
  forall (ts : list (triple L)) (st : list pst),
  length st = p -> Forall (fun t => src_of t < n) ts ->
  exists st', feed n p cap st ts = SDone st' /\ length st' = p
    /\ forall i, (i < p)%nat ->
         flat_of (nth i st' ([], [])) = flat_of (nth i st ([], [])) ++ filter (pid_is n p i) ts.
Proof.
  intros Hp. induction ts as [|t ts IH]; intros st Hlen Hall.
  - exists st. cbn [feed filter]. split; [reflexivity|]. split; [exact Hlen|].
    intros i Hi. now rewrite app_nil_r.
  - inversion Hall as [|t' ts' Ht Hts]; subst t' ts'.
    cbn [feed]. rewrite (pstep_done n p cap st t Hp Ht).
    set (st1 := upd_at (part_id n p (src_of t)) (push_buf cap t) st).
    assert (Hlen1 : length st1 = p) by (unfold st1; rewrite length_upd_at; exact Hlen).
    destruct (IH st1 Hlen1 Hts) as [st' [Hfeed [Hlen' Hflat]]].
    exists st'. split; [exact Hfeed|]. split; [exact Hlen'|].
    intros i Hi. rewrite (Hflat i Hi). cbn [filter]. unfold pid_is at 2.
    destruct (part_id_range n p (src_of t) Hp Ht) as [Hlt _].
    destruct (Nat.eqb (part_id n p (src_of t)) i) eqn:E.
    + apply Nat.eqb_eq in E. unfold st1. rewrite E.
      rewrite nth_upd_at_eq by lia. rewrite flat_push_buf.
      rewrite <- app_assoc. reflexivity.
    + apply Nat.eqb_neq in E. unfold st1.
      rewrite nth_upd_at_neq by exact E. reflexivity.
Qed.

Lemma nth_init_state (p i : nat) : nth i (@init_state L p) ([], []) = ([], []).
Proof.
  unfold init_state. revert i. induction p as [|p IH]; intros i; cbn [repeat].
  - destruct i; reflexivity.
  - destruct i as [|i]; cbn [nth]; [reflexivity|apply IH].
Qed.

Lemma concat_nth_finish (st : list pst) : forall i, (i < length st)%nat ->
  concat (nth i (finish st) []) = flat_of (nth i st ([], [])).
Proof.
  unfold finish. induction st as [|s st IH]; intros i Hi; cbn [length] in Hi; [lia|].
  cbn [map]. destruct i as [|i]; cbn [nth].
  - unfold flat_of. rewrite concat_app. cbn [concat]. now rewrite app_nil_r.
  - apply IH. lia.
Qed.

Lemma producer_done (n : N) (p : nat) (pr : nat * list (triple L)) :
  (0 < p)%nat -> Forall (fun t => src_of t < n) (snd pr) ->
  exists o, producer n p pr = SDone o
    /\ forall i, (i < p)%nat -> concat (nth i o []) = filter (pid_is n p i) (snd pr).
Proof.
  intros Hp Hall. unfold producer.
  assert (Hlen0 : length (@init_state L p) = p) by (unfold init_state; apply repeat_length).
  destruct (feed_done n p (fst pr) Hp (snd pr) (init_state p) Hlen0 Hall)
    as [st' [Hfeed [Hlen' Hflat]]].
  rewrite Hfeed. exists (finish st'). split; [reflexivity|].
  intros i Hi. rewrite concat_nth_finish by lia. rewrite (Hflat i Hi).
  rewrite nth_init_state. reflexivity.
Qed.

Lemma all_input_cons (pr : nat * list (triple L)) prods :
  all_input (pr :: prods) = snd pr ++ all_input prods.
Proof. reflexivity. Qed.

Lemma batches_of_cons (o : list (list (list (triple L)))) os i :
  concat (batches_of (o :: os) i) = concat (nth i o []) ++ concat (batches_of os i).
Proof. unfold batches_of. cbn [flat_map]. apply concat_app. Qed.
End Prod.

Lemma run_producers_done {L} n p (prods : list (nat * list (triple L))) :
  (0 < p)%nat -> Forall (fun t => src_of t < n) (all_input prods) ->
  exists outs, run_producers n p prods = SDone outs
    /\ forall i, (i < p)%nat ->
         concat (batches_of outs i)
         = filter (fun t => Nat.eqb (part_id n p (src_of t)) i) (all_input prods).
Proof.
  intros Hp. induction prods as [|pr prods IH]; intros Hall.
  - exists []. split; [reflexivity|]. intros i Hi. reflexivity.
  - rewrite all_input_cons in Hall. apply Forall_app in Hall. destruct Hall as [Hpr Hrest].
    destruct (producer_done n p pr Hp Hpr) as [o [Ho Hoi]].
    destruct (IH Hrest) as [os [Hos Hosi]].
    exists (o :: os). cbn [run_producers]. rewrite Ho, Hos. split; [reflexivity|].
    intros i Hi. rewrite batches_of_cons, all_input_cons, filter_app.
    rewrite (Hoi i Hi), (Hosi i Hi). reflexivity.
Qed.

Lemma run_producers_done_part {L} n p (prods : list (nat * list (triple L))) :
  (0 < p)%nat -> Forall (fun t => src_of t < n) (all_input prods) ->
  exists outs, run_producers n p prods = SDone outs
    /\ forall i, (i < p)%nat ->
         concat (batches_of outs i)
         = filter (fun t => in_part n p i (fst t)) (all_input prods).
Proof.
  intros Hp Hall. destruct (run_producers_done n p prods Hp Hall) as [outs [Hrun Houts]].
  exists outs. split; [exact Hrun|]. intros i Hi. rewrite (Houts i Hi).
  apply filter_ext_in. intros t Ht.
  rewrite Forall_forall in Hall. specialize (Hall t Ht).
  rewrite (in_part_unique n p (fst t) i Hp Hall Hi). apply Nat.eqb_sym.
Qed.

(** * Errors and panics *)
Section Err.
Context {L : Type}.
Notation pst := (list (triple L) * list (list (triple L)))%type.

Lemma pstep_no_panic (n : N) (p cap : nat) (st : list pst) (t : triple L) :
  (0 < p)%nat -> pstep n p cap st t <> SPanic.
Proof.
  intros Hp. unfold pstep.
  destruct (n <=? fst (fst t)) eqn:E; [discriminate|].
  apply N.leb_gt in E.
  destruct (part_id_range n p (fst (fst t)) Hp E) as [Hlt _].
  destruct (p <=? part_id n p (fst (fst t)))%nat eqn:E2; [apply Nat.leb_le in E2; lia|].
  discriminate.
Qed.

Lemma pstep_err (n : N) (p cap : nat) (st : list pst) (t : triple L) :
  n <= src_of t -> pstep n p cap st t = SErr.
Proof.
  intros Hs. unfold pstep. fold (src_of t).
  destruct (n <=? src_of t) eqn:E; [reflexivity|apply N.leb_gt in E; lia].
Qed.

Lemma feed_no_panic (n : N) (p cap : nat) : (0 < p)%nat ->
  forall (ts : list (triple L)) (st : list pst), feed n p cap st ts <> SPanic.
Proof.
  intros Hp. induction ts as [|t ts IH]; intros st; cbn [feed]; [discriminate|].
  pose proof (pstep_no_panic n p cap st t Hp) as Hnp.
  destruct (pstep n p cap st t) as [st'| |]; [apply IH|discriminate|congruence].
Qed.

Lemma feed_err (n : N) (p cap : nat) (t : triple L) : (0 < p)%nat -> n <= src_of t ->
  forall (ts : list (triple L)) (st : list pst), In t ts -> feed n p cap st ts = SErr.
Proof.
  intros Hp Hs. induction ts as [|a ts IH]; intros st Hin; cbn [In] in Hin; [contradiction|].
  cbn [feed].
  pose proof (pstep_no_panic n p cap st a Hp) as Hnp.
  destruct (pstep n p cap st a) as [st'| |] eqn:E; [|reflexivity|congruence].
  destruct Hin as [->|Hin].
  - rewrite (pstep_err n p cap st t Hs) in E. discriminate.
  - apply IH. exact Hin.
Qed.

Lemma producer_no_panic (n : N) (p : nat) (pr : nat * list (triple L)) :
  (0 < p)%nat -> producer n p pr <> SPanic.
Proof.
  intros Hp. unfold producer.
  pose proof (feed_no_panic n p (fst pr) Hp (snd pr) (init_state p)) as Hnp.
  destruct (feed n p (fst pr) (init_state p) (snd pr)); [discriminate|discriminate|congruence].
Qed.

Lemma producer_err (n : N) (p : nat) (pr : nat * list (triple L)) (t : triple L) :
  (0 < p)%nat -> n <= src_of t -> In t (snd pr) -> producer n p pr = SErr.
Proof.
  intros Hp Hs Hin. unfold producer.
  rewrite (feed_err n p (fst pr) t Hp Hs (snd pr) (init_state p) Hin). reflexivity.
Qed.

Lemma run_producers_no_panic (n : N) (p : nat) (prods : list (nat * list (triple L))) :
  (0 < p)%nat -> run_producers n p prods <> SPanic.
Proof.
  intros Hp. induction prods as [|pr prods IH]; cbn [run_producers]; [discriminate|].
  pose proof (producer_no_panic n p pr Hp) as Hnp.
  destruct (producer n p pr) as [o| |]; [|discriminate|congruence].
  destruct (run_producers n p prods) as [os| |]; [discriminate|discriminate|congruence].
Qed.

Lemma run_producers_err (n : N) (p : nat) (prods : list (nat * list (triple L))) (t : triple L) :
  (0 < p)%nat -> n <= src_of t -> In t (all_input prods) -> run_producers n p prods = SErr.
Proof.
  intros Hp Hs. induction prods as [|pr prods IH]; intros Hin.
  - cbn in Hin. contradiction.
  - rewrite all_input_cons in Hin. apply in_app_or in Hin. cbn [run_producers].
    destruct Hin as [Hin|Hin].
    + rewrite (producer_err n p pr t Hp Hs Hin). reflexivity.
    + pose proof (producer_no_panic n p pr Hp) as Hnp.
      destruct (producer n p pr) as [o| |]; [|reflexivity|congruence].
      rewrite (IH Hin). reflexivity.
Qed.
End Err.

Theorem sort_error : S_sort_error.
Proof.
  intros L sort rt n p cd md prods ties Hp [t [Hin Hs]].
  unfold sort_pipeline_gen.
  rewrite (run_producers_err n p prods t Hp Hs Hin). reflexivity.
Qed.

Theorem sort_no_panic : S_sort_no_panic.
Proof.
  intros L sort rt n p cd md prods ties Hp.
  unfold sort_pipeline_gen.
  pose proof (run_producers_no_panic n p prods Hp) as Hnp.
  destruct (run_producers n p prods) as [outs| |]; [discriminate|discriminate|congruence].
Qed.
