(** The k-way merge of key-sorted lists is a key-sorted permutation of their
    concatenation, whatever the tie-break; with deduplication its keys are the distinct
    keys in increasing order. *)
From WG Require Import Base.Prelude Sort.Pipeline Sort.Statements Sort.OrderFacts
  Sort.SortedFacts.
From Coq Require Import ZifyBool ZifyN ZifyNat.
Local Open Scope N_scope.

Section KMerge.
Context {L : Type}.
Implicit Types (hs : list (list (triple L))) (t : triple L) (m : skey).

(** every key of [l] is at least [m] *)
Definition allge m (l : list (triple L)) : Prop :=
  Forall (fun t => kleb m (fst t) = true) l.

Lemma allge_mono m m' l : kleb m' m = true -> allge m l -> allge m' l.
Proof.
  intros H Hl. unfold allge in *. eapply Forall_impl; [|exact Hl].
  intros t Ht. cbv beta in *. eapply kleb_trans; eassumption.
Qed.

Lemma allge_sorted_cons t l : tsorted (t :: l) -> allge (fst t) (t :: l).
Proof.
  intros H. inversion H as [|t' l' Hs Hf]; subst.
  constructor; [apply kleb_refl|]. exact Hf.
Qed.

(** * [min_head] *)
Lemma min_head_none hs : min_head hs = None -> concat hs = [].
Proof.
  induction hs as [|l hs IH]; cbn [min_head concat]; [reflexivity|].
  destruct l as [|t rest]; cbn [head_key].
  - intros H. rewrite (IH H). reflexivity.
  - destruct (min_head hs) as [m'|]; discriminate.
Qed.

Lemma min_head_le hs m :
  min_head hs = Some m -> Forall tsorted hs -> allge m (concat hs).
Proof.
  revert m. induction hs as [|l hs IH]; intros m; cbn [min_head concat]; [discriminate|].
  intros Hm Hs. inversion Hs as [|l' hs' Hl Hs']; subst.
  destruct l as [|t rest]; cbn [head_key] in Hm.
  - cbn [app]. apply IH; assumption.
  - apply allge_sorted_cons in Hl.
    destruct (min_head hs) as [m'|] eqn:E.
    + specialize (IH m' eq_refl Hs').
      inversion Hm as [Hm']; clear Hm. apply Forall_app.
      destruct (kleb (fst t) m') eqn:Ek.
      * split; [exact Hl|]. eapply allge_mono; [exact Ek|exact IH].
      * apply kleb_false in Ek. destruct Ek as [Ek _].
        split; [eapply allge_mono; [exact Ek|exact Hl]|exact IH].
    + inversion Hm; subst. apply min_head_none in E. rewrite E, app_nil_r. exact Hl.
Qed.

Lemma min_head_cands hs m : min_head hs = Some m -> (0 < count_cands m hs)%nat.
Proof.
  revert m. induction hs as [|l hs IH]; intros m; cbn [min_head count_cands]; [discriminate|].
  destruct l as [|t rest]; cbn [head_key okeqb].
  - intros H. specialize (IH m H). lia.
  - destruct (min_head hs) as [m'|] eqn:E.
    + intros Hm. inversion Hm as [Hm']; clear Hm.
      destruct (kleb (fst t) m') eqn:Ek.
      * rewrite keqb_refl. lia.
      * specialize (IH m' eq_refl). lia.
    + intros Hm. inversion Hm; subst. rewrite keqb_refl. lia.
Qed.

(** * [extract] *)
Lemma skip_some (l : list (triple L)) (o : option (triple L * list (list (triple L)))) t hs0 :
  match o with Some (t', hs'') => Some (t', l :: hs'') | None => None end = Some (t, hs0) ->
  exists hs'', o = Some (t, hs'') /\ hs0 = l :: hs''.
Proof.
  destruct o as [[t' hs'']|]; [|discriminate].
  intros H. inversion H; subst. exists hs''. split; reflexivity.
Qed.

Lemma extract_spec m hs : forall k t hs',
  extract k m hs = Some (t, hs') ->
  fst t = m /\ Permutation (concat hs) (t :: concat hs')
  /\ (Forall tsorted hs -> Forall tsorted hs').
Proof.
  induction hs as [|l hs IH]; intros k t hs'; cbn [extract]; [discriminate|].
  assert (Hskip : forall k', 
    match extract k' m hs with Some (t', hs'') => Some (t', l :: hs'') | None => None end
      = Some (t, hs') ->
    fst t = m /\ Permutation (concat (l :: hs)) (t :: concat hs')
    /\ (Forall tsorted (l :: hs) -> Forall tsorted hs')).
  { intros k' H. apply skip_some in H. destruct H as [hs'' [H ->]].
    destruct (IH _ _ _ H) as [H1 [H2 H3]]. split; [exact H1|]. split.
    - cbn [concat]. eapply Permutation_trans; [apply Permutation_app_head; exact H2|].
      apply Permutation_sym. apply Permutation_middle.
    - intros Hs. inversion Hs; subst. constructor; [assumption|]. apply H3. assumption. }
  destruct l as [|t0 rest]; [apply Hskip|].
  destruct (keqb (fst t0) m) eqn:E; [|apply Hskip].
  destruct k as [|k']; [|apply Hskip].
  intros H. inversion H; subst. apply keqb_eq in E. split; [exact E|]. split.
  - cbn [concat app]. apply Permutation_refl.
  - intros Hs. inversion Hs as [|l' hs' Hl Hs']; subst.
    constructor; [|exact Hs']. inversion Hl; subst. assumption.
Qed.

Lemma extract_some m hs : forall k, (k < count_cands m hs)%nat ->
  exists r, extract k m hs = Some r.
Proof.
  induction hs as [|l hs IH]; intros k; cbn [count_cands extract]; [lia|].
  assert (Hskip : forall k', (k' < count_cands m hs)%nat -> exists r,
    match extract k' m hs with Some (t', hs'') => Some (t', l :: hs'') | None => None end
      = Some r).
  { intros k' H. destruct (IH k' H) as [[t' hs''] ->]. eexists. reflexivity. }
  destruct l as [|t0 rest]; cbn [head_key okeqb].
  - intros H. apply Hskip. lia.
  - destruct (keqb (fst t0) m) eqn:E.
    + destruct k as [|k']; intros H; [eexists; reflexivity|]. apply Hskip. lia.
    + intros H. apply Hskip. lia.
Qed.

(** * The loop *)
Lemma kmerge_loop_spec fuel : forall ties hs,
  Forall tsorted hs -> (length (concat hs) <= fuel)%nat ->
  tsorted (kmerge_loop fuel ties hs) /\ Permutation (kmerge_loop fuel ties hs) (concat hs).
Proof.
  induction fuel as [|f IH]; intros ties hs Hs Hlen; cbn [kmerge_loop].
  - destruct (concat hs) as [|x c]; [|cbn [length] in Hlen; lia].
    split; constructor.
  - destruct (min_head hs) as [m|] eqn:Em.
    + pose proof (min_head_cands _ _ Em) as Hc.
      pose proof (min_head_le _ _ Em Hs) as Hge.
      destruct (extract_some m hs (Nat.modulo (hd O ties) (count_cands m hs))) as [[t hs'] Ex].
      { apply Nat.mod_upper_bound. lia. }
      rewrite Ex. destruct (extract_spec _ _ _ _ _ Ex) as [H1 [H2 H3]].
      specialize (H3 Hs).
      assert (Hlen' : (length (concat hs') <= f)%nat).
      { apply Permutation_length in H2. cbn [length] in H2. lia. }
      destruct (IH (tl ties) hs' H3 Hlen') as [IH1 IH2].
      split.
      * constructor; [exact IH1|].
        apply Forall_forall. intros x Hx. unfold tle. rewrite H1.
        unfold allge in Hge. rewrite Forall_forall in Hge. apply Hge.
        eapply Permutation_in; [apply Permutation_sym; exact H2|]. right.
        eapply Permutation_in; [exact IH2|exact Hx].
      * eapply Permutation_trans; [apply perm_skip; exact IH2|].
        apply Permutation_sym. exact H2.
    + apply min_head_none in Em. rewrite Em. split; constructor.
Qed.

End KMerge.

Theorem kmerge_sorted_perm : S_kmerge_sorted_perm.
Proof.
  intros L ties its Hs. unfold kmerge, sdedup.
  apply kmerge_loop_spec; [exact Hs|]. apply Nat.le_refl.
Qed.

Theorem kmerge_dedup : S_kmerge_dedup.
Proof.
  intros L ties its Hs. unfold kmerge, sdedup, kdedup.
  destruct (kmerge_loop_spec (length (concat its)) ties its Hs (Nat.le_refl _)) as [H1 H2].
  split.
  - rewrite sdedup_from_map_fst. f_equal.
    apply ksorted_perm_eq.
    + apply tsorted_map_fst. exact H1.
    + apply ksort_sorted.
    + eapply Permutation_trans; [apply Permutation_map; exact H2|].
      apply Permutation_sym. apply ksort_perm.
  - intros x Hx. apply sdedup_from_incl in Hx.
    eapply Permutation_in; [exact H2|exact Hx].
Qed.
