(** External parallel sorting of (labelled) pairs: [ParSortPairs::try_sort_labeled]
    (utils/par_sort_pairs.rs), [ParSortIters::sort_labeled] / [try_sort_labeled_seq]
    (utils/par_sort_iters.rs), the batch codecs [GapsCodec] / [GroupedGapsCodec]
    (utils/batch_codec/*.rs) and [KMergeIters] (utils/kmerge_iters.rs).
    Definitions only.

    What is an *argument* (theorems quantify over it):
    - the way the input is split among producers (thread states of [ParSortPairs], blocks
      of [ParSortIters], the single sequential producer) and the capacity of each
      producer's buffers ([Vec::with_capacity] may over-allocate): [prods];
    - the batch sort ([radix_sort_unstable] on the key only): a [Section] variable
      assumed to return a key-sorted permutation;
    - the choice among equal minima in the quaternary heap of [KMergeIters]: [ties]. *)
From WG Require Import Base.Prelude.

Module SortM.
Local Open Scope N_scope.

(** * Keys: pairs of nodes in lexicographic order *)
Definition skey : Type := (N * N)%type.
Definition keqb (a b : skey) : bool := (fst a =? fst b) && (snd a =? snd b).
Definition kleb (a b : skey) : bool :=
  (fst a <? fst b) || ((fst a =? fst b) && (snd a <=? snd b)).
Definition okeqb (o : option skey) (k : skey) : bool :=
  match o with Some a => keqb a k | None => false end.

(** result of a sort: [SErr] is the [Err] return ([ensure!(src < num_nodes)]), [SPanic]
    an index out of bounds on the per-partition vectors *)
Inductive sres (A : Type) : Type := SDone (a : A) | SErr | SPanic.
Arguments SDone {A} a.
Arguments SErr {A}.
Arguments SPanic {A}.

(** * Partitioning *)
(** [usize::div_ceil] *)
Definition div_ceil (a b : N) : N := a / b + (if a mod b =? 0 then 0 else 1).
Definition nodes_per_part (n : N) (p : nat) : N := div_ceil n (N.of_nat p).
Definition part_id (n : N) (p : nat) (src : N) : nat :=
  N.to_nat (src / nodes_per_part n p).
Definition boundaries (n : N) (p : nat) : list N :=
  map (fun i => N.min (i * nodes_per_part n p) n) (nseq 0 (S p)).
Definition in_part (n : N) (p : nat) (i : nat) (k : skey) : bool :=
  (nth i (boundaries n p) 0 <=? fst k) && (fst k <? nth (S i) (boundaries n p) 0).
(** requested batch size: [memory_usage.batch_size().div_ceil(num_buffers)] *)
Definition batch_size_par (mu : N) (threads p : nat) : N :=
  div_ceil mu (N.of_nat threads * N.of_nat p).
Definition batch_size_seq (mu : N) (p : nat) : N := div_ceil mu (N.of_nat p).

(** * Specification on keys *)
Fixpoint kinsert (k : skey) (l : list skey) : list skey :=
  match l with
  | [] => [k]
  | x :: l' => if kleb k x then k :: l else x :: kinsert k l'
  end.
Definition ksort (l : list skey) : list skey := fold_right kinsert [] l.
Fixpoint kdedup_from (prev : option skey) (l : list skey) : list skey :=
  match l with
  | [] => []
  | k :: l' => if okeqb prev k then kdedup_from prev l' else k :: kdedup_from (Some k) l'
  end.
Definition kdedup (dd : bool) (l : list skey) : list skey :=
  if dd then kdedup_from None l else l.
(** the keys partition [i] must return *)
Definition sort_spec (dd : bool) (n : N) (p : nat) (i : nat) (keys : list skey) : list skey :=
  filter (in_part n p i) (kdedup dd (ksort keys)).

Fixpoint upd_at {A} (i : nat) (f : A -> A) (l : list A) : list A :=
  match l, i with
  | [], _ => []
  | x :: l', O => f x :: l'
  | x :: l', S i' => x :: upd_at i' f l'
  end.

Section Labeled.
Context {L : Type}.

Definition triple : Type := (skey * L)%type.

(** keep the first element of every run of equal keys ([prev]: key of the last kept
    element): in-batch deduplication of the codecs and [last_pair] of [KMergeIters] *)
Fixpoint sdedup_from (prev : option skey) (b : list triple) : list triple :=
  match b with
  | [] => []
  | t :: b' =>
      if okeqb prev (fst t) then sdedup_from prev b'
      else t :: sdedup_from (Some (fst t)) b'
  end.
Definition sdedup (dd : bool) (b : list triple) : list triple :=
  if dd then sdedup_from None b else b.

(** * Batch codecs: the content of a batch file as a sequence of written values *)
Inductive tok : Type := TN (x : N) | TL (l : L).

(** [batch.windows(2).filter(|w| w[0].0 != w[1].0).count()] *)
Fixpoint count_changes (b : list triple) : N :=
  match b with
  | t1 :: ((t2 :: _) as b') => (if keqb (fst t1) (fst t2) then 0 else 1) + count_changes b'
  | _ => 0
  end.
Definition batch_len (cd : bool) (b : list triple) : N :=
  if cd then match b with [] => 0 | _ => 1 + count_changes b end else nlen b.

(** ** [GapsCodec]: length, then (source gap, destination gap, label) per triple; the
    previous destination is reset when the source changes *)
Fixpoint gaps_enc_body (cd : bool) (prev : option skey) (ps pd : N) (b : list triple)
  : list tok :=
  match b with
  | [] => []
  | ((s, d), l) :: b' =>
      if cd && okeqb prev (s, d) then gaps_enc_body cd prev ps pd b'
      else
        let pd' := if s =? ps then pd else 0 in
        TN (s - ps) :: TN (d - pd') :: TL l :: gaps_enc_body cd (Some (s, d)) s d b'
  end.
Definition gaps_encode (cd : bool) (b : list triple) : list tok :=
  TN (batch_len cd b) :: gaps_enc_body cd None 0 0 b.

(** [GapsIter::next], [cnt] = [len - current]; a failed read ends the iteration *)
Fixpoint gaps_dec_body (cnt : N) (ps pd : N) (ts : list tok) : list triple :=
  if cnt =? 0 then []
  else
    match ts with
    | TN sg :: TN dg :: TL l :: rest =>
        let s := ps + sg in
        let pd' := if sg =? 0 then pd else 0 in
        let d := pd' + dg in
        ((s, d), l) :: gaps_dec_body (cnt - 1) s d rest
    | _ => []
    end.
Definition gaps_decode (ts : list tok) : list triple :=
  match ts with
  | TN len :: rest => gaps_dec_body len 0 0 rest
  | _ => []
  end.

(** ** [GroupedGapsCodec]: length, then per run of equal sources (source gap, outdegree)
    followed by (destination gap, label) per kept triple *)
Fixpoint run_len (s : N) (b : list triple) : N :=
  match b with
  | ((s', _), _) :: b' => if s' =? s then 1 + run_len s b' else 0
  | [] => 0
  end.
(** [group.windows(2).filter(|w| w[0].0.1 != w[1].0.1).count()] on the run of source [s]
    at the head of [b] *)
Fixpoint run_changes (s : N) (b : list triple) : N :=
  match b with
  | ((s1, d1), _) :: ((((s2, d2), _) :: _) as b') =>
      if (s1 =? s) && (s2 =? s) then (if d1 =? d2 then 0 else 1) + run_changes s b' else 0
  | _ => 0
  end.
Definition group_outdeg (cd : bool) (s : N) (b : list triple) : N :=
  if cd then 1 + run_changes s b else run_len s b.

(** [cur]: source of the group being written ([None] before the first group; the
    previous source is then 0); [lastd]: [last_written_dst]; [pd]: [prev_dst] *)
Fixpoint grouped_enc_body (cd : bool) (cur : option N) (lastd : option N) (pd : N)
  (b : list triple) : list tok :=
  match b with
  | [] => []
  | ((s, d), l) :: b' =>
      if match cur with Some c => c =? s | None => false end then
        if cd && match lastd with Some x => x =? d | None => false end
        then grouped_enc_body cd cur lastd pd b'
        else TN (d - pd) :: TL l :: grouped_enc_body cd cur (Some d) d b'
      else
        let ps := match cur with Some c => c | None => 0 end in
        TN (s - ps) :: TN (group_outdeg cd s b) :: TN d :: TL l
           :: grouped_enc_body cd (Some s) (Some d) d b'
  end.
Definition grouped_encode (cd : bool) (b : list triple) : list tok :=
  TN (batch_len cd b) :: grouped_enc_body cd None None 0 b.

(** [GroupedGapsIter::next]; fuel = number of values still to read *)
Fixpoint grouped_dec_body (fuel : nat) (cnt src left pd : N) (ts : list tok) : list triple :=
  match fuel with
  | O => []
  | S f =>
    if cnt =? 0 then []
    else
      let hdr :=
        if left =? 0 then
          match ts with
          | TN sg :: TN od :: rest => Some (src + sg, od, 0, rest)
          | _ => None
          end
        else Some (src, left, pd, ts) in
      match hdr with
      | Some (src', left', pd', TN dg :: TL l :: rest) =>
          ((src', pd' + dg), l) :: grouped_dec_body f (cnt - 1) src' (left' - 1) (pd' + dg) rest
      | _ => []
      end
  end.
Definition grouped_decode (ts : list tok) : list triple :=
  match ts with
  | TN len :: rest => grouped_dec_body (length rest) len 0 0 0 rest
  | _ => []
  end.

Inductive codec_kind : Type := CGaps | CGrouped.
Definition codec_encode (k : codec_kind) (cd : bool) (b : list triple) : list tok :=
  match k with CGaps => gaps_encode cd b | CGrouped => grouped_encode cd b end.
Definition codec_decode (k : codec_kind) (ts : list tok) : list triple :=
  match k with CGaps => gaps_decode ts | CGrouped => grouped_decode ts end.
(** [encode_sorted_batch] then [decode_batch] *)
Definition codec_rt (k : codec_kind) (cd : bool) (b : list triple) : list triple :=
  codec_decode k (codec_encode k cd b).

(** * [KMergeIters] *)
Definition head_key (l : list triple) : option skey :=
  match l with [] => None | t :: _ => Some (fst t) end.
(** the smallest head key (top of the heap) *)
Fixpoint min_head (hs : list (list triple)) : option skey :=
  match hs with
  | [] => None
  | l :: hs' =>
      match head_key l, min_head hs' with
      | None, m => m
      | Some k, None => Some k
      | Some k, Some m => Some (if kleb k m then k else m)
      end
  end.
Fixpoint count_cands (m : skey) (hs : list (list triple)) : nat :=
  match hs with
  | [] => O
  | l :: hs' => ((if okeqb (head_key l) m then 1 else 0) + count_cands m hs')%nat
  end.
(** advance the [k]-th iterator whose head has key [m]: its head and the new heap *)
Fixpoint extract (k : nat) (m : skey) (hs : list (list triple))
  : option (triple * list (list triple)) :=
  match hs with
  | [] => None
  | l :: hs' =>
      let skip k' :=
        match extract k' m hs' with Some (t, hs'') => Some (t, l :: hs'') | None => None end in
      match l with
      | t :: rest =>
          if keqb (fst t) m then
            match k with O => Some (t, rest :: hs') | S k' => skip k' end
          else skip k
      | [] => skip k
      end
  end.
(** the merged sequence before deduplication; [ties]: which of the iterators with a
    minimal head the heap surfaces at each step *)
Fixpoint kmerge_loop (fuel : nat) (ties : list nat) (hs : list (list triple)) : list triple :=
  match fuel with
  | O => []
  | S f =>
      match min_head hs with
      | None => []
      | Some m =>
          match extract (Nat.modulo (hd O ties) (count_cands m hs)) m hs with
          | Some (t, hs') => t :: kmerge_loop f (tl ties) hs'
          | None => []
          end
      end
  end.
(** [md] = const generic [DEDUP] of [KMergeIters] *)
Definition kmerge (md : bool) (ties : list nat) (iters : list (list triple)) : list triple :=
  sdedup md (kmerge_loop (length (concat iters)) ties iters).

(** * Producers: per partition, the in-memory buffer and the raw batches flushed so far *)
Definition pstate : Type := list (list triple * list (list triple)).
Definition init_state (p : nat) : pstate := repeat ([], []) p.
(** [if buf.len() >= buf.capacity() { flush } buf.push(t)] *)
Definition push_buf (cap : nat) (t : triple) (s : list triple * list (list triple))
  : list triple * list (list triple) :=
  let (buf, bs) := s in
  if (cap <=? length buf)%nat then ([t], bs ++ [buf]) else (buf ++ [t], bs).
Definition pstep (n : N) (p : nat) (cap : nat) (st : pstate) (t : triple) : sres pstate :=
  if n <=? fst (fst t) then SErr
  else
    let pid := part_id n p (fst (fst t)) in
    if (p <=? pid)%nat then SPanic else SDone (upd_at pid (push_buf cap t) st).
Fixpoint feed (n : N) (p : nat) (cap : nat) (st : pstate) (ts : list triple) : sres pstate :=
  match ts with
  | [] => SDone st
  | t :: ts' =>
      match pstep n p cap st t with
      | SDone st' => feed n p cap st' ts'
      | SErr => SErr
      | SPanic => SPanic
      end
  end.
(** the final flush writes every buffer, empty ones included *)
Definition finish (st : pstate) : list (list (list triple)) :=
  map (fun s => snd s ++ [fst s]) st.
(** one producer: (buffer capacity, the triples it receives, in order) *)
Definition producer (n : N) (p : nat) (pr : nat * list triple) : sres (list (list (list triple))) :=
  match feed n p (fst pr) (init_state p) (snd pr) with
  | SDone st => SDone (finish st)
  | SErr => SErr
  | SPanic => SPanic
  end.
Fixpoint run_producers (n : N) (p : nat) (prods : list (nat * list triple))
  : sres (list (list (list (list triple)))) :=
  match prods with
  | [] => SDone []
  | pr :: prods' =>
      match producer n p pr with
      | SDone o =>
          match run_producers n p prods' with
          | SDone os => SDone (o :: os)
          | SErr => SErr
          | SPanic => SPanic
          end
      | SErr => SErr
      | SPanic => SPanic
      end
  end.
(** the raw batches of partition [i], producer after producer *)
Definition batches_of (outs : list (list (list (list triple)))) (i : nat) : list (list triple) :=
  flat_map (fun o => nth i o []) outs.

Section Gen.
Variable sort : list triple -> list triple.
Variable rt : bool -> list triple -> list triple.
(** [flush_buffer]: sort, encode to a file, decode lazily from it *)
Definition flush_batch (cd : bool) (b : list triple) : list triple := rt cd (sort b).
Definition sort_pipeline_gen (n : N) (p : nat) (cd md : bool)
  (prods : list (nat * list triple)) (ties : list (list nat))
  : sres (list N * list (list triple)) :=
  match run_producers n p prods with
  | SDone outs =>
      SDone (boundaries n p,
             map (fun i => kmerge md (nth i ties []) (map (flush_batch cd) (batches_of outs i)))
                 (seq 0 p))
  | SErr => SErr
  | SPanic => SPanic
  end.
End Gen.

(** a concrete batch sort: insertion sort on the key *)
Fixpoint tinsert (t : triple) (l : list triple) : list triple :=
  match l with
  | [] => [t]
  | x :: l' => if kleb (fst t) (fst x) then t :: l else x :: tinsert t l'
  end.
Definition isort (l : list triple) : list triple := fold_right tinsert [] l.

Definition sort_pipeline (k : codec_kind) (n : N) (p : nat) (cd md : bool)
  (prods : list (nat * list triple)) (ties : list (list nat))
  : sres (list N * list (list triple)) :=
  sort_pipeline_gen isort (codec_rt k) n p cd md prods ties.

End Labeled.

Arguments tok L : clear implicits.
Arguments triple L : clear implicits.


End SortM.
Export SortM.
