(** Facts on key-sorted lists, the key-level specification functions ([ksort], [kdedup])
    and [sdedup_from]; the insertion sort is an admissible batch sort. *)
From WG Require Import Base.Prelude Sort.Pipeline Sort.Statements Sort.OrderFacts.
From Coq Require Import ZifyBool ZifyN ZifyNat.
Local Open Scope N_scope.

(** * Generic facts *)
Lemma SSorted_filter {A} (R : A -> A -> Prop) (f : A -> bool) l :
  StronglySorted R l -> StronglySorted R (filter f l).
Proof.
  induction 1 as [|a l Hs IH Hf]; cbn [filter]; [constructor|].
  destruct (f a) eqn:E; [|exact IH].
  constructor; [exact IH|].
  apply Forall_forall. intros x Hx. apply filter_In in Hx. destruct Hx as [Hx _].
  rewrite Forall_forall in Hf. apply Hf. exact Hx.
Qed.

Lemma perm_filter {A} (f : A -> bool) l1 l2 :
  Permutation l1 l2 -> Permutation (filter f l1) (filter f l2).
Proof.
  induction 1 as [|x l l' HP IH|x y l|l l' l'' HP1 IH1 HP2 IH2]; cbn [filter].
  - constructor.
  - destruct (f x) eqn:E; [constructor; exact IH|exact IH].
  - destruct (f x) eqn:Ex; destruct (f y) eqn:Ey; try apply Permutation_refl.
    apply perm_swap.
  - eapply Permutation_trans; eassumption.
Qed.

Lemma map_fst_filter {L} (f : skey -> bool) (l : list (triple L)) :
  map fst (filter (fun t => f (fst t)) l) = filter f (map fst l).
Proof.
  induction l as [|t l IH]; cbn [filter map]; [reflexivity|].
  destruct (f (fst t)) eqn:E; cbn [map]; rewrite IH; reflexivity.
Qed.

(** * Key-sorted lists *)
Lemma tsorted_map_fst {L} (l : list (triple L)) : tsorted l <-> ksorted (map fst l).
Proof.
  unfold tsorted, ksorted. split.
  - induction 1 as [|a l Hs IH Hf]; cbn [map]; constructor; [exact IH|].
    apply Forall_map. exact Hf.
  - induction l as [|a l IH]; cbn [map]; intros H; [constructor|].
    inversion H as [|a' l' Hs Hf]; subst. constructor; [apply IH; exact Hs|].
    rewrite Forall_map in Hf. exact Hf.
Qed.

Lemma ksorted_filter f l : ksorted l -> ksorted (filter f l).
Proof. apply SSorted_filter. Qed.

Lemma tsorted_filter {L} f (l : list (triple L)) : tsorted l -> tsorted (filter f l).
Proof. apply SSorted_filter. Qed.

Lemma kinsert_perm k l : Permutation (kinsert k l) (k :: l).
Proof.
  induction l as [|x l IH]; cbn [kinsert]; [apply Permutation_refl|].
  destruct (kleb k x) eqn:E; [apply Permutation_refl|].
  eapply Permutation_trans; [apply perm_skip; exact IH|apply perm_swap].
Qed.

Lemma ksort_perm l : Permutation (ksort l) l.
Proof.
  induction l as [|k l IH]; cbn [ksort fold_right]; [constructor|].
  eapply Permutation_trans; [apply kinsert_perm|]. constructor. exact IH.
Qed.

Lemma kinsert_sorted k l : ksorted l -> ksorted (kinsert k l).
Proof.
  unfold ksorted. induction 1 as [|x l Hs IH Hf]; cbn [kinsert].
  - constructor; constructor.
  - destruct (kleb k x) eqn:E.
    + constructor; [constructor; assumption|].
      constructor; [exact E|].
      eapply Forall_impl; [|exact Hf]. intros y Hy. unfold kle in *.
      eapply kleb_trans; eassumption.
    + constructor; [exact IH|].
      apply kleb_false in E. destruct E as [E _].
      eapply Permutation_Forall; [apply Permutation_sym; apply kinsert_perm|].
      constructor; [exact E|exact Hf].
Qed.

Lemma ksort_sorted l : ksorted (ksort l).
Proof.
  induction l as [|k l IH]; cbn [ksort fold_right]; [constructor|].
  apply kinsert_sorted. exact IH.
Qed.

Lemma ksorted_perm_eq l1 l2 : ksorted l1 -> ksorted l2 -> Permutation l1 l2 -> l1 = l2.
Proof.
  unfold ksorted. intros H1. revert l2.
  induction H1 as [|a l1 Hs1 IH Hf1]; intros l2 H2 HP.
  - apply Permutation_nil in HP. symmetry. exact HP.
  - destruct H2 as [|b l2 Hs2 Hf2].
    + apply Permutation_sym in HP. apply Permutation_nil in HP. discriminate.
    + assert (Hab : a = b).
      { assert (Ha : In a (b :: l2)) by (eapply Permutation_in; [exact HP|left; reflexivity]).
        assert (Hb : In b (a :: l1)).
        { eapply Permutation_in; [apply Permutation_sym; exact HP|left; reflexivity]. }
        rewrite Forall_forall in Hf1, Hf2.
        destruct Ha as [Ha|Ha]; [symmetry; exact Ha|].
        destruct Hb as [Hb|Hb]; [exact Hb|].
        apply kleb_antisym; [apply Hf1; exact Hb|apply Hf2; exact Ha]. }
      subst b. f_equal. apply IH; [exact Hs2|].
      eapply Permutation_cons_inv. exact HP.
Qed.

(** * Strictly increasing key lists *)
Definition kstrict (l : list skey) : Prop :=
  StronglySorted (fun a b => kleb a b = true /\ a <> b) l.

Lemma kstrict_filter f l : kstrict l -> kstrict (filter f l).
Proof. apply SSorted_filter. Qed.

Lemma kstrict_same_set_eq l1 l2 :
  kstrict l1 -> kstrict l2 -> (forall x, In x l1 <-> In x l2) -> l1 = l2.
Proof.
  unfold kstrict. intros H1. revert l2.
  induction H1 as [|a l1 Hs1 IH Hf1]; intros l2 H2 HI.
  - destruct l2 as [|b l2]; [reflexivity|].
    exfalso. apply (HI b). left. reflexivity.
  - destruct H2 as [|b l2 Hs2 Hf2].
    + exfalso. apply (HI a). left. reflexivity.
    + rewrite Forall_forall in Hf1, Hf2.
      assert (Hab : a = b).
      { assert (Ha : In a (b :: l2)) by (apply HI; left; reflexivity).
        assert (Hb : In b (a :: l1)) by (apply HI; left; reflexivity).
        destruct Ha as [Ha|Ha]; [symmetry; exact Ha|].
        destruct Hb as [Hb|Hb]; [exact Hb|].
        apply kleb_antisym; [apply Hf1; exact Hb|apply Hf2; exact Ha]. }
      subst b. f_equal. apply IH; [exact Hs2|].
      intros x. split; intros Hx.
      * assert (Hx' : In x (a :: l2)) by (apply HI; right; exact Hx).
        destruct Hx' as [Hx'|Hx']; [|exact Hx'].
        exfalso. apply (Hf1 x Hx). exact Hx'.
      * assert (Hx' : In x (a :: l1)) by (apply HI; right; exact Hx).
        destruct Hx' as [Hx'|Hx']; [|exact Hx'].
        exfalso. apply (Hf2 x Hx). exact Hx'.
Qed.

(** * [kdedup_from] *)
Definition ole (o : option skey) (x : skey) : Prop :=
  match o with Some p => kleb p x = true | None => True end.
Definition olt (o : option skey) (x : skey) : Prop :=
  match o with Some p => kleb p x = true /\ p <> x | None => True end.

Lemma okeqb_true o k : okeqb o k = true <-> o = Some k.
Proof.
  destruct o as [p|]; cbn [okeqb].
  - rewrite keqb_eq. split; congruence.
  - split; discriminate.
Qed.

Lemma kdedup_from_strict_gen l : forall prev,
  ksorted l -> Forall (ole prev) l ->
  kstrict (kdedup_from prev l) /\ Forall (olt prev) (kdedup_from prev l).
Proof.
  unfold ksorted, kstrict.
  induction l as [|k l IH]; intros prev Hs Ho; cbn [kdedup_from].
  - split; constructor.
  - inversion Hs as [|k' l' Hs' Hf]; subst.
    inversion Ho as [|k' l' Hok Ho']; subst.
    destruct (okeqb prev k) eqn:E.
    + apply IH; assumption.
    + destruct (IH (Some k) Hs') as [IH1 IH2].
      { eapply Forall_impl; [|exact Hf]. intros y Hy. exact Hy. }
      split.
      * constructor; [exact IH1|]. exact IH2.
      * destruct prev as [p|]; [|apply Forall_forall; intros; exact I].
        cbn [okeqb] in E. apply keqb_neq in E. cbn [ole] in Hok.
        constructor; [split; assumption|].
        eapply Forall_impl; [|exact IH2]. cbn [olt]. intros y [Hy1 Hy2].
        split; [eapply kleb_trans; eassumption|].
        intros ->. apply E. apply kleb_antisym; assumption.
Qed.

Lemma kdedup_from_strict l : ksorted l -> kstrict (kdedup_from None l).
Proof.
  intros H. apply kdedup_from_strict_gen; [exact H|].
  apply Forall_forall. intros; exact I.
Qed.

Lemma kdedup_from_in_l prev l x : In x (kdedup_from prev l) -> In x l.
Proof.
  revert prev. induction l as [|k l IH]; intros prev; cbn [kdedup_from]; [tauto|].
  destruct (okeqb prev k) eqn:E.
  - intros H. right. eapply IH. exact H.
  - intros [H|H]; [left; exact H|right; eapply IH; exact H].
Qed.

Lemma kdedup_from_in_r prev l x :
  In x l -> prev = Some x \/ In x (kdedup_from prev l).
Proof.
  revert prev. induction l as [|k l IH]; intros prev; cbn [kdedup_from]; [intros []|].
  destruct (okeqb prev k) eqn:E.
  - intros [H|H]; [subst; left; apply okeqb_true; exact E|apply IH; exact H].
  - intros [H|H]; [right; left; exact H|].
    destruct (IH (Some k) H) as [H'|H']; right; [left; congruence|right; exact H'].
Qed.

Lemma kdedup_from_in l x : In x (kdedup_from None l) <-> In x l.
Proof.
  split; [apply kdedup_from_in_l|].
  intros H. destruct (kdedup_from_in_r None l x H) as [H'|H']; [discriminate|exact H'].
Qed.

(** * [sdedup_from] *)
Lemma sdedup_from_map_fst {L} prev (b : list (triple L)) :
  map fst (sdedup_from prev b) = kdedup_from prev (map fst b).
Proof.
  revert prev. induction b as [|t b IH]; intros prev; cbn [sdedup_from map kdedup_from].
  - reflexivity.
  - destruct (okeqb prev (fst t)) eqn:E; [apply IH|].
    cbn [map]. rewrite IH. reflexivity.
Qed.

Lemma sdedup_from_incl {L} prev (b : list (triple L)) : incl (sdedup_from prev b) b.
Proof.
  revert prev. induction b as [|t b IH]; intros prev; cbn [sdedup_from].
  - apply incl_refl.
  - destruct (okeqb prev (fst t)) eqn:E.
    + apply incl_tl. apply IH.
    + apply incl_cons; [left; reflexivity|]. apply incl_tl. apply IH.
Qed.

Lemma sdedup_from_sorted {L} prev (b : list (triple L)) :
  tsorted b -> tsorted (sdedup_from prev b).
Proof.
  unfold tsorted. intros H. revert prev.
  induction H as [|t b Hs IH Hf]; intros prev; cbn [sdedup_from]; [constructor|].
  destruct (okeqb prev (fst t)) eqn:E; [apply IH|].
  constructor; [apply IH|].
  apply Forall_forall. intros x Hx. rewrite Forall_forall in Hf. apply Hf.
  eapply sdedup_from_incl. exact Hx.
Qed.

(** * The insertion sort *)
Lemma tinsert_perm {L} (t : triple L) l : Permutation (tinsert t l) (t :: l).
Proof.
  induction l as [|x l IH]; cbn [tinsert]; [apply Permutation_refl|].
  destruct (kleb (fst t) (fst x)) eqn:E; [apply Permutation_refl|].
  eapply Permutation_trans; [apply perm_skip; exact IH|apply perm_swap].
Qed.

Lemma isort_perm {L} (l : list (triple L)) : Permutation (isort l) l.
Proof.
  induction l as [|k l IH]; cbn [isort fold_right]; [constructor|].
  eapply Permutation_trans; [apply tinsert_perm|]. constructor. exact IH.
Qed.

Lemma tinsert_map_fst {L} (t : triple L) l :
  map fst (tinsert t l) = kinsert (fst t) (map fst l).
Proof.
  induction l as [|x l IH]; cbn [tinsert map kinsert]; [reflexivity|].
  destruct (kleb (fst t) (fst x)) eqn:E; cbn [map]; [reflexivity|].
  rewrite IH. reflexivity.
Qed.

Lemma isort_map_fst {L} (l : list (triple L)) : map fst (isort l) = ksort (map fst l).
Proof.
  induction l as [|t l IH]; cbn [isort fold_right map ksort]; [reflexivity|].
  rewrite tinsert_map_fst. f_equal. exact IH.
Qed.

Theorem isort_ok : S_isort_ok.
Proof.
  intros L l. split; [apply isort_perm|].
  apply tsorted_map_fst. rewrite isort_map_fst. apply ksort_sorted.
Qed.
