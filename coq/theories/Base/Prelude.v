(** Shared imports, arithmetic conventions and small list utilities. Definitions only
    (lemmas about them live in Base/PreludeFacts.v). *)
From Coq Require Export List NArith ZArith Lia Bool Permutation Arith.
From Coq Require Export Sorting.Sorted Sorting.Mergesort Orders.
Export ListNotations.

Global Arguments N.add : simpl never.
Global Arguments N.sub : simpl never.
Global Arguments N.mul : simpl never.
Global Arguments N.div : simpl never.
Global Arguments N.modulo : simpl never.
Global Arguments N.ltb : simpl never.
Global Arguments N.leb : simpl never.
Global Arguments N.eqb : simpl never.
Global Arguments N.pow : simpl never.
Global Arguments N.log2 : simpl never.
Global Arguments N.of_nat : simpl never.
Global Arguments N.to_nat : simpl never.
Global Arguments Z.add : simpl never.
Global Arguments Z.sub : simpl never.
Global Arguments Z.mul : simpl never.
Global Arguments Z.of_N : simpl never.
Global Arguments Z.to_N : simpl never.

Local Open Scope N_scope.

(** dsi-bitstream's [ToNat]/[ToInt]: the bijection between integers and naturals
    used for the first interval start and the first residual. *)
Definition to_nat (z : Z) : N :=
  if (0 <=? z)%Z then Z.to_N (2 * z) else Z.to_N (- 2 * z - 1).
Definition to_int (n : N) : Z :=
  if N.even n then Z.of_N (n / 2) else (- Z.of_N ((n + 1) / 2))%Z.

(** option monad *)
Definition obind {A B} (o : option A) (f : A -> option B) : option B :=
  match o with Some a => f a | None => None end.
Notation "x <- e ;; k" := (obind e (fun x => k))
  (at level 61, e at next level, right associativity).
Notation "' p <- e ;; k" := (obind e (fun p => k))
  (at level 61, p pattern, e at next level, right associativity).

(** [nseq a n] = [a; a+1; ...; a+n-1] over N. *)
Fixpoint nseq (a : N) (n : nat) : list N :=
  match n with O => [] | S n' => a :: nseq (a + 1) n' end.

Definition nlen {A} (l : list A) : N := N.of_nat (length l).

Fixpoint nsum (l : list N) : N :=
  match l with [] => 0 | x :: l' => x + nsum l' end.

(** Strictly increasing lists of naturals. *)
Definition inc (l : list N) : Prop := StronglySorted N.lt l.

Fixpoint incb_from (p : N) (l : list N) : bool :=
  match l with [] => true | x :: l' => (p <? x) && incb_from x l' end.
Definition incb (l : list N) : bool :=
  match l with [] => true | x :: l' => incb_from x l' end.

(** Merge sort on N (stdlib functor). *)
Module NOrder <: TotalLeBool.
  Definition t := N.
  Definition leb := N.leb.
  Theorem leb_total : forall a1 a2, leb a1 a2 = true \/ leb a2 a1 = true.
  Proof. intros a b. unfold leb. destruct (N.leb_spec a b); [left; reflexivity|right].
         apply N.leb_le. lia. Qed.
End NOrder.
Module NSort := Sort NOrder.
Definition nsort : list N -> list N := NSort.sort.

(** nth with explicit failure *)
Fixpoint nth_opt {A} (l : list A) (n : nat) : option A :=
  match l, n with
  | [], _ => None
  | x :: _, O => Some x
  | _ :: l', S n' => nth_opt l' n'
  end.
