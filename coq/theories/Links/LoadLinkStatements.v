(** LINK C12 o C01/C03 — loading a graph from what the compressor left on disk.
    Definitions and statements only.

    [BvGraphSeq::with_basename] / [BvGraph::with_basename] (load.rs) know NOTHING of the
    compressor's configuration except the text of the .properties file: they parse it
    ([parse_properties]: node count, arc count, [CompFlags::from_properties]) and build
    their decoder from the parsed flags.  C12 proves that what [to_properties] writes parses
    back; C01/C03 prove that a decoder configured with the ENCODER's parameters returns the
    graph.  Here the two are composed: the decoder is configured from the parsed text. *)
From Coq Require Import String.
From WG Require Import Base.Prelude Codes.Codes BV.Model BV.RefSel BV.Bits BV.BitsFacts
  BV.Access BV.AccessStatements Flags.Props.
Local Open Scope N_scope.

(** the compressor's parameters as recorded in [CompFlags] ([max_ref_count] is a raw
    [usize]; the all-ones value is "unbounded") *)
Definition params_of_flags (f : flags) : params :=
  mkParams (fl_window f)
           (if fl_maxref f =? 18446744073709551615 then None else Some (fl_maxref f))
           (fl_minlen f).

(** sequential load: parse the properties, decode [nodes] lists with the parsed flags *)
Definition load_seq (le : bool) (text : string) (s : bits) : option (list (list N) * bits) :=
  match parse_properties le text with
  | Some (n, _, f) =>
      decode_graph bits (rd_bits le (fl_codes f)) (params_of_flags f) (N.to_nat n) s
  | None => None
  end.

(** random-access load: parse the properties, seek through the offsets, decode node [x]
    with at most [fuel] nested reference resolutions *)
Definition load_ra (le : bool) (text : string) (offs : list N) (s : bits) (fuel : nat) (x : N)
  : option (list N) :=
  match parse_properties le text with
  | Some (_, _, f) =>
      ra_labels bits (rd_bits le (fl_codes f)) (seek_bits offs s) (params_of_flags f) fuel x
  | None => None
  end.

(** the statistics a compressor reports for [g] *)
Definition stats_for (g : list (list N)) (st : stats) : Prop :=
  s_nodes st = nlen g /\ s_arcs st = nlen (concat g).

(** A configuration whose properties can be written at all has decodable codes: the
    [codes_ok] hypothesis of the C01/C03 theorems is implied by the existence of the file. *)
Definition S_link_written_codes_ok : Prop := forall le st f text,
  to_props le st f = Some text -> codes_ok (fl_codes f) = true.

(** The graph loaded from (properties text, bit stream) is the graph that was compressed:
    every flags record the format can express, both endiannesses, every valid selection,
    every strictly increasing graph, trailing bits untouched. *)
Definition S_link_load_seq : Prop := forall le st f text g sel rest,
  to_props le st f = Some text -> stats_for g st ->
  Forall inc g -> valid_sel (params_of_flags f) [] g sel = true ->
  load_seq le text
    (graph_bits le (fl_codes f) (encode_graph (params_of_flags f) 0 g sel) ++ rest)
  = Some (g, rest).

(** ... in particular for the greedy compressor's own selection *)
Definition S_link_load_seq_greedy : Prop := forall le st f text g rest,
  to_props le st f = Some text -> stats_for g st -> Forall inc g ->
  let p := params_of_flags f in
  load_seq le text
    (graph_bits le (fl_codes f) (encode_graph p 0 g (greedy_sel p (fl_codes f) 0 g)) ++ rest)
  = Some (g, rest).

(** Random access on the loaded graph returns each node's list. *)
Definition S_link_load_ra : Prop := forall le st f text g sel rest fuel x l,
  to_props le st f = Some text -> stats_for g st ->
  Forall inc g -> valid_sel (params_of_flags f) [] g sel = true ->
  nth_opt g x = Some l -> (x < fuel)%nat ->
  let p := params_of_flags f in
  load_ra le text (enc_offs le (fl_codes f) p g sel) (enc_stream le (fl_codes f) p g sel rest)
    fuel (N.of_nat x) = Some l.

(** Loading with the other endianness is refused (no garbage graph is returned). *)
Definition S_link_load_wrong_endianness : Prop := forall le st f text s offs fuel x,
  to_props le st f = Some text ->
  load_seq (negb le) text s = None /\ load_ra (negb le) text offs s fuel x = None.

(** ** The same for the output of PARALLEL compression (C04): for every legal cut sequence,
    every per-chunk valid selection and every completion order of the workers, the graph
    loaded from the properties text and the spliced stream is the input graph. *)
From WG Require Import Par.Splice.
Definition S_link_load_par : Prop := forall le st f text cuts g sels arrival rest,
  to_props le st f = Some text -> stats_for g st -> Forall inc g ->
  let cs := fl_codes f in let p := params_of_flags f in
  legal_cuts cuts (nlen g) = true ->
  valid_sels p (segments cuts g) sels = true ->
  Permutation arrival (seq 0 (length cuts - 1)) ->
  exists bs lens,
    par_comp le cs p cuts g sels arrival = SpliceOk bs lens (nsum (map nlen g)) (nlen g)
    /\ load_seq le text (bs ++ rest) = Some (g, rest).

(** ** The [--dcf] pipeline (C10 o C04 o C12): cutpoints balanced on the degree cumulative
    function of the graph itself ([ParGraph::with_dcf], any number of parts [k > 0], any
    degree distribution — arcless graphs, trailing sinks, [k] larger than the node count)
    are legal cutpoints for parallel compression, and what it writes loads back. *)
From WG Require Import Split.Model.
Definition S_link_dcf_par_load : Prop := forall le st f text g sels arrival rest k,
  to_props le st f = Some text -> stats_for g st -> Forall inc g -> 0 < k ->
  let cs := fl_codes f in let p := params_of_flags f in
  let cwf := dcf_of (scan g) in
  let cuts := dcf_cuts cwf (nlen g) (last cwf 0) k in
  valid_sels p (segments cuts g) sels = true ->
  Permutation arrival (seq 0 (length cuts - 1)) ->
  legal_cuts cuts (nlen g) = true
  /\ exists bs lens,
       par_comp le cs p cuts g sels arrival = SpliceOk bs lens (nsum (map nlen g)) (nlen g)
       /\ load_seq le text (bs ++ rest) = Some (g, rest).

(** ** Loading from the three files (C12 o C05 o C03): the offsets table is not given but
    READ from the .offsets file (n+1 γ-coded gaps, n taken from the properties text,
    cumulated), and random access through it returns each node's list; the [length] key of
    the text is the last offset read. *)
Definition load_offsets (n : N) (obits : bits) : option (list N) :=
  match dec_gammas (S (N.to_nat n)) obits with
  | Some (gaps, _) => Some (tl (prefix_sums 0 gaps))
  | None => None
  end.

Definition load_ra_files (le : bool) (text : string) (obits s : bits) (fuel : nat) (x : N)
  : option (list N) :=
  match parse_properties le text with
  | Some (n, _, f) =>
      match load_offsets n obits with
      | Some offs =>
          ra_labels bits (rd_bits le (fl_codes f)) (seek_bits offs s) (params_of_flags f) fuel x
      | None => None
      end
  | None => None
  end.

Definition S_link_load_files : Prop := forall le st f text g sel rest orest fuel x l,
  to_props le st f = Some text -> stats_for g st ->
  Forall inc g -> valid_sel (params_of_flags f) [] g sel = true ->
  nth_opt g x = Some l -> (x < fuel)%nat ->
  let cs := fl_codes f in let p := params_of_flags f in
  let recs := encode_graph p 0 g sel in
  let obits := offsets_bits (node_bitlens le cs recs) ++ orest in
  load_offsets (nlen g) obits = Some (enc_offs le cs p g sel)
  /\ load_ra_files le text obits (enc_stream le cs p g sel rest) fuel (N.of_nat x) = Some l
  /\ (s_bits st = nlen (graph_bits le cs recs) ->
      props_length text = Some (last (enc_offs le cs p g sel) 0)).

(** ** The recompression pipeline at file level (C20 o C12 o C04): a graph stored under
    configuration A — known to the tool only through A's properties text — is loaded,
    recompressed in parallel under ANY configuration B (endianness, codes, window, cut
    sequence, per-chunk selections, completion order), B's properties are written, and a
    second reader that sees only B's text and the new stream obtains the same graph. *)
Definition S_link_recompress_files : Prop :=
  forall leA stA fA textA selA leB stB fB textB cuts sels arrival g restA restB,
  to_props leA stA fA = Some textA -> stats_for g stA ->
  to_props leB stB fB = Some textB -> stats_for g stB ->
  Forall inc g -> valid_sel (params_of_flags fA) [] g selA = true ->
  legal_cuts cuts (nlen g) = true ->
  valid_sels (params_of_flags fB) (segments cuts g) sels = true ->
  Permutation arrival (seq 0 (length cuts - 1)) ->
  exists g' bs lens,
    load_seq leA textA
      (graph_bits leA (fl_codes fA) (encode_graph (params_of_flags fA) 0 g selA) ++ restA)
      = Some (g', restA)
    /\ par_comp leB (fl_codes fB) (params_of_flags fB) cuts g' sels arrival
       = SpliceOk bs lens (nsum (map nlen g)) (nlen g)
    /\ load_seq leB textB (bs ++ restB) = Some (g, restB).

(** ** C06 o C03: the recursion bound of random access is met by what the compressors emit.
    [S_ra_fuel] (C03) assumes the selection respects [max_ref]; C06 proves that of the
    greedy and of the Zuckerli-style compressor.  Composed: on the output of either
    compressor with [max_ref = Some m], [m + 1] nested decodes reach every node's list. *)
Definition S_link_ra_fuel_greedy : Prop := forall le cs p g rest m x l,
  codes_ok cs = true -> Forall inc g -> max_ref p = Some m -> nth_opt g x = Some l ->
  let sel := greedy_sel p cs 0 g in
  ra_labels bits (rd_bits le cs)
    (seek_bits (enc_offs le cs p g sel) (enc_stream le cs p g sel rest)) p (S (N.to_nat m))
    (N.of_nat x) = Some l.

Definition S_link_ra_fuel_zuck : Prop := forall le cs p k g rest m x l,
  codes_ok cs = true -> Forall inc g -> max_ref p = Some m -> nth_opt g x = Some l ->
  let sel := zuck_sel p cs k 0 g in
  ra_labels bits (rd_bits le cs)
    (seek_bits (enc_offs le cs p g sel) (enc_stream le cs p g sel rest)) p (S (N.to_nat m))
    (N.of_nat x) = Some l.
