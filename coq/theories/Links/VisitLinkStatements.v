(** LINKS between the visit models (C13 breadth-first, C14 depth-first) and the algorithm
    models that USE visits (C15 strongly connected components, C16 ExactSumSweep).
    Glue definitions and statements only.

    The visit areas and the algorithm areas were built independently, each with its own
    traversal:
    - C16 ([Algo/EssSpec.v]) reads breadth-first distances from [dist_matrix] (its own level
      iteration), where the Rust code runs [ParFairNoPred] visits and reads the distance of
      the [Visit] events;
    - C15 ([Algo/Scc.v]) models Tarjan by a structural recursion [t_visit]/[t_roots], where
      the Rust code is a CALLBACK on the events of [SeqPred::visit]; Kosaraju and the
      symmetric algorithms use [Scc.top_sort]/[Scc.dfs_visit]/[Scc.bfs_visit], where the
      Rust code calls [top_sort] and runs [SeqNoPred]/[Seq]/[ParFairNoPred] visits.
    The statements below say that these traversals agree with the C13/C14 models of the
    visits, so that the compositions performed by the Rust code are machine-checked.

    The four areas use different node types ([N] in the visits, [nat] in the algorithms)
    and each exports its own [graph]/[succs]/[memb]; names are therefore qualified. *)
From WG Require Import Base.Prelude.
From WG Require Import Visits.Bfs Visits.BfsStatements Visits.Dfs Visits.DfsStatements.
From WG Require Import Algo.Scc Algo.EssSpec Algo.EssStatements Algo.Ess Algo.EssScc.

(** * Glue: the same graph in the visits' representation *)
Definition lN (l : list nat) : list N := map N.of_nat l.
Definition lnat (l : list N) : list nat := map N.to_nat l.
Definition gN (g : list (list nat)) : list (list N) := map lN g.

(** * L-A (C16 o C13): breadth-first distances *)

(** (node, distance) of the [Visit] events of the sequential visit from the root [s] on a
    fresh visitor *)
Definition seq_visit_dists (g : BfsM.graph) (f : BfsM.filt) (s : N) : list (N * N) :=
  map node_dist (visits (snd (bfs_seq g f [s] []))).

(** the filter of [compute_dist_pivot_from_graph]:
    [|FilterArgs { node, .. }| components[node] == pivot_component] *)
Definition comp_filter (comp : list nat) (p : nat) : BfsM.filt :=
  fun x _ => Nat.eqb (nth (N.to_nat x) comp 0%nat) (nth p comp 0%nat).

(** Unfiltered sequential visit from [s]: at most one [Visit] event per node; the event
    of [v] carries the distance [d] iff [dist_matrix] has [Some d] at ([s], [v]); a node
    gets an event iff its entry is not [None]. *)
Definition S_link_bfs_dist_seq : Prop :=
  forall (g : EssSpecM.graph) (s : nat),
    EssSpecM.wf_graph g = true -> (s < length g)%nat ->
    let vd := seq_visit_dists (gN g) BfsM.no_filter (N.of_nat s) in
    NoDup (map fst vd)
    /\ (forall v d : N, In (v, d) vd <->
          dget (dist_matrix g) s (N.to_nat v) = Some (N.to_nat d))
    /\ (forall v : nat, In (N.of_nat v) (map fst vd) <-> dget (dist_matrix g) s v <> None).

(** Parallel visits ([ParFair]/[ParLowMem]; the [Visit] event of a node of the frontier at
    distance [k] carries [k]), for EVERY family of schedules: the same. *)
Definition S_link_bfs_dist_par : Prop :=
  forall (g : EssSpecM.graph) (s : nat) (sch : N -> list (N * N) -> list (N * N)),
    EssSpecM.wf_graph g = true -> (s < length g)%nat ->
    (forall d l, Permutation (sch d l) l) ->
    let P := par_levels (gN g) BfsM.no_filter sch [N.of_nat s] [] in
    NoDup (map fst (concat P))
    /\ (forall (v : N) (k : nat), In v (map fst (nth k P [])) <->
          dget (dist_matrix g) s (N.to_nat v) = Some k)
    /\ (forall v : nat, In (N.of_nat v) (map fst (concat P)) <-> dget (dist_matrix g) s v <> None).

(** The filtered visits of [compute_dist_pivot_from_graph] from the pivot [p] (filter: same
    component as the pivot, for ANY component array): the distances are those of the
    matrix of the induced subgraph, which is where [Algo/EssScc.v] reads them. *)
Definition S_link_bfs_dist_filtered_seq : Prop :=
  forall (g : EssSpecM.graph) (comp : list nat) (p : nat),
    EssSpecM.wf_graph g = true -> (p < length g)%nat ->
    let vd := seq_visit_dists (gN g) (comp_filter comp p) (N.of_nat p) in
    NoDup (map fst vd)
    /\ (forall v d : N, In (v, d) vd <->
          dget (dist_matrix (induced g comp)) p (N.to_nat v) = Some (N.to_nat d))
    /\ (forall v : nat, In (N.of_nat v) (map fst vd) <->
          dget (dist_matrix (induced g comp)) p v <> None).

Definition S_link_bfs_dist_filtered_par : Prop :=
  forall (g : EssSpecM.graph) (comp : list nat) (p : nat)
         (sch : N -> list (N * N) -> list (N * N)),
    EssSpecM.wf_graph g = true -> (p < length g)%nat ->
    (forall d l, Permutation (sch d l) l) ->
    let P := par_levels (gN g) (comp_filter comp p) sch [N.of_nat p] [] in
    NoDup (map fst (concat P))
    /\ (forall (v : N) (k : nat), In v (map fst (nth k P [])) <->
          dget (dist_matrix (induced g comp)) p (N.to_nat v) = Some k)
    /\ (forall v : nat, In (N.of_nat v) (map fst (concat P)) <->
          dget (dist_matrix (induced g comp)) p v <> None).

(** * The depth-first visit as a recursion (bridge for L-B and L-C)

    The C14 model is a small-step machine with an explicit stack.  [rt_roots] is the
    recursive description of the event sequence [SeqPred::visit] delivers (no filter): for
    each root not yet known, [Init], [Previsit], the events of the successors loop of the
    root, [Postvisit], [Done]; the successors loop of [u] emits, for each successor [s] in
    order, [Revisit] when [s] is known and otherwise [Previsit], the loop of [s] and the
    [Postvisit] of [s].  [d] is the height of the visit stack while [u] is on top (the
    [depth] field of the events of the loop of [u]); [known] is the list of marked nodes,
    latest first, threaded through.  The recursion is on fuel (one unit per level of the
    visit path) exactly as in [Scc.t_visit] and [Scc.dfs]. *)
Fixpoint rt_loop (rec : N -> list N -> list DfsM.event * list N) (root d u : N)
         (l : list N) (known : list N) : list DfsM.event * list N :=
  match l with
  | [] => ([], known)
  | s :: rest =>
    if DfsM.memb s known then
      let '(ev, k) := rt_loop rec root d u rest known in (DfsM.ERev s u root d false :: ev, k)
    else
      let '(ev1, k1) := rec s (s :: known) in
      let '(ev2, k2) := rt_loop rec root d u rest k1 in
      (DfsM.EPre s u root d :: ev1 ++ ev2, k2)
  end.

Fixpoint rt_visit (fuel : nat) (g : DfsM.graph) (root d u parent : N) (known : list N)
  : list DfsM.event * list N :=
  match fuel with
  | O => ([], known)
  | S f =>
    let '(ev, k) := rt_loop (fun s kn => rt_visit f g root (d + 1)%N s u kn) root d u
                            (DfsM.succs g u) known in
    (ev ++ [DfsM.EPost u parent root (d - 1)%N], k)
  end.

Fixpoint rt_roots (g : DfsM.graph) (roots : list N) (known : list N)
  : list DfsM.event * list N :=
  match roots with
  | [] => ([], known)
  | r :: rest =>
    if DfsM.memb r known then rt_roots g rest known
    else
      let '(ev1, k1) := rt_visit (length g) g r 1%N r r (r :: known) in
      let '(ev2, k2) := rt_roots g rest k1 in
      (DfsM.EInit r :: DfsM.EPre r r r 0%N :: ev1 ++ DfsM.EDone r :: ev2, k2)
  end.

(** marks in range, no repetition (what a visit leaves behind) *)
Definition marks_ok (g : DfsM.graph) (known : list N) : Prop :=
  NoDup known /\ (forall v, In v known -> (v < nlen g)%N).

(** The C14 machine ([SeqPred], no filter) delivers exactly the recursive trace, and its
    marks afterwards are those threaded through the recursion — for every root list
    (repetitions included) and every set of marks left by earlier visits. *)
Definition S_dfs_trace_recursive : Prop :=
  forall (g : DfsM.graph) (roots known onst : list N),
    gwf g = true -> (forall r, In r roots -> (r < nlen g)%N) -> marks_ok g known ->
    exists cf, DfsM.dfs DfsM.Pred g DfsM.no_filter roots known onst
               = DfsOk (fst (rt_roots g roots known)) cf
               /\ c_known cf = snd (rt_roots g roots known).

(** * L-B (C15 o C14): Tarjan is the fold of its event handler over the DFS events *)

(** the callback of algo/src/sccs/tarjan.rs, arm by arm; the flag is [Break] *)
Definition tarjan_handler (st : tstate) (e : DfsM.event) : tstate * bool :=
  match e with
  | DfsM.EInit _ =>
      (mkT (t_known st) (t_high st) (t_lead st) (t_cstack st) (t_index st) (t_index st)
           (t_noc st), false)
  | DfsM.EPre v _ _ _ => (t_previsit st (N.to_nat v), false)
  | DfsM.ERev v p _ _ _ => t_revisit st (N.to_nat v) (N.to_nat p)
  | DfsM.EPost v p _ _ => (t_postvisit st (N.to_nat v) (N.to_nat p), false)
  | DfsM.EDone _ => (st, false)
  end.

(** [visit(roots, callback)] with a callback that may break: the state, whether the visit
    was interrupted, and the events that were delivered (the last one is the one whose
    callback returned [Break]) *)
Fixpoint fold_until_break {S E : Type} (h : S -> E -> S * bool) (st : S) (evs : list E)
  : S * bool * list E :=
  match evs with
  | [] => (st, false, [])
  | e :: r =>
    let '(st1, b) := h st e in
    if b then (st1, true, [e])
    else let '(st2, b2, d) := fold_until_break h st1 r in (st2, b2, e :: d)
  end.

Definition t_init (n : nat) : tstate := mkT (repeat false n) (repeat 0%nat n) [true] [] n 0%nat 0%nat.

(** [for node in visit.stack() { high_link[node] = number_of_components }] *)
Definition t_drain (st : tstate) (stack : list nat) : tstate :=
  mkT (t_known st) (fold_left (fun h x => SccM.upd h x (t_noc st)) stack (t_high st)) (t_lead st)
      (t_cstack st) (t_index st) (t_root_high st) (t_noc st).

(** [tarjan] as written in Rust, on a given event sequence of the visit: the fold of the
    callback, and after an interruption the drain of [visit.stack()] — the nodes on the
    visit path (previsited, not yet postvisited, [path_after] of the delivered events)
    except the last one, from the deepest to the shallowest *)
Definition tarjan_on_events (n : nat) (evs : list DfsM.event) : tstate * bool :=
  let '(st, brk, delivered) := fold_until_break tarjan_handler (t_init n) evs in
  if brk then (t_drain st (lnat (tl (path_after delivered))), true) else (st, false).

(** For every well-formed graph the structurally recursive Tarjan model of C15 computes
    exactly what the Rust callback computes on the events the C14 machine emits for
    [visit(0..n, callback)] — final state (component array included) and early-exit flag. *)
Definition S_link_tarjan_fold : Prop :=
  forall g : SccM.graph, SccM.wf_graph g ->
    exists evs cf,
      DfsM.dfs DfsM.Pred (gN g) DfsM.no_filter (DfsM.nodes (gN g)) [] [] = DfsOk evs cf
      /\ tarjan_run g = tarjan_on_events (length g) evs.

(** * L-C (C15 o C14 / C13): Kosaraju and the symmetric algorithms *)

(** [Scc.top_sort] is what the C14 model of algo/src/top_sort.rs returns (same order) *)
Definition S_link_top_sort : Prop :=
  forall g : SccM.graph, SccM.wf_graph g ->
    DfsM.top_sort (gN g) = Some (lN (SccM.top_sort g)).

(** [Scc.dfs_visit g root vis] is the list of marks of the C14 visit from [root] on a
    visit whose marks are [vis] (the old marks plus the previsited nodes, latest first) *)
Definition S_link_dfs_visit : Prop :=
  forall (g : SccM.graph) (root : nat) (vis : list nat) (fl : flavour),
    SccM.wf_graph g -> (root < length g)%nat -> ~ In root vis ->
    NoDup vis -> Forall (fun v => (v < length g)%nat) vis ->
    exists evs cf,
      DfsM.dfs fl (gN g) DfsM.no_filter [N.of_nat root] (lN vis) [] = DfsOk evs cf
      /\ c_known cf = lN (dfs_visit g root vis)
      /\ lN (dfs_visit g root vis) = rev (pre_nodes evs) ++ lN vis.

(** the callback of [kosaraju] and [symm_seq] on [SeqNoPred] events:
    [Previsit => component[node] = number_of_components], [Done => += 1] *)
Definition comp_handler (st : list nat * nat) (e : DfsM.event) : list nat * nat :=
  match e with
  | DfsM.EPre v _ _ _ => (SccM.upd (fst st) (N.to_nat v) (snd st), snd st)
  | DfsM.EDone _ => (fst st, S (snd st))
  | _ => st
  end.

(** [comp_loop] over [Scc.dfs_visit] (one model visit per unvisited root) is the fold of
    that callback over the events of ONE [SeqNoPred] visit with the whole root list *)
Definition S_link_comp_loop_dfs : Prop :=
  forall (g : SccM.graph) (roots : list nat),
    SccM.wf_graph g -> Forall (fun r => (r < length g)%nat) roots ->
    exists evs cf,
      DfsM.dfs DfsM.NoPred (gN g) DfsM.no_filter (lN roots) [] [] = DfsOk evs cf
      /\ comp_loop (dfs_visit g) roots (length g)
         = fold_left comp_handler evs (repeat 0%nat (length g), 0%nat).

(** [symm_seq]: [visit(0..n, callback)] on [SeqNoPred] *)
Definition S_link_symm_seq_fold : Prop :=
  forall g : SccM.graph, SccM.wf_graph g ->
    exists evs cf,
      DfsM.dfs DfsM.NoPred (gN g) DfsM.no_filter (DfsM.nodes (gN g)) [] [] = DfsOk evs cf
      /\ symm_seq g = fold_left comp_handler evs (repeat 0%nat (length g), 0%nat).

(** [kosaraju]: [top_sort] of C14 on the graph, then [visit(top_sort, callback)] on the
    transpose *)
Definition S_link_kosaraju_fold : Prop :=
  forall g gt : SccM.graph, SccM.wf_graph g -> is_transpose g gt ->
    exists order evs cf,
      DfsM.top_sort (gN g) = Some order
      /\ DfsM.dfs DfsM.NoPred (gN gt) DfsM.no_filter order [] [] = DfsOk evs cf
      /\ kosaraju g gt = fold_left comp_handler evs (repeat 0%nat (length g), 0%nat).

(** [Scc.bfs_visit] (every schedule) marks the same nodes as the C13 visit from [root] on a
    visitor whose visited set is [vis] *)
Definition S_link_bfs_visit : Prop :=
  forall (sched : nat -> list nat -> list nat) (g : SccM.graph) (root : nat) (vis : list nat),
    (forall i l, Permutation (sched i l) l) ->
    SccM.wf_graph g -> (root < length g)%nat -> ~ In root vis ->
    NoDup vis -> Forall (fun v => (v < length g)%nat) vis ->
    forall x : nat,
      In x (bfs_visit sched g root vis)
      <-> In (N.of_nat x) (fst (bfs_seq (gN g) BfsM.no_filter [N.of_nat root] (lN vis))).

(** ... and the nodes the C13 PARALLEL visit marks, under every family of schedules of
    the C13 model as well *)
Definition S_link_bfs_visit_par : Prop :=
  forall (sched : nat -> list nat -> list nat) (sch : N -> list (N * N) -> list (N * N))
         (g : SccM.graph) (root : nat) (vis : list nat),
    (forall i l, Permutation (sched i l) l) -> (forall d l, Permutation (sch d l) l) ->
    SccM.wf_graph g -> (root < length g)%nat -> ~ In root vis ->
    NoDup vis -> Forall (fun v => (v < length g)%nat) vis ->
    forall x : nat,
      In x (bfs_visit sched g root vis)
      <-> In (N.of_nat x)
             (map fst (concat (par_levels (gN g) BfsM.no_filter sch [N.of_nat root] (lN vis)))
              ++ lN vis).

(** [symm_par] as written in Rust, on the C13 model of the parallel visits: for each node
    in order, [par_visit_with [node]] on the un-reset visitor — nothing happens when the
    node is already visited (no [Init], no [Done]); otherwise every node of every level gets
    a [Visit] event ([component[node] = number_of_components]) and [Done] increments the
    counter.  [sch r] is the family of schedules of the visit from [r]; the visited set is
    only observed through membership. *)
Definition par_comp_step (g : BfsM.graph) (sch : N -> N -> list (N * N) -> list (N * N))
           (st : list N * list nat * nat) (r : N) : list N * list nat * nat :=
  let '(V, comp, k) := st in
  if BfsM.memb r V then st
  else
    let visited := map fst (concat (par_levels g BfsM.no_filter (sch r) [r] V)) in
    (visited ++ V, assign comp (lnat visited) k, S k).

(** the C15 model of [symm_par] (its own level iteration, its own notion of schedule)
    computes what the Rust loop computes on the C13 parallel visits — for every schedule of
    either model, on every well-formed graph (symmetric or not) *)
Definition S_link_symm_par_fold : Prop :=
  forall (sched : nat -> list nat -> list nat) (sch : N -> N -> list (N * N) -> list (N * N))
         (g : SccM.graph),
    (forall i l, Permutation (sched i l) l) -> (forall r d l, Permutation (sch r d l) l) ->
    SccM.wf_graph g ->
    symm_par sched g
    = (let '(_, comp, k) := fold_left (par_comp_step (gN g) sch) (nseq 0%N (length g))
                                      ([], repeat 0%nat (length g), 0%nat) in (comp, k)).

(** the pair returned by [tarjan] (component array, number of components) *)
Definition S_link_tarjan_result : Prop :=
  forall g : SccM.graph, SccM.wf_graph g ->
    exists evs cf,
      DfsM.dfs DfsM.Pred (gN g) DfsM.no_filter (DfsM.nodes (gN g)) [] [] = DfsOk evs cf
      /\ tarjan g = (let '(st, brk) := tarjan_on_events (length g) evs in
                     (t_high st, if brk then S (t_noc st) else t_noc st)).
