(** The C14 depth-first machine delivers the recursive trace [rt_roots]
    ([S_dfs_trace_recursive]): the bridge between the small-step machine with an explicit
    stack and the structurally recursive traversals of the C15 models.  Proofs. *)
From WG Require Import Base.Prelude.
From WG Require Import Visits.Dfs Visits.DfsStatements Visits.DfsFacts.
From WG Require Import Links.VisitLinkStatements.
Local Open Scope N_scope.

(** * Marks *)
Lemma marks_bound : forall (g : DfsM.graph) known, marks_ok g known -> (length known <= length g)%nat.
Proof.
  intros g known [Hnd Hb].
  assert (Hincl : incl known (DfsM.nodes g)) by (intros v Hv; apply nodes_In; apply Hb; exact Hv).
  pose proof (NoDup_incl_length Hnd Hincl) as H. rewrite nodes_len in H. exact H.
Qed.

Lemma marks_cons : forall (g : DfsM.graph) known s,
  marks_ok g known -> s < nlen g -> DfsM.memb s known = false -> marks_ok g (s :: known).
Proof.
  intros g known s [Hnd Hb] Hs Hm. apply memb_false in Hm. split; [constructor; assumption|].
  intros v [Hv|Hv]; [subst; exact Hs|apply Hb; exact Hv].
Qed.

(** * The recursion only adds marks, in range *)
Lemma rt_loop_marks : forall (g : DfsM.graph) (rec : N -> list N -> list DfsM.event * list N) root d u,
  (forall s kn, s < nlen g -> marks_ok g kn ->
     marks_ok g (snd (rec s kn)) /\ (length kn <= length (snd (rec s kn)))%nat) ->
  forall l known, (forall s, In s l -> s < nlen g) -> marks_ok g known ->
    marks_ok g (snd (rt_loop rec root d u l known))
    /\ (length known <= length (snd (rt_loop rec root d u l known)))%nat.
Proof.
  intros g rec root d u Hrec. induction l as [|s rest IH]; intros known Hl Hm.
  - cbn. split; [exact Hm|lia].
  - cbn [rt_loop]. assert (Hrest : forall x, In x rest -> x < nlen g) by (intros x Hx; apply Hl; right; exact Hx).
    destruct (DfsM.memb s known) eqn:Hk.
    + specialize (IH known Hrest Hm). destruct (rt_loop rec root d u rest known) as [ev k]. exact IH.
    + assert (Hs : s < nlen g) by (apply Hl; left; reflexivity).
      destruct (Hrec s (s :: known) Hs (marks_cons g known s Hm Hs Hk)) as [H1 H2].
      destruct (rec s (s :: known)) as [ev1 k1]. cbn [snd] in H1, H2.
      destruct (IH k1 Hrest H1) as [H3 H4].
      destruct (rt_loop rec root d u rest k1) as [ev2 k2]. cbn [snd] in *.
      split; [exact H3|]. cbn [length] in H2. lia.
Qed.

Lemma rt_visit_marks : forall (g : DfsM.graph), gwf g = true ->
  forall f root d u parent known, marks_ok g known ->
    marks_ok g (snd (rt_visit f g root d u parent known))
    /\ (length known <= length (snd (rt_visit f g root d u parent known)))%nat.
Proof.
  intros g Hw. induction f as [|f IH]; intros root d u parent known Hm.
  - cbn. split; [exact Hm|lia].
  - cbn [rt_visit].
    pose proof (rt_loop_marks g (fun s kn => rt_visit f g root (d + 1) s u kn) root d u
                  (fun s kn _ Hkn => IH root (d + 1) s u kn Hkn) (DfsM.succs g u) known
                  (fun s Hs => gwf_succ g u s Hw Hs) Hm) as H.
    destruct (rt_loop _ root d u (DfsM.succs g u) known) as [ev k]. exact H.
Qed.

(** * Multi-step executions of the machine, with the [SeqPred] view of the events *)
Inductive msteps (g : DfsM.graph) : cfg -> list DfsM.event -> cfg -> Prop :=
| ms_refl : forall c, msteps g c [] c
| ms_step : forall c c1 evs c2 evs2,
    step g DfsM.no_filter c = Next c1 evs -> msteps g c1 evs2 c2 ->
    msteps g c (flat_map (ev_erase DfsM.Pred) evs ++ evs2) c2.

Lemma msteps_trans : forall g c a c1 b c2,
  msteps g c a c1 -> msteps g c1 b c2 -> msteps g c (a ++ b) c2.
Proof.
  intros g c a c1 b c2 H. induction H as [c|c c1' evs c2' evs2 Hs _ IH]; intros H2.
  - exact H2.
  - rewrite <- app_assoc. eapply ms_step; [exact Hs|apply IH; exact H2].
Qed.

Lemma msteps_one : forall g c c1 evs,
  step g DfsM.no_filter c = Next c1 evs -> msteps g c (flat_map (ev_erase DfsM.Pred) evs) c1.
Proof.
  intros g c c1 evs H. rewrite <- (app_nil_r (flat_map _ evs)). eapply ms_step; [exact H|constructor].
Qed.

Lemma msteps_run : forall g c evs c', msteps g c evs c' -> step g DfsM.no_filter c' = Halt ->
  forall fuel acc,
    run DfsM.Pred g DfsM.no_filter fuel c acc = DfsOutOfFuel
    \/ run DfsM.Pred g DfsM.no_filter fuel c acc = DfsOk (acc ++ evs) c'.
Proof.
  intros g c evs c' H Hh. induction H as [c|c c1 evs c2 evs2 Hs _ IH]; intros fuel acc.
  - destruct fuel as [|f]; [left; reflexivity|right]. cbn [run]. rewrite Hh, app_nil_r. reflexivity.
  - destruct fuel as [|f]; [left; reflexivity|]. cbn [run]. rewrite Hs.
    rewrite app_assoc. apply IH. exact Hh.
Qed.

(** * The single steps *)
Lemma step_rev : forall g roots root u s rest below known onst,
  s < nlen g -> DfsM.memb s known = true ->
  step g DfsM.no_filter (mkCfg roots root ((u, s :: rest) :: below) known onst)
  = Next (mkCfg roots root ((u, rest) :: below) known onst)
         [DfsM.ERev s u root (nlen ((u, s :: rest) :: below)) (DfsM.memb s onst)].
Proof.
  intros g roots root u s rest below known onst Hs Hk. unfold step.
  cbn [c_stack c_roots c_root c_known c_onst].
  apply N.ltb_lt in Hs. rewrite Hs, Hk. reflexivity.
Qed.

Lemma step_pre : forall g roots root u s rest below known onst,
  s < nlen g -> DfsM.memb s known = false ->
  step g DfsM.no_filter (mkCfg roots root ((u, s :: rest) :: below) known onst)
  = Next (mkCfg roots root ((s, DfsM.succs g s) :: (u, rest) :: below) (s :: known) (s :: onst))
         [DfsM.EPre s u root (nlen ((u, s :: rest) :: below))].
Proof.
  intros g roots root u s rest below known onst Hs Hk. unfold step.
  cbn [c_stack c_roots c_root c_known c_onst].
  apply N.ltb_lt in Hs. rewrite Hs, Hk. reflexivity.
Qed.

Lemma step_pop : forall g roots root u below known onst,
  step g DfsM.no_filter (mkCfg roots root ((u, []) :: below) known onst)
  = Next (mkCfg roots root below known (remove N.eq_dec u onst))
         (DfsM.EPost u (match below with [] => u | (p, _) :: _ => p end) root
                     (nlen ((u, @nil N) :: below) - 1)
          :: match below with [] => [DfsM.EDone root] | _ => [] end).
Proof. reflexivity. Qed.

Lemma step_root_skip : forall g r rs root known onst,
  r < nlen g -> DfsM.memb r known = true ->
  step g DfsM.no_filter (mkCfg (r :: rs) root [] known onst) = Next (mkCfg rs root [] known onst) [].
Proof.
  intros g r rs root known onst Hr Hk. unfold step. cbn [c_stack c_roots c_root c_known c_onst].
  apply N.ltb_lt in Hr. rewrite Hr, Hk. reflexivity.
Qed.

Lemma step_root_start : forall g r rs root known onst,
  r < nlen g -> DfsM.memb r known = false ->
  step g DfsM.no_filter (mkCfg (r :: rs) root [] known onst)
  = Next (mkCfg rs r [(r, DfsM.succs g r)] (r :: known) (r :: onst)) [DfsM.EInit r; DfsM.EPre r r r 0].
Proof.
  intros g r rs root known onst Hr Hk. unfold step. cbn [c_stack c_roots c_root c_known c_onst].
  apply N.ltb_lt in Hr. rewrite Hr, Hk. reflexivity.
Qed.

(** * The machine follows the recursion *)
Definition height (below : list (N * list N)) : N := N.of_nat (S (length below)).

Lemma height_nlen : forall (f : N * list N) below, nlen (f :: below) = height below.
Proof. reflexivity. Qed.

Lemma height_cons : forall (f : N * list N) below, height (f :: below) = height below + 1.
Proof. intros f below. unfold height. cbn [length]. lia. Qed.

Section Follow.
  Variable g : DfsM.graph.
  Hypothesis Hw : gwf g = true.

  Definition visit_follows (f : nat) : Prop :=
    forall roots root u below known onst,
      marks_ok g known -> (f + length known >= S (length g))%nat ->
      exists onst',
        msteps g (mkCfg roots root ((u, DfsM.succs g u) :: below) known onst)
          (fst (rt_visit f g root (height below) u
                  (match below with [] => u | (p, _) :: _ => p end) known)
           ++ match below with [] => [DfsM.EDone root] | _ => [] end)
          (mkCfg roots root below
             (snd (rt_visit f g root (height below) u
                     (match below with [] => u | (p, _) :: _ => p end) known)) onst').

  Lemma loop_follows : forall f, visit_follows f ->
    forall roots root u below l known onst,
      (forall s, In s l -> s < nlen g) ->
      marks_ok g known -> (S f + length known >= S (length g))%nat ->
      exists onst',
        msteps g (mkCfg roots root ((u, l) :: below) known onst)
          (fst (rt_loop (fun s kn => rt_visit f g root (height below + 1) s u kn) root
                        (height below) u l known))
          (mkCfg roots root ((u, []) :: below)
             (snd (rt_loop (fun s kn => rt_visit f g root (height below + 1) s u kn) root
                           (height below) u l known)) onst').
  Proof.
    intros f Hf roots root u below. induction l as [|s rest IH]; intros known onst Hl Hm Hfuel.
    - exists onst. cbn. constructor.
    - assert (Hs : s < nlen g) by (apply Hl; left; reflexivity).
      assert (Hrest : forall x, In x rest -> x < nlen g) by (intros x Hx; apply Hl; right; exact Hx).
      cbn [rt_loop]. destruct (DfsM.memb s known) eqn:Hk.
      + destruct (IH known onst Hrest Hm Hfuel) as [onst' H].
        destruct (rt_loop _ root (height below) u rest known) as [ev k]. cbn [fst snd] in *.
        exists onst'.
        pose proof (ms_step g _ _ _ _ _ (step_rev g roots root u s rest below known onst Hs Hk) H) as H'.
        rewrite height_nlen in H'. exact H'.
      + pose proof (marks_cons g known s Hm Hs Hk) as Hm1.
        destruct (Hf roots root s ((u, rest) :: below) (s :: known) (s :: onst) Hm1) as [onst1 H1].
        { cbn [length]. lia. }
        rewrite height_cons in H1.
        pose proof (rt_visit_marks g Hw f root (height below + 1) s u (s :: known) Hm1) as [Hm2 Hlen].
        destruct (rt_visit f g root (height below + 1) s u (s :: known)) as [ev1 k1].
        cbn [fst snd] in *. rewrite app_nil_r in H1.
        destruct (IH k1 onst1 Hrest Hm2) as [onst2 H2].
        { cbn [length] in Hlen. lia. }
        destruct (rt_loop _ root (height below) u rest k1) as [ev2 k2]. cbn [fst snd] in *.
        exists onst2.
        pose proof (ms_step g _ _ _ _ _ (step_pre g roots root u s rest below known onst Hs Hk)
                      (msteps_trans g _ _ _ _ _ H1 H2)) as H'.
        rewrite height_nlen in H'. exact H'.
  Qed.

  Lemma visit_follows_all : forall f, visit_follows f.
  Proof.
    induction f as [|f IH]; intros roots root u below known onst Hm Hfuel.
    - pose proof (marks_bound g known Hm). lia.
    - cbn [rt_visit].
      destruct (loop_follows f IH roots root u below (DfsM.succs g u) known onst
                  (fun s Hs => gwf_succ g u s Hw Hs) Hm Hfuel) as [onst1 H1].
      destruct (rt_loop _ root (height below) u (DfsM.succs g u) known) as [ev k].
      cbn [fst snd] in *. exists (remove N.eq_dec u onst1).
      rewrite <- app_assoc.
      eapply msteps_trans; [exact H1|].
      pose proof (msteps_one g _ _ _ (step_pop g roots root u below k onst1)) as H2.
      rewrite height_nlen in H2. destruct below as [|[p pr] below']; exact H2.
  Qed.

  Lemma roots_follow : forall roots root known onst,
    (forall r, In r roots -> r < nlen g) -> marks_ok g known ->
    exists root' onst',
      msteps g (mkCfg roots root [] known onst) (fst (rt_roots g roots known))
             (mkCfg [] root' [] (snd (rt_roots g roots known)) onst').
  Proof.
    induction roots as [|r rs IH]; intros root known onst Hr Hm.
    - exists root, onst. cbn. constructor.
    - assert (Hr0 : r < nlen g) by (apply Hr; left; reflexivity).
      assert (Hrs : forall x, In x rs -> x < nlen g) by (intros x Hx; apply Hr; right; exact Hx).
      cbn [rt_roots]. destruct (DfsM.memb r known) eqn:Hk.
      + destruct (IH root known onst Hrs Hm) as (root' & onst' & H). exists root', onst'.
        exact (ms_step g _ _ _ _ _ (step_root_skip g r rs root known onst Hr0 Hk) H).
      + pose proof (marks_cons g known r Hm Hr0 Hk) as Hm1.
        destruct (visit_follows_all (length g) rs r r [] (r :: known) (r :: onst) Hm1) as [onst1 H1].
        { cbn [length]. lia. }
        change (height []) with 1 in H1.
        pose proof (rt_visit_marks g Hw (length g) r 1 r r (r :: known) Hm1) as [Hm2 _].
        destruct (rt_visit (length g) g r 1 r r (r :: known)) as [ev1 k1]. cbn [fst snd] in *.
        destruct (IH r k1 onst1 Hrs Hm2) as (root' & onst' & H2).
        destruct (rt_roots g rs k1) as [ev2 k2]. cbn [fst snd] in *.
        exists root', onst'.
        pose proof (ms_step g _ _ _ _ _ (step_root_start g r rs root known onst Hr0 Hk)
                      (msteps_trans g _ _ _ _ _ H1 H2)) as H'.
        cbn [flat_map ev_erase app] in H'. rewrite <- app_assoc in H'. exact H'.
  Qed.
End Follow.

Theorem dfs_trace_recursive : S_dfs_trace_recursive.
Proof.
  intros g roots known onst Hw Hr Hm.
  destruct (roots_follow g Hw roots 0 known onst Hr Hm) as (root' & onst' & H).
  exists (mkCfg [] root' [] (snd (rt_roots g roots known)) onst'). split; [|reflexivity].
  unfold DfsM.dfs, init_cfg.
  destruct (msteps_run g _ _ _ H eq_refl (dfs_fuel g roots) []) as [Hc|Hok]; [|exact Hok].
  exfalso. exact (proj1 (fuel_suffices DfsM.Pred g DfsM.no_filter roots known onst) Hc).
Qed.

(** * Consequences for the other flavours *)
Lemma erase_nopred_pred : forall evs,
  flat_map (ev_erase DfsM.NoPred) (flat_map (ev_erase DfsM.Pred) evs)
  = flat_map (ev_erase DfsM.NoPred) evs.
Proof.
  induction evs as [|e r IH]; [reflexivity|].
  cbn [flat_map]. rewrite flat_map_app, IH. f_equal.
  destruct e; reflexivity.
Qed.

Lemma pre_nodes_erase : forall fl evs, pre_nodes (flat_map (ev_erase fl) evs) = pre_nodes evs.
Proof.
  intros fl. induction evs as [|e r IH]; [reflexivity|].
  cbn [flat_map]. unfold pre_nodes in *. rewrite flat_map_app, IH.
  destruct fl, e; reflexivity.
Qed.

(** the [SeqNoPred] visit delivers the erasure of the recursive trace *)
Lemma dfs_trace_nopred : forall (g : DfsM.graph) (roots known onst : list N),
  gwf g = true -> (forall r, In r roots -> r < nlen g) -> marks_ok g known ->
  exists cf, DfsM.dfs DfsM.NoPred g DfsM.no_filter roots known onst
             = DfsOk (flat_map (ev_erase DfsM.NoPred) (fst (rt_roots g roots known))) cf
             /\ c_known cf = snd (rt_roots g roots known).
Proof.
  intros g roots known onst Hw Hr Hm.
  destruct (dfs_trace_recursive g roots known onst Hw Hr Hm) as (cf & H & Hk).
  exists cf. split; [|exact Hk].
  rewrite (dfs_erase DfsM.NoPred). rewrite (dfs_erase DfsM.Pred) in H.
  destruct (DfsM.dfs DfsM.Path g DfsM.no_filter roots known onst) as [evs c| |evs]; try discriminate.
  cbn [map_result] in *. inversion H; subst. rewrite erase_nopred_pred. reflexivity.
Qed.

(** * The marks are the old ones plus the previsited nodes *)
Lemma pre_nodes_app' : forall a b, pre_nodes (a ++ b) = pre_nodes a ++ pre_nodes b.
Proof. intros a b. unfold pre_nodes. apply flat_map_app. Qed.

Lemma rt_loop_known : forall (rec : N -> list N -> list DfsM.event * list N) root d u,
  (forall s kn, snd (rec s kn) = rev (pre_nodes (fst (rec s kn))) ++ kn) ->
  forall l known,
    snd (rt_loop rec root d u l known) = rev (pre_nodes (fst (rt_loop rec root d u l known))) ++ known.
Proof.
  intros rec root d u Hrec. induction l as [|s rest IH]; intros known; [reflexivity|].
  cbn [rt_loop]. destruct (DfsM.memb s known).
  - specialize (IH known). destruct (rt_loop rec root d u rest known) as [ev k]. exact IH.
  - specialize (Hrec s (s :: known)). destruct (rec s (s :: known)) as [ev1 k1].
    specialize (IH k1). destruct (rt_loop rec root d u rest k1) as [ev2 k2]. cbn [fst snd] in *.
    rewrite IH, Hrec. change (DfsM.EPre s u root d :: ev1 ++ ev2) with ([DfsM.EPre s u root d] ++ ev1 ++ ev2).
    rewrite !pre_nodes_app', !rev_app_distr. cbn [pre_nodes flat_map app rev].
    rewrite <- !app_assoc. reflexivity.
Qed.

Lemma rt_visit_known : forall f g root d u parent known,
  snd (rt_visit f g root d u parent known)
  = rev (pre_nodes (fst (rt_visit f g root d u parent known))) ++ known.
Proof.
  induction f as [|f IH]; intros g root d u parent known; [reflexivity|].
  cbn [rt_visit].
  pose proof (rt_loop_known (fun s kn => rt_visit f g root (d + 1) s u kn) root d u
                (fun s kn => IH g root (d + 1) s u kn) (DfsM.succs g u) known) as H.
  destruct (rt_loop _ root d u (DfsM.succs g u) known) as [ev k]. cbn [fst snd] in *.
  rewrite H, pre_nodes_app'. cbn [pre_nodes flat_map]. rewrite app_nil_r. reflexivity.
Qed.
