(** LINK C09 o C08 — glue between the external-sort model ([Sort/Pipeline.v], property C08)
    and the transform model ([Transform/Pipelines.v], property C09).  Definitions only.

    The two areas were developed independently:
    - [Transform] takes "the sorting of one partition" as a function
      [sort : list lpair -> list lpair] and models the partitioning around it itself
      ([ext_sort]: range check, partition id [src / ceil(n/p)], [XformM.boundaries]);
    - [Sort] models the whole of [ParSortPairs] / [ParSortIters]: producers with their
      per-partition buffers, batch sort, batch codec, k-way merge with tie-breaks, and its
      own [SortM.boundaries] / [part_id] / [in_part].
    The record types coincide definitionally: [@lpair L] and [triple L] are both
    [(N * N) * L], so no conversion function is needed (checked in the facts file). *)
From WG Require Import Base.Prelude Par.Splice Sort.Pipeline Sort.Statements
  Transform.Pipelines Transform.Statements.
Local Open Scope N_scope.

Section Glue.
Context {L : Type}.
Notation lpair := (@lpair L).

(** how the input pairs are distributed among the producers (threads of [ParSortPairs],
    input iterators of [ParSortIters]) and with which buffer capacities: any function that
    neither loses nor invents a pair *)
Definition split_ok (split : list lpair -> list (nat * list lpair)) : Prop :=
  forall X, Permutation (all_input (split X)) X.

(** a concrete family: consecutive chunks of given lengths with given capacities, whatever
    remains going to a last producer of capacity 1 *)
Fixpoint chunk_split (spec : list (nat * nat)) (X : list lpair) : list (nat * list lpair) :=
  match spec with
  | [] => [(1%nat, X)]
  | (cap, len) :: spec' => (cap, firstn len X) :: chunk_split spec' (skipn len X)
  end.

(** the partition predicate of [ext_sort] *)
Definition xpart (n : N) (p : nat) (i : nat) (e : lpair) : bool :=
  src e / XformM.div_ceil n (N.of_nat p) =? N.of_nat i.

Variable bsort : list lpair -> list lpair.   (* the batch sort of C08 *)
Variable k : codec_kind.

(** the C08 pipeline as a partial function: boundaries and partitions, or a refusal *)
Definition c08_parts (n : N) (p : nat) (cd md : bool)
  (split : list lpair -> list (nat * list lpair)) (ties : list (list nat)) (X : list lpair)
  : option (list N * list (list lpair)) :=
  match sort_pipeline_gen bsort (codec_rt k) n p cd md (split X) ties with
  | SDone r => Some r
  | SErr | SPanic => None
  end.

(** ** Instantiating the sorter PARAMETER of the Transform model
    [ext_sort sort n p X] applies [sort] to the sub-list of each partition.  The sorter
    defined from the C08 pipeline sorts such a sub-list by a run of the whole pipeline (for
    [n] nodes, with its own number [p'] of partitions, producers, buffers, codec, merge)
    and chains the partitions it returns.  On a refusal it returns nothing. *)
Definition pipeline_sorter (n : N) (p' : nat) (cd md : bool)
  (split : list lpair -> list (nat * list lpair)) (ties : list (list nat))
  : list lpair -> list lpair :=
  fun X => match c08_parts n p' cd md split ties X with
           | Some (_, parts) => concat parts
           | None => []
           end.

(** the same made total: outside the domain of the pipeline (some source [>= n]) fall back
    on the insertion sort of the Transform model.  Needed only because [sorter_ok] /
    [sorterd_ok] as pinned quantify over ALL lists; [ext_sort _ n] never calls the sorter
    on such a list (proved in the facts file: [S_link_ext_sort_domain]). *)
Definition pipeline_sorter_total (n : N) (p' : nat) (cd md : bool)
  (split : list lpair -> list (nat * list lpair)) (ties : list (list nat))
  : list lpair -> list lpair :=
  fun X => match c08_parts n p' cd md split ties X with
           | Some (_, parts) => concat parts
           | None => if md then XformM.ksortd X else XformM.ksort X
           end.

(** ** The direct composition: the C08 pipeline IN PLACE OF [ext_sort]
    The pairs produced by the endpoint map go to the C08 pipeline (which checks the range,
    partitions, sorts, merges); the partitions it returns are read back by the
    [NodeLabels] reader, chained ([iter]) and one lender per partition with the boundaries
    the pipeline returned ([into_par_lenders]).  Same shape as [run_parts]. *)
Definition c08_run_parts (phi : lpair -> list lpair) (nout : N) (par : bool) (p : nat)
  (cd md : bool) (split : list lpair -> list (nat * list lpair)) (ties : list (list nat))
  (cuts : list N) (arrival : list nat) (g : list (list (N * L)))
  : option (list (list (N * L))) * option (list (list (N * L))) :=
  let input := if par then arrive arrival (map (flat_map phi) (blocks cuts g))
               else flat_map phi (pairs_from 0 g) in
  match c08_parts nout p cd md split ties input with
  | Some (bs, parts) => (read_seq nout parts, read_par bs parts)
  | None => (None, None)
  end.
End Glue.

(** every transform of [run_xop], on the composed pipeline; [cd]: whether the batch codec
    also deduplicates (only meaningful when the merge does) *)
Definition c08_run_xop (bsort : list (@lpair unit) -> list (@lpair unit)) (k : codec_kind)
  (cd : bool) (split : list (@lpair unit) -> list (nat * list (@lpair unit)))
  (ties : list (list nat)) (op : xop)
  (par : bool) (p : nat) (cuts : list N) (arrival : list nat) (g : list (list N))
  : option (list (list N)) * option (list (list N)) :=
  if xop_check op g then
    let md := xop_dedup op in
    let r := c08_run_parts bsort k (xop_phi op) (xop_nout op g) par p (cd && md) md split ties
               cuts arrival (unit_labels g) in
    (with_unit (fst r), with_unit (snd r))
  else (None, None).
