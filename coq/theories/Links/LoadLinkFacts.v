(** Proofs of the C12 o C01/C03 link. *)
From Coq Require Import String.
From WG Require Import Base.Prelude Codes.Codes Codes.Statements BV.Model BV.RefSel BV.Bits
  BV.BitsFacts BV.Access BV.AccessStatements BV.AccessFacts BV.SelStatements BV.GreedyFacts BV.ZuckFacts BV.OffsetsStatements BV.OffsetsFacts
  Flags.Props Flags.Statements Flags.PropsFacts Par.Splice Par.SpliceFacts
  Split.Model Split.Statements Split.SplitFacts Split.RangesFacts
  Links.LoadLinkStatements.
Require Import ZifyBool ZifyN ZifyNat.
Local Open Scope N_scope.

Lemma nameable_code_ok c : nameable c = true -> code_ok c = true.
Proof. destruct c as [| | | |k|k]; cbn [nameable code_ok]; intros H; try reflexivity. lia. Qed.

Theorem link_written_codes_ok : S_link_written_codes_ok.
Proof.
  intros le st f text Hw.
  assert (Hr : representable le (fl_codes f) = true).
  { destruct (representable le (fl_codes f)) eqn:E; [reflexivity|].
    apply (proj2 (props_refusal le st f)) in E. congruence. }
  unfold representable in Hr. apply andb_prop in Hr. destruct Hr as [Hn _].
  unfold all_codes in Hn. cbn [forallb] in Hn.
  repeat (apply andb_prop in Hn; let H := fresh "Hc" in destruct Hn as [H Hn]).
  unfold codes_ok. rewrite !nameable_code_ok by assumption. reflexivity.
Qed.

Lemma parse_written le st f text g :
  to_props le st f = Some text -> stats_for g st ->
  parse_properties le text = Some (nlen g, nlen (concat g), f).
Proof.
  intros Hw [Hn Ha]. destruct (props_roundtrip le st f text Hw) as [Hp _].
  rewrite Hp, Hn, Ha. reflexivity.
Qed.

Theorem link_load_seq : S_link_load_seq.
Proof.
  intros le st f text g sel rest Hw Hst Hg Hsel. unfold load_seq.
  rewrite (parse_written le st f text g Hw Hst). unfold nlen at 1. rewrite Nat2N.id.
  apply graph_roundtrip_bits; [eapply link_written_codes_ok; eassumption|assumption|assumption].
Qed.

Theorem link_load_seq_greedy : S_link_load_seq_greedy.
Proof.
  intros le st f text g rest Hw Hst Hg p.
  apply (link_load_seq le st f text g _ rest Hw Hst Hg). apply greedy_valid.
Qed.

Theorem link_load_ra : S_link_load_ra.
Proof.
  intros le st f text g sel rest fuel x l Hw Hst Hg Hsel Hx Hf p. unfold load_ra.
  rewrite (parse_written le st f text g Hw Hst).
  apply ra_eq_seq; try assumption. eapply link_written_codes_ok; eassumption.
Qed.

Theorem link_load_wrong_endianness : S_link_load_wrong_endianness.
Proof.
  intros le st f text s offs fuel x Hw. unfold load_seq, load_ra.
  rewrite (props_endianness le st f text Hw). split; reflexivity.
Qed.

Theorem link_load_par : S_link_load_par.
Proof.
  intros le st f text cuts g sels arrival rest Hw Hst Hg cs p Hcuts Hsels Hperm.
  destruct (par_comp_eq_seq le cs p cuts g sels arrival Hcuts Hsels Hperm) as [Heq Hvalid].
  eexists; eexists; split; [exact Heq|].
  apply (link_load_seq le st f text g _ rest Hw Hst Hg Hvalid).
Qed.

Lemma nondec_nondecreasing l : nondecreasing l = nondec l.
Proof.
  induction l as [|a l IH]; [reflexivity|].
  destruct l as [|b l]; [reflexivity|].
  change (nondecreasing (a :: b :: l)) with ((a <=? b) && nondecreasing (b :: l)).
  change (nondec (a :: b :: l)) with ((a <=? b) && nondec (b :: l)).
  rewrite IH. reflexivity.
Qed.

Lemma cuts_ok_legal cuts n :
  cuts_ok cuts n = true -> hd 0 cuts = 0 -> last cuts 0 = n -> legal_cuts cuts n = true.
Proof.
  unfold cuts_ok, legal_cuts. intros H Hh Hl.
  apply andb_prop in H. destruct H as [H _]. apply andb_prop in H. destruct H as [Hlen Hnd].
  destruct cuts as [|c0 cuts]; [discriminate|].
  cbn [hd] in Hh. rewrite nondec_nondecreasing, Hnd, Hlen, Hl, Hh, !N.eqb_refl. reflexivity.
Qed.

Theorem link_dcf_par_load : S_link_dcf_par_load.
Proof.
  intros le st f text g sels arrival rest k Hw Hst Hg Hk cs p cwf cuts Hsels Hperm.
  assert (Hlegal : legal_cuts cuts (nlen g) = true).
  { destruct (dcf_of_ok _ (scan g)) as [Hcwf Hn].
    assert (Hn' : nlen (dcf_of (scan g)) - 1 = nlen g) by (rewrite Hn, nlen_scan; lia).
    pose proof (dcf_cuts_legal (dcf_of (scan g)) k Hcwf Hk) as Hd. cbv zeta in Hd.
    rewrite Hn' in Hd. destruct Hd as (Hok & Hh & Hl & _).
    apply cuts_ok_legal; assumption. }
  split; [exact Hlegal|].
  exact (link_load_par le st f text cuts g sels arrival rest Hw Hst Hg Hlegal Hsels Hperm).
Qed.

Theorem link_load_files : S_link_load_files.
Proof.
  intros le st f text g sel rest orest fuel x l Hw Hst Hg Hsel Hx Hf cs p recs obits.
  assert (Hlen : length (node_bitlens le cs recs) = length g).
  { unfold node_bitlens, recs, encode_graph. rewrite map_length, encode_nodes_length. reflexivity. }
  assert (Hoffs : load_offsets (nlen g) obits = Some (enc_offs le cs p g sel)).
  { unfold load_offsets, obits, nlen. rewrite Nat2N.id, <- Hlen.
    rewrite (offsets_file (node_bitlens le cs recs) orest). reflexivity. }
  split; [exact Hoffs|]. split.
  - unfold load_ra_files. rewrite (parse_written le st f text g Hw Hst), Hoffs.
    apply ra_eq_seq; try assumption. eapply link_written_codes_ok; eassumption.
  - intros Hb. destruct (props_roundtrip le st f text Hw) as [_ Hl]. rewrite Hl, Hb.
    f_equal. symmetry. exact (proj2 (offsets_shape le cs recs)).
Qed.

Theorem link_recompress_files : S_link_recompress_files.
Proof.
  intros leA stA fA textA selA leB stB fB textB cuts sels arrival g restA restB
         HwA HstA HwB HstB Hg HselA Hcuts Hsels Hperm.
  exists g.
  destruct (link_load_par leB stB fB textB cuts g sels arrival restB HwB HstB Hg Hcuts Hsels Hperm)
    as (bs & lens & Hpar & Hload).
  exists bs, lens. split; [|split; assumption].
  exact (link_load_seq leA stA fA textA g selA restA HwA HstA Hg HselA).
Qed.

Lemma depths_max_depth_ok m sel :
  Forall (fun d => d <= m) (depths sel) -> max_depth_ok (Some m) sel = true.
Proof.
  intros H. unfold max_depth_ok. apply forallb_forall. intros d Hd.
  rewrite Forall_forall in H. apply N.leb_le. exact (H d Hd).
Qed.

Theorem link_ra_fuel_greedy : S_link_ra_fuel_greedy.
Proof.
  intros le cs p g rest m x l Hok Hg Hm Hx sel.
  apply ra_fuel; try assumption; [apply greedy_valid|].
  rewrite Hm. apply depths_max_depth_ok. apply greedy_depth. exact Hm.
Qed.

Theorem link_ra_fuel_zuck : S_link_ra_fuel_zuck.
Proof.
  intros le cs p k g rest m x l Hok Hg Hm Hx sel.
  apply ra_fuel; try assumption; [apply zuck_valid|].
  rewrite Hm. apply depths_max_depth_ok. apply zuck_depth. exact Hm.
Qed.

Print Assumptions link_ra_fuel_greedy.
Print Assumptions link_ra_fuel_zuck.
Print Assumptions link_recompress_files.
Print Assumptions link_load_files.
Print Assumptions link_dcf_par_load.
Print Assumptions link_load_par.
Print Assumptions link_written_codes_ok.
Print Assumptions link_load_seq.
Print Assumptions link_load_seq_greedy.
Print Assumptions link_load_ra.
Print Assumptions link_load_wrong_endianness.
