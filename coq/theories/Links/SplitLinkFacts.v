(** Proofs of the C10 o C03/C01 link. *)
From WG Require Import Base.Prelude Codes.Codes BV.Model BV.RefSel BV.Bits BV.BitsFacts
  BV.Access BV.AccessStatements BV.AccessFacts Split.Model Split.Statements Split.SplitFacts
  Links.SplitLinkStatements.
Require Import ZifyBool ZifyN ZifyNat.
Local Open Scope N_scope.

Lemma skipn_combine {A B} : forall k (l1 : list A) (l2 : list B),
  skipn k (combine l1 l2) = combine (skipn k l1) (skipn k l2).
Proof.
  induction k as [|k IH]; intros l1 l2; [reflexivity|].
  destruct l1 as [|a l1]; [reflexivity|].
  destruct l2 as [|b l2]; [cbn [combine skipn]; destruct (skipn k l1); reflexivity|].
  cbn [combine skipn]. apply IH.
Qed.

(** a decoder that returns the lists of [g[k..n)] is, with node ids attached, the scan
    without its first [k] elements *)
Lemma lender_at_suffix (g : list (list N)) (k : nat) :
  lender_at (N.of_nat k) (Some (skipn k g)) = skipn k (scan g).
Proof.
  unfold lender_at, scan. rewrite skipn_combine, skipn_nseq, skipn_length.
  replace (0 + N.of_nat k) with (N.of_nat k) by lia. reflexivity.
Qed.

Lemma lender_at_suffix_N (g : list (list N)) (c : N) :
  lender_at c (Some (skipn (N.to_nat c) g)) = skipn (N.to_nat c) (scan g).
Proof. rewrite <- (lender_at_suffix g (N.to_nat c)). rewrite N2Nat.id. reflexivity. Qed.

(** a random-access labeling whose [iter_from] is the suffix of the scan *)
Lemma ra_from_lab_ok (g : list (list N)) (from : N -> lender N) :
  (forall c, c <= nlen g -> from c = skipn (N.to_nat c) (scan g)) ->
  let L := mkLab (nlen g) from (ra_split from (nlen g)) in
  lab_ok L /\ lb_iter L = scan g /\ lb_n L = nlen g.
Proof.
  intros Hfrom L.
  assert (Hit : lb_iter L = scan g).
  { unfold lb_iter, L. cbn [lb_from]. rewrite Hfrom by lia. reflexivity. }
  split; [|split; [exact Hit|reflexivity]].
  unfold lab_ok. rewrite Hit. unfold L. cbn [lb_n lb_from lb_split].
  split; [apply nlen_scan|]. split; [exact Hfrom|].
  intros cuts Hok. rewrite <- (nlen_scan g) in *.
  apply ra_parts_ok; [exact Hfrom|exact Hok].
Qed.

Theorem link_bvgraph_lab_ok : S_link_bvgraph_lab_ok.
Proof.
  intros le cs p g sel rest (Hc & Hg & Hs). unfold bvgraph_lab.
  apply ra_from_lab_ok. intros c Hc'.
  rewrite <- (N2Nat.id c) at 2.
  rewrite (iter_from_ring_eq le cs p g sel rest (N.to_nat c) Hc Hg Hs) by (unfold nlen in Hc'; lia).
  apply lender_at_suffix_N.
Qed.

Theorem link_bvgraph_list_lab_ok : S_link_bvgraph_list_lab_ok.
Proof.
  intros le cs p g sel rest (Hc & Hg & Hs). unfold bvgraph_lab_list.
  apply ra_from_lab_ok. intros c Hc'.
  rewrite <- (N2Nat.id c) at 2.
  rewrite (iter_from_eq le cs p g sel rest (N.to_nat c) Hc Hg Hs) by (unfold nlen in Hc'; lia).
  apply lender_at_suffix_N.
Qed.

Theorem link_bvgraphseq_lab_ok : S_link_bvgraphseq_lab_ok.
Proof.
  intros le cs p g sel rest (Hc & Hg & Hs). cbv zeta.
  assert (Hfrom : forall c,
    lb_from (bvgraphseq_lab le cs p (length g) (enc_stream le cs p g sel rest)) c
    = skipn (N.to_nat c) (scan g)).
  { intros c. unfold bvgraphseq_lab. cbn [lb_from].
    rewrite (seq_iter_from_eq le cs p g sel rest (N.to_nat c) Hc Hg Hs).
    apply lender_at_suffix_N. }
  assert (Hit : lb_iter (bvgraphseq_lab le cs p (length g) (enc_stream le cs p g sel rest)) = scan g).
  { unfold lb_iter. rewrite Hfrom. reflexivity. }
  split; [|split; [exact Hit|reflexivity]].
  unfold lab_ok. rewrite Hit. split; [|split].
  - rewrite nlen_scan. reflexivity.
  - intros c _. apply Hfrom.
  - intros cuts Hok. unfold bvgraphseq_lab in *. cbn [lb_split lb_n] in *.
    rewrite (next_successors_eq le cs p g sel rest Hc Hg Hs).
    pose proof (lender_at_suffix g 0) as E. cbn [skipn] in E.
    change (N.of_nat 0) with 0 in E. rewrite E.
    apply seq_parts_ok. rewrite nlen_scan. exact Hok.
Qed.

Theorem link_bvgraph_parts : S_link_bvgraph_parts.
Proof.
  intros le cs p g sel rest cuts Henc Hok. cbv zeta.
  destruct (link_bvgraph_lab_ok le cs p g sel rest Henc) as ((_ & _ & H1) & E1 & N1).
  destruct (link_bvgraph_list_lab_ok le cs p g sel rest Henc) as ((_ & _ & H2) & E2 & N2).
  destruct (link_bvgraphseq_lab_ok le cs p g sel rest Henc) as ((_ & _ & H3) & E3 & N3).
  rewrite <- E1 at 1. rewrite <- E2 at 1. rewrite <- E3 at 1.
  split; [apply H1; rewrite N1; exact Hok|].
  split; [apply H2; rewrite N2; exact Hok|].
  split; [apply H3; rewrite N3; exact Hok|].
  split; [apply num_parts|].
  pose proof Hok as Hok'. apply cuts_ok_spec in Hok'. destruct Hok' as (_ & Hnd & Hlast).
  unfold subg. apply slices_cover; [exact Hnd|]. rewrite nlen_scan. exact Hlast.
Qed.

Theorem link_bvgraph_is_leaf : S_link_bvgraph_is_leaf.
Proof.
  intros le cs p g sel rest Henc. cbv zeta.
  destruct (link_bvgraph_lab_ok le cs p g sel rest Henc) as ((_ & F1 & H1) & E1 & N1).
  destruct (link_bvgraphseq_lab_ok le cs p g sel rest Henc) as ((_ & F3 & H3) & E3 & N3).
  destruct (ra_lab_ok _ g) as ((_ & Fa & Ha) & Ea).
  destruct (seq_lab_ok _ g) as ((_ & Fb & Hb) & Eb).
  cbn [denote]. split; [exact N1|]. split; [exact N3|]. split.
  - intros c Hc. split.
    + rewrite F1 by (rewrite N1; exact Hc). rewrite Fa by exact Hc. rewrite E1, Ea. reflexivity.
    + rewrite F3 by (rewrite N3; exact Hc). rewrite Fb by exact Hc. rewrite E3, Eb. reflexivity.
  - intros cuts Hok. split.
    + rewrite H1 by (rewrite N1; exact Hok). rewrite Ha by exact Hok. rewrite E1, Ea. reflexivity.
    + rewrite H3 by (rewrite N3; exact Hok). rewrite Hb by exact Hok. rewrite E3, Eb. reflexivity.
Qed.

Theorem link_bvgraph_wrapped : S_link_bvgraph_wrapped.
Proof.
  intros le cs p g sel rest le' cs' p' g' sel' rest' perm Henc Henc'. cbv zeta.
  destruct (link_bvgraph_lab_ok le cs p g sel rest Henc) as (Hok0 & E0 & _).
  destruct (link_bvgraphseq_lab_ok le' cs' p' g' sel' rest' Henc') as (Hok1 & E1 & _).
  destruct (union_ok _ _ Hok0 Hok1) as (HU & EU & _).
  destruct (seqwrap_ok _ _ noloops_elem _ HU) as [HN EN].
  destruct (seqwrap_ok _ _ (perm_elem perm) _ HN) as [HP EP].
  split; [exact HP|]. unfold permuted_lab, noloops_lab in *. rewrite EP, EN, EU, E0, E1. reflexivity.
Qed.
