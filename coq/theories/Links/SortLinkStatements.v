(** LINK C09 o C08 — statements only.

    C09 states every theorem "for every sorter satisfying [sorter_ok] / [sorterd_ok]" and,
    inside its proofs, uses the per-partition contract [good (filter q X) (srt (filter q X))]
    ([Transform/SortFacts.v], section [Parts]) and [ranged (boundaries n p) parts]
    ([Transform/RunFacts.v], section [PartsRanged]), commenting that this "is what property
    C08 establishes for one partition of ParSortIters".  C08 proves [S_sort_spec] /
    [S_sort_spec_dedup] about its own model of the pipeline.  The statements below compose
    the two, in three strengths:

    (a) the partitioning functions of the two models coincide;
    (b) the C08 pipeline, on every in-range input, returns the boundaries of the Transform
        model and partitions that satisfy exactly the contracts the C09 proofs use ([good]
        per partition, [ranged], and the conclusion of [sorter_ok] / [sorterd_ok] for the
        chained partitions);
    (c) the C09 end-to-end theorems INSTANTIATED:
        (c1) with the sorter parameter defined from the C08 pipeline ([pipeline_sorter]);
        (c2) with the C08 pipeline in place of the whole of [ext_sort] ([c08_run_xop]),
             which is the composition the Rust code performs. *)
From WG Require Import Base.Prelude Par.Splice Sort.Pipeline Sort.Statements
  Transform.Pipelines Transform.Statements Transform.OrderFacts Transform.SortFacts
  Transform.ReadParFacts Links.SortLinkGlue.
From WG Require Split.Model.
Local Open Scope N_scope.

(** all sources below [n]: the domain on which the sorter is used *)
Definition in_range {L} (n : N) (X : list (@lpair L)) : Prop := forall e, In e X -> src e < n.

(** ** The two record types and the two orders are the same *)
Definition S_link_types : Prop :=
  forall L : Type,
    @lpair L = triple L
    /\ (forall a b : @lpair L, tle a b <-> key_le a b)
    /\ (forall l : list (@lpair L), tsorted l <-> StronglySorted key_le l).

(** ** (a) Partitioning: [div_ceil], the boundaries (for EVERY [n] and [p], zero included),
    the partition id, and -- on valid sources -- the partition predicates coincide.  The
    uniform cutpoints of C10 ([SplitLabeling::split_iter], a third formula for the ceiling)
    are the same list too. *)
Definition S_link_boundaries : Prop :=
  (forall a b, XformM.div_ceil a b = SortM.div_ceil a b)
  /\ (forall n p, XformM.boundaries n p = SortM.boundaries n p)
  /\ (forall n p s, N.to_nat (s / XformM.div_ceil n (N.of_nat p)) = part_id n p s)
  /\ (forall (L : Type) n p i (e : @lpair L), (0 < p)%nat -> (i < p)%nat -> src e < n ->
        xpart n p i e = in_part n p i (fst e))
  /\ (forall n p, (0 < p)%nat ->
        Split.Model.SplitM.uniform_cuts n (N.of_nat p) = SortM.boundaries n p).

(** the two models refuse the same inputs: [ext_sort] returns [None], and the C08 pipeline
    returns an error (never a panic), exactly when some source is out of range -- whatever
    the batch sort, the codec and the deduplication flags *)
Definition S_link_refusal : Prop :=
  forall (L : Type) bsort k n p cd md split ties (X : list (@lpair L)),
    (0 < p)%nat -> split_ok split ->
    (c08_parts bsort k n p cd md split ties X = None <-> exists e, In e X /\ n <= src e)
    /\ (c08_parts bsort k n p cd md split ties X = None <->
        forall srt, ext_sort srt n p X = None).

(** ** (b) The C08 pipeline satisfies the contracts of the C09 proofs.
    Without deduplication: for every admissible batch sort, codec, [n], [p > 0], every
    distribution of the input among producers with any buffer capacities ([prods]) and all
    tie-breaks, on every in-range input the pipeline terminates with the boundaries of the
    Transform model and [p] partitions such that
    - partition [i] is a key-sorted permutation of the pairs [ext_sort] would hand to the
      sorter for partition [i];
    - if the input has no repeated key (the situation of transpose and permute), partition
      [i] satisfies [good] w.r.t. those pairs;
    - the chained partitions satisfy the conclusion of [sorter_ok];
    - the partitions respect the boundaries ([ranged], the hypothesis of [read_par]). *)
Definition S_link_sorter_ok : Prop :=
  forall (L : Type) bsort (k : codec_kind) (n : N) (p : nat)
         (prods : list (nat * list (@lpair L))) ties,
    sort_ok bsort -> (0 < p)%nat -> in_range n (all_input prods) ->
    let X := all_input prods in
    exists parts,
      sort_pipeline_gen bsort (codec_rt k) n p false false prods ties
        = SDone (XformM.boundaries n p, parts)
      /\ length parts = p
      /\ (forall i, (i < p)%nat ->
            Sorted key_le (nth i parts [])
            /\ Permutation (nth i parts []) (filter (xpart n p i) X))
      /\ (NoDup (map fst X) ->
            (forall i, (i < p)%nat -> good (filter (xpart n p i) X) (nth i parts []))
            /\ good X (concat parts))
      /\ (Sorted key_le (concat parts) /\ Permutation (concat parts) X)
      /\ ranged (XformM.boundaries n p) parts.

(** With deduplication in the merge (and with or without it in the codec): every partition
    satisfies [good] unconditionally, the chained partitions satisfy the conclusion of
    [sorterd_ok], and the partitions respect the boundaries. *)
Definition S_link_sorterd_ok : Prop :=
  forall (L : Type) bsort (k : codec_kind) (n : N) (p : nat) (cd : bool)
         (prods : list (nat * list (@lpair L))) ties,
    sort_ok bsort -> (0 < p)%nat -> in_range n (all_input prods) ->
    let X := all_input prods in
    exists parts,
      sort_pipeline_gen bsort (codec_rt k) n p cd true prods ties
        = SDone (XformM.boundaries n p, parts)
      /\ length parts = p
      /\ (forall i, (i < p)%nat -> good (filter (xpart n p i) X) (nth i parts []))
      /\ good X (concat parts)
      /\ (Sorted key_lt (concat parts)
          /\ (forall x, In x (concat parts) -> In x X)
          /\ (forall x, In x X -> exists y, In y (concat parts) /\ fst y = fst x))
      /\ ranged (XformM.boundaries n p) parts.

(** ** (c1) The sorter PARAMETER instantiated with the C08 pipeline *)

(** the concrete distribution functions satisfy [split_ok] (so the quantification over
    [split] below is not vacuous), and a distribution is free to reorder the pairs *)
Definition S_link_chunk_split_ok : Prop :=
  forall (L : Type) spec, @split_ok L (chunk_split spec).

(** the totalised sorters satisfy the pinned contracts, for EVERY list (in range: by C08;
    out of range: the fallback) *)
Definition S_link_sorter_total : Prop :=
  forall (L : Type) bsort k n p' cd split ties,
    @sort_ok L bsort -> (0 < p')%nat -> split_ok split ->
    sorter_ok (pipeline_sorter_total bsort k n p' false false split ties)
    /\ sorterd_ok (pipeline_sorter_total bsort k n p' cd true split ties).

(** [ext_sort _ n] calls its sorter on in-range lists only: two sorters that agree there
    are interchangeable.  Hence the fallback of the totalised sorter is never exercised by
    a transform whose output has [n] nodes, and the theorems below are stated with the
    UN-totalised [pipeline_sorter]. *)
Definition S_link_ext_sort_domain : Prop :=
  forall (L : Type) (s1 s2 : list (@lpair L) -> list (@lpair L)) n p X,
    (forall l, in_range n l -> s1 l = s2 l) -> ext_sort s1 n p X = ext_sort s2 n p X.

(** C09's [S_transpose] with the sorter defined from the C08 pipeline (any admissible batch
    sort, codec, inner partition count [p'], distribution, tie-breaks) *)
Definition S_link_transpose_concrete : Prop :=
  forall bsort k p' split ties,
    sort_ok bsort -> (0 < p')%nat -> split_ok split ->
  forall g p cuts arrival,
    wf_graph g = true -> (0 < p)%nat -> legal_schedule cuts arrival (nlen g) ->
    let srt := pipeline_sorter bsort k (nlen g) p' false false split ties in
    transpose_seq srt p g = Some (transpose_spec g)
    /\ transpose_par srt p cuts arrival g = Some (transpose_spec g).

(** C09's [S_run_xop] (transpose, symmetrize with and without loops, permute, map;
    sequential and parallel; read through [iter] and through [into_par_lenders]) likewise *)
Definition S_link_run_xop_concrete : Prop :=
  forall bsort k p' cd split ties,
    sort_ok bsort -> (0 < p')%nat -> split_ok split ->
  forall op g par p cuts arrival,
    wf_graph g = true -> (0 < p)%nat -> legal_schedule cuts arrival (nlen g) -> xop_ok op g ->
    let n := xop_nout op g in
    run_xop (pipeline_sorter bsort k n p' false false split ties)
            (pipeline_sorter bsort k n p' cd true split ties) op par p cuts arrival g
    = (Some (xop_spec op g), Some (xop_spec op g)).

(** C09's [S_sorted_par_symm] / [S_sorted_par_symm_lenders] likewise *)
Definition S_link_sorted_par_symm_concrete : Prop :=
  forall bsort k p' split ties,
    sort_ok bsort -> (0 < p')%nat -> split_ok split ->
  forall noloops g p cuts arrival,
    wf_graph g = true -> (0 < p)%nat -> legal_schedule cuts arrival (nlen g) ->
    let srt := pipeline_sorter bsort k (nlen g) p' false false split ties in
    symmetrize_sorted_par srt noloops p cuts arrival g = Some (symmetrize_spec noloops g)
    /\ symmetrize_sorted_par_lenders srt noloops p cuts arrival g
       = Some (symmetrize_spec noloops g).

(** C09's [S_run_labeled] (labelled transposition, any label type) likewise *)
Definition S_link_run_labeled_concrete : Prop :=
  forall (L : Type) bsort k p' split ties,
    @sort_ok L bsort -> (0 < p')%nat -> split_ok split ->
  forall g par p cuts arrival,
    wf_lgraph g = true -> (0 < p)%nat -> legal_schedule cuts arrival (nlen g) ->
    run_parts (pipeline_sorter bsort k (nlen g) p' false false split ties)
      phi_transpose (nlen g) par p cuts arrival g
    = (Some (transpose_labeled_spec g), Some (transpose_labeled_spec g)).

(** ** (c2) The direct composition: the C08 pipeline in place of [ext_sort]
    Every transform, sequential or parallel, with [p] partitions, every admissible batch
    sort, codec (deduplicating or not when the merge deduplicates), distribution among
    producers, buffer capacities and tie-breaks: the pairs go through the C08 pipeline, the
    partitions and boundaries IT returns are read by [NodeLabels], and both readings are
    the specification. *)
Definition S_link_run_xop_composed : Prop :=
  forall bsort k cd split ties,
    sort_ok bsort -> split_ok split ->
  forall op g par p cuts arrival,
    wf_graph g = true -> (0 < p)%nat -> legal_schedule cuts arrival (nlen g) -> xop_ok op g ->
    c08_run_xop bsort k cd split ties op par p cuts arrival g
    = (Some (xop_spec op g), Some (xop_spec op g)).

Definition S_link_run_labeled_composed : Prop :=
  forall (L : Type) bsort k split ties,
    @sort_ok L bsort -> split_ok split ->
  forall g par p cuts arrival,
    wf_lgraph g = true -> (0 < p)%nat -> legal_schedule cuts arrival (nlen g) ->
    c08_run_parts bsort k phi_transpose (nlen g) par p false false split ties cuts arrival g
    = (Some (transpose_labeled_spec g), Some (transpose_labeled_spec g)).
