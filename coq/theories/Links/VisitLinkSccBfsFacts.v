(** LINK L-C, breadth-first part (C15 o C13): [Scc.bfs_visit] under every schedule marks
    the nodes the C13 visits mark (sequential, and parallel under every schedule of the C13
    model), and [symm_par] is the Rust loop on the C13 parallel visits.  Proofs.

    Both sides are characterised by the same set: the nodes reachable from the root through
    nodes outside the old visited set ([avoid]).  For the C15 model this is an invariant of
    its level iteration (no closedness assumption on the visited set); for the C13 model it
    is [C13_levels_are_distances]. *)
From WG Require Import Base.Prelude.
From WG Require Import Visits.Bfs Visits.BfsStatements Visits.BfsFacts.
From WG Require Import Algo.Scc Algo.SccStatements Algo.SccFacts.
From WG Require Import Links.VisitLinkStatements Links.VisitLinkBfsFacts Links.VisitLinkDfsFacts
  Links.VisitLinkTarjanFacts Links.VisitLinkSccFacts.

Lemma gN_succs_bfs : forall (g : SccM.graph) (u : N),
  BfsM.succs (gN g) u = lN (SccM.succs g (N.to_nat u)).
Proof.
  intros g u. unfold BfsM.succs, SccM.succs, gN. change (@nil N) with (lN []). apply map_nth.
Qed.

Lemma lnat_In : forall l v, In v (lnat l) <-> In (N.of_nat v) l.
Proof.
  intros l v. unfold lnat. rewrite in_map_iff. split.
  - intros (y & E & H). subst v. rewrite N2Nat.id. exact H.
  - intros H. exists (N.of_nat v). split; [apply Nat2N.id|exact H].
Qed.

Lemma assign_ext : forall comp l1 l2 k,
  (forall v, In v l1 <-> In v l2) -> assign comp l1 k = assign comp l2 k.
Proof.
  intros comp l1 l2 k H. apply (nth_ext _ _ 0%nat 0%nat); rewrite !assign_length; [reflexivity|].
  intros v Hv. rewrite !assign_nth by exact Hv.
  destruct (SccM.memb v l1) eqn:E1, (SccM.memb v l2) eqn:E2; try reflexivity; exfalso.
  - apply SccFacts.memb_In in E1. apply SccFacts.memb_false in E2. apply E2, H, E1.
  - apply SccFacts.memb_false in E1. apply SccFacts.memb_In in E2. apply E1, H, E2.
Qed.

Section BfsCorr.
  Variable sched : nat -> list nat -> list nat.
  Hypothesis sched_perm : forall i l, Permutation (sched i l) l.
  Variable g : SccM.graph.
  Hypothesis Hwf : SccM.wf_graph g.
  (** the old visited set, on the two sides *)
  Variable V0 : list nat.
  Variable VB : list N.
  Hypothesis HVB : forall x, In x V0 <-> In (N.of_nat x) VB.
  Variable root : nat.
  Let gn := gN g.
  Let ok : N -> bool := fun x => (fun _ : N => true) x && negb (BfsM.memb x VB).
  (** reachable from the root through nodes outside the old visited set *)
  Definition avoid (x : nat) : Prop := exists k, BfsM.reach gn ok [N.of_nat root] k (N.of_nat x).

  Lemma ok_iff : forall x, ok (N.of_nat x) = true <-> ~ In x V0.
  Proof.
    intros x. unfold ok. cbn [andb]. rewrite negb_true_iff, BfsFacts.memb_false, HVB. tauto.
  Qed.

  Lemma reach_ok : forall k y, BfsM.reach gn ok [N.of_nat root] k y -> ok y = true.
  Proof. intros k y H. destruct H; assumption. Qed.

  Lemma avoid_notV0 : forall x, avoid x -> ~ In x V0.
  Proof. intros x [k Hk]. apply ok_iff. exact (reach_ok k _ Hk). Qed.

  Lemma avoid_step : forall w x, avoid w -> arc g w x -> ~ In x V0 -> avoid x.
  Proof.
    intros w x [k Hk] Ha Hx. exists (S k). eapply BfsM.reach_step; [exact Hk| |apply ok_iff; exact Hx].
    unfold gn. rewrite gN_succs_bfs, Nat2N.id. apply lN_inj_In. exact Ha.
  Qed.

  Definition binv (frontier vis : list nat) : Prop :=
    NoDup vis /\ Forall (fun v => (v < length g)%nat) vis /\ incl frontier vis
    /\ (exists nw, vis = nw ++ root :: V0)
    /\ (forall x, In x frontier -> avoid x)
    /\ (forall x, In x vis -> In x V0 \/ avoid x)
    /\ (forall x y, In x vis -> ~ In x V0 -> ~ In x frontier -> arc g x y -> In y vis).

  Lemma binv_spec : forall fuel frontier vis,
    binv frontier vis ->
    (frontier = [] \/ fuel + length vis >= S (length g))%nat ->
    binv [] (SccM.bfs sched fuel g frontier vis).
  Proof.
    induction fuel as [|f IH]; intros frontier vis Hinv Hfuel.
    - destruct Hfuel as [He|Hf].
      + subst. cbn. exact Hinv.
      + destruct Hinv as [Hnd [Hb _]]. pose proof (nodup_bound _ _ Hnd Hb). lia.
    - destruct frontier as [|f0 fr]; [cbn; exact Hinv|].
      cbn [SccM.bfs]. set (frontier := f0 :: fr) in *.
      destruct (claim (sched (length vis) (flat_map (SccM.succs g) frontier)) vis []) as [next vis'] eqn:Hc.
      destruct (claim_spec _ _ _ _ _ Hc) as [nw [Hv' [Hn [Hndp Hnw]]]].
      rewrite app_nil_r in Hn. subst next.
      destruct Hinv as [Hnd [Hb [Hincl [[nw0 Hpre] [Hfr [Hsound Hcl]]]]]].
      assert (HV0 : incl V0 vis).
      { intros x Hx. rewrite Hpre. apply in_or_app. right. right. exact Hx. }
      assert (Hcand : forall x, In x (sched (length vis) (flat_map (SccM.succs g) frontier)) <->
                                exists w, In w frontier /\ arc g w x).
      { intros x. split.
        - intros Hx. apply (Permutation_in _ (sched_perm _ _)) in Hx.
          apply in_flat_map in Hx. exact Hx.
        - intros Hx. apply (Permutation_in _ (Permutation_sym (sched_perm _ _))).
          apply in_flat_map. exact Hx. }
      assert (Hnew : forall x, In x nw -> avoid x).
      { intros x Hx. apply Hnw in Hx. destruct Hx as [Hx Hnv]. apply Hcand in Hx.
        destruct Hx as [w [Hw Ha]]. apply (avoid_step w x (Hfr w Hw) Ha).
        intros HxV. apply Hnv. apply HV0. exact HxV. }
      assert (Hinv' : binv nw vis').
      { subst vis'. split; [apply Hndp; exact Hnd|]. split.
        - apply Forall_app. split; [|exact Hb]. apply Forall_forall. intros x Hx.
          apply Hnw in Hx. destruct Hx as [Hx _]. apply Hcand in Hx. destruct Hx as [w [Hw Ha]].
          apply (wf_succs _ _ _ Hwf Ha).
        - split; [intros x Hx; apply in_or_app; left; exact Hx|].
          split; [exists (nw ++ nw0); rewrite Hpre, app_assoc; reflexivity|].
          split; [exact Hnew|]. split.
          + intros x Hx. apply in_app_or in Hx. destruct Hx as [Hx|Hx]; [right; apply Hnew; exact Hx|].
            apply Hsound. exact Hx.
          + intros x y Hx HxV Hnf Ha. apply in_app_or in Hx. destruct Hx as [Hx|Hx]; [contradiction|].
            destruct (in_dec Nat.eq_dec x frontier) as [Hxf|Hxf].
            * destruct (in_dec Nat.eq_dec y vis) as [Hy|Hy]; [apply in_or_app; right; exact Hy|].
              apply in_or_app. left. apply Hnw. split; [|exact Hy]. apply Hcand. exists x. split; assumption.
            * apply in_or_app. right. eapply Hcl; [exact Hx|exact HxV|exact Hxf|exact Ha]. }
      assert (Hfuel' : (nw = [] \/ f + length vis' >= S (length g))%nat).
      { destruct nw as [|a nw']; [left; reflexivity|right].
        subst vis'. rewrite app_length. cbn [length].
        destruct Hfuel as [He|Hf]; [discriminate|]. lia. }
      exact (IH nw vis' Hinv' Hfuel').
  Qed.

  Hypothesis Hroot : (root < length g)%nat.
  Hypothesis HrootV : ~ In root V0.
  Hypothesis HndV : NoDup V0.
  Hypothesis HbV : Forall (fun v => (v < length g)%nat) V0.

  Lemma avoid_root : avoid root.
  Proof. exists O. apply BfsM.reach_root; [left; reflexivity|]. apply ok_iff. exact HrootV. Qed.

  (** the C15 model *)
  Lemma bfs_visit_facts :
    let F := bfs_visit sched g root V0 in
    NoDup F /\ Forall (fun v => (v < length g)%nat) F /\ (exists nw, F = nw ++ root :: V0)
    /\ forall x, In x F <-> In x V0 \/ avoid x.
  Proof.
    cbv zeta.
    assert (Hinv : binv [] (bfs_visit sched g root V0)).
    { unfold bfs_visit. apply binv_spec; [|right; cbn [length]; lia].
      split; [constructor; assumption|]. split; [constructor; assumption|].
      split; [intros x [Hx|[]]; left; exact Hx|]. split; [exists []; reflexivity|].
      split; [intros x [Hx|[]]; subst; exact avoid_root|]. split.
      - intros x [Hx|Hx]; [right; subst; exact avoid_root|left; exact Hx].
      - intros x y [Hx|Hx] HxV Hnf Ha; [exfalso; apply Hnf; left; exact Hx|contradiction]. }
    destruct Hinv as [Hnd [Hb [_ [[nw Hpre] [_ [Hsound Hcl]]]]]].
    split; [exact Hnd|]. split; [exact Hb|]. split; [exists nw; exact Hpre|].
    assert (HV0 : incl (root :: V0) (bfs_visit sched g root V0)).
    { intros x Hx. rewrite Hpre. apply in_or_app. right. exact Hx. }
    intros x. split; [apply Hsound|].
    intros [Hx|[k Hk]]; [apply HV0; right; exact Hx|].
    remember (N.of_nat x) as y eqn:Ey.
    assert (Hgen : In (N.to_nat y) (bfs_visit sched g root V0)).
    { clear Ey. induction Hk as [r Hr Hok | k u v Hu IH Hv Hok].
      - destruct Hr as [Hr|[]]. subst r. rewrite Nat2N.id. apply HV0. left. reflexivity.
      - apply (Hcl (N.to_nat u) (N.to_nat v) IH).
        + apply reach_ok in Hu. rewrite <- (N2Nat.id u) in Hu. apply ok_iff in Hu. exact Hu.
        + intros [].
        + unfold gn in Hv. rewrite gN_succs_bfs in Hv. apply lN_In' in Hv.
          destruct Hv as (v0 & Ev & Hv0). subst v. rewrite Nat2N.id. exact Hv0. }
    subst y. rewrite Nat2N.id in Hgen. exact Hgen.
  Qed.

  (** the C13 specification levels *)
  Lemma levels_avoid : forall x,
    In (N.of_nat x) (concat (bfs_levels gn BfsM.no_filter [N.of_nat root] VB)) <-> avoid x.
  Proof.
    intros x. set (Ls := bfs_levels gn BfsM.no_filter [N.of_nat root] VB).
    assert (Hlev : forall k y, In y (nth k Ls []) <-> dist_is gn ok [N.of_nat root] y k).
    { intros k y. exact (levels_are_distances gn (fun _ => true) [N.of_nat root] VB k y). }
    split.
    - intros Hx. apply in_concat_nth in Hx. destruct Hx as (k & Hk). apply Hlev in Hk.
      exists k. apply Hk.
    - intros [k Hk].
      destruct (level_complete gn (fun _ => true) [N.of_nat root] VB k (N.of_nat x) Hk)
        as (i & _ & Hi).
      apply (level_dist gn (fun _ => true) [N.of_nat root] VB i) in Hi.
      apply in_concat_nth. exists i. apply Hlev. exact Hi.
  Qed.

  (** the C13 parallel visit under a family of schedules *)
  Lemma par_avoid : forall sch : N -> list (N * N) -> list (N * N),
    (forall d l, Permutation (sch d l) l) ->
    forall x, In (N.of_nat x)
                 (map fst (concat (par_levels gn BfsM.no_filter sch [N.of_nat root] VB)))
              <-> avoid x.
  Proof.
    intros sch Hsch x. rewrite <- levels_avoid.
    destruct (par_levels_spec gn BfsM.no_filter [N.of_nat root] VB sch Hsch) as [HF _].
    cbv zeta in HF. destruct (Forall2_nth_fst _ _ HF) as [_ Hp]. split; intros Hx.
    - eapply Permutation_in; [exact Hp|exact Hx].
    - eapply Permutation_in; [apply Permutation_sym; exact Hp|exact Hx].
  Qed.
End BfsCorr.

Theorem link_bfs_visit : S_link_bfs_visit.
Proof.
  intros sched g root vis Hs Hwf Hroot Hnin Hnd Hb x.
  assert (HVB : forall y, In y vis <-> In (N.of_nat y) (lN vis)) by (intros y; symmetry; apply lN_inj_In).
  destruct (bfs_visit_facts sched Hs g Hwf vis (lN vis) HVB root Hroot Hnin Hnd Hb) as (_ & _ & _ & H).
  rewrite H.
  destruct (seq_levels (gN g) BfsM.no_filter [N.of_nat root] (lN vis)) as (_ & _ & _ & Hvis).
  cbv zeta in Hvis. rewrite Hvis. unfold visited_after. rewrite in_app_iff.
  rewrite (levels_avoid g (lN vis) root x), <- HVB. tauto.
Qed.

Theorem link_bfs_visit_par : S_link_bfs_visit_par.
Proof.
  intros sched sch g root vis Hs Hsch Hwf Hroot Hnin Hnd Hb x.
  assert (HVB : forall y, In y vis <-> In (N.of_nat y) (lN vis)) by (intros y; symmetry; apply lN_inj_In).
  destruct (bfs_visit_facts sched Hs g Hwf vis (lN vis) HVB root Hroot Hnin Hnd Hb) as (_ & _ & _ & H).
  rewrite H, in_app_iff, (par_avoid g (lN vis) root sch Hsch x), <- HVB. tauto.
Qed.

(** * [symm_par] *)
Lemma memb_conv_set : forall (vis : list nat) (V : list N) r,
  (forall x, In x vis <-> In (N.of_nat x) V) -> SccM.memb r vis = BfsM.memb (N.of_nat r) V.
Proof.
  intros vis V r H.
  destruct (SccM.memb r vis) eqn:E1, (BfsM.memb (N.of_nat r) V) eqn:E2; try reflexivity; exfalso.
  - apply SccFacts.memb_In in E1. apply BfsFacts.memb_false in E2. apply E2, H, E1.
  - apply SccFacts.memb_false in E1. apply BfsFacts.memb_In in E2. apply E1, H, E2.
Qed.

Lemma symm_par_gen : forall sched (sch : N -> N -> list (N * N) -> list (N * N)) (g : SccM.graph),
  (forall i l, Permutation (sched i l) l) -> (forall r d l, Permutation (sch r d l) l) ->
  SccM.wf_graph g ->
  forall roots vis V comp k,
    (forall r, In r roots -> (r < length g)%nat) ->
    NoDup vis -> Forall (fun v => (v < length g)%nat) vis ->
    (forall x, In x vis <-> In (N.of_nat x) V) ->
    (let '(_, c1, k1) := fold_left (comp_step (bfs_visit sched g)) roots (vis, comp, k) in (c1, k1))
    = (let '(_, c2, k2) := fold_left (par_comp_step (gN g) sch) (lN roots) (V, comp, k) in (c2, k2)).
Proof.
  intros sched sch g Hs Hsch Hwf. induction roots as [|r rs IH]; intros vis V comp k Hr Hnd Hb HV.
  - reflexivity.
  - assert (Hr0 : (r < length g)%nat) by (apply Hr; left; reflexivity).
    assert (Hrs : forall x, In x rs -> (x < length g)%nat) by (intros x Hx; apply Hr; right; exact Hx).
    cbn [lN map fold_left]. fold (lN rs). unfold comp_step at 2. unfold par_comp_step at 2.
    rewrite (memb_conv_set vis V r HV).
    destruct (BfsM.memb (N.of_nat r) V) eqn:Hm; [apply IH; assumption|].
    assert (Hnin : ~ In r vis).
    { intros Hc. apply HV in Hc. apply BfsFacts.memb_false in Hm. contradiction. }
    destruct (bfs_visit_facts sched Hs g Hwf vis V HV r Hr0 Hnin Hnd Hb) as (Hnd' & Hb' & [nw Hpre] & Hin).
    pose proof (par_avoid g V r (sch (N.of_nat r)) (Hsch (N.of_nat r))) as Hpar.
    set (visited := map fst (concat (par_levels (gN g) BfsM.no_filter (sch (N.of_nat r)) [N.of_nat r] V))) in *.
    assert (Hcomp : assign_new comp vis (bfs_visit sched g r vis) k = assign comp (lnat visited) k).
    { rewrite Hpre. change (nw ++ r :: vis) with (nw ++ [r] ++ vis). rewrite app_assoc, assign_new_app.
      apply assign_ext. intros v. rewrite lnat_In, Hpar. split.
      - intros Hv. assert (Hv' : In v (bfs_visit sched g r vis)).
        { rewrite Hpre. change (nw ++ r :: vis) with (nw ++ [r] ++ vis). rewrite app_assoc.
          apply in_or_app. left. exact Hv. }
        apply Hin in Hv'. destruct Hv' as [Hc|Ha]; [|exact Ha]. exfalso.
        rewrite Hpre in Hnd'. change (nw ++ r :: vis) with (nw ++ [r] ++ vis) in Hnd'.
        rewrite app_assoc in Hnd'. exact (nodup_app_disj _ _ v Hnd' Hv Hc).
      - intros Ha. assert (Hv' : In v (bfs_visit sched g r vis)) by (apply Hin; right; exact Ha).
        rewrite Hpre in Hv'. change (nw ++ r :: vis) with (nw ++ [r] ++ vis) in Hv'.
        rewrite app_assoc in Hv'. apply in_app_or in Hv'. destruct Hv' as [Hv'|Hv']; [exact Hv'|].
        exfalso. exact (avoid_notV0 g vis V HV r v Ha Hv'). }
    rewrite Hcomp. apply IH; try assumption.
    intros x. rewrite Hin, in_app_iff, Hpar, HV. tauto.
Qed.

Theorem link_symm_par_fold : S_link_symm_par_fold.
Proof.
  intros sched sch g Hs Hsch Hwf. unfold symm_par, comp_loop.
  rewrite (symm_par_gen sched sch g Hs Hsch Hwf (seq 0 (length g)) [] [] (repeat 0%nat (length g)) 0%nat).
  - rewrite lN_seq. reflexivity.
  - intros r Hr. apply in_seq in Hr. lia.
  - constructor.
  - constructor.
  - intros x. cbn. tauto.
Qed.

(** * The pair returned by [tarjan] *)
Theorem link_tarjan_result : S_link_tarjan_result.
Proof.
  intros g Hwf. destruct (link_tarjan_fold g Hwf) as (evs & cf & Hd & Ht).
  exists evs, cf. split; [exact Hd|]. unfold tarjan. rewrite Ht. reflexivity.
Qed.
