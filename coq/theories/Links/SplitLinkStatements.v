(** LINK C10 o C03/C01 — the labeling contract of the splitting area (C10), instantiated
    with the BvGraph access model (C03) on the encoder's bit stream (C01).
    Definitions and statements only.

    What C10 assumes: its theorems are stated for an abstract [labeling] (number of nodes,
    [iter_from], [split_iter_at]) satisfying [lab_ok]; the leaves [ra_lab g] / [seq_lab g]
    of its model DEFINE [iter_from c] as [skipn c (scan g)] ("iter_from of the concrete
    representations is assumed to be the suffix of the scan; it is C03's subject").
    What C03 proves: on every encoder output, [iter_from k] of the BvGraph model (window as
    a list, and as the real ring of [window + 1] slots), [BvGraphSeq::iter_from] and the
    slot-recycling [next_successors] iteration return the successor lists of [g[k..n)].

    Here the two are composed: the labelings below take their [iter_from] from the C03
    decoder run on the C01 encoder's stream, and their [split_iter_at] from the C10 model of
    the splitter the Rust type uses ([BvGraph]: [split::ra::Iter] over [iter_from];
    [BvGraphSeq]: [split::seq::Iter] over [iter()]). *)
From WG Require Import Base.Prelude Codes.Codes BV.Model BV.RefSel BV.Bits BV.BitsFacts
  BV.Access BV.AccessStatements Split.Model Split.Statements.
Local Open Scope N_scope.

(** ** Bridging the types
    The BV decoders return the successor lists [list (list N)] of the nodes they visit (or
    [None] on a decoding failure); a C10 lender is the list of (node, successors) still to be
    yielded.  A decoder started at node [c] numbers its lists [c, c+1, ...] (the [Iter]
    structs keep [current_node]); a failed decoder yields nothing. *)
Definition lender_at (c : N) (o : option (list (list N))) : lender N :=
  match o with
  | Some ls => combine (nseq c (length ls)) ls
  | None => []
  end.

(** [BvGraph] ([n] nodes, offsets table [offs], bit stream [s]): [iter_from c] is the ring
    decoder positioned through the offsets with its window pre-filled by random access
    ([acc_iter_from_ring], C03); [split_iter_at] is [split::ra::Iter]. *)
Definition bvgraph_lab le cs p (n : N) (offs : list N) (s : bits) : labeling N :=
  let from := fun c => lender_at c (acc_iter_from_ring le cs p offs s c) in
  mkLab n from (ra_split from n).

(** the same with the window kept as a list ([acc_iter_from], the other C03 model) *)
Definition bvgraph_lab_list le cs p (n : N) (offs : list N) (s : bits) : labeling N :=
  let from := fun c => lender_at c (acc_iter_from le cs p offs s c) in
  mkLab n from (ra_split from n).

(** [BvGraphSeq] ([n] nodes, no offsets): [iter_from c] decodes from the start and discards
    [c] lists ([seq_iter_from]); [split_iter_at] is [split::seq::Iter] over [iter()], the
    lender whose [next] recycles the ring slot of the node ([acc_next_successors]). *)
Definition bvgraphseq_lab le cs p (n : nat) (s : bits) : labeling N :=
  mkLab (N.of_nat n)
    (fun c => lender_at c (seq_iter_from bits (rd_bits le cs) p n (N.to_nat c) s))
    (seq_split (lender_at 0 (acc_next_successors le cs p n s))).

(** the graphs, selections and code assignments quantified over: exactly the hypotheses of
    the C03 / C01 theorems *)
Definition enc_ok cs p (g : list (list N)) (sel : list N) : Prop :=
  codes_ok cs = true /\ Forall inc g /\ valid_sel p [] g sel = true.

(** ** (d) the BvGraph models satisfy the C10 labeling contract, and their scan is the scan
    of the graph that was compressed *)
Definition S_link_bvgraph_lab_ok : Prop :=
  forall le cs p g sel rest, enc_ok cs p g sel ->
  let L := bvgraph_lab le cs p (nlen g) (enc_offs le cs p g sel) (enc_stream le cs p g sel rest) in
  lab_ok L /\ lb_iter L = scan g /\ lb_n L = nlen g.

Definition S_link_bvgraph_list_lab_ok : Prop :=
  forall le cs p g sel rest, enc_ok cs p g sel ->
  let L := bvgraph_lab_list le cs p (nlen g) (enc_offs le cs p g sel)
             (enc_stream le cs p g sel rest) in
  lab_ok L /\ lb_iter L = scan g /\ lb_n L = nlen g.

Definition S_link_bvgraphseq_lab_ok : Prop :=
  forall le cs p g sel rest, enc_ok cs p g sel ->
  let L := bvgraphseq_lab le cs p (length g) (enc_stream le cs p g sel rest) in
  lab_ok L /\ lb_iter L = scan g /\ lb_n L = nlen g.

(** ** (e) hence, for every legal cut sequence, the parts of the split of the COMPRESSED
    graph are the slices [c_i, c_{i+1}) of [scan g]: one part per pair of consecutive
    cutpoints, together the nodes [c_0, c_last) in order, each with its own list *)
Definition S_link_bvgraph_parts : Prop :=
  forall le cs p g sel rest cuts, enc_ok cs p g sel -> cuts_ok cuts (nlen g) = true ->
  let offs := enc_offs le cs p g sel in
  let s := enc_stream le cs p g sel rest in
  lb_split (bvgraph_lab le cs p (nlen g) offs s) cuts = Parts (slices cuts (scan g))
  /\ lb_split (bvgraph_lab_list le cs p (nlen g) offs s) cuts = Parts (slices cuts (scan g))
  /\ lb_split (bvgraphseq_lab le cs p (length g) s) cuts = Parts (slices cuts (scan g))
  /\ length (slices cuts (scan g)) = (length cuts - 1)%nat
  /\ concat (slices cuts (scan g)) = subg g (hd 0 cuts) (last cuts 0).

(** ** the leaves [GRa g] / [GSeq g] of the C10 grammar ARE the compressed representations
    on the domain the contract speaks about: same number of nodes, same [iter_from c] for
    every [c <= n], same result of [split_iter_at] for every legal cut sequence.  (Outside
    that domain -- [c > n], illegal cuts -- the compressed graph's decoder fails or panics
    and nothing is claimed.) *)
Definition S_link_bvgraph_is_leaf : Prop :=
  forall le cs p g sel rest, enc_ok cs p g sel ->
  let offs := enc_offs le cs p g sel in
  let s := enc_stream le cs p g sel rest in
  let Lra := bvgraph_lab le cs p (nlen g) offs s in
  let Lseq := bvgraphseq_lab le cs p (length g) s in
  lb_n Lra = lb_n (denote (GRa g)) /\ lb_n Lseq = lb_n (denote (GSeq g))
  /\ (forall c, c <= nlen g ->
        lb_from Lra c = lb_from (denote (GRa g)) c /\ lb_from Lseq c = lb_from (denote (GSeq g)) c)
  /\ (forall cuts, cuts_ok cuts (nlen g) = true ->
        lb_split Lra cuts = lb_split (denote (GRa g)) cuts
        /\ lb_split Lseq cuts = lb_split (denote (GSeq g)) cuts).

(** ** and every wrapper nesting over a compressed graph behaves: the C10 wrapper theorems
    take any labeling satisfying [lab_ok], so they apply verbatim; spelled out for the
    nesting "loop-free view of the union of a BvGraph and a BvGraphSeq, permuted" *)
Definition S_link_bvgraph_wrapped : Prop :=
  forall le cs p g sel rest le' cs' p' g' sel' rest' perm,
  enc_ok cs p g sel -> enc_ok cs' p' g' sel' ->
  let L0 := bvgraph_lab le cs p (nlen g) (enc_offs le cs p g sel) (enc_stream le cs p g sel rest) in
  let L1 := bvgraphseq_lab le' cs' p' (length g') (enc_stream le' cs' p' g' sel' rest') in
  let L := permuted_lab perm (noloops_lab (union_lab L0 L1)) in
  lab_ok L
  /\ lb_iter L = gscan (GPermuted perm (GNoLoops (GUnion (GRa g) (GSeq g')))).
