(** LINK L-B (C15 o C14): the structurally recursive Tarjan model of [Algo/Scc.v] is the fold
    of the Rust callback ([tarjan_handler]) over the events the C14 [SeqPred] machine
    emits, stopped at the first [Break], followed by the drain of [visit.stack()].  Proofs.

    The bridge is [dfs_trace_recursive]: the machine's events are the recursive trace
    [rt_roots], whose recursion has the shape of [t_visit]/[t_roots]. *)
From WG Require Import Base.Prelude.
From WG Require Import Visits.Dfs Visits.DfsStatements Visits.DfsFacts.
From WG Require Import Algo.Scc Algo.SccStatements Algo.SccFacts Algo.SccTarjan.
From WG Require Import Links.VisitLinkStatements Links.VisitLinkDfsFacts.

(** * Conversions *)
Lemma lN_In' : forall l x, In x (lN l) <-> exists v, x = N.of_nat v /\ In v l.
Proof.
  intros l x. unfold lN. rewrite in_map_iff. split.
  - intros (v & E & H). exists v. split; [symmetry; exact E|exact H].
  - intros (v & E & H). exists v. split; [symmetry; exact E|exact H].
Qed.

Lemma gN_length : forall g : list (list nat), length (gN g) = length g.
Proof. intros g. unfold gN. apply map_length. Qed.

Lemma gN_nlen : forall g : list (list nat), nlen (gN g) = N.of_nat (length g).
Proof. intros g. unfold nlen. rewrite gN_length. reflexivity. Qed.

Lemma gN_succs_dfs : forall (g : SccM.graph) u,
  DfsM.succs (gN g) (N.of_nat u) = lN (SccM.succs g u).
Proof.
  intros g u. unfold DfsM.succs, SccM.succs, gN. rewrite Nat2N.id.
  change (@nil N) with (lN []). apply map_nth.
Qed.

Lemma gN_gwf : forall g : SccM.graph, SccM.wf_graph g -> gwf (gN g) = true.
Proof.
  intros g Hwf. unfold gwf. apply forallb_forall. intros l Hl. apply forallb_forall. intros v Hv.
  unfold gN in Hl. apply in_map_iff in Hl. destruct Hl as (l0 & El & Hl0). subst l.
  apply lN_In' in Hv. destruct Hv as (v0 & Ev & Hv0). subst v.
  unfold SccM.wf_graph in Hwf. rewrite Forall_forall in Hwf. specialize (Hwf l0 Hl0).
  rewrite Forall_forall in Hwf. specialize (Hwf v0 Hv0).
  apply N.ltb_lt. rewrite gN_nlen. lia.
Qed.

Lemma lN_seq : forall n a, lN (seq a n) = nseq (N.of_nat a) n.
Proof.
  induction n as [|n IH]; intros a; [reflexivity|].
  cbn [seq lN map nseq]. f_equal. fold (lN (seq (S a) n)). rewrite IH. f_equal. lia.
Qed.

Lemma gN_nodes : forall g : SccM.graph, DfsM.nodes (gN g) = lN (seq 0 (length g)).
Proof. intros g. unfold DfsM.nodes. rewrite gN_length, lN_seq. reflexivity. Qed.

Lemma lnat_lN : forall l, lnat (lN l) = l.
Proof.
  induction l as [|a l IH]; [reflexivity|]. cbn [lN lnat map]. rewrite Nat2N.id. f_equal. exact IH.
Qed.

Lemma succs_range : forall (g : SccM.graph) u s,
  SccM.wf_graph g -> In s (SccM.succs g u) -> (s < length g)%nat.
Proof. intros g u s Hwf Hs. exact (proj2 (wf_succs g u s Hwf Hs)). Qed.

(** * [fold_until_break] *)
Section Fold.
  Context {S E : Type} (h : S -> E -> S * bool).

  Lemma fold_cons_cont : forall st e st1 r,
    h st e = (st1, false) ->
    fold_until_break h st (e :: r)
    = let '(s2, b2, d2) := fold_until_break h st1 r in (s2, b2, e :: d2).
  Proof. intros st e st1 r H. cbn [fold_until_break]. rewrite H. reflexivity. Qed.

  Lemma fold_app_break : forall a b st s d,
    fold_until_break h st a = (s, true, d) -> fold_until_break h st (a ++ b) = (s, true, d).
  Proof.
    induction a as [|e a IH]; intros b st s d H; [discriminate|].
    cbn [fold_until_break app] in *. destruct (h st e) as [st1 [|]]; [exact H|].
    destruct (fold_until_break h st1 a) as [[s' b'] d'] eqn:Ha. inversion H; subst.
    rewrite (IH b st1 s d' Ha). reflexivity.
  Qed.

  Lemma fold_app_cont : forall a b st s d,
    fold_until_break h st a = (s, false, d) ->
    fold_until_break h st (a ++ b)
    = let '(s2, b2, d2) := fold_until_break h s b in (s2, b2, d ++ d2).
  Proof.
    induction a as [|e a IH]; intros b st s d H.
    - cbn in H. inversion H; subst. cbn [app]. destruct (fold_until_break h s b) as [[s2 b2] d2]. reflexivity.
    - cbn [fold_until_break app] in *. destruct (h st e) as [st1 [|]]; [discriminate|].
      destruct (fold_until_break h st1 a) as [[s' b'] d'] eqn:Ha. inversion H; subst.
      rewrite (IH b st1 s d' Ha). destruct (fold_until_break h s b) as [[s2 b2] d2]. reflexivity.
  Qed.
End Fold.

(** * The handler arms and the visit's [known] bits *)
Lemma t_revisit_known : forall st a b, t_known (fst (t_revisit st a b)) = t_known st.
Proof.
  intros st a b. unfold t_revisit.
  destruct (nth b (t_high st) 0 <? nth a (t_high st) 0)%nat; [|reflexivity].
  destruct ((nth a (t_high st) 0 =? t_root_high st)%nat && (t_index st =? 0)%nat); reflexivity.
Qed.

Lemma t_postvisit_known : forall st a b, t_known (t_postvisit st a b) = t_known st.
Proof.
  intros st a b. unfold t_postvisit. destruct (t_lead st) as [|l lead]; [reflexivity|].
  destruct l.
  - destruct (t_pop _ _ _ _ _) as [[cs high] index]. reflexivity.
  - destruct (nth b (t_high st) 0 <? nth a (t_high st) 0)%nat; reflexivity.
Qed.

Lemma t_drain_nil : forall st, t_drain st [] = st.
Proof. intros [kn hi le cs ix rh nc]. reflexivity. Qed.

Lemma t_drain_snoc : forall st a c, t_drain st (a ++ [c]) = brk_mark (t_drain st a) c.
Proof.
  intros st a c. unfold t_drain, brk_mark.
  cbn [t_known t_high t_lead t_cstack t_index t_root_high t_noc].
  rewrite fold_left_app. reflexivity.
Qed.

Lemma tl_app : forall A (l m : list A), l <> [] -> tl (l ++ m) = tl l ++ m.
Proof. intros A [|a l] m H; [contradiction|reflexivity]. Qed.

(** the model's copy of the [known] bits agrees with the marks of the visit *)
Definition K (n : nat) (st : tstate) (known : list N) : Prop :=
  length (t_known st) = n
  /\ forall v, (v < n)%nat -> nth v (t_known st) false = DfsM.memb (N.of_nat v) known.

Lemma K_previsit : forall n st known s, (s < n)%nat -> K n st known ->
  K n (t_previsit st s) (N.of_nat s :: known).
Proof.
  intros n st known s Hs [Hl Hk]. unfold t_previsit, K. cbn [t_known].
  split; [rewrite upd_length; exact Hl|]. intros v Hv. rewrite nth_upd, Hl.
  unfold DfsM.memb. cbn [existsb]. fold (DfsM.memb (N.of_nat v) known).
  destruct (Nat.eqb_spec v s) as [He|Hne].
  - subst v. apply Nat.ltb_lt in Hs. rewrite Hs, N.eqb_refl. reflexivity.
  - cbn [andb]. rewrite Hk by exact Hv.
    destruct (N.eqb_spec (N.of_nat v) (N.of_nat s)) as [He|_]; [lia|reflexivity].
Qed.

Lemma K_same : forall n st st' known, t_known st' = t_known st -> K n st known -> K n st' known.
Proof. intros n st st' known E [Hl Hk]. unfold K. rewrite E. split; assumption. Qed.

(** * The correspondence *)
Section Corr.
  Variable g : SccM.graph.
  Hypothesis Hwf : SccM.wf_graph g.
  Let n := length g.
  Let gn := gN g.

  Lemma marks_cons_n : forall known s, marks_ok gn known -> (s < n)%nat ->
    DfsM.memb (N.of_nat s) known = false -> marks_ok gn (N.of_nat s :: known).
  Proof.
    intros known s Hm Hs Hk. apply marks_cons; [exact Hm| |exact Hk].
    unfold gn. rewrite gN_nlen. fold n. lia.
  Qed.

  (** what the fold over a trace must produce, given the model's result [T]; [cN] is the
      node whose successors loop the trace belongs to, [rest_path] the path expected after a
      complete trace *)
  Definition agrees (st : tstate) (evs : list DfsM.event) (known' : list N) (T : tstate * bool)
             (cN : N) (complete : list N -> list N) : Prop :=
    exists st2 del,
      fold_until_break tarjan_handler st evs = (st2, snd T, del)
      /\ if snd T then
           exists lp, (forall below, fold_left path_upd del (cN :: below) = lp ++ cN :: below)
                      /\ fst T = t_drain st2 (lnat (tl (lp ++ [cN])))
         else st2 = fst T /\ K n st2 known'
              /\ (forall below, fold_left path_upd del (cN :: below) = complete (cN :: below)).

  Definition tv_ok (f : nat) : Prop :=
    forall root d curr parent st known,
      K n st known -> marks_ok gn known -> (f + length known >= S n)%nat ->
      agrees st (fst (rt_visit f gn root d (N.of_nat curr) (N.of_nat parent) known))
             (snd (rt_visit f gn root d (N.of_nat curr) (N.of_nat parent) known))
             (t_visit f g curr parent st) (N.of_nat curr) (@tl N).

  Lemma loop_ok : forall f, tv_ok f ->
    forall root d curr l st known,
      (forall s, In s l -> (s < n)%nat) ->
      K n st known -> marks_ok gn known -> (S f + length known >= S n)%nat ->
      agrees st
        (fst (rt_loop (fun s kn => rt_visit f gn root (d + 1)%N s (N.of_nat curr) kn) root d
                      (N.of_nat curr) (lN l) known))
        (snd (rt_loop (fun s kn => rt_visit f gn root (d + 1)%N s (N.of_nat curr) kn) root d
                      (N.of_nat curr) (lN l) known))
        (t_loop (fun s st => t_visit f g s curr st) curr l st) (N.of_nat curr) (fun p => p).
  Proof.
    intros f Hf root d curr. unfold tv_ok, agrees in Hf. unfold agrees.
    induction l as [|s rest IH]; intros st known Hl HK Hm Hfuel.
    - cbn. exists st, []. split; [reflexivity|]. cbn. split; [reflexivity|]. split; [exact HK|reflexivity].
    - assert (Hs : (s < n)%nat) by (apply Hl; left; reflexivity).
      assert (Hrest : forall x, In x rest -> (x < n)%nat) by (intros x Hx; apply Hl; right; exact Hx).
      cbn [lN map rt_loop t_loop]. fold (lN rest).
      rewrite (proj2 HK s Hs). destruct (DfsM.memb (N.of_nat s) known) eqn:Hk.
      + (* Revisit *)
        destruct (t_revisit st s curr) as [st1 b] eqn:Hrv.
        assert (HK1 : K n st1 known).
        { apply (K_same n st); [|exact HK]. pose proof (t_revisit_known st s curr) as E.
          rewrite Hrv in E. exact E. }
        specialize (IH st1 known Hrest HK1 Hm Hfuel).
        destruct (rt_loop _ root d (N.of_nat curr) (lN rest) known) as [ev k]. cbn [fst snd] in *.
        assert (Hh : tarjan_handler st (DfsM.ERev (N.of_nat s) (N.of_nat curr) root d false) = (st1, b)).
        { cbn [tarjan_handler]. rewrite !Nat2N.id. exact Hrv. }
        destruct b.
        * exists st1, [DfsM.ERev (N.of_nat s) (N.of_nat curr) root d false]. cbn [snd fst].
          split; [cbn [fold_until_break]; rewrite Hh; reflexivity|].
          exists []. split; [intros below; reflexivity|]. cbn. rewrite t_drain_nil. reflexivity.
        * destruct IH as (st2 & del & Hfold & Hres).
          exists st2, (DfsM.ERev (N.of_nat s) (N.of_nat curr) root d false :: del).
          split; [rewrite (fold_cons_cont _ _ _ _ _ Hh), Hfold; reflexivity|].
          destruct (snd (t_loop _ curr rest st1)).
          -- destruct Hres as (lp & Hp & Hst). exists lp. split; [|exact Hst].
             intros below. cbn [fold_left path_upd]. apply Hp.
          -- destruct Hres as (H1 & H2 & H3). split; [exact H1|]. split; [exact H2|].
             intros below. cbn [fold_left path_upd]. apply H3.
      + (* Previsit and recursive visit *)
        pose proof (marks_cons_n known s Hm Hs Hk) as Hm1.
        pose proof (K_previsit n st known s Hs HK) as HKp.
        assert (Hfuel1 : (f + length (N.of_nat s :: known) >= S n)%nat) by (cbn [length]; lia).
        pose proof (Hf root (d + 1)%N s curr (t_previsit st s) (N.of_nat s :: known) HKp Hm1 Hfuel1) as Hv.
        pose proof (rt_visit_marks gn (gN_gwf g Hwf) f root (d + 1)%N (N.of_nat s) (N.of_nat curr)
                      (N.of_nat s :: known) Hm1) as [Hm2 Hlen].
        destruct (rt_visit f gn root (d + 1)%N (N.of_nat s) (N.of_nat curr) (N.of_nat s :: known))
          as [ev1 k1]. cbn [fst snd] in *.
        destruct (t_visit f g s curr (t_previsit st s)) as [stv brk]. cbn [fst snd] in *.
        assert (Hh : tarjan_handler st (DfsM.EPre (N.of_nat s) (N.of_nat curr) root d)
                     = (t_previsit st s, false)).
        { cbn [tarjan_handler]. rewrite Nat2N.id. reflexivity. }
        destruct Hv as (st2 & del1 & Hfold1 & Hres1).
        destruct brk.
        * (* the callback broke inside the subtree *)
          destruct Hres1 as (lp1 & Hp1 & Hst1).
          destruct (rt_loop _ root d (N.of_nat curr) (lN rest) k1) as [ev2 k2]. cbn [fst snd].
          exists st2, (DfsM.EPre (N.of_nat s) (N.of_nat curr) root d :: del1).
          split.
          { rewrite (fold_cons_cont _ _ _ _ _ Hh), (fold_app_break _ _ _ _ _ _ Hfold1). reflexivity. }
          exists (lp1 ++ [N.of_nat s]). split.
          { intros below. cbn [fold_left path_upd]. rewrite Hp1, <- app_assoc. reflexivity. }
          rewrite Hst1. rewrite (tl_app _ (lp1 ++ [N.of_nat s]) [N.of_nat curr])
            by (destruct lp1; discriminate).
          unfold lnat at 2. rewrite map_app. fold (lnat (tl (lp1 ++ [N.of_nat s]))).
          cbn [map]. rewrite Nat2N.id. rewrite t_drain_snoc. reflexivity.
        * (* the subtree completed *)
          destruct Hres1 as (E2 & HK2 & Hp1). subst stv.
          assert (Hfuel2 : (S f + length k1 >= S n)%nat) by (cbn [length] in Hlen; lia).
          specialize (IH st2 k1 Hrest HK2 Hm2 Hfuel2).
          destruct (rt_loop _ root d (N.of_nat curr) (lN rest) k1) as [ev2 k2]. cbn [fst snd] in *.
          destruct IH as (st3 & del2 & Hfold2 & Hres2).
          exists st3, (DfsM.EPre (N.of_nat s) (N.of_nat curr) root d :: del1 ++ del2).
          split.
          { rewrite (fold_cons_cont _ _ _ _ _ Hh), (fold_app_cont _ _ _ _ _ _ Hfold1), Hfold2. reflexivity. }
          assert (Hpath : forall below,
                    fold_left path_upd (DfsM.EPre (N.of_nat s) (N.of_nat curr) root d :: del1 ++ del2)
                              (N.of_nat curr :: below)
                    = fold_left path_upd del2 (N.of_nat curr :: below)).
          { intros below. cbn [fold_left path_upd]. rewrite fold_left_app, Hp1. reflexivity. }
          destruct (snd (t_loop _ curr rest st2)).
          -- destruct Hres2 as (lp & Hp & Hst). exists lp. split; [|exact Hst].
             intros below. rewrite Hpath. apply Hp.
          -- destruct Hres2 as (H1 & H2 & H3). split; [exact H1|]. split; [exact H2|].
             intros below. rewrite Hpath. apply H3.
  Qed.

  Lemma tv_ok_all : forall f, tv_ok f.
  Proof.
    unfold tv_ok, agrees.
    induction f as [|f IH]; intros root d curr parent st known HK Hm Hfuel.
    - pose proof (marks_bound gn known Hm) as Hb. unfold gn in Hb. rewrite gN_length in Hb.
      fold n in Hb. lia.
    - rewrite t_visit_unfold. cbn [rt_visit]. unfold gn. rewrite gN_succs_dfs. fold gn.
      pose proof (loop_ok f IH root d curr (SccM.succs g curr) st known
                    (fun s Hs => succs_range g curr s Hwf Hs) HK Hm Hfuel) as Hl.
      unfold agrees in Hl.
      destruct (rt_loop _ root d (N.of_nat curr) (lN (SccM.succs g curr)) known) as [ev k].
      destruct (t_loop _ curr (SccM.succs g curr) st) as [st' brk]. cbn [fst snd] in *.
      destruct Hl as (st2 & del & Hfold & Hres). destruct brk.
      + exists st2, del. cbn [fst snd]. split; [apply fold_app_break; exact Hfold|exact Hres].
      + destruct Hres as (E & HK2 & Hp). subst st'.
        exists (t_postvisit st2 curr parent),
               (del ++ [DfsM.EPost (N.of_nat curr) (N.of_nat parent) root (d - 1)%N]).
        cbn [fst snd]. split.
        { rewrite (fold_app_cont _ _ _ _ _ _ Hfold). cbn [fold_until_break tarjan_handler].
          rewrite !Nat2N.id. reflexivity. }
        split; [reflexivity|]. split.
        { apply (K_same n st2); [apply t_postvisit_known|exact HK2]. }
        intros below. rewrite fold_left_app, Hp. reflexivity.
  Qed.

  Lemma roots_ok : forall roots st known,
    (forall r, In r roots -> (r < n)%nat) -> K n st known -> marks_ok gn known ->
    exists st2 del,
      fold_until_break tarjan_handler st (fst (rt_roots gn (lN roots) known))
      = (st2, snd (t_roots g roots st), del)
      /\ if snd (t_roots g roots st) then
           fst (t_roots g roots st) = t_drain st2 (lnat (tl (fold_left path_upd del [])))
         else st2 = fst (t_roots g roots st) /\ fold_left path_upd del [] = [].
  Proof.
    induction roots as [|r rs IH]; intros st known Hr HK Hm.
    - cbn. exists st, []. split; [reflexivity|]. split; reflexivity.
    - assert (Hr0 : (r < n)%nat) by (apply Hr; left; reflexivity).
      assert (Hrs : forall x, In x rs -> (x < n)%nat) by (intros x Hx; apply Hr; right; exact Hx).
      cbn [lN map rt_roots t_roots]. fold (lN rs).
      rewrite (proj2 HK r Hr0). destruct (DfsM.memb (N.of_nat r) known) eqn:Hk.
      + apply IH; assumption.
      + set (st0 := mkT (t_known st) (t_high st) (t_lead st) (t_cstack st) (t_index st)
                        (t_index st) (t_noc st)).
        assert (HK0 : K n st0 known) by (apply (K_same n st); [reflexivity|exact HK]).
        pose proof (marks_cons_n known r Hm Hr0 Hk) as Hm1.
        pose proof (K_previsit n st0 known r Hr0 HK0) as HKp.
        unfold gn at 1 3. rewrite gN_length. fold gn. fold n.
        assert (Hfuel : (n + length (N.of_nat r :: known) >= S n)%nat) by (cbn [length]; lia).
        pose proof (tv_ok_all n (N.of_nat r) 1%N r r (t_previsit st0 r) (N.of_nat r :: known)
                      HKp Hm1 Hfuel) as Hv.
        unfold agrees in Hv.
        pose proof (rt_visit_marks gn (gN_gwf g Hwf) n (N.of_nat r) 1%N (N.of_nat r) (N.of_nat r)
                      (N.of_nat r :: known) Hm1) as [Hm2 _].
        destruct (rt_visit n gn (N.of_nat r) 1%N (N.of_nat r) (N.of_nat r) (N.of_nat r :: known))
          as [ev1 k1]. cbn [fst snd] in *.
        destruct (t_visit n g r r (t_previsit st0 r)) as [st1 brk]. cbn [fst snd] in *.
        assert (Hh1 : tarjan_handler st (DfsM.EInit (N.of_nat r)) = (st0, false)) by reflexivity.
        assert (Hh2 : tarjan_handler st0 (DfsM.EPre (N.of_nat r) (N.of_nat r) (N.of_nat r) 0%N)
                      = (t_previsit st0 r, false)).
        { cbn [tarjan_handler]. rewrite Nat2N.id. reflexivity. }
        destruct Hv as (st2 & del1 & Hfold1 & Hres1). destruct brk.
        * destruct Hres1 as (lp & Hp & Hst).
          destruct (rt_roots gn (lN rs) k1) as [ev2 k2]. cbn [fst snd].
          exists st2, (DfsM.EInit (N.of_nat r) :: DfsM.EPre (N.of_nat r) (N.of_nat r) (N.of_nat r) 0%N :: del1).
          split.
          { rewrite (fold_cons_cont _ _ _ _ _ Hh1), (fold_cons_cont _ _ _ _ _ Hh2),
              (fold_app_break _ _ _ _ _ _ Hfold1). reflexivity. }
          cbn [fold_left path_upd]. rewrite Hp. exact Hst.
        * destruct Hres1 as (E & HK1 & Hp). subst st1.
          destruct (IH st2 k1 Hrs HK1 Hm2) as (st3 & del2 & Hfold2 & Hres2).
          destruct (rt_roots gn (lN rs) k1) as [ev2 k2]. cbn [fst snd] in *.
          exists st3, (DfsM.EInit (N.of_nat r) :: DfsM.EPre (N.of_nat r) (N.of_nat r) (N.of_nat r) 0%N
                         :: del1 ++ DfsM.EDone (N.of_nat r) :: del2).
          split.
          { rewrite (fold_cons_cont _ _ _ _ _ Hh1), (fold_cons_cont _ _ _ _ _ Hh2),
              (fold_app_cont _ _ _ _ _ _ Hfold1).
            rewrite (fold_cons_cont tarjan_handler st2 (DfsM.EDone (N.of_nat r)) st2 ev2 eq_refl), Hfold2.
            reflexivity. }
          assert (Hpath : fold_left path_upd
                            (DfsM.EInit (N.of_nat r) :: DfsM.EPre (N.of_nat r) (N.of_nat r) (N.of_nat r) 0%N
                               :: del1 ++ DfsM.EDone (N.of_nat r) :: del2) []
                          = fold_left path_upd del2 []).
          { cbn [fold_left path_upd]. rewrite fold_left_app, Hp. reflexivity. }
          rewrite Hpath. exact Hres2.
  Qed.
End Corr.

Theorem link_tarjan_fold : S_link_tarjan_fold.
Proof.
  intros g Hwf.
  assert (Hr : forall r, In r (DfsM.nodes (gN g)) -> (r < nlen (gN g))%N) by (intros r Hr; apply nodes_In; exact Hr).
  assert (Hm : marks_ok (gN g) []) by (split; [constructor|intros v []]).
  destruct (dfs_trace_recursive (gN g) (DfsM.nodes (gN g)) [] [] (gN_gwf g Hwf) Hr Hm) as (cf & Hd & _).
  eexists; exists cf. split; [exact Hd|].
  rewrite gN_nodes.
  assert (HK : K (length g) (t_init (length g)) []).
  { split; [apply repeat_length|]. intros v Hv. cbn [t_init t_known DfsM.memb existsb].
    apply nth_repeat. }
  destruct (roots_ok g Hwf (seq 0 (length g)) (t_init (length g)) []) as (st2 & del & Hfold & Hres).
  - intros r Hr0. apply in_seq in Hr0. lia.
  - exact HK.
  - exact Hm.
  - unfold tarjan_on_events. rewrite Hfold.
    change (tarjan_run g) with (t_roots g (seq 0 (length g)) (t_init (length g))) in *.
    destruct (t_roots g (seq 0 (length g)) (t_init (length g))) as [st' brk]. cbn [fst snd] in *.
    destruct brk.
    + rewrite Hres. reflexivity.
    + destruct Hres as [E _]. subst st'. reflexivity.
Qed.
