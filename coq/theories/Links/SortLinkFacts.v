(** Proofs of the C09 o C08 link. *)
From WG Require Import Base.Prelude Par.Splice Par.SpliceFacts.
From WG Require Import Sort.Pipeline Sort.Statements.
From WG Require Sort.OrderFacts Sort.SortedFacts Sort.ProducerFacts Sort.PipelineFacts.
From WG Require Import Transform.Pipelines Transform.Statements Transform.OrderFacts
  Transform.SortFacts Transform.Facts Transform.Facts2 Transform.SortedParFacts
  Transform.ReadParFacts Transform.LabelFacts Transform.RunFacts.
From WG Require Transform.Facts3.
From WG Require Split.Model.
From WG Require Import Links.SortLinkGlue Links.SortLinkStatements.
Require Import ZifyBool ZifyN ZifyNat.
Local Open Scope N_scope.

(** * Types and orders *)

Lemma kleb_is_pair_leb : kleb = pair_leb.
Proof. reflexivity. Qed.

Lemma tle_key_le {L} (a b : @lpair L) : tle a b <-> key_le a b.
Proof. unfold tle, key_le. rewrite kleb_is_pair_leb. apply pair_leb_le. Qed.

Lemma tsorted_ss {L} (l : list (@lpair L)) : tsorted l <-> StronglySorted key_le l.
Proof.
  unfold tsorted. split; apply StronglySorted_impl; intros x y; apply tle_key_le.
Qed.

Theorem link_types : S_link_types.
Proof.
  intros L. split; [reflexivity|]. split; [apply tle_key_le|apply tsorted_ss].
Qed.

(** * Partitioning *)

Lemma nseq_map_seq : forall k a, nseq (N.of_nat a) k = map N.of_nat (seq a k).
Proof.
  induction k as [|k IH]; intros a; [reflexivity|].
  cbn [nseq seq map]. f_equal. rewrite <- IH. f_equal. lia.
Qed.

Lemma boundaries_same n p : XformM.boundaries n p = SortM.boundaries n p.
Proof.
  unfold XformM.boundaries, SortM.boundaries, nodes_per_part.
  change 0 with (N.of_nat 0). rewrite nseq_map_seq, map_map. reflexivity.
Qed.

Lemma xpart_in_part {L} n p i (e : @lpair L) :
  (0 < p)%nat -> (i < p)%nat -> src e < n -> xpart n p i e = in_part n p i (fst e).
Proof.
  intros Hp Hi Hs.
  rewrite (ProducerFacts.in_part_unique n p (fst e) i Hp Hs Hi).
  unfold xpart, part_id, nodes_per_part, src.
  change (XformM.div_ceil n (N.of_nat p)) with (SortM.div_ceil n (N.of_nat p)).
  destruct (N.eqb_spec (fst (fst e) / SortM.div_ceil n (N.of_nat p)) (N.of_nat i)) as [E|E];
    destruct (Nat.eqb_spec i (N.to_nat (fst (fst e) / SortM.div_ceil n (N.of_nat p)))) as [E'|E'];
    try reflexivity; lia.
Qed.

Lemma split_div_ceil a b : 0 < b -> Split.Model.SplitM.div_ceil a b = SortM.div_ceil a b.
Proof.
  intros Hb. unfold Split.Model.SplitM.div_ceil, SortM.div_ceil.
  assert (Hb0 : b <> 0) by lia.
  pose proof (N.div_mod a b Hb0) as Hdm. pose proof (N.mod_lt a b Hb0) as Hml.
  destruct (N.eqb_spec (a mod b) 0) as [E|NE].
  - rewrite N.add_0_r. symmetry. apply (N.div_unique _ _ _ (b - 1)); lia.
  - symmetry. apply (N.div_unique _ _ _ (a mod b - 1)); nia.
Qed.

Theorem link_boundaries : S_link_boundaries.
Proof.
  split; [reflexivity|]. split; [exact boundaries_same|]. split; [reflexivity|].
  split; [intros L n p i e; apply xpart_in_part|].
  intros n p Hp. unfold Split.Model.SplitM.uniform_cuts, SortM.boundaries, nodes_per_part.
  rewrite Nat2N.id, split_div_ceil by lia. reflexivity.
Qed.

(** * Small list facts *)

Lemma map_nth_seq {A} (d : A) : forall l : list A,
  map (fun i => nth i l d) (seq 0 (length l)) = l.
Proof.
  induction l as [|x l IH]; [reflexivity|].
  cbn [length seq map nth]. f_equal. rewrite <- seq_shift, map_map. exact IH.
Qed.

Lemma forallb_false_ex {A} (f : A -> bool) : forall l,
  forallb f l = false -> exists x, In x l /\ f x = false.
Proof.
  induction l as [|x l IH]; cbn [forallb]; intros H; [discriminate|].
  destruct (f x) eqn:E.
  - destruct (IH H) as (y & Hy & Ey). exists y. split; [right; exact Hy|exact Ey].
  - exists x. split; [left; reflexivity|exact E].
Qed.

Lemma in_range_dec {L} n (X : list (@lpair L)) :
  in_range n X \/ exists e, In e X /\ n <= src e.
Proof.
  destruct (forallb (fun e => src e <? n) X) eqn:E.
  - left. intros e He. rewrite forallb_forall in E. apply N.ltb_lt. apply E. exact He.
  - right. destruct (forallb_false_ex _ _ E) as (e & He & Hf). exists e. split; [exact He|].
    apply N.ltb_ge. exact Hf.
Qed.

Lemma in_range_Forall {L} n (X : list (@lpair L)) :
  in_range n X -> Forall (fun t : triple L => src_of t < n) X.
Proof. intros H. apply Forall_forall. intros t Ht. apply (H t Ht). Qed.

Lemma in_range_perm {L} n (X X' : list (@lpair L)) :
  Permutation X' X -> in_range n X -> in_range n X'.
Proof. intros HP H e He. apply H. apply (Permutation_in _ HP). exact He. Qed.

Lemma filter_xpart {L} n p i (X : list (@lpair L)) : (0 < p)%nat -> (i < p)%nat -> in_range n X ->
  filter (fun t : triple L => in_part n p i (fst t)) X = filter (xpart n p i) X.
Proof.
  intros Hp Hi Hr. apply filter_ext_in. intros e He. symmetry.
  apply xpart_in_part; [exact Hp|exact Hi|apply Hr; exact He].
Qed.

(** * From sortedness / strictness on keys to the Transform predicates *)

Lemma ss_Sorted {A} (R : A -> A -> Prop) l : StronglySorted R l -> Sorted R l.
Proof. apply StronglySorted_Sorted. Qed.

Lemma good_of_sorted_perm {L} (X S : list (@lpair L)) :
  StronglySorted key_le S -> Permutation S X -> NoDup (map fst X) -> good X S.
Proof.
  intros Hs Hp Hn. split; [|split].
  - apply ss_le_nodup_lt; [exact Hs|].
    apply (Permutation_NoDup (l := map fst X)); [|exact Hn].
    apply Permutation_map. apply Permutation_sym. exact Hp.
  - intros x Hx. apply (Permutation_in _ Hp). exact Hx.
  - intros x Hx. exists x. split; [|reflexivity].
    apply (Permutation_in _ (Permutation_sym Hp)). exact Hx.
Qed.

Lemma kstrict_key_lt {L} : forall S : list (@lpair L),
  SortedFacts.kstrict (map fst S) -> StronglySorted key_lt S.
Proof.
  unfold SortedFacts.kstrict.
  induction S as [|x S IH]; intros H; [constructor|].
  cbn [map] in H. inversion H as [|? ? HS HF]; subst.
  constructor; [apply IH; exact HS|].
  rewrite Forall_forall in *. intros y Hy.
  destruct (HF (fst y) (in_map fst _ _ Hy)) as [Hle Hne].
  unfold key_lt. rewrite kleb_is_pair_leb in Hle. apply pair_leb_le in Hle.
  destruct (pair_le_cases _ _ Hle) as [Hlt|E]; [exact Hlt|contradiction].
Qed.

Lemma good_of_strict_keys {L} (X S : list (@lpair L)) :
  SortedFacts.kstrict (map fst S) -> incl S X ->
  (forall x, In x X -> In (fst x) (map fst S)) -> good X S.
Proof.
  intros Hk Hi Hc. split; [apply kstrict_key_lt; exact Hk|]. split; [exact Hi|].
  intros x Hx. apply Hc in Hx. apply in_map_iff in Hx. destruct Hx as (y & E & Hy).
  exists y. split; [exact Hy|exact E].
Qed.

Lemma good_sorterd_concl {L} (X S : list (@lpair L)) : good X S ->
  Sorted key_lt S /\ (forall x, In x S -> In x X)
  /\ (forall x, In x X -> exists y, In y S /\ fst y = fst x).
Proof. intros (H1 & H2 & H3). split; [apply ss_Sorted; exact H1|]. split; assumption. Qed.

(** the partitions respect the boundaries as soon as each is sorted by source and made of
    pairs of its range *)
Lemma ranged_of_parts {L} n p (X : list (@lpair L)) parts :
  (0 < p)%nat -> in_range n X -> length parts = p ->
  (forall i, (i < p)%nat ->
     StronglySorted src_le (nth i parts [])
     /\ forall e, In e (nth i parts []) -> In e (filter (xpart n p i) X)) ->
  ranged (XformM.boundaries n p) parts.
Proof.
  intros Hp Hr Hlen H.
  rewrite <- (map_nth_seq [] parts), Hlen. unfold XformM.boundaries.
  apply (ranged_map_seq (bnd n p) (fun i => nth i parts [])).
  intros i Hi. split; [apply bnd_mono; lia|].
  destruct (H i ltac:(lia)) as [Hs Hin]. split; [exact Hs|].
  intros e He. apply Hin in He. apply filter_In in He. destruct He as [He Hx].
  unfold xpart in Hx. apply N.eqb_eq in Hx.
  apply pid_bounds; [exact Hp|apply Hr; exact He|exact Hx].
Qed.

Lemma key_le_src_le {L} (l : list (@lpair L)) : StronglySorted key_le l -> StronglySorted src_le l.
Proof.
  apply StronglySorted_impl. intros x y. unfold key_le, pair_le, src_le, src. lia.
Qed.

(** * (b) the C08 pipeline satisfies the contracts *)

Theorem link_sorter_ok : S_link_sorter_ok.
Proof.
  intros L bsort k n p prods ties Hsort Hp Hr X.
  destruct (PipelineFacts.sort_spec_ok L bsort k n p prods ties Hsort Hp (in_range_Forall n _ Hr))
    as (parts & Hrun & Hlen & Hparts & Hperm & Hkeys).
  fold X in Hparts, Hperm, Hkeys.
  assert (HP : forall i, (i < p)%nat ->
            StronglySorted key_le (nth i parts [])
            /\ Permutation (nth i parts []) (filter (xpart n p i) X)).
  { intros i Hi. destruct (Hparts i Hi) as (Hs & Hpm & _).
    split; [apply tsorted_ss; exact Hs|].
    rewrite <- (filter_xpart n p i X Hp Hi Hr). exact Hpm. }
  assert (HS : StronglySorted key_le (concat parts)).
  { apply tsorted_ss. apply SortedFacts.tsorted_map_fst. rewrite Hkeys.
    apply SortedFacts.ksort_sorted. }
  exists parts. rewrite boundaries_same.
  split; [exact Hrun|]. split; [exact Hlen|]. split; [|split; [|split]].
  - intros i Hi. destruct (HP i Hi) as [Hs Hpm]. split; [apply ss_Sorted; exact Hs|exact Hpm].
  - intros Hnd. split.
    + intros i Hi. destruct (HP i Hi) as [Hs Hpm].
      apply good_of_sorted_perm; [exact Hs|exact Hpm|]. apply NoDup_map_filter. exact Hnd.
    + apply good_of_sorted_perm; [exact HS|exact Hperm|exact Hnd].
  - split; [apply ss_Sorted; exact HS|exact Hperm].
  - rewrite <- boundaries_same. apply (ranged_of_parts n p X); [exact Hp|exact Hr|exact Hlen|].
    intros i Hi. destruct (HP i Hi) as [Hs Hpm].
    split; [apply key_le_src_le; exact Hs|]. intros e He. apply (Permutation_in _ Hpm). exact He.
Qed.

Lemma In_eq_r {A} (x : A) l l' : l = l' -> In x l' -> In x l.
Proof. intros ->. trivial. Qed.

Lemma In_eq_l {A} (x : A) l l' : l = l' -> In x l -> In x l'.
Proof. intros ->. trivial. Qed.

Lemma dedup_keys_in (keys : list skey) x :
  In x (SortM.kdedup true (SortM.ksort keys)) <-> In x keys.
Proof.
  cbn [SortM.kdedup]. rewrite SortedFacts.kdedup_from_in. split; intros H.
  - eapply Permutation_in; [apply SortedFacts.ksort_perm|exact H].
  - eapply Permutation_in; [apply Permutation_sym; apply SortedFacts.ksort_perm|exact H].
Qed.

Lemma dedup_keys_strict (keys : list skey) :
  SortedFacts.kstrict (SortM.kdedup true (SortM.ksort keys)).
Proof. apply SortedFacts.kdedup_from_strict. apply SortedFacts.ksort_sorted. Qed.

Theorem link_sorterd_ok : S_link_sorterd_ok.
Proof.
  intros L bsort k n p cd prods ties Hsort Hp Hr X.
  destruct (PipelineFacts.sort_spec_dedup_ok L bsort k n p cd prods ties Hsort Hp
              (in_range_Forall n _ Hr)) as (parts & Hrun & Hlen & Hparts & Hkeys).
  fold X in Hparts, Hkeys.
  set (D := SortM.kdedup true (SortM.ksort (map fst X))) in *.
  assert (HG : forall i, (i < p)%nat -> good (filter (xpart n p i) X) (nth i parts [])).
  { intros i Hi. destruct (Hparts i Hi) as [Hk Hincl]. unfold sort_spec in Hk. fold D in Hk.
    apply good_of_strict_keys.
    - refine (eq_ind_r SortedFacts.kstrict _ Hk).
      apply SortedFacts.kstrict_filter. apply dedup_keys_strict.
    - intros t Ht. apply filter_In. split; [apply Hincl; exact Ht|].
      rewrite (xpart_in_part n p i t Hp Hi (Hr t (Hincl t Ht))).
      assert (Hin : In (fst t) (map fst (nth i parts []))) by (apply (in_map fst); exact Ht).
      apply (In_eq_l _ _ _ Hk) in Hin. apply filter_In in Hin. apply Hin.
    - intros x Hx. apply filter_In in Hx. destruct Hx as [Hx Hxp].
      apply (In_eq_r _ _ _ Hk). apply filter_In. split.
      + apply dedup_keys_in. apply (in_map fst). exact Hx.
      + rewrite <- (xpart_in_part n p i x Hp Hi (Hr x Hx)). exact Hxp. }
  assert (HC : good X (concat parts)).
  { apply good_of_strict_keys.
    - refine (eq_ind_r SortedFacts.kstrict _ Hkeys). apply dedup_keys_strict.
    - intros t Ht. apply in_concat in Ht. destruct Ht as (q & Hq & Ht).
      destruct (In_nth _ _ [] Hq) as (i & Hi & E). rewrite Hlen in Hi.
      destruct (Hparts i Hi) as [_ Hincl]. apply Hincl. rewrite E. exact Ht.
    - intros x Hx. apply (In_eq_r _ _ _ Hkeys). apply dedup_keys_in. apply (in_map fst). exact Hx. }
  exists parts. rewrite boundaries_same.
  split; [exact Hrun|]. split; [exact Hlen|]. split; [exact HG|]. split; [exact HC|].
  split; [apply good_sorterd_concl; exact HC|].
  rewrite <- boundaries_same. apply (ranged_of_parts n p X); [exact Hp|exact Hr|exact Hlen|].
  intros i Hi. destruct (HG i Hi) as (Hs & Hin & _).
  split; [|exact Hin]. apply (StronglySorted_impl key_lt); [|exact Hs].
  intros x y. unfold key_lt, pair_lt, src_le, src. lia.
Qed.

(** * The C08 pipeline as a partial function *)

Section C08Parts.
Context {L : Type}.
Notation lpair := (@lpair L).
Variable bsort : list lpair -> list lpair.
Variable k : codec_kind.

Lemma c08_parts_refuse n p cd md split ties (X : list lpair) :
  (0 < p)%nat -> split_ok split -> (exists e, In e X /\ n <= src e) ->
  c08_parts bsort k n p cd md split ties X = None.
Proof.
  intros Hp Hsp (e & He & Hn). unfold c08_parts.
  rewrite (ProducerFacts.sort_error L bsort (codec_rt k) n p cd md (split X) ties Hp); [reflexivity|].
  exists e. split; [|exact Hn]. apply (Permutation_in _ (Permutation_sym (Hsp X))). exact He.
Qed.

Lemma c08_parts_accept n p cd md split ties (X : list lpair) :
  (0 < p)%nat -> split_ok split -> in_range n X ->
  exists r, c08_parts bsort k n p cd md split ties X = Some r.
Proof.
  intros Hp Hsp Hr.
  destruct (ProducerFacts.run_producers_done_part n p (split X) Hp) as (outs & Hrun & _).
  { apply in_range_Forall. apply (in_range_perm n X); [apply Hsp|exact Hr]. }
  unfold c08_parts, sort_pipeline_gen. rewrite Hrun. eexists. reflexivity.
Qed.

Hypothesis Hsort : sort_ok bsort.

Lemma c08_parts_nodedup n p split ties (X : list lpair) :
  (0 < p)%nat -> split_ok split -> in_range n X ->
  exists parts,
    c08_parts bsort k n p false false split ties X = Some (XformM.boundaries n p, parts)
    /\ Sorted key_le (concat parts) /\ Permutation (concat parts) X
    /\ (NoDup (map fst X) -> good X (concat parts))
    /\ ranged (XformM.boundaries n p) parts.
Proof.
  intros Hp Hsp Hr.
  assert (Hr' : in_range n (all_input (split X))) by (apply (in_range_perm n X); [apply Hsp|exact Hr]).
  destruct (link_sorter_ok L bsort k n p (split X) ties Hsort Hp Hr')
    as (parts & Hrun & _ & _ & Hgood & (Hs & Hpm) & Hrg).
  exists parts. unfold c08_parts. rewrite Hrun.
  split; [reflexivity|]. split; [exact Hs|].
  split; [exact (perm_trans Hpm (Hsp X))|]. split; [|exact Hrg].
  intros Hnd. apply (good_perm X (all_input (split X))); [apply Hsp|].
  apply Hgood. apply (Permutation_NoDup (l := map fst X)); [|exact Hnd].
  apply Permutation_map. apply Permutation_sym. apply Hsp.
Qed.

Lemma c08_parts_dedup n p cd split ties (X : list lpair) :
  (0 < p)%nat -> split_ok split -> in_range n X ->
  exists parts,
    c08_parts bsort k n p cd true split ties X = Some (XformM.boundaries n p, parts)
    /\ good X (concat parts)
    /\ ranged (XformM.boundaries n p) parts.
Proof.
  intros Hp Hsp Hr.
  assert (Hr' : in_range n (all_input (split X))) by (apply (in_range_perm n X); [apply Hsp|exact Hr]).
  destruct (link_sorterd_ok L bsort k n p cd (split X) ties Hsort Hp Hr')
    as (parts & Hrun & _ & _ & Hgood & _ & Hrg).
  exists parts. unfold c08_parts. rewrite Hrun.
  split; [reflexivity|]. split; [|exact Hrg].
  apply (good_perm X (all_input (split X))); [apply Hsp|exact Hgood].
Qed.

(** both flags at once, in the form the transforms need *)
Lemma c08_parts_good n p cd md split ties (X : list lpair) :
  (0 < p)%nat -> split_ok split -> in_range n X ->
  (md = false -> cd = false /\ NoDup (map fst X)) ->
  exists parts,
    c08_parts bsort k n p cd md split ties X = Some (XformM.boundaries n p, parts)
    /\ good X (concat parts)
    /\ ranged (XformM.boundaries n p) parts.
Proof.
  intros Hp Hsp Hr Hmd. destruct md.
  - apply c08_parts_dedup; assumption.
  - destruct (Hmd eq_refl) as [-> Hnd].
    destruct (c08_parts_nodedup n p split ties X Hp Hsp Hr) as (parts & E & _ & _ & Hg & Hrg).
    exists parts. split; [exact E|]. split; [apply Hg; exact Hnd|exact Hrg].
Qed.

(** the sorter defined from the pipeline, and its totalisation *)
Lemma pipeline_sorter_total_eq n p' cd md split ties (X : list lpair) :
  (0 < p')%nat -> split_ok split -> in_range n X ->
  pipeline_sorter bsort k n p' cd md split ties X
  = pipeline_sorter_total bsort k n p' cd md split ties X.
Proof.
  intros Hp Hsp Hr. unfold pipeline_sorter, pipeline_sorter_total.
  destruct (c08_parts_accept n p' cd md split ties X Hp Hsp Hr) as (r & ->). reflexivity.
Qed.
End C08Parts.

Theorem link_refusal : S_link_refusal.
Proof.
  intros L bsort k n p cd md split ties X Hp Hsp.
  assert (H1 : c08_parts bsort k n p cd md split ties X = None <-> exists e, In e X /\ n <= src e).
  { split; [|apply c08_parts_refuse; assumption].
    intros HN. destruct (in_range_dec n X) as [Hr|Hex]; [|exact Hex].
    destruct (c08_parts_accept bsort k n p cd md split ties X Hp Hsp Hr) as (r & E). congruence. }
  split; [exact H1|]. rewrite H1. split.
  - intros Hex srt. apply ext_sort_none. exact Hex.
  - intros H. apply (ext_sort_none (fun l => l) n p X). apply H.
Qed.

Theorem link_chunk_split_ok : S_link_chunk_split_ok.
Proof.
  intros L spec X. replace (all_input (chunk_split spec X)) with X; [apply Permutation_refl|].
  revert X. induction spec as [|[cap len] spec IH]; intros X.
  - unfold all_input. cbn [chunk_split map snd concat]. rewrite app_nil_r. reflexivity.
  - unfold all_input in *. cbn [chunk_split map snd concat]. rewrite <- IH. symmetry. apply firstn_skipn.
Qed.

Theorem link_sorter_total : S_link_sorter_total.
Proof.
  intros L bsort k n p' cd split ties Hsort Hp Hsp. split.
  - intros X. unfold pipeline_sorter_total.
    destruct (in_range_dec n X) as [Hr|Hex].
    + destruct (c08_parts_nodedup bsort k Hsort n p' split ties X Hp Hsp Hr)
        as (parts & -> & Hs & Hpm & _). split; assumption.
    + rewrite (c08_parts_refuse bsort k n p' false false split ties X Hp Hsp Hex).
      apply (proj1 (Facts3.ksort_ok L)).
  - intros X. unfold pipeline_sorter_total.
    destruct (in_range_dec n X) as [Hr|Hex].
    + destruct (c08_parts_dedup bsort k Hsort n p' cd split ties X Hp Hsp Hr)
        as (parts & -> & Hg & _). apply good_sorterd_concl. exact Hg.
    + rewrite (c08_parts_refuse bsort k n p' cd true split ties X Hp Hsp Hex).
      apply (proj2 (Facts3.ksort_ok L)).
Qed.

Theorem link_ext_sort_domain : S_link_ext_sort_domain.
Proof.
  intros L s1 s2 n p X H. unfold ext_sort.
  destruct (forallb (fun e => src e <? n) X) eqn:E; [|reflexivity].
  f_equal. apply map_ext. intros i. apply H.
  intros e He. apply filter_In in He. destruct He as [He _].
  rewrite forallb_forall in E. apply N.ltb_lt. apply E. exact He.
Qed.

Lemma ext_sort_pipeline {L} (bsort : list (@lpair L) -> list (@lpair L)) k n p' cd md split ties p X :
  (0 < p')%nat -> split_ok split ->
  ext_sort (pipeline_sorter bsort k n p' cd md split ties) n p X
  = ext_sort (pipeline_sorter_total bsort k n p' cd md split ties) n p X.
Proof.
  intros Hp Hsp. apply link_ext_sort_domain. intros l Hl.
  apply pipeline_sorter_total_eq; assumption.
Qed.

(** * (c1) the C09 theorems with the sorter defined from the C08 pipeline *)

Theorem link_transpose_concrete : S_link_transpose_concrete.
Proof.
  intros bsort k p' split ties Hsort Hp' Hsp g p cuts arrival Hwf Hp Hsch srt.
  destruct (link_sorter_total unit bsort k (nlen g) p' false split ties Hsort Hp' Hsp) as [Hok _].
  destruct (transpose_correct _ Hok g p cuts arrival Hwf Hp Hsch) as [E1 E2].
  split; [rewrite <- E1|rewrite <- E2];
    unfold srt, transpose_seq, transpose_par, xform_seq, xform_par;
    rewrite !ext_sort_pipeline by assumption; reflexivity.
Qed.

Theorem link_run_xop_concrete : S_link_run_xop_concrete.
Proof.
  intros bsort k p' cd split ties Hsort Hp' Hsp op g par p cuts arrival Hwf Hp Hsch Hop n.
  destruct (link_sorter_total unit bsort k n p' cd split ties Hsort Hp' Hsp) as [Hok Hokd].
  rewrite <- (run_xop_correct _ _ Hok Hokd op g par p cuts arrival Hwf Hp Hsch Hop).
  unfold run_xop, run_parts. fold n.
  destruct (xop_check op g); [|reflexivity].
  destruct (xop_dedup op); rewrite !ext_sort_pipeline by assumption; reflexivity.
Qed.

Theorem link_sorted_par_symm_concrete : S_link_sorted_par_symm_concrete.
Proof.
  intros bsort k p' split ties Hsort Hp' Hsp noloops g p cuts arrival Hwf Hp Hsch srt.
  destruct (link_sorter_total unit bsort k (nlen g) p' false split ties Hsort Hp' Hsp) as [Hok _].
  split; [rewrite <- (sorted_par_symm _ Hok noloops g p cuts arrival Hwf Hp Hsch)
         |rewrite <- (sorted_par_symm_lenders _ Hok noloops g p cuts arrival Hwf Hp Hsch)];
    unfold srt, symmetrize_sorted_par, symmetrize_sorted_par_lenders, symm_sorted_parts;
    rewrite !ext_sort_pipeline by assumption; reflexivity.
Qed.

Theorem link_run_labeled_concrete : S_link_run_labeled_concrete.
Proof.
  intros L bsort k p' split ties Hsort Hp' Hsp g par p cuts arrival Hwf Hp Hsch.
  destruct (link_sorter_total L bsort k (nlen g) p' false split ties Hsort Hp' Hsp) as [Hok _].
  rewrite <- (run_labeled_correct L _ Hok g par p cuts arrival Hwf Hp Hsch).
  unfold run_parts. rewrite !ext_sort_pipeline by assumption. reflexivity.
Qed.

(** * (c2) the direct composition *)

Lemma lenders_eq_seq {L} n p (parts : list (list (@lpair L))) :
  (0 < p)%nat -> ranged (XformM.boundaries n p) parts ->
  read_par (XformM.boundaries n p) parts = read_seq n parts.
Proof.
  intros Hp HR. rewrite boundaries_eq in HR |- *.
  destruct (read_par_eq _ _ _ HR) as (E & _). rewrite E. unfold read_seq. f_equal.
  destruct (boundaries_legal n p Hp) as (_ & Hl & _). rewrite boundaries_eq in Hl. rewrite Hl. lia.
Qed.

Lemma c08_run_parts_correct bsort k (phi : @lpair unit -> list (@lpair unit)) nout par p cd md
  split ties cuts arrival (g : list (list (N * unit))) (R : N -> N -> bool) :
  sort_ok bsort -> split_ok split ->
  (0 < p)%nat -> legal_schedule cuts arrival (nlen g) ->
  (md = false -> cd = false /\ NoDup (map fst (flat_map phi (pairs_from 0 g)))) ->
  (forall e, In e (flat_map phi (pairs_from 0 g)) -> src e < nout /\ dst e < nout) ->
  (forall a b, a < nout -> b < nout ->
     (R a b = true <-> exists x, In x (flat_map phi (pairs_from 0 g)) /\ fst x = (a, b))) ->
  let r := c08_run_parts bsort k phi nout par p cd md split ties cuts arrival g in
  with_unit (fst r) = Some (lists_of_rel nout R) /\ with_unit (snd r) = Some (lists_of_rel nout R).
Proof.
  intros Hsort Hsp Hp Hsch Hmd Hr HR. cbv zeta. unfold c08_run_parts.
  set (X := flat_map phi (pairs_from 0 g)) in *.
  set (input := if par then _ else _).
  assert (HP : Permutation input X).
  { unfold input. destruct par; [apply par_input_perm; exact Hsch|apply Permutation_refl]. }
  assert (Hin : in_range nout input).
  { intros e He. apply (Permutation_in _ HP) in He. apply Hr in He. tauto. }
  destruct (c08_parts_good bsort k Hsort nout p cd md split ties input Hp Hsp Hin)
    as (parts & E & Hg & Hrg).
  { intros Hm. destruct (Hmd Hm) as [Hc Hnd]. split; [exact Hc|].
    apply (Permutation_NoDup (l := map fst X)); [|exact Hnd].
    apply Permutation_map. apply Permutation_sym. exact HP. }
  rewrite E. cbn [fst snd]. rewrite (lenders_eq_seq nout p parts Hp Hrg).
  assert (G : with_unit (read_seq nout parts) = Some (lists_of_rel nout R)).
  { unfold read_seq. apply (read_seq_good nout X (concat parts) R); [|exact Hr|exact HR].
    apply (good_perm X input); [exact HP|exact Hg]. }
  split; exact G.
Qed.

Theorem link_run_xop_composed : S_link_run_xop_composed.
Proof.
  intros bsort k cd split ties Hsort Hsp op g par p cuts arrival Hwf Hp Hsch Hop.
  assert (Hsch' : legal_schedule cuts arrival (nlen (unit_labels g)))
    by (rewrite nlen_unit_labels; exact Hsch).
  unfold c08_run_xop.
  assert (G : forall phi nout c md R,
    (md = false -> c = false /\ NoDup (map fst (flat_map phi (P g)))) ->
    (forall e, In e (flat_map phi (P g)) -> src e < nout /\ dst e < nout) ->
    (forall a b, a < nout -> b < nout ->
       (R a b = true <-> exists x, In x (flat_map phi (P g)) /\ fst x = (a, b))) ->
    (with_unit (fst (c08_run_parts bsort k phi nout par p c md split ties cuts arrival (unit_labels g))),
     with_unit (snd (c08_run_parts bsort k phi nout par p c md split ties cuts arrival (unit_labels g))))
    = (Some (lists_of_rel nout R), Some (lists_of_rel nout R))).
  { intros phi nout c md R H1 H2 H3.
    destruct (c08_run_parts_correct bsort k phi nout par p c md split ties cuts arrival
                (unit_labels g) R Hsort Hsp Hp Hsch' H1 H2 H3) as [E1 E2].
    rewrite E1, E2. reflexivity. }
  destruct op as [|nl|perm|f m]; cbn [xop_check xop_dedup xop_phi xop_nout xop_spec xop_ok] in *.
  - unfold transpose_spec. apply G.
    + intros _. split; [apply andb_false_r|]. apply transpose_nodup. exact Hwf.
    + intros e He. destruct e as [[a b] u].
      destruct (proj1 (transpose_keys g a b)) as [Hin Hb];
        [exists ((a, b), u); split; [exact He|reflexivity]|].
      unfold src, dst. cbn [fst snd]. destruct (wf_succ g b a Hwf Hin). tauto.
    + intros a b Ha Hb. rewrite has_arc_true. rewrite transpose_keys. tauto.
  - unfold symmetrize_spec. apply G.
    + intros H. discriminate H.
    + apply symm_range. exact Hwf.
    + intros a b _ _. apply symm_R. exact Hwf.
  - destruct Hop as (Hlen & Hb & Hnd). rewrite (proj2 (N.eqb_eq _ _) Hlen).
    unfold permute_spec, map_spec. destruct (map_facts perm (nlen g) g Hwf Hlen Hb) as [F1 F2].
    apply G.
    + intros _. split; [apply andb_false_r|]. apply permute_nodup; assumption.
    + exact F1.
    + exact F2.
  - destruct Hop as (Hlen & Hb). rewrite (proj2 (N.eqb_eq _ _) Hlen).
    unfold map_spec. destruct (map_facts f m g Hwf Hlen Hb) as [F1 F2]. apply G.
    + intros H. discriminate H.
    + exact F1.
    + exact F2.
Qed.

Theorem link_run_labeled_composed : S_link_run_labeled_composed.
Proof.
  intros L bsort k split ties Hsort Hsp g par p cuts arrival Hwf Hp Hsch.
  unfold c08_run_parts.
  set (X := flat_map phi_transpose (pairs_from 0 g)).
  set (input := if par then _ else _).
  assert (HP : Permutation input X).
  { unfold input. destruct par; [apply par_input_perm; exact Hsch|apply Permutation_refl]. }
  assert (Hin : in_range (nlen g) input).
  { intros e He. apply (Permutation_in _ HP) in He. apply (lX_range g Hwf) in He. tauto. }
  destruct (c08_parts_good bsort k Hsort (nlen g) p false false split ties input Hp Hsp Hin)
    as (parts & E & Hg & Hrg).
  { intros _. split; [reflexivity|].
    apply (Permutation_NoDup (l := map fst X)); [|exact (lX_nodup g Hwf)].
    apply Permutation_map. apply Permutation_sym. exact HP. }
  rewrite E. rewrite (lenders_eq_seq (nlen g) p parts Hp Hrg).
  assert (HG : good X (concat parts)) by (apply (good_perm X input); [exact HP|exact Hg]).
  assert (G : read_seq (nlen g) parts = Some (transpose_labeled_spec g)).
  { unfold read_seq.
    rewrite node_labels_sorted; [|exact (good_src_sorted X _ HG)|intros; lia].
    f_equal. apply labelled_lists; [exact Hwf|exact HG]. }
  rewrite G. reflexivity.
Qed.
