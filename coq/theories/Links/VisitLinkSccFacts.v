(** LINK L-C (C15 o C14 / C13): [Scc.top_sort], [Scc.dfs_visit], the component loops of
    [symm_seq] and [kosaraju], and [Scc.bfs_visit] against the C14 / C13 visit models.
    Proofs. *)
From WG Require Import Base.Prelude.
From WG Require Import Visits.Bfs Visits.BfsStatements Visits.BfsFacts.
From WG Require Import Visits.Dfs Visits.DfsStatements Visits.DfsFacts Visits.DfsWfFacts.
From WG Require Import Algo.Scc Algo.SccStatements Algo.SccFacts Algo.SccOrder.
From WG Require Import Links.VisitLinkStatements Links.VisitLinkBfsFacts Links.VisitLinkDfsFacts
  Links.VisitLinkTarjanFacts.

(** * Conversions *)
Lemma memb_conv : forall v vis, SccM.memb v vis = DfsM.memb (N.of_nat v) (lN vis).
Proof.
  intros v vis. induction vis as [|a vis IH]; [reflexivity|].
  unfold SccM.memb, DfsM.memb in *. cbn [lN map existsb]. fold (lN vis). rewrite IH. f_equal.
  destruct (Nat.eqb_spec v a) as [E|E], (N.eqb_spec (N.of_nat v) (N.of_nat a)) as [E'|E']; try reflexivity; lia.
Qed.

Lemma lN_inj_In : forall l x, In (N.of_nat x) (lN l) <-> In x l.
Proof.
  intros l x. rewrite lN_In'. split.
  - intros (v & E & H). apply Nat2N.inj in E. subst. exact H.
  - intros H. exists x. split; [reflexivity|exact H].
Qed.

Lemma lN_NoDup : forall l, NoDup l -> NoDup (lN l).
Proof.
  induction l as [|a l IH]; intros H; [constructor|]. inversion H as [|? ? Hn Hd]; subst.
  cbn [lN map]. constructor; [|apply IH; exact Hd]. fold (lN l). rewrite lN_inj_In. exact Hn.
Qed.

Lemma lN_marks : forall (g : SccM.graph) vis,
  NoDup vis -> Forall (fun v => (v < length g)%nat) vis -> marks_ok (gN g) (lN vis).
Proof.
  intros g vis Hnd Hb. split; [apply lN_NoDup; exact Hnd|].
  intros v Hv. apply lN_In' in Hv. destruct Hv as (v0 & E & Hv0). subst v.
  rewrite Forall_forall in Hb. specialize (Hb v0 Hv0). rewrite gN_nlen. lia.
Qed.

Lemma lN_cons : forall a l, lN (a :: l) = N.of_nat a :: lN l.
Proof. reflexivity. Qed.

Lemma lN_app : forall a b, lN (a ++ b) = lN a ++ lN b.
Proof. intros a b. unfold lN. apply map_app. Qed.

Lemma lN_rev : forall a, lN (rev a) = rev (lN a).
Proof. intros a. unfold lN. apply map_rev. Qed.

Lemma lnat_app : forall a b, lnat (a ++ b) = lnat a ++ lnat b.
Proof. intros a b. unfold lnat. apply map_app. Qed.

Lemma lnat_rev : forall a, lnat (rev a) = rev (lnat a).
Proof. intros a. unfold lnat. apply map_rev. Qed.

(** * [Scc.dfs] follows the recursive trace (no fuel condition: both truncate alike) *)
Section DfsCorr.
  Variable g : SccM.graph.
  Let gn := gN g.

  Definition dv_ok (f : nat) : Prop :=
    forall root d u parent vis post,
      snd (rt_visit f gn root d (N.of_nat u) (N.of_nat parent) (lN vis))
      = lN (fst (SccM.dfs f g u (vis, post)))
      /\ lN (snd (SccM.dfs f g u (vis, post)))
         = rev (post_nodes (fst (rt_visit f gn root d (N.of_nat u) (N.of_nat parent) (lN vis))))
           ++ lN post.

  Lemma dv_loop : forall f, dv_ok f ->
    forall root d u l vis post,
      let F := fun (st : dstate) (v : nat) =>
                 if SccM.memb v (fst st) then st else SccM.dfs f g v (v :: fst st, snd st) in
      let R := rt_loop (fun s kn => rt_visit f gn root (d + 1)%N s (N.of_nat u) kn) root d
                       (N.of_nat u) (lN l) (lN vis) in
      snd R = lN (fst (fold_left F l (vis, post)))
      /\ lN (snd (fold_left F l (vis, post))) = rev (post_nodes (fst R)) ++ lN post.
  Proof.
    intros f Hf root d u. induction l as [|s rest IH]; intros vis post; cbv zeta.
    - cbn. split; reflexivity.
    - cbn [lN map rt_loop fold_left fst snd]. fold (lN rest). rewrite memb_conv.
      destruct (DfsM.memb (N.of_nat s) (lN vis)) eqn:Hk.
      + specialize (IH vis post). cbv zeta in IH.
        destruct (rt_loop _ root d (N.of_nat u) (lN rest) (lN vis)) as [ev k]. cbn [fst snd] in *.
        exact IH.
      + destruct (Hf root (d + 1)%N s u (s :: vis) post) as [H1 H2].
        cbn [lN map] in H1, H2. fold (lN vis) in H1, H2.
        destruct (rt_visit f gn root (d + 1)%N (N.of_nat s) (N.of_nat u) (N.of_nat s :: lN vis))
          as [ev1 k1]. cbn [fst snd] in *.
        destruct (SccM.dfs f g s (s :: vis, post)) as [vis1 post1]. cbn [fst snd] in *. subst k1.
        specialize (IH vis1 post1). cbv zeta in IH.
        destruct (rt_loop _ root d (N.of_nat u) (lN rest) (lN vis1)) as [ev2 k2]. cbn [fst snd] in *.
        destruct IH as [H3 H4]. split; [exact H3|]. rewrite H4, H2.
        change (DfsM.EPre (N.of_nat s) (N.of_nat u) root d :: ev1 ++ ev2)
          with ([DfsM.EPre (N.of_nat s) (N.of_nat u) root d] ++ ev1 ++ ev2).
        rewrite !post_nodes_app, !rev_app_distr. cbn [post_nodes flat_map rev app].
        rewrite app_nil_r, <- app_assoc. reflexivity.
  Qed.

  Lemma dv_ok_all : forall f, dv_ok f.
  Proof.
    induction f as [|f IH]; intros root d u parent vis post.
    - cbn. split; reflexivity.
    - cbn [SccM.dfs rt_visit fst snd]. unfold gn. rewrite gN_succs_dfs. fold gn.
      pose proof (dv_loop f IH root d u (SccM.succs g u) vis post) as H. cbv zeta in H.
      destruct (rt_loop _ root d (N.of_nat u) (lN (SccM.succs g u)) (lN vis)) as [ev k].
      cbn [fst snd] in *. destruct H as [H1 H2]. split; [exact H1|].
      rewrite lN_cons, post_nodes_app, rev_app_distr. cbn [post_nodes flat_map rev app].
      f_equal. exact H2.
  Qed.

  Lemma dv_roots : forall roots vis post,
    snd (rt_roots gn (lN roots) (lN vis)) = lN (fst (dfs_roots g roots (vis, post)))
    /\ lN (snd (dfs_roots g roots (vis, post)))
       = rev (post_nodes (fst (rt_roots gn (lN roots) (lN vis)))) ++ lN post.
  Proof.
    induction roots as [|r rs IH]; intros vis post.
    - cbn. split; reflexivity.
    - unfold dfs_roots in *. cbn [lN map rt_roots fold_left]. fold (lN rs).
      unfold dfs_root at 2 4. cbn [fst snd]. rewrite memb_conv.
      destruct (DfsM.memb (N.of_nat r) (lN vis)) eqn:Hk; [apply IH|].
      unfold gn. rewrite !gN_length. fold gn.
      destruct (dv_ok_all (length g) (N.of_nat r) 1%N r r (r :: vis) post) as [H1 H2].
      cbn [lN map] in H1, H2. fold (lN vis) in H1, H2.
      destruct (rt_visit (length g) gn (N.of_nat r) 1%N (N.of_nat r) (N.of_nat r) (N.of_nat r :: lN vis))
        as [ev1 k1]. cbn [fst snd] in *.
      destruct (SccM.dfs (length g) g r (r :: vis, post)) as [vis1 post1]. cbn [fst snd] in *. subst k1.
      destruct (IH vis1 post1) as [H3 H4].
      destruct (rt_roots gn (lN rs) (lN vis1)) as [ev2 k2]. cbn [fst snd] in *.
      split; [exact H3|]. rewrite H4, H2.
      change (DfsM.EInit (N.of_nat r) :: DfsM.EPre (N.of_nat r) (N.of_nat r) (N.of_nat r) 0%N
                :: ev1 ++ DfsM.EDone (N.of_nat r) :: ev2)
        with ([DfsM.EInit (N.of_nat r); DfsM.EPre (N.of_nat r) (N.of_nat r) (N.of_nat r) 0%N]
                ++ ev1 ++ [DfsM.EDone (N.of_nat r)] ++ ev2).
      rewrite !post_nodes_app, !rev_app_distr. cbn [post_nodes flat_map rev app].
      repeat rewrite app_nil_r. repeat rewrite <- app_assoc. reflexivity.
  Qed.
End DfsCorr.

Lemma nodes_range : forall (g : DfsM.graph) r, In r (DfsM.nodes g) -> (r < nlen g)%N.
Proof. intros g r H. apply nodes_In. exact H. Qed.

Lemma marks_nil : forall g : DfsM.graph, marks_ok g [].
Proof. intros g. split; [constructor|intros v []]. Qed.

Theorem link_top_sort : S_link_top_sort.
Proof.
  intros g Hwf. unfold DfsM.top_sort.
  destruct (dfs_trace_recursive (gN g) (DfsM.nodes (gN g)) [] [] (gN_gwf g Hwf)
              (nodes_range (gN g)) (marks_nil (gN g))) as (cf & Hd & _).
  rewrite Hd. f_equal. rewrite gN_nodes.
  destruct (dv_roots g (seq 0 (length g)) [] []) as [_ H]. cbn [lN map] in H.
  rewrite app_nil_r in H. symmetry. exact H.
Qed.

Theorem link_dfs_visit : S_link_dfs_visit.
Proof.
  intros g root vis fl Hwf Hroot Hnin Hnd Hb.
  assert (Hr : forall r, In r [N.of_nat root] -> (r < nlen (gN g))%N).
  { intros r [Hr|[]]. subst r. rewrite gN_nlen. lia. }
  destruct (dfs_trace_recursive (gN g) [N.of_nat root] (lN vis) [] (gN_gwf g Hwf) Hr
              (lN_marks g vis Hnd Hb)) as (cf & Hd & Hk).
  (* the recursive trace of this visit *)
  cbn [rt_roots] in Hd, Hk.
  assert (Hm : DfsM.memb (N.of_nat root) (lN vis) = false).
  { rewrite <- memb_conv. apply SccFacts.memb_false. exact Hnin. }
  rewrite Hm in Hd, Hk. rewrite gN_length in Hd, Hk.
  destruct (dv_ok_all g (length g) (N.of_nat root) 1%N root root (root :: vis) []) as [H1 _].
  cbn [lN map] in H1. fold (lN vis) in H1.
  pose proof (rt_visit_known (length g) (gN g) (N.of_nat root) 1%N (N.of_nat root) (N.of_nat root)
                (N.of_nat root :: lN vis)) as Hkn.
  destruct (rt_visit (length g) (gN g) (N.of_nat root) 1%N (N.of_nat root) (N.of_nat root)
                     (N.of_nat root :: lN vis)) as [ev1 k1]. cbn [fst snd] in *.
  fold (dfs_visit g root vis) in H1.
  (* transfer to the flavour [fl] *)
  rewrite (dfs_erase DfsM.Pred) in Hd. rewrite (dfs_erase fl).
  destruct (DfsM.dfs DfsM.Path (gN g) DfsM.no_filter [N.of_nat root] (lN vis) []) as [evs c| |evs];
    try discriminate.
  cbn [map_result] in *. inversion Hd as [[He Hc]]. subst c.
  eexists; exists cf. split; [reflexivity|]. split; [rewrite Hk; exact H1|].
  rewrite pre_nodes_erase, <- (pre_nodes_erase DfsM.Pred evs), He.
  rewrite <- H1, Hkn.
  change (DfsM.EInit (N.of_nat root) :: DfsM.EPre (N.of_nat root) (N.of_nat root) (N.of_nat root) 0%N
            :: ev1 ++ [DfsM.EDone (N.of_nat root)])
    with ([DfsM.EInit (N.of_nat root); DfsM.EPre (N.of_nat root) (N.of_nat root) (N.of_nat root) 0%N]
            ++ ev1 ++ [DfsM.EDone (N.of_nat root)]).
  rewrite !pre_nodes_app'. cbn [pre_nodes flat_map app]. rewrite app_nil_r.
  cbn [rev]. rewrite <- app_assoc. reflexivity.
Qed.

(** * The component loop as a fold of the callback *)
Lemma comp_fold_erase : forall evs st,
  fold_left comp_handler (flat_map (ev_erase DfsM.NoPred) evs) st = fold_left comp_handler evs st.
Proof.
  induction evs as [|e r IH]; intros st; [reflexivity|].
  cbn [flat_map]. rewrite fold_left_app, IH. destruct e; reflexivity.
Qed.

Definition no_done (evs : list DfsM.event) : Prop :=
  Forall (fun e => match e with DfsM.EDone _ => False | _ => True end) evs.

Lemma comp_fold_nodone : forall evs comp k, no_done evs ->
  fold_left comp_handler evs (comp, k) = (assign comp (lnat (pre_nodes evs)) k, k).
Proof.
  induction evs as [|e r IH]; intros comp k H; [reflexivity|].
  inversion H as [|? ? He Hr]; subst. cbn [fold_left].
  destruct e; try contradiction; cbn [comp_handler fst snd]; rewrite IH by exact Hr; reflexivity.
Qed.

Lemma rt_loop_nodone : forall (rec : N -> list N -> list DfsM.event * list N) root d u,
  (forall s kn, no_done (fst (rec s kn))) ->
  forall l known, no_done (fst (rt_loop rec root d u l known)).
Proof.
  intros rec root d u Hrec. induction l as [|s rest IH]; intros known; [constructor|].
  cbn [rt_loop]. destruct (DfsM.memb s known).
  - specialize (IH known). destruct (rt_loop rec root d u rest known) as [ev k].
    constructor; [exact I|exact IH].
  - specialize (Hrec s (s :: known)). destruct (rec s (s :: known)) as [ev1 k1].
    specialize (IH k1). destruct (rt_loop rec root d u rest k1) as [ev2 k2]. cbn [fst] in *.
    constructor; [exact I|]. apply Forall_app. split; assumption.
Qed.

Lemma rt_visit_nodone : forall f g root d u parent known,
  no_done (fst (rt_visit f g root d u parent known)).
Proof.
  induction f as [|f IH]; intros g root d u parent known; [constructor|].
  cbn [rt_visit].
  pose proof (rt_loop_nodone (fun s kn => rt_visit f g root (d + 1)%N s u kn) root d u
                (fun s kn => IH g root (d + 1)%N s u kn) (DfsM.succs g u) known) as H.
  destruct (rt_loop _ root d u (DfsM.succs g u) known) as [ev k]. cbn [fst] in *.
  apply Forall_app. split; [exact H|]. constructor; [exact I|constructor].
Qed.

Lemma upd_comm_same : forall (l : list nat) i j c, upd (upd l i c) j c = upd (upd l j c) i c.
Proof.
  induction l as [|y l IH]; intros i j c; [destruct i, j; reflexivity|].
  destruct i as [|i], j as [|j]; cbn [upd]; try reflexivity. rewrite IH. reflexivity.
Qed.

Lemma assign_upd : forall l comp a c, assign (upd comp a c) l c = upd (assign comp l c) a c.
Proof.
  unfold assign. induction l as [|b l IH]; intros comp a c; [reflexivity|].
  cbn [fold_left]. rewrite upd_comm_same. apply IH.
Qed.

Lemma assign_rev : forall l comp c, assign comp (rev l) c = assign comp l c.
Proof.
  induction l as [|a l IH]; intros comp c; [reflexivity|].
  cbn [rev]. unfold assign at 1. rewrite fold_left_app. cbn [fold_left].
  fold (assign comp (rev l) c). rewrite IH.
  change (assign comp (a :: l) c) with (assign (upd comp a c) l c). rewrite assign_upd. reflexivity.
Qed.

Lemma comp_roots : forall (g : SccM.graph) roots vis comp k,
  fold_left comp_handler (fst (rt_roots (gN g) (lN roots) (lN vis))) (comp, k)
  = (let '(_, comp', k') := fold_left (comp_step (dfs_visit g)) roots (vis, comp, k) in (comp', k')).
Proof.
  intros g. induction roots as [|r rs IH]; intros vis comp k; [reflexivity|].
  cbn [lN map rt_roots fold_left]. fold (lN rs). unfold comp_step at 2. rewrite memb_conv.
  destruct (DfsM.memb (N.of_nat r) (lN vis)) eqn:Hk; [apply IH|].
  rewrite gN_length.
  destruct (dv_ok_all g (length g) (N.of_nat r) 1%N r r (r :: vis) []) as [H1 _].
  cbn [lN map] in H1. fold (lN vis) in H1. fold (dfs_visit g r vis) in H1.
  pose proof (rt_visit_known (length g) (gN g) (N.of_nat r) 1%N (N.of_nat r) (N.of_nat r)
                (N.of_nat r :: lN vis)) as Hkn.
  pose proof (rt_visit_nodone (length g) (gN g) (N.of_nat r) 1%N (N.of_nat r) (N.of_nat r)
                (N.of_nat r :: lN vis)) as Hnd.
  destruct (rt_visit (length g) (gN g) (N.of_nat r) 1%N (N.of_nat r) (N.of_nat r)
                     (N.of_nat r :: lN vis)) as [ev1 k1]. cbn [fst snd] in *.
  specialize (IH (dfs_visit g r vis) (assign_new comp vis (dfs_visit g r vis) k) (S k)).
  rewrite <- H1 in IH.
  destruct (rt_roots (gN g) (lN rs) k1) as [ev2 k2]. cbn [fst snd] in *.
  rewrite <- IH. cbn [fold_left comp_handler fst snd]. rewrite Nat2N.id.
  rewrite fold_left_app, (comp_fold_nodone ev1 _ k Hnd). cbn [fold_left comp_handler fst snd].
  f_equal. f_equal.
  (* the two orders of assignment *)
  assert (Ev : dfs_visit g r vis = rev (r :: lnat (pre_nodes ev1)) ++ vis).
  { rewrite <- (lnat_lN (dfs_visit g r vis)), <- H1, Hkn, lnat_app, lnat_rev.
    cbn [rev lnat map]. rewrite Nat2N.id. fold (lnat (lN vis)). rewrite lnat_lN, <- app_assoc. reflexivity. }
  rewrite Ev, assign_new_app, assign_rev. reflexivity.
Qed.

Theorem link_comp_loop_dfs : S_link_comp_loop_dfs.
Proof.
  intros g roots Hwf Hroots.
  assert (Hr : forall r, In r (lN roots) -> (r < nlen (gN g))%N).
  { intros r Hr. apply lN_In' in Hr. destruct Hr as (r0 & E & Hr0). subst r.
    rewrite Forall_forall in Hroots. specialize (Hroots r0 Hr0). rewrite gN_nlen. lia. }
  destruct (dfs_trace_nopred (gN g) (lN roots) [] [] (gN_gwf g Hwf) Hr (marks_nil (gN g)))
    as (cf & Hd & _).
  eexists; exists cf. split; [exact Hd|].
  rewrite comp_fold_erase. change (@nil N) with (lN []). rewrite comp_roots.
  unfold comp_loop. reflexivity.
Qed.

Theorem link_symm_seq_fold : S_link_symm_seq_fold.
Proof.
  intros g Hwf. rewrite gN_nodes. unfold symm_seq.
  apply (link_comp_loop_dfs g (seq 0 (length g)) Hwf). apply seq_all.
Qed.

Theorem link_kosaraju_fold : S_link_kosaraju_fold.
Proof.
  intros g gt Hwf Ht.
  pose proof (transpose_wf g gt Hwf Ht) as Hwft.
  destruct Ht as [Hlen _].
  destruct (top_sort_finish_ordered g Hwf) as [Hall _].
  assert (Hroots : Forall (fun r => (r < length gt)%nat) (SccM.top_sort g)).
  { apply Forall_forall. intros r Hr. rewrite Hlen. apply Hall. exact Hr. }
  destruct (link_comp_loop_dfs gt (SccM.top_sort g) Hwft Hroots) as (evs & cf & Hd & Hc).
  exists (lN (SccM.top_sort g)), evs, cf.
  split; [apply link_top_sort; exact Hwf|]. split; [exact Hd|].
  unfold kosaraju. rewrite <- Hlen. exact Hc.
Qed.
