(** LINK L-A (C16 o C13): the distances of the [Visit] events of the C13 breadth-first
    visits (sequential, and parallel under every schedule; unfiltered, and filtered to a
    component) are the entries of [dist_matrix] of [Algo/EssSpec.v].  Proofs.

    The bridge is between the two specifications of "shortest-path distance":
    [BfsM.dist_is] (walks of [BfsM.reach] through accepted nodes, nodes in [N]) and
    [is_dist] (walks of [walk], nodes in [nat]); [C13_levels_are_distances] and
    [bfs_dist_correct] are used as they are. *)
From WG Require Import Base.Prelude.
From WG Require Import Visits.Bfs Visits.BfsStatements Visits.BfsFacts.
From WG Require Import Algo.EssSpec Algo.EssStatements Algo.EssSpecFacts Algo.Ess Algo.EssScc
  Algo.EssSccFacts.
From WG Require Import Links.VisitLinkStatements.

(** * Small list facts *)
Lemma lN_In : forall l x, In x (lN l) <-> exists v, x = N.of_nat v /\ In v l.
Proof.
  intros l x. unfold lN. rewrite in_map_iff. split.
  - intros (v & E & H). exists v. split; [symmetry; exact E|exact H].
  - intros (v & E & H). exists v. split; [symmetry; exact E|exact H].
Qed.

Lemma gN_succs : forall g u, BfsM.succs (gN g) (N.of_nat u) = lN (EssSpecM.succs g u).
Proof.
  intros g u. unfold BfsM.succs, EssSpecM.succs, gN. rewrite Nat2N.id.
  change (@nil N) with (lN []). apply map_nth.
Qed.

Lemma tag_levels_In : forall Ls a v d,
  In (v, d) (tag_levels a Ls) <-> exists k, d = (a + N.of_nat k)%N /\ In v (nth k Ls []).
Proof.
  induction Ls as [|L r IH]; intros a v d.
  - cbn. split; [intros []|]. intros (k & _ & H). destruct k; exact H.
  - cbn [tag_levels]. rewrite in_app_iff, in_map_iff, IH. split.
    + intros [(x & E & H)|(k & E & H)].
      * inversion E; subst. exists O. split; [lia|exact H].
      * exists (S k). split; [lia|exact H].
    + intros (k & E & H). destruct k as [|k].
      * left. exists v. split; [f_equal; lia|exact H].
      * right. exists k. split; [lia|exact H].
Qed.

Lemma in_concat_nth : forall (Ls : list (list N)) x,
  In x (concat Ls) <-> exists k, In x (nth k Ls []).
Proof.
  induction Ls as [|L r IH]; intros x.
  - cbn. split; [intros []|]. intros (k & H). destruct k; exact H.
  - cbn [concat]. rewrite in_app_iff, IH. split.
    + intros [H|(k & H)]; [exists O; exact H|exists (S k); exact H].
    + intros (k & H). destruct k as [|k]; [left; exact H|right; exists k; exact H].
Qed.

Lemma Forall2_nth_fst : forall (P : list (list (N * N))) (Ls : list (list N)),
  Forall2 (fun Pk Lk => NoDup (map fst Pk) /\ Permutation (map fst Pk) Lk) P Ls ->
  (forall k v, In v (map fst (nth k P [])) <-> In v (nth k Ls []))
  /\ Permutation (map fst (concat P)) (concat Ls).
Proof.
  intros P Ls H. induction H as [|Pk Lk P' Ls' [_ Hp] _ [IH1 IH2]].
  - split; [|constructor]. intros k v. destruct k; cbn; tauto.
  - split.
    + intros k v. destruct k as [|k]; [|apply IH1]. cbn [nth]. split; intros Hv.
      * eapply Permutation_in; [exact Hp|exact Hv].
      * eapply Permutation_in; [apply Permutation_sym; exact Hp|exact Hv].
    + cbn [concat]. rewrite map_app. apply Permutation_app; assumption.
Qed.

Lemma dget_overflow : forall g s v, (length g <= v)%nat -> dget (dist_matrix g) s v = None.
Proof.
  intros g s v Hv. unfold dget.
  destruct (Nat.lt_ge_cases s (length g)) as [Hs|Hs].
  - rewrite dist_row_nth by exact Hs. apply nth_overflow. rewrite dist_row_length. exact Hv.
  - rewrite (nth_overflow (dist_matrix g)) by (rewrite dist_matrix_length; exact Hs).
    destruct v; reflexivity.
Qed.

(** * The bridge between the two notions of distance *)
Section Bridge.
  Variables (h : EssSpecM.graph) (gB : BfsM.graph) (fn : N -> bool) (s : nat).
  Let ok : N -> bool := fun x => fn x && negb (BfsM.memb x []).
  Hypothesis Hwf : EssSpecM.wf_graph h = true.
  Hypothesis Hlt : (s < length h)%nat.
  Hypothesis Hs : fn (N.of_nat s) = true.
  (** the accepted arcs out of an accepted node are the arcs of [h] *)
  Hypothesis Harc : forall (u : nat) (x : N), fn (N.of_nat u) = true ->
    (In x (BfsM.succs gB (N.of_nat u)) /\ fn x = true
     <-> exists v, x = N.of_nat v /\ In v (EssSpecM.succs h u)).

  Lemma ok_fn : forall x, ok x = fn x.
  Proof. intros x. unfold ok. cbn. apply andb_true_r. Qed.

  Lemma reach_to_walk : forall k x, reach gB ok [N.of_nat s] k x ->
    fn x = true /\ exists v, x = N.of_nat v /\ walk h s v k.
  Proof.
    intros k x H. induction H as [r Hr Hok | k u v Hu IH Hv Hok].
    - destruct Hr as [Hr|[]]. subst r. split; [exact Hs|]. exists s. split; [reflexivity|constructor].
    - destruct IH as [Hfu (u' & Eu & Hw)]. subst u. rewrite ok_fn in Hok.
      destruct (proj1 (Harc u' v Hfu) (conj Hv Hok)) as (v' & Ev & Hin).
      split; [exact Hok|]. exists v'. split; [exact Ev|]. eapply walk_step; eassumption.
  Qed.

  Lemma walk_to_reach : forall k v, walk h s v k ->
    fn (N.of_nat v) = true /\ reach gB ok [N.of_nat s] k (N.of_nat v).
  Proof.
    intros k v H. induction H as [|u v k Hw IH Hin].
    - split; [exact Hs|]. apply reach_root; [left; reflexivity|]. rewrite ok_fn. exact Hs.
    - destruct IH as [Hfu Hr].
      destruct (proj2 (Harc u (N.of_nat v) Hfu) (ex_intro _ v (conj eq_refl Hin))) as [Hv Hfv].
      split; [exact Hfv|]. eapply reach_step; [exact Hr|exact Hv|]. rewrite ok_fn. exact Hfv.
  Qed.

  Lemma dist_bridge : forall x k,
    dist_is gB ok [N.of_nat s] x k <-> is_dist h s (N.to_nat x) k.
  Proof.
    intros x k. split.
    - intros [Hr Hmin]. destruct (reach_to_walk _ _ Hr) as [_ (v & Ev & Hw)]. subst x.
      rewrite Nat2N.id. split; [exact Hw|]. intros j Hj.
      destruct (Nat.le_gt_cases k j) as [Hle|Hgt]; [exact Hle|]. exfalso.
      apply (Hmin j Hgt). apply walk_to_reach. exact Hj.
    - intros [Hw Hmin]. destruct (walk_to_reach _ _ Hw) as [_ Hr]. rewrite N2Nat.id in Hr.
      split; [exact Hr|]. intros j Hj Hc. destruct (reach_to_walk _ _ Hc) as [_ (v & Ev & Hw')].
      subst x. rewrite Nat2N.id in Hmin. specialize (Hmin j Hw'). lia.
  Qed.

  Let Ls := bfs_levels gB (fun x _ => fn x) [N.of_nat s] [].

  Lemma level_dget : forall x k,
    In x (nth k Ls []) <-> dget (dist_matrix h) s (N.to_nat x) = Some k.
  Proof.
    intros x k. unfold Ls. rewrite (levels_are_distances gB fn [N.of_nat s] [] k x).
    fold ok. rewrite dist_bridge.
    destruct (Nat.lt_ge_cases (N.to_nat x) (length h)) as [Hx|Hx].
    - rewrite dget_dist by assumption.
      symmetry. apply (bfs_dist_correct h s (N.to_nat x) Hwf Hlt).
    - rewrite dget_overflow by exact Hx. split; [|discriminate].
      intros Hd. apply (is_dist_lt h s _ k Hwf Hlt) in Hd. lia.
  Qed.

  Lemma concat_dget : forall v : nat,
    In (N.of_nat v) (concat Ls) <-> dget (dist_matrix h) s v <> None.
  Proof.
    intros v. rewrite in_concat_nth. split.
    - intros (k & Hk). apply level_dget in Hk. rewrite Nat2N.id in Hk. congruence.
    - intros Hn. destruct (dget (dist_matrix h) s v) as [k|] eqn:E; [|congruence].
      exists k. apply level_dget. rewrite Nat2N.id. exact E.
  Qed.

  Lemma seq_generic :
    let vd := seq_visit_dists gB (fun x _ => fn x) (N.of_nat s) in
    NoDup (map fst vd)
    /\ (forall v d : N, In (v, d) vd <->
          dget (dist_matrix h) s (N.to_nat v) = Some (N.to_nat d))
    /\ (forall v : nat, In (N.of_nat v) (map fst vd) <-> dget (dist_matrix h) s v <> None).
  Proof.
    cbv zeta. unfold seq_visit_dists.
    destruct (seq_levels gB (fun x _ => fn x) [N.of_nat s] []) as [E _]. cbv zeta in E.
    rewrite E. fold Ls. rewrite tag_levels_fst.
    split; [apply (levels_once gB (fun x _ => fn x) [N.of_nat s] [])|].
    split; [|exact concat_dget].
    intros v d. rewrite tag_levels_In. split.
    - intros (k & Ed & Hk). apply level_dget in Hk. rewrite Hk. f_equal. lia.
    - intros Hd. exists (N.to_nat d). split; [lia|]. apply level_dget. exact Hd.
  Qed.

  Lemma par_generic : forall sch : N -> list (N * N) -> list (N * N),
    (forall d l, Permutation (sch d l) l) ->
    let P := par_levels gB (fun x _ => fn x) sch [N.of_nat s] [] in
    NoDup (map fst (concat P))
    /\ (forall (v : N) (k : nat), In v (map fst (nth k P [])) <->
          dget (dist_matrix h) s (N.to_nat v) = Some k)
    /\ (forall v : nat, In (N.of_nat v) (map fst (concat P)) <-> dget (dist_matrix h) s v <> None).
  Proof.
    intros sch Hsch. cbv zeta.
    destruct (par_levels_spec gB (fun x _ => fn x) [N.of_nat s] [] sch Hsch) as [HF _].
    cbv zeta in HF. fold Ls in HF. destruct (Forall2_nth_fst _ _ HF) as [Hn Hp].
    split; [|split].
    - eapply Permutation_NoDup; [apply Permutation_sym; exact Hp|].
      apply (levels_once gB (fun x _ => fn x) [N.of_nat s] []).
    - intros v k. rewrite Hn. apply level_dget.
    - intros v. rewrite <- concat_dget. split; intros Hv.
      + eapply Permutation_in; [exact Hp|exact Hv].
      + eapply Permutation_in; [apply Permutation_sym; exact Hp|exact Hv].
  Qed.
End Bridge.

(** * Instances *)
Lemma arc_unfiltered : forall (g : EssSpecM.graph) (u : nat) (x : N),
  (fun _ : N => true) (N.of_nat u) = true ->
  (In x (BfsM.succs (gN g) (N.of_nat u)) /\ (fun _ : N => true) x = true
   <-> exists v, x = N.of_nat v /\ In v (EssSpecM.succs g u)).
Proof.
  intros g u x _. rewrite gN_succs, lN_In. cbv beta. tauto.
Qed.

Definition comp_fn (comp : list nat) (p : nat) : N -> bool :=
  fun x => Nat.eqb (nth (N.to_nat x) comp 0%nat) (nth p comp 0%nat).

Lemma arc_filtered : forall (g : EssSpecM.graph) comp p (u : nat) (x : N),
  comp_fn comp p (N.of_nat u) = true ->
  (In x (BfsM.succs (gN g) (N.of_nat u)) /\ comp_fn comp p x = true
   <-> exists v, x = N.of_nat v /\ In v (EssSpecM.succs (induced g comp) u)).
Proof.
  intros g comp p u x Hu. unfold comp_fn in *. rewrite Nat2N.id in Hu. apply Nat.eqb_eq in Hu.
  rewrite gN_succs, lN_In. split.
  - intros [(v & E & Hin) Hx]. subst x. rewrite Nat2N.id in Hx. apply Nat.eqb_eq in Hx.
    exists v. split; [reflexivity|]. apply induced_succs. split; [exact Hin|congruence].
  - intros (v & E & Hin). subst x. apply induced_succs in Hin. destruct Hin as [Hin Hc].
    split; [exists v; split; [reflexivity|exact Hin]|]. rewrite Nat2N.id. apply Nat.eqb_eq. congruence.
Qed.

Lemma comp_fn_pivot : forall comp p, comp_fn comp p (N.of_nat p) = true.
Proof. intros comp p. unfold comp_fn. rewrite Nat2N.id. apply Nat.eqb_refl. Qed.

Theorem link_bfs_dist_seq : S_link_bfs_dist_seq.
Proof.
  intros g s Hwf Hs.
  exact (seq_generic g (gN g) (fun _ => true) s Hwf Hs eq_refl (arc_unfiltered g)).
Qed.

Theorem link_bfs_dist_par : S_link_bfs_dist_par.
Proof.
  intros g s sch Hwf Hs Hsch.
  exact (par_generic g (gN g) (fun _ => true) s Hwf Hs eq_refl (arc_unfiltered g) sch Hsch).
Qed.

Theorem link_bfs_dist_filtered_seq : S_link_bfs_dist_filtered_seq.
Proof.
  intros g comp p Hwf Hp.
  assert (Hpi : (p < length (induced g comp))%nat) by (rewrite induced_length; exact Hp).
  exact (seq_generic (induced g comp) (gN g) (comp_fn comp p) p (induced_wf g comp Hwf) Hpi
           (comp_fn_pivot comp p) (arc_filtered g comp p)).
Qed.

Theorem link_bfs_dist_filtered_par : S_link_bfs_dist_filtered_par.
Proof.
  intros g comp p sch Hwf Hp Hsch.
  assert (Hpi : (p < length (induced g comp))%nat) by (rewrite induced_length; exact Hp).
  exact (par_generic (induced g comp) (gN g) (comp_fn comp p) p (induced_wf g comp Hwf) Hpi
           (comp_fn_pivot comp p) (arc_filtered g comp p) sch Hsch).
Qed.
