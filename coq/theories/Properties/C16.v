(** C16 — ExactSumSweep returns exact eccentricities, diameter and radius.
    Statements and [Print Assumptions] only. *)
From Coq Require Import List Arith Bool Lia.
Import ListNotations.
From WG Require Import Algo.EssSpec Algo.EssStatements Algo.EssSpecFacts Algo.Ess
  Algo.EssMachineStatements Algo.EssFacts Algo.EssSymmStatements Algo.EssSymmFacts
  Algo.EssRadiusStatements Algo.EssRadiusFacts.

(** level-iteration BFS computes shortest-path distances; [None] exactly when unreachable *)
Theorem C16_bfs_dist : S_bfs_dist.
Proof. exact bfs_dist_correct. Qed.
Print Assumptions C16_bfs_dist.

(** the executable eccentricities are the documented reachability-restricted ones *)
Theorem C16_ecc_spec : S_ecc_spec.
Proof. exact ecc_spec. Qed.
Print Assumptions C16_ecc_spec.

(** the checker accepts exactly the outputs that are exact at the given level, with
    diametral / radial vertices attaining the values *)
Theorem C16_spec_checker_sound : S_spec_checker_sound.
Proof. exact spec_checker_sound. Qed.
Print Assumptions C16_spec_checker_sound.

(** the default radial set is the set of vertices reaching the chosen component *)
Theorem C16_radial_of_spec : S_radial_of_spec.
Proof. exact radial_of_spec. Qed.
Print Assumptions C16_radial_of_spec.

Theorem C16_scc_size_spec : S_scc_size_spec.
Proof. exact scc_size_spec. Qed.
Print Assumptions C16_scc_size_spec.

(** default radial vertices: the checker accepts exactly the outputs that are exact for the
    radial set of some largest strongly connected component *)
Theorem C16_default_checker_sound : S_default_checker_sound.
Proof. exact default_checker_sound. Qed.
Print Assumptions C16_default_checker_sound.

(** ---- the bound-refinement machine (directed variant), rules of the repaired code ---- *)

(** every breadth-first visit preserves lF <= ecc+ <= uF, lB <= ecc- <= uB, dL <= D (attained),
    R <= rU (attained once below its initial value n), for ANY pivot and any visiting order *)
Theorem C16_step_invariant : S_step_invariant.
Proof. exact step_invariant. Qed.
Print Assumptions C16_step_invariant.

Theorem C16_run_invariant : S_run_invariant.
Proof. exact run_invariant. Qed.
Print Assumptions C16_run_invariant.

(** when find_missing_nodes returns 0 for the level, the reported values are exact *)
Theorem C16_exit_exact : S_exit_exact.
Proof. exact exit_exact. Qed.
Print Assumptions C16_exit_exact.

(** ... and the radial vertex is a radial vertex attaining the radius (no side condition) *)
Theorem C16_exit_radial_vertex : S_exit_radial_vertex.
Proof. exact exit_radial_vertex. Qed.
Print Assumptions C16_exit_radial_vertex.

(** any legal sequence of visits reaching the exit condition gives an output accepted by the
    complete checker *)
Theorem C16_machine_exact : S_machine_exact.
Proof. exact machine_exact. Qed.
Print Assumptions C16_machine_exact.

(** defect 1, PRE-REPAIR rules ([replay_prefix]): the radial vertex is not set when the radius
    equals the initial bound *)
Theorem C16_radial_vertex_refuted : S_radial_vertex_refuted.
Proof. exact radial_vertex_refuted. Qed.
Print Assumptions C16_radial_vertex_refuted.

(** defect 2, PRE-REPAIR rules ([replay_prefix]): run_symm can report too large a radius *)
Theorem C16_symm_radius_refuted : S_symm_radius_refuted.
Proof. exact symm_radius_refuted. Qed.
Print Assumptions C16_symm_radius_refuted.

(** the two witnesses under the repaired rules: accepted by the complete checker *)
Theorem C16_witnesses_repaired : S_witnesses_repaired.
Proof. exact witnesses_repaired. Qed.
Print Assumptions C16_witnesses_repaired.

(** DIRECTED branch of all_cc_upper_bound: replacing the upper bounds by better upper bounds
    preserves the invariant; that the SCC-DAG values ARE upper bounds is not proved *)
Theorem C16_allcc_step_invariant_partial : S_tighten_step_invariant.
Proof. exact tighten_step_invariant. Qed.
Print Assumptions C16_allcc_step_invariant_partial.

(** ---- the symmetric variant (run_symm), rules of the repaired code ---- *)

(** distances of a symmetric graph are symmetric; so are the eccentricities *)
Theorem C16_symm_dist : S_symm_dist.
Proof. exact symm_dist. Qed.
Print Assumptions C16_symm_dist.

Theorem C16_symm_ecc : S_symm_ecc.
Proof. exact symm_ecc. Qed.
Print Assumptions C16_symm_ecc.

(** d(pivot, v) + ecc(pivot) is an upper bound of ecc(v) (the SCC step of run_symm) *)
Theorem C16_symm_pivot_bound : S_symm_pivot_bound.
Proof. exact symm_pivot_bound. Qed.
Print Assumptions C16_symm_pivot_bound.

(** every operation of run_symm -- forward visit, backward visit, SCC step -- preserves the
    FULL invariant (lF <= ecc <= uF, dL <= D attained, R <= rU attained once below n/2 + 1, a
    completed radial vertex is accounted for in rU), for any pivots and any orders *)
Theorem C16_symm_step_invariant : S_symm_step_invariant.
Proof. exact symm_step_invariant. Qed.
Print Assumptions C16_symm_step_invariant.

Theorem C16_symm_run_invariant : S_symm_run_invariant.
Proof. exact symm_run_invariant. Qed.
Print Assumptions C16_symm_run_invariant.

(** at the exit of run_symm everything reported is exact, radius and radial vertex included
    (hypothesis: radius <= n/2, see EssSymmStatements.v) *)
Theorem C16_symm_exit_exact : S_symm_exit_exact.
Proof. exact symm_exit_exact. Qed.
Print Assumptions C16_symm_exit_exact.

Theorem C16_symm_machine_exact : S_symm_machine_exact.
Proof. exact symm_machine_exact. Qed.
Print Assumptions C16_symm_machine_exact.

(** the pivots chosen by the model of find_best_pivot are legal for the SCC step *)
Theorem C16_best_pivots_legal : S_best_pivots_legal.
Proof. exact best_pivots_legal. Qed.
Print Assumptions C16_best_pivots_legal.

(** the boolean test applied to the pivots OBSERVED in a run (reported by a guarded call-out
    of the code) decides the legality condition of the SCC step of the symmetric machine *)
Theorem C16_legal_pivots_symb_spec : S_legal_pivots_symb_spec.
Proof. exact legal_pivots_symb_spec. Qed.
Print Assumptions C16_legal_pivots_symb_spec.

(** non-vacuity: the documentation's example graph, a legal run reaching the exit of level
    All, accepted by the checker *)
Example C16_nonvacuous :
  let g := [[1]; [2]; [3; 4]; [0]; []] in
  let radial := radial_of (dist_matrix g) 0 in
  let ops := [OFwd 2 []; OBwd 4 [4; 2; 1; 0; 3]; OFwd 3 []; OBwd 0 [0; 3; 2; 1]; OFwd 0 []; OFwd 1 []; OFwd 4 [];
              OBwd 1 [1; 0; 3; 2]; OBwd 2 [2; 1; 0; 3]; OBwd 3 [3; 2; 1; 0]] in
  wf_graph g = true /\ fst (replay false g radial ops LAll) = 0 /\
  check_ess g radial (snd (replay false g radial ops LAll)) LAll = true /\
  o_diam (snd (replay false g radial ops LAll)) = 4 /\ o_rad (snd (replay false g radial ops LAll)) = Some 3.
Proof. cbv zeta. repeat split; vm_compute; reflexivity. Qed.

(** non-vacuity, symmetric variant: the path 0-1-2-3-4 plus an isolated node; a visit, the SCC
    step with the pivots of the model of find_best_pivot, then visits until the exit of
    level All; radius 2 <= 6/2 attained at node 2 *)
Example C16_symm_nonvacuous :
  let g := [[1]; [0; 2]; [1; 3]; [2; 4]; [3]; []] in
  let dm := dist_matrix g in
  let radial := radial_of dm 0 in
  let all := [0; 1; 2; 3; 4; 5] in
  let x1 := run_ops true dm radial [OFwd 0 all] (init_st 6 true) in
  let ops := [OFwd 0 all; OAll (best_pivots true true dm 6 (tot_sym dm 6 [0]) x1) all; OBwd 4 all; OFwd 2 all; OFwd 3 all] in
  wf_graph g = true /\ symmetric_graph g /\ Forall (legal_op_sym g) ops /\
  (forall r, radius_from (eccs_f dm) radial = Some r -> r <= length g / 2) /\
  fst (replay true g radial ops LAll) = 0 /\
  check_ess g radial (snd (replay true g radial ops LAll)) LAll = true /\
  o_rad (snd (replay true g radial ops LAll)) = Some 2 /\ o_rv (snd (replay true g radial ops LAll)) = 2.
Proof.
  cbv zeta. split; [reflexivity|]. split.
  { intros u v H. do 6 (destruct u as [|u]; [cbn in H; cbn; intuition (subst; cbn; auto)|]).
    destruct u; destruct H. }
  split.
  { repeat apply Forall_cons; try apply Forall_nil.
    all: try (split; [cbn; lia|]; intros v Hv _; cbn in Hv;
              do 6 (destruct v as [|v]; [cbn; tauto|]); lia).
    split.
    - intros v Hv. cbn in Hv. do 6 (destruct v as [|v]; [vm_compute; split; [lia | discriminate]|]). lia.
    - intros v. cbn. split; [intuition lia | intros Hv; do 6 (destruct v as [|v]; [tauto|]); lia]. }
  split; [intros r Hr; vm_compute in Hr; injection Hr as <-; cbn; lia|].
  repeat split; vm_compute; reflexivity.
Qed.

(* ---- C16a: radius <= n/2 ---- *)

(** in a symmetric graph every node reaches a node whose eccentricity is at most half the
    size of its connected component *)
Theorem C16_component_center : S_component_center.
Proof. exact component_center. Qed.
Print Assumptions C16_component_center.

(** the radius over a radial set containing the whole connected component of v0 is at most
    half the size of that component ... *)
Theorem C16_component_radius_half_size : S_component_radius_half_size.
Proof. exact component_radius_half_size. Qed.
Print Assumptions C16_component_radius_half_size.

(** ... hence at most n/2: the initial bound n/2 + 1 of run_symm is never a radius *)
Theorem C16_component_radius_half : S_component_radius_half.
Proof. exact component_radius_half. Qed.
Print Assumptions C16_component_radius_half.

(** the hypothesis "radius <= n/2" of C16_symm_exit_exact / C16_symm_machine_exact follows
    from: no radial node, or a whole connected component is radial *)
Theorem C16_radial_closed_radius_half : S_radial_closed_radius_half.
Proof. exact radial_closed_radius_half. Qed.
Print Assumptions C16_radial_closed_radius_half.

(** the three symmetric theorems with the structural hypothesis instead of "radius <= n/2" *)
Theorem C16_symm_run_invariant_closed : S_symm_run_invariant_closed.
Proof. exact symm_run_invariant_closed. Qed.
Print Assumptions C16_symm_run_invariant_closed.

Theorem C16_symm_exit_exact_closed : S_symm_exit_exact_closed.
Proof. exact symm_exit_exact_closed. Qed.
Print Assumptions C16_symm_exit_exact_closed.

Theorem C16_symm_machine_exact_closed : S_symm_machine_exact_closed.
Proof. exact symm_machine_exact_closed. Qed.
Print Assumptions C16_symm_machine_exact_closed.

(** the default radial set of the symmetric case (the connected component of a node c: what
    compute_radial_vertices marks by a visit from a node of a largest component) satisfies the
    structural hypothesis *)
Theorem C16_symm_default_radial_closed : S_symm_default_radial_closed.
Proof. exact symm_default_radial_closed. Qed.
Print Assumptions C16_symm_default_radial_closed.

(** hence for the default radial set run_symm needs no side hypothesis at all *)
Theorem C16_symm_machine_exact_default : S_symm_machine_exact_default.
Proof. exact symm_machine_exact_default. Qed.
Print Assumptions C16_symm_machine_exact_default.

(** ... and its output is accepted by the default-radial checker (the harness oracle) *)
Theorem C16_symm_machine_exact_default_checker : S_symm_machine_exact_default_checker.
Proof. exact symm_machine_exact_default_checker. Qed.
Print Assumptions C16_symm_machine_exact_default_checker.

(** non-vacuity of the structural hypothesis: the path 0-1-2-3 plus an isolated node, radial =
    the path; radius 2 = 4/2 <= 5/2 *)
Example C16_contains_component_nonvacuous :
  let g := [[1]; [0; 2]; [1; 3]; [2]; []] in
  let radial := [true; true; true; true; false] in
  wf_graph g = true /\ symmetric_graph g /\ contains_component g radial /\
  radial_closed g radial /\
  scc_size (dist_matrix g) 0 = 4 /\
  radius_from (eccs_f (dist_matrix g)) radial = Some 2.
Proof.
  cbv zeta.
  assert (Hc : contains_component [[1]; [0; 2]; [1; 3]; [2]; []] [true; true; true; true; false]).
  { exists 0. split; [cbn; lia|]. split; [reflexivity|]. intros v Hv. cbn in Hv.
    do 5 (destruct v as [|v]; [vm_compute; try reflexivity; intros H; exfalso; apply H; reflexivity|]).
    lia. }
  split; [reflexivity|]. split.
  { intros u v H. do 5 (destruct u as [|u]; [cbn in H; cbn; intuition (subst; cbn; auto)|]).
    destruct u; destruct H. }
  split; [exact Hc|]. split; [right; exact Hc|].
  split; vm_compute; reflexivity.
Qed.

(** the closed machine theorem applies to the run of C16_symm_nonvacuous without any
    hypothesis on the radius: the default radial set of node 0 *)
Example C16_symm_default_nonvacuous :
  let g := [[1]; [0; 2]; [1; 3]; [2; 4]; [3]; []] in
  let dm := dist_matrix g in
  let radial := radial_of dm 0 in
  let all := [0; 1; 2; 3; 4; 5] in
  let x1 := run_ops true dm radial [OFwd 0 all] (init_st 6 true) in
  let ops := [OFwd 0 all; OAll (best_pivots true true dm 6 (tot_sym dm 6 [0]) x1) all; OBwd 4 all; OFwd 2 all; OFwd 3 all] in
  In 0 (largest_scc_nodes dm) /\ contains_component g radial /\
  fst (replay true g radial ops LAll) = 0 /\
  check_ess_default g (snd (replay true g radial ops LAll)) LAll = true.
Proof.
  cbv zeta. split; [vm_compute; left; reflexivity|]. split.
  { apply C16_symm_default_radial_closed; [reflexivity | | cbn; lia].
    intros u v H. do 6 (destruct u as [|u]; [cbn in H; cbn; intuition (subst; cbn; auto)|]).
    destruct u; destruct H. }
  split; vm_compute; reflexivity.
Qed.
(* ---- end C16a ---- *)
(* ---- C16b: directed SCC step ---- *)
From WG Require Import Algo.EssScc Algo.EssSccStatements Algo.EssSccGraphFacts Algo.EssSccFacts
  Algo.EssSccTarjanStatements.
From WG Require Algo.Scc Algo.EssSccTarjanFacts.

(** the component DAG of scc_graph.rs: every stored connection is an arc between the two
    components, and every component reached by an arc has a connection *)
Theorem C16_scc_graph_sound : S_scc_graph_sound.
Proof. exact scc_graph_sound. Qed.
Print Assumptions C16_scc_graph_sound.

(** after the forward / backward propagation loop the value of a component bounds the
    forward / backward eccentricity of its pivot from above *)
Theorem C16_ecc_pivot_f_bound : S_ecc_pivot_f_bound.
Proof. exact ecc_pivot_f_bound. Qed.
Print Assumptions C16_ecc_pivot_f_bound.

Theorem C16_ecc_pivot_b_bound : S_ecc_pivot_b_bound.
Proof. exact ecc_pivot_b_bound. Qed.
Print Assumptions C16_ecc_pivot_b_bound.

(** the per-node values are upper bounds of the eccentricities of the node *)
Theorem C16_scc_node_bounds : S_scc_node_bounds.
Proof. exact scc_node_bounds. Qed.
Print Assumptions C16_scc_node_bounds.

(** every operation of the directed machine, the SCC step included, preserves the invariant:
    for any legal pivots and any order of the parallel per-node loop *)
Theorem C16_scc_step_invariant : S_scc_step_invariant.
Proof. exact scc_step_invariant. Qed.
Print Assumptions C16_scc_step_invariant.

Theorem C16_scc_run_invariant : S_scc_run_invariant.
Proof. exact scc_run_invariant. Qed.
Print Assumptions C16_scc_run_invariant.

(** any legal sequence of visits and SCC steps reaching the exit condition gives an output
    accepted by the complete checker *)
Theorem C16_machine_exact_dir : S_machine_exact_dir.
Proof. exact machine_exact_dir. Qed.
Print Assumptions C16_machine_exact_dir.

(** the pivots of the model of find_best_pivot (directed rule) are legal *)
Theorem C16_best_pivots_dir_legal : S_best_pivots_dir_legal.
Proof. exact best_pivots_dir_legal. Qed.
Print Assumptions C16_best_pivots_dir_legal.

(** the boolean test applied to the pivots OBSERVED in a directed run decides legal_pivots *)
Theorem C16_legal_pivotsb_spec : S_legal_pivotsb_spec.
Proof. exact legal_pivotsb_spec. Qed.
Print Assumptions C16_legal_pivotsb_spec.

(** the numbering of the model of sccs::tarjan labels the strongly connected components,
    uses every index and is reverse topological: the hypotheses above are theorems for it *)
Theorem C16_tarjan_scc_topo : S_tarjan_scc_topo.
Proof. exact WG.Algo.EssSccTarjanFacts.tarjan_scc_topo. Qed.
Print Assumptions C16_tarjan_scc_topo.

Theorem C16_machine_exact_tarjan : S_machine_exact_tarjan.
Proof. exact WG.Algo.EssSccTarjanFacts.machine_exact_tarjan. Qed.
Print Assumptions C16_machine_exact_tarjan.

Theorem C16_tarjan_pivots_legal : S_tarjan_pivots_legal.
Proof. exact WG.Algo.EssSccTarjanFacts.tarjan_pivots_legal. Qed.
Print Assumptions C16_tarjan_pivots_legal.

(** non-vacuity: four components {5}, {3,4}, {0,1,2}, {6}; two bridge arcs 1->3 and 2->4
    between {0,1,2} and {3,4} (the one of larger arc_value, 2->4, is kept); after two visits the
    SCC step with the pivots of the model of find_best_pivot lowers 5 forward and 6 backward
    upper bounds; visits then complete level All; diameter 5, radius 2 *)
Example C16_scc_nonvacuous :
  let g := [[1]; [2; 3]; [0; 4]; [4]; [3; 5]; []; [0]] in
  let gt := [[2; 6]; [0]; [1]; [1; 4]; [2; 3]; [4]; []] in
  let ck := WG.Algo.Scc.SccM.tarjan g in
  let comp := fst ck in let k := snd ck in
  let dm := dist_matrix g in
  let radial := radial_of dm 0 in
  let all := [0; 1; 2; 3; 4; 5; 6] in
  let sd := mk_sdata g gt comp k in
  let x1 := run_ops_dir dm sd radial [OFwd 1 []; OBwd 5 all] (init_st 7 false) in
  let piv := best_pivots_dir true 7 comp k (tot_dir dm 7 [(true, 1); (false, 5)]) x1 in
  let x2 := step_dir dm sd radial (OAll piv all) x1 in
  let ops := [OFwd 1 []; OBwd 5 all; OAll piv all; OFwd 0 []; OFwd 2 []; OFwd 4 []; OFwd 6 [];
              OBwd 0 all; OBwd 1 all; OBwd 2 all; OBwd 3 all; OBwd 4 all] in
  wf_graph g = true /\ ck = ([2; 2; 2; 1; 1; 0; 3], 4) /\
  scc_graph g gt comp k = [[]; [(0, (4, 5))]; [(1, (2, 4))]; [(2, (6, 0))]] /\
  piv = [5; 3; 2; 6] /\
  scc_ok g comp k /\ topo_ok g comp /\ Forall (legal_op_dir g comp k) ops /\
  (uF x1, uB x1) = ([7; 3; 7; 7; 7; 7; 7], [7; 7; 7; 7; 7; 5; 7]) /\
  (uF x2, uB x2) = ([6; 3; 4; 2; 3; 0; 7], [4; 5; 3; 5; 6; 5; 0]) /\
  fst (replay_dir g gt comp k radial ops LAll) = 0 /\
  check_ess g radial (snd (replay_dir g gt comp k radial ops LAll)) LAll = true /\
  o_diam (snd (replay_dir g gt comp k radial ops LAll)) = 5 /\
  o_rad (snd (replay_dir g gt comp k radial ops LAll)) = Some 2.
Proof.
  intros g gt ck comp k dm radial all sd x1 piv x2 ops.
  assert (Hwf : wf_graph g = true) by reflexivity.
  destruct (WG.Algo.EssSccTarjanFacts.tarjan_scc_topo g Hwf) as [Hscc [_ Htopo]].
  fold ck comp k in Hscc, Htopo.
  assert (Hall : forall v, In v all <-> v < 7).
  { intros v. unfold all. cbn [In]. split; [intuition lia | intros Hv; do 7 (destruct v as [|v]; [tauto|]); lia]. }
  assert (Hf : forall s, s < 7 -> legal_op_dir g comp k (OFwd s [])) by (intros s Hs; exact Hs).
  assert (Hb : forall s, s < 7 -> legal_op_dir g comp k (OBwd s all))
    by (intros s Hs; split; [exact Hs | intros v Hv _; apply Hall; exact Hv]).
  assert (Hp : legal_op_dir g comp k (OAll piv all)).
  { split; [|exact Hall]. apply (WG.Algo.EssSccTarjanFacts.tarjan_pivots_legal g true _ x1 Hwf). }
  split; [exact Hwf|]. split; [vm_compute; reflexivity|]. split; [vm_compute; reflexivity|].
  split; [vm_compute; reflexivity|]. split; [exact Hscc|]. split; [exact Htopo|]. split.
  { unfold ops. repeat (apply Forall_cons; [first [exact Hp | apply Hf; lia | apply Hb; lia]|]). apply Forall_nil. }
  repeat split; vm_compute; reflexivity.
Qed.
(* ---- end C16b ---- *)

(* ---- visit links ---- *)
(** LINK C16 o C13: the model above reads breadth-first distances from [dist_matrix]; the
    Rust code reads them from the [Visit] events of [ParFairNoPred] visits.  The theorems
    below identify the two, through the C13 model of the visits (sequential, and parallel
    under EVERY schedule; unfiltered as in [step]/[sum_sweep], and filtered to the pivot's
    component as in [compute_dist_pivot_from_graph], whose distances [Algo/EssScc.v] reads
    from the matrix of the induced subgraph). *)
From WG Require Import Base.Prelude Visits.Bfs Visits.BfsStatements Algo.EssScc
  Links.VisitLinkStatements Links.VisitLinkBfsFacts.

Theorem C16_link_bfs_dist_seq : S_link_bfs_dist_seq.
Proof. exact link_bfs_dist_seq. Qed.
Print Assumptions C16_link_bfs_dist_seq.

Theorem C16_link_bfs_dist_par : S_link_bfs_dist_par.
Proof. exact link_bfs_dist_par. Qed.
Print Assumptions C16_link_bfs_dist_par.

Theorem C16_link_bfs_dist_filtered_seq : S_link_bfs_dist_filtered_seq.
Proof. exact link_bfs_dist_filtered_seq. Qed.
Print Assumptions C16_link_bfs_dist_filtered_seq.

Theorem C16_link_bfs_dist_filtered_par : S_link_bfs_dist_filtered_par.
Proof. exact link_bfs_dist_filtered_par. Qed.
Print Assumptions C16_link_bfs_dist_filtered_par.

(** non-vacuity: a graph with a cycle, a node at distance 3 and an unreachable node; the
    events of the sequential visit, the levels of a parallel visit under a reversing
    schedule, the row of the matrix; the same for the visit filtered to the component
    {0,1,2} and the matrix of the induced subgraph *)
Example C16_link_bfs_nonvacuous :
  let g := [[1;2];[2;3];[0];[3;4];[];[0]]%nat in
  let cp := [0;0;0;1;1;2]%nat in
  EssSpecM.wf_graph g = true
  /\ seq_visit_dists (gN g) BfsM.no_filter 0%N = [(0,0);(1,1);(2,1);(3,2);(4,3)]%N
  /\ map (map fst) (par_levels (gN g) BfsM.no_filter (fun _ l => rev l) [0%N] [])
     = [[0];[1;2];[3];[4]]%N
  /\ nth 0 (dist_matrix g) [] = [Some 0; Some 1; Some 1; Some 2; Some 3; None]%nat
  /\ seq_visit_dists (gN g) (comp_filter cp 0) 0%N = [(0,0);(1,1);(2,1)]%N
  /\ map (map fst) (par_levels (gN g) (comp_filter cp 0) (fun _ l => rev l) [0%N] [])
     = [[0];[1;2]]%N
  /\ nth 0 (dist_matrix (induced g cp)) [] = [Some 0; Some 1; Some 1; None; None; None]%nat
  /\ (forall v d : N, In (v, d) (seq_visit_dists (gN g) BfsM.no_filter 0%N) <->
        dget (dist_matrix g) 0 (N.to_nat v) = Some (N.to_nat d)).
Proof.
  cbv zeta. repeat (split; [vm_compute; reflexivity|]).
  apply (C16_link_bfs_dist_seq [[1;2];[2;3];[0];[3;4];[];[0]]%nat 0%nat); [reflexivity|].
  cbn [length]. lia.
Qed.
(* ---- visit links ---- *)
