(** C16 — ExactSumSweep returns exact eccentricities, diameter and radius.
    Statements and [Print Assumptions] only. *)
From Coq Require Import List Arith Bool Lia.
Import ListNotations.
From WG Require Import Algo.EssSpec Algo.EssStatements Algo.EssSpecFacts Algo.Ess
  Algo.EssMachineStatements Algo.EssFacts Algo.EssSymmStatements Algo.EssSymmFacts.

(** level-iteration BFS computes shortest-path distances; [None] exactly when unreachable *)
Theorem C16_bfs_dist : S_bfs_dist.
Proof. exact bfs_dist_correct. Qed.
Print Assumptions C16_bfs_dist.

(** the executable eccentricities are the documented reachability-restricted ones *)
Theorem C16_ecc_spec : S_ecc_spec.
Proof. exact ecc_spec. Qed.
Print Assumptions C16_ecc_spec.

(** the checker accepts exactly the outputs that are exact at the given level, with
    diametral / radial vertices attaining the values *)
Theorem C16_spec_checker_sound : S_spec_checker_sound.
Proof. exact spec_checker_sound. Qed.
Print Assumptions C16_spec_checker_sound.

(** the default radial set is the set of vertices reaching the chosen component *)
Theorem C16_radial_of_spec : S_radial_of_spec.
Proof. exact radial_of_spec. Qed.
Print Assumptions C16_radial_of_spec.

Theorem C16_scc_size_spec : S_scc_size_spec.
Proof. exact scc_size_spec. Qed.
Print Assumptions C16_scc_size_spec.

(** default radial vertices: the checker accepts exactly the outputs that are exact for the
    radial set of some largest strongly connected component *)
Theorem C16_default_checker_sound : S_default_checker_sound.
Proof. exact default_checker_sound. Qed.
Print Assumptions C16_default_checker_sound.

(** ---- the bound-refinement machine (directed variant) ---- *)

(** every breadth-first visit preserves lF <= ecc+ <= uF, lB <= ecc- <= uB, dL <= D (attained),
    R <= rU (attained once below n-1), for ANY pivot and any visiting order *)
Theorem C16_step_invariant : S_step_invariant.
Proof. exact step_invariant. Qed.
Print Assumptions C16_step_invariant.

Theorem C16_run_invariant : S_run_invariant.
Proof. exact run_invariant. Qed.
Print Assumptions C16_run_invariant.

(** when find_missing_nodes returns 0 for the level, the reported values are exact *)
Theorem C16_exit_exact : S_exit_exact.
Proof. exact exit_exact. Qed.
Print Assumptions C16_exit_exact.

(** ... and the radial vertex attains the radius unless the radius is the initial bound n-1 *)
Theorem C16_exit_radial_vertex : S_exit_radial_vertex.
Proof. exact exit_radial_vertex. Qed.
Print Assumptions C16_exit_radial_vertex.

(** any legal sequence of visits reaching the exit condition gives an accepted output *)
Theorem C16_machine_exact : S_machine_exact.
Proof. exact machine_exact. Qed.
Print Assumptions C16_machine_exact.

(** defect 1: the radial vertex is not set when the radius equals the initial bound *)
Theorem C16_radial_vertex_refuted : S_radial_vertex_refuted.
Proof. exact radial_vertex_refuted. Qed.
Print Assumptions C16_radial_vertex_refuted.

(** defect 2: run_symm can report too large a radius *)
Theorem C16_symm_radius_refuted : S_symm_radius_refuted.
Proof. exact symm_radius_refuted. Qed.
Print Assumptions C16_symm_radius_refuted.

(** replacing the upper bounds by better upper bounds (what all_cc_upper_bound must do)
    preserves the invariant; that the SCC-DAG values ARE upper bounds is not proved *)
Theorem C16_allcc_step_invariant_partial : S_tighten_step_invariant.
Proof. exact tighten_step_invariant. Qed.
Print Assumptions C16_allcc_step_invariant_partial.

(** ---- the symmetric variant (run_symm) ---- *)

(** distances of a symmetric graph are symmetric *)
Theorem C16_symm_dist : S_symm_dist.
Proof. exact symm_dist. Qed.
Print Assumptions C16_symm_dist.

(** every visit of run_symm preserves lF <= ecc <= uF, dL <= D (attained), R <= rU (attained
    once below n/2): everything except the clause broken by defect 2 *)
Theorem C16_symm_step_invariant : S_symm_step_invariant.
Proof. exact symm_step_invariant. Qed.
Print Assumptions C16_symm_step_invariant.

Theorem C16_symm_run_invariant : S_symm_run_invariant.
Proof. exact symm_run_invariant. Qed.
Print Assumptions C16_symm_run_invariant.

(** at the exit of run_symm the eccentricities and the diameter are exact and the radius is
    never under-estimated (it can be over-estimated: C16_symm_radius_refuted) *)
Theorem C16_symm_exit_exact_partial : S_symm_exit_exact.
Proof. exact symm_exit_exact. Qed.
Print Assumptions C16_symm_exit_exact_partial.

(** non-vacuity: the documentation's example graph, a legal run reaching the exit of level
    All, accepted by the checker *)
Example C16_nonvacuous :
  let g := [[1]; [2]; [3; 4]; [0]; []] in
  let radial := radial_of (dist_matrix g) 0 in
  let ops := [OFwd 2; OBwd 4 [4; 2; 1; 0; 3]; OFwd 3; OBwd 0 [0; 3; 2; 1]; OFwd 0; OFwd 1; OFwd 4;
              OBwd 1 [1; 0; 3; 2]; OBwd 2 [2; 1; 0; 3]; OBwd 3 [3; 2; 1; 0]] in
  wf_graph g = true /\ fst (replay false g radial ops LAll) = 0 /\
  check_ess g radial (snd (replay false g radial ops LAll)) LAll = true /\
  o_diam (snd (replay false g radial ops LAll)) = 4 /\ o_rad (snd (replay false g radial ops LAll)) = Some 3.
Proof. cbv zeta. repeat split; vm_compute; reflexivity. Qed.
