(** C16 — ExactSumSweep returns exact eccentricities, diameter and radius.
    Statements and [Print Assumptions] only. *)
From Coq Require Import List Arith Bool Lia.
Import ListNotations.
From WG Require Import Algo.EssSpec Algo.EssStatements Algo.EssSpecFacts.

(** level-iteration BFS computes shortest-path distances; [None] exactly when unreachable *)
Theorem C16_bfs_dist : S_bfs_dist.
Proof. exact bfs_dist_correct. Qed.
Print Assumptions C16_bfs_dist.

(** the executable eccentricities are the documented reachability-restricted ones *)
Theorem C16_ecc_spec : S_ecc_spec.
Proof. exact ecc_spec. Qed.
Print Assumptions C16_ecc_spec.

(** the checker accepts exactly the outputs that are exact at the given level, with
    diametral / radial vertices attaining the values *)
Theorem C16_spec_checker_sound : S_spec_checker_sound.
Proof. exact spec_checker_sound. Qed.
Print Assumptions C16_spec_checker_sound.

(** the default radial set is the set of vertices reaching the chosen component *)
Theorem C16_radial_of_spec : S_radial_of_spec.
Proof. exact radial_of_spec. Qed.
Print Assumptions C16_radial_of_spec.

Theorem C16_scc_size_spec : S_scc_size_spec.
Proof. exact scc_size_spec. Qed.
Print Assumptions C16_scc_size_spec.

(** default radial vertices: the checker accepts exactly the outputs that are exact for the
    radial set of some largest strongly connected component *)
Theorem C16_default_checker_sound : S_default_checker_sound.
Proof. exact default_checker_sound. Qed.
Print Assumptions C16_default_checker_sound.
