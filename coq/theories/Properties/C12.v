(** C12 — the properties file faithfully records how the graph was encoded.
    Statements and [Print Assumptions] only. *)
From Coq Require Import String.
From WG Require Import Base.Prelude Codes.Codes BV.Model BV.RefSel Flags.Props
  Flags.Statements Flags.PropsStr Flags.PropsFacts.
Local Open Scope N_scope.

(** what is written parses back exactly: node count, arc count, bit length, window, max
    ref count, min interval length, the five codes — all unbounded, both endiannesses *)
Theorem C12_roundtrip : S_props_roundtrip.
Proof. exact props_roundtrip. Qed.
Print Assumptions C12_roundtrip.

(** refused exactly when the format version cannot express the code combination *)
Theorem C12_refusal : S_props_refusal.
Proof. exact props_refusal. Qed.
Print Assumptions C12_refusal.

(** a text written for one endianness is rejected when read with the other *)
Theorem C12_endianness : S_props_endianness.
Proof. exact props_endianness. Qed.
Print Assumptions C12_endianness.

(** Java semantics of version-0 files (the model follows the repaired code) *)
Theorem C12_java : S_props_java.
Proof. exact props_java. Qed.
Print Assumptions C12_java.

(** the reading that ignored zetak for the default residual code is refuted: this is the
    defect repaired by the "fix: zetak ..." commit; the witness (zetak=5, no flags) is part
    of the correspondence run *)
Theorem C12_prefix_refuted : S_props_prefix_refuted.
Proof. exact props_prefix_refuted. Qed.
Print Assumptions C12_prefix_refuted.

(** non-vacuity: a version-0 text with a shared zeta parameter is written and read back *)
Example C12_nonvacuous :
  let f := mkFlags (mkCodes (Zeta 5) Unary Delta Gamma (Zeta 5)) 1 2 2 in
  let st := mkStats 100 2000 12345 in
  exists text, to_props false st f = Some text
               /\ parse_properties false text = Some (100, 2000, f).
Proof. cbv zeta. eexists. split; vm_compute; reflexivity. Qed.
