(** C12 — the properties file faithfully records how the graph was encoded.
    Statements and [Print Assumptions] only. *)
From Coq Require Import String.
From WG Require Import Base.Prelude Codes.Codes BV.Model BV.RefSel Flags.Props
  Flags.Statements Flags.PropsStr Flags.PropsFacts.
Local Open Scope N_scope.

(** what is written parses back exactly: node count, arc count, bit length, window, max
    ref count, min interval length, the five codes — all unbounded, both endiannesses *)
Theorem C12_roundtrip : S_props_roundtrip.
Proof. exact props_roundtrip. Qed.
Print Assumptions C12_roundtrip.

(** refused exactly when the format version cannot express the code combination *)
Theorem C12_refusal : S_props_refusal.
Proof. exact props_refusal. Qed.
Print Assumptions C12_refusal.

(** a text written for one endianness is rejected when read with the other *)
Theorem C12_endianness : S_props_endianness.
Proof. exact props_endianness. Qed.
Print Assumptions C12_endianness.

(** Java semantics of version-0 files (the model follows the repaired code) *)
Theorem C12_java : S_props_java.
Proof. exact props_java. Qed.
Print Assumptions C12_java.

(** the reading that ignored zetak for the default residual code is refuted: this is the
    defect repaired by the "fix: zetak ..." commit; the witness (zetak=5, no flags) is part
    of the correspondence run *)
Theorem C12_prefix_refuted : S_props_prefix_refuted.
Proof. exact props_prefix_refuted. Qed.
Print Assumptions C12_prefix_refuted.

(** non-vacuity: a version-0 text with a shared zeta parameter is written and read back *)
Example C12_nonvacuous :
  let f := mkFlags (mkCodes (Zeta 5) Unary Delta Gamma (Zeta 5)) 1 2 2 in
  let st := mkStats 100 2000 12345 in
  exists text, to_props false st f = Some text
               /\ parse_properties false text = Some (100, 2000, f).
Proof. cbv zeta. eexists. split; vm_compute; reflexivity. Qed.

(* ---- links ---- *)
(** C12 o C01/C03: a loader that knows only the TEXT of the properties file (as
    [BvGraphSeq::with_basename] / [BvGraph::with_basename] do) reconstructs the compressed
    graph from the encoder's stream, sequentially and by random access; the existence of the
    file implies the codes are decodable; the other endianness is refused. *)
From WG Require Import BV.Bits BV.BitsFacts BV.Access BV.AccessStatements
  Links.LoadLinkStatements Links.LoadLinkFacts.

Theorem C12_link_written_codes_ok : S_link_written_codes_ok.
Proof. exact link_written_codes_ok. Qed.
Print Assumptions C12_link_written_codes_ok.

Theorem C12_link_load_seq : S_link_load_seq.
Proof. exact link_load_seq. Qed.
Print Assumptions C12_link_load_seq.

Theorem C12_link_load_seq_greedy : S_link_load_seq_greedy.
Proof. exact link_load_seq_greedy. Qed.
Print Assumptions C12_link_load_seq_greedy.

Theorem C12_link_load_ra : S_link_load_ra.
Proof. exact link_load_ra. Qed.
Print Assumptions C12_link_load_ra.

Theorem C12_link_load_wrong_endianness : S_link_load_wrong_endianness.
Proof. exact link_load_wrong_endianness. Qed.
Print Assumptions C12_link_load_wrong_endianness.

(** non-vacuity: a little-endian text with non-default codes is written, and the graph is
    loaded back from the text and the greedy compressor's stream *)
Example C12_link_nonvacuous :
  let f := mkFlags (mkCodes Delta Gamma Delta Gamma (Zeta 2)) 3 2 2 in
  let g := [[1;2;3;4;5;9]; [1;2;3;4;5;10]; []; [0;1;2;3;4;5;6;7;20]] in
  let st := mkStats 4 21 0 in
  let p := params_of_flags f in
  exists text, to_props true st f = Some text /\ stats_for g st
    /\ load_seq true text
         (graph_bits true (fl_codes f) (encode_graph p 0 g (greedy_sel p (fl_codes f) 0 g))
          ++ [true; false])
       = Some (g, [true; false]).
Proof. cbv zeta. eexists. split; [vm_compute; reflexivity|]. split; [split; reflexivity|].
  vm_compute. reflexivity. Qed.
