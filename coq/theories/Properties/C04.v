(** C04 — parallel compression yields the input graph for every split and schedule.
    Statements and [Print Assumptions] only. *)
From WG Require Import Base.Prelude Codes.Codes BV.Model BV.RefSel BV.Statements BV.Bits
  BV.BitsFacts BV.SelStatements BV.GreedyFacts BV.ZuckFacts Par.Splice Par.SpliceFacts.
Local Open Scope N_scope.

(** the reorder queue hands out all jobs in id order, for every arrival permutation *)
Theorem C04_taskqueue_inorder : S_taskqueue_inorder.
Proof. exact taskqueue_inorder. Qed.
Print Assumptions C04_taskqueue_inorder.

(** for every legal cut sequence (repeated cutpoints, empty segments, more segments than
    nodes), every per-chunk valid selection and every completion order, the spliced bit
    stream, offset gaps, arc count and node count are those of the sequential encoding of
    the whole graph with the concatenated selections, which is valid *)
Theorem C04_splice_eq_seq : S_par_comp_eq_seq.
Proof. exact par_comp_eq_seq. Qed.
Print Assumptions C04_splice_eq_seq.

(** no reference crosses a cut *)
Theorem C04_chunk_refs_local : S_chunk_refs_local.
Proof. exact chunk_refs_local. Qed.
Print Assumptions C04_chunk_refs_local.

(** hence the result decodes to the input graph: both compressors, every chunking *)
Theorem C04_par_roundtrip :
  forall le cs p cuts g sels arrival rest,
  codes_ok cs = true -> Forall inc g ->
  legal_cuts cuts (nlen g) = true ->
  valid_sels p (segments cuts g) sels = true ->
  Permutation arrival (seq 0 (length cuts - 1)) ->
  exists bs lens,
    par_comp le cs p cuts g sels arrival = SpliceOk bs lens (nsum (map nlen g)) (nlen g)
    /\ decode_graph bits (rd_bits le cs) p (length g) (bs ++ rest) = Some (g, rest).
Proof.
  intros le cs p cuts g sels arrival rest Hok Hg Hcuts Hsels Hperm.
  destruct (par_comp_eq_seq le cs p cuts g sels arrival Hcuts Hsels Hperm) as [Heq Hvalid].
  eexists; eexists; split; [exact Heq|].
  apply graph_roundtrip_bits; assumption.
Qed.
Print Assumptions C04_par_roundtrip.

(** non-vacuity: a cut sequence with an empty inner segment and a trailing empty one *)
Example C04_nonvacuous :
  let p := mkParams 3 (Some 2) 0 in
  let cs := mkCodes Gamma Unary Gamma Gamma (Zeta 3) in
  let g := [[10;20;30;40;50;60]; [10;20;30;40;50;61]; [10;20;30;40;50;62]; [10;20;30;40;50;63]; [1]] in
  let cuts := [0;2;2;4;5;5] in
  let sels := map (fun '(c, s) => greedy_sel p cs c s) (combine cuts (segments cuts g)) in
  legal_cuts cuts (nlen g) = true /\ valid_sels p (segments cuts g) sels = true
  /\ Permutation [2;0;4;1;3]%nat (seq 0 (length cuts - 1)).
Proof.
  cbv zeta. split; [vm_compute; reflexivity|]. split; [vm_compute; reflexivity|].
  cbn [length Nat.sub seq].
  apply (perm_trans (l' := [0;2;4;1;3]%nat)); [apply perm_swap|].
  apply perm_skip.
  apply (perm_trans (l' := [2;1;4;3]%nat)); [apply perm_skip; apply perm_swap|].
  apply (perm_trans (l' := [1;2;4;3]%nat)); [apply perm_swap|].
  apply perm_skip. apply perm_skip. apply perm_swap.
Qed.

(* ---- links ---- *)
(** C12 o C04: the output of parallel compression, loaded by a reader that knows only the
    text of the properties file, is the input graph — every expressible flags record, both
    endiannesses, every legal cut sequence, per-chunk selection and completion order *)
From WG Require Import Flags.Props Links.LoadLinkStatements Links.LoadLinkFacts.
Theorem C04_link_load_par : S_link_load_par.
Proof. exact link_load_par. Qed.
Print Assumptions C04_link_load_par.

(** C10 o C04 o C12, the [--dcf] pipeline: the cutpoints [ParGraph::with_dcf] derives from
    the graph's own degree cumulative function are legal for every [k > 0] and every degree
    distribution, and the parallel compression over them loads back *)
From WG Require Import Split.Model.
Theorem C04_link_dcf_par_load : S_link_dcf_par_load.
Proof. exact link_dcf_par_load. Qed.
Print Assumptions C04_link_dcf_par_load.

(** non-vacuity: trailing sinks, three parts, greedy selections per chunk, a text written *)
Example C04_link_nonvacuous :
  let f := mkFlags (mkCodes Gamma Unary Gamma Gamma (Zeta 3)) 3 2 0 in
  let p := params_of_flags f in let cs := fl_codes f in
  let g := [[10;20;30;40;50;60]; [10;20;30;40;50;61]; [10;20;30;40;50;62]; [1]; []; []] in
  let cwf := dcf_of (scan g) in
  let cuts := dcf_cuts cwf (nlen g) (last cwf 0) 3 in
  let sels := map (fun '(c, s) => greedy_sel p cs c s) (combine cuts (segments cuts g)) in
  (exists text, to_props false (mkStats 6 19 0) f = Some text)
  /\ stats_for g (mkStats 6 19 0) /\ cuts = [0; 2; 4; 6]
  /\ valid_sels p (segments cuts g) sels = true.
Proof. cbv zeta. split; [eexists; vm_compute; reflexivity|].
  split; [split; reflexivity|]. split; vm_compute; reflexivity. Qed.
