(** C03 — all access paths to a compressed graph return the same successors.
    Statements and [Print Assumptions] only. *)
From WG Require Import Base.Prelude Codes.Codes BV.Model BV.RefSel BV.Statements BV.Bits
  BV.BitsFacts BV.SelStatements BV.GreedyFacts BV.Access BV.AccessStatements BV.AccessFacts
  BV.MaskedIter BV.MaskedIterStatements BV.MaskedIterFacts.
Local Open Scope N_scope.

(** random access (references resolved recursively through the offsets) returns the list
    of node [x], for every fuel above [x] *)
Theorem C03_ra_eq_seq : S_ra_eq_seq.
Proof. exact ra_eq_seq. Qed.
Print Assumptions C03_ra_eq_seq.

(** the lazy three-way merge of the copied / interval / residual streams ([Succ::next], the
    copied stream being the masked iterator over the referenced list) yields the same list *)
Theorem C03_ra_merge_eq : S_ra_merge_eq.
Proof. exact ra_merge_eq. Qed.
Print Assumptions C03_ra_merge_eq.

(** fuel above the reference-chain depth of the node suffices *)
Theorem C03_ra_fuel_depth : S_ra_fuel_depth.
Proof. exact ra_fuel_depth. Qed.
Print Assumptions C03_ra_fuel_depth.

(** hence at most [max_ref + 1] nested decodes when the selection respects [max_ref] *)
Theorem C03_ra_fuel : S_ra_fuel.
Proof. exact ra_fuel. Qed.
Print Assumptions C03_ra_fuel.

(** [outdegree x] is the length of the list *)
Theorem C03_outdegree_eq : S_outdegree_eq.
Proof. exact outdegree_eq. Qed.
Print Assumptions C03_outdegree_eq.

(** sequential iteration started at any [0 <= k <= n], ring pre-filled by random access *)
Theorem C03_iter_from_eq : S_iter_from_eq.
Proof. exact iter_from_eq. Qed.
Print Assumptions C03_iter_from_eq.

(** the same with the ring buffer as the code has it: [window + 1] slots indexed by
    [node mod (window + 1)], pre-filled in ascending node order, a slot replaced per node *)
Theorem C03_iter_from_ring_eq : S_iter_from_ring_eq.
Proof. exact iter_from_ring_eq. Qed.
Print Assumptions C03_iter_from_ring_eq.

(** pulling the successor slices one by one from the sequential decoder (the ring slot of
    the node is taken, cleared, refilled and put back) yields the graph *)
Theorem C03_next_successors_eq : S_next_successors_eq.
Proof. exact next_successors_eq. Qed.
Print Assumptions C03_next_successors_eq.

(** the sequential-only graph started at any node *)
Theorem C03_seq_iter_from_eq : S_seq_iter_from_eq.
Proof. exact seq_iter_from_eq. Qed.
Print Assumptions C03_seq_iter_from_eq.

(** the degrees-and-offsets scan: degrees = list lengths, positions = the offsets *)
Theorem C03_offdeg_eq : S_offdeg_eq.
Proof. exact offdeg_eq. Qed.
Print Assumptions C03_offdeg_eq.

(** ... started at any node with the degree ring pre-filled by [outdegree] *)
Theorem C03_offdeg_from_eq : S_offdeg_from_eq.
Proof. exact offdeg_from_eq. Qed.
Print Assumptions C03_offdeg_from_eq.

(** both scans with the degree ring as the code has it: [window] slots indexed by
    [node mod window], pre-filled in ascending node order, untouched when the window is 0 *)
Theorem C03_offdeg_ring_eq : S_offdeg_ring_eq.
Proof. exact offdeg_ring_eq. Qed.
Print Assumptions C03_offdeg_ring_eq.

Theorem C03_offdeg_from_ring_eq : S_offdeg_from_ring_eq.
Proof. exact offdeg_from_ring_eq. Qed.
Print Assumptions C03_offdeg_from_ring_eq.

(** [MaskedIter] at the level of its fields ([blocks], [block_idx], per-item decrements,
    [size]): on every block list that does not overrun the referenced list, has blocks
    >= 1 after the first and -- when the number of blocks is even -- leaves a non-empty
    tail, [new] + [next] until [None] never fails (no index out of bounds, no underflow, no
    debug assertion), yields exactly [mask true bs l], and [len()] is its length *)
Theorem C03_masked_iter_denotes : S_masked_iter_denotes.
Proof. exact masked_iter_denotes. Qed.
Print Assumptions C03_masked_iter_denotes.

(** the last condition is necessary: blocks [2;3] over a list of 5 items (accepted by the
    sequential decoder, [wf_record]) make [MaskedIter::next] index out of bounds *)
Theorem C03_masked_iter_needs_tail : S_masked_iter_needs_tail.
Proof. exact masked_iter_needs_tail. Qed.
Print Assumptions C03_masked_iter_needs_tail.

(** the compressor's copy blocks always satisfy the three conditions ... *)
Theorem C03_diff_blocks_ok : S_diff_blocks_ok.
Proof. exact diff_blocks_ok. Qed.
Print Assumptions C03_diff_blocks_ok.

(** ... hence no step of the masked iterator fails on what the compressor emits *)
Theorem C03_masked_iter_total : S_masked_iter_total.
Proof. exact masked_iter_total. Qed.
Print Assumptions C03_masked_iter_total.

(** [Succ::next] at the level of its fields (cached next nodes with [usize::MAX] as
    "exhausted", the interval cursor with the fake final interval, residual gaps read on
    demand, [size]) yields the list of the [merge3]-based model and never fails *)
Theorem C03_succ_iter_denotes : S_succ_iter_denotes.
Proof. exact succ_iter_denotes. Qed.
Print Assumptions C03_succ_iter_denotes.

(** end to end on the encoder's bit stream: random access through both state machines,
    nested along the reference chain, never fails and returns the list of the node *)
Theorem C03_ra_sm_eq : S_ra_sm_eq.
Proof. exact ra_sm_eq. Qed.
Print Assumptions C03_ra_sm_eq.

(** non-vacuity: a graph with copied blocks, intervals, residuals, an empty node and
    reference chains, encoded with the greedy selector (proved valid and depth-bounded, C06);
    every path of the model evaluated on the emitted bits *)
Example C03_nonvacuous :
  let p := mkParams 3 (Some 2) 2 in
  let cs := mkCodes Gamma Unary Gamma Gamma (Zeta 3) in
  let g := [[1;2;3;5;9]; [1;2;3;5;8]; []; [1;2;5;8;9;10;11]; [0;1;2;3]; [2;5;8]; [1;2;5;8;9;10;12]] in
  let sel := greedy_sel p cs 0 g in
  let s := enc_stream true cs p g sel [true; false; true] in
  let offs := enc_offs true cs p g sel in
  codes_ok cs = true /\ valid_sel p [] g sel = true /\ max_depth_ok (max_ref p) sel = true
  /\ sel = [0; 1; 0; 0; 0; 2; 3]
  /\ offs = [0; 26; 49; 50; 79; 98; 116; 143]
  /\ acc_ra true cs p offs s 6 = Some [1;2;5;8;9;10;12]
  /\ ra_labels bits (rd_bits true cs) (seek_bits offs s) p 1 6 = None
  /\ acc_iter_from true cs p offs s 5 = Some [[2;5;8]; [1;2;5;8;9;10;12]]
  /\ acc_iter_from_ring true cs p offs s 5 = Some [[2;5;8]; [1;2;5;8;9;10;12]]
  /\ acc_ra_merge true cs p offs s 3 = Some [1;2;5;8;9;10;11]
  /\ acc_next_successors true cs p 7 s = Some g
  /\ acc_offdeg_from true cs p offs s 4 = Some [(79, 4); (98, 3); (116, 7)]
  /\ acc_offdeg_from_ring true cs p offs s 4 = Some [(79, 4); (98, 3); (116, 7)].
Proof. vm_compute. repeat split; reflexivity. Qed.

(** the state machines on the same stream (node 6 copies from node 3 which copies nothing;
    node 1 copies from node 0), and on hand-made block lists: well-formed ones and the
    malformed ones that make the real iterator panic *)
Example C03_sm_nonvacuous :
  let p := mkParams 3 (Some 2) 2 in
  let cs := mkCodes Gamma Unary Gamma Gamma (Zeta 3) in
  let g := [[1;2;3;5;9]; [1;2;3;5;8]; []; [1;2;5;8;9;10;11]; [0;1;2;3]; [2;5;8]; [1;2;5;8;9;10;12]] in
  let sel := greedy_sel p cs 0 g in
  let s := enc_stream true cs p g sel [true; false; true] in
  let offs := enc_offs true cs p g sel in
  acc_ra_sm true true cs p offs s 6 = Some [1;2;5;8;9;10;12]
  /\ acc_ra_sm false true cs p offs s 1 = Some [1;2;3;5;8]
  /\ mi_ok [2;2;1] [1;2;3;4;5;6]
  /\ mi_collect true [1;2;3;4;5;6] [2;2;1] = MOk (3, [1;2;5])
  /\ mi_collect true [1;2;3;4;5;6] [0;2] = MOk (4, [3;4;5;6])
  /\ mi_collect true [1;2;3;4;5] [2;3] = MErr EIndex
  /\ mi_collect false [1;2;3;4;5] [2;3] = MErr EIndex
  /\ mi_collect true [] [] = MErr EIndex
  /\ mi_collect true [1;2] [3] = MErr EUnderflow
  /\ mi_collect true [1;2;3;4] [1;0;1] = MErr EAssert
  /\ mi_collect false [1;2;3;4] [1;0;1] = MOk (2, [1;2])
  /\ succ_collect true [10;20;30;40] (mkRecord 7 1 [1;1] [10;30;40] [(12,3)] [35])
     = MOk [10;12;13;14;30;35;40]
  /\ succ_collect true [] (mkRecord 9 0 [] [] [(12,3);(20,2)] [5;16;35]) = MErr EIndex.
Proof.
  vm_compute. repeat split; try reflexivity; try (intros; discriminate).
  repeat constructor; discriminate.
Qed.

(** a non-canonical but decodable stream (node 1 = the first two successors of node 0,
    written with the blocks [2;3] that reach the end of the referenced list instead of the
    compressor's [2]): every sequential path and the denotational random access return the
    lists, random access through the index-level [MaskedIter] fails ([blocks[2]] out of
    bounds when [Succ::next] pre-fetches the copied node after the last one) *)
Example C03_noncanonical_stream :
  let p := mkParams 3 (Some 2) 2 in
  let cs := mkCodes Gamma Unary Gamma Gamma (Zeta 3) in
  let recs := [ node_fields p 0 [1;2;3;4;5] 0 [];
                [(KOutdeg, 2); (KRef, 1); (KBlockCount, 2); (KBlock, 2); (KBlock, 2)] ] in
  let s := graph_bits true cs recs in
  let offs := prefix_sums 0 (node_bitlens true cs recs) in
  acc_iter_from true cs p offs s 0 = Some [[1;2;3;4;5]; [1;2]]
  /\ acc_next_successors true cs p 2 s = Some [[1;2;3;4;5]; [1;2]]
  /\ acc_ra true cs p offs s 1 = Some [1;2]
  /\ acc_ra_merge true cs p offs s 1 = Some [1;2]
  /\ acc_ra_sm true true cs p offs s 0 = Some [1;2;3;4;5]
  /\ acc_ra_sm true true cs p offs s 1 = None
  /\ acc_ra_sm false true cs p offs s 1 = None.
Proof. vm_compute. repeat split; reflexivity. Qed.
