(** C07 — labelled compression keeps every label attached to its arc.
    Statements and [Print Assumptions] only. *)
From WG Require Import Base.Prelude Codes.Codes BV.Model BV.RefSel BV.Statements BV.Bits
  BV.BitsFacts BV.SelStatements BV.GreedyFacts BV.ZuckFacts Par.Splice Par.SpliceFacts
  Par.LabelStore Par.LabelStatements Par.LabelStoreFacts.
Local Open Scope N_scope.

(** the label offsets written by the store: n+1 γ-coded entries (leading 0, then the bit
    length of each node's labels); their running sums delimit exactly each node's labels
    in the label stream and end at its length, which is the recorded [length] *)
Theorem C07_store_offsets : S_store_offsets.
Proof. exact store_offsets. Qed.
Print Assumptions C07_store_offsets.

(** the store state machine (driven by either compressor) writes the closed form *)
Theorem C07_store_closed : S_store_closed.
Proof. exact store_closed. Qed.
Print Assumptions C07_store_closed.

(** reading the store's files sequentially ([BitStreamLabelingSeq]) returns every node's
    labels in successor order: both serializers (fixed width 1.., γ), both endiannesses,
    any flush padding.  The store is driven the same way by both compressors. *)
Theorem C07_seq_roundtrip : S_seq_roundtrip.
Proof. exact seq_roundtrip. Qed.
Print Assumptions C07_seq_roundtrip.

(** random access by offsets ([BitStreamLabeling]) = the sequential read, for ANY label
    stream and offsets stream *)
Theorem C07_ra_eq_seq : S_ra_eq_seq.
Proof. exact ra_eq_seq. Qed.
Print Assumptions C07_ra_eq_seq.

(** parallel compression: for every legal cut sequence (empty chunks anywhere), every
    completion order and every padding of the part files, the concatenated label stream,
    label offsets stream and recorded length are those of the sequential store (and the
    graph side is the sequential encoding) *)
Theorem C07_concat_eq_seq : S_concat_eq_seq.
Proof. exact concat_eq_seq. Qed.
Print Assumptions C07_concat_eq_seq.

(** zipped read-back equals the input, sequential compression, both readers, every valid
    reference selection *)
Theorem C07_zip_roundtrip : S_zip_roundtrip_seq.
Proof. exact zip_roundtrip_seq. Qed.
Print Assumptions C07_zip_roundtrip.

(** zipped read-back equals the input, parallel compression, every cut sequence and
    completion order *)
Theorem C07_zip_roundtrip_par : S_zip_roundtrip_par.
Proof. exact zip_roundtrip_par. Qed.
Print Assumptions C07_zip_roundtrip_par.

(** both compressors: the greedy selection of [BvComp] and the Zuckerli-style selection
    of [BvCompZ] (every chunk size) are valid, hence covered *)
Theorem C07_zip_roundtrip_both_compressors :
  forall le cs p sr (lg : lgraph) k restg padl pado,
  codes_ok cs = true -> Forall inc (succs lg) ->
  ser_ok sr = true -> labels_valid sr lg = true ->
  forall sel, sel = greedy_sel p cs 0 (succs lg) \/ sel = zuck_sel p cs k 0 (succs lg) ->
  match comp_labeled le cs p sr lg sel with
  | (gbits, _, f) =>
    read_zip_seq le cs p sr (length lg) (gbits ++ restg) (f_lbits f ++ padl) (f_obits f ++ pado)
      = Some lg
    /\ read_zip_ra le cs p sr (length lg) (gbits ++ restg) (f_lbits f ++ padl) (f_obits f ++ pado)
      = Some lg
  end.
Proof.
  intros le cs p sr lg k restg padl pado Hcs Hinc Hok Hv sel [-> | ->];
    apply zip_roundtrip_seq; try assumption.
  - apply greedy_valid.
  - apply zuck_valid.
Qed.
Print Assumptions C07_zip_roundtrip_both_compressors.

(** non-vacuity: a labelled graph with empty nodes and a hub, 13-bit and γ labels, a cut
    sequence with an empty inner chunk and a trailing empty one, a non-identity completion
    order; and the concrete read-back *)
Example C07_nonvacuous :
  let p := mkParams 3 (Some 2) 0 in
  let cs := mkCodes Gamma Unary Gamma Gamma (Zeta 3) in
  let lg : lgraph := [[(1,5);(2,8191)]; []; [(0,7);(1,0);(2,4096);(3,1);(4,77)]; [(1,3);(2,2)]; []] in
  let cuts := [0;2;2;4;5;5] in
  let sels := map (fun '(c, s) => greedy_sel p cs c s) (combine cuts (segments cuts (succs lg))) in
  codes_ok cs = true /\ Forall inc (succs lg)
  /\ legal_cuts cuts (nlen lg) = true /\ valid_sels p (segments cuts (succs lg)) sels = true
  /\ Permutation [2;0;4;1;3]%nat (seq 0 (length cuts - 1))
  /\ ser_ok (FixedW 13) = true /\ labels_valid (FixedW 13) lg = true
  /\ ser_ok GammaL = true /\ labels_valid GammaL lg = true
  /\ (let f := lab_seq true (FixedW 13) lg in
      lab_read_seq true (FixedW 13) 5 (f_lbits f ++ [false; false; false]) (f_obits f ++ [false])
      = Some [[5;8191]; []; [7;0;4096;1;77]; [3;2]; []]
      /\ lab_ef 5 (f_obits f) = Some [0; 26; 26; 91; 117; 117]).
Proof.
  cbv zeta. split; [vm_compute; reflexivity|]. split.
  { repeat constructor; vm_compute; reflexivity. }
  split; [vm_compute; reflexivity|]. split; [vm_compute; reflexivity|]. split.
  { cbn [length Nat.sub seq].
    apply (perm_trans (l' := [0;2;4;1;3]%nat)); [apply perm_swap|].
    apply perm_skip.
    apply (perm_trans (l' := [2;1;4;3]%nat)); [apply perm_skip; apply perm_swap|].
    apply (perm_trans (l' := [1;2;4;3]%nat)); [apply perm_swap|].
    apply perm_skip. apply perm_skip. apply perm_swap. }
  repeat split; vm_compute; reflexivity.
Qed.
