(** C07 — labelled compression keeps every label attached to its arc.
    Statements and [Print Assumptions] only. *)
From WG Require Import Base.Prelude Codes.Codes BV.Model BV.RefSel BV.Statements BV.Bits
  BV.BitsFacts Par.Splice Par.SpliceFacts Par.LabelStore Par.LabelStatements Par.LabelStoreFacts.
Local Open Scope N_scope.
