(** C10 — every split of a graph for parallel work covers each node exactly once, in
    order.  Statements and [Print Assumptions] only. *)
From WG Require Import Base.Prelude Split.Model Split.Statements Split.SplitFacts Split.RangesFacts
  Split.ArcList Split.ArcListFacts.
Local Open Scope N_scope.

(** [split::seq::Iter] (after the repair of the missing advance to the first cutpoint):
    for every legal cut sequence, one part per pair of consecutive cutpoints, part [i] =
    positions [c_i, c_{i+1}) of the lender *)
Theorem C10_seq_parts : S_seq_parts.
Proof. exact seq_parts_ok. Qed.
Print Assumptions C10_seq_parts.

(** [split::ra::Iter] / [CsrSplitIter]: the same, given that [iter_from c] is the scan
    without its first [c] elements *)
Theorem C10_ra_parts : S_ra_parts.
Proof. exact ra_parts_ok. Qed.
Print Assumptions C10_ra_parts.

(** as many parts as the cutpoints imply *)
Theorem C10_num_parts : S_num_parts.
Proof. exact num_parts. Qed.
Print Assumptions C10_num_parts.

(** part [a, b) of a graph's scan: exactly the nodes a..b-1, in order, with their lists *)
Theorem C10_subg_nodes : S_subg_nodes.
Proof. exact subg_nodes. Qed.
Print Assumptions C10_subg_nodes.

(** the parts concatenated are the scan between the first and the last cutpoint *)
Theorem C10_slices_cover : S_slices_cover.
Proof. exact slices_cover. Qed.
Print Assumptions C10_slices_cover.

Theorem C10_slices_cover_all : S_slices_cover_all.
Proof. exact slices_cover_all. Qed.
Print Assumptions C10_slices_cover_all.

(** random-access and sequential representations *)
Theorem C10_ra_lab_ok : S_ra_lab_ok.
Proof. exact ra_lab_ok. Qed.
Print Assumptions C10_ra_lab_ok.

Theorem C10_seq_lab_ok : S_seq_lab_ok.
Proof. exact seq_lab_ok. Qed.
Print Assumptions C10_seq_lab_ok.

(** projections and unit labels *)
Theorem C10_elementwise_ok : S_elementwise_ok.
Proof. exact elementwise_ok. Qed.
Print Assumptions C10_elementwise_ok.

(** permuted and loop-free views *)
Theorem C10_seqwrap_ok : S_seqwrap_ok.
Proof. exact seqwrap_ok. Qed.
Print Assumptions C10_seqwrap_ok.

Theorem C10_par_ok : S_par_ok.
Proof. exact par_ok. Qed.
Print Assumptions C10_par_ok.

(** union of two graphs of any two sizes (after the repair of the unclamped cutpoints) *)
Theorem C10_union_parts : S_union_ok.
Proof. exact union_ok. Qed.
Print Assumptions C10_union_parts.

(** every nesting of wrappers over every representation *)
Theorem C10_all_compositions : S_all_compositions.
Proof. exact all_compositions. Qed.
Print Assumptions C10_all_compositions.

Theorem C10_split_exact : S_split_exact.
Proof. exact split_exact. Qed.
Print Assumptions C10_split_exact.

(** uniform cutpoints are legal: k+1 of them, non-decreasing, from 0 to n *)
Theorem C10_uniform_cuts_legal : S_uniform_cuts_legal.
Proof. exact uniform_cuts_legal. Qed.
Print Assumptions C10_uniform_cuts_legal.

(** [into_par_lenders]: lenders match the separately computed boundaries *)
Theorem C10_boundaries_match_lenders : S_boundaries_match_uniform.
Proof. exact boundaries_match_uniform. Qed.
Print Assumptions C10_boundaries_match_lenders.

Theorem C10_boundaries_match_cutpoints : S_boundaries_match_cutpoints.
Proof. exact boundaries_match_cutpoints. Qed.
Print Assumptions C10_boundaries_match_cutpoints.

(** the checker used by the oracle on recorded ranges is the chain property, and chained
    ranges enumerate [a, b) exactly once, in order *)
Theorem C10_chainb_spec : S_chainb_spec.
Proof. exact chainb_spec. Qed.
Print Assumptions C10_chainb_spec.

Theorem C10_chain_cover : S_chain_cover.
Proof. exact chain_cover. Qed.
Print Assumptions C10_chain_cover.

(** [par_node_apply]: ranges partition [0, n) for every positive granularity *)
Theorem C10_node_ranges_partition : S_node_ranges_partition.
Proof. exact node_ranges_partition. Qed.
Print Assumptions C10_node_ranges_partition.

(** [par_apply]: FairChunks partition [0, n) for every positive arc granularity and every
    degree distribution *)
Theorem C10_fair_chunks_partition : S_fair_chunks_partition.
Proof. exact fair_chunks_partition. Qed.
Print Assumptions C10_fair_chunks_partition.

(** [ParGraph::with_dcf]: legal cutpoints from 0 to n; [0; n] without arcs (after the
    repair of the single-cutpoint result) *)
Theorem C10_dcf_cuts_legal : S_dcf_cuts_legal.
Proof. exact dcf_cuts_legal. Qed.
Print Assumptions C10_dcf_cuts_legal.

Theorem C10_dcf_of_ok : S_dcf_of_ok.
Proof. exact dcf_of_ok. Qed.
Print Assumptions C10_dcf_of_ok.

(** the cursor of [ArcListGraph] / [ParSortedGraph] lenders over arcs sorted by source:
    skipping k nodes, cloning and reading m nodes gives nodes [k, k+m) of the denoted graph *)
Theorem C10_arclist_lender : S_arclist_lender.
Proof. exact arclist_lender. Qed.
Print Assumptions C10_arclist_lender.

Example C10_nonvacuous_arclist :
  let arcs := [(0, 1); (0, 2); (1, 0); (3, 1); (3, 3)] in
  nondec (map fst arcs) = true
  /\ (match al_skip 1 4 (mkAl 0 arcs) with Some st => al_collect 3 4 st | None => [] end)
     = [(1, [0]); (2, []); (3, [1; 3])].
Proof. cbv zeta. split; vm_compute; reflexivity. Qed.

(** non-vacuity: a loop-free view of a union of a 3-node and a 6-node graph, inside a
    permuted view, cut with a first cut > 0, a repeated cutpoint and a last cut < n *)
Example C10_nonvacuous_split :
  let e := GPermuted [5;4;3;2;1;0]
             (GNoLoops (GUnion (GRa [[0;1];[2];[1;2]]) (GSeq [[1];[1;5];[];[3;4];[0];[5]]))) in
  let cuts := [1;3;3;5] in
  cuts_ok cuts (lb_n (denote e)) = true
  /\ lb_split (denote e) cuts
     = Parts [[(4, [3; 0]); (3, [4])]; []; [(2, [1]); (1, [5])]].
Proof. cbv zeta. split; vm_compute; reflexivity. Qed.

(** non-vacuity: more parts than nodes, and the two repaired witnesses *)
Example C10_nonvacuous_more_parts :
  cuts_ok (uniform_cuts 2 5) 2 = true
  /\ split_iter (ra_lab [[1];[0]]) 5 = Parts [[(0, [1])]; [(1, [0])]; []; []; []].
Proof. split; vm_compute; reflexivity. Qed.

Example C10_repaired_witnesses :
  lb_split (seq_lab [[1];[2];[3];[4];[0]]) [2;4] = Parts [[(2, [3]); (3, [4])]]
  /\ split_iter (union_lab (ra_lab [[1];[2];[0]]) (ra_lab [[];[];[];[4];[5];[3]])) 3
     = Parts [[(0, [1]); (1, [2])]; [(2, [0]); (3, [4])]; [(4, [5]); (5, [3])]]
  /\ dcf_cuts (dcf_of (scan [[];[];[];[]] : lender N)) 4 0 2 = [0; 4].
Proof. repeat split; vm_compute; reflexivity. Qed.

(** non-vacuity: hub-heavy degree sequence *)
Example C10_nonvacuous_fair_chunks :
  let cwf := cumul 0 [0; 9; 0; 0; 1; 7; 0] in
  cwf_ok cwf = true
  /\ fair_chunks_new 4 cwf = [(0, 2); (2, 6); (6, 7)]
  /\ dcf_cuts cwf 7 17 3 = [0; 2; 6; 7]
  /\ node_ranges 7 3 = [(0, 3); (3, 6); (6, 7)].
Proof. cbv zeta. repeat split; vm_compute; reflexivity. Qed.

(* ---- links ---- *)
(** LINK C10 o C03/C01: the labeling contract [lab_ok], which the theorems above assume of
    the representation being split, holds of the BvGraph / BvGraphSeq access models (C03)
    run on the encoder's bit stream (C01) -- for every strictly increasing graph, valid
    reference selection, code assignment, endianness and padding. *)
From WG Require Import Codes.Codes BV.Model BV.RefSel BV.Bits BV.BitsFacts BV.GreedyFacts
  BV.Access BV.AccessStatements Links.SplitLinkStatements Links.SplitLinkFacts.

(** [BvGraph] ([iter_from] = ring decoder through the offsets, [split_iter_at] =
    [split::ra::Iter]) satisfies the contract and its scan is [scan g] *)
Theorem C10_link_bvgraph_lab_ok : S_link_bvgraph_lab_ok.
Proof. exact link_bvgraph_lab_ok. Qed.
Print Assumptions C10_link_bvgraph_lab_ok.

(** the same with the window modelled as a list *)
Theorem C10_link_bvgraph_list_lab_ok : S_link_bvgraph_list_lab_ok.
Proof. exact link_bvgraph_list_lab_ok. Qed.
Print Assumptions C10_link_bvgraph_list_lab_ok.

(** [BvGraphSeq] ([iter_from] = decode and discard, [split_iter_at] = [split::seq::Iter] over
    the slot-recycling [iter()]) *)
Theorem C10_link_bvgraphseq_lab_ok : S_link_bvgraphseq_lab_ok.
Proof. exact link_bvgraphseq_lab_ok. Qed.
Print Assumptions C10_link_bvgraphseq_lab_ok.

(** for every legal cut sequence the parts of the split of the COMPRESSED graph are the
    slices [c_i, c_{i+1}) of [scan g] *)
Theorem C10_link_bvgraph_parts : S_link_bvgraph_parts.
Proof. exact link_bvgraph_parts. Qed.
Print Assumptions C10_link_bvgraph_parts.

(** on the domain of the contract the compressed graphs ARE the leaves [GRa g] / [GSeq g] *)
Theorem C10_link_bvgraph_is_leaf : S_link_bvgraph_is_leaf.
Proof. exact link_bvgraph_is_leaf. Qed.
Print Assumptions C10_link_bvgraph_is_leaf.

(** and the wrapper theorems apply to them verbatim *)
Theorem C10_link_bvgraph_wrapped : S_link_bvgraph_wrapped.
Proof. exact link_bvgraph_wrapped. Qed.
Print Assumptions C10_link_bvgraph_wrapped.

(** non-vacuity: the graph of [C03_nonvacuous] (copied blocks, intervals, residuals, an
    empty node, reference chains), greedy selection, padding; cut with a first cut > 0, a
    repeated cutpoint and a last cut < n; both representations evaluated on the bits *)
Example C10_link_nonvacuous :
  let p := mkParams 3 (Some 2) 2 in
  let cs := mkCodes Gamma Unary Gamma Gamma (Zeta 3) in
  let g := [[1;2;3;5;9]; [1;2;3;5;8]; []; [1;2;5;8;9;10;11]; [0;1;2;3]; [2;5;8]; [1;2;5;8;9;10;12]] in
  let sel := greedy_sel p cs 0 g in
  let s := enc_stream true cs p g sel [true; false; true] in
  let offs := enc_offs true cs p g sel in
  let parts := [[(1, [1;2;3;5;8]); (2, [])]; [];
                [(3, [1;2;5;8;9;10;11]); (4, [0;1;2;3]); (5, [2;5;8])]] in
  enc_ok cs p g sel /\ cuts_ok [1;3;3;6] (nlen g) = true
  /\ lb_split (bvgraph_lab true cs p (nlen g) offs s) [1;3;3;6] = Parts parts
  /\ lb_split (bvgraphseq_lab true cs p (length g) s) [1;3;3;6] = Parts parts
  /\ lb_from (bvgraph_lab true cs p (nlen g) offs s) 5 = [(5, [2;5;8]); (6, [1;2;5;8;9;10;12])]
  /\ lb_split (bvgraph_lab true cs p (nlen g) offs s) [0;8] = Panic BeyondEnd.
Proof.
  cbv zeta. split.
  - split; [vm_compute; reflexivity|]. split; [|vm_compute; reflexivity].
    repeat constructor.
  - repeat split; vm_compute; reflexivity.
Qed.
(* ---- links ---- *)
