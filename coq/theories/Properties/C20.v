(** C20 — CLI pipelines preserve the graph they convert.  Statements and
    [Print Assumptions] only.  The CLI commands are compositions of library operations
    whose theorems are C01/C04/C05/C12; this file states the compositions used by the
    recompression, endianness-inversion and index-building commands. *)
From Coq Require Import String.
From WG Require Import Transform.Pipelines Transform.Statements Transform.RunFacts.
From WG Require Import Base.Prelude Codes.Codes BV.Model BV.RefSel BV.Statements BV.Bits
  BV.BitsFacts BV.OffsetsStatements BV.OffsetsFacts BV.SelStatements BV.GreedyFacts
  BV.ZuckFacts Par.Splice Par.SpliceFacts Flags.Props Flags.Statements Flags.PropsFacts.
Local Open Scope N_scope.

(** recompression ([to bvgraph], and the compression step of [from arcs] and
    [transform *]): decoding with configuration A and re-encoding with ANY configuration
    B, selection and chunking, in parallel with any completion order, gives a stream that
    decodes to the same graph, with the right arc and node counts *)
Theorem C20_recompress :
  forall leA csA pA selA leB csB pB cuts sels arrival g restA restB,
  codes_ok csA = true -> codes_ok csB = true -> Forall inc g ->
  valid_sel pA [] g selA = true ->
  legal_cuts cuts (nlen g) = true ->
  valid_sels pB (segments cuts g) sels = true ->
  Permutation arrival (seq 0 (length cuts - 1)) ->
  exists g' bs lens,
    decode_graph bits (rd_bits leA csA) pA (length g)
      (graph_bits leA csA (encode_graph pA 0 g selA) ++ restA) = Some (g', restA)
    /\ par_comp leB csB pB cuts g' sels arrival = SpliceOk bs lens (nsum (map nlen g)) (nlen g)
    /\ decode_graph bits (rd_bits leB csB) pB (length g) (bs ++ restB) = Some (g, restB).
Proof.
  intros leA csA pA selA leB csB pB cuts sels arrival g restA restB
         HokA HokB Hg HselA Hcuts Hsels Hperm.
  exists g.
  destruct (par_comp_eq_seq leB csB pB cuts g sels arrival Hcuts Hsels Hperm) as [Heq Hvalid].
  eexists; eexists. split; [apply graph_roundtrip_bits; assumption|].
  split; [exact Heq|]. apply graph_roundtrip_bits; assumption.
Qed.
Print Assumptions C20_recompress.

(** endianness inversion: the same fields written in the other bit order decode to the same
    graph, and the record positions of the new stream are the prefix sums of ITS record
    lengths (the offsets [to endianness] must write) *)
Theorem C20_endianness :
  forall le cs p g sel rest,
  codes_ok cs = true -> Forall inc g -> valid_sel p [] g sel = true ->
  let recs := encode_graph p 0 g sel in
  decode_graph bits (rd_bits (negb le) cs) p (length g)
    (graph_bits (negb le) cs recs ++ rest) = Some (g, rest)
  /\ exists rs,
      decode_records bits (rd_bits (negb le) cs)
        (fun t => nlen (graph_bits (negb le) cs recs ++ rest) - nlen t) p (length g) 0 []
        (graph_bits (negb le) cs recs ++ rest) = Some (rs, rest)
      /\ map snd rs = firstn (length g) (prefix_sums 0 (node_bitlens (negb le) cs recs)).
Proof.
  intros le cs p g sel rest Hok Hg Hsel recs. split.
  - apply graph_roundtrip_bits; assumption.
  - destruct (offsets_positions (negb le) cs p g sel rest Hok Hg Hsel) as [rs [H1 [H2 H3]]].
    exists rs. split; assumption.
Qed.
Print Assumptions C20_endianness.

(** the properties written by every graph-emitting command parse back to the configuration
    and counts *)
Theorem C20_properties : S_props_roundtrip.
Proof. exact props_roundtrip. Qed.
Print Assumptions C20_properties.

(** the offsets written next to the graph read back as the record lengths *)
Theorem C20_offsets_file : S_offsets_file.
Proof. exact offsets_file. Qed.
Print Assumptions C20_offsets_file.

(** the transform commands ([transform transpose | symmetrize | perm | map], and [to bvgraph
    --permutation]): the transformation pipeline, sequential or parallel, with any sorter
    meeting the C08 contract, any partition count, cut sequence and arrival order, yields
    exactly the specification graph [xop_spec op g] (which is what the correspondence run
    recomputes as the expected content of the produced file set); compressing that graph
    is [C20_recompress] *)
Theorem C20_transforms : S_run_xop.
Proof. exact run_xop_correct. Qed.
Print Assumptions C20_transforms.

(* ---- links ---- *)
(** C20 o C12 o C04: [to bvgraph] at file level — the source configuration is known only
    through its properties text, the target's reader sees only the target's text and the
    spliced stream, and obtains the same graph *)
From WG Require Import Links.LoadLinkStatements Links.LoadLinkFacts.
Theorem C20_link_recompress_files : S_link_recompress_files.
Proof. exact link_recompress_files. Qed.
Print Assumptions C20_link_recompress_files.
