(** C02 — emitted bitstreams conform to the documented BV format (independent decoder).
    Statements and [Print Assumptions] only.

    The independent decoder is [parse_record] + [record_succ] (BV/Model.v): it parses a
    record into outdegree, reference, copy blocks, intervals and residuals applying the
    documented inverse transformations and defines the successor list as the sorted union
    of the three parts.  It is the function the correspondence check runs (extracted) on
    the real bytes of every artefact and of the bundled Java-written data sets. *)
From WG Require Import Base.Prelude Codes.Codes BV.Model BV.RefSel BV.Statements BV.Bits
  BV.BitsFacts BV.WfStatements BV.WfFacts BV.SelStatements BV.GreedyFacts BV.ZuckFacts.
Local Open Scope N_scope.

(** the independent decoder inverts the encoder on every stream it can emit *)
Theorem C02_spec_roundtrip : S_graph_roundtrip_bits.
Proof. exact graph_roundtrip_bits. Qed.
Print Assumptions C02_spec_roundtrip.

(** every emitted record respects the structural rules *)
Theorem C02_records_wf : S_records_wf.
Proof. exact records_wf. Qed.
Print Assumptions C02_records_wf.

(** both compressors only produce such streams *)
Theorem C02_greedy_valid : S_greedy_valid.
Proof. exact greedy_valid. Qed.
Print Assumptions C02_greedy_valid.

Theorem C02_zuck_valid : S_zuck_valid.
Proof. exact zuck_valid. Qed.
Print Assumptions C02_zuck_valid.
