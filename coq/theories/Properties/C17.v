(** C17 — layered label propagation always yields a valid, refinement-consistent ordering.
    Statements and [Print Assumptions] only. *)
From WG Require Import Base.Prelude Algo.Llp Algo.LlpStatements Algo.LlpFacts.
Local Open Scope N_scope.

(** every sequence that is a permutation of the node identifiers and sorted by the
    comparator of [combine] / [labels_to_ranks] is the one the model computes: the result
    does not depend on the (parallel, unstable) sorting algorithm *)
Theorem C17_sort_unique : S_sort_unique.
Proof. exact sort_unique. Qed.
Print Assumptions C17_sort_unique.

(** both comparators end with the node identifier (hypothesis of [S_sort_unique]) *)
Example C17_keys_end_with_id :
  forall result labels a, key_id (ckey result labels a) = a /\ key_id (rkey labels a) = a.
Proof. intros. split; reflexivity. Qed.

(** [combine]: two nodes get the same new label iff they had the same result label and the
    same label in the combined labeling *)
Theorem C17_combine_refinement : S_combine_refinement.
Proof. exact combine_refinement. Qed.
Print Assumptions C17_combine_refinement.

(** [combine]: the new labels are exactly [0, k), k the returned number of labels *)
Theorem C17_combine_dense : S_combine_dense.
Proof. exact combine_dense. Qed.
Print Assumptions C17_combine_dense.

(** [combine_labels]: the classes of the result are the common refinement of the classes of
    all stored labelings (whatever their costs and directory order), and the labels are dense *)
Theorem C17_combine_labels_refinement : S_combine_labels_refinement.
Proof. exact combine_labels_refinement. Qed.
Print Assumptions C17_combine_labels_refinement.

(** [combine_labels] succeeds on every non-empty family of labelings by node identifiers *)
Theorem C17_combine_labels_total : S_combine_labels_total.
Proof. exact combine_labels_total. Qed.
Print Assumptions C17_combine_labels_total.

(** [invert_permutation]: for every order of the parallel writes the result is the inverse
    permutation; inverting twice gives the permutation back *)
Theorem C17_invert_perm : S_invert_perm.
Proof. exact invert_perm. Qed.
Print Assumptions C17_invert_perm.

(** [labels_to_ranks] yields a permutation of [0, n) for arbitrary labels *)
Theorem C17_ranks_perm : S_ranks_perm.
Proof. exact ranks_perm. Qed.
Print Assumptions C17_ranks_perm.

(** ranks are increasing in the label, ties broken by node identifier *)
Theorem C17_ranks_monotone : S_ranks_monotone.
Proof. exact ranks_monotone. Qed.
Print Assumptions C17_ranks_monotone.

(** permuting a graph by a permutation: the arcs of the result are exactly the images of the
    arcs of the input *)
Theorem C17_permuted_isomorphic : S_permuted_isomorphic.
Proof. exact permuted_isomorphic. Qed.
Print Assumptions C17_permuted_isomorphic.

(** end to end: permuting by the ranks of ARBITRARY labels gives an isomorphic graph *)
Theorem C17_llp_order_isomorphic : S_llp_order_isomorphic.
Proof. exact llp_order_isomorphic. Qed.
Print Assumptions C17_llp_order_isomorphic.

(** the update rule keeps every label a node identifier, for every schedule and every
    staleness of the reads *)
Theorem C17_labels_are_nodes : S_labels_are_nodes.
Proof. exact labels_are_nodes. Qed.
Print Assumptions C17_labels_are_nodes.

(** and the volume of a label is the number of nodes carrying it *)
Theorem C17_volumes_count : S_volumes_count.
Proof. exact volumes_count. Qed.
Print Assumptions C17_volumes_count.

(** the checkers applied to the implementation's output decide what their names say *)
Theorem C17_check_lt : S_check_lt.
Proof. exact check_lt_spec. Qed.
Print Assumptions C17_check_lt.

Theorem C17_check_perm : S_check_perm.
Proof. exact check_perm_spec. Qed.
Print Assumptions C17_check_perm.

Theorem C17_check_dense : S_check_dense.
Proof. exact check_dense_spec. Qed.
Print Assumptions C17_check_dense.

Theorem C17_check_refinement : S_check_refinement.
Proof. exact check_refinement_spec. Qed.
Print Assumptions C17_check_refinement.

Theorem C17_check_monotone : S_check_monotone.
Proof. exact check_monotone_spec. Qed.
Print Assumptions C17_check_monotone.

Theorem C17_check_inverse : S_check_inverse.
Proof. exact check_inverse_spec. Qed.
Print Assumptions C17_check_inverse.

Theorem C17_check_iso : S_check_iso.
Proof. exact check_iso_spec. Qed.
Print Assumptions C17_check_iso.

(** non-vacuity: concrete instances *)
Example C17_combine_example :
  llp_combine [5; 5; 2; 2; 7] [1; 2; 1; 2; 2] = ([4; 1; 3; 0; 2], 5) /\
  llp_combine [0; 0; 1; 1; 2] [3; 3; 3; 0; 0] = ([2; 2; 3; 0; 1], 4) /\
  llp_combine [4; 4; 4] [1; 1; 1] = ([0; 0; 0], 1).
Proof. vm_compute. auto. Qed.

(** three stored labelings, two with the same cost, one of them not dense: the combination
    succeeds, and the hypotheses of [S_combine_labels_total] hold *)
Example C17_combine_labels_example :
  let fam := [(3%Z, [0; 0; 2; 2; 4]); (1%Z, [1; 1; 1; 4; 4]); (3%Z, [4; 4; 4; 4; 4])] in
  llp_combine_labels fam = Some [0; 0; 1; 2; 3] /\
  (forall g, In g fam -> length (snd g) = 5%nat /\ Forall (fun l => l < 5) (snd g)).
Proof.
  cbv zeta. split; [vm_compute; reflexivity|].
  intros g [<-|[<-|[<-|[]]]]; (split; [reflexivity|]); repeat constructor.
Qed.

(** malformed families are refused *)
Example C17_combine_labels_refusals :
  llp_combine_labels [] = None /\
  llp_combine_labels [(0%Z, [])] = None /\
  llp_combine_labels [(0%Z, [0; 1]); (1%Z, [0; 1; 2])] = None /\
  llp_combine_labels [(0%Z, [0; 7])] = None.
Proof. vm_compute. auto. Qed.

Example C17_ranks_example :
  labels_to_ranks [3; 1; 3; 0; 1] = [3; 1; 4; 0; 2] /\
  is_perm [3; 1; 4; 0; 2] /\
  invert_permutation [3; 1; 4; 0; 2] = [3; 1; 4; 0; 2] /\
  invert_permutation [2; 0; 1; 3] = [1; 2; 0; 3].
Proof.
  split; [vm_compute; reflexivity|]. split; [apply C17_check_perm; vm_compute; reflexivity|].
  vm_compute. auto.
Qed.

(** a path 0 - 1 - 2 permuted by a cyclic shift *)
Example C17_permute_example :
  is_perm [2; 0; 1] /\ graph_ok [[1]; [0; 2]; [1]] /\
  permute_graph [2; 0; 1] [[1]; [0; 2]; [1]] = [[1; 2]; [0]; [0]].
Proof.
  split; [apply C17_check_perm; vm_compute; reflexivity|].
  split; [|vm_compute; reflexivity]. unfold graph_ok, nlen. cbn [length].
  repeat constructor.
Qed.

(** a schedule on the path 0 - 1 - 2 in which the last step reads a label two updates old
    (node 1 takes the label 0 that node 0 no longer carries) *)
Example C17_update_example :
  lp_final [[1]; [0; 2]; [1]] [(0, 1, 0%nat); (2, 1, 0%nat); (1, 0, 2%nat)]
  = mkLp [1; 0; 1] [1; 2; 0].
Proof. vm_compute. reflexivity. Qed.

(* ---- big checkers ---- *)
(** The oracles of the large-n probe (channel "llpbig": [invert_permutation] and
    [labels_to_ranks] on 99 999 .. 250 003 elements, around and above the minimum task
    length of the parallel loops).  [big_check_inverse] and [big_check_ranks]
    (Algo/BigCheck.v) run in O(n log n) on lists - a merge sort of (key, payload) pairs and
    linear scans - and decide exactly what [check_perm] / [check_inverse] /
    [check_monotone] decide (quadratic: unusable at that size). *)
From WG Require Import Algo.BigCheck Algo.BigCheckStatements Algo.BigCheckFacts.

(** the merge sort all three checkers rest on: a permutation of the input, sorted by key *)
Theorem C17_big_ksort_correct : S_ksort_correct.
Proof. exact ksort_correct. Qed.
Print Assumptions C17_big_ksort_correct.

(** [big_check_inverse p q] = [check_perm p && check_inverse p q] *)
Theorem C17_big_inverse_spec : S_big_inverse_spec.
Proof. exact big_inverse_spec. Qed.
Print Assumptions C17_big_inverse_spec.

(** ... iff [p] is a permutation of 0..n-1 and [q], of the same length, a left inverse *)
Theorem C17_big_inverse_prop : S_big_inverse_prop.
Proof. exact big_inverse_prop. Qed.
Print Assumptions C17_big_inverse_prop.

(** ... iff [p] is a permutation and [q] is what the model of [invert_permutation] returns *)
Theorem C17_big_inverse_model : S_big_inverse_model.
Proof. exact big_inverse_model. Qed.
Print Assumptions C17_big_inverse_model.

(** [big_check_ranks labels ranks] = same length && [check_perm ranks] &&
    [check_monotone labels ranks] *)
Theorem C17_big_ranks_spec : S_big_ranks_spec.
Proof. exact big_ranks_spec. Qed.
Print Assumptions C17_big_ranks_spec.

(** ... iff [ranks] is a permutation of 0..n-1, increasing in the label, ties broken by node
    identifier (the conclusions of [C17_ranks_perm] and [C17_ranks_monotone]) *)
Theorem C17_big_ranks_prop : S_big_ranks_prop.
Proof. exact big_ranks_prop. Qed.
Print Assumptions C17_big_ranks_prop.

(** the checker accepts what the model of [labels_to_ranks] returns, for arbitrary labels *)
Theorem C17_big_ranks_model : S_big_ranks_model.
Proof. exact big_ranks_model. Qed.
Print Assumptions C17_big_ranks_model.

(** non-vacuity: the inverse of [C17_ranks_example] is accepted; a wrong inverse, a
    non-permutation and a short inverse are refused *)
Example C17_big_inverse_example :
  big_check_inverse [2; 0; 1; 3] [1; 2; 0; 3] = true /\
  big_check_inverse [2; 0; 1; 3] [1; 2; 3; 0] = false /\
  big_check_inverse [2; 0; 1; 2] [1; 2; 0; 3] = false /\
  big_check_inverse [2; 0; 1; 3] [1; 2; 0] = false.
Proof. vm_compute. repeat split; reflexivity. Qed.

(** the ranks of [C17_ranks_example] are accepted; ranks that are not monotone, ranks that
    break a tie between equal labels against the node order (an unstable sort), a
    non-permutation and a short array are refused *)
Example C17_big_ranks_example :
  big_check_ranks [3; 1; 3; 0; 1] [3; 1; 4; 0; 2] = true /\
  big_check_ranks [3; 1; 3; 0; 1] [3; 1; 2; 0; 4] = false /\
  big_check_ranks [3; 1; 3; 0; 1] [3; 2; 4; 0; 1] = false /\
  big_check_ranks [3; 1; 3; 0; 1] [3; 1; 3; 0; 2] = false /\
  big_check_ranks [3; 1; 3; 0; 1] [3; 1; 4; 0] = false.
Proof. vm_compute. repeat split; reflexivity. Qed.
(* ---- big checkers ---- *)
