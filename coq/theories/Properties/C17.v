(** C17 — layered label propagation always yields a valid, refinement-consistent ordering.
    Statements and [Print Assumptions] only. *)
From WG Require Import Base.Prelude Algo.Llp Algo.LlpStatements Algo.LlpFacts.
Local Open Scope N_scope.
