(** C17 — layered label propagation always yields a valid, refinement-consistent ordering.
    Statements and [Print Assumptions] only. *)
From WG Require Import Base.Prelude Algo.Llp Algo.LlpStatements Algo.LlpFacts.
Local Open Scope N_scope.

(** [combine]: two nodes get the same new label iff they had the same result label and the
    same label in the combined labeling *)
Theorem C17_combine_refinement : S_combine_refinement.
Proof. exact combine_refinement. Qed.
Print Assumptions C17_combine_refinement.

(** [combine]: the new labels are exactly [0, k), k the returned number of labels *)
Theorem C17_combine_dense : S_combine_dense.
Proof. exact combine_dense. Qed.
Print Assumptions C17_combine_dense.

(** [combine_labels]: the classes of the result are the common refinement of the classes of
    all stored labelings (whatever their costs and directory order), and the labels are dense *)
Theorem C17_combine_labels_refinement : S_combine_labels_refinement.
Proof. exact combine_labels_refinement. Qed.
Print Assumptions C17_combine_labels_refinement.

(** [combine_labels] succeeds on every non-empty family of labelings by node identifiers *)
Theorem C17_combine_labels_total : S_combine_labels_total.
Proof. exact combine_labels_total. Qed.
Print Assumptions C17_combine_labels_total.

(** [invert_permutation]: for every order of the parallel writes the result is the inverse
    permutation; inverting twice gives the permutation back *)
Theorem C17_invert_perm : S_invert_perm.
Proof. exact invert_perm. Qed.
Print Assumptions C17_invert_perm.

(** [labels_to_ranks] yields a permutation of [0, n) for arbitrary labels *)
Theorem C17_ranks_perm : S_ranks_perm.
Proof. exact ranks_perm. Qed.
Print Assumptions C17_ranks_perm.

(** ranks are increasing in the label, ties broken by node identifier *)
Theorem C17_ranks_monotone : S_ranks_monotone.
Proof. exact ranks_monotone. Qed.
Print Assumptions C17_ranks_monotone.
