(** C08 — external sorting returns exactly the input pairs, sorted and partitioned.
    Statements and [Print Assumptions] only. *)
From WG Require Import Base.Prelude Sort.Pipeline Sort.Statements Sort.OrderFacts
  Sort.SortedFacts Sort.CodecFacts Sort.KMergeFacts Sort.ProducerFacts Sort.PipelineFacts.
Local Open Scope N_scope.

(** both batch codecs, with and without in-batch deduplication: decoding the file written
    for a key-sorted batch yields the batch (its first-of-each-key subsequence) *)
Theorem C08_gaps_roundtrip : S_gaps_roundtrip.
Proof. exact gaps_roundtrip. Qed.
Print Assumptions C08_gaps_roundtrip.

Theorem C08_grouped_roundtrip : S_grouped_roundtrip.
Proof. exact grouped_roundtrip. Qed.
Print Assumptions C08_grouped_roundtrip.

Theorem C08_codec_roundtrip : S_codec_roundtrip.
Proof. exact codec_roundtrip. Qed.
Print Assumptions C08_codec_roundtrip.

(** k-way merge of key-sorted iterators, every tie-break: key-sorted permutation of the
    concatenation; with deduplication, the distinct keys in increasing order, every
    returned triple being one of the merged ones *)
Theorem C08_kmerge_sorted_perm : S_kmerge_sorted_perm.
Proof. exact kmerge_sorted_perm. Qed.
Print Assumptions C08_kmerge_sorted_perm.

Theorem C08_kmerge_dedup : S_kmerge_dedup.
Proof. exact kmerge_dedup. Qed.
Print Assumptions C08_kmerge_dedup.

(** boundaries: p+1 entries, from 0 to n, non-decreasing; a valid source falls in the
    partition [src / ceil(n/p)] (an index below p) and in no other *)
Theorem C08_boundaries : S_boundaries.
Proof. exact boundaries_ok. Qed.
Print Assumptions C08_boundaries.

Theorem C08_part_id_range : S_part_id_range.
Proof. exact part_id_range. Qed.
Print Assumptions C08_part_id_range.

Theorem C08_in_part_unique : S_in_part_unique.
Proof. exact in_part_unique. Qed.
Print Assumptions C08_in_part_unique.

(** an out-of-range source anywhere in the input: the error, never a panic *)
Theorem C08_error : S_sort_error.
Proof. exact sort_error. Qed.
Print Assumptions C08_error.

Theorem C08_no_panic : S_sort_no_panic.
Proof. exact sort_no_panic. Qed.
Print Assumptions C08_no_panic.

(** the pipeline, for every split among producers, buffer capacity, admissible batch sort,
    codec and tie-break *)
Theorem C08_sort_spec : S_sort_spec.
Proof. exact sort_spec_ok. Qed.
Print Assumptions C08_sort_spec.

Theorem C08_sort_spec_dedup : S_sort_spec_dedup.
Proof. exact sort_spec_dedup_ok. Qed.
Print Assumptions C08_sort_spec_dedup.

(** the batch sort hypothesis is satisfiable (insertion sort on the key) *)
Theorem C08_isort_ok : S_isort_ok.
Proof. exact isort_ok. Qed.
Print Assumptions C08_isort_ok.

(** hence for the executable pipeline (the one run against the implementation): the keys
    of every partition are the specified ones and nothing is lost *)
Theorem C08_sort_pipeline :
  forall (L : Type) (k : codec_kind) (n : N) (p : nat)
         (prods : list (nat * list (triple L))) ties,
    (0 < p)%nat -> Forall (fun t => src_of t < n) (all_input prods) ->
    exists parts,
      sort_pipeline k n p false false prods ties = SDone (boundaries n p, parts)
      /\ (forall i, (i < p)%nat ->
            map fst (nth i parts []) = sort_spec false n p i (map fst (all_input prods)))
      /\ Permutation (concat parts) (all_input prods).
Proof.
  intros L k n p prods ties Hp Hv.
  destruct (sort_spec_ok L isort k n p prods ties (isort_ok L) Hp Hv)
    as [parts [H1 [_ [H3 [H4 _]]]]].
  exists parts. split; [exact H1|]. split; [|exact H4].
  intros i Hi. apply (H3 i Hi).
Qed.
Print Assumptions C08_sort_pipeline.

(** non-vacuity: two producers with capacities 2 and 1, duplicates, an empty partition,
    multi-batch merges *)
Example C08_nonvacuous :
  let b : list (triple N) :=
    [((3,1),10); ((0,2),11); ((3,1),12); ((0,0),13); ((3,0),14); ((5,5),15); ((0,2),16)] in
  let prods := [(2%nat, b); (1%nat, b)] in
  Forall (fun t => src_of t < 6) (all_input prods)
  /\ sort_pipeline CGaps 6 4 true true prods [[1;0;2;3]%nat]
     = SDone ([0; 2; 4; 6; 6],
              [[((0,0),13); ((0,2),11)]; [((3,0),14); ((3,1),10)]; [((5,5),15)]; []])
  /\ map (fun i => sort_spec true 6 4 i (map fst (all_input prods))) [0;1;2;3]%nat
     = [[(0,0); (0,2)]; [(3,0); (3,1)]; [(5,5)]; []]
  /\ sort_pipeline CGrouped 5 4 false false prods [] = SErr.
Proof.
  cbv zeta. split; [repeat constructor|].
  split; [vm_compute; reflexivity|]. split; vm_compute; reflexivity.
Qed.
