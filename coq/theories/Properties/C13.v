(** C13 — breadth-first visits give exact distances, once per node, under every schedule.
    Statements and [Print Assumptions] only. *)
From WG Require Import Base.Prelude Visits.Bfs Visits.BfsStatements Visits.BfsFacts.
Local Open Scope N_scope.

(** the specification levels are duplicate-free, pairwise disjoint, never empty, and avoid
    every node already visited on the un-reset visitor *)
Theorem C13_levels_once : S_levels_once.
Proof. exact levels_once. Qed.
Print Assumptions C13_levels_once.

(** the sequential visit (queue with level separators) emits exactly the nodes of the
    specification levels, in order, with the level index as distance, valid predecessors,
    and the level sizes as FrontierSize events *)
Theorem C13_seq_levels : S_seq_levels.
Proof. exact seq_levels. Qed.
Print Assumptions C13_seq_levels.

(** no node visited by an earlier visit on the same un-reset visitor is visited again *)
Theorem C13_no_revisit : S_no_revisit.
Proof. exact no_revisit. Qed.
Print Assumptions C13_no_revisit.

(** BfsOrderFromRoots: each node at most once even with repeated roots, items = levels *)
Theorem C13_from_roots_once : S_from_roots_once.
Proof. exact from_roots_once. Qed.
Print Assumptions C13_from_roots_once.

(** non-vacuity: a visit with a repeated root, an already visited node and a distance filter *)
Example C13_nonvacuous :
  let g := [[1;2];[2;3];[0];[3;4];[]] in
  bfs_levels g no_filter [0] [] = [[0];[1;2];[3];[4]]
  /\ map node_dist (visits (snd (bfs_seq g no_filter [0] []))) = [(0,0);(1,1);(2,1);(3,2);(4,3)]
  /\ bfs_levels g (fun _ d => d <=? 1) [0;0;7] [2] = [[0;7];[1]]
  /\ bfs_from_roots g [3;3;1] = Some [(3,3,0);(1,1,0);(3,4,1);(1,2,1);(2,0,2)].
Proof. cbv zeta. repeat split; vm_compute; reflexivity. Qed.
