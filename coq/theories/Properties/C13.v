(** C13 — breadth-first visits give exact distances, once per node, under every schedule.
    Statements and [Print Assumptions] only. *)
From WG Require Import Base.Prelude Visits.Bfs Visits.BfsStatements Visits.BfsFacts.
Local Open Scope N_scope.

(** the specification levels are duplicate-free, pairwise disjoint, never empty, and avoid
    every node already visited on the un-reset visitor *)
Theorem C13_levels_once : S_levels_once.
Proof. exact levels_once. Qed.
Print Assumptions C13_levels_once.

(** the sequential visit (queue with level separators) emits exactly the nodes of the
    specification levels, in order, with the level index as distance, valid predecessors,
    and the level sizes as FrontierSize events *)
Theorem C13_seq_levels : S_seq_levels.
Proof. exact seq_levels. Qed.
Print Assumptions C13_seq_levels.

(** no node visited by an earlier visit on the same un-reset visitor is visited again *)
Theorem C13_no_revisit : S_no_revisit.
Proof. exact no_revisit. Qed.
Print Assumptions C13_no_revisit.

(** BfsOrderFromRoots: each node at most once even with repeated roots, items = levels *)
Theorem C13_from_roots_once : S_from_roots_once.
Proof. exact from_roots_once. Qed.
Print Assumptions C13_from_roots_once.

(** one level of a parallel visit under EVERY interleaving of the frontier's successor scans:
    duplicate-free next frontier, a permutation of the specification level (so independent
    of the schedule), valid predecessors, same visited set *)
Theorem C13_par_step : S_par_step.
Proof. exact par_step_levels. Qed.
Print Assumptions C13_par_step.

(** the whole parallel visit (ParFair / ParLowMem) under every family of schedules: level by
    level a duplicate-free permutation of the specification levels, valid predecessors *)
Theorem C13_par_levels : S_par_levels.
Proof. exact par_levels_spec. Qed.
Print Assumptions C13_par_levels.

(** for filters that ignore the distance, the level index is the length of a shortest walk
    from an accepted unvisited root through accepted unvisited nodes *)
Theorem C13_levels_are_distances : S_levels_are_distances.
Proof. exact levels_are_distances. Qed.
Print Assumptions C13_levels_are_distances.

(** BfsOrder: every node exactly once, valid parent / root / distance chain *)
Theorem C13_bfs_order_once : S_bfs_order_once.
Proof. exact bfs_order_once. Qed.
Print Assumptions C13_bfs_order_once.

(** non-vacuity: a visit with a repeated root, an already visited node and a distance filter;
    two schedules of a parallel visit that pick different predecessors for the shared
    successor 3 and still produce the same levels *)
Example C13_nonvacuous :
  let g := [[1;2];[2;3];[0];[3;4];[]] in
  bfs_levels g no_filter [0] [] = [[0];[1;2];[3];[4]]
  /\ map node_dist (visits (snd (bfs_seq g no_filter [0] []))) = [(0,0);(1,1);(2,1);(3,2);(4,3)]
  /\ bfs_levels g (fun _ d => d <=? 1) [0;0;7] [2] = [[0;7];[1]]
  /\ bfs_from_roots g [3;3;1] = Some [(3,3,0);(1,1,0);(3,4,1);(1,2,1);(2,0,2)]
  /\ map node4 (bfs_order g) = [0;1;2;3;4].
Proof. cbv zeta. repeat split; vm_compute; reflexivity. Qed.

Example C13_schedules_differ :
  let g := [[1;2];[3];[3];[]] in
  par_levels g no_filter (fun _ l => l) [0] [] = [[(0,0)];[(2,0);(1,0)];[(3,2)]]
  /\ par_levels g no_filter (fun d l => if d =? 1 then rev l else l) [0] [] = [[(0,0)];[(2,0);(1,0)];[(3,1)]]
  /\ bfs_levels g no_filter [0] [] = [[0];[1;2];[3]].
Proof. cbv zeta. repeat split; vm_compute; reflexivity. Qed.

Example C13_distance_instance :
  dist_is [[1;2];[3];[3];[]] (fun x => true && negb (memb x [])) [0] 3 2%nat.
Proof.
  apply (proj1 (C13_levels_are_distances [[1;2];[3];[3];[]] (fun _ => true) [0] [] 2%nat 3)).
  vm_compute. left. reflexivity.
Qed.
