(** C11 — parallel map-fold terminates and equals the sequential fold for every pool size.
    Statements and [Print Assumptions] only. *)
From WG Require Import Base.Prelude PMF.Sched PMF.Ord PMF.Statements PMF.ValueFacts
  PMF.SchedFacts PMF.OrdFacts.
Local Open Scope N_scope.

(** * Value *)

(** for a commutative monoid, any assignment of the items to the caller and the consumers,
    any receiving order and any order of arrival of the results give the sequential fold *)
Theorem C11_fold_value : S_fold_value.
Proof. exact fold_value. Qed.
Print Assumptions C11_fold_value.

(** the same for [par_map_fold]/[par_map_fold_with] (one fold function) *)
Theorem C11_fold_value_same : S_fold_value_same.
Proof. exact fold_value_same. Qed.
Print Assumptions C11_fold_value_same.

(** the reorder buffer of the ordered variant applies [fold] in index order for every
    arrival permutation *)
Theorem C11_ord_value : S_ord_value.
Proof. exact rb_ord_value. Qed.
Print Assumptions C11_ord_value.

(** * [par_map_fold2_with] (and everything that delegates to it) *)

(** no deadlock: every pool size >= 1, every number of consumers >= 1, caller external or a
    pool thread, every input: a reachable non-final state has a transition *)
Theorem C11_progress : S_progress.
Proof. exact progress. Qed.
Print Assumptions C11_progress.

(** termination: every transition decreases the measure *)
Theorem C11_measure_decreases : S_measure_decreases.
Proof. exact measure_decreases. Qed.
Print Assumptions C11_measure_decreases.

(** the executable deadlock test is exact on reachable states *)
Theorem C11_stuck_spec : S_stuck_spec.
Proof. exact stuck_spec. Qed.
Print Assumptions C11_stuck_spec.

(** every final reachable state carries the sequential fold *)
Theorem C11_machine_value : S_machine_value.
Proof. exact machine_value. Qed.
Print Assumptions C11_machine_value.

(** hence: under every schedule the machine terminates within the fuel given by the
    measure, with the sequential fold *)
Theorem C11_run_total : S_run_total.
Proof. exact run_total. Qed.
Print Assumptions C11_run_total.

(** * The ordered variant *)

Theorem C11_ord_measure_decreases : S_ord_measure_decreases.
Proof. exact ord_measure_decreases. Qed.
Print Assumptions C11_ord_measure_decreases.

(** no deadlock for the code as it is now: every kind of caller (external thread, worker
    of the global pool, worker of a custom pool of any size), every global pool size >= 1,
    every number of consumers >= 1, every input *)
Theorem C11_ord_progress : S_ord_progress.
Proof. exact ord_progress. Qed.
Print Assumptions C11_ord_progress.

Theorem C11_ord_stuck_spec : S_ord_stuck_spec.
Proof. exact ord_stuck_spec. Qed.
Print Assumptions C11_ord_stuck_spec.

(** final states have drained a permutation of the input: the value is the in-order fold *)
Theorem C11_ord_machine_value : S_ord_machine_value.
Proof. exact ord_machine_value. Qed.
Print Assumptions C11_ord_machine_value.

(** under every schedule, for every kind of caller and every global pool size >= 1:
    termination with the in-order fold *)
Theorem C11_ord_run_total : S_ord_run_total.
Proof. exact ord_run_total. Qed.
Print Assumptions C11_ord_run_total.

(** a worker of a pool of size 1 (global or custom) folds the items in iterator order *)
Theorem C11_ord_run_seq : S_ord_run_seq.
Proof. exact ord_run_seq. Qed.
Print Assumptions C11_ord_run_seq.

(** * The ordered variant under the rule the code had BEFORE the repair of defect 7b
      ([o_fixed k = false], [pmf_ord_run_prefix]: no sequential branch) *)

(** no deadlock when the caller is not a worker of the global pool, or that pool has at
    least two threads *)
Theorem C11_ord_progress_prefix : S_ord_progress_prefix.
Proof. exact ord_progress_prefix. Qed.
Print Assumptions C11_ord_progress_prefix.

(** the property was REFUTED when the caller is the only thread of the global pool: a
    reachable non-final state without transitions ... *)
Theorem C11_ord_deadlock_refuted : S_ord_deadlock_refuted.
Proof. exact ord_deadlock_refuted. Qed.
Print Assumptions C11_ord_deadlock_refuted.

(** ... and for every input and every number of consumers no final state was reachable *)
Theorem C11_ord_deadlock_all : S_ord_deadlock_all.
Proof. exact ord_deadlock_all. Qed.
Print Assumptions C11_ord_deadlock_all.

(** under every schedule: termination with the in-order fold in the complement class ... *)
Theorem C11_ord_run_total_prefix : S_ord_run_total_prefix.
Proof. exact ord_run_total_prefix. Qed.
Print Assumptions C11_ord_run_total_prefix.

(** ... and a deadlock in the defect class, for every input length and schedule *)
Theorem C11_ord_run_deadlock : S_ord_run_deadlock.
Proof. exact ord_run_deadlock. Qed.
Print Assumptions C11_ord_run_deadlock.

(** * Non-vacuity *)

(** the monoid used by the harness satisfies the hypotheses of the value theorems *)
Example C11_monoid_nonvacuous :
  comm_monoid N.add 0 /\ compatible (fun (a r : N) => a + r) N.add.
Proof.
  unfold comm_monoid, compatible. repeat split; intros; lia.
Qed.

(** the configuration that used to deadlock (caller = only thread of the pool, more items
    than the channel holds): the caller maps the overflow itself, then runs the consumer *)
Example C11_single_thread_run :
  pmf_run 1 (Some 5%nat) true 5 [] = Terminated [2; 3; 4] [[0; 1]].
Proof. vm_compute. reflexivity. Qed.

(** three workers, external caller, a schedule that interleaves the consumers *)
Example C11_three_workers_run :
  pmf_run 3 (Some 10%nat) false 10 [3;1;4;1;5;9;2;6;5;3;5;8;9;7;9;3;2;3;8;4;6]%nat
  = Terminated [] [[1; 6; 7]; [8]; [0; 2; 3; 4; 5; 9]].
Proof. vm_compute. reflexivity. Qed.

(** out-of-order arrivals are re-sequenced *)
Example C11_reorder :
  rb_run (fun a r => a * 31 + r) [(2, 12); (0, 10); (4, 14); (1, 11); (3, 13)] 7
  = ([], 5, fold_left (fun a r => a * 31 + r) [10; 11; 12; 13; 14] 7).
Proof. vm_compute. reflexivity. Qed.

(** the ordered variant called by the only thread of the global pool: the empty input
    deadlocked before the repair; now the sequential branch is taken.  A second global
    thread, a custom pool, an external caller: the concurrent machine terminates *)
Example C11_ord_empty_deadlock_prefix : pmf_ord_run_prefix 1 OGlobalWorker None 0 [] = ODeadlock.
Proof. vm_compute. reflexivity. Qed.

Example C11_ord_empty_now : pmf_ord_run 1 OGlobalWorker None 0 [] = OTerminated [].
Proof. vm_compute. reflexivity. Qed.

Example C11_ord_one_thread_now :
  pmf_ord_run 1 OGlobalWorker (Some 5%nat) 5 [3;1;4]%nat = OTerminated [0; 1; 2; 3; 4].
Proof. vm_compute. reflexivity. Qed.

Example C11_ord_two_threads : pmf_ord_run 2 OGlobalWorker None 3 [] = OTerminated [0; 1; 2].
Proof. vm_compute. reflexivity. Qed.

(** caller in a custom pool of 4 threads, global pool of ONE thread: four consumers take
    turns on the only global worker; out-of-order arrivals *)
Example C11_ord_custom_over_global_one :
  pmf_ord_run 1 (OCustomWorker 4) None 6 [5;2;7;1;1;8;3;2;9;4;6]%nat = OTerminated [0; 1; 2; 3; 4; 5]
  /\ seq_branch 1 (OCustomWorker 4) = false /\ seq_branch 16 (OCustomWorker 1) = true
  /\ seq_branch 1 OExternal = false /\ seq_branch 1 OGlobalWorker = true.
Proof. vm_compute. repeat split; reflexivity. Qed.

(** three consumers on three global workers, external caller: results arrive out of order *)
Example C11_ord_out_of_order :
  pmf_ord_run 3 OExternal None 6 [5;2;7;1;1;8;3;2;9;4;6;0;3;5;1;2;2;7]%nat
  = OTerminated [1; 0; 2; 3; 4; 5].
Proof. vm_compute. reflexivity. Qed.
