(** C11 — parallel map-fold terminates and equals the sequential fold for every pool size.
    Statements and [Print Assumptions] only. *)
From WG Require Import Base.Prelude PMF.Sched PMF.Ord PMF.Statements PMF.ValueFacts.
Local Open Scope N_scope.

(** for a commutative monoid, any assignment of the items to the caller and the consumers,
    any receiving order and any order of arrival of the results give the sequential fold *)
Theorem C11_fold_value : S_fold_value.
Proof. exact fold_value. Qed.
Print Assumptions C11_fold_value.

(** the same for [par_map_fold]/[par_map_fold_with] (one fold function) *)
Theorem C11_fold_value_same : S_fold_value_same.
Proof. exact fold_value_same. Qed.
Print Assumptions C11_fold_value_same.

(** the reorder buffer of the ordered variant applies [fold] in index order for every
    arrival permutation *)
Theorem C11_ord_value : S_ord_value.
Proof. exact ord_value. Qed.
Print Assumptions C11_ord_value.
