(** C06 — reference chains never exceed the configured maximum depth or window.
    Statements and [Print Assumptions] only. *)
From WG Require Import Base.Prelude Codes.Codes BV.Model BV.RefSel BV.SelStatements
  BV.GreedyFacts BV.GreedyRunFacts BV.ZuckBase BV.ZuckValid BV.ZuckDP BV.ZuckReadd BV.ZuckFacts.
Local Open Scope N_scope.

(** greedy selector: every chosen reference is inside the window, not before the first
    node of the chunk ([valid_sel] starts from an empty history, so a distance can never
    exceed the number of nodes already pushed to this compressor instance), at a non-empty
    list — for every cost function (= code assignment), start node and graph *)
Theorem C06_greedy_window_chunk : S_greedy_valid.
Proof. exact greedy_valid. Qed.
Print Assumptions C06_greedy_window_chunk.

(** ... and every reference chain has depth at most max_ref *)
Theorem C06_greedy_depth : S_greedy_depth.
Proof. exact greedy_depth. Qed.
Print Assumptions C06_greedy_depth.

(** Zuckerli-style selector, every chunk size *)
Theorem C06_zuck_window_chunk : S_zuck_valid.
Proof. exact zuck_valid. Qed.
Print Assumptions C06_zuck_window_chunk.

Theorem C06_zuck_depth : S_zuck_depth.
Proof. exact zuck_depth. Qed.
Print Assumptions C06_zuck_depth.

(** the dynamic program alone: for an arbitrary table whose column 0 is unchosen, i.e.
    independently of every cost and of any floating-point rounding in the table *)
Theorem C06_zuck_dp_depth :
  forall m refs saved, local refs ->
  forall j, (depth (update_refs_for_max_length m refs saved) j <= N.to_nat m)%nat.
Proof. exact zuck_dp_depth. Qed.
Print Assumptions C06_zuck_dp_depth.

(** non-vacuity: a selection that saturates the bound *)
Example C06_nonvacuous :
  let p := mkParams 3 (Some 2) 0 in
  let cs := mkCodes Gamma Unary Gamma Gamma (Zeta 3) in
  let g := [[10;20;30;40;50;60]; [10;20;30;40;50;61]; [10;20;30;40;50;62]; [10;20;30;40;50;63]] in
  depths (greedy_sel p cs 0 g) = [0; 1; 2; 2] /\ depths (zuck_sel p cs 10 0 g) = [0; 1; 2; 2].
Proof. vm_compute. split; reflexivity. Qed.

(* ---- tie-break-agnostic greedy ---- *)

(** [greedy_run_ok p cs start g sel]: [sel] is an output of the greedy rule of [BvComp::push]
    under SOME tie-break among admissible candidates of equal minimal cost (every node takes
    either no reference, no admissible candidate being strictly cheaper than the copy-less
    encoding, or an admissible candidate strictly cheaper than the copy-less encoding and of
    minimal cost).  The deterministic model (nearest minimal candidate) is one such run *)
Theorem C06_greedy_sel_run_ok : S_greedy_sel_run_ok.
Proof. exact greedy_sel_run_ok. Qed.
Print Assumptions C06_greedy_sel_run_ok.

(** every run only picks references inside the window, inside the chunk, at non-empty lists *)
Theorem C06_greedy_run_window_chunk : S_greedy_run_valid.
Proof. exact greedy_run_valid. Qed.
Print Assumptions C06_greedy_run_window_chunk.

(** ... and every reference chain of every run has depth at most max_ref *)
Theorem C06_greedy_run_depth : S_greedy_run_depth.
Proof. exact greedy_run_depth. Qed.
Print Assumptions C06_greedy_run_depth.

(** what the checker accepts at each node, stated without the scan: no reference iff no
    admissible candidate is strictly cheaper than the copy-less encoding; distance [d >= 1] iff
    it is admissible, strictly cheaper than the copy-less encoding and no admissible candidate
    is strictly cheaper than it *)
Theorem C06_greedy_choice_ok_spec : S_greedy_choice_ok_spec.
Proof. exact greedy_choice_ok_spec. Qed.
Print Assumptions C06_greedy_choice_ok_spec.

(** a genuine tie (with the gamma code, distances 1 and 2 cost the same, and nodes 0 and 1
    have the same list): two different selections are runs, the second one not being the
    model's; its choice also changes which candidates are admissible afterwards.  Taking a
    dearer candidate (distance 2 for the last node, 29 bits against 9), or no reference
    where one is strictly cheaper, is not a run. *)
Example C06_run_tie :
  let p := mkParams 3 (Some 2) 0 in
  let cs := mkCodes Gamma Gamma Gamma Gamma Gamma in
  let g := [[10;20;30;40;50]; [10;20;30;40;50]; [10;20;30;40;50]; [10;20;30;40;51];
            [10;20;30;40;51]] in
  greedy_sel p cs 0 g = [0; 1; 1; 2; 3] /\
  greedy_run_ok p cs 0 g [0; 1; 1; 2; 3] = true /\
  greedy_run_ok p cs 0 g [0; 1; 2; 1; 2] = true /\
  greedy_run_ok p cs 0 g [0; 1; 2; 2; 2] = true /\
  depths [0; 1; 2; 1; 2] = [0; 1; 1; 2; 2] /\
  greedy_run_ok p cs 0 g [0; 1; 1; 2; 2] = false /\
  greedy_run_ok p cs 0 g [0; 1; 2; 1; 3] = false /\
  greedy_run_ok p cs 0 g [0; 1; 1; 2; 0] = false /\
  greedy_run_ok p cs 0 g [0; 1; 1; 2] = false.
Proof. vm_compute. repeat split; reflexivity. Qed.

(* ---- links ---- *)
(** C06 o C03: with [max_ref = Some m], [m + 1] nested decodes of the random-access decoder
    reach every node's list on the output of the greedy and of the Zuckerli-style
    compressor (the depth hypothesis of C03_ra_fuel is discharged by C06) *)
From WG Require Import BV.Bits BV.BitsFacts BV.Access BV.AccessStatements
  Links.LoadLinkStatements Links.LoadLinkFacts.
Theorem C06_link_ra_fuel_greedy : S_link_ra_fuel_greedy.
Proof. exact link_ra_fuel_greedy. Qed.
Print Assumptions C06_link_ra_fuel_greedy.

Theorem C06_link_ra_fuel_zuck : S_link_ra_fuel_zuck.
Proof. exact link_ra_fuel_zuck. Qed.
Print Assumptions C06_link_ra_fuel_zuck.
