(** C06 — reference chains never exceed the configured maximum depth or window.
    Statements and [Print Assumptions] only. *)
From WG Require Import Base.Prelude Codes.Codes BV.Model BV.RefSel BV.SelStatements
  BV.GreedyFacts BV.ZuckBase BV.ZuckValid BV.ZuckDP BV.ZuckReadd BV.ZuckFacts.
Local Open Scope N_scope.

(** greedy selector: every chosen reference is inside the window, not before the first
    node of the chunk ([valid_sel] starts from an empty history, so a distance can never
    exceed the number of nodes already pushed to this compressor instance), at a non-empty
    list — for every cost function (= code assignment), start node and graph *)
Theorem C06_greedy_window_chunk : S_greedy_valid.
Proof. exact greedy_valid. Qed.
Print Assumptions C06_greedy_window_chunk.

(** ... and every reference chain has depth at most max_ref *)
Theorem C06_greedy_depth : S_greedy_depth.
Proof. exact greedy_depth. Qed.
Print Assumptions C06_greedy_depth.

(** Zuckerli-style selector, every chunk size *)
Theorem C06_zuck_window_chunk : S_zuck_valid.
Proof. exact zuck_valid. Qed.
Print Assumptions C06_zuck_window_chunk.

Theorem C06_zuck_depth : S_zuck_depth.
Proof. exact zuck_depth. Qed.
Print Assumptions C06_zuck_depth.

(** the dynamic program alone: for an arbitrary table whose column 0 is unchosen, i.e.
    independently of every cost and of any floating-point rounding in the table *)
Theorem C06_zuck_dp_depth :
  forall m refs saved, local refs ->
  forall j, (depth (update_refs_for_max_length m refs saved) j <= N.to_nat m)%nat.
Proof. exact zuck_dp_depth. Qed.
Print Assumptions C06_zuck_dp_depth.

(** non-vacuity: a selection that saturates the bound *)
Example C06_nonvacuous :
  let p := mkParams 3 (Some 2) 0 in
  let cs := mkCodes Gamma Unary Gamma Gamma (Zeta 3) in
  let g := [[10;20;30;40;50;60]; [10;20;30;40;50;61]; [10;20;30;40;50;62]; [10;20;30;40;50;63]] in
  depths (greedy_sel p cs 0 g) = [0; 1; 2; 2] /\ depths (zuck_sel p cs 10 0 g) = [0; 1; 2; 2].
Proof. vm_compute. split; reflexivity. Qed.
