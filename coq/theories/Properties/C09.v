(** C09 — graph transforms compute exactly the specified arc set.
    Statements and [Print Assumptions] only. *)
From WG Require Import Base.Prelude Par.Splice Transform.Pipelines Transform.Statements
  Transform.Facts Transform.Facts2.
Local Open Scope N_scope.

(** the specification lists are the successor lists of a relation: membership ... *)
Theorem C09_spec_lists : S_spec_lists.
Proof. exact spec_lists. Qed.
Print Assumptions C09_spec_lists.

(** ... one list per node, each strictly increasing (sorted, no duplicates) *)
Theorem C09_spec_sorted : S_spec_sorted.
Proof. exact spec_sorted. Qed.
Print Assumptions C09_spec_sorted.

(** b is a successor of a in the transpose iff a is a successor of b in the graph *)
Theorem C09_transpose_mem : S_transpose_mem.
Proof. exact transpose_mem. Qed.
Print Assumptions C09_transpose_mem.

(** the symmetrized graph is the union of the graph and its transpose, minus loops on request *)
Theorem C09_symmetrize_mem : S_symmetrize_mem.
Proof. exact symmetrize_mem. Qed.
Print Assumptions C09_symmetrize_mem.

(** the mapped graph is the image of the arc set *)
Theorem C09_map_mem : S_map_mem.
Proof. exact map_mem. Qed.
Print Assumptions C09_map_mem.

(** transpose_seq and transpose_par return the transpose, for every sorter satisfying the
    C08 contract, every partition count, cut sequence and arrival order *)
Theorem C09_transpose : S_transpose.
Proof. exact transpose_correct. Qed.
Print Assumptions C09_transpose.

Theorem C09_symmetrize : S_symmetrize.
Proof. exact symmetrize_correct. Qed.
Print Assumptions C09_symmetrize.

Theorem C09_symmetrize_noloops : S_symmetrize_noloops.
Proof. exact symmetrize_noloops_correct. Qed.
Print Assumptions C09_symmetrize_noloops.

Theorem C09_permute : S_permute.
Proof. exact permute_correct. Qed.
Print Assumptions C09_permute.

Theorem C09_map : S_map.
Proof. exact map_correct. Qed.
Print Assumptions C09_map.
