(** C09 — graph transforms compute exactly the specified arc set.
    Statements and [Print Assumptions] only. *)
From WG Require Import Base.Prelude Par.Splice Transform.Pipelines Transform.Statements
  Transform.Facts Transform.Facts2 Transform.Facts3 Transform.SortedParFacts Transform.Facts4
  Transform.ReadParFacts Transform.LabelFacts Transform.RunFacts.
Local Open Scope N_scope.

(** the specification lists are the successor lists of a relation: membership ... *)
Theorem C09_spec_lists : S_spec_lists.
Proof. exact spec_lists. Qed.
Print Assumptions C09_spec_lists.

(** ... one list per node, each strictly increasing (sorted, no duplicates) *)
Theorem C09_spec_sorted : S_spec_sorted.
Proof. exact spec_sorted. Qed.
Print Assumptions C09_spec_sorted.

(** b is a successor of a in the transpose iff a is a successor of b in the graph *)
Theorem C09_transpose_mem : S_transpose_mem.
Proof. exact transpose_mem. Qed.
Print Assumptions C09_transpose_mem.

(** the symmetrized graph is the union of the graph and its transpose, minus loops on request *)
Theorem C09_symmetrize_mem : S_symmetrize_mem.
Proof. exact symmetrize_mem. Qed.
Print Assumptions C09_symmetrize_mem.

(** the mapped graph is the image of the arc set *)
Theorem C09_map_mem : S_map_mem.
Proof. exact map_mem. Qed.
Print Assumptions C09_map_mem.

(** transpose_seq and transpose_par return the transpose, for every sorter satisfying the
    C08 contract, every partition count, cut sequence and arrival order *)
Theorem C09_transpose : S_transpose.
Proof. exact transpose_correct. Qed.
Print Assumptions C09_transpose.

Theorem C09_symmetrize : S_symmetrize.
Proof. exact symmetrize_correct. Qed.
Print Assumptions C09_symmetrize.

Theorem C09_symmetrize_noloops : S_symmetrize_noloops.
Proof. exact symmetrize_noloops_correct. Qed.
Print Assumptions C09_symmetrize_noloops.

Theorem C09_permute : S_permute.
Proof. exact permute_correct. Qed.
Print Assumptions C09_permute.

Theorem C09_map : S_map.
Proof. exact map_correct. Qed.
Print Assumptions C09_map.

(** symmetrize_sorted_par: only the reversed arcs are sorted; the forward graph is re-split
    at the sorter's boundaries and merged (MergeDedupPairs) partition by partition *)
Theorem C09_sorted_par_symm : S_sorted_par_symm.
Proof. exact sorted_par_symm. Qed.
Print Assumptions C09_sorted_par_symm.

(** ... also when the result is consumed through into_par_lenders (the only way the Rust
    type allows) *)
Theorem C09_sorted_par_symm_lenders : S_sorted_par_symm_lenders.
Proof. exact sorted_par_symm_lenders. Qed.
Print Assumptions C09_sorted_par_symm_lenders.

(** sequential and parallel variants agree for all partition counts, cuts, arrival orders *)
Theorem C09_seq_eq_par : S_seq_eq_par.
Proof. exact seq_eq_par. Qed.
Print Assumptions C09_seq_eq_par.

(** the transpose of a well-formed graph is well formed and transposing twice is the identity *)
Theorem C09_transpose_involutive : S_transpose_involutive.
Proof. exact transpose_involutive. Qed.
Print Assumptions C09_transpose_involutive.

(** ... also through the pipelines *)
Theorem C09_transpose_twice : S_transpose_twice.
Proof. exact transpose_twice. Qed.
Print Assumptions C09_transpose_twice.

(** the sorters used to run the extracted model satisfy the contract (so the hypotheses of
    the theorems above are satisfiable) *)
Theorem C09_ksort_ok : S_ksort_ok.
Proof. exact ksort_ok. Qed.
Print Assumptions C09_ksort_ok.

(** labelled transposition: every label travels with its arc (any label type, any sorter
    that sorts by key and keeps the labels) *)
Theorem C09_transpose_labeled : S_transpose_labeled.
Proof. exact transpose_labeled_correct. Qed.
Print Assumptions C09_transpose_labeled.

(** the function the model driver runs: for every transform, sequential or parallel, the
    result read through iter() and through into_par_lenders() is the specification *)
Theorem C09_run_xop : S_run_xop.
Proof. exact run_xop_correct. Qed.
Print Assumptions C09_run_xop.

Theorem C09_run_labeled : S_run_labeled.
Proof. exact run_labeled_correct. Qed.
Print Assumptions C09_run_labeled.

(** the sorter refuses exactly the inputs with a source out of range (the error return of
    map with a value >= num_nodes on a node that has successors) *)
Theorem C09_out_of_range : S_out_of_range.
Proof. exact out_of_range. Qed.
Print Assumptions C09_out_of_range.

(** non-vacuity: a graph with a loop, an isolated node and an empty middle segment of the
    cut sequence; the schedule is legal and the pipelines compute what the theorems say *)
Example C09_nonvacuous :
  let g := [[1;2];[2];[0;2;3];[]] in
  wf_graph g = true /\ legal_schedule [0;1;1;4] [2;0;1]%nat (nlen g)
  /\ transpose_par ksort 3 [0;1;1;4] [2;0;1]%nat g = Some [[2];[0];[0;1;2];[2]]
  /\ symmetrize_sorted_par_lenders ksort true 3 [0;1;1;4] [2;0;1]%nat g = Some [[1;2];[0;2];[0;1;3];[2]]
  /\ map_seq ksortd [1;1;0;0] 2 5 g = Some [[0;1];[0;1]].
Proof.
  cbv zeta. split; [vm_compute; reflexivity|]. split.
  - split; [vm_compute; reflexivity|]. cbn [length Nat.sub seq].
    apply (perm_trans (l' := [0;2;1]%nat)); [apply perm_swap|]. apply perm_skip. apply perm_swap.
  - repeat split; vm_compute; reflexivity.
Qed.
