(** C09 — graph transforms compute exactly the specified arc set.
    Statements and [Print Assumptions] only. *)
From WG Require Import Base.Prelude Par.Splice Transform.Pipelines Transform.Statements
  Transform.Facts Transform.Facts2 Transform.Facts3 Transform.SortedParFacts Transform.Facts4
  Transform.ReadParFacts Transform.LabelFacts Transform.RunFacts.
Local Open Scope N_scope.

(** the specification lists are the successor lists of a relation: membership ... *)
Theorem C09_spec_lists : S_spec_lists.
Proof. exact spec_lists. Qed.
Print Assumptions C09_spec_lists.

(** ... one list per node, each strictly increasing (sorted, no duplicates) *)
Theorem C09_spec_sorted : S_spec_sorted.
Proof. exact spec_sorted. Qed.
Print Assumptions C09_spec_sorted.

(** b is a successor of a in the transpose iff a is a successor of b in the graph *)
Theorem C09_transpose_mem : S_transpose_mem.
Proof. exact transpose_mem. Qed.
Print Assumptions C09_transpose_mem.

(** the symmetrized graph is the union of the graph and its transpose, minus loops on request *)
Theorem C09_symmetrize_mem : S_symmetrize_mem.
Proof. exact symmetrize_mem. Qed.
Print Assumptions C09_symmetrize_mem.

(** the mapped graph is the image of the arc set *)
Theorem C09_map_mem : S_map_mem.
Proof. exact map_mem. Qed.
Print Assumptions C09_map_mem.

(** transpose_seq and transpose_par return the transpose, for every sorter satisfying the
    C08 contract, every partition count, cut sequence and arrival order *)
Theorem C09_transpose : S_transpose.
Proof. exact transpose_correct. Qed.
Print Assumptions C09_transpose.

Theorem C09_symmetrize : S_symmetrize.
Proof. exact symmetrize_correct. Qed.
Print Assumptions C09_symmetrize.

Theorem C09_symmetrize_noloops : S_symmetrize_noloops.
Proof. exact symmetrize_noloops_correct. Qed.
Print Assumptions C09_symmetrize_noloops.

Theorem C09_permute : S_permute.
Proof. exact permute_correct. Qed.
Print Assumptions C09_permute.

Theorem C09_map : S_map.
Proof. exact map_correct. Qed.
Print Assumptions C09_map.

(** symmetrize_sorted_par: only the reversed arcs are sorted; the forward graph is re-split
    at the sorter's boundaries and merged (MergeDedupPairs) partition by partition *)
Theorem C09_sorted_par_symm : S_sorted_par_symm.
Proof. exact sorted_par_symm. Qed.
Print Assumptions C09_sorted_par_symm.

(** ... also when the result is consumed through into_par_lenders (the only way the Rust
    type allows) *)
Theorem C09_sorted_par_symm_lenders : S_sorted_par_symm_lenders.
Proof. exact sorted_par_symm_lenders. Qed.
Print Assumptions C09_sorted_par_symm_lenders.

(** sequential and parallel variants agree for all partition counts, cuts, arrival orders *)
Theorem C09_seq_eq_par : S_seq_eq_par.
Proof. exact seq_eq_par. Qed.
Print Assumptions C09_seq_eq_par.

(** the transpose of a well-formed graph is well formed and transposing twice is the identity *)
Theorem C09_transpose_involutive : S_transpose_involutive.
Proof. exact transpose_involutive. Qed.
Print Assumptions C09_transpose_involutive.

(** ... also through the pipelines *)
Theorem C09_transpose_twice : S_transpose_twice.
Proof. exact transpose_twice. Qed.
Print Assumptions C09_transpose_twice.

(** the sorters used to run the extracted model satisfy the contract (so the hypotheses of
    the theorems above are satisfiable) *)
Theorem C09_ksort_ok : S_ksort_ok.
Proof. exact ksort_ok. Qed.
Print Assumptions C09_ksort_ok.

(** labelled transposition: every label travels with its arc (any label type, any sorter
    that sorts by key and keeps the labels) *)
Theorem C09_transpose_labeled : S_transpose_labeled.
Proof. exact transpose_labeled_correct. Qed.
Print Assumptions C09_transpose_labeled.

(** the function the model driver runs: for every transform, sequential or parallel, the
    result read through iter() and through into_par_lenders() is the specification *)
Theorem C09_run_xop : S_run_xop.
Proof. exact run_xop_correct. Qed.
Print Assumptions C09_run_xop.

Theorem C09_run_labeled : S_run_labeled.
Proof. exact run_labeled_correct. Qed.
Print Assumptions C09_run_labeled.

(** the sorter refuses exactly the inputs with a source out of range (the error return of
    map with a value >= num_nodes on a node that has successors) *)
Theorem C09_out_of_range : S_out_of_range.
Proof. exact out_of_range. Qed.
Print Assumptions C09_out_of_range.

(** non-vacuity: a graph with a loop, an isolated node and an empty middle segment of the
    cut sequence; the schedule is legal and the pipelines compute what the theorems say *)
Example C09_nonvacuous :
  let g := [[1;2];[2];[0;2;3];[]] in
  wf_graph g = true /\ legal_schedule [0;1;1;4] [2;0;1]%nat (nlen g)
  /\ transpose_par ksort 3 [0;1;1;4] [2;0;1]%nat g = Some [[2];[0];[0;1;2];[2]]
  /\ symmetrize_sorted_par_lenders ksort true 3 [0;1;1;4] [2;0;1]%nat g = Some [[1;2];[0;2];[0;1;3];[2]]
  /\ map_seq ksortd [1;1;0;0] 2 5 g = Some [[0;1];[0;1]].
Proof.
  cbv zeta. split; [vm_compute; reflexivity|]. split.
  - split; [vm_compute; reflexivity|]. cbn [length Nat.sub seq].
    apply (perm_trans (l' := [0;2;1]%nat)); [apply perm_swap|]. apply perm_skip. apply perm_swap.
  - repeat split; vm_compute; reflexivity.
Qed.

(* ---- links ---- *)
(** LINK C09 o C08: the sorter, which the theorems above take as a parameter with a
    contract, instantiated with the model of the external parallel sort that C08 is about
    ([Sort/Pipeline.v]: producers, buffers, batch sort, batch codecs, k-way merge with
    tie-breaks, partitioning).  [@lpair L] and [triple L] are the same type; the orders,
    the boundaries and the partition ids of the two models coincide. *)
From WG Require Import Sort.Pipeline Sort.Statements Sort.SortedFacts
  Links.SortLinkGlue Links.SortLinkStatements Links.SortLinkFacts.

Theorem C09_link_types : S_link_types.
Proof. exact link_types. Qed.
Print Assumptions C09_link_types.

(** (a) same ceiling, same boundaries for every [n] and [p], same partition id, same
    partition predicate on valid sources; C10's uniform cutpoints are that list too *)
Theorem C09_link_boundaries : S_link_boundaries.
Proof. exact link_boundaries. Qed.
Print Assumptions C09_link_boundaries.

(** the two models refuse exactly the same inputs (some source out of range) *)
Theorem C09_link_refusal : S_link_refusal.
Proof. exact link_refusal. Qed.
Print Assumptions C09_link_refusal.

(** (b) on every in-range input the C08 pipeline returns the Transform boundaries and
    partitions satisfying the contracts the C09 proofs use: [good] per partition, [ranged],
    and the conclusion of [sorter_ok] for the chained partitions ... *)
Theorem C09_link_sorter_ok : S_link_sorter_ok.
Proof. exact link_sorter_ok. Qed.
Print Assumptions C09_link_sorter_ok.

(** ... and of [sorterd_ok] with deduplication *)
Theorem C09_link_sorterd_ok : S_link_sorterd_ok.
Proof. exact link_sorterd_ok. Qed.
Print Assumptions C09_link_sorterd_ok.

(** (c1) the sorter parameter defined from the C08 pipeline: the distribution functions
    exist, the totalised sorters satisfy the pinned contracts on every list, [ext_sort]
    uses its sorter on in-range lists only, hence the C09 theorems hold of the
    un-totalised [pipeline_sorter] *)
Theorem C09_link_chunk_split_ok : S_link_chunk_split_ok.
Proof. exact link_chunk_split_ok. Qed.
Print Assumptions C09_link_chunk_split_ok.

Theorem C09_link_sorter_total : S_link_sorter_total.
Proof. exact link_sorter_total. Qed.
Print Assumptions C09_link_sorter_total.

Theorem C09_link_ext_sort_domain : S_link_ext_sort_domain.
Proof. exact link_ext_sort_domain. Qed.
Print Assumptions C09_link_ext_sort_domain.

Theorem C09_link_transpose_concrete : S_link_transpose_concrete.
Proof. exact link_transpose_concrete. Qed.
Print Assumptions C09_link_transpose_concrete.

Theorem C09_link_run_xop_concrete : S_link_run_xop_concrete.
Proof. exact link_run_xop_concrete. Qed.
Print Assumptions C09_link_run_xop_concrete.

Theorem C09_link_sorted_par_symm_concrete : S_link_sorted_par_symm_concrete.
Proof. exact link_sorted_par_symm_concrete. Qed.
Print Assumptions C09_link_sorted_par_symm_concrete.

Theorem C09_link_run_labeled_concrete : S_link_run_labeled_concrete.
Proof. exact link_run_labeled_concrete. Qed.
Print Assumptions C09_link_run_labeled_concrete.

(** (c2) the composition the code performs: the C08 pipeline in place of [ext_sort]; every
    transform, sequential and parallel, both readings of the result *)
Theorem C09_link_run_xop_composed : S_link_run_xop_composed.
Proof. exact link_run_xop_composed. Qed.
Print Assumptions C09_link_run_xop_composed.

Theorem C09_link_run_labeled_composed : S_link_run_labeled_composed.
Proof. exact link_run_labeled_composed. Qed.
Print Assumptions C09_link_run_labeled_composed.

(** non-vacuity: the graph and schedule of [C09_nonvacuous]; insertion sort as batch sort;
    three producers with buffer capacities 2, 1, 0 plus the remainder producer (so several
    batches per partition and real merges with tie-breaks); the partitions and boundaries
    the C08 pipeline returns for the transposed arcs; an out-of-range source is refused *)
Example C09_link_nonvacuous :
  let g := [[1;2];[2];[0;2;3];[]] in
  let sp := @chunk_split unit [(2,3);(1,2);(0,1)]%nat in
  let ties := [[1;0;2;3]; [0;1]]%nat in
  let X := arrive [2;0;1]%nat (map (flat_map phi_transpose) (blocks [0;1;1;4] (unit_labels g))) in
  sort_ok (@isort unit) /\ split_ok sp
  /\ X = [((2,1),tt); ((0,2),tt); ((2,2),tt); ((3,2),tt); ((1,0),tt); ((2,0),tt)]
  /\ c08_parts isort CGaps 4 3 false false sp ties X
     = Some ([0; 2; 4; 4],
             [[((0,2),tt); ((1,0),tt)]; [((2,0),tt); ((2,1),tt); ((2,2),tt); ((3,2),tt)]; []])
  /\ c08_run_xop isort CGaps true sp ties XTranspose true 3 [0;1;1;4] [2;0;1]%nat g
     = (Some [[2];[0];[0;1;2];[2]], Some [[2];[0];[0;1;2];[2]])
  /\ c08_run_xop isort CGrouped true sp ties (XSymm true) true 3 [0;1;1;4] [2;0;1]%nat g
     = (Some [[1;2];[0;2];[0;1;3];[2]], Some [[1;2];[0;2];[0;1;3];[2]])
  /\ c08_run_xop isort CGrouped false sp [] (XMap [1;1;0;0] 2) false 5 [0;1;1;4] [2;0;1]%nat g
     = (Some [[0;1];[0;1]], Some [[0;1];[0;1]])
  /\ transpose_par (pipeline_sorter isort CGaps 4 2 false false sp ties) 3 [0;1;1;4] [2;0;1]%nat g
     = Some [[2];[0];[0;1;2];[2]]
  /\ c08_parts isort CGaps 4 3 false false sp ties (((4,0),tt) :: X) = None.
Proof.
  cbv zeta. split; [exact (isort_ok unit)|]. split; [apply link_chunk_split_ok|].
  repeat split; vm_compute; reflexivity.
Qed.
(* ---- links ---- *)
