(** C19 — HyperBall: schedule- and mode-independent, tracks the truth. *)
From WG Require Import Base.Prelude Algo.HyperBall.
