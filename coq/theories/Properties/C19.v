(** C19 — HyperBall: results independent of schedule and mode, tracking the truth.
    Statements and [Print Assumptions] only. *)
From WG Require Import Base.Prelude Algo.HyperBall Algo.HyperBallStatements Algo.HyperBallFacts.

(** after t synchronous rounds the counter of v is the join of the initial counters of the
    ball of radius t around v (any join-semilattice of counters) *)
Theorem C19_ball : S_ball.
Proof. exact ball. Qed.
Print Assumptions C19_ball.

(** element-wise form: the counter of v contains x iff some node of the ball contributed x *)
Theorem C19_ball_mem : S_ball_mem.
Proof. exact ball_mem. Qed.
Print Assumptions C19_ball_mem.

(** with singleton counters the iteration computes exactly B_t(v) = {w | d(v,w) <= t} *)
Theorem C19_ball_exact : S_ball_exact.
Proof. exact ball_exact. Qed.
Print Assumptions C19_ball_exact.

(** a join-homomorphism (sets -> HyperLogLog registers) commutes with the iteration *)
Theorem C19_hom : S_hom.
Proof. exact hom. Qed.
Print Assumptions C19_hom.

(** counters grow; every monotone size and the neighbourhood function are non-decreasing *)
Theorem C19_nf_monotone : S_nf_monotone.
Proof. exact nf_monotone. Qed.
Print Assumptions C19_nf_monotone.

Theorem C19_nf_monotone_exact : S_nf_monotone_exact.
Proof. exact nf_monotone_exact. Qed.
Print Assumptions C19_nf_monotone_exact.

(** one iteration of the code (ping-pong arrays or spill store, merging only modified
    successors, writing only when needed) with ANY legal skipping decision is one
    synchronous round, flags exactly the changed counters, keeps the invariant *)
Theorem C19_skip_sound : S_skip_sound.
Proof. exact skip_sound. Qed.
Print Assumptions C19_skip_sound.

(** the systolic discipline (check only predecessors of modified nodes) is legal *)
Theorem C19_systolic_legal : S_systolic_legal.
Proof. exact systolic_legal. Qed.
Print Assumptions C19_systolic_legal.

(** the local discipline (scan only modified nodes and their predecessors) is legal *)
Theorem C19_local_legal : S_local_legal.
Proof. exact local_legal. Qed.
Print Assumptions C19_local_legal.

(** every sequence of legal decisions on either store computes the synchronous iteration *)
Theorem C19_mode_independent : S_mode_independent.
Proof. exact mode_independent. Qed.
Print Assumptions C19_mode_independent.

(** the faithful model of [iterate]/[run] as the code is NOW ([ic.local = ic.pre_local &&
    ic.systolic]) with all its bookkeeping and mode switches, on either store, with or
    without transpose: the counters after every iteration are those of the synchronous
    iteration (hence, by C19_ball, the join over the ball) *)
Theorem C19_concrete : S_concrete_full.
Proof. exact concrete_full. Qed.
Print Assumptions C19_concrete.

(** the neighbourhood function of the repaired code is exact: after every iteration
    [self.last] (the value before the monotone clamp) is the sum over all nodes of the
    size of the counter of that round -- the scan of a standard iteration and the systolic
    compensation [last + sum over modified v of (size (new v) - size (old v))] are exact,
    for every semilattice, every [size], every initial counters, store, transpose, bound;
    with a monotone [size] and initial total size [n] the clamp is the identity and the
    recorded sequence is the neighbourhood function of the synchronous iteration *)
Theorem C19_nf_exact : S_nf_exact.
Proof. exact nf_exact. Qed.
Print Assumptions C19_nf_exact.

(** instance with no hypothesis on [size]: bit sets with their cardinality, singletons as
    initial counters; the recorded sequence is the exact neighbourhood function *)
Theorem C19_nf_exact_bits : S_nf_exact_bits.
Proof. exact nf_exact_bits. Qed.
Print Assumptions C19_nf_exact_bits.

(** the repaired code never runs a local iteration that is not systolic *)
Theorem C19_local_systolic : S_local_systolic.
Proof. exact local_systolic. Qed.
Print Assumptions C19_local_systolic.

(** the per-node writes of an iteration commute: any order of the blocks gives the same array *)
Theorem C19_schedule : S_schedule.
Proof. exact schedule. Qed.
Print Assumptions C19_schedule.

(** if a round changes nothing, no later one does (specification and code) *)
Theorem C19_stable_fixpoint : S_stable_fixpoint.
Proof. exact stable_fixpoint. Qed.
Print Assumptions C19_stable_fixpoint.

Theorem C19_stable_code : S_stable_code.
Proof. exact stable_code. Qed.
Print Assumptions C19_stable_code.

(** REPAIRED DEFECT, statement about the PRE-repair rule [ic.local = ic.pre_local] (model
    [hb_run_prefix] = [hb_run_gen false]; the code no longer behaves so): that model reaches
    a local, non-systolic iteration whose neighbourhood-function entry is not the sum of the
    sizes (counters are right) *)
Theorem C19_nf_refuted : S_nf_refuted.
Proof. exact nf_refuted. Qed.
Print Assumptions C19_nf_refuted.

(** on the same witness the repaired rule goes through a pre-local iteration, runs no local
    non-systolic iteration and records the exact value (non-vacuity of C19_nf_exact on a
    run that exercises the repaired branch) *)
Theorem C19_nf_witness_repaired : S_nf_witness_repaired.
Proof. exact nf_witness_repaired. Qed.
Print Assumptions C19_nf_witness_repaired.

(** non-vacuity: on the path 0 -> 1 -> 2 the second iteration legally skips nodes 1 and 2,
    the third skips everything, and the result is the synchronous iteration *)
Example C19_nonvacuous :
  let g : graph := [[1]; [2]; []] in
  let c0 := singletons 3 in
  let s0 := mkA (list bool) c0 (repeat [] 3) (repeat true 3) in
  let all := fun _ : nat => true in
  let ds := [(all, all); (all, fun v => Nat.eqb v 0); (all, fun _ : nat => false)] in
  legal bits_join bits_eqb [] false g s0 ds /\
  a_curr _ (arun bits_join bits_eqb [] false g s0 ds)
  = [[true; true; true]; [false; true; true]; [false; false; true]].
Proof.
  cbv zeta. split; [|vm_compute; reflexivity].
  cbn [legal fst snd]. repeat split; try (intros _ v H; discriminate).
  - intros v H. discriminate.
  - intros v H. destruct v as [|[|[|v]]];
      first [discriminate | vm_compute; reflexivity
             | unfold anylive, succs; rewrite nth_overflow by (cbn; lia); reflexivity].
  - intros v H. destruct v as [|[|[|v]]];
      first [vm_compute; reflexivity
             | unfold anylive, succs; rewrite nth_overflow by (cbn; lia); reflexivity].
Qed.

(** non-vacuity of the ball theorem: node 0 of that path within two steps *)
Example C19_ball_example :
  nth 2 (get (list bool) [] (sync_iter (list bool) bits_join [] [[1]; [2]; []] 2 (singletons 3)) 0) false = true
  /\ within [[1]; [2]; []] 2 0 2.
Proof.
  split; [vm_compute; reflexivity|].
  apply (within_step _ 1 0 1 2); [left; reflexivity|].
  apply (within_step _ 0 1 2 2); [left; reflexivity|]. apply within_refl.
Qed.

(** non-vacuity of C19_nf_exact_bits: a run with transpose that goes through standard,
    systolic, pre-local and local iterations and records the exact neighbourhood function
    of the graph (number of pairs within distance t, t = 0, 1, 2, ...) *)
Example C19_nf_example :
  let g : graph := [[1]; [2]; [3]; [4]; [5]; [6]; [7]; []; []; []; []; []; []; []; []; []] in
  let gt : graph := [[]; [0]; [1]; [2]; [3]; [4]; [5]; [6]; []; []; []; []; []; []; []; []] in
  let states := hb_run (list bool) bits_join bits_eqb [] bits_size false true g gt 16 (singletons 16) in
  transposeb g gt = true /\
  existsb (fun s => c_sys _ s && c_local _ s) states = true /\
  existsb (fun s => c_sys _ s && negb (c_local _ s)) states = true /\
  rev (c_nf _ (last states (init_state _ [] (singletons 16)))) = [16; 23; 29; 34; 38; 41; 43; 44; 44]%Z.
Proof. cbv zeta. repeat split; vm_compute; reflexivity. Qed.
