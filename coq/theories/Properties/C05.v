(** C05 — offsets always match the bitstream.  Statements and [Print Assumptions] only. *)
From WG Require Import Base.Prelude Codes.Codes BV.Model BV.RefSel BV.Statements BV.Bits
  BV.BitsFacts BV.OffsetsStatements BV.OffsetsFacts Par.Splice Par.SpliceFacts.
Local Open Scope N_scope.

(** the positions at which the decoder starts the records are the prefix sums of the
    record lengths the compressor reports to the offsets writer *)
Theorem C05_offsets_positions : S_offsets_positions.
Proof. exact offsets_positions. Qed.
Print Assumptions C05_offsets_positions.

(** n+1 entries; the last one is the length of the bit stream *)
Theorem C05_offsets_shape : S_offsets_shape.
Proof. exact offsets_shape. Qed.
Print Assumptions C05_offsets_shape.

(** the γ-coded offsets file reads back as 0 followed by the gaps *)
Theorem C05_offsets_file : S_offsets_file.
Proof. exact offsets_file. Qed.
Print Assumptions C05_offsets_file.

(** parallel compression: the concatenated per-chunk gap streams are the gaps of the
    whole stream (second component of the splice result) *)
Theorem C05_offsets_par : S_par_comp_eq_seq.
Proof. exact par_comp_eq_seq. Qed.
Print Assumptions C05_offsets_par.
