(** C05 — offsets always match the bitstream.  Statements and [Print Assumptions] only. *)
From WG Require Import Base.Prelude Codes.Codes BV.Model BV.RefSel BV.Statements BV.Bits
  BV.BitsFacts BV.OffsetsStatements BV.OffsetsFacts Par.Splice Par.SpliceFacts.
Local Open Scope N_scope.

(** the positions at which the decoder starts the records are the prefix sums of the
    record lengths the compressor reports to the offsets writer *)
Theorem C05_offsets_positions : S_offsets_positions.
Proof. exact offsets_positions. Qed.
Print Assumptions C05_offsets_positions.

(** n+1 entries; the last one is the length of the bit stream *)
Theorem C05_offsets_shape : S_offsets_shape.
Proof. exact offsets_shape. Qed.
Print Assumptions C05_offsets_shape.

(** the γ-coded offsets file reads back as 0 followed by the gaps *)
Theorem C05_offsets_file : S_offsets_file.
Proof. exact offsets_file. Qed.
Print Assumptions C05_offsets_file.

(** parallel compression: the concatenated per-chunk gap streams are the gaps of the
    whole stream (second component of the splice result) *)
Theorem C05_offsets_par : S_par_comp_eq_seq.
Proof. exact par_comp_eq_seq. Qed.
Print Assumptions C05_offsets_par.

(* ---- links ---- *)
(** C12 o C05 o C03: a loader given only the three files — the properties text, the .graph
    stream and the .offsets file — reads the offsets table the encoder's positions define
    (n taken from the text), reaches every node's list by random access through it, and
    finds the last offset in the text's [length] key *)
From WG Require Import BV.Access BV.AccessStatements Flags.Props
  Links.LoadLinkStatements Links.LoadLinkFacts.
Theorem C05_link_load_files : S_link_load_files.
Proof. exact link_load_files. Qed.
Print Assumptions C05_link_load_files.

(** non-vacuity: the offsets file of a concrete compressed graph is read back, node 3 is
    reached through it, and the text's length is the last offset *)
Example C05_link_nonvacuous :
  let f := mkFlags (mkCodes Gamma Unary Gamma Gamma (Zeta 3)) 3 2 2 in
  let p := params_of_flags f in let cs := fl_codes f in
  let g := [[1;2;3;4;5;9]; [1;2;3;4;5;10]; []; [0;1;2;3;4;5;6;7;20]] in
  let sel := greedy_sel p cs 0 g in
  let recs := encode_graph p 0 g sel in
  let st := mkStats 4 21 (nlen (graph_bits true cs recs)) in
  exists text, to_props true st f = Some text
    /\ load_ra_files true text (offsets_bits (node_bitlens true cs recs) ++ [true])
         (enc_stream true cs p g sel [false; true]) 4 3 = Some [0;1;2;3;4;5;6;7;20]
    /\ props_length text = Some (last (enc_offs true cs p g sel) 0).
Proof. cbv zeta. eexists. split; [vm_compute; reflexivity|]. split; vm_compute; reflexivity. Qed.
