(** C01 — sequential BV compression round-trips every graph under every valid
    configuration.  Statements and [Print Assumptions] only. *)
From WG Require Import Base.Prelude Codes.Codes Codes.Statements Codes.CodesFacts
  BV.Model BV.RefSel BV.Statements BV.CompFacts BV.NodeFacts BV.GraphFacts
  BV.Bits BV.BitsFacts BV.SelStatements BV.GreedyFacts BV.ZuckFacts
  Flags.Props Flags.Statements Flags.PropsFacts.
Local Open Scope N_scope.

(** copy blocks reassemble the list, for any two lists *)
Theorem C01_copy_perm : S_copy_perm.
Proof. exact copy_perm. Qed.
Print Assumptions C01_copy_perm.

(** no truncated subtraction, no overrun *)
Theorem C01_blocks_wf : S_blocks_wf.
Proof. exact blocks_wf. Qed.
Print Assumptions C01_blocks_wf.

Theorem C01_intervalize_perm : S_intervalize_perm.
Proof. exact intervalize_perm. Qed.
Print Assumptions C01_intervalize_perm.

(** one node, any reader, any window / min interval length / reference *)
Theorem C01_node_roundtrip : S_node_roundtrip.
Proof. exact node_roundtrip. Qed.
Print Assumptions C01_node_roundtrip.

(** whole graph at field level, any valid reference selection *)
Theorem C01_roundtrip_fields : S_graph_roundtrip.
Proof. exact graph_roundtrip. Qed.
Print Assumptions C01_roundtrip_fields.

(** the 15 nameable codes (and every other parameter k) are prefix codes with the
    advertised length, in both bit orders *)
Theorem C01_code_roundtrip : S_code_roundtrip.
Proof. exact code_roundtrip. Qed.
Print Assumptions C01_code_roundtrip.

Theorem C01_code_len : S_code_len.
Proof. exact code_len_correct. Qed.
Print Assumptions C01_code_len.

(** whole graph at bit level: every code assignment, both endiannesses, every valid
    selection, every strictly increasing graph; trailing bits (padding) untouched *)
Theorem C01_roundtrip_bits : S_graph_roundtrip_bits.
Proof. exact graph_roundtrip_bits. Qed.
Print Assumptions C01_roundtrip_bits.

(** the greedy compressor's selection is valid, hence covered by the theorem above *)
Theorem C01_greedy_roundtrip :
  forall le cs p g rest,
  codes_ok cs = true -> Forall inc g ->
  decode_graph bits (rd_bits le cs) p (length g)
    (graph_bits le cs (encode_graph p 0 g (greedy_sel p cs 0 g)) ++ rest) = Some (g, rest).
Proof.
  intros. apply graph_roundtrip_bits; auto. apply greedy_valid.
Qed.
Print Assumptions C01_greedy_roundtrip.

(** ... and so is the Zuckerli-style compressor's, for every chunk size *)
Theorem C01_zuck_roundtrip :
  forall le cs p k g rest,
  codes_ok cs = true -> Forall inc g ->
  decode_graph bits (rd_bits le cs) p (length g)
    (graph_bits le cs (encode_graph p 0 g (zuck_sel p cs k 0 g)) ++ rest) = Some (g, rest).
Proof.
  intros. apply graph_roundtrip_bits; auto. apply zuck_valid.
Qed.
Print Assumptions C01_zuck_roundtrip.

(** a configuration is refused (no properties file) exactly when the format cannot
    represent its codes; otherwise the written parameters parse back (C12) *)
Theorem C01_refusal : S_props_refusal.
Proof. exact props_refusal. Qed.
Print Assumptions C01_refusal.

(** non-vacuity: a concrete graph meets the hypotheses and the default codes are ok *)
Example C01_nonvacuous :
  let g := [[1;2;3;4;5;9]; [1;2;3;4;5;10]; []; [0;1;2;3;4;5;6;7;20]; [2;3;9;10;11;12;13]] in
  let p := mkParams 7 (Some 3) 4 in
  let cs := mkCodes Gamma Unary Gamma Gamma (Zeta 3) in
  Forall inc g /\ codes_ok cs = true /\ valid_sel p [] g [0;1;0;0;0] = true.
Proof.
  cbv zeta. split; [|split; vm_compute; reflexivity].
  repeat constructor; vm_compute; reflexivity.
Qed.
