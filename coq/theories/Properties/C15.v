(** C15 — strongly connected components are computed exactly by all four algorithms.
    Statements and [Print Assumptions] only. *)
From WG Require Import Base.Prelude Algo.Scc Algo.SccStatements Algo.SccFacts.
Local Open Scope nat_scope.

(** the executable closure used by the checker computes reachability *)
Theorem C15_reach_correct : S_reach_correct.
Proof. exact reach_correct. Qed.
Print Assumptions C15_reach_correct.
