(** C15 — strongly connected components are computed exactly by all four algorithms.
    Statements and [Print Assumptions] only. *)
From WG Require Import Base.Prelude Algo.Scc Algo.SccStatements Algo.SccFacts Algo.SccOrder
  Algo.SccTarjan.
Local Open Scope nat_scope.

(** the executable closure used by the checker computes reachability *)
Theorem C15_reach_correct : S_reach_correct.
Proof. exact reach_correct. Qed.
Print Assumptions C15_reach_correct.

(** [check_scc g comp k = true] iff [g] is well formed and [comp] is the partition into
    strongly connected components with component indices dense in [0,k) — every graph, no
    size bound.  This is the run-time oracle applied to every output of the implementation. *)
Theorem C15_checker_sound_complete : S_checker_sound_complete.
Proof. exact checker_sound_complete. Qed.
Print Assumptions C15_checker_sound_complete.

(** renumbering by size: for every permutation the (unstable) sort may return, the partition
    is preserved, indices stay dense, the returned sizes are the sizes of the new numbering
    and are non-increasing, and an SCC partition stays an SCC partition *)
Theorem C15_sort_by_size : S_sort_by_size.
Proof. exact sort_by_size_correct. Qed.
Print Assumptions C15_sort_by_size.

(** the driver's test of the permutation reconstructed from the implementation's output *)
Theorem C15_sorts_by_sizeb_sound : S_sorts_by_sizeb_sound.
Proof. exact sorts_by_sizeb_sound. Qed.
Print Assumptions C15_sorts_by_sizeb_sound.

(** symm_seq: on every symmetric graph the successive depth-first visits number exactly the
    connected components, densely *)
Theorem C15_symm_seq : S_symm_seq.
Proof. exact symm_seq_correct. Qed.
Print Assumptions C15_symm_seq.

(** symm_par: the same for the level-synchronous parallel visit under every schedule *)
Theorem C15_symm_par : S_symm_par.
Proof. exact symm_par_correct. Qed.
Print Assumptions C15_symm_par.

(** for every schedule symm_par returns exactly what symm_seq returns, numbering included *)
Theorem C15_symm_par_eq_seq : S_symm_par_eq_seq.
Proof. exact symm_par_eq_seq. Qed.
Print Assumptions C15_symm_par_eq_seq.

(** Kosaraju's second phase (visits of the transpose in the given root order) yields the SCC
    partition for every root order with the finishing-order property *)
Theorem C15_kosaraju_phase2 : S_kosaraju_phase2.
Proof. exact kosaraju_phase2. Qed.
Print Assumptions C15_kosaraju_phase2.

(** [top_sort] (nodes by decreasing postvisit time of the depth-first visit) contains every
    node and has the finishing-order property *)
Theorem C15_top_sort_finish_ordered : S_top_sort_finish_ordered.
Proof. exact top_sort_finish_ordered. Qed.
Print Assumptions C15_top_sort_finish_ordered.

(** Kosaraju: for every graph and every transpose of it, the output is the SCC partition
    with dense indices *)
Theorem C15_kosaraju : S_kosaraju.
Proof. exact kosaraju_correct. Qed.
Print Assumptions C15_kosaraju.

Theorem C15_transpose_ok : S_transpose_ok.
Proof. exact transpose_is_transpose. Qed.
Print Assumptions C15_transpose_ok.

(** the executable finishing-order test (evaluated by the driver on [top_sort g]) is sound *)
Theorem C15_finish_orderedb_sound : S_finish_orderedb_sound.
Proof. exact finish_orderedb_sound. Qed.
Print Assumptions C15_finish_orderedb_sound.

(** Tarjan's and Kosaraju's models are correct on every digraph (self-loops included) with
    at most 4 nodes: 1 + 2 + 16 + 512 + 65536 graphs, by computation with the proved checker *)
Theorem C15_tarjan_partial : S_tarjan_upto4.
Proof. exact tarjan_upto4. Qed.
Print Assumptions C15_tarjan_partial.

(** Tarjan (the event-handler model of algo/src/sccs/tarjan.rs: decreasing timestamps,
    [high_link] reused as the output, the lead bit stack, the component stack, the early exit
    with the drain of the visit stack): for every well-formed graph, no size bound, the output
    is the partition into strongly connected components with dense indices *)
Theorem C15_tarjan : S_tarjan.
Proof. exact tarjan_correct. Qed.
Print Assumptions C15_tarjan.

Theorem C15_kosaraju_upto4 : S_kosaraju_upto4.
Proof. exact kosaraju_upto4. Qed.
Print Assumptions C15_kosaraju_upto4.

(** non-vacuity: the lozenge of algo/tests/test_sccs.rs with Tarjan's numbering, a symmetric
    graph with three components, a size sort with a tie *)
Example C15_nonvacuous_tarjan :
  let g := [[1;2];[0;3];[3];[]] in
  wf_graph g /\ tarjan g = ([2;2;1;0], 3) /\ check_scc g [2;2;1;0] 3 = true
  /\ kosaraju g (transpose g) = ([0;0;1;2], 3) /\ is_transpose g (transpose g).
Proof.
  cbv zeta. split; [apply wf_graphb_spec; vm_compute; reflexivity|].
  split; [vm_compute; reflexivity|]. split; [vm_compute; reflexivity|]. split; [vm_compute; reflexivity|].
  apply transpose_is_transpose. apply wf_graphb_spec. vm_compute. reflexivity.
Qed.

(** the early exit of Tarjan's algorithm (all nodes discovered and a high link equal to the
    root's: the visit is interrupted and the visit path drained) is covered by [C15_tarjan] *)
Example C15_nonvacuous_tarjan_early :
  let g := [[1];[2;0];[3];[1;0]] in
  wf_graph g /\ tarjan_early g = true /\ tarjan g = ([0;0;0;0], 1)
  /\ is_scc_partition g (fst (tarjan g)) (snd (tarjan g)).
Proof.
  cbv zeta. assert (H : wf_graph [[1];[2;0];[3];[1;0]]) by (apply wf_graphb_spec; vm_compute; reflexivity).
  split; [exact H|]. split; [vm_compute; reflexivity|]. split; [vm_compute; reflexivity|].
  apply C15_tarjan. exact H.
Qed.

Example C15_nonvacuous_symm :
  let g := [[1];[0;2];[1];[4];[3];[]] in
  wf_graph g /\ symmetric g /\ symm_seq g = ([0;0;0;1;1;2], 3)
  /\ symm_par (fun _ l => rev l) g = ([0;0;0;1;1;2], 3).
Proof.
  cbv zeta. split; [apply wf_graphb_spec; vm_compute; reflexivity|].
  split; [|split; vm_compute; reflexivity].
  intros u v. unfold arc, succs.
  destruct u as [|[|[|[|[|[|u]]]]]]; cbn; intros H; try (destruct u; cbn in H; contradiction);
    repeat (destruct H as [H|H]; [subst v; cbn; tauto|]); try contradiction.
Qed.

Example C15_nonvacuous_sort :
  let comp := [0;1;1;2;2;3] in
  sorts_by_size (compute_sizes comp 4) [2;1;0;3] /\ sorts_by_size (compute_sizes comp 4) [1;2;3;0]
  /\ sort_by_size comp 4 [2;1;0;3] = ([2;1;1;0;0;3], [2;2;1;1])
  /\ sort_by_size comp 4 [1;2;3;0] = ([3;0;0;1;1;2], [2;2;1;1]).
Proof.
  cbv zeta. split; [apply sorts_by_sizeb_sound; vm_compute; reflexivity|].
  split; [apply sorts_by_sizeb_sound; vm_compute; reflexivity|]. split; vm_compute; reflexivity.
Qed.
