(** C15 — strongly connected components are computed exactly by all four algorithms.
    Statements and [Print Assumptions] only. *)
From WG Require Import Base.Prelude Algo.Scc Algo.SccStatements Algo.SccFacts Algo.SccOrder
  Algo.SccTarjan.
Local Open Scope nat_scope.

(** the executable closure used by the checker computes reachability *)
Theorem C15_reach_correct : S_reach_correct.
Proof. exact reach_correct. Qed.
Print Assumptions C15_reach_correct.

(** [check_scc g comp k = true] iff [g] is well formed and [comp] is the partition into
    strongly connected components with component indices dense in [0,k) — every graph, no
    size bound.  This is the run-time oracle applied to every output of the implementation. *)
Theorem C15_checker_sound_complete : S_checker_sound_complete.
Proof. exact checker_sound_complete. Qed.
Print Assumptions C15_checker_sound_complete.

(** renumbering by size: for every permutation the (unstable) sort may return, the partition
    is preserved, indices stay dense, the returned sizes are the sizes of the new numbering
    and are non-increasing, and an SCC partition stays an SCC partition *)
Theorem C15_sort_by_size : S_sort_by_size.
Proof. exact sort_by_size_correct. Qed.
Print Assumptions C15_sort_by_size.

(** the driver's test of the permutation reconstructed from the implementation's output *)
Theorem C15_sorts_by_sizeb_sound : S_sorts_by_sizeb_sound.
Proof. exact sorts_by_sizeb_sound. Qed.
Print Assumptions C15_sorts_by_sizeb_sound.

(** symm_seq: on every symmetric graph the successive depth-first visits number exactly the
    connected components, densely *)
Theorem C15_symm_seq : S_symm_seq.
Proof. exact symm_seq_correct. Qed.
Print Assumptions C15_symm_seq.

(** symm_par: the same for the level-synchronous parallel visit under every schedule *)
Theorem C15_symm_par : S_symm_par.
Proof. exact symm_par_correct. Qed.
Print Assumptions C15_symm_par.

(** for every schedule symm_par returns exactly what symm_seq returns, numbering included *)
Theorem C15_symm_par_eq_seq : S_symm_par_eq_seq.
Proof. exact symm_par_eq_seq. Qed.
Print Assumptions C15_symm_par_eq_seq.

(** Kosaraju's second phase (visits of the transpose in the given root order) yields the SCC
    partition for every root order with the finishing-order property *)
Theorem C15_kosaraju_phase2 : S_kosaraju_phase2.
Proof. exact kosaraju_phase2. Qed.
Print Assumptions C15_kosaraju_phase2.

(** [top_sort] (nodes by decreasing postvisit time of the depth-first visit) contains every
    node and has the finishing-order property *)
Theorem C15_top_sort_finish_ordered : S_top_sort_finish_ordered.
Proof. exact top_sort_finish_ordered. Qed.
Print Assumptions C15_top_sort_finish_ordered.

(** Kosaraju: for every graph and every transpose of it, the output is the SCC partition
    with dense indices *)
Theorem C15_kosaraju : S_kosaraju.
Proof. exact kosaraju_correct. Qed.
Print Assumptions C15_kosaraju.

Theorem C15_transpose_ok : S_transpose_ok.
Proof. exact transpose_is_transpose. Qed.
Print Assumptions C15_transpose_ok.

(** the executable finishing-order test (evaluated by the driver on [top_sort g]) is sound *)
Theorem C15_finish_orderedb_sound : S_finish_orderedb_sound.
Proof. exact finish_orderedb_sound. Qed.
Print Assumptions C15_finish_orderedb_sound.

(** Tarjan's and Kosaraju's models are correct on every digraph (self-loops included) with
    at most 4 nodes: 1 + 2 + 16 + 512 + 65536 graphs, by computation with the proved checker *)
Theorem C15_tarjan_partial : S_tarjan_upto4.
Proof. exact tarjan_upto4. Qed.
Print Assumptions C15_tarjan_partial.

(** Tarjan (the event-handler model of algo/src/sccs/tarjan.rs: decreasing timestamps,
    [high_link] reused as the output, the lead bit stack, the component stack, the early exit
    with the drain of the visit stack): for every well-formed graph, no size bound, the output
    is the partition into strongly connected components with dense indices *)
Theorem C15_tarjan : S_tarjan.
Proof. exact tarjan_correct. Qed.
Print Assumptions C15_tarjan.

Theorem C15_kosaraju_upto4 : S_kosaraju_upto4.
Proof. exact kosaraju_upto4. Qed.
Print Assumptions C15_kosaraju_upto4.

(** non-vacuity: the lozenge of algo/tests/test_sccs.rs with Tarjan's numbering, a symmetric
    graph with three components, a size sort with a tie *)
Example C15_nonvacuous_tarjan :
  let g := [[1;2];[0;3];[3];[]] in
  wf_graph g /\ tarjan g = ([2;2;1;0], 3) /\ check_scc g [2;2;1;0] 3 = true
  /\ kosaraju g (transpose g) = ([0;0;1;2], 3) /\ is_transpose g (transpose g).
Proof.
  cbv zeta. split; [apply wf_graphb_spec; vm_compute; reflexivity|].
  split; [vm_compute; reflexivity|]. split; [vm_compute; reflexivity|]. split; [vm_compute; reflexivity|].
  apply transpose_is_transpose. apply wf_graphb_spec. vm_compute. reflexivity.
Qed.

(** the early exit of Tarjan's algorithm (all nodes discovered and a high link equal to the
    root's: the visit is interrupted and the visit path drained) is covered by [C15_tarjan] *)
Example C15_nonvacuous_tarjan_early :
  let g := [[1];[2;0];[3];[1;0]] in
  wf_graph g /\ tarjan_early g = true /\ tarjan g = ([0;0;0;0], 1)
  /\ is_scc_partition g (fst (tarjan g)) (snd (tarjan g)).
Proof.
  cbv zeta. assert (H : wf_graph [[1];[2;0];[3];[1;0]]) by (apply wf_graphb_spec; vm_compute; reflexivity).
  split; [exact H|]. split; [vm_compute; reflexivity|]. split; [vm_compute; reflexivity|].
  apply C15_tarjan. exact H.
Qed.

Example C15_nonvacuous_symm :
  let g := [[1];[0;2];[1];[4];[3];[]] in
  wf_graph g /\ symmetric g /\ symm_seq g = ([0;0;0;1;1;2], 3)
  /\ symm_par (fun _ l => rev l) g = ([0;0;0;1;1;2], 3).
Proof.
  cbv zeta. split; [apply wf_graphb_spec; vm_compute; reflexivity|].
  split; [|split; vm_compute; reflexivity].
  intros u v. unfold arc, succs.
  destruct u as [|[|[|[|[|[|u]]]]]]; cbn; intros H; try (destruct u; cbn in H; contradiction);
    repeat (destruct H as [H|H]; [subst v; cbn; tauto|]); try contradiction.
Qed.

Example C15_nonvacuous_sort :
  let comp := [0;1;1;2;2;3] in
  sorts_by_size (compute_sizes comp 4) [2;1;0;3] /\ sorts_by_size (compute_sizes comp 4) [1;2;3;0]
  /\ sort_by_size comp 4 [2;1;0;3] = ([2;1;1;0;0;3], [2;2;1;1])
  /\ sort_by_size comp 4 [1;2;3;0] = ([3;0;0;1;1;2], [2;2;1;1]).
Proof.
  cbv zeta. split; [apply sorts_by_sizeb_sound; vm_compute; reflexivity|].
  split; [apply sorts_by_sizeb_sound; vm_compute; reflexivity|]. split; vm_compute; reflexivity.
Qed.

(* ---- visit links ---- *)
(** LINKS C15 o C14 and C15 o C13.  The models above traverse the graph by their own
    structural recursions; the Rust algorithms are callbacks on the events of the visits of
    webgraph/src/visits.  The theorems below identify the two through the C14 / C13 models
    of the visits:
    - [tarjan_run] is the fold of the Rust callback over the events the [SeqPred] machine
      emits for [visit(0..n)], cut at the first [Break], followed by the drain of
      [visit.stack()];
    - [Scc.top_sort] is the C14 model of [top_sort], [Scc.dfs_visit] the marks of a C14
      visit; [symm_seq] and [kosaraju] are the fold of their callback over the events of ONE
      [SeqNoPred] visit ([kosaraju]: on the transpose, with the C14 [top_sort] as roots);
    - [Scc.bfs_visit], under every schedule, marks the nodes the C13 visits mark (the
      sequential one, and the parallel one under every schedule of the C13 model), and
      [symm_par] is the Rust loop over the C13 parallel visits. *)
From WG Require Import Visits.Bfs Visits.Dfs Visits.DfsStatements Links.VisitLinkStatements
  Links.VisitLinkTarjanFacts Links.VisitLinkSccFacts Links.VisitLinkSccBfsFacts.

Theorem C15_link_tarjan_fold : S_link_tarjan_fold.
Proof. exact link_tarjan_fold. Qed.
Print Assumptions C15_link_tarjan_fold.

Theorem C15_link_tarjan_result : S_link_tarjan_result.
Proof. exact link_tarjan_result. Qed.
Print Assumptions C15_link_tarjan_result.

Theorem C15_link_top_sort : S_link_top_sort.
Proof. exact link_top_sort. Qed.
Print Assumptions C15_link_top_sort.

Theorem C15_link_dfs_visit : S_link_dfs_visit.
Proof. exact link_dfs_visit. Qed.
Print Assumptions C15_link_dfs_visit.

Theorem C15_link_comp_loop_dfs : S_link_comp_loop_dfs.
Proof. exact link_comp_loop_dfs. Qed.
Print Assumptions C15_link_comp_loop_dfs.

Theorem C15_link_symm_seq_fold : S_link_symm_seq_fold.
Proof. exact link_symm_seq_fold. Qed.
Print Assumptions C15_link_symm_seq_fold.

Theorem C15_link_kosaraju_fold : S_link_kosaraju_fold.
Proof. exact link_kosaraju_fold. Qed.
Print Assumptions C15_link_kosaraju_fold.

Theorem C15_link_bfs_visit : S_link_bfs_visit.
Proof. exact link_bfs_visit. Qed.
Print Assumptions C15_link_bfs_visit.

Theorem C15_link_bfs_visit_par : S_link_bfs_visit_par.
Proof. exact link_bfs_visit_par. Qed.
Print Assumptions C15_link_bfs_visit_par.

Theorem C15_link_symm_par_fold : S_link_symm_par_fold.
Proof. exact link_symm_par_fold. Qed.
Print Assumptions C15_link_symm_par_fold.

(** non-vacuity of the Tarjan link on the early-exit graph of [C15_nonvacuous_tarjan_early]:
    the machine emits 13 events, the callback breaks on the 7th (the revisit of the root
    from node 3 when every node is discovered), [visit.stack()] = 2, 1, 0 is drained *)
Example C15_link_tarjan_nonvacuous :
  let g := [[1];[2;0];[3];[1;0]] in
  exists evs cf,
    DfsM.dfs DfsM.Pred (gN g) DfsM.no_filter (DfsM.nodes (gN g)) [] [] = DfsOk evs cf
    /\ length evs = 13
    /\ (let '(st, brk, delivered) := fold_until_break tarjan_handler (t_init 4) evs in
        brk = true /\ length delivered = 7 /\ t_high st = [4;3;2;0]
        /\ lnat (tl (path_after delivered)) = [2;1;0])
    /\ tarjan_run g = tarjan_on_events 4 evs
    /\ t_high (fst (tarjan_run g)) = [0;0;0;0].
Proof.
  cbv zeta. eexists. eexists. split; [vm_compute; reflexivity|].
  repeat split; vm_compute; reflexivity.
Qed.

(** ... and on a graph with three components where the visit runs to completion *)
Example C15_link_tarjan_nonvacuous_complete :
  let g := [[1];[2];[0;3];[4];[3];[0]] in
  wf_graph g /\ tarjan_early g = false /\ tarjan g = ([1;1;1;0;0;2], 3)
  /\ exists evs cf,
       DfsM.dfs DfsM.Pred (gN g) DfsM.no_filter (DfsM.nodes (gN g)) [] [] = DfsOk evs cf
       /\ tarjan_run g = tarjan_on_events 6 evs.
Proof.
  cbv zeta.
  assert (H : wf_graph [[1];[2];[0;3];[4];[3];[0]]) by (apply wf_graphb_spec; vm_compute; reflexivity).
  split; [exact H|]. split; [vm_compute; reflexivity|]. split; [vm_compute; reflexivity|].
  exact (C15_link_tarjan_fold _ H).
Qed.

Example C15_link_kosaraju_nonvacuous :
  let g := [[1];[2];[0;3];[4];[3];[0]] in
  SccM.top_sort g = [5;0;1;2;3;4]
  /\ DfsM.top_sort (gN g) = Some [5;0;1;2;3;4]%N
  /\ kosaraju g (transpose g) = ([1;1;1;2;2;0], 3)
  /\ (exists evs cf,
        DfsM.dfs DfsM.NoPred (gN (transpose g)) DfsM.no_filter [5;0;1;2;3;4]%N [] [] = DfsOk evs cf
        /\ fold_left comp_handler evs (repeat 0 6, 0) = ([1;1;1;2;2;0], 3))
  /\ symm_seq [[1];[0;2];[1];[4];[3];[]] = ([0;0;0;1;1;2], 3).
Proof.
  cbv zeta. split; [vm_compute; reflexivity|]. split; [vm_compute; reflexivity|].
  split; [vm_compute; reflexivity|]. split; [|vm_compute; reflexivity].
  eexists. eexists. split; vm_compute; reflexivity.
Qed.

(** the breadth-first link is an equality of SETS: the two models list the marked nodes in
    different orders (the C15 model pushes a level in reverse) *)
Example C15_link_bfs_visit_nonvacuous :
  let g := [[1;2];[3];[4];[];[]] in
  bfs_visit id_sched g 0 [] = [3;4;2;1;0]
  /\ fst (bfs_seq (gN g) BfsM.no_filter [0%N] []) = [4;3;2;1;0]%N
  /\ bfs_visit (fun _ l => rev l) g 1 [3] = [1;3]
  /\ fst (bfs_seq (gN g) BfsM.no_filter [1%N] [3%N]) = [1;3]%N.
Proof. cbv zeta. repeat split; vm_compute; reflexivity. Qed.

(** [symm_par] on the C13 parallel visits, with schedules that differ on the two sides *)
Example C15_link_symm_par_nonvacuous :
  let g := [[1];[0;2];[1];[4];[3];[]] in
  let sch := fun (r d : N) (l : list (N * N)) => if N.even (r + d) then rev l else l in
  symm_par (fun _ l => rev l) g = ([0;0;0;1;1;2], 3)
  /\ fold_left (par_comp_step (gN g) sch) (nseq 0%N 6) ([], repeat 0 6, 0)
     = ([5;3;4;0;1;2]%N, [0;0;0;1;1;2], 3).
Proof. cbv zeta. split; vm_compute; reflexivity. Qed.
(* ---- visit links ---- *)

(* ---- big checkers ---- *)
(** The oracle of the large-n probe (channel "sccbig": [sort_by_size] / [par_sort_by_size]
    on component arrays of several hundred thousand nodes, far above the minimum task length
    of the parallel loops).  [big_check_sort_by_size] (Algo/BigCheck.v) runs in O(n log n)
    on lists - a merge sort of (key, payload) pairs and linear scans - and DECIDES the
    hypothesis and the five array-level conclusions of [S_sort_by_size]. *)
From WG Require Import Algo.BigCheck Algo.BigCheckStatements Algo.BigCheckFacts.

(** the merge sort all three checkers rest on: a permutation of the input, sorted by key *)
Theorem C15_big_ksort_correct : S_ksort_correct.
Proof. exact ksort_correct. Qed.
Print Assumptions C15_big_ksort_correct.

(** the checker returns [true] iff the old indices are below [k], the arrays have the same
    length and induce the same partition, the new indices are below [k], and the sizes are
    [compute_sizes] of the new array and non-increasing *)
Theorem C15_big_sort_by_size_spec : S_big_sort_by_size_spec.
Proof. exact big_sort_by_size_spec. Qed.
Print Assumptions C15_big_sort_by_size_spec.

(** it accepts whatever the model of [sort_by_size] returns ([C15_sort_by_size]) *)
Theorem C15_big_sort_by_size_model : S_big_sort_by_size_model.
Proof. exact big_sort_by_size_model. Qed.
Print Assumptions C15_big_sort_by_size_model.

(** non-vacuity: the two renumberings of [C15_nonvacuous_sort] are accepted; a merge of two
    components, a split, wrong sizes, sizes in the wrong order, an index out of range and a
    missing size are refused *)
Example C15_big_sort_by_size_example :
  big_check_sort_by_size 4 [0;1;1;2;2;3]%N [2;1;1;0;0;3]%N [2;2;1;1]%N = true
  /\ big_check_sort_by_size 4 [0;1;1;2;2;3]%N [3;0;0;1;1;2]%N [2;2;1;1]%N = true
  /\ big_check_sort_by_size 4 [0;1;1;2;2;3]%N [3;0;0;1;1;1]%N [2;3;0;1]%N = false
  /\ big_check_sort_by_size 4 [0;1;1;2;2;3]%N [3;0;1;1;0;2]%N [2;2;1;1]%N = false
  /\ big_check_sort_by_size 4 [0;1;1;2;2;3]%N [3;0;0;1;1;2]%N [2;2;1;2]%N = false
  /\ big_check_sort_by_size 4 [0;1;1;2;2;3]%N [0;1;1;2;2;3]%N [1;2;2;1]%N = false
  /\ big_check_sort_by_size 4 [0;1;1;2;2;3]%N [4;0;0;1;1;2]%N [2;2;1;1]%N = false
  /\ big_check_sort_by_size 4 [0;1;1;2;2;3]%N [3;0;0;1;1;2]%N [2;2;1]%N = false.
Proof. vm_compute. repeat split; reflexivity. Qed.
(* ---- big checkers ---- *)
