(** C18 — PageRank converges to the solution of its documented equation.
    Statements and [Print Assumptions] only.  The model (Algo/PageRankM.v) is over exact
    rationals: the racy reads of the parallel sweep are modelled as an arbitrary write order
    plus an arbitrary choice, per read, between the old and the new value; f64 rounding is
    outside the model. *)
From WG Require Import Algo.PageRankQ Algo.PageRankStatements Algo.PageRankFacts.
Local Open Scope Q_scope.

(** the certificate checker accepts only exact solutions of x (I - alpha (P + d^T u)) = (1 - alpha) v *)
Theorem C18_exact_certificate : S_exact_certificate.
Proof. exact exact_certificate_thm. Qed.
Print Assumptions C18_exact_certificate.

(** the system has at most one solution (x -> x (P + d^T u) is non-expansive in l1, alpha < 1) *)
Theorem C18_unique : S_unique.
Proof. exact unique_thm. Qed.
Print Assumptions C18_unique.

(** a-posteriori bound: (1 - alpha) |x - x*|_1 <= |residual(x)|_1 for every vector x *)
Theorem C18_residual_bound : S_residual_bound.
Proof. exact residual_bound_thm. Qed.
Print Assumptions C18_residual_bound.

(** a fixed point of the modelled update (self-loop factor, frozen dangling rank, three
    modes) solves the documented system *)
Theorem C18_fixed_point_is_solution : S_fixed_point_is_solution.
Proof. exact fixed_point_is_solution_thm. Qed.
Print Assumptions C18_fixed_point_is_solution.

(** and the documented solution is a fixed point of the update *)
Theorem C18_solution_is_fixed_point : S_solution_is_fixed_point.
Proof. exact solution_is_fixed_point_thm. Qed.
Print Assumptions C18_solution_is_fixed_point.

(** the solution is componentwise non-negative *)
Theorem C18_nonneg : S_nonneg.
Proof. exact nonneg_thm. Qed.
Print Assumptions C18_nonneg.

(** it sums to one in the two stochastic modes *)
Theorem C18_stochastic : S_stochastic.
Proof. exact stochastic_thm. Qed.
Print Assumptions C18_stochastic.

(** the pseudorank divided by its (positive) sum is the strongly preferential PageRank *)
Theorem C18_pseudorank_proportional : S_pseudorank_proportional.
Proof. exact pseudorank_proportional_thm. Qed.
Print Assumptions C18_pseudorank_proportional.

(** the documented stopping quantity alpha/(1-alpha) |x(t) - x(t-1)|_1 bounds the l1 error
    after every asynchronous iteration (any mixture of old and new reads; equational form) *)
Theorem C18_async_error_bound : S_async_error_bound.
Proof. exact async_error_bound_thm. Qed.
Print Assumptions C18_async_error_bound.

(** the same for the executable sweep model: every write order, every staleness choice,
    every start vector; the bound is exactly the norm delta the code reports *)
Theorem C18_error_bound : S_error_bound.
Proof. exact error_bound_thm. Qed.
Print Assumptions C18_error_bound.

(** what the run-time oracle uses: an accepted certificate is the unique solution,
    non-negative, of sum one in the stochastic modes *)
Theorem C18_certified_oracle : S_certified_oracle.
Proof. exact certified_oracle_thm. Qed.
Print Assumptions C18_certified_oracle.

(** non-vacuity: a graph with a dangling node (2), an isolated dangling node (4), a
    self-loop on a non-dangling node (0) and a skewed preference; the extracted solver's
    answer is certified in all three modes, and the pseudorank is not stochastic *)
Example C18_nonvacuous :
  let gt := [[0;1]; [0]; [0;1]; [3]; []]%nat in   (* arcs 0->0 1->0 0->1 0->2 1->2 3->3 *)
  let v := [1#2; 1#8; 1#8; 1#8; 1#8] in
  let a := 85 # 100 in
  (forall md, exists xs, pr_solve gt a v md = Some xs /\ certified gt a v md xs = true)
  /\ (exists ys, pr_solve gt a v PseudoRank = Some ys /\ sumn 5 (vecf ys) < 1)
  /\ dang 5 (predf gt) 2 = true /\ dang 5 (predf gt) 4 = true /\ has_loop (predf gt) 0 = true.
Proof.
  cbv zeta. split; [|split].
  - intros md; destruct md; eexists; (split; [vm_compute; reflexivity|vm_compute; reflexivity]).
  - eexists; split; [vm_compute; reflexivity|vm_compute; reflexivity].
  - vm_compute. repeat split.
Qed.

(** non-vacuity of the error bound: a sweep in reverse write order with a mixed staleness
    pattern that neither starts at nor reaches the solution *)
Example C18_error_bound_nonvacuous :
  let gt := [[0;1]; [0]; [0;1]; [3]; []]%nat in
  let v := [1#2; 1#8; 1#8; 1#8; 1#8] in
  let a := 85 # 100 in
  let order := rev (seq 0 5) in
  let stale := fun i j => Nat.even (i + j) in
  exists sol, certified gt a v WeaklyPreferential sol = true
  /\ Permutation.Permutation order (seq 0 5) /\ length v = length gt
  /\ (let '(xs', _, nrm) := sweep gt a v WeaklyPreferential order stale v
                                  (dangling_rank 5 (predf gt) (vecf v)) in
      0 < l1dist xs' sol /\ 0 < nrm).
Proof.
  cbv zeta.
  destruct (pr_solve [[0;1]; [0]; [0;1]; [3]; []]%nat (85 # 100) [1#2; 1#8; 1#8; 1#8; 1#8] WeaklyPreferential)
    as [sol|] eqn:E; [|vm_compute in E; discriminate].
  exists sol. vm_compute in E. injection E as <-.
  split; [vm_compute; reflexivity|]. split; [apply Permutation.Permutation_sym, Permutation.Permutation_rev|].
  split; [reflexivity|]. vm_compute. split; reflexivity.
Qed.
