(** C14 — depth-first visits, topological sort and the acyclicity test are exact.
    Statements and [Print Assumptions] only. *)
From WG Require Import Base.Prelude Visits.Dfs Visits.DfsStatements Visits.DfsFacts
  Visits.DfsWfFacts Visits.DfsTopoFacts Visits.DfsCheckFacts Visits.DfsSpanFacts.
Local Open Scope N_scope.

(** the fuel n + m + |roots| + 1 never runs out, for every graph, filter, root sequence
    (repetitions included) and marks left by earlier visits; on a well-formed graph with
    roots in range the visit completes with an empty stack *)
Theorem C14_fuel_suffices : S_fuel_suffices.
Proof. exact fuel_suffices. Qed.
Print Assumptions C14_fuel_suffices.

(** SeqPred / SeqNoPred show exactly the erasure of the SeqPath events (no on-stack flag;
    no predecessors and no postvisits) *)
Theorem C14_flavours_erasure : S_flavours_erasure.
Proof. exact flavours_erasure. Qed.
Print Assumptions C14_flavours_erasure.

(** the events of every complete visit (any filter, roots, earlier marks) are accepted by
    the replay automaton: proper nesting, parent = node below on the path, depth = height,
    root = bottom, only arcs of the graph are travelled, previsit only of unknown nodes *)
Theorem C14_events_nested : S_events_nested.
Proof. exact events_nested. Qed.
Print Assumptions C14_events_nested.

(** meaning of acceptance, stated without the automaton *)
Theorem C14_wf_events_sound : S_wf_events_sound.
Proof. exact wf_events_sound. Qed.
Print Assumptions C14_wf_events_sound.

(** a Revisit of SeqPath is flagged on_stack iff its target is on the current visit path,
    which is a path of the graph ending in the revisit's pred *)
Theorem C14_on_stack_iff_ancestor : S_on_stack_iff_ancestor.
Proof. exact on_stack_iff_ancestor. Qed.
Print Assumptions C14_on_stack_iff_ancestor.

(** without filter and from fresh marks, every flavour previsits exactly the nodes
    reachable from the roots, each once (spanning forest of the reachable set) *)
Theorem C14_spanning : S_spanning.
Proof. exact spanning. Qed.
Print Assumptions C14_spanning.

(** top_sort fills exactly its n cells with a permutation of the nodes *)
Theorem C14_top_sort_perm : S_top_sort_perm.
Proof. exact top_sort_perm. Qed.
Print Assumptions C14_top_sort_perm.

(** no on-stack revisit => the reversed postvisit order is topological => no cycle *)
Theorem C14_acyclic_sound : S_acyclic_sound.
Proof. exact acyclic_sound. Qed.
Print Assumptions C14_acyclic_sound.

(** an on-stack revisit exhibits a cycle (path from the target up the stack, plus the arc) *)
Theorem C14_acyclic_complete : S_acyclic_complete.
Proof. exact acyclic_complete. Qed.
Print Assumptions C14_acyclic_complete.

(** is_acyclic always answers, and answers true exactly on graphs without directed cycle *)
Theorem C14_acyclic_iff : S_acyclic_iff.
Proof. exact acyclic_iff. Qed.
Print Assumptions C14_acyclic_iff.

(** on acyclic graphs top_sort is a permutation in which every arc goes forward *)
Theorem C14_top_sort_valid : S_top_sort_valid.
Proof. exact top_sort_valid. Qed.
Print Assumptions C14_top_sort_valid.

(** the oracles: check_topsort decides "permutation + every arc forward" ... *)
Theorem C14_check_topsort_spec : S_check_topsort_spec.
Proof. exact check_topsort_spec. Qed.
Print Assumptions C14_check_topsort_spec.

(** ... which certifies acyclicity *)
Theorem C14_topo_order_acyclic : S_topo_order_acyclic.
Proof. exact topo_order_acyclic. Qed.
Print Assumptions C14_topo_order_acyclic.

(** saturation computes reachability (when it returns) *)
Theorem C14_reach_plus_spec : S_reach_plus_spec.
Proof. exact reach_plus_spec. Qed.
Print Assumptions C14_reach_plus_spec.

Theorem C14_reach_star_spec : S_reach_star_spec.
Proof. exact reach_star_spec. Qed.
Print Assumptions C14_reach_star_spec.

(** the brute-force cycle test is sound and complete (when it returns) *)
Theorem C14_has_cycle_brute_spec : S_has_cycle_brute_spec.
Proof. exact has_cycle_brute_spec. Qed.
Print Assumptions C14_has_cycle_brute_spec.

(** the DfsOrder iterator before its repair did not report the root of the tree (witness
    0 -> 1); the witness is part of the correspondence run *)
Theorem C14_dfs_order_root_refuted : exists g, dfs_order_prefix g <> dfs_order_spec g.
Proof. exists [[1]; []]. vm_compute. discriminate. Qed.
Print Assumptions C14_dfs_order_root_refuted.

(** the iterator as implemented now reports, for every node in previsit order, the root,
    parent and depth of the Previsit event of the visit (whose correctness is
    [C14_wf_events_sound]) *)
Theorem C14_dfs_order_fields : forall g, dfs_order g = dfs_order_spec g.
Proof. reflexivity. Qed.
Print Assumptions C14_dfs_order_fields.

(** non-vacuity: a graph with tree, back, forward and cross arcs and a self-loop; a DAG *)
Example C14_nonvacuous :
  let g := [[1; 2]; [2; 3]; [0; 3]; [3]; [0]] in
  let d := [[1; 2]; [3]; [1; 3]; []; [0]] in
  gwf g = true /\ is_acyclic g = Some false /\ has_cycle_brute g = Some true
  /\ gwf d = true /\ is_acyclic d = Some true /\ has_cycle_brute d = Some false
  /\ top_sort d = Some [4; 0; 2; 1; 3] /\ check_topsort d [4; 0; 2; 1; 3] = true
  /\ (exists evs cf, dfs Path g no_filter [4; 1] [] [] = DfsOk evs cf
        /\ wf_events true g [] evs = true /\ existsb flagged evs = true
        /\ pre_nodes evs = [4; 0; 1; 2; 3]).
Proof.
  cbv zeta. repeat (split; [vm_compute; reflexivity|]).
  eexists. eexists. split; [vm_compute; reflexivity|].
  repeat split; vm_compute; reflexivity.
Qed.

(* ---- visit links ---- *)
(** LINK (bridge for C15 o C14): the event sequence of the explicit-stack machine is the
    recursive trace [rt_roots] (root by root: Init, Previsit, the successors loop — Revisit
    for a known successor, otherwise Previsit / loop / Postvisit of the successor —,
    Postvisit, Done), for every root list and all marks left by earlier visits.  This is
    the form in which the structurally recursive models of C15 consume the visit. *)
From WG Require Import Links.VisitLinkStatements Links.VisitLinkDfsFacts.

Theorem C14_link_trace_recursive : S_dfs_trace_recursive.
Proof. exact dfs_trace_recursive. Qed.
Print Assumptions C14_link_trace_recursive.

(** non-vacuity: a graph with a cycle through the root and two back arcs, a repeated root
    and a mark left by an earlier visit *)
Example C14_link_trace_nonvacuous :
  let g := [[1];[2;0];[3];[1;0];[4;2]] in
  gwf g = true
  /\ fst (rt_roots g [0;4;0] [2])
     = [EInit 0; EPre 0 0 0 0; EPre 1 0 0 1; ERev 2 1 0 2 false; ERev 0 1 0 2 false;
        EPost 1 0 0 1; EPost 0 0 0 0; EDone 0;
        EInit 4; EPre 4 4 4 0; ERev 4 4 4 1 false; ERev 2 4 4 1 false; EPost 4 4 4 0; EDone 4]
  /\ exists cf, DfsM.dfs Pred g DfsM.no_filter [0;4;0] [2] [] = DfsOk (fst (rt_roots g [0;4;0] [2])) cf
                /\ c_known cf = [4;1;0;2].
Proof.
  cbv zeta. split; [vm_compute; reflexivity|]. split; [vm_compute; reflexivity|].
  destruct (C14_link_trace_recursive [[1];[2;0];[3];[1;0];[4;2]] [0;4;0] [2] []) as (cf & H1 & H2).
  - vm_compute. reflexivity.
  - intros r [H|[H|[H|[]]]]; subst r; vm_compute; reflexivity.
  - split; [repeat constructor; intros []|]. intros v [H|[]]. subst v. vm_compute. reflexivity.
  - exists cf. split; [exact H1|]. rewrite H2. vm_compute. reflexivity.
Qed.
(* ---- visit links ---- *)
