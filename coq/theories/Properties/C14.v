(** C14 — depth-first visits, topological sort and the acyclicity test are exact.
    Statements and [Print Assumptions] only. *)
From WG Require Import Base.Prelude Visits.Dfs Visits.DfsStatements Visits.DfsFacts.
Local Open Scope N_scope.

(** the fuel n + m + |roots| + 1 never runs out; well-formed inputs complete *)
Theorem C14_fuel_suffices : S_fuel_suffices.
Proof. exact fuel_suffices. Qed.
Print Assumptions C14_fuel_suffices.

(** SeqPred / SeqNoPred events are the erasure of the SeqPath events *)
Theorem C14_flavours_erasure : S_flavours_erasure.
Proof. exact flavours_erasure. Qed.
Print Assumptions C14_flavours_erasure.
