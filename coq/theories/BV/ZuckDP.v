(** Depth bound after [update_refs_for_max_length]: whatever the DP table (provided its
    column 0 is never "chosen"), the forest left by [dp_apply] has depth at most [M]. *)
From WG Require Import Base.Prelude Codes.Codes BV.Model BV.RefSel BV.ZuckBase.
From Coq Require Import ZifyBool ZifyN ZifyNat.
Local Open Scope N_scope.

(** * Children lists *)

Lemma out_edges_aux_length : forall refs i acc,
  length (out_edges_aux refs i acc) = length acc.
Proof.
  induction refs as [|r refs IH]; intros i acc; cbn [out_edges_aux]; [reflexivity|].
  rewrite IH. destruct (r =? 0); [reflexivity|]. apply upd_length.
Qed.

Lemma out_edges_aux_spec : forall refs i acc j c,
  In c (get [] (out_edges_aux refs i acc) j) <->
  In c (get [] acc j) \/
  ((j < length acc)%nat /\ (i <= c)%nat /\ get 0%N refs (c - i) <> 0 /\
   (c - N.to_nat (get 0%N refs (c - i)))%nat = j).
Proof.
  induction refs as [|r refs IH]; intros i acc j c; cbn [out_edges_aux].
  - split; [intros H; left; exact H|].
    intros [H|[_ [_ [H _]]]]; [exact H|].
    exfalso. apply H. unfold get. destruct (c - i)%nat; reflexivity.
  - rewrite IH. clear IH.
    destruct (r =? 0) eqn:Er.
    + (* nothing added for node i *)
      split.
      * intros [H|[H1 [H2 [H3 H4]]]]; [left; exact H|right].
        replace (c - i)%nat with (S (c - S i)) by lia. rewrite get_cons_S.
        repeat split; try lia; assumption.
      * intros [H|[H1 [H2 [H3 H4]]]]; [left; exact H|right].
        destruct (c - i)%nat as [|k] eqn:Ek.
        { rewrite get_cons_O in H3. lia. }
        rewrite get_cons_S in H3, H4.
        replace (c - S i)%nat with k by lia.
        repeat split; try lia; assumption.
    + rewrite upd_length. rewrite get_upd.
      split.
      * intros [H|[H1 [H2 [H3 H4]]]].
        { destruct ((j =? i - N.to_nat r)%nat && (j <? length acc)%nat)%bool eqn:E;
            [|left; exact H].
          apply in_app_or in H. destruct H as [H|H].
          - left. assert (j = (i - N.to_nat r)%nat) by lia. subst j. exact H.
          - right. cbn [In] in H. destruct H as [H|[]]. subst c.
            rewrite Nat.sub_diag, get_cons_O. repeat split; lia. }
        { right. replace (c - i)%nat with (S (c - S i)) by lia. rewrite get_cons_S.
          repeat split; try lia; assumption. }
      * intros [H|[H1 [H2 [H3 H4]]]].
        { left. destruct ((j =? i - N.to_nat r)%nat && (j <? length acc)%nat)%bool eqn:E;
            [|exact H].
          apply in_or_app. left. assert (j = (i - N.to_nat r)%nat) by lia. subst j. exact H. }
        { destruct (c - i)%nat as [|k] eqn:Ek.
          - rewrite get_cons_O in H3, H4. assert (c = i) by lia. subst c.
            left. assert (E : ((j =? i - N.to_nat r)%nat && (j <? length acc)%nat)%bool = true)
              by lia.
            rewrite E. apply in_or_app. right. left. reflexivity.
          - rewrite get_cons_S in H3, H4. right.
            replace (c - S i)%nat with k by lia.
            repeat split; try lia; assumption. }
Qed.

Lemma out_edges_spec refs : local refs -> forall j c,
  In c (get [] (out_edges refs) j) <->
  (get 0%N refs c <> 0 /\ (c - N.to_nat (get 0%N refs c))%nat = j).
Proof.
  intros L j c. unfold out_edges. rewrite out_edges_aux_spec.
  rewrite repeat_length, Nat.sub_0_r. rewrite get_repeat. split.
  - intros [[]|[H1 [H2 [H3 H4]]]]. split; assumption.
  - intros [H3 H4]. right. repeat split; try lia; try assumption.
    destruct (Nat.lt_ge_cases c (length refs)) as [Hc|Hc].
    + lia.
    + rewrite get_overflow in H3 by exact Hc. lia.
Qed.

(** * [fold_left] of [upd] *)

Lemma fold_upd_get (v : nat) : forall cs av k,
  get O (fold_left (fun a c => upd a c v) cs av) k =
  if (existsb (Nat.eqb k) cs && Nat.ltb k (length av))%bool then v else get O av k.
Proof.
  induction cs as [|c cs IH]; intros av k; cbn [fold_left existsb andb]; [reflexivity|].
  rewrite IH. rewrite upd_length. rewrite get_upd.
  destruct (Nat.eqb k c); destruct (existsb (Nat.eqb k) cs); destruct (Nat.ltb k (length av));
    reflexivity.
Qed.

Lemma existsb_eqb_In k cs : existsb (Nat.eqb k) cs = true <-> In k cs.
Proof.
  rewrite existsb_exists. split.
  - intros [x [H1 H2]]. apply Nat.eqb_eq in H2. subst x. exact H1.
  - intros H. exists k. split; [exact H|apply Nat.eqb_refl].
Qed.

Lemma fold_upd_in v cs av k : In k cs ->
  (get O (fold_left (fun a c => upd a c v) cs av) k <= v)%nat.
Proof.
  intros H. rewrite fold_upd_get. apply existsb_eqb_In in H. rewrite H. cbn [andb].
  destruct (Nat.ltb k (length av)) eqn:E; [lia|].
  apply Nat.ltb_ge in E. rewrite get_overflow by exact E. lia.
Qed.

Lemma fold_upd_notin v cs av k : ~ In k cs ->
  get O (fold_left (fun a c => upd a c v) cs av) k = get O av k.
Proof.
  intros H. rewrite fold_upd_get.
  destruct (existsb (Nat.eqb k) cs) eqn:E; [|reflexivity].
  apply existsb_eqb_In in E. contradiction.
Qed.

Lemma fold_upd_cases v cs av k :
  get O (fold_left (fun a c => upd a c v) cs av) k = v \/
  get O (fold_left (fun a c => upd a c v) cs av) k = get O av k.
Proof.
  rewrite fold_upd_get.
  destruct (existsb (Nat.eqb k) cs && Nat.ltb k (length av))%bool; [left|right]; reflexivity.
Qed.

(** * The walk *)

Section Apply.
  Variable refs0 : list N.
  Hypothesis L0 : local refs0.
  Variable edges : list (list nat).
  Hypothesis edges_spec : forall j c,
    In c (get [] edges j) <->
    (get 0%N refs0 c <> 0 /\ (c - N.to_nat (get 0%N refs0 c))%nat = j).
  Variable table : list (list dp_entry).
  Hypothesis col0 : forall i, snd (get (0%Z, false) (get [] table i) O) = false.
  Variable M : nat.

  Lemma dp_apply_depth : forall n i avail refs,
    (i + n = length refs0)%nat ->
    length refs = length refs0 ->
    (forall j, get 0%N refs j = get 0%N refs0 j \/ get 0%N refs j = 0) ->
    (forall j, (i <= j)%nat -> get 0%N refs j = get 0%N refs0 j) ->
    (forall j, (j < i)%nat -> (depth refs j <= M)%nat) ->
    (forall c, (i <= c)%nat -> get 0%N refs0 c <> 0 ->
               (c - N.to_nat (get 0%N refs0 c) < i)%nat ->
               (depth refs (c - N.to_nat (get 0%N refs0 c)) + get O avail c <= M)%nat) ->
    (forall c, (get O avail c <= M)%nat) ->
    forall j, (depth (dp_apply table edges i n avail refs) j <= M)%nat.
  Proof.
    induction n as [|n IH]; intros i avail refs Hn Hlen Hsub Hsame Ha Hb Hc j.
    - cbn [dp_apply]. destruct (Nat.lt_ge_cases j i) as [Hj|Hj]; [apply Ha; exact Hj|].
      rewrite depth_root; [lia|]. rewrite Hsame by exact Hj.
      apply get_overflow. lia.
    - assert (Lr : local refs) by (eapply local_sub; eassumption).
      cbn [dp_apply]. set (a := get O avail i).
      destruct (snd (get (0%Z, false) (get [] table i) a)) eqn:Ech.
      + (* chosen: keep refs[i], children get a - 1 *)
        assert (Ha1 : (1 <= a)%nat).
        { destruct a as [|a']; [|lia]. rewrite col0 in Ech. discriminate. }
        assert (Hdi : (depth refs i + (a - 1) <= M)%nat).
        { destruct (N.eq_dec (get 0%N refs i) 0) as [E|E].
          - rewrite depth_root by exact E. pose proof (Hc i). fold a in H. lia.
          - rewrite depth_child by assumption.
            assert (E0 : get 0%N refs i = get 0%N refs0 i) by (apply Hsame; lia).
            rewrite E0 in *. pose proof (L0 i) as Li.
            assert (Hp : (i - N.to_nat (get 0%N refs0 i) < i)%nat) by lia.
            pose proof (Hb i (Nat.le_refl i) E Hp) as Hbi. fold a in Hbi. lia. }
        apply IH; try assumption; try lia.
        * intros k Hk. apply Hsame. lia.
        * intros k Hk. destruct (Nat.eq_dec k i) as [->|Hne]; [lia|]. apply Ha. lia.
        * intros c Hci Hc0 Hp.
          destruct (Nat.eq_dec (c - N.to_nat (get 0%N refs0 c)) i) as [Ei|Ei].
          -- rewrite Ei.
             assert (Hin : In c (get [] edges i)) by (apply edges_spec; split; assumption).
             pose proof (fold_upd_in (a - 1) (get [] edges i) avail c Hin). lia.
          -- assert (Hnin : ~ In c (get [] edges i)).
             { intros Hin. apply edges_spec in Hin. destruct Hin as [_ Hin]. contradiction. }
             rewrite fold_upd_notin by exact Hnin. apply Hb; [lia|exact Hc0|lia].
        * intros c. destruct (fold_upd_cases (a - 1) (get [] edges i) avail c) as [E|E];
            rewrite E; [|apply Hc]. pose proof (Hc i). fold a in H. lia.
      + (* not chosen: refs[i] := 0 *)
        assert (Hd' : forall k, (k < i)%nat -> depth (upd refs i 0) k = depth refs k).
        { intros k Hk. apply depth_ext. intros q Hq. apply get_upd_other. lia. }
        assert (Hdi : depth (upd refs i 0) i = O).
        { apply depth_root. apply get_upd_same. lia. }
        apply IH.
        * lia.
        * rewrite upd_length. exact Hlen.
        * intros k. rewrite get_upd.
          destruct ((k =? i)%nat && (k <? length refs)%nat)%bool; [right; reflexivity|apply Hsub].
        * intros k Hk. rewrite get_upd_other by lia. apply Hsame. lia.
        * intros k Hk. destruct (Nat.eq_dec k i) as [->|Hne]; [lia|].
          rewrite Hd' by lia. apply Ha. lia.
        * intros c Hci Hc0 Hp.
          destruct (Nat.eq_dec (c - N.to_nat (get 0%N refs0 c)) i) as [Ei|Ei].
          -- rewrite Ei, Hdi. pose proof (Hc c). lia.
          -- rewrite Hd' by lia. apply Hb; [lia|exact Hc0|lia].
        * exact Hc.
  Qed.
End Apply.

(** * The table of [dp_fill] *)

Lemma dp_fill_col0 M saved edges : forall i table,
  (forall k, snd (get (0%Z, false) (get [] table k) O) = false) ->
  forall k, snd (get (0%Z, false) (get [] (dp_fill M saved edges i table) k) O) = false.
Proof.
  induction i as [|i IH]; intros table H k; cbn [dp_fill]; [apply H|].
  apply IH. intros q. rewrite get_upd.
  destruct ((q =? i)%nat && (q <? length table)%nat)%bool; [reflexivity|apply H].
Qed.

(** the DP pass leaves a forest of depth at most [min m n] *)
Theorem zuck_dp_depth m refs saved : local refs ->
  forall j, (depth (update_refs_for_max_length m refs saved) j <= N.to_nat m)%nat.
Proof.
  intros L j. unfold update_refs_for_max_length.
  set (M := Nat.min (N.to_nat m) (length refs)).
  assert (H : (depth (dp_apply (dp_fill M saved (out_edges refs) (length refs)
                                  (repeat [] (length refs)))
                        (out_edges refs) 0 (length refs) (repeat M (length refs)) refs) j
               <= M)%nat).
  { apply (dp_apply_depth refs L (out_edges refs) (out_edges_spec refs L)).
    - apply dp_fill_col0. intros k. rewrite get_repeat. reflexivity.
    - reflexivity.
    - reflexivity.
    - intros k. left. reflexivity.
    - intros k _. reflexivity.
    - intros k Hk. lia.
    - intros c _ _ Hc. lia.
    - intros c. apply get_repeat_le. }
  lia.
Qed.
