(** Pinned statements about offsets (C05).  Statements only. *)
From WG Require Import Base.Prelude Codes.Codes BV.Model BV.RefSel BV.Bits BV.BitsFacts.
Local Open Scope N_scope.

(** The bit positions at which the decoder starts the successive records are the prefix
    sums of the record lengths — the numbers the offsets file stores — and decoding with
    position tracking returns the graph and leaves the trailing bits. *)
Definition S_offsets_positions : Prop :=
  forall le cs p g sel rest,
  codes_ok cs = true -> Forall inc g -> valid_sel p [] g sel = true ->
  let recs := encode_graph p 0 g sel in
  let s := graph_bits le cs recs ++ rest in
  exists rs,
    decode_records bits (rd_bits le cs) (fun t => nlen s - nlen t) p (length g) 0 [] s
      = Some (rs, rest)
    /\ map (fun r => snd (fst r)) rs = g
    /\ map snd rs = firstn (length g) (prefix_sums 0 (node_bitlens le cs recs)).

(** n+1 entries, the last one is the length of the bit stream *)
Definition S_offsets_shape : Prop := forall le cs recs,
  length (prefix_sums 0 (node_bitlens le cs recs)) = S (length recs)
  /\ last (prefix_sums 0 (node_bitlens le cs recs)) 0 = nlen (graph_bits le cs recs).

(** the offsets file (γ(0) then one γ per record length) reads back as the gaps *)
Definition S_offsets_file : Prop := forall lens rest,
  dec_gammas (S (length lens)) (offsets_bits lens ++ rest) = Some (0 :: lens, rest).
