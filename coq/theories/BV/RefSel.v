(** Reference selection: the greedy selector of [BvComp::push] and the Zuckerli-style
    selector of [BvCompZ] ([push] cost rows, [update_references_for_max_length],
    [find_additional_references_greedily]).  Definitions only.

    Costs are exact naturals/integers; the implementation's f32 sums are exact below
    2^24, a bound the correspondence harness checks on every case. *)
From WG Require Import Base.Prelude Codes.Codes BV.Model.
Local Open Scope N_scope.

Record codes := mkCodes {
  cd_outdeg : code; cd_ref : code; cd_block : code; cd_int : code; cd_res : code }.

Definition kind_code (cs : codes) (k : kind) : code :=
  match k with
  | KOutdeg => cd_outdeg cs
  | KRef => cd_ref cs
  | KBlockCount | KBlock => cd_block cs
  | KIntCount | KIntStart | KIntLen => cd_int cs
  | KFirstRes | KRes => cd_res cs
  end.

Definition fields_len (cs : codes) (fs : list field) : N :=
  nsum (map (fun '(k, v) => code_len (kind_code cs k) v) fs).

Definition exceeds (m : option N) (c : N) : bool :=
  match m with None => false | Some m => m <=? c end.

(** * Greedy ([BvComp::push]) *)

(** Scan candidates [delta, delta+1, ...] over [prev] (most recent first, paired with
    their reference-chain depth); [best = (min_bits, ref_delta, ref_count)]. *)
Fixpoint greedy_scan (p : params) (cs : codes) (x : N) (cur : list N)
  (delta : N) (n : nat) (prev : list (list N * N)) (best : N * N * N) : N * N * N :=
  match n, prev with
  | S n', (rl, cnt) :: prev' =>
    let best' :=
      if exceeds (max_ref p) cnt then best
      else match rl with
           | [] => best
           | _ :: _ =>
             let bits := fields_len cs (node_fields p x cur delta rl) in
             let '(mb, _, _) := best in
             if bits <? mb then (bits, delta, cnt + 1) else best
           end in
    greedy_scan p cs x cur (delta + 1) n' prev' best'
  | _, _ => best
  end.

Definition greedy_choose (p : params) (cs : codes) (x : N) (cur : list N)
  (prev : list (list N * N)) : N * N :=
  if window p =? 0 then (0, 0)
  else
    let base := fields_len cs (node_fields p x cur 0 []) in
    let n := Nat.min (N.to_nat (window p)) (length prev) in
    let '(_, d, c) := greedy_scan p cs x cur 1 n prev (base, 0, 0) in (d, c).

Fixpoint greedy_sel_aux (p : params) (cs : codes) (x : N) (prev : list (list N * N))
  (g : list (list N)) : list N :=
  match g with
  | [] => []
  | cur :: g' =>
    let '(d, c) := greedy_choose p cs x cur prev in
    d :: greedy_sel_aux p cs (x + 1) ((cur, c) :: prev) g'
  end.

Definition greedy_sel (p : params) (cs : codes) (start : N) (g : list (list N)) : list N :=
  greedy_sel_aux p cs start [] g.

(** ** Runs of the greedy rule under an arbitrary tie-break

    [greedy_sel] keeps the FIRST candidate of minimal cost.  Which of several equally cheap
    candidates is kept is irrelevant for the bounds of C06, so the correspondence with the
    implementation is stated against the set of all selections the greedy rule can produce
    when ties among candidates of equal minimal cost are broken arbitrarily.  The checker
    below replays the bookkeeping of [greedy_sel_aux] (previous lists, most recent first,
    with their reference counts; the count of the current node follows from the choice in
    [sel]) and uses the model's own cost estimate [fields_len cs (node_fields ..)]. *)

(** every admissible candidate (count below [max_ref], non-empty list) among the first [n]
    entries of [prev], at distances [delta, delta+1, ...], costs at least [b] bits *)
Fixpoint cand_all_ge (p : params) (cs : codes) (x : N) (cur : list N)
  (delta : N) (n : nat) (prev : list (list N * N)) (b : N) : bool :=
  match n, prev with
  | S n', (rl, cnt) :: prev' =>
    (if exceeds (max_ref p) cnt then true
     else match rl with
          | [] => true
          | _ :: _ => b <=? fields_len cs (node_fields p x cur delta rl)
          end)
    && cand_all_ge p cs x cur (delta + 1) n' prev' b
  | _, _ => true
  end.

(** [Some c]: distance [d] is a possible outcome of the greedy rule for this node, and [c]
    is the reference count the node gets; [None]: it is not.
    - [d = 0] (no reference) is an outcome iff no admissible candidate is strictly cheaper
      than the copy-less encoding (a candidate must be strictly cheaper to be taken);
    - [d >= 1] is an outcome iff [d <= min (window, number of previous nodes)], the list at
      distance [d] is admissible, it is strictly cheaper than the copy-less encoding and no
      admissible candidate is strictly cheaper than it. *)
Definition greedy_choice_ok (p : params) (cs : codes) (x : N) (cur : list N)
  (prev : list (list N * N)) (d : N) : option N :=
  if window p =? 0 then (if d =? 0 then Some 0 else None)
  else
    let base := fields_len cs (node_fields p x cur 0 []) in
    let n := Nat.min (N.to_nat (window p)) (length prev) in
    if d =? 0 then (if cand_all_ge p cs x cur 1 n prev base then Some 0 else None)
    else if d <=? N.of_nat n then
      match nth_opt prev (N.to_nat d - 1) with
      | Some (rl, cnt) =>
        if exceeds (max_ref p) cnt then None
        else match rl with
             | [] => None
             | _ :: _ =>
               let bits := fields_len cs (node_fields p x cur d rl) in
               if (bits <? base) && cand_all_ge p cs x cur 1 n prev bits
               then Some (cnt + 1) else None
             end
      | None => None
      end
    else None.

Fixpoint greedy_run_aux (p : params) (cs : codes) (x : N) (prev : list (list N * N))
  (g : list (list N)) (sel : list N) : bool :=
  match g, sel with
  | [], [] => true
  | cur :: g', d :: sel' =>
    match greedy_choice_ok p cs x cur prev d with
    | Some c => greedy_run_aux p cs (x + 1) ((cur, c) :: prev) g' sel'
    | None => false
    end
  | _, _ => false
  end.

(** [sel] is an output of the greedy rule on [g] under some tie-break among candidates of
    equal minimal cost *)
Definition greedy_run_ok (p : params) (cs : codes) (start : N) (g : list (list N))
  (sel : list N) : bool :=
  greedy_run_aux p cs start [] g sel.

(** * Zuckerli ([BvCompZ]) *)

Definition get {A} (d : A) (l : list A) (i : nat) : A := nth i l d.
Fixpoint upd {A} (l : list A) (i : nat) (v : A) : list A :=
  match l, i with
  | [], _ => []
  | _ :: l', O => v :: l'
  | a :: l', S i' => a :: upd l' i' v
  end.

(** cost row of node number [i] of the chunk: entry [delta] is the estimated length with
    reference distance [delta] ([None] where the referenced list is empty, which the
    implementation skips). *)
Fixpoint cost_row_aux (p : params) (cs : codes) (x : N) (cur : list N)
  (delta : N) (n : nat) (prev : list (list N)) : list (option N) :=
  match n, prev with
  | S n', rl :: prev' =>
    (match rl with
     | [] => None
     | _ :: _ => Some (fields_len cs (node_fields p x cur delta rl))
     end) :: cost_row_aux p cs x cur (delta + 1) n' prev'
  | _, _ => []
  end.

Definition cost_row (p : params) (cs : codes) (x : N) (cur : list N) (prev : list (list N))
  : list (option N) :=
  Some (fields_len cs (node_fields p x cur 0 []))
  :: cost_row_aux p cs x cur 1 (Nat.min (N.to_nat (window p)) (length prev)) prev.

(** nearest strict minimum of a cost row, starting from entry 0 *)
Fixpoint row_best (row : list (option N)) (delta : N) (best : N * N) : N * N :=
  match row with
  | [] => best
  | c :: row' =>
    let best' := match c with
                 | Some bits => if bits <? fst best then (bits, delta) else best
                 | None => best
                 end in
    row_best row' (delta + 1) best'
  end.

Definition row_choice (row : list (option N)) : N * N (* delta, saved *) :=
  match row with
  | Some c0 :: row' => let '(mb, d) := row_best row' 1 (c0, 0) in (d, c0 - mb)
  | _ => (0, 0)
  end.

(** children lists: [out_edges[j]] = the [i] with [refs[i] <> 0] and [i - refs[i] = j] *)
Fixpoint out_edges_aux (refs : list N) (i : nat) (acc : list (list nat)) : list (list nat) :=
  match refs with
  | [] => acc
  | r :: refs' =>
    let acc' := if r =? 0 then acc
                else let j := (i - N.to_nat r)%nat in upd acc j (get [] acc j ++ [i]) in
    out_edges_aux refs' (S i) acc'
  end.
Definition out_edges (refs : list N) : list (list nat) :=
  out_edges_aux refs O (repeat [] (length refs)).

Definition dp_entry : Type := (Z * bool)%type.

Definition child_sum (table : list (list dp_entry)) (children : list nat) (l : nat) : Z :=
  fold_left (fun acc c => (acc + fst (get (0%Z, false) (get [] table c) l))%Z) children 0%Z.

(** the DP row of node [i] for [links_to_use = 1 .. M] *)
Fixpoint dp_row_tail (table : list (list dp_entry)) (children : list nat) (saved full : Z)
  (l : nat) (n : nat) : list dp_entry :=
  match n with
  | O => []
  | S n' =>
    let cs := (saved + child_sum table children (l - 1))%Z in
    (if (full <? cs)%Z then (cs, true) else (full, false))
      :: dp_row_tail table children saved full (S l) n'
  end.

(** process nodes [i-1, i-2, ..., 0] *)
Fixpoint dp_fill (M : nat) (saved : list Z) (edges : list (list nat)) (i : nat)
  (table : list (list dp_entry)) : list (list dp_entry) :=
  match i with
  | O => table
  | S i' =>
    let children := get [] edges i' in
    let full := child_sum table children M in
    let row := (full, false) :: dp_row_tail table children (get 0%Z saved i') full 1 M in
    dp_fill M saved edges i' (upd table i' row)
  end.

(** second pass of [update_references_for_max_length] *)
Fixpoint dp_apply (table : list (list dp_entry)) (edges : list (list nat)) (i : nat) (n : nat)
  (avail : list nat) (refs : list N) : list N :=
  match n with
  | O => refs
  | S n' =>
    let a := get O avail i in
    if snd (get (0%Z, false) (get [] table i) a) then
      let avail' := fold_left (fun av c => upd av c (a - 1)%nat) (get [] edges i) avail in
      dp_apply table edges (S i) n' avail' refs
    else
      dp_apply table edges (S i) n' avail (upd refs i 0)
  end.

Definition update_refs_for_max_length (m : N) (refs : list N) (saved : list Z) : list N :=
  let n := length refs in
  let M := Nat.min (N.to_nat m) n in
  let edges := out_edges refs in
  let table := dp_fill M saved edges n (repeat [] n) in
  dp_apply table edges O n (repeat M n) refs.

(** [find_additional_references_greedily] *)
Fixpoint chain_lengths (refs : list N) (i : nat) (acc : list nat) : list nat :=
  match refs with
  | [] => acc
  | r :: refs' =>
    let acc' := if r =? 0 then acc
                else upd acc i (S (get O acc (i - N.to_nat r))) in
    chain_lengths refs' (S i) acc'
  end.

(** forward chain lengths: processes nodes [i-1, ..., 0] *)
Fixpoint fwd_lengths (refs : list N) (i : nat) (acc : list nat) : list nat :=
  match i with
  | O => acc
  | S i' =>
    let r := get 0 refs i' in
    let acc' := if r =? 0 then acc
                else let parent := (i' - N.to_nat r)%nat in
                     upd acc parent (Nat.max (get O acc parent) (S (get O acc i'))) in
    fwd_lengths refs i' acc'
  end.

(** candidate scan for node [i]: [row] is the tail of its cost row from [delta] on,
    [prev] the previous lists most recent first. *)
Fixpoint readd_scan (m : N) (chain : list nat) (fwd_i : nat) (i : nat)
  (row : list (option N)) (delta : nat) (best : N * N) : N * N :=
  match row with
  | [] => best
  | c :: row' =>
    let best' :=
      if (N.to_nat m <? get O chain (i - delta) + fwd_i + 1)%nat then best
      else match c with
           | Some bits => if bits <? fst best then (bits, N.of_nat delta) else best
           | None => best
           end in
    readd_scan m chain fwd_i i row' (S delta) best'
  end.

Fixpoint readd_loop (m : N) (rows : list (list (option N))) (fwd : list nat)
  (i : nat) (n : nat) (chain : list nat) (refs : list N) : list N :=
  match n with
  | O => refs
  | S n' =>
    let fix_chain (refs : list N) (chain : list nat) :=
      let r := get 0 refs i in
      if r =? 0 then chain else upd chain i (S (get O chain (i - N.to_nat r))) in
    let chain1 := fix_chain refs chain in
    let row := get [] rows i in
    let c0 := match row with Some c :: _ => c | _ => 0 end in
    let '(_, d) := readd_scan m chain1 (get O fwd i) i (tl row) 1 (c0, get 0 refs i) in
    (* the implementation keeps the current reference unless a candidate is strictly
       cheaper than every earlier accepted one, starting from the no-reference cost *)
    let refs' := upd refs i d in
    let chain2 := fix_chain refs' chain1 in
    readd_loop m rows fwd (S i) n' chain2 refs'
  end.

Definition find_additional_refs (m : N) (rows : list (list (option N))) (refs : list N)
  : list N :=
  let n := length refs in
  let chain := chain_lengths refs O (repeat O n) in
  let fwd := fwd_lengths refs n (repeat O n) in
  readd_loop m rows fwd O n chain refs.

(** cost rows and unconstrained choices for one chunk *)
Fixpoint chunk_rows (p : params) (cs : codes) (x : N) (prev : list (list N))
  (g : list (list N)) : list (list (option N)) :=
  match g with
  | [] => []
  | cur :: g' => cost_row p cs x cur prev :: chunk_rows p cs (x + 1) (cur :: prev) g'
  end.

Definition zuck_chunk_sel (p : params) (cs : codes) (x : N) (g : list (list N)) : list N :=
  if window p =? 0 then map (fun _ => 0) g
  else
    let rows := chunk_rows p cs x [] g in
    let ch := map row_choice rows in
    let refs := map fst ch in
    match max_ref p with
    | None => refs
    | Some m =>
      let saved := map (fun c => Z.of_N (snd c)) ch in
      find_additional_refs m rows (update_refs_for_max_length m refs saved)
    end.

(** split into chunks of [k] nodes ([k >= 1]); fuel = number of nodes *)
Fixpoint zuck_sel_aux (fuel : nat) (p : params) (cs : codes) (k : nat) (x : N)
  (g : list (list N)) : list N :=
  match fuel with
  | O => []
  | S f =>
    match g with
    | [] => []
    | _ =>
      let c := firstn k g in
      zuck_chunk_sel p cs x c
        ++ zuck_sel_aux f p cs k (x + nlen c) (skipn k g)
    end
  end.

Definition zuck_sel (p : params) (cs : codes) (k : nat) (start : N) (g : list (list N))
  : list N :=
  zuck_sel_aux (length g) p cs (Nat.max 1 k) start g.
